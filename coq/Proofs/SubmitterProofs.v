(* Proofs/SubmitterProofs.v — lemmas about Model/Submitter.v (property C06). *)
From Coq Require Import NArith Arith List Bool Sorted Lia ZifyBool ZifyN ZifyNat.
From Verif Require Import Model.Submitter.
From Verif Require Check.SubmitterCheck.
Import ListNotations.
Open Scope N_scope.

(* ---- lists --------------------------------------------------------------------------------------- *)

Notation sorted := (StronglySorted N.lt).

Lemma in_seqN : forall len a x, In x (seqN a len) <-> a <= x < a + N.of_nat len.
Proof.
  induction len as [|len IH]; intros a x; cbn [seqN In].
  - lia.
  - rewrite IH. lia.
Qed.

Lemma length_seqN : forall len a, length (seqN a len) = len.
Proof. induction len; intros; cbn [seqN length]; auto. Qed.

Lemma sorted_seqN : forall len a, sorted (seqN a len).
Proof.
  induction len as [|len IH]; intros a; cbn [seqN]; constructor; auto.
  apply Forall_forall. intros x Hx. apply in_seqN in Hx. lia.
Qed.

Lemma sorted_filter : forall (f : N -> bool) l, sorted l -> sorted (filter f l).
Proof.
  intros f l H. induction H as [|a l Hs IH Hf]; cbn [filter]; [constructor|].
  destruct (f a); auto. constructor; auto.
  apply Forall_forall. intros x Hx. apply filter_In in Hx. destruct Hx as [Hx _].
  rewrite Forall_forall in Hf. auto.
Qed.

Lemma filter_length_le' : forall (f : N -> bool) l, (length (filter f l) <= length l)%nat.
Proof. induction l; cbn [filter length]; [lia|]. destruct (f a); cbn [length]; lia. Qed.

Lemma filter_true : forall l : list N, filter (fun _ => true) l = l.
Proof. induction l; cbn [filter]; congruence. Qed.

Lemma sorted_app : forall a b, sorted (a ++ b) ->
  sorted a /\ sorted b /\ (forall x y, In x a -> In y b -> x < y).
Proof.
  induction a as [|h a IH]; intros b H; cbn [app] in *.
  - repeat split; [constructor | assumption | intros x y []].
  - inversion H as [|? ? Hs Hf]; subst. destruct (IH _ Hs) as (Ha & Hb & Hab).
    rewrite Forall_forall in Hf.
    repeat split; auto.
    + constructor; auto. apply Forall_forall. intros x Hx. apply Hf. apply in_or_app; auto.
    + intros x y [<-|Hx] Hy; [apply Hf; apply in_or_app; auto | auto].
Qed.

Lemma last_in : forall (a : list N) d, a <> [] -> In (last a d) a.
Proof.
  induction a as [|h a IH]; intros d Hne; [congruence|].
  destruct a as [|h' a]; [left; reflexivity|].
  right. change (last (h :: h' :: a) d) with (last (h' :: a) d). apply IH. congruence.
Qed.

Lemma sorted_le_last : forall a d x, sorted a -> In x a -> x <= last a d.
Proof.
  induction a as [|h a IH]; intros d x Hs Hx; [destruct Hx|].
  inversion Hs as [|? ? Hs' Hf]; subst. rewrite Forall_forall in Hf.
  destruct a as [|h' a].
  - destruct Hx as [<-|[]]. cbn. lia.
  - change (last (h :: h' :: a) d) with (last (h' :: a) d).
    destruct Hx as [<-|Hx].
    + assert (In (last (h' :: a) d) (h' :: a)) by (apply last_in; congruence).
      specialize (Hf _ H). lia.
    + apply IH; auto.
Qed.

(* ---- the invariant of one pending list --------------------------------------------------------------- *)

Section Side.
  Variables (init hi : N) (rel : N -> bool).

  Definition call_ok (c : call) : Prop :=
    c_vol c = resume init (c_meta c) /\ sorted (c_hs c) /\
    forall x, In x (c_hs c) ->
      c_vol c < x <= hi /\ init <= x /\ rel x = true /\
      forall m, c_vol c < m < x -> rel m = true -> In m (c_hs c).

  Record SInv (sd : side) : Prop := {
    si_meta : vol sd = resume init (meta sd);
    si_base : base init <= vol sd;
    si_le : vol sd <= hi;
    si_sound : forall m, init <= m <= vol sd -> rel m = true -> In m (acc sd);
    si_closed : forall x, In x (acc sd) ->
        init <= x <= hi /\ rel x = true /\ forall m, init <= m < x -> rel m = true -> In m (acc sd);
    si_calls : Forall call_ok (calls sd) }.

  (* what submitToDA still has to submit: exactly the relevant heights above the watermark, in order *)
  Record RemOK (rem : list N) (sd : side) : Prop := {
    ro_sorted : sorted rem;
    ro_in : forall x, In x rem -> vol sd < x <= hi /\ init <= x /\ rel x = true;
    ro_all : forall m, vol sd < m <= hi -> rel m = true -> In m rem }.

  Lemma log_call_inv : forall rem o sd, SInv sd -> RemOK rem sd ->
    SInv (log_call rem o sd) /\ RemOK rem (log_call rem o sd).
  Proof.
    intros rem o sd I R. destruct I as [Im Ib Il Is Ic Ik]. destruct R as [Rs Ri Ra].
    set (a := N.to_nat (da_accepts o (N.of_nat (length rem)))).
    assert (Hsplit : rem = firstn a rem ++ skipn a rem) by (symmetry; apply firstn_skipn).
    assert (Hsa : sorted (firstn a rem ++ skipn a rem)) by (rewrite <- Hsplit; exact Rs).
    destruct (sorted_app _ _ Hsa) as (_ & _ & Hlt).
    assert (Hsub : forall x, In x (firstn a rem) -> In x rem).
    { intros x Hx. rewrite Hsplit. apply in_or_app; auto. }
    split.
    - constructor; cbn [log_call vol meta acc calls]; fold a; auto.
      + intros m Hm Hr. apply in_or_app. right. auto.
      + intros x Hx. apply in_app_or in Hx. destruct Hx as [Hx|Hx].
        * apply in_rev in Hx. destruct (Ri _ (Hsub _ Hx)) as (Hv & Hi & Hr).
          split; [lia|]. split; [exact Hr|].
          intros m Hm Hrm. apply in_or_app.
          destruct (N.le_gt_cases m (vol sd)) as [Hle|Hgt].
          -- right. apply Is; auto. lia.
          -- left. apply -> in_rev.
             assert (Hin : In m rem) by (apply Ra; auto; lia).
             rewrite Hsplit in Hin. apply in_app_or in Hin. destruct Hin as [Hin|Hin]; auto.
             specialize (Hlt _ _ Hx Hin). lia.
        * destruct (Ic _ Hx) as (Hr1 & Hr2 & Hr3). split; [exact Hr1|]. split; [exact Hr2|].
          intros m Hm Hrm. apply in_or_app. right. auto.
      + constructor; auto.
        unfold call_ok; cbn [c_vol c_meta c_hs]. repeat split; auto; try (apply Ri; auto).
        intros m Hm Hrm. apply Ra; auto. destruct (Ri _ H) as (? & _). lia.
    - constructor; cbn [log_call vol]; auto.
  Qed.

  (* the success branch: the first [cnt] of [rem] were accepted and acknowledged *)
  Lemma success_inv : forall rem k sd (cnt : N),
    SInv sd -> RemOK rem sd ->
    cnt = N.min k (N.of_nat (length rem)) ->
    let sd1 := log_call rem (OAccept k) sd in
    let sd2 := set_last (last_height (firstn (N.to_nat cnt) rem)) sd1 in
    SInv sd2 /\ RemOK (skipn (N.to_nat cnt) rem) sd2 /\
    (cnt = N.of_nat (length rem) -> forall m, init <= m <= hi -> rel m = true -> In m (acc sd2)) /\
    (cnt = N.of_nat (length rem) -> rem <> [] -> vol sd2 = last rem 0).
  Proof.
    intros rem k sd cnt I R Hc sd1 sd2.
    destruct (log_call_inv rem (OAccept k) sd I R) as [I1 R1]. fold sd1 in I1, R1.
    assert (Hacc : acc sd1 = rev (firstn (N.to_nat cnt) rem) ++ acc sd).
    { unfold sd1, log_call; cbn [acc da_accepts]. rewrite Hc. reflexivity. }
    assert (Hvol1 : vol sd1 = vol sd) by reflexivity.
    set (a := N.to_nat cnt) in *.
    assert (Ha : a = N.to_nat cnt) by reflexivity. clearbody a.
    assert (Hsplit : rem = firstn a rem ++ skipn a rem) by (symmetry; apply firstn_skipn).
    destruct R1 as [Rs Ri Ra].
    assert (Hsa : sorted (firstn a rem ++ skipn a rem)) by (rewrite <- Hsplit; exact Rs).
    destruct (sorted_app _ _ Hsa) as (Hs1 & Hs2 & Hlt).
    assert (Hsub : forall x, In x (firstn a rem) -> In x rem).
    { intros x Hx. rewrite Hsplit. apply in_or_app; auto. }
    assert (Hsub2 : forall x, In x (skipn a rem) -> In x rem).
    { intros x Hx. rewrite Hsplit. apply in_or_app; auto. }
    destruct (firstn a rem) as [|f0 fr] eqn:Hf.
    - (* nothing acknowledged: set_last 0 is a no-op *)
      assert (Hsd2 : sd2 = sd1).
      { unfold sd2, set_last, last_height. cbn [last].
        destruct (vol sd1 <? 0) eqn:E; [lia | reflexivity]. }
      rewrite Hsd2. cbn [app] in Hsplit.
      split; [exact I1|]. split; [|split].
      + constructor; rewrite <- Hsplit; auto.
      + intros Hall m Hm Hrm.
        assert (rem = []).
        { destruct rem as [|r0 rr]; auto. destruct a; [|cbn in Hf; discriminate].
          cbn [length] in Hall. lia. }
        subst rem. destruct (N.le_gt_cases m (vol sd1)).
        * apply (si_sound _ I1); auto. lia.
        * exfalso. assert (Hin : In m []) by (apply Ra; auto; lia). destruct Hin.
      + intros Hall Hne.
        destruct rem as [|r0 rr]; [congruence|]. destruct a; [|cbn in Hf; discriminate].
        cbn [length] in Hall. lia.
    - set (v' := last (f0 :: fr) 0).
      assert (Hv'in : In v' (f0 :: fr)) by (apply last_in; congruence).
      assert (Hv'le : forall x, In x (f0 :: fr) -> x <= v') by (intros; apply sorted_le_last; auto).
      destruct (Ri _ (Hsub _ Hv'in)) as (Hv'1 & Hv'2 & Hv'3).
      assert (Hsd2 : sd2 = {| vol := v'; meta := Some v'; acc := acc sd1; calls := calls sd1 |}).
      { unfold sd2, set_last, last_height. fold v'.
        destruct (vol sd1 <? v') eqn:E; [reflexivity | lia]. }
      rewrite Hsd2.
      assert (Hfirst : forall m, In m rem -> m <= v' -> In m (f0 :: fr)).
      { intros m Hin Hle. rewrite Hsplit in Hin. apply in_app_or in Hin. destruct Hin as [|Hin]; auto.
        specialize (Hlt _ _ Hv'in Hin). lia. }
      assert (Hsound : forall m, init <= m <= v' -> rel m = true -> In m (acc sd1)).
      { intros m Hm Hrm. destruct (N.le_gt_cases m (vol sd1)) as [Hle|Hgt].
        - apply (si_sound _ I1); auto. lia.
        - rewrite Hacc. apply in_or_app. left. apply -> in_rev. apply Hfirst; try lia.
          apply Ra; auto. lia. }
      split; [|split; [|split]].
      + pose proof (si_base _ I1) as Hb1.
        constructor; cbn [vol meta acc calls]; auto; try lia.
        * unfold resume, meta0. destruct (v' =? 0) eqn:E0; lia.
        * apply (si_closed _ I1).
        * apply (si_calls _ I1).
      + constructor; cbn [vol]; auto.
        * intros x Hx. destruct (Ri _ (Hsub2 _ Hx)) as (? & ? & ?).
          specialize (Hlt _ _ Hv'in Hx). repeat split; auto; lia.
        * intros m Hm Hrm. assert (Hin : In m rem) by (apply Ra; auto; lia).
          rewrite Hsplit in Hin. apply in_app_or in Hin. destruct Hin as [Hin|]; auto.
          specialize (Hv'le _ Hin). lia.
      + intros Hall m Hm Hrm. cbn [acc].
        assert (Hfull : f0 :: fr = rem).
        { rewrite <- Hf. apply firstn_all2. lia. }
        destruct (N.le_gt_cases m (vol sd1)) as [Hle|Hgt].
        * apply (si_sound _ I1); auto. lia.
        * rewrite Hacc. apply in_or_app. left. apply -> in_rev. rewrite Hfull. apply Ra; auto. lia.
      + intros Hall Hne. cbn [vol]. unfold v'.
        assert (Hfull : f0 :: fr = rem).
        { rewrite <- Hf. apply firstn_all2. lia. }
        rewrite Hfull. reflexivity.
  Qed.

  Lemma helper_success : forall o n cnt, helper_status o n = (SSuccess, cnt) ->
    exists k, o = OAccept k /\ cnt = N.min k n.
  Proof.
    intros o n cnt H. destruct o as [k|f|k f|b0]; cbn [helper_status] in H.
    - exists k. split; auto.
      destruct ((N.min k n =? 0) && negb (n =? 0)); congruence.
    - destruct f; discriminate.
    - destruct f; discriminate.
    - discriminate.
  Qed.

  Lemma submit_inv : forall c fuel b rem sc sd el,
    SInv sd -> RemOK rem sd ->
    SInv (fst (fst (fst (submit c fuel b rem sc sd el)))).
  Proof.
    induction fuel as [|f IH]; intros b rem sc sd el I R; cbn [submit]; [exact I|].
    destruct sc as [|o sc']; [exact I|].
    destruct (log_call_inv rem o sd I R) as [I1 R1].
    destruct (helper_status o (N.of_nat (length rem))) as [st cnt] eqn:Hs.
    destruct st; try (apply IH; assumption); try exact I1.
    destruct (helper_success _ _ _ Hs) as (k & -> & Hc).
    destruct (success_inv rem k sd cnt I R Hc) as (I2 & R2 & _).
    destruct (cnt =? N.of_nat (length rem)); [exact I2 | apply IH; assumption].
  Qed.

  Lemma submit_mono : forall c fuel b rem sc sd el,
    vol sd <= vol (fst (fst (fst (submit c fuel b rem sc sd el)))).
  Proof.
    induction fuel as [|f IH]; intros b rem sc sd el; cbn [submit]; [cbn [fst]; lia|].
    destruct sc as [|o sc']; cbn [fst]; [lia|].
    assert (Hset : forall n sd0, vol sd0 <= vol (set_last n sd0)).
    { intros n sd0. unfold set_last. destruct (vol sd0 <? n) eqn:E; cbn [vol]; lia. }
    destruct (helper_status o (N.of_nat (length rem))) as [st cnt]; destruct st;
      try (etransitivity; [|apply IH]; cbn [log_call vol]; lia); try (cbn [fst log_call vol]; lia).
    destruct (cnt =? N.of_nat (length rem)).
    - cbn [fst]. etransitivity; [|apply Hset]. cbn [log_call vol]. lia.
    - etransitivity; [|apply IH]. etransitivity; [|apply Hset]. cbn [log_call vol]. lia.
  Qed.

  (* the heights getPending returns, after eliding the irrelevant ones, are what RemOK asks for *)
  Lemma pending_remok : forall sd r, SInv sd -> pending_range init hi (vol sd) = Some r ->
    RemOK (filter rel r) sd.
  Proof.
    intros sd r I H. unfold pending_range in H.
    destruct (vol sd =? hi) eqn:E1.
    - injection H as <-. cbn [filter]. constructor; [constructor | intros x [] |].
      intros m Hm. lia.
    - destruct (hi <? vol sd) eqn:E2; [discriminate|].
      destruct (forallb _ _) eqn:E3; [|discriminate]. injection H as <-.
      rewrite forallb_forall in E3.
      constructor.
      + apply sorted_filter, sorted_seqN.
      + intros x Hx. apply filter_In in Hx. destruct Hx as [Hx Hr].
        specialize (E3 _ Hx). apply in_seqN in Hx. repeat split; auto; lia.
      + intros m Hm Hr. apply filter_In. split; auto. apply in_seqN. lia.
  Qed.

  Definition relf (o : option (N -> bool)) : N -> bool :=
    match o with Some f => f | None => fun _ => true end.

  Lemma items_filter : forall (o : option (N -> bool)) r,
    match o with Some f => filter f r | None => r end = filter (relf o) r.
  Proof. intros [f|] r; cbn [relf]; [reflexivity | symmetry; apply filter_true]. Qed.
End Side.

Lemma tick_inv : forall c o init hi sc sd,
  SInv init hi (relf o) sd -> SInv init hi (relf o) (fst (fst (fst (tick_side c o init hi sc sd)))).
Proof.
  intros c o init hi sc sd I. unfold tick_side.
  destruct (vol sd =? hi); [exact I|].
  destruct (pending_range init hi (vol sd)) as [r|] eqn:Hp; [|exact I].
  rewrite items_filter.
  pose proof (pending_remok init hi (relf o) sd r I Hp) as R.
  destruct (filter (relf o) r) eqn:Hf; [exact I|]. rewrite <- Hf in *.
  apply submit_inv; assumption.
Qed.

Lemma tick_mono : forall c o init hi sc sd,
  vol sd <= vol (fst (fst (fst (tick_side c o init hi sc sd)))).
Proof.
  intros. unfold tick_side.
  destruct (vol sd =? hi); cbn [fst]; [lia|].
  destruct (pending_range init hi (vol sd)); cbn [fst]; [|lia].
  destruct (match o with Some f => filter f l | None => l end) eqn:E; cbn [fst]; [lia|].
  apply submit_mono. exact (fun _ => true).
Qed.

Lemma loop_inv : forall c o init hi fuel sc sd,
  SInv init hi (relf o) sd -> SInv init hi (relf o) (loop_side c o init hi fuel sc sd).
Proof.
  induction fuel as [|f IH]; intros sc sd I; cbn [loop_side]; [exact I|].
  destruct sc as [|o0 sc0]; [exact I|].
  pose proof (tick_inv c o init hi (o0 :: sc0) sd I) as It.
  destruct (tick_side c o init hi (o0 :: sc0) sd) as [[[sd' sc'] r] el]. cbn [fst] in It.
  destruct (made_call r); [apply IH|]; exact It.
Qed.

Lemma loop_mono : forall c o init hi fuel sc sd,
  vol sd <= vol (loop_side c o init hi fuel sc sd).
Proof.
  induction fuel as [|f IH]; intros sc sd; cbn [loop_side]; [lia|].
  destruct sc as [|o0 sc0]; [lia|].
  pose proof (tick_mono c o init hi (o0 :: sc0) sd) as Mt.
  destruct (tick_side c o init hi (o0 :: sc0) sd) as [[[sd' sc'] r] el]. cbn [fst] in Mt.
  destruct (made_call r); [etransitivity; [exact Mt | apply IH] | exact Mt].
Qed.

(* anything that log_call and set_last preserve is preserved by the loops *)
Section Pres.
  Variable P : side -> Prop.
  Hypothesis P_log : forall rem o sd, P sd -> P (log_call rem o sd).
  Hypothesis P_set : forall n sd, P sd -> P (set_last n sd).

  Lemma submit_pres : forall c fuel b rem sc sd el, P sd -> P (fst (fst (fst (submit c fuel b rem sc sd el)))).
  Proof.
    induction fuel as [|f IH]; intros b rem sc sd el H; cbn [submit]; [exact H|].
    destruct sc as [|o sc']; [exact H|].
    destruct (helper_status o (N.of_nat (length rem))) as [st cnt]; destruct st;
      try (apply IH; apply P_log; exact H); try (cbn [fst]; apply P_log; exact H).
    destruct (cnt =? N.of_nat (length rem)); [cbn [fst]|apply IH]; apply P_set, P_log, H.
  Qed.

  Lemma tick_pres : forall c o init hi sc sd, P sd -> P (fst (fst (fst (tick_side c o init hi sc sd)))).
  Proof.
    intros. unfold tick_side.
    destruct (vol sd =? hi); [exact H|].
    destruct (pending_range init hi (vol sd)); [|exact H].
    destruct (match o with Some f => filter f l | None => l end) eqn:E; [exact H|].
    apply submit_pres, H.
  Qed.

  Lemma loop_pres : forall c o init hi fuel sc sd, P sd -> P (loop_side c o init hi fuel sc sd).
  Proof.
    induction fuel as [|f IH]; intros sc sd H; cbn [loop_side]; [exact H|].
    destruct sc as [|o0 sc0]; [exact H|].
    pose proof (tick_pres c o init hi (o0 :: sc0) sd H) as Ht.
    destruct (tick_side c o init hi (o0 :: sc0) sd) as [[[sd' sc'] r] el]. cbn [fst] in Ht.
    destruct (made_call r); [apply IH|]; exact Ht.
  Qed.
End Pres.

Lemma recorded_stays : forall sd, meta0 (meta sd) <> 0 ->
  (forall rem o, meta0 (meta (log_call rem o sd)) <> 0) /\ (forall n, meta0 (meta (set_last n sd)) <> 0).
Proof.
  intros sd H. split; [intros; exact H|].
  intros n. unfold set_last. destruct (vol sd <? n) eqn:E; [cbn [meta meta0]; lia | exact H].
Qed.

(* a longer chain: the invariant is stable *)
Lemma sinv_grow : forall init hi hi' rel rel' sd,
  hi <= hi' -> (forall m, m <= hi -> rel' m = rel m) ->
  SInv init hi rel sd -> SInv init hi' rel' sd.
Proof.
  intros init hi hi' rel rel' sd Hle Hrel [Im Ib Il Is Ic Ik].
  constructor; auto; try lia.
  - intros m Hm Hr. apply Is; auto. rewrite <- Hrel; auto. lia.
  - intros x Hx. destruct (Ic _ Hx) as (H1 & H2 & H3). repeat split; try lia.
    + rewrite Hrel; auto. lia.
    + intros m Hm Hr. apply H3; auto. rewrite <- Hrel; auto. lia.
  - rewrite Forall_forall in *. intros cl Hcl. destruct (Ik _ Hcl) as (C1 & C2 & C3).
    repeat split; auto; destruct (C3 _ H) as (D1 & D2 & D3 & D4); try lia.
    + rewrite Hrel; auto. lia.
    + intros m Hm Hr. apply D4; auto. rewrite <- Hrel; auto. lia.
Qed.

Lemma sinv_reinit : forall init hi rel sd, SInv init hi rel sd -> reinit init sd = sd.
Proof. intros init hi rel [v m a cs] I. unfold reinit. cbn. f_equal. symmetry. exact (si_meta _ _ _ _ I). Qed.

(* ---- the node ------------------------------------------------------------------------------------ *)

Definition rel_h : N -> bool := fun _ => true.
Definition rel_d (s : state) : N -> bool := nonempty_at (s_init s) (s_chain s).

Definition Inv (s : state) : Prop :=
  1 <= s_init s /\
  SInv (s_init s) (height s) rel_h (s_h s) /\ SInv (s_init s) (height s) (rel_d s) (s_d s).

Lemma relf_rel_of : forall k s, relf (rel_of k s) = match k with KHeader => rel_h | KData => rel_d s end.
Proof. intros [] s; reflexivity. Qed.

Lemma inv_get : forall k s, Inv s ->
  SInv (s_init s) (height s) (relf (rel_of k s)) (get_side k s).
Proof. intros [] s (H1 & Ih & Id); rewrite relf_rel_of; assumption. Qed.

Lemma inv_set : forall k s sd, Inv s ->
  SInv (s_init s) (height s) (relf (rel_of k s)) sd -> Inv (set_side k s sd).
Proof. intros [] s sd (H1 & Ih & Id) I; rewrite relf_rel_of in I; (split; [|split]); assumption. Qed.

Lemma boot_sinv : forall init rel, 1 <= init -> SInv init (init - 1 + 0) rel (boot_side init).
Proof.
  intros init rel H1.
  assert (Hb : base init = init - 1) by (unfold base; destruct (1 <? init) eqn:E; lia).
  constructor; cbn [boot_side vol meta acc calls]; unfold resume; cbn [meta0 N.eqb]; auto; try lia.
  intros x [].
Qed.

Lemma inv_boot : forall init, 1 <= init -> Inv (boot init).
Proof. intros; split; [assumption|split; apply boot_sinv; assumption]. Qed.

Lemma nonempty_at_app : forall init chain b m,
  1 <= init -> m <= init - 1 + N.of_nat (length chain) -> nonempty_at init (chain ++ [b]) m = nonempty_at init chain m.
Proof.
  intros init chain b m H1 Hm. unfold nonempty_at.
  destruct (init <=? m) eqn:E; cbn [andb]; auto.
  rewrite app_nth1; auto. lia.
Qed.

Lemma inv_step : forall c s i, Inv s -> Inv (fst (step c s i)).
Proof.
  intros c s i I. destruct i as [b|k sc|k sc|]; cbn [step].
  - destruct I as (H1 & Ih & Id). cbn [fst]. unfold Inv, height, rel_d. cbn [s_init s_chain s_h s_d].
    rewrite app_length. cbn [length].
    split; [exact H1|]. split.
    + eapply sinv_grow; [| |exact Ih]; unfold height; [lia | reflexivity].
    + eapply sinv_grow; [| |exact Id]; unfold height; [lia |].
      intros m Hm. apply nonempty_at_app; [exact H1 | exact Hm].
  - pose proof (tick_inv c (rel_of k s) (s_init s) (height s) sc (get_side k s) (inv_get k s I)) as It.
    destruct (tick_side c (rel_of k s) (s_init s) (height s) sc (get_side k s)) as [[[sd' sc'] r] el].
    cbn [fst] in *. apply inv_set; assumption.
  - cbn [fst]. apply inv_set; auto. apply loop_inv. apply inv_get; auto.
  - cbn [fst]. destruct I as (H1 & Ih & Id).
    rewrite (sinv_reinit _ _ _ _ Ih), (sinv_reinit _ _ _ _ Id).
    (split; [|split]); assumption.
Qed.

Lemma inv_run_from : forall c h s, Inv s -> Inv (run_from c s h).
Proof.
  induction h as [|i h IH]; intros s I; cbn; auto. apply IH, inv_step, I.
Qed.

Lemma inv_run : forall c init h, 1 <= init -> Inv (run c init h).
Proof. intros. apply inv_run_from, inv_boot. assumption. Qed.

Lemma run_app : forall c init h1 h2, run c init (h1 ++ h2) = run_from c (run c init h1) h2.
Proof. intros. unfold run, run_from. apply fold_left_app. Qed.

Lemma step_init : forall c s i, s_init (fst (step c s i)) = s_init s.
Proof.
  intros c s i. destruct i as [b|k sc|k sc|]; cbn [step]; auto.
  - destruct (tick_side _ _ _ _ _ _) as [[[sd' sc'] r] el]. destruct k; reflexivity.
  - destruct k; reflexivity.
Qed.

Lemma run_from_init : forall c h s, s_init (run_from c s h) = s_init s.
Proof.
  intros c h. unfold run_from. induction h as [|i h IH]; intros s; cbn [fold_left]; auto.
  rewrite IH. apply step_init.
Qed.

Lemma run_init : forall c init h, s_init (run c init h) = init.
Proof. intros. unfold run. rewrite run_from_init. reflexivity. Qed.

(* ---- watermark soundness, order, no skipping (C06, safety) ----------------------------------------- *)

Definition strictly_increasing (l : list N) : Prop := StronglySorted N.lt l.

Definition relevant (k : kind) (s : state) (m : N) : Prop :=
  match k with KHeader => True | KData => nonempty_at (s_init s) (s_chain s) m = true end.

Lemma relevant_rel : forall k s m, relevant k s m <-> relf (rel_of k s) m = true.
Proof. intros [] s m; cbn; unfold rel_h; tauto. Qed.

Definition watermark_sound_stmt (s : state) (k : kind) : Prop :=
  let sd := get_side k s in
  (* the in-memory watermark is the one a restart resumes from: the recorded one, or initial height - 1 while
     nothing is recorded *)
  vol sd = resume (s_init s) (meta sd) /\ vol sd = N.max (meta0 (meta sd)) (s_init s - 1) /\
  (* it never exceeds the chain height *)
  vol sd <= height s /\
  (* every (relevant) height up to it has its blob accepted by the DA layer *)
  (forall m, s_init s <= m <= vol sd -> relevant k s m -> In m (acc sd)) /\
  (* the DA layer holds only committed blocks, and never a height whose (relevant) predecessors it lacks *)
  (forall x, In x (acc sd) -> s_init s <= x <= height s /\ relevant k s x /\
             forall m, s_init s <= m < x -> relevant k s m -> In m (acc sd)) /\
  (* every submit call ever made: was made with the in-memory watermark a restart would resume from; carries strictly increasing
     heights, all above the watermark, all of committed blocks; and skips no relevant height above the
     watermark (so it starts at the first relevant height above it) *)
  (forall cl, In cl (calls sd) ->
     c_vol cl = resume (s_init s) (c_meta cl) /\ strictly_increasing (c_hs cl) /\
     forall x, In x (c_hs cl) ->
       c_vol cl < x <= height s /\ s_init s <= x /\ relevant k s x /\
       forall m, c_vol cl < m < x -> relevant k s m -> In m (c_hs cl)).

Lemma watermark_sound : forall c init h k, 1 <= init -> watermark_sound_stmt (run c init h) k.
Proof.
  intros c init h k H1. pose proof (inv_get k _ (inv_run c init h H1)) as [Im Ib Il Is Ic Ik].
  unfold watermark_sound_stmt. cbv zeta.
  assert (Hi : s_init (run c init h) = init) by apply run_init.
  split; [exact Im|]. split.
  { rewrite Hi in *. rewrite Im in Ib |- *. unfold resume, base in *.
    destruct (meta0 (meta (get_side k (run c init h))) =? 0) eqn:E0; destruct (1 <? init) eqn:E1; lia. }
  repeat split; auto.
  - intros m Hm Hr. apply Is; auto. apply relevant_rel; auto.
  - apply (Ic _ H).
  - apply (Ic _ H).
  - apply relevant_rel. apply (Ic _ H).
  - intros m Hm Hr. apply (Ic _ H); auto. apply relevant_rel; auto.
  - rewrite Forall_forall in Ik. apply (Ik _ H).
  - rewrite Forall_forall in Ik. apply (Ik _ H).
  - rewrite Forall_forall in Ik. destruct (Ik _ H) as (_ & _ & C3). apply (C3 _ H0).
  - rewrite Forall_forall in Ik. destruct (Ik _ H) as (_ & _ & C3). apply (C3 _ H0).
  - rewrite Forall_forall in Ik. destruct (Ik _ H) as (_ & _ & C3). apply (C3 _ H0).
  - apply relevant_rel. rewrite Forall_forall in Ik. destruct (Ik _ H) as (_ & _ & C3). apply (C3 _ H0).
  - intros m Hm Hr. rewrite Forall_forall in Ik. destruct (Ik _ H) as (_ & _ & C3).
    apply (C3 _ H0); auto. apply relevant_rel; auto.
Qed.

(* ---- monotonicity ---------------------------------------------------------------------------------- *)

Lemma step_mono : forall c s i k, Inv s -> vol (get_side k s) <= vol (get_side k (fst (step c s i))).
Proof.
  intros c s i k I. destruct i as [b|k' sc|k' sc|]; cbn [step fst].
  - destruct k; cbn; lia.
  - pose proof (tick_mono c (rel_of k' s) (s_init s) (height s) sc (get_side k' s)) as M.
    destruct (tick_side c (rel_of k' s) (s_init s) (height s) sc (get_side k' s)) as [[[sd' sc'] r] el].
    cbn [fst] in *. destruct k, k'; cbn [get_side set_side s_h s_d] in *; lia.
  - pose proof (loop_mono c (rel_of k' s) (s_init s) (height s) (S (length sc)) sc (get_side k' s)) as M.
    destruct k, k'; cbn [get_side set_side s_h s_d] in *; lia.
  - destruct I as (H1 & Ih & Id). rewrite (sinv_reinit _ _ _ _ Ih), (sinv_reinit _ _ _ _ Id).
    destruct k; cbn; lia.
Qed.

Lemma run_from_mono : forall c h s k, Inv s -> vol (get_side k s) <= vol (get_side k (run_from c s h)).
Proof.
  induction h as [|i h IH]; intros s k I; cbn; [lia|].
  etransitivity; [apply (step_mono c s i k I)|]. apply IH. apply inv_step, I.
Qed.

Lemma step_recorded : forall c s i k, Inv s ->
  meta0 (meta (get_side k s)) <> 0 -> meta0 (meta (get_side k (fst (step c s i)))) <> 0.
Proof.
  intros c s i k I H.
  assert (PL : forall rem o sd, meta0 (meta sd) <> 0 -> meta0 (meta (log_call rem o sd)) <> 0)
    by (intros; apply recorded_stays; auto).
  assert (PS : forall n sd, meta0 (meta sd) <> 0 -> meta0 (meta (set_last n sd)) <> 0)
    by (intros; apply recorded_stays; auto).
  destruct i as [b|k' sc|k' sc|]; cbn [step fst].
  - destruct k; exact H.
  - pose proof (tick_pres _ PL PS c (rel_of k' s) (s_init s) (height s) sc (get_side k' s)) as M.
    destruct (tick_side c (rel_of k' s) (s_init s) (height s) sc (get_side k' s)) as [[[sd' sc'] r] el].
    cbn [fst] in *. destruct k, k'; cbn [get_side set_side s_h s_d] in *; auto.
  - pose proof (loop_pres _ PL PS c (rel_of k' s) (s_init s) (height s) (S (length sc)) sc (get_side k' s)) as M.
    destruct k, k'; cbn [get_side set_side s_h s_d] in *; auto.
  - destruct I as (H1 & Ih & Id). rewrite (sinv_reinit _ _ _ _ Ih), (sinv_reinit _ _ _ _ Id).
    destruct k; exact H.
Qed.

Lemma run_from_recorded : forall c h s k, Inv s ->
  meta0 (meta (get_side k s)) <> 0 -> meta0 (meta (get_side k (run_from c s h))) <> 0.
Proof.
  induction h as [|i h IH]; intros s k I H; cbn; [exact H|].
  apply IH; [apply inv_step, I | apply step_recorded; assumption].
Qed.

Lemma watermark_monotone : forall c init h1 h2 k, 1 <= init ->
  vol (get_side k (run c init h1)) <= vol (get_side k (run c init (h1 ++ h2))) /\
  meta0 (meta (get_side k (run c init h1))) <= meta0 (meta (get_side k (run c init (h1 ++ h2)))).
Proof.
  intros c init h1 h2 k H1.
  pose proof (inv_get k _ (inv_run c init h1 H1)) as I1.
  pose proof (inv_get k _ (inv_run c init (h1 ++ h2) H1)) as I2.
  assert (Hm : forall sd hi rel, SInv init hi rel sd -> meta0 (meta sd) = 0 \/ meta0 (meta sd) = vol sd).
  { intros sd hi rel I. rewrite (si_meta _ _ _ _ I). unfold resume.
    destruct (meta0 (meta sd) =? 0) eqn:E; [left; lia | right; reflexivity]. }
  assert (Hi1 : s_init (run c init h1) = init) by apply run_init.
  assert (Hi2 : s_init (run c init (h1 ++ h2)) = init) by apply run_init.
  rewrite Hi1 in I1. rewrite Hi2 in I2.
  pose proof (run_from_mono c h2 _ k (inv_run c init h1 H1)) as Mv. rewrite <- run_app in Mv.
  split; [exact Mv|].
  destruct (N.eq_dec (meta0 (meta (get_side k (run c init h1)))) 0) as [Z|Hnz]; [lia|].
  pose proof (run_from_recorded c h2 _ k (inv_run c init h1 H1) Hnz) as Hp. rewrite <- run_app in Hp.
  destruct (Hm _ _ _ I1) as [E1|E1]; [lia|].
  destruct (Hm _ _ _ I2) as [E2|E2]; lia.
Qed.

(* ---- liveness under an accepting DA layer (guard: initial height 1), and its failure above 1 ---------- *)

Definition nonprogress (o : outcome) : bool :=
  match o with OFail _ | OAckLost _ _ => true | _ => false end.

Section Live.
  Variables (init hi : N) (rel : N -> bool).

  Lemma submit_fails : forall c fails fuel b rem sc sd el,
    SInv init hi rel sd -> RemOK init hi rel rem sd ->
    forallb nonprogress fails = true -> (length fails < fuel)%nat ->
    exists b' sd' el',
      submit c fuel b rem (fails ++ sc) sd el = submit c (fuel - length fails) b' rem sc sd' el' /\
      SInv init hi rel sd' /\ RemOK init hi rel rem sd'.
  Proof.
    induction fails as [|o fails IH]; intros fuel b rem sc sd el I R Hf Hl.
    - exists b, sd, el. cbn [app length]. rewrite Nat.sub_0_r. auto.
    - cbn [forallb] in Hf. apply andb_true_iff in Hf. destruct Hf as [Ho Hf].
      cbn [length] in Hl. destruct fuel as [|f]; [lia|].
      destruct (log_call_inv init hi rel rem o sd I R) as [I1 R1].
      cbn [app length]. replace (S f - S (length fails))%nat with (f - length fails)%nat by lia.
      destruct o as [k|fk|k fk|b0]; try discriminate Ho;
        cbn [submit helper_status]; destruct fk; cbn [status_of_fkind];
        apply IH; auto; lia.
  Qed.

  Lemma submit_accept_all : forall c fuel b rem k sc sd el,
    SInv init hi rel sd -> RemOK init hi rel rem sd -> rem <> [] -> N.of_nat (length rem) <= k ->
    let out := submit c (S fuel) b rem (OAccept k :: sc) sd el in
    snd (fst out) = RDone /\ SInv init hi rel (fst (fst (fst out))) /\
    vol (fst (fst (fst out))) = last rem 0 /\
    forall m, init <= m <= hi -> rel m = true -> In m (acc (fst (fst (fst out)))).
  Proof.
    intros c fuel b rem k sc sd el I R Hne Hk out.
    assert (Hn : N.of_nat (length rem) <> 0) by (destruct rem; [congruence | cbn [length]; lia]).
    assert (Hmin : N.min k (N.of_nat (length rem)) = N.of_nat (length rem)) by lia.
    destruct (success_inv init hi rel rem k sd _ I R (eq_sym Hmin)) as (I2 & _ & Hall & Hvol).
    unfold out. cbn [submit helper_status]. rewrite Hmin.
    destruct (N.of_nat (length rem) =? 0) eqn:E0; [lia|]. cbn [andb].
    rewrite N.eqb_refl. cbn [fst snd]. split; [reflexivity|]. split; [exact I2|]. split; auto.
  Qed.
End Live.

Lemma pending_range_above_base : forall init hi v, 1 <= init -> base init <= v -> v < hi ->
  pending_range init hi v = Some (seqN (v + 1) (N.to_nat (hi - v))).
Proof.
  intros init hi v Hi Hb Hv. unfold pending_range.
  destruct (v =? hi) eqn:E1; [lia|]. destruct (hi <? v) eqn:E2; [lia|].
  replace (forallb _ _) with true; auto.
  symmetry. apply forallb_forall. intros x Hx. apply in_seqN in Hx.
  unfold base in Hb. destruct (1 <? init) eqn:E; lia.
Qed.

Lemma tick_eventually : forall c o init hi fails k sc sd,
  1 <= init -> SInv init hi (relf o) sd ->
  forallb nonprogress fails = true -> (length fails < max_attempts)%nat -> hi <= k ->
  let sd' := fst (fst (fst (tick_side c o init hi (fails ++ OAccept k :: sc) sd))) in
  SInv init hi (relf o) sd' /\
  (forall m, init <= m <= hi -> relf o m = true -> In m (acc sd')) /\
  (o = None -> vol sd' = hi).
Proof.
  intros c o init hi fails k sc sd Hi I Hf Hl Hk. cbv zeta. unfold tick_side.
  destruct (vol sd =? hi) eqn:E.
  - cbn [fst]. split; auto. split; [|intros; lia].
    intros m Hm Hr. apply (si_sound _ _ _ _ I); auto. lia.
  - pose proof (si_le _ _ _ _ I) as Hle. pose proof (si_base _ _ _ _ I) as Hba.
    rewrite pending_range_above_base by (auto; lia).
    pose proof (pending_remok init hi (relf o) sd _ I (pending_range_above_base init hi (vol sd) Hi Hba ltac:(lia))) as R.
    rewrite items_filter.
    set (r := seqN (vol sd + 1) (N.to_nat (hi - vol sd))) in *.
    destruct (filter (relf o) r) as [|x0 rem0] eqn:Hfil.
    + cbn [fst]. split; auto. split.
      * intros m Hm Hr. destruct (N.le_gt_cases m (vol sd)).
        -- apply (si_sound _ _ _ _ I); auto. lia.
        -- exfalso. assert (Hin : In m []) by (apply (ro_all _ _ _ _ _ R); auto; lia). destruct Hin.
      * intros ->. exfalso. cbn [relf] in Hfil. rewrite filter_true in Hfil.
        assert (Hin : In hi r) by (apply in_seqN; lia). rewrite Hfil in Hin. destruct Hin.
    + rewrite <- Hfil in *.
      destruct (submit_fails init hi (relf o) c fails max_attempts 0 (filter (relf o) r) (OAccept k :: sc) sd 0 I R Hf Hl)
        as (b' & sd1 & el1 & -> & I1 & R1).
      destruct (max_attempts - length fails)%nat as [|fuel] eqn:Hfu; [lia|].
      assert (Hne : filter (relf o) r <> []) by (rewrite Hfil; congruence).
      assert (Hlen : N.of_nat (length (filter (relf o) r)) <= k).
      { pose proof (filter_length_le' (relf o) r) as L. unfold r in L at 2. rewrite length_seqN in L. lia. }
      destruct (submit_accept_all init hi (relf o) c fuel b' _ k sc sd1 el1 I1 R1 Hne Hlen) as (_ & I2 & Hv & Hall).
      split; auto. split; auto.
      intros ->. rewrite Hv. cbn [relf]. rewrite filter_true.
      assert (Hin : In hi r) by (apply in_seqN; lia).
      assert (Hne' : r <> []) by (intros Hr; rewrite Hr in Hin; destruct Hin).
      pose proof (sorted_le_last r 0 hi (sorted_seqN _ _) Hin) as H1.
      pose proof (last_in r 0 Hne') as H2. apply in_seqN in H2. lia.
Qed.

(* the liveness clause for one initial height: from any reachable state, one iteration against a DA layer
   that, after fewer than maxSubmitAttempts failures (of any kind, including accepted-but-acknowledgement-
   lost), accepts the whole request, leaves every committed (relevant) block on the DA layer, and the header
   watermark at the chain height *)
Definition eventually_stmt (c : cfg) (init : N) : Prop :=
  forall hist k fails sc kd,
    forallb nonprogress fails = true -> (length fails < max_attempts)%nat ->
    let s := run c init hist in
    height s <= k ->
    let s' := fst (step c s (ITick kd (fails ++ OAccept k :: sc))) in
    (forall m, s_init s <= m <= height s -> relevant kd s m -> In m (acc (get_side kd s'))) /\
    (kd = KHeader -> vol (s_h s') = height s).

Lemma eventually_all : forall c init, 1 <= init -> eventually_stmt c init.
Proof.
  intros c init H1 hist k fails sc kd Hf Hl s Hk s'.
  pose proof (inv_get kd _ (inv_run c init hist H1)) as I. fold s in I.
  assert (Hi : s_init s = init) by apply run_init.
  pose proof (tick_eventually c (rel_of kd s) (s_init s) (height s) fails k sc (get_side kd s)
                ltac:(lia) I Hf Hl Hk) as (I' & Hall & Hv).
  unfold s'. cbn [step].
  destruct (tick_side c (rel_of kd s) (s_init s) (height s) (fails ++ OAccept k :: sc) (get_side kd s))
    as [[[sd' sc'] r] el]. cbn [fst] in *.
  split.
  - intros m Hm Hr. replace (get_side kd (set_side kd s sd')) with sd' by (destruct kd; reflexivity).
    apply Hall; [lia|]. apply relevant_rel; auto.
  - intros ->. cbn [set_side s_h]. apply Hv. reflexivity.
Qed.

(* ---- the run-length form of the case files (Model.Submitter.hitem) ------------------------------------- *)

Lemma run_from_app : forall c h1 h2 s, run_from c s (h1 ++ h2) = run_from c (run_from c s h1) h2.
Proof. intros. unfold run_from. apply fold_left_app. Qed.

(* n single publications = the chain grows by n blocks of that kind, nothing else changes *)
Lemma publish_run : forall c b n s,
  run_from c s (repeat (IPublish b) n) =
  {| s_init := s_init s; s_chain := s_chain s ++ repeat b n; s_h := s_h s; s_d := s_d s |}.
Proof.
  intros c b. induction n as [|n IH]; intros s.
  - cbn [repeat]. rewrite app_nil_r. destruct s; reflexivity.
  - change (repeat (IPublish b) (S n)) with ([IPublish b] ++ repeat (IPublish b) n).
    rewrite run_from_app, IH. cbn [run_from fold_left step fst s_init s_chain s_h s_d repeat].
    rewrite <- app_assoc. reflexivity.
Qed.

Lemma publish_run_height : forall c b n s,
  height (run_from c s (repeat (IPublish b) n)) = height s + N.of_nat n.
Proof.
  intros. rewrite publish_run. unfold height. cbn [s_init s_chain]. rewrite app_length, repeat_length. lia.
Qed.

(* a history in run-length form denotes its expansion: appending a run-length item = appending the n single items *)
Lemma publish_run_length : forall c init (h : list hitem) b n,
  run c init (expand_hist (h ++ [HPublishN b n])) = run c init (expand_hist h ++ repeat (IPublish b) (N.to_nat n)).
Proof.
  intros. unfold expand_hist. rewrite flat_map_app. cbn [flat_map expand]. rewrite app_nil_r. reflexivity.
Qed.

(* ---- after an idle stretch -------------------------------------------------------------------------- *)

Lemma nonempty_at_last : forall init ch b, 1 <= init ->
  nonempty_at init (ch ++ [b]) (init - 1 + N.of_nat (length (ch ++ [b]))) = b.
Proof.
  intros init ch b H1. unfold nonempty_at. rewrite app_length. cbn [length].
  replace (init <=? init - 1 + N.of_nat (length ch + 1)) with true by lia. cbn [andb].
  replace (N.to_nat (init - 1 + N.of_nat (length ch + 1) - init)) with (length ch) by lia.
  rewrite app_nth2 by lia. rewrite Nat.sub_diag. reflexivity.
Qed.

(* From any reachable state: the chain stays idle for ANY number n of blocks (no transactions), then a block with
   transactions is committed.  One data iteration against a DA layer that fails fewer than maxSubmitAttempts
   times and then accepts puts that block's data on the DA layer — however long the idle stretch was and wherever
   the data watermark stood (it does not move over empty blocks). *)
Lemma after_idle_stretch : forall c init hist (n : nat) k fails sc, 1 <= init ->
  forallb nonprogress fails = true -> (length fails < max_attempts)%nat ->
  let s := run c init (hist ++ repeat (IPublish false) n ++ [IPublish true]) in
  height s <= k ->
  let s' := fst (step c s (ITick KData (fails ++ OAccept k :: sc))) in
  nonempty_at (s_init s) (s_chain s) (height s) = true /\
  height s = height (run c init hist) + N.of_nat n + 1 /\
  In (height s) (acc (s_d s')).
Proof.
  intros c init hist n k fails sc H1 Hf Hl s Hk s'.
  assert (Hi : s_init s = init) by apply run_init.
  assert (Hs : s = fst (step c (run_from c (run c init hist) (repeat (IPublish false) n)) (IPublish true))).
  { unfold s. rewrite run_app, run_from_app. reflexivity. }
  assert (Hch : s_chain s = (s_chain (run c init hist) ++ repeat false n) ++ [true]).
  { rewrite Hs, publish_run. reflexivity. }
  assert (Hne : nonempty_at (s_init s) (s_chain s) (height s) = true).
  { unfold height. rewrite Hi, Hch. apply nonempty_at_last, H1. }
  assert (Hh : height s = height (run c init hist) + N.of_nat n + 1).
  { unfold height. rewrite Hi, Hch, run_init, !app_length, repeat_length. cbn [length]. lia. }
  split; [exact Hne|]. split; [exact Hh|].
  destruct (eventually_all c init H1 (hist ++ repeat (IPublish false) n ++ [IPublish true]) k fails sc KData Hf Hl Hk)
    as (Hall & _).
  apply Hall; [|exact Hne].
  fold s. rewrite Hi. unfold height in *. rewrite Hi in *. rewrite Hch, !app_length. cbn [length]. lia.
Qed.

(* ---- the comparator walks exactly the expanded history ------------------------------------------------ *)
(* The model state Check.SubmitterCheck.check_items ends in (and compares the observations against, item by
   item) is the state [run_from] reaches on the expansion of the run-length history — the state the theorems of
   Props/C06.v speak about. *)
Lemma check_single_state : forall c s i o, fst (Check.SubmitterCheck.check_single c s i o) = fst (step c s i).
Proof.
  intros. unfold Check.SubmitterCheck.check_single. destruct (step c s i) as [s' [r el]]. reflexivity.
Qed.

Lemma check_item_state : forall c s hi o,
  fst (Check.SubmitterCheck.check_item c s hi o) = run_from c s (expand hi).
Proof.
  intros c s [i|b n] o; cbn [Check.SubmitterCheck.check_item expand].
  - rewrite check_single_state. reflexivity.
  - reflexivity.
Qed.

Lemma check_items_state : forall c h os s, length h = length os ->
  fst (Check.SubmitterCheck.check_items c s h os) = run_from c s (expand_hist h).
Proof.
  intros c. induction h as [|hi h IH]; intros os s Hlen; destruct os as [|o os]; try discriminate Hlen.
  - reflexivity.
  - cbn [Check.SubmitterCheck.check_items].
    pose proof (check_item_state c s hi o) as E1.
    destruct (Check.SubmitterCheck.check_item c s hi o) as [s1 e1]. cbn [fst] in E1.
    specialize (IH os s1 ltac:(cbn [length] in Hlen; lia)).
    destruct (Check.SubmitterCheck.check_items c s1 h os) as [s2 e2]. cbn [fst] in *.
    unfold expand_hist. cbn [flat_map]. rewrite run_from_app. rewrite <- E1. exact IH.
Qed.
