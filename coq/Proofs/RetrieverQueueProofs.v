(* C09: proofs about the bounded hand-off (Model/RetrieverQueue.v). *)
From Coq Require Import NArith Arith List Bool Lia ZifyBool ZifyN ZifyNat.
From Verif Require Import Model.RetrieverQueue.
Import ListNotations.
Open Scope N_scope.

Lemma count_app : forall k a b, count k (a ++ b) = count k a + count k b.
Proof. induction a as [|[k' n] a IH]; intros; cbn [count app]; [lia|]. rewrite IH. lia. Qed.

Lemma concat_app_count : forall k (a b : list (list qrun_t)), count k (concat (a ++ b)) = count k (concat a) + count k (concat b).
Proof. intros. rewrite concat_app. apply count_app. Qed.

(* handing over the events of a height: nothing disappears, no channel overflows, and it stops only at an
   event that does not fit into a FULL channel *)
Lemma push_runs_spec : forall capH capD l lh ld lh' ld' lft,
  push_runs capH capD lh ld l = (lh', ld', lft) -> lh <= capH -> ld <= capD ->
  lh' <= capH /\ ld' <= capD /\ lh <= lh' /\ ld <= ld' /\
  lh' + count true lft = lh + count true l /\ ld' + count false lft = ld + count false l /\
  match lft with
  | [] => True
  | (true, n) :: _ => lh' = capH /\ 0 < n
  | (false, n) :: _ => ld' = capD /\ 0 < n
  end.
Proof.
  induction l as [|[k n] tl IH]; intros lh ld lh' ld' lft E Hh Hd; cbn [push_runs] in E.
  - inversion E; subst. cbn [count]. repeat split; lia.
  - destruct k.
    + destruct (n <=? capH - lh) eqn:En.
      * apply IH in E; [|lia|lia]. cbn [count Bool.eqb]. destruct E as (A & B & C & D & F & G & H). repeat split; try lia. exact H.
      * inversion E; subst. cbn [count Bool.eqb]. repeat split; lia.
    + destruct (n <=? capD - ld) eqn:En.
      * apply IH in E; [|lia|lia]. cbn [count Bool.eqb]. destruct E as (A & B & C & D & F & G & H). repeat split; try lia. exact H.
      * inversion E; subst. cbn [count Bool.eqb]. repeat split; lia.
Qed.

Definition pendl (s : qstate) : list qrun_t := match q_pend s with Some l => l | None => [] end.

(* the invariant of every reachable state under HWait; Weak: what also holds right after the consumer took *)
Definition Weak (capH capD boot : N) (heights : list (list qrun_t)) (s : qstate) : Prop :=
  q_lh s <= capH /\ q_ld s <= capD /\ q_lost_h s = 0 /\ q_lost_d s = 0 /\
  exists done cur, heights = done ++ cur ++ q_rest s /\ q_cursor s = boot + N.of_nat (length done) /\
    match q_pend s with Some _ => exists curh, cur = [curh] | None => cur = [] end /\
    handed_h s + count true (pendl s) = count true (concat (done ++ cur)) /\
    handed_d s + count false (pendl s) = count false (concat (done ++ cur)) /\
    count true (pendl s) <= count true (concat cur) /\ count false (pendl s) <= count false (concat cur).

(* the loop waits inside a height only in front of a FULL channel *)
Definition Blocked (capH capD : N) (s : qstate) : Prop :=
  match q_pend s with
  | Some ((true, n) :: _) => q_lh s = capH /\ 0 < n
  | Some ((false, n) :: _) => q_ld s = capD /\ 0 < n
  | Some [] => False
  | None => True
  end.

Definition Inv capH capD boot heights s : Prop := Weak capH capD boot heights s /\ Blocked capH capD s.

Lemma scanq_inv : forall capH capD boot heights rest cur lh ld th td pend done curh,
  lh <= capH -> ld <= capD -> heights = done ++ [curh] ++ rest -> cur = boot + N.of_nat (length done) ->
  th + lh + count true pend = count true (concat (done ++ [curh])) ->
  td + ld + count false pend = count false (concat (done ++ [curh])) ->
  count true pend <= count true curh -> count false pend <= count false curh ->
  Inv capH capD boot heights (scanq capH capD cur lh ld th td 0 0 pend rest).
Proof.
  induction rest as [|nxt rest IH]; intros cur lh ld th td pend done curh Hh Hd Hs Hc Eh Ed Ph Pd; cbn [scanq];
    destruct (push_runs capH capD lh ld pend) as [[lh' ld'] lft] eqn:E;
    apply push_runs_spec in E; try assumption;
    destruct E as (A & B & C & D & F & G & H).
  - destruct lft as [|[k n] lt].
    + split; [|exact I].
      unfold Weak, handed_h, handed_d, pendl; cbn [q_lh q_ld q_lost_h q_lost_d q_rest q_cursor q_pend q_th q_td].
      cbn [count] in *.
      split; [lia|]. split; [lia|]. split; [reflexivity|]. split; [reflexivity|].
      exists (done ++ [curh]), []. rewrite !app_nil_r.
      split; [rewrite Hs; cbn [app]; rewrite <- ?app_assoc; cbn [app]; reflexivity|].
      split; [rewrite app_length; cbn [length]; lia|].
      split; [reflexivity|]. cbn [concat count]. repeat split; lia.
    + split; [|unfold Blocked; cbn [q_pend q_lh q_ld]; destruct k; exact H].
      unfold Weak, handed_h, handed_d, pendl; cbn [q_lh q_ld q_lost_h q_lost_d q_rest q_cursor q_pend q_th q_td].
      split; [lia|]. split; [lia|]. split; [reflexivity|]. split; [reflexivity|].
      exists done, [curh].
      split; [exact Hs|]. split; [exact Hc|]. split; [eexists; reflexivity|].
      cbn [concat]. rewrite app_nil_r. repeat split; lia.
  - destruct lft as [|[k n] lt].
    + cbn [count] in F, G.
      apply (IH (cur + 1) lh' ld' th td nxt (done ++ [curh]) nxt); try lia.
      * rewrite Hs. cbn [app]. rewrite <- app_assoc. reflexivity.
      * rewrite app_length. cbn [length]. lia.
      * rewrite concat_app_count. cbn [concat]. rewrite app_nil_r. lia.
      * rewrite concat_app_count. cbn [concat]. rewrite app_nil_r. lia.
    + split; [|unfold Blocked; cbn [q_pend q_lh q_ld]; destruct k; exact H].
      unfold Weak, handed_h, handed_d, pendl; cbn [q_lh q_ld q_lost_h q_lost_d q_rest q_cursor q_pend q_th q_td].
      split; [lia|]. split; [lia|]. split; [reflexivity|]. split; [reflexivity|].
      exists done, [curh].
      split; [exact Hs|]. split; [exact Hc|]. split; [eexists; reflexivity|].
      cbn [concat]. rewrite app_nil_r. repeat split; lia.
Qed.

Lemma resume_inv : forall capH capD boot heights s e,
  Weak capH capD boot heights s -> Inv capH capD boot heights (resume capH capD s e).
Proof.
  intros capH capD boot heights s e W. pose proof W as (Hh & Hd & Xh & Xd & done & cur & Hs & Hc & Hp & Eh & Ed & Ph & Pd).
  unfold resume. unfold pendl, handed_h, handed_d in *. destruct (q_pend s) as [l|] eqn:Ep.
  - destruct Hp as [curh ->]. rewrite Xh, Xd. cbn [concat] in Ph, Pd. rewrite app_nil_r in Ph, Pd.
    assert (I : Inv capH capD boot heights (scanq capH capD (q_cursor s) (q_lh s) (q_ld s) (q_th s) (q_td s) 0 0 l (q_rest s))).
    { apply (scanq_inv capH capD boot heights (q_rest s) (q_cursor s) (q_lh s) (q_ld s) (q_th s) (q_td s) l done curh); auto; lia. }
    match goal with |- Inv _ _ _ _ (if ?c then _ else _) => destruct c end; exact I.
  - subst cur. destruct (q_rest s) as [|nxt rest'] eqn:Er.
    + split; [exact W|]. unfold Blocked. rewrite Ep. exact I.
    + rewrite Xh, Xd. rewrite app_nil_r in Eh, Ed. cbn [app] in Hs. cbn [count] in Eh, Ed.
      apply (scanq_inv capH capD boot heights rest' (q_cursor s) (q_lh s) (q_ld s) (q_th s) (q_td s) nxt done nxt); auto; try lia.
      * rewrite concat_app_count. cbn [concat]. rewrite app_nil_r. lia.
      * rewrite concat_app_count. cbn [concat]. rewrite app_nil_r. lia.
Qed.

Lemma take_weak : forall capH capD boot heights s a b,
  Weak capH capD boot heights s -> Weak capH capD boot heights (take s a b).
Proof.
  intros capH capD boot heights s a b (Hh & Hd & Xh & Xd & done & cur & Hs & Hc & Hp & Eh & Ed & Ph & Pd).
  unfold Weak, take, pendl, handed_h, handed_d in *; cbn [q_lh q_ld q_lost_h q_lost_d q_rest q_cursor q_pend q_th q_td].
  split; [lia|]. split; [lia|]. split; [exact Xh|]. split; [exact Xd|].
  exists done, cur. split; [exact Hs|]. split; [exact Hc|]. split; [exact Hp|]. repeat split; lia.
Qed.

Lemma qstart_inv : forall capH capD boot heights, Inv capH capD boot heights (qstart capH capD boot heights).
Proof.
  intros. unfold qstart. apply resume_inv. unfold Weak, qinit, pendl, handed_h, handed_d; cbn [q_lh q_ld q_lost_h q_lost_d q_rest q_cursor q_pend q_th q_td].
  split; [lia|]. split; [lia|]. split; [reflexivity|]. split; [reflexivity|].
  exists [], []. cbn [app length concat count N.of_nat]. repeat split; lia.
Qed.

Lemma qstep_inv : forall capH capD boot heights s r,
  Inv capH capD boot heights s -> Inv capH capD boot heights (snd (qstep HWait capH capD s r)).
Proof.
  intros capH capD boot heights s [[stall a] b] [W _]. unfold qstep. cbn [expired snd].
  apply resume_inv. apply take_weak. exact W.
Qed.

Lemma qrun_inv : forall capH capD boot heights rs s,
  Inv capH capD boot heights s -> Inv capH capD boot heights (snd (qrun HWait capH capD s rs)).
Proof.
  induction rs as [|r tl IH]; intros s I0; cbn [qrun]; [exact I0|].
  pose proof (qstep_inv capH capD boot heights s r I0) as I1.
  destruct (qstep HWait capH capD s r) as [o s'] eqn:E. cbn [snd] in I1.
  specialize (IH s' I1). destruct (qrun HWait capH capD s' tl) as [os s'']. exact IH.
Qed.

Definition final_q (capH capD boot : N) (heights : list (list qrun_t)) (rs : list qround) : qstate :=
  snd (qrun HWait capH capD (qstart capH capD boot heights) rs).

Lemma final_inv : forall capH capD boot heights rs, Inv capH capD boot heights (final_q capH capD boot heights rs).
Proof. intros. apply qrun_inv, qstart_inv. Qed.

(* nothing is ever dropped, no channel overflows *)
Theorem handoff_never_drops : forall capH capD boot heights rs,
  let s := final_q capH capD boot heights rs in
  handed_h s + count true (remaining s) = count true (concat heights) /\
  handed_d s + count false (remaining s) = count false (concat heights) /\
  q_lost_h s = 0 /\ q_lost_d s = 0 /\ q_lh s <= capH /\ q_ld s <= capD.
Proof.
  intros. destruct (final_inv capH capD boot heights rs) as [(Hh & Hd & Xh & Xd & done & cur & Hs & Hc & Hp & Eh & Ed & Ph & Pd) _].
  fold s in Hh, Hd, Xh, Xd, Hs, Hc, Hp, Eh, Ed, Ph, Pd. unfold remaining. fold (pendl s). rewrite !count_app.
  assert (Th : count true (concat heights) = count true (concat (done ++ cur)) + count true (concat (q_rest s))).
  { rewrite Hs at 1. rewrite app_assoc. apply concat_app_count. }
  assert (Td : count false (concat heights) = count false (concat (done ++ cur)) + count false (concat (q_rest s))).
  { rewrite Hs at 1. rewrite app_assoc. apply concat_app_count. }
  repeat split; try assumption; lia.
Qed.

(* the cursor is past a height only when everything of it (and of all heights before) has been handed over *)
Theorem handoff_cursor : forall capH capD boot heights rs,
  let s := final_q capH capD boot heights rs in
  exists k, q_cursor s = boot + N.of_nat k /\ (k <= length heights)%nat /\
    count true (concat (firstn k heights)) <= handed_h s /\
    count false (concat (firstn k heights)) <= handed_d s.
Proof.
  intros. destruct (final_inv capH capD boot heights rs) as [(Hh & Hd & Xh & Xd & done & cur & Hs & Hc & Hp & Eh & Ed & Ph & Pd) _].
  fold s in Hh, Hd, Xh, Xd, Hs, Hc, Hp, Eh, Ed, Ph, Pd. exists (length done). split; [exact Hc|].
  assert (F : firstn (length done) heights = done).
  { rewrite Hs. rewrite firstn_app, Nat.sub_diag, firstn_all. cbn [firstn]. apply app_nil_r. }
  rewrite F. split; [rewrite Hs, app_length; lia|].
  rewrite concat_app_count in Eh, Ed. lia.
Qed.

(* the loop waits inside a height only in front of a full channel: a consumer that takes one event from it lets
   the scan go on *)
Theorem handoff_waits_only_when_full : forall capH capD boot heights rs,
  Blocked capH capD (final_q capH capD boot heights rs).
Proof. intros. apply (final_inv capH capD boot heights rs). Qed.

(* when nothing is left to hand over the cursor is past the last height *)
Theorem handoff_done_cursor : forall capH capD boot heights rs,
  let s := final_q capH capD boot heights rs in
  heights <> [] -> q_pend s = None -> q_rest s = [] -> q_cursor s = boot + N.of_nat (length heights).
Proof.
  intros capH capD boot heights rs s NE Ep Er.
  destruct (final_inv capH capD boot heights rs) as [(Hh & Hd & Xh & Xd & done & cur & Hs & Hc & Hp & _) _].
  fold s in Hs, Hc, Hp. rewrite Ep in Hp. subst cur. rewrite Er in Hs. cbn [app] in Hs. rewrite app_nil_r in Hs. subst done. exact Hc.
Qed.
