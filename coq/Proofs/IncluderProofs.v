(* Proofs/IncluderProofs.v — the DA-included height: invariants of Model/Includer.v over all histories (C07).
   The invariant is stated relative to the PERSISTED height K = kd (meta s); the volatile (reported) height
   is K or K-1 at every instant, and equal to K between items. *)
From Coq Require Import NArith List Bool Lia ZifyBool ZifyN ZifyNat.
From Verif Require Import Model.Includer.
Import ListNotations.
Open Scope N_scope.

(* ---- effects leave the non-metadata fields alone ------------------------------------------- *)
Lemma apply_eff_chain s e : chain (apply_eff s e) = chain s. Proof. destruct e; reflexivity. Qed.
Lemma apply_eff_base s e : base (apply_eff s e) = base s. Proof. destruct e; reflexivity. Qed.
Lemma apply_eff_hm s e : hm (apply_eff s e) = hm s. Proof. destruct e; reflexivity. Qed.
Lemma apply_eff_dm s e : dm (apply_eff s e) = dm s. Proof. destruct e; reflexivity. Qed.
Lemma apply_eff_svh s e : sv_h (apply_eff s e) = sv_h s. Proof. destruct e; reflexivity. Qed.
Lemma apply_eff_svd s e : sv_d (apply_eff s e) = sv_d s. Proof. destruct e; reflexivity. Qed.

Lemma apply_effs_fields es : forall s,
  chain (apply_effs s es) = chain s /\ hm (apply_effs s es) = hm s /\ dm (apply_effs s es) = dm s /\
  sv_h (apply_effs s es) = sv_h s /\ sv_d (apply_effs s es) = sv_d s /\ base (apply_effs s es) = base s.
Proof.
  induction es as [|e es IH]; intros s; [repeat split|].
  unfold apply_effs in *; cbn [fold_left].
  destruct (IH (apply_eff s e)) as (A & B & C & D & E & F).
  rewrite A, B, C, D, E, F, apply_eff_chain, apply_eff_hm, apply_eff_dm, apply_eff_svh, apply_eff_svd, apply_eff_base.
  repeat split.
Qed.

(* ---- the invariant ------------------------------------------------------------------------------ *)
Definition sound_at (h : list item) (s : node) (n : N) : Prop :=
  exists b hda dda,
    block_at s n = Some b /\
    meta_get (meta s) (KH n) = Some hda /\ meta_get (meta s) (KT n) = Some dda /\
    In (IMarkH (bh b) hda) h /\
    (if bempty b then dda = hda else In (IMarkD (bd b) dda) h).

Definition prov (h : list item) (s : node) : Prop :=
  (forall id da, mget (hm s) id = Some da -> In (IMarkH id da) h) /\
  (forall id da, mget (sv_h s) id = Some da -> In (IMarkH id da) h) /\
  (forall id da, mget (dm s) id = Some da -> In (IMarkD id da) h) /\
  (forall id da, mget (sv_d s) id = Some da -> In (IMarkD id da) h).

Notation K s := (kd s).

Record Inv (h : list item) (s : node) : Prop := {
  i_kd : K s = di s \/ K s = di s + 1;
  i_base : base s <= di s;
  i_le : K s <= sheight s;
  i_desc : desc (base s) (dputs (tr s)) (K s);
  i_fin : exists m, (m = K s \/ m = K s + 1) /\ finsok (base s) (fins (tr s)) m;
  i_abr : asked_before (tr s);
  i_pab : persisted_before (tr s);
  i_sound : forall n, base s < n <= K s -> sound_at h s n;
  i_prov : prov h s
}.

Lemma finsok_le b l : forall m x, finsok b l m -> In x l -> x <= m.
Proof.
  induction l as [|y l IH]; intros m x Hf Hin; [destruct Hin|].
  cbn in Hf. destruct Hf as (E & Hpos & Hr). destruct Hin as [->|Hin]; [lia|].
  destruct Hr as [Hr|Hr]; specialize (IH _ _ Hr Hin); lia.
Qed.

Lemma in_fins t n : In (EFin n) t -> In n (fins t).
Proof.
  induction t as [|e t IH]; intros H; [destruct H|].
  unfold fins; cbn [flat_map]. apply in_or_app.
  destruct H as [->|H]; [left; left; reflexivity | right; apply IH, H].
Qed.

Lemma prov_eff h s e : prov h s -> prov h (apply_eff s e).
Proof.
  intros (A & B & C & D). unfold prov.
  rewrite apply_eff_hm, apply_eff_dm, apply_eff_svh, apply_eff_svd. repeat split; assumption.
Qed.

Lemma sound_at_eff h s e n :
  (forall k, (k = KH n \/ k = KT n) -> meta_get (meta (apply_eff s e)) k = meta_get (meta s) k) ->
  sound_at h s n -> sound_at h (apply_eff s e) n.
Proof.
  intros Hm (b & hda & dda & Hb & Hh & Hd & Hrest). exists b, hda, dda.
  unfold block_at in *. rewrite apply_eff_base, apply_eff_chain.
  split; [exact Hb|]. rewrite !Hm by auto. split; [exact Hh | split; [exact Hd | exact Hrest]].
Qed.

(* a Put of rhb/<n>/h or rhb/<n>/d for a height above the persisted one *)
Lemma eff_rhb h s k v n :
  Inv h s -> (k = KH n \/ k = KT n) -> K s < n -> Inv h (apply_eff s (EPut k v)).
Proof.
  intros I Hk Hn.
  assert (Hkd : mkey_eqb KD k = false) by (destruct Hk; subst; reflexivity).
  assert (HK : K (apply_eff s (EPut k v)) = K s).
  { unfold kd; cbn [apply_eff meta meta_get base]. rewrite Hkd; reflexivity. }
  constructor; rewrite ?HK, ?apply_eff_base.
  - exact (i_kd _ _ I).
  - exact (i_base _ _ I).
  - unfold sheight; rewrite apply_eff_chain, apply_eff_base. apply (i_le _ _ I).
  - replace (dputs (tr (apply_eff s (EPut k v)))) with (dputs (tr s)); [apply (i_desc _ _ I)|].
    destruct Hk; subst; reflexivity.
  - exact (i_fin _ _ I).
  - destruct Hk; subst; cbn; apply (i_abr _ _ I).
  - destruct Hk; subst; cbn; apply (i_pab _ _ I).
  - intros n' Hn'. apply sound_at_eff; [|apply (i_sound _ _ I n' Hn')].
    assert (Hne : (n' =? n) = false) by (apply N.eqb_neq; lia).
    intros k' Hk'. cbn [apply_eff meta meta_get].
    destruct Hk, Hk'; subst; cbn [mkey_eqb]; rewrite ?Hne; reflexivity.
  - apply prov_eff, (i_prov _ _ I).
Qed.

(* SetFinal of the next height *)
Lemma eff_fin h s n : Inv h s -> n = K s + 1 -> Inv h (apply_eff s (EFin n)).
Proof.
  intros I ->.
  assert (HK : K (apply_eff s (EFin (K s + 1))) = K s) by reflexivity.
  constructor; rewrite ?HK, ?apply_eff_base.
  - apply (i_kd _ _ I).
  - apply (i_base _ _ I).
  - apply (i_le _ _ I).
  - apply (i_desc _ _ I).
  - exists (K s + 1). split; [right; reflexivity|].
    cbn [apply_eff tr]. unfold fins; cbn [flat_map app]. fold (fins (tr s)).
    pose proof (i_base _ _ I) as Hb. pose proof (i_kd _ _ I) as Hkd.
    destruct (i_fin _ _ I) as (m & [->| ->] & Hf); cbn; (split; [reflexivity|split; [lia|]]).
    + right. replace (K s + 1 - 1) with (K s) by lia. exact Hf.
    + left. exact Hf.
  - cbn. apply (i_abr _ _ I).
  - cbn. apply (i_pab _ _ I).
  - intros n Hn. apply sound_at_eff; [reflexivity | apply (i_sound _ _ I n Hn)].
  - apply (i_prov _ _ I).
Qed.

(* the Put of "d" *)
Lemma eff_kd h s n :
  Inv h s -> K s = di s -> n = K s + 1 -> In (EFin n) (tr s) -> sound_at h s n -> n <= sheight s ->
  Inv h (apply_eff s (EPut KD n)) /\ K (apply_eff s (EPut KD n)) = n.
Proof.
  intros I HK -> Hin Hs Hle.
  assert (HK' : K (apply_eff s (EPut KD (K s + 1))) = K s + 1) by reflexivity.
  split; [|exact HK'].
  pose proof (i_base _ _ I) as Hb.
  constructor; rewrite ?HK', ?apply_eff_base.
  - right. cbn [apply_eff di]. lia.
  - exact Hb.
  - exact Hle.
  - cbn [apply_eff tr]. unfold dputs; cbn [flat_map app]. fold (dputs (tr s)). cbn. split; [reflexivity|split; [lia|]].
    replace (K s + 1 - 1) with (K s) by lia. apply (i_desc _ _ I).
  - exists (K s + 1). split; [left; reflexivity|].
    cbn [apply_eff tr]. unfold fins; cbn [flat_map app]. fold (fins (tr s)).
    destruct (i_fin _ _ I) as (m & Hm & Hf).
    pose proof (finsok_le _ _ _ _ Hf (in_fins _ _ Hin)) as Hx.
    assert (m = K s + 1) as <- by lia. exact Hf.
  - cbn. split; [exact Hin | apply (i_abr _ _ I)].
  - cbn. apply (i_pab _ _ I).
  - intros n Hn.
    assert (Hput : forall n', sound_at h s n' -> sound_at h (apply_eff s (EPut KD (K s + 1))) n').
    { intros n' Hs'. apply sound_at_eff; [|exact Hs'].
      intros k' Hk'. cbn [apply_eff meta meta_get]. destruct Hk'; subst; reflexivity. }
    destruct (N.eq_dec n (K s + 1)) as [->|Hne]; apply Hput; [exact Hs|].
    apply (i_sound _ _ I). lia.
  - apply (i_prov _ _ I).
Qed.

(* the compare-and-swap: the persisted height becomes the reported one *)
Lemma eff_pub h s n :
  Inv h s -> n = K s -> K s = di s + 1 -> In (EPut KD n) (tr s) ->
  Inv h (apply_eff s (EPub n)) /\ K (apply_eff s (EPub n)) = di (apply_eff s (EPub n)).
Proof.
  intros I -> HK Hin. split; [|reflexivity].
  assert (HK' : K (apply_eff s (EPub (K s))) = K s) by reflexivity.
  constructor; rewrite ?HK', ?apply_eff_base.
  - left; reflexivity.
  - cbn [apply_eff di]. pose proof (i_base _ _ I). lia.
  - apply (i_le _ _ I).
  - apply (i_desc _ _ I).
  - apply (i_fin _ _ I).
  - cbn. apply (i_abr _ _ I).
  - cbn. split; [exact Hin | apply (i_pab _ _ I)].
  - intros n Hn. apply sound_at_eff; [reflexivity | apply (i_sound _ _ I n Hn)].
  - apply (i_prov _ _ I).
Qed.

Lemma nth_error_mid {A} (pre : list A) b r : nth_error (pre ++ b :: r) (length pre) = Some b.
Proof. induction pre; cbn; auto. Qed.

(* a run of the includer, cut after any number of effects *)
Lemma incl_inv h : forall bs s k pre,
  Inv h s -> K s = di s -> chain s = pre ++ bs -> length pre = N.to_nat (di s - base s) ->
  let es := incl_effs (hm s) (dm s) bs (di s) in
  let s' := apply_effs s (firstn k es) in
  Inv h s' /\ di s <= di s' /\ ((length es <= k)%nat -> K s' = di s').
Proof.
  induction bs as [|b r IH]; intros s k pre I HK Hc Hl; cbn zeta.
  - cbn [incl_effs]. rewrite firstn_nil. cbn. (split; [exact I | split; [lia | auto]]).
  - cbn [incl_effs].
    destruct (mget (hm s) (bh b)) as [hda|] eqn:Hh;
      [|rewrite firstn_nil; cbn; (split; [exact I | split; [lia | auto]])].
    destruct (if bempty b then Some hda else mget (dm s) (bd b)) as [dda|] eqn:Hd;
      [|rewrite firstn_nil; cbn; (split; [exact I | split; [lia | auto]])].
    pose proof (i_base _ _ I) as Hbase.
    set (e1 := EPut (KH (di s + 1)) hda). set (e2 := EPut (KT (di s + 1)) dda).
    set (e3 := EFin (di s + 1)). set (e4 := EPut KD (di s + 1)). set (e5 := EPub (di s + 1)).
    assert (I1 : Inv h (apply_eff s e1)) by (eapply eff_rhb; [exact I | left; reflexivity | lia]).
    assert (K1 : K (apply_eff s e1) = K s) by reflexivity.
    assert (I2 : Inv h (apply_eff (apply_eff s e1) e2)) by (eapply eff_rhb; [exact I1 | right; reflexivity | lia]).
    assert (K2 : K (apply_eff (apply_eff s e1) e2) = K s) by reflexivity.
    assert (I3 : Inv h (apply_eff (apply_eff (apply_eff s e1) e2) e3)) by (apply (eff_fin h _ _ I2); lia).
    assert (K3 : K (apply_eff (apply_eff (apply_eff s e1) e2) e3) = K s) by reflexivity.
    assert (Hlen : di s + 1 <= sheight s).
    { unfold sheight. rewrite Hc, app_length. cbn [length]. lia. }
    destruct (eff_kd h (apply_eff (apply_eff (apply_eff s e1) e2) e3) (di s + 1) I3) as (I4 & K4).
    { rewrite K3. exact HK. }
    { lia. }
    { left; reflexivity. }
    { exists b, hda, dda. unfold block_at.
      cbn [apply_eff chain base meta meta_get mkey_eqb di e1 e2 e3].
      rewrite N.eqb_refl. split; [|split; [reflexivity|split; [reflexivity|]]].
      + replace (di s + 1 <=? base s) with false by (symmetry; apply N.leb_gt; lia).
        replace (N.to_nat (di s + 1 - base s - 1)) with (length pre) by lia. rewrite Hc. apply nth_error_mid.
      + destruct (i_prov _ _ I) as (A & _ & C & _). split; [apply A, Hh|].
        destruct (bempty b); [congruence | apply C, Hd]. }
    { exact Hlen. }
    fold e4 in I4, K4.
    destruct (eff_pub h (apply_eff (apply_eff (apply_eff (apply_eff s e1) e2) e3) e4) (di s + 1) I4) as (I5 & K5).
    { rewrite K4; reflexivity. }
    { rewrite K4. reflexivity. }
    { left; reflexivity. }
    fold e5 in I5, K5.
    destruct k as [|[|[|[|[|k]]]]]; cbn [firstn apply_effs fold_left length].
    + (split; [exact I | split; [lia | lia]]).
    + (split; [exact I1 | split; [cbn; lia | lia]]).
    + (split; [exact I2 | split; [cbn; lia | lia]]).
    + (split; [exact I3 | split; [cbn; lia | lia]]).
    + (split; [exact I4 | split; [cbn; lia | lia]]).
    + set (s5 := apply_eff (apply_eff (apply_eff (apply_eff (apply_eff s e1) e2) e3) e4) e5) in *.
      assert (Hd5 : di s5 = di s + 1) by reflexivity.
      specialize (IH s5 k (pre ++ [b]) I5 K5).
      replace (hm s) with (hm s5) by reflexivity. replace (dm s) with (dm s5) by reflexivity.
      rewrite <- Hd5.
      destruct IH as (IA & IB & IC).
      * change (chain s5) with (chain s). rewrite Hc, <- app_assoc. reflexivity.
      * rewrite app_length, Hd5. change (base s5) with (base s). cbn [length]. lia.
      * unfold apply_effs in *. (split; [exact IA | split; [lia | intros Hk; apply IC; lia]]).
Qed.

Lemma include_effs_ge s : base s <= di s ->
  include_effs s = incl_effs (hm s) (dm s) (skipn (N.to_nat (di s - base s)) (chain s)) (di s).
Proof. intros H. unfold include_effs. replace (di s <? base s) with false by (symmetry; apply N.ltb_ge; lia). reflexivity. Qed.

Lemma dying_inv h s k :
  Inv h s -> K s = di s ->
  Inv h (dying s k) /\ di s <= di (dying s k) /\ ((length (include_effs s) <= k)%nat -> K (dying s k) = di (dying s k)).
Proof.
  intros I HK. unfold dying. rewrite (include_effs_ge s (i_base _ _ I)).
  apply (incl_inv h _ s k (firstn (N.to_nat (di s - base s)) (chain s)) I HK).
  - symmetry; apply firstn_skipn.
  - rewrite firstn_length. pose proof (i_le _ _ I) as Hle. pose proof (i_base _ _ I). unfold sheight in Hle. lia.
Qed.

Lemma inv_weaken h h' s : (forall x, In x h -> In x h') -> Inv h s -> Inv h' s.
Proof.
  intros Hsub I. constructor; try apply I.
  - intros n Hn. destruct (i_sound _ _ I n Hn) as (b & hda & dda & Hb & Hh & Hd & Hi & Hr).
    exists b, hda, dda. repeat split; try assumption; [apply Hsub, Hi|].
    destruct (bempty b); [exact Hr | apply Hsub, Hr].
  - destruct (i_prov _ _ I) as (A & B & C & D). repeat split; intros id da H; apply Hsub; auto.
Qed.

Lemma boot_inv h s : Inv h s -> Inv h (boot s) /\ K (boot s) = di (boot s) /\ di s <= di (boot s).
Proof.
  intros I. split; [|split; [reflexivity | cbn [boot di]; destruct (i_kd _ _ I); lia]].
  assert (HK : K (boot s) = K s) by reflexivity.
  constructor; rewrite ?HK; try apply I.
  - left; reflexivity.
  - cbn [boot base di]. pose proof (i_base _ _ I). destruct (i_kd _ _ I); lia.
  - destruct (i_prov _ _ I) as (A & B & C & D). repeat split; assumption.
Qed.

Lemma save_inv h s : Inv h s -> Inv h (save s).
Proof.
  intros I. assert (HK : K (save s) = K s) by reflexivity.
  constructor; rewrite ?HK; try apply I.
  destruct (i_prov _ _ I) as (A & B & C & D). repeat split; assumption.
Qed.

Definition QInv (h : list item) (s : node) : Prop := Inv h s /\ K s = di s.

Lemma step_inv h s i : QInv h s -> QInv (h ++ [i]) (step s i) /\ di s <= di (step s i) /\ base (step s i) = base s.
Proof.
  intros (I0 & HK).
  assert (I : Inv (h ++ [i]) s) by (eapply inv_weaken; [|exact I0]; intros x Hx; apply in_or_app; left; exact Hx).
  assert (Hlast : In i (h ++ [i])) by (apply in_or_app; right; left; reflexivity).
  destruct i as [b|id da|id da| |k|k|]; cbn [step].
  - split; [split; [|exact HK]|split; [cbn; lia | reflexivity]].
    constructor; try apply I.
    + pose proof (i_le _ _ I) as Hle. unfold sheight in *. cbn [chain base]. rewrite app_length. cbn [length].
      change (K {| base := base s; chain := chain s ++ [b]; meta := meta s; sv_h := sv_h s; sv_d := sv_d s;
                   di := di s; hm := hm s; dm := dm s; tr := tr s |}) with (K s). lia.
    + intros n Hn. destruct (i_sound _ _ I n Hn) as (y & hda & dda & Hb & Hrest).
      exists y, hda, dda. split; [|exact Hrest].
      unfold block_at in *. cbn [base chain]. destruct (n <=? base s); [discriminate|].
      rewrite nth_error_app1; [exact Hb|]. apply nth_error_Some. congruence.
  - split; [split; [|exact HK]|split; [cbn; lia | reflexivity]]. constructor; try apply I.
    destruct (i_prov _ _ I) as (A & B & C & D). repeat split; try assumption.
    cbn [hm mget]. intros id' da'. destruct (id' =? id) eqn:E; [|apply A].
    intros H; inversion H; subst. apply N.eqb_eq in E; subst. exact Hlast.
  - split; [split; [|exact HK]|split; [cbn; lia | reflexivity]]. constructor; try apply I.
    destruct (i_prov _ _ I) as (A & B & C & D). repeat split; try assumption.
    cbn [dm mget]. intros id' da'. destruct (id' =? id) eqn:E; [|apply C].
    intros H; inversion H; subst. apply N.eqb_eq in E; subst. exact Hlast.
  - destruct (dying_inv _ s (length (include_effs s)) I HK) as (IA & IB & IC).
    unfold dying in *. rewrite firstn_all in *.
    split; [split; [exact IA | apply IC; lia] | split; [exact IB | apply apply_effs_fields]].
  - destruct (dying_inv _ s k I HK) as (IA & IB & _).
    destruct (boot_inv _ _ IA) as (IC & ID & IE).
    split; [split; assumption | split; [lia | cbn [boot base]; apply apply_effs_fields]].
  - destruct (dying_inv _ s k I HK) as (IA & IB & _).
    destruct (boot_inv _ _ (save_inv _ _ IA)) as (IC & ID & IE).
    split; [split; assumption | split; [cbn in *; lia | cbn [boot save base]; apply apply_effs_fields]].
  - destruct (boot_inv _ _ (save_inv _ _ I)) as (IC & ID & IE).
    split; [split; assumption | split; [cbn in *; lia | reflexivity]].
Qed.

Lemma init_inv b : QInv [] (init b).
Proof.
  split; [|reflexivity]. constructor.
  - left; reflexivity.
  - cbn; lia.
  - unfold kd, sheight; cbn; lia.
  - reflexivity.
  - exists b. split; [left|]; reflexivity.
  - exact I.
  - exact I.
  - unfold kd; cbn; intros n Hn; lia.
  - repeat split; intros id da H; discriminate H.
Qed.

Lemma run_snoc b h i : run b (h ++ [i]) = step (run b h) i.
Proof. unfold run, run_from. rewrite fold_left_app. reflexivity. Qed.

Lemma run_app b h h' : run b (h ++ h') = run_from (run b h) h'.
Proof. unfold run, run_from. apply fold_left_app. Qed.

Theorem run_inv : forall b h, QInv h (run b h) /\ base (run b h) = b.
Proof.
  intros b. induction h as [|i h IH] using rev_ind; [split; [exact (init_inv b) | reflexivity]|].
  rewrite run_snoc. destruct IH as (IH & Hb). destruct (step_inv _ _ i IH) as (A & _ & B).
  split; [exact A | congruence].
Qed.

(* ---- C07 safety ---------------------------------------------------------------------------------- *)
Lemma monotone_run : forall b h h', rep (run b h) <= rep (run b (h ++ h')).
Proof.
  intros b h h'. induction h' as [|i h' IH] using rev_ind.
  - rewrite app_nil_r. lia.
  - rewrite app_assoc, run_snoc.
    destruct (step_inv _ _ i (proj1 (run_inv b (h ++ h')))) as (_ & Hm & _). unfold rep in *. lia.
Qed.

(* every instant: after a history, or k effects into an includer run at which the process dies / a write fails *)
Theorem monotone : forall (b : N) (h h' : list item) (k : nat),
  rep (run b h) <= rep (run b (h ++ h')) /\
  rep (run b h) <= seen_at_death b h k /\
  seen_at_death b h k <= rep (run b (h ++ ICrash k :: h')) /\
  seen_at_death b h k <= rep (run b (h ++ IFault k :: h')).
Proof.
  intros b h h' k. destruct (run_inv b h) as ((I & HK) & _).
  destruct (dying_inv _ _ k I HK) as (IA & IB & _).
  split; [apply monotone_run|]. split; [exact IB|].
  unfold seen_at_death, rep.
  split.
  - pose proof (monotone_run b (h ++ [ICrash k]) h') as M. rewrite <- app_assoc in M. cbn [app] in M.
    rewrite run_snoc in M. cbn [step] in M. unfold rep in M.
    destruct (boot_inv _ _ IA) as (_ & _ & IE). lia.
  - pose proof (monotone_run b (h ++ [IFault k]) h') as M. rewrite <- app_assoc in M. cbn [app] in M.
    rewrite run_snoc in M. cbn [step] in M. unfold rep in M.
    destruct (boot_inv _ _ (save_inv _ _ IA)) as (_ & _ & IE).
    change (di (save (dying (run b h) k))) with (di (dying (run b h) k)) in IE. lia.
Qed.

Theorem durable : forall b h k,
  rep (run b (h ++ [IRestart])) = rep (run b h) /\
  rep (run b (h ++ [ICrash 0])) = rep (run b h) /\
  seen_at_death b h k <= rep (run b (h ++ [ICrash k])) <= seen_at_death b h k + 1 /\
  seen_at_death b h k <= rep (run b (h ++ [IFault k])) <= seen_at_death b h k + 1.
Proof.
  intros b h k. destruct (run_inv b h) as ((I & HK) & _). rewrite !run_snoc. unfold rep, seen_at_death; cbn [step].
  destruct (dying_inv _ _ k I HK) as (IA & IB & _).
  split; [|split; [|split]].
  - cbn [boot di]. exact HK.
  - unfold dying. cbn [firstn apply_effs fold_left boot di]. exact HK.
  - cbn [boot di]. destruct (i_kd _ _ IA); lia.
  - cbn [boot di]. change (K (save (dying (run b h) k))) with (K (dying (run b h) k)). destruct (i_kd _ _ IA); lia.
Qed.

Theorem safety : forall b h, let s := run b h in
  b <= rep s <= sheight s /\
  desc b (dputs (tr s)) (rep s) /\
  (exists m, (m = rep s \/ m = rep s + 1) /\ finsok b (fins (tr s)) m) /\
  asked_before (tr s) /\ persisted_before (tr s) /\
  kd s = rep s.
Proof.
  intros b h s. destruct (run_inv b h) as ((I & HK) & Hb). fold s in I, HK, Hb. unfold rep. rewrite <- HK, <- Hb.
  pose proof (i_base _ _ I). pose proof (i_le _ _ I).
  repeat split; try apply I; lia.
Qed.

(* the same at the instant of death / of a failing effect: the reported height is the persisted one or one less *)
Theorem safety_at_death : forall b h k, let s := dying (run b h) k in
  (kd s = di s \/ kd s = di s + 1) /\ b <= di s /\
  kd s <= sheight s /\
  desc b (dputs (tr s)) (kd s) /\
  (exists m, (m = kd s \/ m = kd s + 1) /\ finsok b (fins (tr s)) m) /\
  asked_before (tr s) /\ persisted_before (tr s).
Proof.
  intros b h k s. destruct (run_inv b h) as ((I & HK) & Hb). destruct (dying_inv _ _ k I HK) as (IA & _).
  assert (Hb' : base s = b).
  { unfold s, dying. destruct (apply_effs_fields (firstn k (include_effs (run b h))) (run b h)) as (_ & _ & _ & _ & _ & E).
    rewrite E. exact Hb. }
  fold s in IA. rewrite <- Hb'. repeat split; try apply IA.
Qed.

Theorem sound : forall b h n, let s := run b h in
  b < n <= rep s ->
  exists x hda dda,
    block_at s n = Some x /\
    meta_get (meta s) (KH n) = Some hda /\ meta_get (meta s) (KT n) = Some dda /\
    In (IMarkH (bh x) hda) h /\
    (if bempty x then dda = hda else In (IMarkD (bd x) dda) h).
Proof.
  intros b h n s Hn. subst s. destruct (run_inv b h) as ((I & HK) & Hb). apply (i_sound _ _ I). unfold rep in Hn. lia.
Qed.

(* also for every height visible at the instant of death *)
Theorem sound_at_death : forall b h k n, let s := dying (run b h) k in
  b < n <= di s ->
  exists x hda dda,
    block_at s n = Some x /\
    meta_get (meta s) (KH n) = Some hda /\ meta_get (meta s) (KT n) = Some dda /\
    In (IMarkH (bh x) hda) h /\
    (if bempty x then dda = hda else In (IMarkD (bd x) dda) h).
Proof.
  intros b h k n s Hn. subst s. destruct (run_inv b h) as ((I & HK) & Hb). destruct (dying_inv _ _ k I HK) as (IA & _).
  apply (i_sound _ _ IA).
  assert (Hb' : base (dying (run b h) k) = b).
  { unfold dying. destruct (apply_effs_fields (firstn k (include_effs (run b h))) (run b h)) as (_ & _ & _ & _ & _ & E).
    rewrite E. exact Hb. }
  destruct (i_kd _ _ IA); lia.
Qed.

(* ---- C07 liveness ----------------------------------------------------------------------------- *)
(* IsDAIncluded for a stored block *)
Definition inclb (hmk dmk : marks) (b : blk) : bool :=
  match mget hmk (bh b) with
  | None => false
  | Some _ => bempty b || match mget dmk (bd b) with Some _ => true | None => false end
  end.
(* number of leading blocks that are included *)
Fixpoint lead (hmk dmk : marks) (bs : list blk) : nat :=
  match bs with
  | [] => 0%nat
  | b :: r => if inclb hmk dmk b then S (lead hmk dmk r) else 0%nat
  end.

Lemma di_incl hmk dmk : forall bs s,
  di (apply_effs s (incl_effs hmk dmk bs (di s))) = di s + N.of_nat (lead hmk dmk bs).
Proof.
  induction bs as [|b r IH]; intros s; cbn [incl_effs lead]; [cbn; lia|].
  unfold inclb. destruct (mget hmk (bh b)) as [hda|]; [|cbn; lia].
  destruct (bempty b); cbn [orb].
  - cbn [apply_effs fold_left].
    set (s5 := apply_eff _ (EPub (di s + 1))).
    change (di s + 1) with (di s5) at 1. unfold apply_effs in IH. rewrite IH. cbn. lia.
  - destruct (mget dmk (bd b)) as [dda|]; [|cbn; lia].
    cbn [apply_effs fold_left].
    set (s5 := apply_eff _ (EPub (di s + 1))).
    change (di s + 1) with (di s5) at 1. unfold apply_effs in IH. rewrite IH. cbn. lia.
Qed.

Lemma lead_ge hmk dmk : forall bs cnt,
  (cnt <= length bs)%nat ->
  (forall j b, (j < cnt)%nat -> nth_error bs j = Some b -> inclb hmk dmk b = true) ->
  (cnt <= lead hmk dmk bs)%nat.
Proof.
  induction bs as [|b r IH]; intros cnt Hl H; cbn [lead]; [cbn in Hl; lia|].
  destruct cnt as [|cnt]; [lia|].
  rewrite (H 0%nat b) by (cbn; (lia || reflexivity)).
  apply le_n_S, IH; [cbn in Hl; lia|].
  intros j x Hj Hx. apply (H (S j) x); [lia | exact Hx].
Qed.

Lemma nth_error_skipn' {A} (l : list A) : forall d j, nth_error (skipn d l) j = nth_error l (d + j).
Proof.
  induction l as [|a l IH]; intros d j.
  - rewrite skipn_nil. destruct j, d; reflexivity.
  - destruct d; [reflexivity|]. cbn [skipn Nat.add nth_error]. apply IH.
Qed.

Lemma nth_error_in_firstn {A} (l : list A) : forall i k x, nth_error l i = Some x -> (i < k)%nat -> In x (firstn k l).
Proof.
  induction l as [|a l IH]; intros i k x H Hk; [destruct i; discriminate|].
  destruct k; [lia|]. destruct i; cbn in *.
  - left; congruence.
  - right. eapply IH; [exact H | lia].
Qed.

Lemma dying_fields s k :
  chain (dying s k) = chain s /\ hm (dying s k) = hm s /\ dm (dying s k) = dm s /\
  sv_h (dying s k) = sv_h s /\ sv_d (dying s k) = sv_d s /\ base (dying s k) = base s.
Proof. unfold dying. apply apply_effs_fields. Qed.

(* marks produced after the last crash are in the cache *)
Lemma live_h b : forall h id, marked_h_since_crash (rev h) id = true -> mget (hm (run b h)) id <> None.
Proof.
  induction h as [|i h IH] using rev_ind; intros id; [cbn; discriminate|].
  rewrite rev_app_distr, run_snoc. cbn [rev app marked_h_since_crash].
  destruct i as [x|i' da|i' da| |k|k|]; cbn [step hm]; intros H.
  - apply IH, H.
  - cbn [mget]. rewrite N.eqb_sym. destruct (i' =? id); [discriminate|]. apply IH, H.
  - apply IH, H.
  - destruct (apply_effs_fields (include_effs (run b h)) (run b h)) as (_ & E & _). rewrite E. apply IH, H.
  - discriminate H.
  - cbn. destruct (dying_fields (run b h) k) as (_ & E & _). rewrite E. apply IH, H.
  - cbn. apply IH, H.
Qed.

Lemma live_d b : forall h id, marked_d_since_crash (rev h) id = true -> mget (dm (run b h)) id <> None.
Proof.
  induction h as [|i h IH] using rev_ind; intros id; [cbn; discriminate|].
  rewrite rev_app_distr, run_snoc. cbn [rev app marked_d_since_crash].
  destruct i as [x|i' da|i' da| |k|k|]; cbn [step dm]; intros H.
  - apply IH, H.
  - apply IH, H.
  - cbn [mget]. rewrite N.eqb_sym. destruct (i' =? id); [discriminate|]. apply IH, H.
  - destruct (apply_effs_fields (include_effs (run b h)) (run b h)) as (_ & _ & E & _). rewrite E. apply IH, H.
  - discriminate H.
  - cbn. destruct (dying_fields (run b h) k) as (_ & _ & E & _). rewrite E. apply IH, H.
  - cbn. apply IH, H.
Qed.

(* for every initial height b+1 >= 1 *)
Theorem eventually_guarded : forall b h n,
  n <= sheight (run b h) ->
  blocks_marked_since_crash b h n = true ->
  n <= rep (run b (h ++ [IInclude])).
Proof.
  intros b h n Hn Hg. rewrite run_snoc. cbn [step]. unfold rep.
  set (s := run b h) in *.
  destruct (run_inv b h) as ((I & HK) & Hb). fold s in I, HK, Hb.
  rewrite (include_effs_ge s (i_base _ _ I)), di_incl.
  destruct (N.le_gt_cases n (di s)) as [Hle|Hgt]; [lia|].
  pose proof (i_le _ _ I) as Hdi. pose proof (i_base _ _ I) as Hbase. unfold sheight in *.
  assert (Hlead : (N.to_nat (n - di s) <= lead (hm s) (dm s) (skipn (N.to_nat (di s - base s)) (chain s)))%nat).
  { apply lead_ge; [rewrite skipn_length; lia|].
    intros j x Hj Hx. rewrite nth_error_skipn' in Hx.
    unfold blocks_marked_since_crash in Hg. fold s in Hg. rewrite forallb_forall in Hg.
    assert (Hin : In x (firstn (N.to_nat (n - b)) (chain s))) by (eapply nth_error_in_firstn; [exact Hx | lia]).
    specialize (Hg x Hin). apply andb_true_iff in Hg as (Hh & Hd).
    pose proof (live_h b h _ Hh) as Lh. fold s in Lh.
    unfold inclb. destruct (mget (hm s) (bh x)); [|congruence].
    destruct (bempty x); [reflexivity|]. cbn [orb] in *.
    pose proof (live_d b h _ Hd) as Ld. fold s in Ld.
    destruct (mget (dm s) (bd x)); [reflexivity | congruence]. }
  lia.
Qed.

(* F9: the marks of an aggregator live only in memory.  After a crash nothing in the node re-creates them
   (the submitter's watermark is persisted, so the blobs are never submitted again): the height is stuck. *)
Definition stuck (s : node) : Prop :=
  base s = 0 /\ di s = 0 /\ K s = 0 /\ (exists b r, chain s = b :: r /\ bh b = 1) /\
  mget (hm s) 1 = None /\ mget (sv_h s) 1 = None.

Lemma stuck_effs s : stuck s -> include_effs s = [].
Proof.
  intros (H0 & Hd & _ & (b & r & Hc & Hb) & Hm & _). unfold include_effs.
  rewrite Hd, H0, Hc. cbn [N.ltb N.compare N.sub N.to_nat skipn incl_effs]. rewrite Hb, Hm. reflexivity.
Qed.

Lemma stuck_step s i : stuck s -> is_markh i = false -> stuck (step s i).
Proof.
  intros S Hi. pose proof (stuck_effs s S) as He.
  destruct S as (H0 & Hd & Hk & (b & r & Hc & Hb) & Hm & Hs).
  assert (Hk' : meta_get (meta s) KD = None \/ meta_get (meta s) KD = Some 0).
  { unfold kd in Hk. destruct (meta_get (meta s) KD); [right; congruence | left; reflexivity]. }
  destruct i as [x|id da|id da| |k|k|]; cbn [step]; try discriminate Hi; unfold dying; rewrite ?He, ?firstn_nil;
    cbn [apply_effs fold_left]; unfold stuck, kd in *; cbn [boot save base di meta chain hm sv_h];
    (split; [assumption|]); (split; [try assumption; rewrite ?H0; destruct Hk' as [->| ->]; reflexivity|]);
    (split; [assumption|]); (split; [|split; assumption]).
  - exists b, (r ++ [x]). rewrite Hc. split; [reflexivity | exact Hb].
  - exists b, r. split; assumption.
  - exists b, r. split; assumption.
  - exists b, r. split; assumption.
  - exists b, r. split; assumption.
  - exists b, r. split; assumption.
Qed.

Lemma stuck_run : forall ext s, stuck s -> forallb (fun i => negb (is_markh i)) ext = true -> stuck (run_from s ext).
Proof.
  induction ext as [|i ext IH]; intros s S H; [exact S|].
  cbn in H. apply andb_true_iff in H as (Hi & H). unfold run_from; cbn [fold_left].
  apply IH; [|exact H]. apply stuck_step; [exact S|]. destruct (is_markh i); [discriminate | reflexivity].
Qed.

Definition f9_history : list item := [IAppend {| bh := 1; bd := 0 |}; IMarkH 1 10; ICrash 0].

Theorem eventually_refuted :
  exists b h n,
    n <= sheight (run b h) /\ blocks_marked_ever b h n = true /\
    forall ext, forallb (fun i => negb (is_markh i)) ext = true -> rep (run b (h ++ ext)) < n.
Proof.
  exists 0, f9_history, 1. split; [vm_compute; discriminate|]. split; [vm_compute; reflexivity|].
  intros ext H. rewrite run_app.
  assert (S : stuck (run 0 f9_history)).
  { unfold stuck. vm_compute. repeat split. eexists; eexists; split; reflexivity. }
  destruct (stuck_run ext _ S H) as (_ & Hd & _). unfold rep. rewrite Hd. lia.
Qed.

(* so the unguarded liveness statement is false of the model *)
Theorem eventually_full_is_false :
  ~ (forall b h n, n <= sheight (run b h) -> blocks_marked_ever b h n = true ->
       exists k, n <= rep (run b (h ++ repeat IInclude k))).
Proof.
  intros F. destruct eventually_refuted as (b & h & n & Hn & Hm & Hstuck).
  destruct (F b h n Hn Hm) as (k & Hk).
  assert (Hno : forallb (fun i => negb (is_markh i)) (repeat IInclude k) = true).
  { clear. induction k; [reflexivity | cbn; assumption]. }
  specialize (Hstuck _ Hno). lia.
Qed.
