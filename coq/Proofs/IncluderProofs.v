(* Proofs/IncluderProofs.v — the DA-included height: invariants of Model/Includer.v over all histories (C07). *)
From Coq Require Import NArith List Bool Lia ZifyBool ZifyN ZifyNat.
From Verif Require Import Model.Includer.
Import ListNotations.
Open Scope N_scope.

(* ---- effects leave the non-metadata fields alone ------------------------------------------- *)
Lemma apply_eff_chain s e : chain (apply_eff s e) = chain s. Proof. destruct e; reflexivity. Qed.
Lemma apply_eff_hm s e : hm (apply_eff s e) = hm s. Proof. destruct e; reflexivity. Qed.
Lemma apply_eff_dm s e : dm (apply_eff s e) = dm s. Proof. destruct e; reflexivity. Qed.
Lemma apply_eff_svh s e : sv_h (apply_eff s e) = sv_h s. Proof. destruct e; reflexivity. Qed.
Lemma apply_eff_svd s e : sv_d (apply_eff s e) = sv_d s. Proof. destruct e; reflexivity. Qed.

Lemma apply_effs_fields es : forall s,
  chain (apply_effs s es) = chain s /\ hm (apply_effs s es) = hm s /\ dm (apply_effs s es) = dm s /\
  sv_h (apply_effs s es) = sv_h s /\ sv_d (apply_effs s es) = sv_d s.
Proof.
  induction es as [|e es IH]; intros s; [repeat split|].
  unfold apply_effs in *; cbn [fold_left].
  destruct (IH (apply_eff s e)) as (A & B & C & D & E).
  rewrite A, B, C, D, E, apply_eff_chain, apply_eff_hm, apply_eff_dm, apply_eff_svh, apply_eff_svd.
  repeat split.
Qed.

Lemma apply_effs_app s a b : apply_effs s (a ++ b) = apply_effs (apply_effs s a) b.
Proof. unfold apply_effs; apply fold_left_app. Qed.

Lemma mkey_eqb_refl k : mkey_eqb k k = true.
Proof. destruct k; cbn; try reflexivity; apply N.eqb_refl. Qed.

(* ---- the invariant ------------------------------------------------------------------------------ *)
Definition sound_at (h : list item) (s : node) (n : N) : Prop :=
  exists b hda dda,
    block_at (chain s) n = Some b /\
    meta_get (meta s) (KH n) = Some hda /\ meta_get (meta s) (KT n) = Some dda /\
    In (IMarkH (bh b) hda) h /\
    (if bempty b then dda = hda else In (IMarkD (bd b) dda) h).

Definition prov (h : list item) (s : node) : Prop :=
  (forall id da, mget (hm s) id = Some da -> In (IMarkH id da) h) /\
  (forall id da, mget (sv_h s) id = Some da -> In (IMarkH id da) h) /\
  (forall id da, mget (dm s) id = Some da -> In (IMarkD id da) h) /\
  (forall id da, mget (sv_d s) id = Some da -> In (IMarkD id da) h).

Record Inv (h : list item) (s : node) : Prop := {
  i_kd : kd (meta s) = di s;
  i_le : di s <= sheight s;
  i_desc : desc (dputs (tr s)) (di s);
  i_fin : exists m, (m = di s \/ m = di s + 1) /\ finsok (fins (tr s)) m;
  i_abr : asked_before (tr s);
  i_sound : forall n, 1 <= n <= di s -> sound_at h s n;
  i_prov : prov h s
}.

Lemma finsok_le l : forall m x, finsok l m -> In x l -> x <= m.
Proof.
  induction l as [|y l IH]; intros m x Hf Hin; [destruct Hin|].
  cbn in Hf. destruct Hf as (E & Hpos & Hr). destruct Hin as [->|Hin]; [lia|].
  destruct Hr as [Hr|Hr]; specialize (IH _ _ Hr Hin); lia.
Qed.

Lemma in_fins t n : In (EFin n) t -> In n (fins t).
Proof.
  induction t as [|e t IH]; intros H; [destruct H|].
  unfold fins; cbn [flat_map]. apply in_or_app.
  destruct H as [->|H]; [left; left; reflexivity | right; apply IH, H].
Qed.

(* a Put of rhb/<n>/h or rhb/<n>/d for a height above the reported one *)
Lemma eff_rhb h s k v n :
  Inv h s -> (k = KH n \/ k = KT n) -> di s < n -> Inv h (apply_eff s (EPut k v)).
Proof.
  intros I Hk Hn.
  assert (Hkd : mkey_eqb KD k = false) by (destruct Hk; subst; reflexivity).
  assert (Hdi : di (apply_eff s (EPut k v)) = di s) by (destruct Hk; subst; reflexivity).
  constructor.
  - rewrite Hdi, <- (i_kd _ _ I). unfold kd; cbn [apply_eff meta meta_get]. rewrite Hkd; reflexivity.
  - rewrite Hdi. unfold sheight; rewrite apply_eff_chain. apply (i_le _ _ I).
  - rewrite Hdi. replace (dputs (tr (apply_eff s (EPut k v)))) with (dputs (tr s)); [apply (i_desc _ _ I)|].
    destruct Hk; subst; reflexivity.
  - rewrite Hdi. replace (fins (tr (apply_eff s (EPut k v)))) with (fins (tr s)); [apply (i_fin _ _ I)|].
    reflexivity.
  - destruct Hk; subst; cbn; apply (i_abr _ _ I).
  - rewrite Hdi. intros n' Hn'. destruct (i_sound _ _ I n' Hn') as (b & hda & dda & Hb & Hh & Hd & Hrest).
    exists b, hda, dda. rewrite apply_eff_chain. split; [exact Hb|].
    assert (Hne : (n' =? n) = false) by (apply N.eqb_neq; lia).
    split; [|split; [|exact Hrest]]; cbn [apply_eff meta meta_get];
      destruct Hk; subst; cbn [mkey_eqb]; try rewrite Hne; assumption.
  - destruct (i_prov _ _ I) as (A & B & C & D).
    unfold prov. rewrite apply_eff_hm, apply_eff_dm, apply_eff_svh, apply_eff_svd. repeat split; assumption.
Qed.

(* SetFinal of the next height *)
Lemma eff_fin h s : Inv h s -> Inv h (apply_eff s (EFin (di s + 1))).
Proof.
  intros I. constructor; cbn [apply_eff meta di tr chain hm dm sv_h sv_d].
  - apply (i_kd _ _ I).
  - apply (i_le _ _ I).
  - apply (i_desc _ _ I).
  - exists (di s + 1). split; [right; reflexivity|].
    unfold fins; cbn [flat_map app]. fold (fins (tr s)).
    destruct (i_fin _ _ I) as (m & [->| ->] & Hf); cbn; (split; [reflexivity|split; [lia|]]).
    + right. replace (di s + 1 - 1) with (di s) by lia. exact Hf.
    + left. exact Hf.
  - cbn. apply (i_abr _ _ I).
  - intros n Hn. destruct (i_sound _ _ I n Hn) as (b & hda & dda & H). exists b, hda, dda. exact H.
  - apply (i_prov _ _ I).
Qed.

(* the Put of "d" (followed by the compare-and-swap of the volatile height) *)
Lemma eff_kd h s :
  Inv h s -> In (EFin (di s + 1)) (tr s) -> sound_at h s (di s + 1) -> di s + 1 <= sheight s ->
  Inv h (apply_eff s (EPut KD (di s + 1))).
Proof.
  intros I Hin Hs Hle. constructor; cbn [apply_eff meta di tr chain hm dm sv_h sv_d].
  - unfold kd; cbn. reflexivity.
  - exact Hle.
  - unfold dputs; cbn [flat_map app]. fold (dputs (tr s)). cbn. split; [reflexivity|split; [lia|]].
    replace (di s + 1 - 1) with (di s) by lia. apply (i_desc _ _ I).
  - exists (di s + 1). split; [left; reflexivity|].
    unfold fins; cbn [flat_map app]. fold (fins (tr s)).
    destruct (i_fin _ _ I) as (m & Hm & Hf).
    pose proof (finsok_le _ _ _ Hf (in_fins _ _ Hin)) as Hx.
    assert (m = di s + 1) as <- by lia. exact Hf.
  - cbn. split; [exact Hin | apply (i_abr _ _ I)].
  - intros n Hn.
    assert (Hput : forall n', sound_at h s n' ->
              sound_at h {| chain := chain s; meta := (KD, di s + 1) :: meta s; sv_h := sv_h s; sv_d := sv_d s;
                            di := di s + 1; hm := hm s; dm := dm s; tr := EPut KD (di s + 1) :: tr s |} n').
    { intros n' (b & hda & dda & Hb & Hh & Hd & Hi & Hrest). exists b, hda, dda.
      cbn [chain meta meta_get mkey_eqb]. split; [exact Hb|split; [exact Hh|split; [exact Hd|split; [exact Hi|exact Hrest]]]]. }
    destruct (N.eq_dec n (di s + 1)) as [->|Hne]; apply Hput; [exact Hs|].
    apply (i_sound _ _ I). lia.
  - apply (i_prov _ _ I).
Qed.

Lemma nth_error_mid {A} (pre : list A) b r : nth_error (pre ++ b :: r) (length pre) = Some b.
Proof. induction pre; cbn; auto. Qed.

(* a run of the includer, cut after any number of effects *)
Lemma incl_inv h : forall bs s k pre,
  Inv h s -> chain s = pre ++ bs -> length pre = N.to_nat (di s) ->
  let s' := apply_effs s (firstn k (incl_effs (hm s) (dm s) bs (di s))) in
  Inv h s' /\ di s <= di s'.
Proof.
  induction bs as [|b r IH]; intros s k pre I Hc Hl; cbn zeta.
  - cbn [incl_effs]. rewrite firstn_nil. cbn. split; [exact I | lia].
  - cbn [incl_effs].
    destruct (mget (hm s) (bh b)) as [hda|] eqn:Hh; [|rewrite firstn_nil; cbn; split; [exact I | lia]].
    destruct (if bempty b then Some hda else mget (dm s) (bd b)) as [dda|] eqn:Hd;
      [|rewrite firstn_nil; cbn; split; [exact I | lia]].
    set (e1 := EPut (KH (di s + 1)) hda). set (e2 := EPut (KT (di s + 1)) dda).
    set (e3 := EFin (di s + 1)). set (e4 := EPut KD (di s + 1)).
    assert (I1 : Inv h (apply_eff s e1)) by (eapply eff_rhb; [exact I | left; reflexivity | lia]).
    assert (I2 : Inv h (apply_eff (apply_eff s e1) e2)) by (eapply eff_rhb; [exact I1 | right; reflexivity | cbn; lia]).
    assert (I3 : Inv h (apply_eff (apply_eff (apply_eff s e1) e2) e3)) by (apply (eff_fin h _ I2)).
    assert (Hlen : di s + 1 <= sheight s).
    { unfold sheight. rewrite Hc, app_length. cbn [length]. lia. }
    assert (I4 : Inv h (apply_eff (apply_eff (apply_eff (apply_eff s e1) e2) e3) e4)).
    { apply (eff_kd h _ I3).
      - left; reflexivity.
      - exists b, hda, dda. cbn [apply_eff chain meta meta_get mkey_eqb di e1 e2 e3].
        rewrite N.eqb_refl. split; [|split; [reflexivity|split; [reflexivity|]]].
        + unfold block_at. replace (di s + 1 =? 0) with false by (symmetry; apply N.eqb_neq; lia).
          replace (N.to_nat (di s + 1 - 1)) with (length pre) by lia. rewrite Hc. apply nth_error_mid.
        + destruct (i_prov _ _ I) as (A & _ & C & _). split; [apply A, Hh|].
          destruct (bempty b); [congruence | apply C, Hd].
      - exact Hlen. }
    destruct k as [|[|[|[|k]]]]; cbn [firstn apply_effs fold_left].
    + split; [exact I | lia].
    + split; [exact I1 | cbn; lia].
    + split; [exact I2 | cbn; lia].
    + split; [exact I3 | cbn; lia].
    + set (s4 := apply_eff (apply_eff (apply_eff (apply_eff s e1) e2) e3) e4) in *.
      assert (Hd4 : di s4 = di s + 1) by reflexivity.
      specialize (IH s4 k (pre ++ [b]) I4).
      replace (hm s) with (hm s4) by reflexivity. replace (dm s) with (dm s4) by reflexivity.
      rewrite <- Hd4.
      destruct IH as (IA & IB).
      * change (chain s4) with (chain s). rewrite Hc, <- app_assoc. reflexivity.
      * rewrite app_length, Hd4. cbn [length]. lia.
      * unfold apply_effs in *. split; [exact IA | lia].
Qed.

Lemma include_inv h s k :
  Inv h s -> let s' := apply_effs s (firstn k (include_effs s)) in Inv h s' /\ di s <= di s'.
Proof.
  intros I. unfold include_effs.
  apply (incl_inv h _ s k (firstn (N.to_nat (di s)) (chain s)) I).
  - symmetry; apply firstn_skipn.
  - rewrite firstn_length. pose proof (i_le _ _ I) as Hle. unfold sheight in Hle. lia.
Qed.

Lemma inv_weaken h h' s : (forall x, In x h -> In x h') -> Inv h s -> Inv h' s.
Proof.
  intros Hsub I. constructor; try apply I.
  - intros n Hn. destruct (i_sound _ _ I n Hn) as (b & hda & dda & Hb & Hh & Hd & Hi & Hr).
    exists b, hda, dda. repeat split; try assumption; [apply Hsub, Hi|].
    destruct (bempty b); [exact Hr | apply Hsub, Hr].
  - destruct (i_prov _ _ I) as (A & B & C & D). repeat split; intros id da H; apply Hsub; auto.
Qed.

Lemma boot_inv h s : Inv h s -> Inv h (boot s) /\ di (boot s) = di s.
Proof.
  intros I. split; [|apply (i_kd _ _ I)].
  constructor; cbn [boot chain meta sv_h sv_d di hm dm tr]; try rewrite (i_kd _ _ I); try apply I; try reflexivity.
  destruct (i_prov _ _ I) as (A & B & C & D). repeat split; assumption.
Qed.

Lemma save_inv h s : Inv h s -> Inv h (save s).
Proof.
  intros I. constructor; cbn [save chain meta sv_h sv_d di hm dm tr]; try apply I.
  destruct (i_prov _ _ I) as (A & B & C & D). repeat split; assumption.
Qed.

Lemma block_at_app c b n x : block_at c n = Some x -> block_at (c ++ [b]) n = Some x.
Proof.
  unfold block_at. destruct (n =? 0); [discriminate|]. intros H.
  rewrite nth_error_app1; [exact H|]. apply nth_error_Some. congruence.
Qed.

Lemma step_inv h s i : Inv h s -> Inv (h ++ [i]) (step s i) /\ di s <= di (step s i).
Proof.
  intros I0.
  assert (I : Inv (h ++ [i]) s) by (eapply inv_weaken; [|exact I0]; intros x Hx; apply in_or_app; left; exact Hx).
  assert (Hlast : In i (h ++ [i])) by (apply in_or_app; right; left; reflexivity).
  destruct i as [b|id da|id da| |k|]; cbn [step].
  - split; [|cbn; lia]. constructor; cbn [chain meta sv_h sv_d di hm dm tr]; try apply I.
    + pose proof (i_le _ _ I) as Hle. unfold sheight in *. cbn [chain]. rewrite app_length. cbn [length]. lia.
    + intros n Hn. destruct (i_sound _ _ I n Hn) as (x & hda & dda & Hb & Hrest).
      exists x, hda, dda. split; [apply block_at_app, Hb | exact Hrest].
  - split; [|cbn; lia]. constructor; cbn [chain meta sv_h sv_d di hm dm tr]; try apply I.
    destruct (i_prov _ _ I) as (A & B & C & D). repeat split; try assumption.
      cbn [hm mget]. intros id' da'. destruct (id' =? id) eqn:E; [|apply A].
      intros H; inversion H; subst. apply N.eqb_eq in E; subst. exact Hlast.
  - split; [|cbn; lia]. constructor; cbn [chain meta sv_h sv_d di hm dm tr]; try apply I.
    destruct (i_prov _ _ I) as (A & B & C & D). repeat split; try assumption.
      cbn [dm mget]. intros id' da'. destruct (id' =? id) eqn:E; [|apply C].
      intros H; inversion H; subst. apply N.eqb_eq in E; subst. exact Hlast.
  - pose proof (include_inv _ s (length (include_effs s)) I) as H. rewrite firstn_all in H. exact H.
  - destruct (include_inv _ s k I) as (IA & IB).
    destruct (boot_inv _ _ IA) as (IC & ID). split; [exact IC | lia].
  - destruct (boot_inv _ _ (save_inv _ _ I)) as (IC & ID). split; [exact IC | rewrite ID; cbn; lia].
Qed.

Lemma init_inv : Inv [] init.
Proof.
  constructor.
  - reflexivity.
  - cbn; lia.
  - reflexivity.
  - exists 0. split; [left|]; reflexivity.
  - exact I.
  - cbn; intros n Hn; lia.
  - repeat split; intros id da H; discriminate H.
Qed.

Lemma run_snoc h i : run (h ++ [i]) = step (run h) i.
Proof. unfold run, run_from. rewrite fold_left_app. reflexivity. Qed.

Lemma run_app h h' : run (h ++ h') = run_from (run h) h'.
Proof. unfold run, run_from. apply fold_left_app. Qed.

Theorem run_inv : forall h, Inv h (run h).
Proof.
  induction h as [|i h IH] using rev_ind; [exact init_inv|].
  rewrite run_snoc. apply step_inv, IH.
Qed.

(* ---- C07 safety ---------------------------------------------------------------------------------- *)
Theorem monotone : forall h h', rep (run h) <= rep (run (h ++ h')).
Proof.
  intros h h'. induction h' as [|i h' IH] using rev_ind.
  - rewrite app_nil_r. lia.
  - rewrite app_assoc, run_snoc.
    destruct (step_inv _ _ i (run_inv (h ++ h'))) as (_ & Hm). unfold rep in *. lia.
Qed.

Theorem durable : forall h k,
  rep (run (h ++ [IRestart])) = rep (run h) /\
  rep (run (h ++ [ICrash 0])) = rep (run h) /\
  rep (run h) <= rep (run (h ++ [ICrash k])).
Proof.
  intros h k. pose proof (run_inv h) as I. rewrite !run_snoc. unfold rep; cbn [step firstn].
  split; [|split].
  - destruct (boot_inv _ _ (save_inv _ _ I)) as (_ & E). rewrite E. reflexivity.
  - destruct (boot_inv _ _ I) as (_ & E). cbn [apply_effs fold_left]. exact E.
  - destruct (include_inv _ _ k I) as (IA & IB). destruct (boot_inv _ _ IA) as (_ & E). lia.
Qed.

Theorem safety : forall h, let s := run h in
  rep s <= sheight s /\
  desc (dputs (tr s)) (rep s) /\
  (exists m, (m = rep s \/ m = rep s + 1) /\ finsok (fins (tr s)) m) /\
  asked_before (tr s) /\
  kd (meta s) = rep s.
Proof.
  intros h s. pose proof (run_inv h) as I. unfold rep.
  repeat split; try apply I.
Qed.

Theorem sound : forall h n, let s := run h in
  1 <= n <= rep s ->
  exists b hda dda,
    block_at (chain s) n = Some b /\
    meta_get (meta s) (KH n) = Some hda /\ meta_get (meta s) (KT n) = Some dda /\
    In (IMarkH (bh b) hda) h /\
    (if bempty b then dda = hda else In (IMarkD (bd b) dda) h).
Proof. intros h n s Hn. exact (i_sound _ _ (run_inv h) n Hn). Qed.

(* ---- C07 liveness ----------------------------------------------------------------------------- *)
(* IsDAIncluded for a stored block *)
Definition inclb (hmk dmk : marks) (b : blk) : bool :=
  match mget hmk (bh b) with
  | None => false
  | Some _ => bempty b || match mget dmk (bd b) with Some _ => true | None => false end
  end.
(* number of leading blocks that are included *)
Fixpoint lead (hmk dmk : marks) (bs : list blk) : nat :=
  match bs with
  | [] => 0%nat
  | b :: r => if inclb hmk dmk b then S (lead hmk dmk r) else 0%nat
  end.

Lemma di_incl hmk dmk : forall bs s,
  di (apply_effs s (incl_effs hmk dmk bs (di s))) = di s + N.of_nat (lead hmk dmk bs).
Proof.
  induction bs as [|b r IH]; intros s; cbn [incl_effs lead]; [cbn; lia|].
  unfold inclb. destruct (mget hmk (bh b)) as [hda|]; [|cbn; lia].
  destruct (bempty b); cbn [orb].
  - cbn [apply_effs fold_left].
    set (s4 := apply_eff _ (EPut KD (di s + 1))).
    change (di s + 1) with (di s4) at 1. unfold apply_effs in IH. rewrite IH. cbn. lia.
  - destruct (mget dmk (bd b)) as [dda|]; [|cbn; lia].
    cbn [apply_effs fold_left].
    set (s4 := apply_eff _ (EPut KD (di s + 1))).
    change (di s + 1) with (di s4) at 1. unfold apply_effs in IH. rewrite IH. cbn. lia.
Qed.

Lemma lead_ge hmk dmk : forall bs cnt,
  (cnt <= length bs)%nat ->
  (forall j b, (j < cnt)%nat -> nth_error bs j = Some b -> inclb hmk dmk b = true) ->
  (cnt <= lead hmk dmk bs)%nat.
Proof.
  induction bs as [|b r IH]; intros cnt Hl H; cbn [lead]; [cbn in Hl; lia|].
  destruct cnt as [|cnt]; [lia|].
  rewrite (H 0%nat b) by (cbn; (lia || reflexivity)).
  apply le_n_S, IH; [cbn in Hl; lia|].
  intros j x Hj Hx. apply (H (S j) x); [lia | exact Hx].
Qed.

Lemma nth_error_skipn' {A} (l : list A) : forall d j, nth_error (skipn d l) j = nth_error l (d + j).
Proof.
  induction l as [|a l IH]; intros d j.
  - rewrite skipn_nil. destruct j, d; reflexivity.
  - destruct d; [reflexivity|]. cbn [skipn Nat.add nth_error]. apply IH.
Qed.

Lemma nth_error_in_firstn {A} (l : list A) : forall i k x, nth_error l i = Some x -> (i < k)%nat -> In x (firstn k l).
Proof.
  induction l as [|a l IH]; intros i k x H Hk; [destruct i; discriminate|].
  destruct k; [lia|]. destruct i; cbn in *.
  - left; congruence.
  - right. eapply IH; [exact H | lia].
Qed.

(* marks produced after the last crash are in the cache *)
Lemma live_h : forall h id, marked_h_since_crash (rev h) id = true -> mget (hm (run h)) id <> None.
Proof.
  induction h as [|i h IH] using rev_ind; intros id; [cbn; discriminate|].
  rewrite rev_app_distr, run_snoc. cbn [rev app marked_h_since_crash].
  destruct i as [b|i' da|i' da| |k|]; cbn [step hm]; intros H.
  - apply IH, H.
  - cbn [mget]. rewrite N.eqb_sym. destruct (i' =? id); [discriminate|]. apply IH, H.
  - apply IH, H.
  - destruct (apply_effs_fields (include_effs (run h)) (run h)) as (_ & E & _). rewrite E. apply IH, H.
  - discriminate H.
  - cbn. apply IH, H.
Qed.

Lemma live_d : forall h id, marked_d_since_crash (rev h) id = true -> mget (dm (run h)) id <> None.
Proof.
  induction h as [|i h IH] using rev_ind; intros id; [cbn; discriminate|].
  rewrite rev_app_distr, run_snoc. cbn [rev app marked_d_since_crash].
  destruct i as [b|i' da|i' da| |k|]; cbn [step dm]; intros H.
  - apply IH, H.
  - apply IH, H.
  - cbn [mget]. rewrite N.eqb_sym. destruct (i' =? id); [discriminate|]. apply IH, H.
  - destruct (apply_effs_fields (include_effs (run h)) (run h)) as (_ & _ & E & _). rewrite E. apply IH, H.
  - discriminate H.
  - cbn. apply IH, H.
Qed.

Theorem eventually_guarded : forall h n,
  n <= sheight (run h) ->
  blocks_marked_since_crash h n = true ->
  n <= rep (run (h ++ [IInclude])).
Proof.
  intros h n Hn Hg. rewrite run_snoc. cbn [step]. unfold rep, include_effs.
  set (s := run h) in *. rewrite di_incl.
  destruct (N.le_gt_cases n (di s)) as [Hle|Hgt]; [lia|].
  pose proof (i_le _ _ (run_inv h)) as Hdi. fold s in Hdi. unfold sheight in *.
  assert (Hlead : (N.to_nat (n - di s) <= lead (hm s) (dm s) (skipn (N.to_nat (di s)) (chain s)))%nat).
  { apply lead_ge; [rewrite skipn_length; lia|].
    intros j b Hj Hb. rewrite nth_error_skipn' in Hb.
    unfold blocks_marked_since_crash in Hg. rewrite forallb_forall in Hg.
    assert (Hin : In b (firstn (N.to_nat n) (chain s))) by (eapply nth_error_in_firstn; [exact Hb | lia]).
    specialize (Hg b Hin). apply andb_true_iff in Hg as (Hh & Hd).
    pose proof (live_h h _ Hh) as Lh. fold s in Lh.
    unfold inclb. destruct (mget (hm s) (bh b)); [|congruence].
    destruct (bempty b); [reflexivity|]. cbn [orb] in *.
    pose proof (live_d h _ Hd) as Ld. fold s in Ld.
    destruct (mget (dm s) (bd b)); [reflexivity | congruence]. }
  lia.
Qed.

(* F9: the marks of an aggregator live only in memory.  After a crash nothing in the node re-creates them
   (the submitter's watermark is persisted, so the blobs are never submitted again): the height is stuck. *)
Definition stuck (s : node) : Prop :=
  di s = 0 /\ kd (meta s) = 0 /\ (exists b r, chain s = b :: r /\ bh b = 1) /\
  mget (hm s) 1 = None /\ mget (sv_h s) 1 = None.

Lemma stuck_effs s : stuck s -> include_effs s = [].
Proof.
  intros (Hd & _ & (b & r & Hc & Hb) & Hm & _). unfold include_effs.
  rewrite Hd, Hc. cbn [N.to_nat skipn incl_effs]. rewrite Hb, Hm. reflexivity.
Qed.

Lemma stuck_step s i : stuck s -> is_markh i = false -> stuck (step s i).
Proof.
  intros S Hi. pose proof (stuck_effs s S) as He.
  destruct S as (Hd & Hk & (b & r & Hc & Hb) & Hm & Hs).
  destruct i as [x|id da|id da| |k|]; cbn [step]; try discriminate Hi.
  - repeat split; cbn; try assumption. exists b, (r ++ [x]). rewrite Hc. split; [reflexivity | exact Hb].
  - repeat split; cbn; try assumption. exists b, r. split; assumption.
  - rewrite He. cbn. repeat split; try assumption. exists b, r. split; assumption.
  - rewrite He, firstn_nil. cbn [apply_effs fold_left]. repeat split; cbn; try assumption. exists b, r. split; assumption.
  - repeat split; cbn; try assumption. exists b, r. split; assumption.
Qed.

Lemma stuck_run : forall ext s, stuck s -> forallb (fun i => negb (is_markh i)) ext = true -> stuck (run_from s ext).
Proof.
  induction ext as [|i ext IH]; intros s S H; [exact S|].
  cbn in H. apply andb_true_iff in H as (Hi & H). unfold run_from; cbn [fold_left].
  apply IH; [|exact H]. apply stuck_step; [exact S|]. destruct (is_markh i); [discriminate | reflexivity].
Qed.

Definition f9_history : list item := [IAppend {| bh := 1; bd := 0 |}; IMarkH 1 10; ICrash 0].

Theorem eventually_refuted :
  exists h n,
    n <= sheight (run h) /\ blocks_marked_ever h n = true /\
    forall ext, forallb (fun i => negb (is_markh i)) ext = true -> rep (run (h ++ ext)) < n.
Proof.
  exists f9_history, 1. split; [vm_compute; discriminate|]. split; [vm_compute; reflexivity|].
  intros ext H. rewrite run_app.
  assert (S : stuck (run f9_history)).
  { unfold stuck. vm_compute. repeat split. eexists; eexists; split; reflexivity. }
  destruct (stuck_run ext _ S H) as (Hd & _). unfold rep. rewrite Hd. lia.
Qed.

(* so the unguarded liveness statement is false of the model *)
Theorem eventually_full_is_false :
  ~ (forall h n, n <= sheight (run h) -> blocks_marked_ever h n = true ->
       exists k, n <= rep (run (h ++ repeat IInclude k))).
Proof.
  intros F. destruct eventually_refuted as (h & n & Hn & Hm & Hstuck).
  destruct (F h n Hn Hm) as (k & Hk).
  assert (Hno : forallb (fun i => negb (is_markh i)) (repeat IInclude k) = true).
  { clear. induction k; [reflexivity | cbn; assumption]. }
  specialize (Hstuck _ Hno). lia.
Qed.
