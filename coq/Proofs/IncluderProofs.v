(* Proofs/IncluderProofs.v — the DA-included height: invariants of Model/Includer.v over all histories (C07).
   The invariant is stated relative to the PERSISTED height K = kd (meta s); the volatile (reported) height
   is K or K-1 at every instant, and equal to K between items. *)
From Coq Require Import NArith List Bool Lia ZifyBool ZifyN ZifyNat.
From Verif Require Import Model.Includer.
Import ListNotations.
Open Scope N_scope.

(* ---- effects leave the non-metadata fields alone ------------------------------------------- *)
Lemma apply_eff_chain s e : chain (apply_eff s e) = chain s. Proof. destruct e; reflexivity. Qed.
Lemma apply_eff_hm s e : hm (apply_eff s e) = hm s. Proof. destruct e; reflexivity. Qed.
Lemma apply_eff_dm s e : dm (apply_eff s e) = dm s. Proof. destruct e; reflexivity. Qed.
Lemma apply_eff_svh s e : sv_h (apply_eff s e) = sv_h s. Proof. destruct e; reflexivity. Qed.
Lemma apply_eff_svd s e : sv_d (apply_eff s e) = sv_d s. Proof. destruct e; reflexivity. Qed.

Lemma apply_effs_fields es : forall s,
  chain (apply_effs s es) = chain s /\ hm (apply_effs s es) = hm s /\ dm (apply_effs s es) = dm s /\
  sv_h (apply_effs s es) = sv_h s /\ sv_d (apply_effs s es) = sv_d s.
Proof.
  induction es as [|e es IH]; intros s; [repeat split|].
  unfold apply_effs in *; cbn [fold_left].
  destruct (IH (apply_eff s e)) as (A & B & C & D & E).
  rewrite A, B, C, D, E, apply_eff_chain, apply_eff_hm, apply_eff_dm, apply_eff_svh, apply_eff_svd.
  repeat split.
Qed.

(* ---- the invariant ------------------------------------------------------------------------------ *)
Definition sound_at (h : list item) (s : node) (n : N) : Prop :=
  exists b hda dda,
    block_at (chain s) n = Some b /\
    meta_get (meta s) (KH n) = Some hda /\ meta_get (meta s) (KT n) = Some dda /\
    In (IMarkH (bh b) hda) h /\
    (if bempty b then dda = hda else In (IMarkD (bd b) dda) h).

Definition prov (h : list item) (s : node) : Prop :=
  (forall id da, mget (hm s) id = Some da -> In (IMarkH id da) h) /\
  (forall id da, mget (sv_h s) id = Some da -> In (IMarkH id da) h) /\
  (forall id da, mget (dm s) id = Some da -> In (IMarkD id da) h) /\
  (forall id da, mget (sv_d s) id = Some da -> In (IMarkD id da) h).

Notation K s := (kd (meta s)).

Record Inv (h : list item) (s : node) : Prop := {
  i_kd : K s = di s \/ K s = di s + 1;
  i_le : K s <= sheight s;
  i_desc : desc (dputs (tr s)) (K s);
  i_fin : exists m, (m = K s \/ m = K s + 1) /\ finsok (fins (tr s)) m;
  i_abr : asked_before (tr s);
  i_pab : persisted_before (tr s);
  i_sound : forall n, 1 <= n <= K s -> sound_at h s n;
  i_prov : prov h s
}.

Lemma finsok_le l : forall m x, finsok l m -> In x l -> x <= m.
Proof.
  induction l as [|y l IH]; intros m x Hf Hin; [destruct Hin|].
  cbn in Hf. destruct Hf as (E & Hpos & Hr). destruct Hin as [->|Hin]; [lia|].
  destruct Hr as [Hr|Hr]; specialize (IH _ _ Hr Hin); lia.
Qed.

Lemma in_fins t n : In (EFin n) t -> In n (fins t).
Proof.
  induction t as [|e t IH]; intros H; [destruct H|].
  unfold fins; cbn [flat_map]. apply in_or_app.
  destruct H as [->|H]; [left; left; reflexivity | right; apply IH, H].
Qed.

Lemma prov_eff h s e : prov h s -> prov h (apply_eff s e).
Proof.
  intros (A & B & C & D). unfold prov.
  rewrite apply_eff_hm, apply_eff_dm, apply_eff_svh, apply_eff_svd. repeat split; assumption.
Qed.

(* a Put of rhb/<n>/h or rhb/<n>/d for a height above the persisted one *)
Lemma eff_rhb h s k v n :
  Inv h s -> (k = KH n \/ k = KT n) -> K s < n -> Inv h (apply_eff s (EPut k v)).
Proof.
  intros I Hk Hn.
  assert (Hkd : mkey_eqb KD k = false) by (destruct Hk; subst; reflexivity).
  assert (HK : K (apply_eff s (EPut k v)) = K s).
  { unfold kd; cbn [apply_eff meta meta_get]. rewrite Hkd; reflexivity. }
  constructor; rewrite ?HK.
  - exact (i_kd _ _ I).
  - unfold sheight; rewrite apply_eff_chain. apply (i_le _ _ I).
  - replace (dputs (tr (apply_eff s (EPut k v)))) with (dputs (tr s)); [apply (i_desc _ _ I)|].
    destruct Hk; subst; reflexivity.
  - exact (i_fin _ _ I).
  - destruct Hk; subst; cbn; apply (i_abr _ _ I).
  - destruct Hk; subst; cbn; apply (i_pab _ _ I).
  - intros n' Hn'. destruct (i_sound _ _ I n' Hn') as (b & hda & dda & Hb & Hh & Hd & Hrest).
    exists b, hda, dda. rewrite apply_eff_chain. split; [exact Hb|].
    assert (Hne : (n' =? n) = false) by (apply N.eqb_neq; lia).
    split; [|split; [|exact Hrest]]; cbn [apply_eff meta meta_get];
      destruct Hk; subst; cbn [mkey_eqb]; try rewrite Hne; assumption.
  - apply prov_eff, (i_prov _ _ I).
Qed.

(* SetFinal of the next height *)
Lemma eff_fin h s n : Inv h s -> n = K s + 1 -> Inv h (apply_eff s (EFin n)).
Proof.
  intros I ->. constructor; cbn [apply_eff meta di tr chain hm dm sv_h sv_d].
  - apply (i_kd _ _ I).
  - apply (i_le _ _ I).
  - apply (i_desc _ _ I).
  - exists (K s + 1). split; [right; reflexivity|].
    unfold fins; cbn [flat_map app]. fold (fins (tr s)).
    destruct (i_fin _ _ I) as (m & [->| ->] & Hf); cbn; (split; [reflexivity|split; [lia|]]).
    + right. replace (K s + 1 - 1) with (K s) by lia. exact Hf.
    + left. exact Hf.
  - cbn. apply (i_abr _ _ I).
  - cbn. apply (i_pab _ _ I).
  - intros n Hn. destruct (i_sound _ _ I n Hn) as (b & hda & dda & H). exists b, hda, dda. exact H.
  - apply (i_prov _ _ I).
Qed.

(* the Put of "d" *)
Lemma eff_kd h s n :
  Inv h s -> K s = di s -> n = K s + 1 -> In (EFin n) (tr s) -> sound_at h s n -> n <= sheight s ->
  Inv h (apply_eff s (EPut KD n)) /\ K (apply_eff s (EPut KD n)) = n.
Proof.
  intros I HK -> Hin Hs Hle.
  assert (HK' : K (apply_eff s (EPut KD (K s + 1))) = K s + 1) by reflexivity.
  split; [|exact HK'].
  constructor; rewrite ?HK'; cbn [apply_eff di tr chain hm dm sv_h sv_d].
  - right. lia.
  - exact Hle.
  - unfold dputs; cbn [flat_map app]. fold (dputs (tr s)). cbn. split; [reflexivity|split; [lia|]].
    replace (K s + 1 - 1) with (K s) by lia. apply (i_desc _ _ I).
  - exists (K s + 1). split; [left; reflexivity|].
    unfold fins; cbn [flat_map app]. fold (fins (tr s)).
    destruct (i_fin _ _ I) as (m & Hm & Hf).
    pose proof (finsok_le _ _ _ Hf (in_fins _ _ Hin)) as Hx.
    assert (m = K s + 1) as <- by lia. exact Hf.
  - cbn. split; [exact Hin | apply (i_abr _ _ I)].
  - cbn. apply (i_pab _ _ I).
  - intros n Hn.
    assert (Hput : forall n', sound_at h s n' ->
              sound_at h {| chain := chain s; meta := (KD, K s + 1) :: meta s; sv_h := sv_h s; sv_d := sv_d s;
                            di := di s; hm := hm s; dm := dm s; tr := EPut KD (K s + 1) :: tr s |} n').
    { intros n' (b & hda & dda & Hb & Hh & Hd & Hi & Hrest). exists b, hda, dda.
      cbn [chain meta meta_get mkey_eqb]. split; [exact Hb|split; [exact Hh|split; [exact Hd|split; [exact Hi|exact Hrest]]]]. }
    destruct (N.eq_dec n (K s + 1)) as [->|Hne]; apply Hput; [exact Hs|].
    apply (i_sound _ _ I). lia.
  - apply (i_prov _ _ I).
Qed.

(* the compare-and-swap: the persisted height becomes the reported one *)
Lemma eff_pub h s n :
  Inv h s -> n = K s -> K s = di s + 1 -> In (EPut KD n) (tr s) ->
  Inv h (apply_eff s (EPub n)) /\ K (apply_eff s (EPub n)) = di (apply_eff s (EPub n)).
Proof.
  intros I -> HK Hin. split; [|reflexivity].
  constructor; cbn [apply_eff meta di tr chain hm dm sv_h sv_d].
  - left; reflexivity.
  - apply (i_le _ _ I).
  - apply (i_desc _ _ I).
  - apply (i_fin _ _ I).
  - cbn. apply (i_abr _ _ I).
  - cbn. split; [exact Hin | apply (i_pab _ _ I)].
  - intros n Hn. destruct (i_sound _ _ I n Hn) as (b & hda & dda & H). exists b, hda, dda. exact H.
  - apply (i_prov _ _ I).
Qed.

Lemma nth_error_mid {A} (pre : list A) b r : nth_error (pre ++ b :: r) (length pre) = Some b.
Proof. induction pre; cbn; auto. Qed.

(* a run of the includer, cut after any number of effects *)
Lemma incl_inv h : forall bs s k pre,
  Inv h s -> K s = di s -> chain s = pre ++ bs -> length pre = N.to_nat (di s) ->
  let es := incl_effs (hm s) (dm s) bs (di s) in
  let s' := apply_effs s (firstn k es) in
  Inv h s' /\ di s <= di s' /\ ((length es <= k)%nat -> K s' = di s').
Proof.
  induction bs as [|ob r IH]; intros s k pre I HK Hc Hl; cbn zeta.
  - cbn [incl_effs]. rewrite firstn_nil. cbn. (split; [exact I | split; [lia | auto]]).
  - destruct ob as [b|]; cbn [incl_effs];
      [|rewrite firstn_nil; cbn; (split; [exact I | split; [lia | auto]])].
    destruct (mget (hm s) (bh b)) as [hda|] eqn:Hh;
      [|rewrite firstn_nil; cbn; (split; [exact I | split; [lia | auto]])].
    destruct (if bempty b then Some hda else mget (dm s) (bd b)) as [dda|] eqn:Hd;
      [|rewrite firstn_nil; cbn; (split; [exact I | split; [lia | auto]])].
    set (e1 := EPut (KH (di s + 1)) hda). set (e2 := EPut (KT (di s + 1)) dda).
    set (e3 := EFin (di s + 1)). set (e4 := EPut KD (di s + 1)). set (e5 := EPub (di s + 1)).
    assert (I1 : Inv h (apply_eff s e1)) by (eapply eff_rhb; [exact I | left; reflexivity | lia]).
    assert (K1 : K (apply_eff s e1) = K s) by reflexivity.
    assert (I2 : Inv h (apply_eff (apply_eff s e1) e2)) by (eapply eff_rhb; [exact I1 | right; reflexivity | lia]).
    assert (K2 : K (apply_eff (apply_eff s e1) e2) = K s) by reflexivity.
    assert (I3 : Inv h (apply_eff (apply_eff (apply_eff s e1) e2) e3)) by (apply (eff_fin h _ _ I2); lia).
    assert (K3 : K (apply_eff (apply_eff (apply_eff s e1) e2) e3) = K s) by reflexivity.
    assert (Hlen : di s + 1 <= sheight s).
    { unfold sheight. rewrite Hc, app_length. cbn [length]. lia. }
    destruct (eff_kd h (apply_eff (apply_eff (apply_eff s e1) e2) e3) (di s + 1) I3) as (I4 & K4).
    { rewrite K3. exact HK. }
    { lia. }
    { left; reflexivity. }
    { exists b, hda, dda. cbn [apply_eff chain meta meta_get mkey_eqb di e1 e2 e3].
      rewrite N.eqb_refl. split; [|split; [reflexivity|split; [reflexivity|]]].
      + unfold block_at. replace (di s + 1 =? 0) with false by (symmetry; apply N.eqb_neq; lia).
        replace (N.to_nat (di s + 1 - 1)) with (length pre) by lia. rewrite Hc, nth_error_mid. reflexivity.
      + destruct (i_prov _ _ I) as (A & _ & C & _). split; [apply A, Hh|].
        destruct (bempty b); [congruence | apply C, Hd]. }
    { exact Hlen. }
    fold e4 in I4, K4.
    destruct (eff_pub h (apply_eff (apply_eff (apply_eff (apply_eff s e1) e2) e3) e4) (di s + 1) I4) as (I5 & K5).
    { rewrite K4; reflexivity. }
    { rewrite K4. reflexivity. }
    { left; reflexivity. }
    fold e5 in I5, K5.
    destruct k as [|[|[|[|[|k]]]]]; cbn [firstn apply_effs fold_left length].
    + (split; [exact I | split; [lia | lia]]).
    + (split; [exact I1 | split; [cbn; lia | lia]]).
    + (split; [exact I2 | split; [cbn; lia | lia]]).
    + (split; [exact I3 | split; [cbn; lia | lia]]).
    + (split; [exact I4 | split; [cbn; lia | lia]]).
    + set (s5 := apply_eff (apply_eff (apply_eff (apply_eff (apply_eff s e1) e2) e3) e4) e5) in *.
      assert (Hd5 : di s5 = di s + 1) by reflexivity.
      specialize (IH s5 k (pre ++ [Some b]) I5 K5).
      replace (hm s) with (hm s5) by reflexivity. replace (dm s) with (dm s5) by reflexivity.
      rewrite <- Hd5.
      destruct IH as (IA & IB & IC).
      * change (chain s5) with (chain s). rewrite Hc, <- app_assoc. reflexivity.
      * rewrite app_length, Hd5. cbn [length]. lia.
      * unfold apply_effs in *. (split; [exact IA | split; [lia | intros Hk; apply IC; lia]]).
Qed.

Lemma dying_inv h s k :
  Inv h s -> K s = di s ->
  Inv h (dying s k) /\ di s <= di (dying s k) /\ ((length (include_effs s) <= k)%nat -> K (dying s k) = di (dying s k)).
Proof.
  intros I HK. unfold dying, include_effs.
  apply (incl_inv h _ s k (firstn (N.to_nat (di s)) (chain s)) I HK).
  - symmetry; apply firstn_skipn.
  - rewrite firstn_length. pose proof (i_le _ _ I) as Hle. unfold sheight in Hle. lia.
Qed.

Lemma inv_weaken h h' s : (forall x, In x h -> In x h') -> Inv h s -> Inv h' s.
Proof.
  intros Hsub I. constructor; try apply I.
  - intros n Hn. destruct (i_sound _ _ I n Hn) as (b & hda & dda & Hb & Hh & Hd & Hi & Hr).
    exists b, hda, dda. repeat split; try assumption; [apply Hsub, Hi|].
    destruct (bempty b); [exact Hr | apply Hsub, Hr].
  - destruct (i_prov _ _ I) as (A & B & C & D). repeat split; intros id da H; apply Hsub; auto.
Qed.

Lemma boot_inv h s : Inv h s -> Inv h (boot s) /\ K (boot s) = di (boot s) /\ di s <= di (boot s).
Proof.
  intros I. split; [|split; [reflexivity | cbn; destruct (i_kd _ _ I); lia]].
  constructor; cbn [boot chain meta sv_h sv_d di hm dm tr]; try apply I.
  - left; reflexivity.
  - destruct (i_prov _ _ I) as (A & B & C & D). repeat split; assumption.
Qed.

Lemma save_inv h s : Inv h s -> Inv h (save s).
Proof.
  intros I. constructor; cbn [save chain meta sv_h sv_d di hm dm tr]; try apply I.
  destruct (i_prov _ _ I) as (A & B & C & D). repeat split; assumption.
Qed.

Lemma block_at_app c x n b : block_at c n = Some b -> block_at (c ++ [x]) n = Some b.
Proof.
  unfold block_at. destruct (n =? 0); [discriminate|].
  destruct (nth_error c (N.to_nat (n - 1))) as [ob|] eqn:E; [|discriminate].
  rewrite nth_error_app1; [rewrite E; auto|]. apply nth_error_Some. congruence.
Qed.

Definition QInv (h : list item) (s : node) : Prop := Inv h s /\ K s = di s.

Lemma step_inv h s i : QInv h s -> QInv (h ++ [i]) (step s i) /\ di s <= di (step s i).
Proof.
  intros (I0 & HK).
  assert (I : Inv (h ++ [i]) s) by (eapply inv_weaken; [|exact I0]; intros x Hx; apply in_or_app; left; exact Hx).
  assert (Hlast : In i (h ++ [i])) by (apply in_or_app; right; left; reflexivity).
  assert (Happ : forall x, Inv (h ++ [i])
            {| chain := chain s ++ [x]; meta := meta s; sv_h := sv_h s; sv_d := sv_d s;
               di := di s; hm := hm s; dm := dm s; tr := tr s |}).
  { intros x. constructor; cbn [chain meta sv_h sv_d di hm dm tr]; try apply I.
    - pose proof (i_le _ _ I) as Hle. unfold sheight in *. cbn [chain]. rewrite app_length. cbn [length]. lia.
    - intros n Hn. destruct (i_sound _ _ I n Hn) as (y & hda & dda & Hb & Hrest).
      exists y, hda, dda. split; [apply block_at_app, Hb | exact Hrest]. }
  destruct i as [|b|id da|id da| |k|k|]; cbn [step].
  - split; [split; [apply Happ | exact HK] | cbn; lia].
  - split; [split; [apply Happ | exact HK] | cbn; lia].
  - split; [split; [|exact HK]|cbn; lia]. constructor; cbn [chain meta sv_h sv_d di hm dm tr]; try apply I.
    destruct (i_prov _ _ I) as (A & B & C & D). repeat split; try assumption.
    cbn [hm mget]. intros id' da'. destruct (id' =? id) eqn:E; [|apply A].
    intros H; inversion H; subst. apply N.eqb_eq in E; subst. exact Hlast.
  - split; [split; [|exact HK]|cbn; lia]. constructor; cbn [chain meta sv_h sv_d di hm dm tr]; try apply I.
    destruct (i_prov _ _ I) as (A & B & C & D). repeat split; try assumption.
    cbn [dm mget]. intros id' da'. destruct (id' =? id) eqn:E; [|apply C].
    intros H; inversion H; subst. apply N.eqb_eq in E; subst. exact Hlast.
  - destruct (dying_inv _ s (length (include_effs s)) I HK) as (IA & IB & IC).
    unfold dying in *. rewrite firstn_all in *. split; [split; [exact IA | apply IC; lia] | exact IB].
  - destruct (dying_inv _ s k I HK) as (IA & IB & _).
    destruct (boot_inv _ _ IA) as (IC & ID & IE). split; [split; assumption | lia].
  - destruct (dying_inv _ s k I HK) as (IA & IB & _).
    destruct (boot_inv _ _ (save_inv _ _ IA)) as (IC & ID & IE). split; [split; assumption | cbn in *; lia].
  - destruct (boot_inv _ _ (save_inv _ _ I)) as (IC & ID & IE). split; [split; assumption | cbn in *; lia].
Qed.

Lemma init_inv : QInv [] init.
Proof.
  split; [|reflexivity]. constructor.
  - left; reflexivity.
  - cbn; lia.
  - reflexivity.
  - exists 0. split; [left|]; reflexivity.
  - exact I.
  - exact I.
  - cbn; intros n Hn; lia.
  - repeat split; intros id da H; discriminate H.
Qed.

Lemma run_snoc h i : run (h ++ [i]) = step (run h) i.
Proof. unfold run, run_from. rewrite fold_left_app. reflexivity. Qed.

Lemma run_app h h' : run (h ++ h') = run_from (run h) h'.
Proof. unfold run, run_from. apply fold_left_app. Qed.

Theorem run_inv : forall h, QInv h (run h).
Proof.
  induction h as [|i h IH] using rev_ind; [exact init_inv|].
  rewrite run_snoc. apply step_inv, IH.
Qed.

(* ---- C07 safety ---------------------------------------------------------------------------------- *)
Lemma monotone_run : forall h h', rep (run h) <= rep (run (h ++ h')).
Proof.
  intros h h'. induction h' as [|i h' IH] using rev_ind.
  - rewrite app_nil_r. lia.
  - rewrite app_assoc, run_snoc.
    destruct (step_inv _ _ i (run_inv (h ++ h'))) as (_ & Hm). unfold rep in *. lia.
Qed.

(* every instant: after a history, or k effects into an includer run at which the process dies / a write fails *)
Theorem monotone : forall (h h' : list item) (k : nat),
  rep (run h) <= rep (run (h ++ h')) /\
  rep (run h) <= seen_at_death h k /\
  seen_at_death h k <= rep (run (h ++ ICrash k :: h')) /\
  seen_at_death h k <= rep (run (h ++ IFault k :: h')).
Proof.
  intros h h' k. destruct (run_inv h) as (I & HK).
  destruct (dying_inv _ _ k I HK) as (IA & IB & _).
  split; [apply monotone_run|]. split; [exact IB|].
  unfold seen_at_death, rep.
  split.
  - pose proof (monotone_run (h ++ [ICrash k]) h') as M. rewrite <- app_assoc in M. cbn [app] in M.
    rewrite run_snoc in M. cbn [step] in M. unfold rep in M.
    destruct (boot_inv _ _ IA) as (_ & _ & IE). lia.
  - pose proof (monotone_run (h ++ [IFault k]) h') as M. rewrite <- app_assoc in M. cbn [app] in M.
    rewrite run_snoc in M. cbn [step] in M. unfold rep in M.
    destruct (boot_inv _ _ (save_inv _ _ IA)) as (_ & _ & IE).
    change (di (save (dying (run h) k))) with (di (dying (run h) k)) in IE. lia.
Qed.

Theorem durable : forall h k,
  rep (run (h ++ [IRestart])) = rep (run h) /\
  rep (run (h ++ [ICrash 0])) = rep (run h) /\
  seen_at_death h k <= rep (run (h ++ [ICrash k])) <= seen_at_death h k + 1 /\
  seen_at_death h k <= rep (run (h ++ [IFault k])) <= seen_at_death h k + 1.
Proof.
  intros h k. destruct (run_inv h) as (I & HK). rewrite !run_snoc. unfold rep, seen_at_death; cbn [step].
  destruct (dying_inv _ _ k I HK) as (IA & IB & _).
  split; [|split; [|split]].
  - cbn. exact HK.
  - unfold dying. cbn [firstn apply_effs fold_left]. cbn. exact HK.
  - cbn [boot di]. destruct (i_kd _ _ IA); lia.
  - cbn [boot save di meta]. destruct (i_kd _ _ IA); lia.
Qed.

Theorem safety : forall h, let s := run h in
  rep s <= sheight s /\
  desc (dputs (tr s)) (rep s) /\
  (exists m, (m = rep s \/ m = rep s + 1) /\ finsok (fins (tr s)) m) /\
  asked_before (tr s) /\ persisted_before (tr s) /\
  kd (meta s) = rep s.
Proof.
  intros h s. destruct (run_inv h) as (I & HK). fold s in I, HK. unfold rep. rewrite <- HK.
  repeat split; try apply I.
Qed.

(* the same at the instant of death / of a failing effect: the reported height is the persisted one or one less *)
Theorem safety_at_death : forall h k, let s := dying (run h) k in
  (kd (meta s) = di s \/ kd (meta s) = di s + 1) /\
  kd (meta s) <= sheight s /\
  desc (dputs (tr s)) (kd (meta s)) /\
  (exists m, (m = kd (meta s) \/ m = kd (meta s) + 1) /\ finsok (fins (tr s)) m) /\
  asked_before (tr s) /\ persisted_before (tr s).
Proof.
  intros h k s. destruct (run_inv h) as (I & HK). destruct (dying_inv _ _ k I HK) as (IA & _).
  fold s in IA. repeat split; try apply IA.
Qed.

Theorem sound : forall h n, let s := run h in
  1 <= n <= rep s ->
  exists b hda dda,
    block_at (chain s) n = Some b /\
    meta_get (meta s) (KH n) = Some hda /\ meta_get (meta s) (KT n) = Some dda /\
    In (IMarkH (bh b) hda) h /\
    (if bempty b then dda = hda else In (IMarkD (bd b) dda) h).
Proof.
  intros h n s Hn. subst s. destruct (run_inv h) as (I & HK). apply (i_sound _ _ I). unfold rep in Hn. lia.
Qed.

(* also for every height visible at the instant of death *)
Theorem sound_at_death : forall h k n, let s := dying (run h) k in
  1 <= n <= di s ->
  exists b hda dda,
    block_at (chain s) n = Some b /\
    meta_get (meta s) (KH n) = Some hda /\ meta_get (meta s) (KT n) = Some dda /\
    In (IMarkH (bh b) hda) h /\
    (if bempty b then dda = hda else In (IMarkD (bd b) dda) h).
Proof.
  intros h k n s Hn. subst s. destruct (run_inv h) as (I & HK). destruct (dying_inv _ _ k I HK) as (IA & _).
  apply (i_sound _ _ IA). destruct (i_kd _ _ IA); lia.
Qed.

(* ---- C07 liveness ----------------------------------------------------------------------------- *)
(* IsDAIncluded for a stored block *)
Definition inclb (hmk dmk : marks) (ob : option blk) : bool :=
  match ob with
  | None => false
  | Some b =>
      match mget hmk (bh b) with
      | None => false
      | Some _ => bempty b || match mget dmk (bd b) with Some _ => true | None => false end
      end
  end.
(* number of leading blocks that are included *)
Fixpoint lead (hmk dmk : marks) (bs : list (option blk)) : nat :=
  match bs with
  | [] => 0%nat
  | b :: r => if inclb hmk dmk b then S (lead hmk dmk r) else 0%nat
  end.

Lemma di_incl hmk dmk : forall bs s,
  di (apply_effs s (incl_effs hmk dmk bs (di s))) = di s + N.of_nat (lead hmk dmk bs).
Proof.
  induction bs as [|ob r IH]; intros s; cbn [incl_effs lead]; [cbn; lia|].
  destruct ob as [b|]; [|cbn; lia].
  unfold inclb. destruct (mget hmk (bh b)) as [hda|]; [|cbn; lia].
  destruct (bempty b); cbn [orb].
  - cbn [apply_effs fold_left].
    set (s5 := apply_eff _ (EPub (di s + 1))).
    change (di s + 1) with (di s5) at 1. unfold apply_effs in IH. rewrite IH. cbn. lia.
  - destruct (mget dmk (bd b)) as [dda|]; [|cbn; lia].
    cbn [apply_effs fold_left].
    set (s5 := apply_eff _ (EPub (di s + 1))).
    change (di s + 1) with (di s5) at 1. unfold apply_effs in IH. rewrite IH. cbn. lia.
Qed.

Lemma lead_ge hmk dmk : forall bs cnt,
  (cnt <= length bs)%nat ->
  (forall j b, (j < cnt)%nat -> nth_error bs j = Some b -> inclb hmk dmk b = true) ->
  (cnt <= lead hmk dmk bs)%nat.
Proof.
  induction bs as [|b r IH]; intros cnt Hl H; cbn [lead]; [cbn in Hl; lia|].
  destruct cnt as [|cnt]; [lia|].
  rewrite (H 0%nat b) by (cbn; (lia || reflexivity)).
  apply le_n_S, IH; [cbn in Hl; lia|].
  intros j x Hj Hx. apply (H (S j) x); [lia | exact Hx].
Qed.

Lemma nth_error_skipn' {A} (l : list A) : forall d j, nth_error (skipn d l) j = nth_error l (d + j).
Proof.
  induction l as [|a l IH]; intros d j.
  - rewrite skipn_nil. destruct j, d; reflexivity.
  - destruct d; [reflexivity|]. cbn [skipn Nat.add nth_error]. apply IH.
Qed.

Lemma nth_error_in_firstn {A} (l : list A) : forall i k x, nth_error l i = Some x -> (i < k)%nat -> In x (firstn k l).
Proof.
  induction l as [|a l IH]; intros i k x H Hk; [destruct i; discriminate|].
  destruct k; [lia|]. destruct i; cbn in *.
  - left; congruence.
  - right. eapply IH; [exact H | lia].
Qed.

Lemma dying_fields s k :
  chain (dying s k) = chain s /\ hm (dying s k) = hm s /\ dm (dying s k) = dm s /\
  sv_h (dying s k) = sv_h s /\ sv_d (dying s k) = sv_d s.
Proof. unfold dying. apply apply_effs_fields. Qed.

(* marks produced after the last crash are in the cache *)
Lemma live_h : forall h id, marked_h_since_crash (rev h) id = true -> mget (hm (run h)) id <> None.
Proof.
  induction h as [|i h IH] using rev_ind; intros id; [cbn; discriminate|].
  rewrite rev_app_distr, run_snoc. cbn [rev app marked_h_since_crash].
  destruct i as [|b|i' da|i' da| |k|k|]; cbn [step hm]; intros H.
  - apply IH, H.
  - apply IH, H.
  - cbn [mget]. rewrite N.eqb_sym. destruct (i' =? id); [discriminate|]. apply IH, H.
  - apply IH, H.
  - destruct (apply_effs_fields (include_effs (run h)) (run h)) as (_ & E & _). rewrite E. apply IH, H.
  - discriminate H.
  - cbn. destruct (dying_fields (run h) k) as (_ & E & _). rewrite E. apply IH, H.
  - cbn. apply IH, H.
Qed.

Lemma live_d : forall h id, marked_d_since_crash (rev h) id = true -> mget (dm (run h)) id <> None.
Proof.
  induction h as [|i h IH] using rev_ind; intros id; [cbn; discriminate|].
  rewrite rev_app_distr, run_snoc. cbn [rev app marked_d_since_crash].
  destruct i as [|b|i' da|i' da| |k|k|]; cbn [step dm]; intros H.
  - apply IH, H.
  - apply IH, H.
  - apply IH, H.
  - cbn [mget]. rewrite N.eqb_sym. destruct (i' =? id); [discriminate|]. apply IH, H.
  - destruct (apply_effs_fields (include_effs (run h)) (run h)) as (_ & _ & E & _). rewrite E. apply IH, H.
  - discriminate H.
  - cbn. destruct (dying_fields (run h) k) as (_ & _ & E & _). rewrite E. apply IH, H.
  - cbn. apply IH, H.
Qed.

Theorem eventually_guarded : forall h n,
  n <= sheight (run h) ->
  blocks_marked_since_crash h n = true ->
  n <= rep (run (h ++ [IInclude])).
Proof.
  intros h n Hn Hg. rewrite run_snoc. cbn [step]. unfold rep, include_effs.
  set (s := run h) in *. rewrite di_incl.
  destruct (N.le_gt_cases n (di s)) as [Hle|Hgt]; [lia|].
  destruct (run_inv h) as (I & HK). fold s in I, HK.
  pose proof (i_le _ _ I) as Hdi. unfold sheight in *.
  assert (Hlead : (N.to_nat (n - di s) <= lead (hm s) (dm s) (skipn (N.to_nat (di s)) (chain s)))%nat).
  { apply lead_ge; [rewrite skipn_length; lia|].
    intros j ob Hj Hb. rewrite nth_error_skipn' in Hb.
    unfold blocks_marked_since_crash in Hg. rewrite forallb_forall in Hg.
    assert (Hin : In ob (firstn (N.to_nat n) (chain s))) by (eapply nth_error_in_firstn; [exact Hb | lia]).
    specialize (Hg ob Hin). destruct ob as [b|]; [|discriminate]. apply andb_true_iff in Hg as (Hh & Hd).
    pose proof (live_h h _ Hh) as Lh. fold s in Lh.
    unfold inclb. destruct (mget (hm s) (bh b)); [|congruence].
    destruct (bempty b); [reflexivity|]. cbn [orb] in *.
    pose proof (live_d h _ Hd) as Ld. fold s in Ld.
    destruct (mget (dm s) (bd b)); [reflexivity | congruence]. }
  lia.
Qed.

(* F9: the marks of an aggregator live only in memory.  After a crash nothing in the node re-creates them
   (the submitter's watermark is persisted, so the blobs are never submitted again): the height is stuck. *)
Definition stuck (s : node) : Prop :=
  di s = 0 /\ K s = 0 /\ (exists b r, chain s = Some b :: r /\ bh b = 1) /\
  mget (hm s) 1 = None /\ mget (sv_h s) 1 = None.

Lemma stuck_effs s : stuck s -> include_effs s = [].
Proof.
  intros (Hd & _ & (b & r & Hc & Hb) & Hm & _). unfold include_effs.
  rewrite Hd, Hc. cbn [N.to_nat skipn incl_effs]. rewrite Hb, Hm. reflexivity.
Qed.

Lemma stuck_step s i : stuck s -> is_markh i = false -> stuck (step s i).
Proof.
  intros S Hi. pose proof (stuck_effs s S) as He.
  destruct S as (Hd & Hk & (b & r & Hc & Hb) & Hm & Hs).
  destruct i as [|x|id da|id da| |k|k|]; cbn [step]; try discriminate Hi; unfold dying; rewrite ?He, ?firstn_nil;
    cbn [apply_effs fold_left].
  - repeat split; cbn; try assumption. exists b, (r ++ [None]). rewrite Hc. split; [reflexivity | exact Hb].
  - repeat split; cbn; try assumption. exists b, (r ++ [Some x]). rewrite Hc. split; [reflexivity | exact Hb].
  - repeat split; cbn; try assumption. exists b, r. split; assumption.
  - repeat split; try assumption. exists b, r. split; assumption.
  - repeat split; cbn; try assumption. exists b, r. split; assumption.
  - repeat split; cbn; try assumption. exists b, r. split; assumption.
  - repeat split; cbn; try assumption. exists b, r. split; assumption.
Qed.

Lemma stuck_run : forall ext s, stuck s -> forallb (fun i => negb (is_markh i)) ext = true -> stuck (run_from s ext).
Proof.
  induction ext as [|i ext IH]; intros s S H; [exact S|].
  cbn in H. apply andb_true_iff in H as (Hi & H). unfold run_from; cbn [fold_left].
  apply IH; [|exact H]. apply stuck_step; [exact S|]. destruct (is_markh i); [discriminate | reflexivity].
Qed.

Definition f9_history : list item := [IAppend {| bh := 1; bd := 0 |}; IMarkH 1 10; ICrash 0].

Theorem eventually_refuted :
  exists h n,
    n <= sheight (run h) /\ blocks_marked_ever h n = true /\
    forall ext, forallb (fun i => negb (is_markh i)) ext = true -> rep (run (h ++ ext)) < n.
Proof.
  exists f9_history, 1. split; [vm_compute; discriminate|]. split; [vm_compute; reflexivity|].
  intros ext H. rewrite run_app.
  assert (S : stuck (run f9_history)).
  { unfold stuck. vm_compute. repeat split. eexists; eexists; split; reflexivity. }
  destruct (stuck_run ext _ S H) as (Hd & _). unfold rep. rewrite Hd. lia.
Qed.

(* so the unguarded liveness statement is false of the model *)
Theorem eventually_full_is_false :
  ~ (forall h n, n <= sheight (run h) -> blocks_marked_ever h n = true ->
       exists k, n <= rep (run (h ++ repeat IInclude k))).
Proof.
  intros F. destruct eventually_refuted as (h & n & Hn & Hm & Hstuck).
  destruct (F h n Hn Hm) as (k & Hk).
  assert (Hno : forallb (fun i => negb (is_markh i)) (repeat IInclude k) = true).
  { clear. induction k; [reflexivity | cbn; assumption]. }
  specialize (Hstuck _ Hno). lia.
Qed.

(* initial height above 1: the includer starts at height 1, which is a hole; nothing at all moves it *)
Definition holed (s : node) : Prop := di s = 0 /\ K s = 0 /\ exists r, chain s = None :: r.

Lemma holed_effs s : holed s -> include_effs s = [].
Proof. intros (Hd & _ & (r & Hc)). unfold include_effs. rewrite Hd, Hc. reflexivity. Qed.

Lemma holed_step s i : holed s -> holed (step s i).
Proof.
  intros S. pose proof (holed_effs s S) as He. destruct S as (Hd & Hk & (r & Hc)).
  destruct i as [|x|id da|id da| |k|k|]; cbn [step]; unfold dying; rewrite ?He, ?firstn_nil;
    cbn [apply_effs fold_left]; repeat split; cbn; try assumption;
    first [exists r; exact Hc | eexists; rewrite Hc; reflexivity].
Qed.

Lemma holed_run : forall ext s, holed s -> holed (run_from s ext).
Proof.
  induction ext as [|i ext IH]; intros s S; [exact S|].
  unfold run_from; cbn [fold_left]. apply IH, holed_step, S.
Qed.

Definition ih_history : list item := [IHole; IAppend {| bh := 1; bd := 0 |}; IMarkH 1 10].

Theorem initial_height_refuted :
  exists h n,
    n <= sheight (run h) /\ blocks_marked_ever h n = true /\
    forall ext, rep (run (h ++ ext)) = 0 /\ rep (run (h ++ ext)) < n.
Proof.
  exists ih_history, 2. split; [vm_compute; discriminate|]. split; [vm_compute; reflexivity|].
  intros ext. rewrite run_app.
  assert (S : holed (run ih_history)).
  { unfold holed. vm_compute. repeat split. eexists; reflexivity. }
  destruct (holed_run ext _ S) as (Hd & _). unfold rep. rewrite Hd. lia.
Qed.
