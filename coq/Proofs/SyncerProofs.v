(* Proofs/SyncerProofs.v — lemmas about Model/Syncer.v (C02, C05). *)
From Coq Require Import String Ascii NArith ZArith List Bool Lia ZifyBool ZifyN ZifyNat.
From Verif Require Import Base.KV Base.Keys Model.Types Model.Syncer.
Import ListNotations.
Open Scope list_scope.
Open Scope N_scope.

(* ---- keys ------------------------------------------------------------------------------------- *)
Lemma block_key_state n : String.eqb (block_key n) state_key = false.
Proof. reflexivity. Qed.
Lemma block_key_height n : String.eqb (block_key n) height_key = false.
Proof. reflexivity. Qed.
Lemma state_key_block n : String.eqb state_key (block_key n) = false.
Proof. reflexivity. Qed.
Lemma height_key_block n : String.eqb height_key (block_key n) = false.
Proof. reflexivity. Qed.
Lemma block_key_eqb a b : String.eqb (block_key a) (block_key b) = (a =? b).
Proof.
  destruct (N.eqb_spec a b) as [->|Hne].
  - apply String.eqb_refl.
  - apply String.eqb_neq. intros H. apply Hne. unfold block_key in H.
    apply append_inj_r in H. apply dec_inj in H. exact H.
Qed.

(* ---- reads after the writes of one application ----------------------------------------------- *)
Lemma height_after_block m new sh d :
  d_height (apply_writes m (block_writes m new sh d)) =
  if h_height (sh_hdr sh) <=? d_height m then d_height m else h_height (sh_hdr sh).
Proof.
  unfold block_writes. destruct (h_height (sh_hdr sh) <=? d_height m); reflexivity.
Qed.

Lemma state_after_block m new sh d :
  d_state (apply_writes m (block_writes m new sh d)) = Some new.
Proof.
  unfold block_writes. destruct (h_height (sh_hdr sh) <=? d_height m); reflexivity.
Qed.

Lemma block_after_block m new sh d k :
  d_block (apply_writes m (block_writes m new sh d)) k =
  if k =? h_height (sh_hdr sh) then Some (sh, d) else d_block m k.
Proof.
  unfold block_writes, d_block.
  destruct (h_height (sh_hdr sh) <=? d_height m);
    cbn [apply_writes fold_left apply_write apply_prim app kv_put kv_get];
    rewrite ?block_key_height, ?block_key_eqb;
    destruct (k =? h_height (sh_hdr sh)); try reflexivity;
    rewrite ?block_key_state; reflexivity.
Qed.

(* ---- lists ------------------------------------------------------------------------------------- *)
Lemma lookup_in {A} (l : list (N * A)) n v : lookup l n = Some v -> In (n, v) l.
Proof.
  induction l as [|[k x] r IH]; cbn; [discriminate|].
  destruct (N.eqb_spec k n) as [->|]; intros H.
  - inversion H; subst; left; reflexivity.
  - right; auto.
Qed.

Lemma remove_in {A} (l : list (N * A)) n e : In e (remove l n) -> In e l.
Proof. unfold remove; intros H; apply filter_In in H; tauto. Qed.

Lemma remove_length {A} (l : list (N * A)) n : (length (remove l n) <= length l)%nat.
Proof. unfold remove. induction l as [|e r IH]; cbn; [lia|]. destruct (negb (fst e =? n)); cbn; lia. Qed.

Lemma remove_shrinks {A} (l : list (N * A)) n v : lookup l n = Some v -> (length (remove l n) < length l)%nat.
Proof.
  induction l as [|[k x] r IH]; cbn; [discriminate|].
  destruct (N.eqb_spec k n) as [->|Hne]; intros H; cbn.
  - pose proof (remove_length r n). unfold remove in *. lia.
  - apply IH in H. unfold remove in *. cbn. lia.
Qed.

Lemma commitment_eqb_eq a b : commitment_eqb a b = true -> a = b.
Proof.
  revert b; induction a as [|x a IH]; intros [|y b]; cbn; intros H; try reflexivity; try discriminate.
  apply andb_true_iff in H as [H1 H2]. apply N.eqb_eq in H1. subst. f_equal. apply IH. exact H2.
Qed.
Lemma commitment_eqb_refl a : commitment_eqb a a = true.
Proof. induction a as [|x a IH]; cbn; [reflexivity|]. rewrite N.eqb_refl. exact IH. Qed.

Lemma addr_eqb_Addr a k : addr_eqb a (Addr k) = true -> a = Addr k.
Proof. destruct a; cbn; intros H; try discriminate. apply N.eqb_eq in H; subst; reflexivity. Qed.

Section P.
  Variable exec : root -> N -> Z -> list tx -> root.
  Variable g : config.
  Variable k : key.

  (* a state that stands just below height n with last time t and root r *)
  Definition st_ok (s : cstate) (n : N) (t : Z) (r : root) : Prop :=
    s_chain s = g_chain g /\ s_height s + 1 = n /\ s_time s = t /\ s_app s = r.

  Lemma block_ok_validate prev n t r s sh d :
    block_okb g k prev n t r (sh, d) = true -> st_ok s n t r ->
    validate s sh d = true /\ h_height (sh_hdr sh) = n /\
    d_txs d = h_data (sh_hdr sh) /\
    d_meta d = Some {| m_chain := h_chain (sh_hdr sh); m_height := h_height (sh_hdr sh); m_time := h_time (sh_hdr sh) |}.
  Proof.
    unfold block_okb, st_ok. intros H (Hc & Hh & Ht & Ha).
    repeat (apply andb_true_iff in H as [H ?]).
    destruct (d_meta d) as [m|] eqn:Hm; [|discriminate].
    destruct (sg_pub (sh_signer sh)) as [[k']|] eqn:Hp; [|discriminate].
    match goal with X : addr_eqb (h_proposer _) _ = true |- _ => apply addr_eqb_Addr in X; rename X into Hprop end.
    match goal with X : addr_eqb (sg_addr _) _ = true |- _ => apply addr_eqb_Addr in X; rename X into Hsa end.
    match goal with X : commitment_eqb _ _ = true |- _ => pose proof (commitment_eqb_eq _ _ X) as Hcm end.
    match goal with X : verify_header _ _ _ = true |- _ => rename X into Hv end.
    repeat match goal with X : (_ && _) = true |- _ => apply andb_true_iff in X as [X ?] end.
    repeat match goal with X : (_ =? _) = true |- _ => apply N.eqb_eq in X end.
    repeat match goal with X : (_ =? _)%Z = true |- _ => apply Z.eqb_eq in X end.
    match goal with X : (t <=? _)%Z = true |- _ => apply Z.leb_le in X; rename X into Htime end.
    subst k'.
    split; [|split; [assumption|split; [assumption|]]].
    - unfold validate, validate_basic, validate_pair.
      rewrite Hprop, Hsa, Hp, Hm, Hv. cbn [addr_eqb negb].
      rewrite N.eqb_refl.
      destruct (sh_sig sh); try discriminate Hv.
      rewrite Hcm, commitment_eqb_refl.
      replace (h_chain (sh_hdr sh) =? m_chain m) with true by (symmetry; apply N.eqb_eq; congruence).
      replace (h_height (sh_hdr sh) =? m_height m) with true by (symmetry; apply N.eqb_eq; congruence).
      replace (h_time (sh_hdr sh) =? m_time m)%Z with true by (symmetry; apply Z.eqb_eq; congruence).
      replace (h_chain (sh_hdr sh) =? s_chain s) with true by (symmetry; apply N.eqb_eq; congruence).
      replace (h_height (sh_hdr sh) =? s_height s + 1) with true by (symmetry; apply N.eqb_eq; congruence).
      replace (h_app (sh_hdr sh) =? s_app s) with true by (symmetry; apply N.eqb_eq; congruence).
      replace (h_time (sh_hdr sh) <? s_time s)%Z with false by (symmetry; apply Z.ltb_ge; lia).
      rewrite andb_false_r. reflexivity.
    - destruct m as [mc mh mt]; cbn in *. f_equal. f_equal; congruence.
  Qed.

  Definition next_of (s : cstate) (b : block) : cstate :=
    next_state s (sh_hdr (fst b)) (exec (s_app s) (h_height (sh_hdr (fst b))) (h_time (sh_hdr (fst b))) (d_txs (snd b))).

  Lemma state_after_S s C j b :
    nth_error C j = Some b -> state_after exec s C (S j) = next_of (state_after exec s C j) b.
  Proof.
    revert s j; induction C as [|[sh d] C IH]; intros s [|j] H; cbn in H; try discriminate.
    - inversion H; subst. cbn. destruct C; reflexivity.
    - cbn [state_after]. rewrite <- IH by exact H. reflexivity.
  Qed.

  Lemma calls_after_S s C j b :
    nth_error C j = Some b ->
    calls_after exec s C (S j) =
    calls_after exec s C j ++
      [{| x_height := h_height (sh_hdr (fst b)); x_time := h_time (sh_hdr (fst b));
          x_prev := s_app (state_after exec s C j); x_txs := d_txs (snd b) |}].
  Proof.
    revert s j; induction C as [|[sh d] C IH]; intros s [|j] H; cbn in H; try discriminate.
    - inversion H; subst. cbn. destruct C; reflexivity.
    - cbn [calls_after state_after]. rewrite (IH _ _ H). reflexivity.
  Qed.

  (* the j-th block of a valid chain validates against the state after the first j blocks *)
  Lemma chain_nth prev n t r s C j b :
    chain_fromb exec g k prev n t r C = true -> st_ok s n t r -> nth_error C j = Some b ->
    exists prev' t' r',
      block_okb g k prev' (n + N.of_nat j) t' r' b = true /\ st_ok (state_after exec s C j) (n + N.of_nat j) t' r'.
  Proof.
    revert prev n t r s j; induction C as [|[sh d] C IH]; intros prev n t r s [|j] Hc Hs Hn; cbn in Hn; try discriminate.
    - inversion Hn; subst. cbn [chain_fromb] in Hc. apply andb_true_iff in Hc as [Hb _].
      exists prev, t, r. replace (n + N.of_nat 0) with n by lia. split; [exact Hb|exact Hs].
    - cbn [chain_fromb] in Hc. apply andb_true_iff in Hc as [Hb Hc]. cbn [fst snd] in Hc.
      destruct (block_ok_validate _ _ _ _ _ _ _ Hb Hs) as (_ & Hh & _ & _).
      cbn [state_after].
      specialize (IH _ _ _ _ (next_state s (sh_hdr sh) (exec (s_app s) (h_height (sh_hdr sh)) (h_time (sh_hdr sh)) (d_txs d))) j Hc).
      destruct IH as (p' & t' & r' & Hb' & Hs').
      + destruct Hs as (Hc1 & Hh1 & Ht1 & Ha1). unfold st_ok, next_state; cbn.
        repeat split; try assumption; try lia. rewrite Ha1, Hh. reflexivity.
      + exact Hn.
      + exists p', t', r'. replace (n + N.of_nat (S j)) with (n + 1 + N.of_nat j) by lia. split; assumption.
  Qed.
End P.

Definition bad_crash_ws (ws : list wr) (q : nat) : bool :=
  Nat.ltb q (length ws) && Nat.eqb (Nat.modulo q 3) 1.

(* ---- the safety invariant ------------------------------------------------------------------------ *)
Section Safety.
  Variable exec : root -> N -> Z -> list tx -> root.
  Variable g : config.
  Variable k : key.
  Variable C : list block.
  Hypothesis HV : ChainValid exec g k C.

  Notation s0 := (genesis_state g).

  Lemma init_pos : 1 <= g_initial g.
  Proof. destruct HV as (H & _); exact H. Qed.

  Lemma s0_ok : st_ok g s0 (g_initial g) (g_time g) (g_initroot g).
  Proof. pose proof init_pos. unfold st_ok, genesis_state; cbn. repeat split; lia. Qed.

  Lemma chain_at j b :
    nth_error C j = Some b ->
    exists prev t r, block_okb g k prev (g_initial g + N.of_nat j) t r b = true /\
                     st_ok g (state_after exec s0 C j) (g_initial g + N.of_nat j) t r.
  Proof. destruct HV as (_ & _ & Hc). intros H. exact (chain_nth exec g k _ _ _ _ _ _ _ _ Hc s0_ok H). Qed.

  Definition core (m : img) (last : cstate) (j : nat) : Prop :=
    synced_to exec g C {| n_disk := m; n_last := last; n_cache := empty_cache; n_files := empty_cache;
                          n_status := Running; n_log := [] |} j.

  Lemma synced_core nd j : synced_to exec g C nd j <-> core (n_disk nd) (n_last nd) j.
  Proof. unfold core, synced_to; cbn. tauto. Qed.

  Definition cache_ok (c : cache) : Prop :=
    (forall n sh, In (n, sh) (c_hdrs c) -> exists i d, nth_error C i = Some (sh, d) /\ n = g_initial g + N.of_nat i) /\
    (forall n d, In (n, d) (c_data c) -> exists i sh, nth_error C i = Some (sh, d) /\ n = g_initial g + N.of_nat i).

  Lemma cache_ok_empty : cache_ok empty_cache.
  Proof. split; intros ? ? [].  Qed.

  (* what the cache holds at the next height is the next block of the chain *)
  Lemma next_block m last j c sh d :
    core m last j -> cache_ok c ->
    lookup (c_hdrs c) (d_height m + 1) = Some sh -> lookup (c_data c) (d_height m + 1) = Some d ->
    nth_error C j = Some (sh, d).
  Proof.
    intros (Hj & Hh & _) (Hc1 & Hc2) L1 L2. cbn in Hh. pose proof init_pos as Hi.
    apply lookup_in in L1. apply lookup_in in L2.
    destruct (Hc1 _ _ L1) as (i & d0 & N1 & E1). destruct (Hc2 _ _ L2) as (i' & sh' & N2 & E2).
    assert (i = j) by lia. assert (i' = j) by lia. subst i i'.
    rewrite N1 in N2. inversion N2; subst. exact N1.
  Qed.

  Lemma core_step m last j sh d :
    core m last j -> nth_error C j = Some (sh, d) ->
    validate last sh d = true /\
    core (apply_writes m (block_writes m (next_of exec last (sh, d)) sh d)) (next_of exec last (sh, d)) (S j).
  Proof.
    intros (Hj & Hh & Hb & Hl & Hs & Hs0) Hn. cbn [n_disk n_last] in *. pose proof init_pos as Hi.
    destruct (chain_at _ _ Hn) as (prev & t & r & Hok & Hst).
    rewrite <- Hl in Hst.
    destruct (block_ok_validate exec g k _ _ _ _ _ _ _ Hok Hst) as (Hval & Hhh & _ & _).
    split; [exact Hval|].
    assert (Hlt : (j < length C)%nat) by (apply nth_error_Some; congruence).
    unfold core, synced_to; cbn [n_disk n_last].
    repeat split.
    - lia.
    - rewrite height_after_block. rewrite Hhh, Hh.
      destruct (N.leb_spec (g_initial g + N.of_nat j) (g_initial g + N.of_nat j - 1)); lia.
    - intros i Hi'. rewrite block_after_block, Hhh.
      destruct (N.eqb_spec (g_initial g + N.of_nat i) (g_initial g + N.of_nat j)) as [E|E].
      + assert (i = j) by lia. subst. symmetry; exact Hn.
      + apply Hb. lia.
    - rewrite Hl. symmetry. apply (state_after_S exec). exact Hn.
    - intros _. apply state_after_block.
    - intros E; discriminate E.
  Qed.

  Lemma cache_ok_after c n sh : cache_ok c -> cache_ok (after_apply c n sh).
  Proof.
    intros (H1 & H2). split; cbn; intros ? ? Hin; apply remove_in in Hin; auto.
  Qed.

  (* trySyncNextBlock keeps the invariant, never fails on chain items, never runs out of fuel, and
     stops only when the header or the data of the next height is missing *)
  Lemma try_sync_inv fuel : forall st j,
    core (l_disk st) (l_last st) j -> cache_ok (l_cache st) ->
    l_status st = Running ->
    (length (c_hdrs (l_cache st)) < fuel)%nat ->
    exists j', (j <= j')%nat /\
      core (l_disk (try_sync exec fuel st)) (l_last (try_sync exec fuel st)) j' /\
      cache_ok (l_cache (try_sync exec fuel st)) /\
      (forall L, l_log st = L ++ calls_after exec s0 C j ->
                 l_log (try_sync exec fuel st) = L ++ calls_after exec s0 C j') /\
      l_status (try_sync exec fuel st) = Running /\
      (lookup (c_hdrs (l_cache (try_sync exec fuel st))) (d_height (l_disk (try_sync exec fuel st)) + 1) = None \/
       lookup (c_data (l_cache (try_sync exec fuel st))) (d_height (l_disk (try_sync exec fuel st)) + 1) = None).
  Proof.
    induction fuel as [|f IH]; intros st j Hcore Hc Hst Hfuel; [lia|].
    cbn [try_sync].
    destruct (lookup (c_hdrs (l_cache st)) (d_height (l_disk st) + 1)) as [sh|] eqn:L1;
      [|exists j; split; [lia|]; split; [exact Hcore|]; split; [exact Hc|]; split; [intros L HL; exact HL|];
        split; [exact Hst|left; exact L1]].
    destruct (lookup (c_data (l_cache st)) (d_height (l_disk st) + 1)) as [d|] eqn:L2;
      [|exists j; split; [lia|]; split; [exact Hcore|]; split; [exact Hc|]; split; [intros L HL; exact HL|];
        split; [exact Hst|right; exact L2]].
    pose proof (next_block _ _ _ _ _ _ Hcore Hc L1 L2) as Hn.
    destruct (core_step _ _ _ _ _ Hcore Hn) as (Hval & Hcore').
    rewrite Hval.
    unfold next_of in Hcore'; cbn [fst snd] in Hcore'.
    match goal with |- context [try_sync exec f ?st'] =>
      destruct (IH st' (S j)) as (j' & Hle & R1 & R2 & R3 & R4) end.
    - exact Hcore'.
    - cbn. apply cache_ok_after; exact Hc.
    - reflexivity.
    - cbn. pose proof (remove_shrinks _ _ _ L1). lia.
    - exists j'. split; [lia|]. split; [exact R1|]. split; [exact R2|]. split; [|exact R4].
      intros L Hlog. apply R3. cbn [l_log].
      rewrite Hlog, (calls_after_S exec _ _ _ _ Hn), app_assoc. cbn [fst snd].
      destruct Hcore as (_ & _ & _ & Hl & _). cbn in Hl. rewrite Hl. reflexivity.
  Qed.

  (* ---- node level ------------------------------------------------------------------------------ *)
  Definition Inv (nd : node) (j : nat) : Prop :=
    n_status nd = Running /\ core (n_disk nd) (n_last nd) j /\ cache_ok (n_cache nd) /\ cache_ok (n_files nd).

  Lemma chain_block i sh d :
    nth_error C i = Some (sh, d) ->
    h_height (sh_hdr sh) = g_initial g + N.of_nat i /\ d_txs d = h_data (sh_hdr sh) /\
    d_meta d = Some {| m_chain := h_chain (sh_hdr sh); m_height := h_height (sh_hdr sh); m_time := h_time (sh_hdr sh) |}.
  Proof.
    intros Hn. destruct (chain_at _ _ Hn) as (prev & t & r & Hok & Hst).
    destruct (block_ok_validate exec g k _ _ _ _ _ _ _ Hok Hst) as (_ & H1 & H2 & H3). auto.
  Qed.

  Lemma loop_inv nd j c mark :
    Inv nd j -> cache_ok c ->
    (forall c', c_hdrs (mark c') = c_hdrs c' /\ c_data (mark c') = c_data c') ->
    exists j', (j <= j')%nat /\ Inv (fst (finish nd (start_loop exec nd c) mark)) j' /\
               (forall L, n_log nd = L ++ calls_after exec s0 C j ->
                  n_log (fst (finish nd (start_loop exec nd c) mark)) = L ++ calls_after exec s0 C j').
  Proof.
    intros (Hst & Hcore & Hc & Hf) Hc' Hmark.
    unfold start_loop.
    match goal with |- context [try_sync exec ?f ?st] =>
      destruct (try_sync_inv f st j) as (j' & Hle & Hcore' & Hcc & Hlog' & Hst' & _); auto;
      set (R := try_sync exec f st) in * end.
    exists j'. split; [exact Hle|]. unfold finish; cbn [fst n_status n_disk n_last n_cache n_files n_log].
    rewrite Hst'. split; [|exact Hlog'].
    split; [reflexivity|]. split; [exact Hcore'|]. split; [|exact Hf].
    destruct Hcc as (H1 & H2). destruct (Hmark (l_cache R)) as (E1 & E2).
    unfold cache_ok; cbn [n_cache]. rewrite E1, E2. split; assumption.
  Qed.

  Lemma process_inv nd j e :
    Inv nd j -> ev_in C e ->
    exists j', (j <= j')%nat /\ Inv (fst (process exec nd e)) j' /\
               (forall L, n_log nd = L ++ calls_after exec s0 C j ->
                  n_log (fst (process exec nd e)) = L ++ calls_after exec s0 C j').
  Proof.
    intros HI Hev. pose proof HI as (Hst & Hcore & Hc & Hf).
    unfold process. rewrite Hst.
    destruct e as [sh da | d da].
    - destruct Hev as (d & Hin). apply In_nth_error in Hin as (i & Hn).
      destruct (chain_block _ _ _ Hn) as (Hh & Htx & Hm).
      unfold on_header.
      destruct ((h_height (sh_hdr sh) <=? d_height (n_disk nd)) || hseen (n_cache nd) (sh_hdr sh));
        [exists j; cbn [fst]; auto|].
      apply loop_inv; [exact HI| |intros c'; split; reflexivity].
      destruct Hc as (H1 & H2).
        assert (Hd : is_empty_commitment (h_data (sh_hdr sh)) = true -> empty_data (sh_hdr sh) = d).
        { intros He. destruct (h_data (sh_hdr sh)); [|discriminate He].
          destruct d as [dm dt]; cbn in *. subst. reflexivity. }
        destruct (is_empty_commitment (h_data (sh_hdr sh))) eqn:He; split; cbn; intros n x Hin'.
        * destruct Hin' as [E|Hin']; [inversion E; subst; eauto|eauto].
        * destruct Hin' as [E|Hin']; [|eauto]. inversion E; subst. exists i, sh. rewrite (Hd eq_refl). auto.
        * destruct Hin' as [E|Hin']; [inversion E; subst; eauto|eauto].
        * eauto.
    - destruct Hev as (sh & Hin). apply In_nth_error in Hin as (i & Hn).
      destruct (chain_block _ _ _ Hn) as (Hh & Htx & Hm).
      unfold on_data. rewrite Hm.
      destruct (d_txs d) eqn:Ht; [exists j; cbn [fst]; auto|]. rewrite <- Ht.
      destruct (dseen (n_cache nd) (d_txs d)); [exists j; cbn [fst]; auto|].
      cbn [m_height].
      destruct (h_height (sh_hdr sh) <=? d_height (n_disk nd)); [exists j; cbn [fst]; auto|].
      apply loop_inv; [exact HI| |intros c'; split; reflexivity].
      destruct Hc as (H1 & H2). split; cbn; intros n x Hin'; [eauto|].
      destruct Hin' as [E|Hin']; [inversion E; subst; eauto|eauto].
  Qed.

  Lemma last_height m last j :
    core m last j -> j <> O -> s_height last = g_initial g + N.of_nat j - 1.
  Proof.
    intros (Hj & _ & _ & Hl & _) Hne. cbn [n_last] in Hl. destruct j as [|j0]; [congruence|].
    assert (Hlt : (j0 < length C)%nat) by lia.
    apply nth_error_Some in Hlt. destruct (nth_error C j0) as [[sh d]|] eqn:Hn; [|congruence].
    rewrite (state_after_S exec _ _ _ _ Hn) in Hl. subst last.
    destruct (chain_block _ _ _ Hn) as (Hh & _). unfold next_of, next_state; cbn. lia.
  Qed.

  Lemma height_put_block m n v : d_height (kv_put m (block_key n) v) = d_height m.
  Proof. reflexivity. Qed.
  Lemma state_put_block m n v : d_state (kv_put m (block_key n) v) = d_state m.
  Proof. reflexivity. Qed.

  (* a start on an image that holds exactly j applied blocks *)
  Lemma boot_inv m last j files log :
    core m last j -> cache_ok files ->
    Inv (boot g m files log) j /\ n_log (boot g m files log) = log.
  Proof.
    intros Hcore Hf. pose proof Hcore as (Hj & Hh & Hb & Hl & Hs & Hs0). cbn [n_disk n_last] in *.
    pose proof init_pos as Hi. unfold boot, boot_writes.
    destruct j as [|j0].
    - rewrite (Hs0 eq_refl). cbn [genesis_state s_height].
      replace (g_initial g - 1 <=? d_height m) with true by (symmetry; apply N.leb_le; lia).
      cbn [app apply_writes fold_left apply_write apply_prim n_log]. split; [|reflexivity].
      split; [reflexivity|]. split; [|split; assumption].
      unfold core, synced_to; cbn [n_disk n_last].
      rewrite height_put_block, state_put_block.
      repeat split; auto; try lia; try (intros i Hlt; lia); try (destruct C; reflexivity).
    - rewrite (Hs ltac:(discriminate)).
      pose proof (last_height _ _ _ Hcore ltac:(discriminate)) as Hlh.
      replace (s_height last <? g_initial g) with false by (symmetry; apply N.ltb_ge; lia).
      replace (s_height last <=? d_height m) with true by (symmetry; apply N.leb_le; lia).
      cbn [apply_writes fold_left n_log]. split; [|reflexivity].
      split; [reflexivity|]. split; [exact Hcore|split; assumption].
  Qed.

  Lemma init_inv : Inv (init g) O /\ n_log (init g) = [].
  Proof.
    pose proof init_pos as Hi. unfold init, boot, boot_writes. cbn [d_state kv_get genesis_state s_height d_height].
    split; [|destruct (g_initial g - 1 <=? 0); reflexivity].
    assert (Hc : core (n_disk (boot g [] empty_cache [])) s0 O).
    { unfold boot, boot_writes. cbn [d_state kv_get genesis_state s_height d_height].
      unfold core, synced_to.
      destruct (N.leb_spec (g_initial g - 1) 0); cbn; repeat split; auto; try lia; try (intros i Hlt; lia); try (destruct C; reflexivity). }
    unfold boot, boot_writes in Hc. cbn [d_state kv_get genesis_state s_height d_height] in Hc.
    destruct (g_initial g - 1 <=? 0); (split; [reflexivity|split; [exact Hc|split; apply cache_ok_empty]]).
  Qed.

  (* clean histories: events of the chain and clean restarts *)
  Lemma step_clean_inv nd j i L :
    Inv nd j -> item_in C i -> is_clean i = true -> n_log nd = L ++ calls_after exec s0 C j ->
    exists j', (j <= j')%nat /\ Inv (step exec g nd i) j' /\ n_log (step exec g nd i) = L ++ calls_after exec s0 C j'.
  Proof.
    intros HI Hin Hcl Hlog. destruct i as [e| |e q|q]; try discriminate Hcl.
    - destruct (process_inv nd j e HI Hin) as (j' & Hle & HI' & Hl'). exists j'. auto.
    - destruct HI as (Hst & Hcore & Hc & Hf). cbn [step]. rewrite Hst.
      destruct (boot_inv _ _ _ (n_cache nd) (n_log nd) Hcore Hc) as (HI' & Hl').
      exists j. split; [lia|]. split; [exact HI'|]. rewrite Hl'. exact Hlog.
  Qed.

  Lemma run_clean_inv h : forall nd j L,
    Inv nd j -> Forall (item_in C) h -> forallb is_clean h = true -> n_log nd = L ++ calls_after exec s0 C j ->
    exists j', (j <= j')%nat /\ Inv (run_from exec g nd h) j' /\ n_log (run_from exec g nd h) = L ++ calls_after exec s0 C j'.
  Proof.
    induction h as [|i r IH]; intros nd j L HI Hall Hcl Hlog.
    - exists j. cbn. auto.
    - inversion Hall as [|? ? Hi Hr]; subst. cbn [forallb] in Hcl. apply andb_true_iff in Hcl as [Hc1 Hc2].
      destruct (step_clean_inv _ _ _ _ HI Hi Hc1 Hlog) as (j1 & Hle1 & HI1 & Hlog1).
      destruct (IH _ _ _ HI1 Hr Hc2 Hlog1) as (j2 & Hle2 & HI2 & Hlog2).
      exists j2. cbn [run_from fold_left]. split; [lia|]. split; assumption.
  Qed.

  (* ---- crashes (C05) ------------------------------------------------------------------------------ *)
  (* an image from which every start yields a node that holds a prefix of the chain *)
  Definition bootable (m : img) : Prop :=
    forall files log, cache_ok files -> exists j, Inv (boot g m files log) j.

  Lemma core_bootable m last j : core m last j -> bootable m.
  Proof. intros Hc files log Hf. exists j. apply (boot_inv _ _ _ files log Hc Hf). Qed.

  Lemma block_writes_eq m last j sh d new :
    core m last j -> nth_error C j = Some (sh, d) ->
    block_writes m new sh d =
    [ W1 (Put state_key (VState new)); WBatch [Put (block_key (h_height (sh_hdr sh))) (VBlock sh d)];
      W1 (Put height_key (VHeight (h_height (sh_hdr sh)))) ].
  Proof.
    intros (_ & Hh & _) Hn. cbn [n_disk] in Hh. pose proof init_pos.
    destruct (chain_block _ _ _ Hn) as (Hhh & _).
    unfold block_writes.
    replace (h_height (sh_hdr sh) <=? d_height m) with false by (symmetry; apply N.leb_gt; lia).
    reflexivity.
  Qed.

  (* state and block of the next application written, height not yet: start-up completes it *)
  Lemma mid_bootable m last j sh d :
    core m last j -> nth_error C j = Some (sh, d) ->
    bootable (apply_writes m [ W1 (Put state_key (VState (next_of exec last (sh, d))));
                               WBatch [Put (block_key (h_height (sh_hdr sh))) (VBlock sh d)] ]).
  Proof.
    intros Hc Hn files log Hf.
    destruct (core_step _ _ _ _ _ Hc Hn) as (_ & Hc').
    remember (next_of exec last (sh, d)) as new eqn:Hnew.
    rewrite (block_writes_eq _ _ _ _ _ new Hc Hn) in Hc'.
    pose proof (last_height _ _ _ Hc' ltac:(discriminate)) as Hlh.
    destruct Hc as (_ & Hh & _). cbn [n_disk] in Hh. pose proof init_pos.
    exists (S j).
    cbn [apply_writes fold_left apply_write apply_prim] in *.
    set (m' := kv_put (kv_put m state_key (VState new)) (block_key (h_height (sh_hdr sh))) (VBlock sh d)) in *.
    assert (Hs' : d_state m' = Some new) by reflexivity.
    assert (Hh' : d_height m' = d_height m) by reflexivity.
    assert (Hsh : s_height new = h_height (sh_hdr sh)) by (subst new; reflexivity).
    unfold boot, boot_writes. rewrite Hs', Hh'.
    replace (s_height new <? g_initial g) with false by (symmetry; apply N.ltb_ge; lia).
    replace (s_height new <=? d_height m) with false by (symmetry; apply N.leb_gt; lia).
    rewrite Hsh. cbn [apply_writes fold_left apply_write apply_prim].
    split; [reflexivity|]. split; [exact Hc'|]. split; assumption.
  Qed.

  Definition crash_ok (q n : nat) : Prop := (n <= q)%nat \/ Nat.modulo q 3 <> 1%nat.

  Lemma try_sync_crash fuel : forall st j W,
    core (l_disk st) (l_last st) j -> cache_ok (l_cache st) -> l_status st = Running ->
    (length (c_hdrs (l_cache st)) < fuel)%nat -> l_ws st = W ->
    exists ws, l_ws (try_sync exec fuel st) = W ++ ws /\
      forall q, crash_ok q (length ws) -> bootable (crash_after q (l_disk st) ws).
  Proof.
    induction fuel as [|f IH]; intros st j W Hcore Hc Hst Hfuel HW; [lia|].
    cbn [try_sync].
    assert (Hnone : exists ws, l_ws st = W ++ ws /\
              forall q, crash_ok q (length ws) -> bootable (crash_after q (l_disk st) ws)).
    { exists []. rewrite app_nil_r. split; [exact HW|]. intros q _. unfold crash_after.
      rewrite firstn_nil. cbn. eapply core_bootable; exact Hcore. }
    destruct (lookup (c_hdrs (l_cache st)) (d_height (l_disk st) + 1)) as [sh|] eqn:L1; [|exact Hnone].
    destruct (lookup (c_data (l_cache st)) (d_height (l_disk st) + 1)) as [d|] eqn:L2; [|exact Hnone].
    clear Hnone.
    pose proof (next_block _ _ _ _ _ _ Hcore Hc L1 L2) as Hn.
    destruct (core_step _ _ _ _ _ Hcore Hn) as (Hval & Hcore').
    rewrite Hval.
    unfold next_of in Hcore'; cbn [fst snd] in Hcore'.
    set (new := next_state (l_last st) (sh_hdr sh)
                  (exec (s_app (l_last st)) (h_height (sh_hdr sh)) (h_time (sh_hdr sh)) (d_txs d))) in *.
    pose proof (block_writes_eq _ _ _ _ _ new Hcore Hn) as Hbw.
    match goal with |- context [try_sync exec f ?st'] =>
      destruct (IH st' (S j) (W ++ block_writes (l_disk st) new sh d)) as (ws' & Hws' & Hboot') end.
    - exact Hcore'.
    - cbn. apply cache_ok_after; exact Hc.
    - reflexivity.
    - cbn. pose proof (remove_shrinks _ _ _ L1). lia.
    - cbn. rewrite HW. reflexivity.
    - exists (block_writes (l_disk st) new sh d ++ ws'). split; [rewrite Hws', app_assoc; reflexivity|].
      cbn [l_disk] in Hboot'. rewrite Hbw in *.
      intros q Hq. unfold crash_after.
      destruct q as [|[|[|q]]].
      + cbn. eapply core_bootable; exact Hcore.
      + exfalso. destruct Hq as [Hq|Hq]; [cbn in Hq; lia|apply Hq; reflexivity].
      + cbn [firstn app]. apply (mid_bootable _ _ _ _ _ Hcore Hn).
      + assert (Hq' : crash_ok q (length ws')).
        { destruct Hq as [Hq|Hq]; [left; cbn [length app] in Hq; lia|right].
          intros E. apply Hq. replace (S (S (S q))) with (q + 1 * 3)%nat by lia.
          rewrite Nat.mod_add by lia. exact E. }
        specialize (Hboot' q Hq'). unfold crash_after in Hboot'. cbn [firstn app]. exact Hboot'.
  Qed.

  Lemma boot_ws_bootable m last j q : core m last j -> bootable (crash_after q m (boot_ws g m)).
  Proof.
    intros Hcore. pose proof Hcore as (Hj & Hh & Hb & Hl & Hs & Hs0). cbn [n_disk n_last] in *.
    pose proof init_pos as Hi. unfold boot_ws, boot_writes, crash_after.
    destruct j as [|j0].
    - rewrite (Hs0 eq_refl). cbn [genesis_state s_height].
      replace (g_initial g - 1 <=? d_height m) with true by (symmetry; apply N.leb_le; lia).
      destruct q as [|q]; [cbn; eapply core_bootable; exact Hcore|].
      cbn [app firstn]. rewrite firstn_nil.
      cbn [apply_writes fold_left apply_write apply_prim].
      apply (core_bootable _ last O).
      unfold core, synced_to; cbn [n_disk n_last].
      rewrite height_put_block, state_put_block.
      repeat split; auto; try lia; try (intros i Hlt; lia).
    - rewrite (Hs ltac:(discriminate)).
      pose proof (last_height _ _ _ Hcore ltac:(discriminate)) as Hlh.
      replace (s_height last <? g_initial g) with false by (symmetry; apply N.ltb_ge; lia).
      replace (s_height last <=? d_height m) with true by (symmetry; apply N.leb_le; lia).
      rewrite firstn_nil. cbn. eapply core_bootable; exact Hcore.
  Qed.

  (* the writes of one event, cut anywhere but between a state write and its block save *)
  Lemma process_crash nd j e q :
    Inv nd j -> ev_in C e -> bad_crash exec nd e q = false ->
    bootable (crash_after q (n_disk nd) (snd (process exec nd e))).
  Proof.
    intros HI Hev Hbad. pose proof HI as (Hst & Hcore & Hc & Hf).
    assert (Hskip : forall ws, ws = [] -> bootable (crash_after q (n_disk nd) ws)).
    { intros ws ->. unfold crash_after. rewrite firstn_nil. cbn. eapply core_bootable; exact Hcore. }
    assert (Hloop : forall c mark, cache_ok c ->
              bad_crash_ws (snd (finish nd (start_loop exec nd c) mark)) q = false ->
              bootable (crash_after q (n_disk nd) (snd (finish nd (start_loop exec nd c) mark)))).
    { intros c mark Hc' Hb. unfold finish, start_loop in *. cbn [snd] in *.
      match goal with |- context [try_sync exec ?f ?st] =>
        destruct (try_sync_crash f st j []) as (ws & Hws & Hboot); auto end.
      cbn [app] in Hws. rewrite Hws in *. apply Hboot.
      unfold bad_crash_ws in Hb. unfold crash_ok.
      destruct (Nat.ltb_spec q (length ws)); [right|left; lia].
      cbn [andb] in Hb. intros E. rewrite E in Hb. discriminate Hb. }
    change (bad_crash_ws (snd (process exec nd e)) q = false) in Hbad.
    revert Hbad. unfold process. rewrite Hst.
    destruct e as [sh da | d da].
    - destruct Hev as (d & Hin). apply In_nth_error in Hin as (i & Hn).
      destruct (chain_block _ _ _ Hn) as (Hh & Htx & Hm).
      unfold on_header.
      destruct ((h_height (sh_hdr sh) <=? d_height (n_disk nd)) || hseen (n_cache nd) (sh_hdr sh));
        [intros _; apply Hskip; reflexivity|].
      apply Hloop.
      destruct Hc as (H1 & H2).
      assert (Hd : is_empty_commitment (h_data (sh_hdr sh)) = true -> empty_data (sh_hdr sh) = d).
      { intros He. destruct (h_data (sh_hdr sh)); [|discriminate He].
        destruct d as [dm dt]; cbn in *. subst. reflexivity. }
      destruct (is_empty_commitment (h_data (sh_hdr sh))) eqn:He; split; cbn; intros n x Hin'.
      * destruct Hin' as [E|Hin']; [inversion E; subst; eauto|eauto].
      * destruct Hin' as [E|Hin']; [|eauto]. inversion E; subst. exists i, sh. rewrite (Hd eq_refl). auto.
      * destruct Hin' as [E|Hin']; [inversion E; subst; eauto|eauto].
      * eauto.
    - destruct Hev as (sh & Hin). apply In_nth_error in Hin as (i & Hn).
      destruct (chain_block _ _ _ Hn) as (Hh & Htx & Hm).
      unfold on_data. rewrite Hm.
      destruct (d_txs d) eqn:Ht; [intros _; apply Hskip; reflexivity|]. rewrite <- Ht.
      destruct (dseen (n_cache nd) (d_txs d)); [intros _; apply Hskip; reflexivity|].
      cbn [m_height].
      destruct (h_height (sh_hdr sh) <=? d_height (n_disk nd)); [intros _; apply Hskip; reflexivity|].
      apply Hloop.
      destruct Hc as (H1 & H2). split; cbn; intros n x Hin'; [eauto|].
      destruct Hin' as [E|Hin']; [inversion E; subst; eauto|eauto].
  Qed.

  Lemma step_inv nd j i :
    Inv nd j -> item_in C i ->
    match i with ICrash e q => bad_crash exec nd e q = false | _ => True end ->
    exists j', Inv (step exec g nd i) j'.
  Proof.
    intros HI Hin Hg. pose proof HI as (Hst & Hcore & Hc & Hf).
    destruct i as [e| |e q|q].
    - destruct (process_inv nd j e HI Hin) as (j' & _ & HI' & _). exists j'; exact HI'.
    - cbn [step]. rewrite Hst. exists j. apply (boot_inv _ _ _ (n_cache nd) (n_log nd) Hcore Hc).
    - cbn [step]. destruct (process exec nd e) as (nd', ws) eqn:Hp.
      pose proof (process_crash nd j e q HI Hin Hg) as Hb. rewrite Hp in Hb. cbn [snd] in Hb.
      apply Hb. exact Hf.
    - cbn [step]. apply (boot_ws_bootable _ _ _ q Hcore). exact Hf.
  Qed.

  Lemma run_inv h : forall nd j,
    Inv nd j -> Forall (item_in C) h -> no_bad_crash exec g nd h = true ->
    exists j', Inv (run_from exec g nd h) j'.
  Proof.
    induction h as [|i r IH]; intros nd j HI Hall Hg.
    - exists j. exact HI.
    - inversion Hall as [|? ? Hi Hr]; subst. cbn [no_bad_crash] in Hg.
      apply andb_true_iff in Hg as [Hg1 Hg2].
      destruct (step_inv nd j i HI Hi) as (j1 & HI1).
      { destruct i; try exact I. apply negb_true_iff. exact Hg1. }
      destruct (IH _ _ HI1 Hr Hg2) as (j2 & HI2). exists j2. exact HI2.
  Qed.
End Safety.

(* ---- C02: safety and monotonicity, all chains, all clean histories ------------------------------- *)
Theorem safety exec g k C h :
  ChainValid exec g k C -> Forall (item_in C) h -> forallb is_clean h = true ->
  n_status (run exec g h) = Running /\
  exists j, synced_to exec g C (run exec g h) j /\
            n_log (run exec g h) = calls_after exec (genesis_state g) C j.
Proof.
  intros HV Hall Hcl. destruct (init_inv exec g k C HV) as (HI & Hl).
  destruct (run_clean_inv exec g k C HV h (init g) O [] HI Hall Hcl) as (j & _ & (Hst & Hcore & _) & Hlog).
  - rewrite Hl. destruct C; reflexivity.
  - split; [exact Hst|]. exists j. split; [apply (synced_core exec g C); exact Hcore|exact Hlog].
Qed.

Theorem monotone exec g k C h1 h2 :
  ChainValid exec g k C -> Forall (item_in C) (h1 ++ h2) -> forallb is_clean (h1 ++ h2) = true ->
  exists j1 j2, (j1 <= j2)%nat /\ synced_to exec g C (run exec g h1) j1 /\ synced_to exec g C (run exec g (h1 ++ h2)) j2.
Proof.
  intros HV Hall Hcl. apply Forall_app in Hall as (Ha1 & Ha2).
  rewrite forallb_app in Hcl. apply andb_true_iff in Hcl as (Hc1 & Hc2).
  destruct (init_inv exec g k C HV) as (HI & Hl).
  destruct (run_clean_inv exec g k C HV h1 (init g) O [] HI Ha1 Hc1) as (j1 & _ & HI1 & Hlog1).
  { rewrite Hl. destruct C; reflexivity. }
  destruct (run_clean_inv exec g k C HV h2 _ j1 [] HI1 Ha2 Hc2 Hlog1) as (j2 & Hle & HI2 & _).
  exists j1, j2. split; [exact Hle|].
  unfold run, run_from in *. rewrite fold_left_app.
  destruct HI1 as (_ & Hk1 & _). destruct HI2 as (_ & Hk2 & _).
  split; apply (synced_core exec g C); assumption.
Qed.

(* ---- C05: recovery under the guard, all chains, all histories with crashes anywhere else -------- *)
Theorem recovery_partial exec g k C h :
  ChainValid exec g k C -> Forall (item_in C) h -> no_bad_crash exec g (init g) h = true ->
  recovered exec g C (run exec g h).
Proof.
  intros HV Hall Hg. destruct (init_inv exec g k C HV) as (HI & _).
  destruct (run_inv exec g k C HV h (init g) O HI Hall Hg) as (j & Hst & Hcore & _).
  split; [exact Hst|]. exists j. apply (synced_core exec g C). exact Hcore.
Qed.

(* ---- concrete chains for witnesses and non-vacuity examples ------------------------------------ *)
Definition ex_exec : root -> N -> Z -> list tx -> root :=
  fun r n _ txs => r * 7 + n + N.of_nat (length txs).
Definition ex_g (initial : N) : config :=
  {| g_chain := 1; g_initial := initial; g_time := 100%Z; g_proposer := Addr 1; g_initroot := 5 |}.
(* what the proposer with key 1 builds from a list of (transactions, time) *)
Fixpoint ex_build (prev : option header) (n : N) (r : root) (l : list (list tx * Z)) : list block :=
  match l with
  | [] => []
  | (txs, t) :: l' =>
      let h := {| h_height := n; h_time := t; h_chain := 1; h_last := prev; h_data := txs; h_app := r;
                  h_proposer := Addr 1 |} in
      ({| sh_hdr := h; sh_sig := Sig 1 h; sh_signer := {| sg_pub := Some (Pub 1); sg_addr := Addr 1 |} |},
       {| d_meta := Some {| m_chain := 1; m_height := n; m_time := t |}; d_txs := txs |})
      :: ex_build (Some h) (n + 1) (ex_exec r n t txs) l'
  end.
Definition ex_chain (initial : N) (l : list (list tx * Z)) : list block := ex_build None initial 5 l.
Definition evh (C : list block) (i : nat) (da : N) : item :=
  IEv (EvHeader (fst (nth i C (genesis_block (ex_g 1)))) da).
Definition evd (C : list block) (i : nat) (da : N) : item :=
  IEv (EvData (snd (nth i C (genesis_block (ex_g 1)))) da).

Ltac solve_in := cbn; repeat (first [left; reflexivity | right]).
Ltac chain_valid := split; [cbn; lia|split; [reflexivity|vm_compute; reflexivity]].

(* F2: blocks 2 and 3 carry the same non-empty transaction list *)
Definition f2_chain := ex_chain 1 [([], 100%Z); ([7], 101%Z); ([7], 102%Z)].
Definition f2_hist := [evh f2_chain 0 1; evh f2_chain 1 1; evd f2_chain 1 1; evh f2_chain 2 1; evd f2_chain 2 1].

Lemma complete_refuted :
  exists exec g k C h m,
    ChainValid exec g k C /\ Forall (item_in C) h /\ forallb is_clean h = true /\ (m <= length C)%nat /\
    (forall i b, (i < m)%nat -> nth_error C i = Some b -> header_delivered h b) /\
    (forall i b, (i < m)%nat -> nth_error C i = Some b -> d_txs (snd b) <> [] -> data_delivered h b) /\
    d_height (n_disk (run exec g h)) < g_initial g + N.of_nat m - 1.
Proof.
  exists ex_exec, (ex_g 1), 1, f2_chain, f2_hist, 3%nat.
  split; [chain_valid|].
  split; [repeat constructor; cbn; eexists; solve_in|].
  split; [reflexivity|]. split; [cbn; lia|].
  split; [|split].
  - intros i b Hi Hn. destruct i as [|[|[|i]]]; try lia; inversion Hn; subst; exists 1; solve_in.
  - intros i b Hi Hn Hne. destruct i as [|[|[|i]]]; try lia; inversion Hn; subst.
    + exfalso. (* block 0 is empty *) apply Hne. reflexivity.
    + exists 1; solve_in.
    + exists 1; solve_in.
  - vm_compute. reflexivity.
Qed.

(* F7: the process dies after the state write of the first application, before the block save *)
Definition f7_chain := ex_chain 1 [([], 100%Z)].
Definition f7_hist := [ICrash (EvHeader (fst (nth 0 f7_chain (genesis_block (ex_g 1)))) 1) 1].

Lemma recovery_refuted :
  exists exec g k C h,
    ChainValid exec g k C /\ Forall (item_in C) h /\ ~ recovered exec g C (run exec g h).
Proof.
  exists ex_exec, (ex_g 1), 1, f7_chain, f7_hist.
  split; [chain_valid|].
  split; [repeat constructor; cbn; eexists; solve_in|].
  intros (_ & j & Hj & Hh & Hb & _).
  destruct j as [|[|j]].
  - vm_compute in Hh. discriminate Hh.
  - specialize (Hb O ltac:(lia)). vm_compute in Hb. discriminate Hb.
  - cbn in Hj. lia.
Qed.

(* the same history has a crash at write index 1: the guard of the partial theorem is what it violates *)
Lemma recovery_refuted_guard : no_bad_crash ex_exec (ex_g 1) (init (ex_g 1)) f7_hist = false.
Proof. vm_compute. reflexivity. Qed.

(* stale cache files: header and data of block 2 are cached and marked seen, the node stops cleanly
   (files written), then dies exactly between the applications of blocks 1 and 2; the new process loads
   the old files, so every later copy of block 2's header and data is dropped as seen and nothing
   ever calls trySyncNextBlock again *)
Definition st_chain := ex_chain 1 [([], 100%Z); ([7], 101%Z)].
Definition st_h1 := [evh st_chain 1 1; evd st_chain 1 1; IRestart;
                     ICrash (EvHeader (fst (nth 0 st_chain (genesis_block (ex_g 1)))) 1) 3].
Definition st_h2 := [evh st_chain 0 2; evd st_chain 0 2; evh st_chain 1 2; evd st_chain 1 2].

Lemma resync_refuted :
  exists exec g k C h1 h2,
    ChainValid exec g k C /\ Forall (item_in C) (h1 ++ h2) /\
    no_bad_crash exec g (init g) (h1 ++ h2) = true /\ forallb is_clean h2 = true /\
    (forall b, In b C -> header_delivered h2 b /\ data_delivered h2 b) /\
    d_height (n_disk (run exec g (h1 ++ h2))) < g_initial g + N.of_nat (length C) - 1.
Proof.
  exists ex_exec, (ex_g 1), 1, st_chain, st_h1, st_h2.
  split; [chain_valid|].
  split; [repeat constructor; cbn; try exact I; eexists; solve_in|].
  split; [vm_compute; reflexivity|]. split; [reflexivity|].
  split.
  - intros b [E|[E|[]]]; subst; split; exists 2; solve_in.
  - vm_compute. reflexivity.
Qed.
