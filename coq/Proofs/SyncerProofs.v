(* Proofs/SyncerProofs.v — lemmas about Model/Syncer.v (C02, C05). *)
From Coq Require Import String Ascii NArith ZArith List Bool Lia ZifyBool ZifyN ZifyNat.
From Verif Require Import Base.KV Base.Keys Model.Types Model.Syncer.
Import ListNotations.
Open Scope list_scope.
Open Scope N_scope.

(* ---- keys ------------------------------------------------------------------------------------- *)
Lemma block_key_state n : String.eqb (block_key n) state_key = false.
Proof. reflexivity. Qed.
Lemma block_key_height n : String.eqb (block_key n) height_key = false.
Proof. reflexivity. Qed.
Lemma state_key_block n : String.eqb state_key (block_key n) = false.
Proof. reflexivity. Qed.
Lemma height_key_block n : String.eqb height_key (block_key n) = false.
Proof. reflexivity. Qed.
Lemma block_key_eqb a b : String.eqb (block_key a) (block_key b) = (a =? b).
Proof.
  destruct (N.eqb_spec a b) as [->|Hne].
  - apply String.eqb_refl.
  - apply String.eqb_neq. intros H. apply Hne. unfold block_key in H.
    apply append_inj_r in H. apply dec_inj in H. exact H.
Qed.

(* ---- reads after the writes of one application ----------------------------------------------- *)
Lemma height_after_block m new sh d :
  d_height (apply_writes m (block_writes m new sh d)) =
  if h_height (sh_hdr sh) <=? d_height m then d_height m else h_height (sh_hdr sh).
Proof.
  unfold block_writes. destruct (h_height (sh_hdr sh) <=? d_height m); reflexivity.
Qed.

Lemma state_after_block m new sh d :
  d_state (apply_writes m (block_writes m new sh d)) = Some new.
Proof.
  unfold block_writes. destruct (h_height (sh_hdr sh) <=? d_height m); reflexivity.
Qed.

Lemma block_after_block m new sh d k :
  d_block (apply_writes m (block_writes m new sh d)) k =
  if k =? h_height (sh_hdr sh) then Some (sh, d) else d_block m k.
Proof.
  unfold block_writes, d_block.
  destruct (h_height (sh_hdr sh) <=? d_height m);
    cbn [apply_writes fold_left apply_write apply_prim app kv_put kv_get];
    rewrite ?block_key_height, ?block_key_state, ?block_key_eqb;
    destruct (k =? h_height (sh_hdr sh)); reflexivity.
Qed.

(* ---- lists ------------------------------------------------------------------------------------- *)
Lemma lookup_in {A} (l : list (N * A)) n v : lookup l n = Some v -> In (n, v) l.
Proof.
  induction l as [|[k x] r IH]; cbn; [discriminate|].
  destruct (N.eqb_spec k n) as [->|]; intros H.
  - inversion H; subst; left; reflexivity.
  - right; auto.
Qed.

Lemma remove_in {A} (l : list (N * A)) n e : In e (remove l n) -> In e l.
Proof. unfold remove; intros H; apply filter_In in H; tauto. Qed.

Lemma remove_length {A} (l : list (N * A)) n : (length (remove l n) <= length l)%nat.
Proof. unfold remove. induction l as [|e r IH]; cbn; [lia|]. destruct (negb (fst e =? n)); cbn; lia. Qed.

Lemma remove_shrinks {A} (l : list (N * A)) n v : lookup l n = Some v -> (length (remove l n) < length l)%nat.
Proof.
  induction l as [|[k x] r IH]; cbn; [discriminate|].
  destruct (N.eqb_spec k n) as [->|Hne]; intros H; cbn.
  - pose proof (remove_length r n). unfold remove in *. lia.
  - apply IH in H. unfold remove in *. cbn. lia.
Qed.

Lemma commitment_eqb_eq a b : commitment_eqb a b = true -> a = b.
Proof.
  revert b; induction a as [|x a IH]; intros [|y b]; cbn; intros H; try reflexivity; try discriminate.
  apply andb_true_iff in H as [H1 H2]. apply N.eqb_eq in H1. subst. f_equal. apply IH. exact H2.
Qed.
Lemma commitment_eqb_refl a : commitment_eqb a a = true.
Proof. induction a as [|x a IH]; cbn; [reflexivity|]. rewrite N.eqb_refl. exact IH. Qed.

Lemma addr_eqb_Addr a k : addr_eqb a (Addr k) = true -> a = Addr k.
Proof. destruct a; cbn; intros H; try discriminate. apply N.eqb_eq in H; subst; reflexivity. Qed.

Section P.
  Variable exec : root -> N -> Z -> list tx -> root.
  Variable g : config.
  Variable k : key.

  (* a state that stands just below height n with last time t and root r *)
  Definition st_ok (s : cstate) (n : N) (t : Z) (r : root) : Prop :=
    s_chain s = g_chain g /\ s_height s + 1 = n /\ s_time s = t /\ s_app s = r.

  Lemma block_ok_validate prev n t r s sh d :
    block_okb g k prev n t r (sh, d) = true -> st_ok s n t r ->
    validate s sh d = true /\ h_height (sh_hdr sh) = n /\
    d_txs d = h_data (sh_hdr sh) /\
    d_meta d = Some {| m_chain := h_chain (sh_hdr sh); m_height := h_height (sh_hdr sh); m_time := h_time (sh_hdr sh) |}.
  Proof.
    unfold block_okb, st_ok. intros H (Hc & Hh & Ht & Ha).
    repeat (apply andb_true_iff in H as [H ?]).
    destruct (d_meta d) as [m|] eqn:Hm; [|discriminate].
    destruct (sg_pub (sh_signer sh)) as [[k']|] eqn:Hp; [|discriminate].
    match goal with X : addr_eqb (h_proposer _) _ = true |- _ => apply addr_eqb_Addr in X; rename X into Hprop end.
    match goal with X : addr_eqb (sg_addr _) _ = true |- _ => apply addr_eqb_Addr in X; rename X into Hsa end.
    match goal with X : commitment_eqb _ _ = true |- _ => pose proof (commitment_eqb_eq _ _ X) as Hcm end.
    match goal with X : verify_header _ _ _ = true |- _ => rename X into Hv end.
    repeat match goal with X : (_ && _) = true |- _ => apply andb_true_iff in X as [X ?] end.
    repeat match goal with X : (_ =? _) = true |- _ => apply N.eqb_eq in X end.
    repeat match goal with X : (_ =? _)%Z = true |- _ => apply Z.eqb_eq in X end.
    match goal with X : (t <=? _)%Z = true |- _ => apply Z.leb_le in X; rename X into Htime end.
    subst k'.
    split; [|split; [assumption|split; [assumption|]]].
    - unfold validate, validate_basic, validate_pair.
      rewrite Hprop, Hsa, Hp, Hm, Hv. cbn [addr_eqb negb key_address].
      rewrite !N.eqb_refl.
      destruct (sh_sig sh); try discriminate Hv.
      rewrite Hcm, commitment_eqb_refl.
      replace (h_chain (sh_hdr sh) =? m_chain m) with true by (symmetry; apply N.eqb_eq; congruence).
      replace (h_height (sh_hdr sh) =? m_height m) with true by (symmetry; apply N.eqb_eq; congruence).
      replace (h_time (sh_hdr sh) =? m_time m)%Z with true by (symmetry; apply Z.eqb_eq; congruence).
      replace (h_chain (sh_hdr sh) =? s_chain s) with true by (symmetry; apply N.eqb_eq; congruence).
      replace (h_height (sh_hdr sh) =? s_height s + 1) with true by (symmetry; apply N.eqb_eq; congruence).
      replace (h_app (sh_hdr sh) =? s_app s) with true by (symmetry; apply N.eqb_eq; congruence).
      replace (h_time (sh_hdr sh) <? s_time s)%Z with false by (symmetry; apply Z.ltb_ge; lia).
      rewrite andb_false_r. reflexivity.
    - destruct m as [mc mh mt]; cbn in *. f_equal. f_equal; congruence.
  Qed.

  Definition next_of (s : cstate) (b : block) : cstate :=
    next_state s (sh_hdr (fst b)) (exec (s_app s) (h_height (sh_hdr (fst b))) (h_time (sh_hdr (fst b))) (d_txs (snd b))).

  Lemma state_after_S s C j b :
    nth_error C j = Some b -> state_after exec s C (S j) = next_of (state_after exec s C j) b.
  Proof.
    revert s j; induction C as [|[sh d] C IH]; intros s [|j] H; cbn in H; try discriminate.
    - inversion H; subst. cbn. destruct C; reflexivity.
    - cbn [state_after]. rewrite <- IH by exact H. reflexivity.
  Qed.

  Lemma calls_after_S s C j b :
    nth_error C j = Some b ->
    calls_after exec s C (S j) =
    calls_after exec s C j ++
      [{| x_height := h_height (sh_hdr (fst b)); x_time := h_time (sh_hdr (fst b));
          x_prev := s_app (state_after exec s C j); x_txs := d_txs (snd b) |}].
  Proof.
    revert s j; induction C as [|[sh d] C IH]; intros s [|j] H; cbn in H; try discriminate.
    - inversion H; subst. cbn. destruct C; reflexivity.
    - cbn [calls_after state_after]. rewrite (IH _ _ H). reflexivity.
  Qed.

  (* the j-th block of a valid chain validates against the state after the first j blocks *)
  Lemma chain_nth prev n t r s C j b :
    chain_fromb exec g k prev n t r C = true -> st_ok s n t r -> nth_error C j = Some b ->
    exists prev' t' r',
      block_okb g k prev' (n + N.of_nat j) t' r' b = true /\ st_ok (state_after exec s C j) (n + N.of_nat j) t' r'.
  Proof.
    revert prev n t r s j; induction C as [|[sh d] C IH]; intros prev n t r s [|j] Hc Hs Hn; cbn in Hn; try discriminate.
    - inversion Hn; subst. cbn [chain_fromb] in Hc. apply andb_true_iff in Hc as [Hb _].
      exists prev, t, r. replace (n + N.of_nat 0) with n by lia. split; [exact Hb|exact Hs].
    - cbn [chain_fromb] in Hc. apply andb_true_iff in Hc as [Hb Hc]. cbn [fst snd] in Hc.
      destruct (block_ok_validate _ _ _ _ _ _ _ Hb Hs) as (_ & Hh & _ & _).
      cbn [state_after].
      specialize (IH _ _ _ _ (next_state s (sh_hdr sh) (exec (s_app s) (h_height (sh_hdr sh)) (h_time (sh_hdr sh)) (d_txs d))) j Hc).
      destruct IH as (p' & t' & r' & Hb' & Hs').
      + destruct Hs as (Hc1 & Hh1 & Ht1 & Ha1). unfold st_ok, next_state; cbn.
        repeat split; try assumption; try lia. rewrite Ha1, Hh. reflexivity.
      + exact Hn.
      + exists p', t', r'. replace (n + N.of_nat (S j)) with (n + 1 + N.of_nat j) by lia. split; assumption.
  Qed.
End P.

Lemma lookup_remove_other {A} (l : list (N * A)) n k : k <> n -> lookup (remove l n) k = lookup l k.
Proof.
  intros Hne. induction l as [|[a x] r IH]; cbn; [reflexivity|].
  destruct (N.eqb_spec a n) as [->|Han]; cbn.
  - destruct (N.eqb_spec n k); [congruence|exact IH].
  - destruct (a =? k); [reflexivity|exact IH].
Qed.

Lemma header_eqb_height a b : header_eqb a b = true -> h_height a = h_height b.
Proof.
  destruct a, b; cbn. intros H. repeat (apply andb_true_iff in H as [H _]). apply N.eqb_eq. exact H.
Qed.

(* ---- the invariants ------------------------------------------------------------------------------ *)
Section Safety.
  Variable exec : root -> N -> Z -> list tx -> root.
  Variable g : config.
  Variable k : key.
  Variable C : list block.
  Hypothesis HV : ChainValid exec g k C.

  Notation s0 := (genesis_state g).

  Lemma init_pos : 1 <= g_initial g.
  Proof. destruct HV as (H & _); exact H. Qed.

  Lemma s0_ok : st_ok g s0 (g_initial g) (g_time g) (g_initroot g).
  Proof. pose proof init_pos. unfold st_ok, genesis_state; cbn. repeat split; lia. Qed.

  Lemma chain_at j b :
    nth_error C j = Some b ->
    exists prev t r, block_okb g k prev (g_initial g + N.of_nat j) t r b = true /\
                     st_ok g (state_after exec s0 C j) (g_initial g + N.of_nat j) t r.
  Proof. destruct HV as (_ & _ & Hc). intros H. exact (chain_nth exec g k _ _ _ _ _ _ _ _ Hc s0_ok H). Qed.

  Lemma chain_block i sh d :
    nth_error C i = Some (sh, d) ->
    h_height (sh_hdr sh) = g_initial g + N.of_nat i /\ d_txs d = h_data (sh_hdr sh) /\
    d_meta d = Some {| m_chain := h_chain (sh_hdr sh); m_height := h_height (sh_hdr sh); m_time := h_time (sh_hdr sh) |}.
  Proof.
    intros Hn. destruct (chain_at _ _ Hn) as (prev & t & r & Hok & Hst).
    destruct (block_ok_validate exec g k _ _ _ _ _ _ _ Hok Hst) as (_ & H1 & H2 & H3). auto.
  Qed.

  Lemma empty_data_eq i sh d :
    nth_error C i = Some (sh, d) -> d_txs d = [] -> empty_data (sh_hdr sh) = d.
  Proof.
    intros Hn He. destruct (chain_block _ _ _ Hn) as (_ & _ & Hm).
    destruct d as [dm dt]; cbn in *. subst. reflexivity.
  Qed.

  Definition core (m : img) (last : cstate) (j : nat) : Prop :=
    synced_to exec g C {| n_disk := m; n_last := last; n_cache := empty_cache; n_files := empty_cache;
                          n_status := Running; n_log := [] |} j.

  Lemma synced_core nd j : synced_to exec g C nd j <-> core (n_disk nd) (n_last nd) j.
  Proof. unfold core, synced_to; cbn. tauto. Qed.

  Lemma core_unique m s j s' j' : core m s j -> core m s' j' -> j = j'.
  Proof.
    intros (_ & H1 & _) (_ & H2 & _). cbn [n_disk] in *. pose proof init_pos. lia.
  Qed.

  Definition cache_ok (c : cache) : Prop :=
    (forall n sh, In (n, sh) (c_hdrs c) -> exists i d, nth_error C i = Some (sh, d) /\ n = g_initial g + N.of_nat i) /\
    (forall n d, In (n, d) (c_data c) -> exists i sh, nth_error C i = Some (sh, d) /\ n = g_initial g + N.of_nat i).

  Lemma cache_ok_empty : cache_ok empty_cache.
  Proof. split; intros ? ? [].  Qed.

  (* block i is applied, or its header / data sits in the cache at its height *)
  Definition hv_h (c : cache) (j i : nat) (sh : sheader) : Prop :=
    (i < j)%nat \/ lookup (c_hdrs c) (g_initial g + N.of_nat i) = Some sh.
  Definition hv_d (c : cache) (j i : nat) (d : data) : Prop :=
    (i < j)%nat \/ lookup (c_data c) (g_initial g + N.of_nat i) = Some d.

  Definition keeps (c : cache) (j : nat) (c' : cache) (j' : nat) : Prop :=
    forall i sh d, nth_error C i = Some (sh, d) ->
      (hv_h c j i sh -> hv_h c' j' i sh) /\ (hv_d c j i d -> hv_d c' j' i d).

  (* a hash marked as seen belongs to a block that is applied or cached *)
  Definition seen_ok (c : cache) (j : nat) : Prop :=
    (forall i sh d, nth_error C i = Some (sh, d) -> hseen c (sh_hdr sh) = true ->
        hv_h c j i sh /\ (d_txs d = [] -> hv_d c j i d)) /\
    (forall i sh d, nth_error C i = Some (sh, d) -> d_txs d <> [] -> dseen c (d_txs d) = true -> hv_d c j i d).

  (* trySyncNextBlock has nothing to do *)
  Definition fixp (c : cache) (m : img) : Prop :=
    lookup (c_hdrs c) (d_height m + 1) = None \/ lookup (c_data c) (d_height m + 1) = None.

  (* the guard of the completeness theorems: non-empty transaction lists are pairwise distinct *)
  Definition Distinct : Prop :=
    forall i i' b b', nth_error C i = Some b -> nth_error C i' = Some b' ->
      d_txs (snd b) = d_txs (snd b') -> d_txs (snd b) <> [] -> i = i'.

  Lemma keeps_refl c j : keeps c j c j.
  Proof. intros i sh d _. split; auto. Qed.
  Lemma keeps_trans c1 j1 c2 j2 c3 j3 : keeps c1 j1 c2 j2 -> keeps c2 j2 c3 j3 -> keeps c1 j1 c3 j3.
  Proof. intros H1 H2 i sh d Hn. destruct (H1 _ _ _ Hn), (H2 _ _ _ Hn). split; auto. Qed.
  Lemma keeps_mono c j j' : (j <= j')%nat -> keeps c j c j'.
  Proof. intros Hle i sh d _. unfold hv_h, hv_d. split; intros [H|H]; auto; left; lia. Qed.

  (* same seen sets: seen_ok follows the items *)
  Lemma seen_ok_keeps c j c' j' :
    c_hseen c' = c_hseen c -> c_dseen c' = c_dseen c -> keeps c j c' j' -> seen_ok c j -> seen_ok c' j'.
  Proof.
    intros E1 E2 Hk (S1 & S2). unfold seen_ok, hseen, dseen in *. rewrite E1, E2. split.
    - intros i sh d Hn Hs. destruct (S1 _ _ _ Hn Hs) as (A & B). destruct (Hk _ _ _ Hn) as (K1 & K2).
      split; auto.
    - intros i sh d Hn Hne Hs. destruct (Hk _ _ _ Hn) as (_ & K2). apply K2. eapply S2; eauto.
  Qed.
  Lemma seen_ok_mono c j j' : (j <= j')%nat -> seen_ok c j -> seen_ok c j'.
  Proof. intros Hle. apply seen_ok_keeps; auto. apply keeps_mono; exact Hle. Qed.

  (* what the cache holds at the next height is the next block of the chain *)
  Lemma next_block m last j c sh d :
    core m last j -> cache_ok c ->
    lookup (c_hdrs c) (d_height m + 1) = Some sh -> lookup (c_data c) (d_height m + 1) = Some d ->
    nth_error C j = Some (sh, d).
  Proof.
    intros (Hj & Hh & _) (Hc1 & Hc2) L1 L2. cbn in Hh. pose proof init_pos as Hi.
    apply lookup_in in L1. apply lookup_in in L2.
    destruct (Hc1 _ _ L1) as (i & d0 & N1 & E1). destruct (Hc2 _ _ L2) as (i' & sh' & N2 & E2).
    assert (i = j) by lia. assert (i' = j) by lia. subst i i'.
    rewrite N1 in N2. inversion N2; subst. exact N1.
  Qed.

  Lemma core_step m last j sh d :
    core m last j -> nth_error C j = Some (sh, d) ->
    validate last sh d = true /\
    core (apply_writes m (block_writes m (next_of exec last (sh, d)) sh d)) (next_of exec last (sh, d)) (S j).
  Proof.
    intros (Hj & Hh & Hb & Hl & Hs & Hs0) Hn. cbn [n_disk n_last] in *. pose proof init_pos as Hi.
    destruct (chain_at _ _ Hn) as (prev & t & r & Hok & Hst).
    rewrite <- Hl in Hst.
    destruct (block_ok_validate exec g k _ _ _ _ _ _ _ Hok Hst) as (Hval & Hhh & _ & _).
    split; [exact Hval|].
    assert (Hlt : (j < length C)%nat) by (apply nth_error_Some; congruence).
    unfold core, synced_to; cbn [n_disk n_last].
    repeat split.
    - lia.
    - rewrite height_after_block. rewrite Hhh, Hh.
      destruct (N.leb_spec (g_initial g + N.of_nat j) (g_initial g + N.of_nat j - 1)); lia.
    - intros i Hi'. rewrite block_after_block, Hhh.
      destruct (N.eqb_spec (g_initial g + N.of_nat i) (g_initial g + N.of_nat j)) as [E|E].
      + assert (i = j) by lia. subst. symmetry; exact Hn.
      + apply Hb. lia.
    - rewrite Hl. symmetry. apply (state_after_S exec). exact Hn.
    - intros _. apply state_after_block.
    - intros E; discriminate E.
  Qed.

  Lemma cache_ok_after c n sh : cache_ok c -> cache_ok (after_apply c n sh).
  Proof.
    intros (H1 & H2). split; cbn; intros ? ? Hin; apply remove_in in Hin; auto.
  Qed.

  (* one application: items at other heights stay, the seen marks it adds belong to the applied block *)
  Lemma keeps_after c j sh : keeps c j (after_apply c (g_initial g + N.of_nat j) sh) (S j).
  Proof.
    intros i sh' d' Hn. unfold hv_h, hv_d; cbn [after_apply c_hdrs c_data].
    destruct (Nat.eq_dec i j) as [->|Hne].
    - split; intros _; left; lia.
    - split; (intros [H|H]; [left; lia|right; rewrite lookup_remove_other by lia; exact H]).
  Qed.

  Lemma seen_ok_after c j sh d :
    Distinct -> nth_error C j = Some (sh, d) -> seen_ok c j ->
    seen_ok (after_apply c (g_initial g + N.of_nat j) sh) (S j).
  Proof.
    intros HD Hn (S1 & S2). pose proof (keeps_after c j sh) as Hk.
    destruct (chain_block _ _ _ Hn) as (Hhj & Htj & _). split.
    - intros i sh' d' Hn' Hs. destruct (Hk _ _ _ Hn') as (K1 & K2).
      unfold hseen in Hs. cbn [after_apply c_hseen existsb] in Hs. apply orb_true_iff in Hs as [Hs|Hs].
      + apply header_eqb_height in Hs. destruct (chain_block _ _ _ Hn') as (Hhi & _).
        assert (i = j) by lia. subst i. split; [left; lia|intros _; left; lia].
      + destruct (S1 _ _ _ Hn' Hs) as (A & B). split; auto.
    - intros i sh' d' Hn' Hne Hs. destruct (Hk _ _ _ Hn') as (_ & K2).
      unfold dseen in Hs. cbn [after_apply c_dseen] in Hs.
      destruct (is_empty_commitment (h_data (sh_hdr sh))).
      + apply K2. eapply S2; eauto.
      + cbn [existsb] in Hs. apply orb_true_iff in Hs as [Hs|Hs].
        * apply commitment_eqb_eq in Hs. rewrite <- Htj in Hs.
          assert (i = j) by (apply (HD i j (sh', d') (sh, d)); auto). subst. left; lia.
        * apply K2. eapply S2; eauto.
  Qed.

  (* trySyncNextBlock keeps the invariant, never fails on chain items, never runs out of fuel, stops
     only when the header or the data of the next height is missing, and loses no cached item *)
  Lemma try_sync_inv fuel : forall st j,
    core (l_disk st) (l_last st) j -> cache_ok (l_cache st) ->
    l_status st = Running ->
    (length (c_hdrs (l_cache st)) < fuel)%nat ->
    exists j', (j <= j')%nat /\
      core (l_disk (try_sync exec fuel st)) (l_last (try_sync exec fuel st)) j' /\
      cache_ok (l_cache (try_sync exec fuel st)) /\
      (forall L, l_log st = L ++ calls_after exec s0 C j ->
                 l_log (try_sync exec fuel st) = L ++ calls_after exec s0 C j') /\
      l_status (try_sync exec fuel st) = Running /\
      fixp (l_cache (try_sync exec fuel st)) (l_disk (try_sync exec fuel st)) /\
      keeps (l_cache st) j (l_cache (try_sync exec fuel st)) j' /\
      (Distinct -> seen_ok (l_cache st) j -> seen_ok (l_cache (try_sync exec fuel st)) j').
  Proof.
    induction fuel as [|f IH]; intros st j Hcore Hc Hst Hfuel; [lia|].
    cbn [try_sync].
    assert (Hstop : fixp (l_cache st) (l_disk st) ->
      exists j', (j <= j')%nat /\ core (l_disk st) (l_last st) j' /\ cache_ok (l_cache st) /\
        (forall L, l_log st = L ++ calls_after exec s0 C j -> l_log st = L ++ calls_after exec s0 C j') /\
        l_status st = Running /\ fixp (l_cache st) (l_disk st) /\ keeps (l_cache st) j (l_cache st) j' /\
        (Distinct -> seen_ok (l_cache st) j -> seen_ok (l_cache st) j')).
    { intros Hf. exists j. split; [lia|]. split; [exact Hcore|]. split; [exact Hc|]. split; [auto|].
      split; [exact Hst|]. split; [exact Hf|]. split; [apply keeps_refl|auto]. }
    destruct (lookup (c_hdrs (l_cache st)) (d_height (l_disk st) + 1)) as [sh|] eqn:L1;
      [|apply Hstop; left; exact L1].
    destruct (lookup (c_data (l_cache st)) (d_height (l_disk st) + 1)) as [d|] eqn:L2;
      [|apply Hstop; right; exact L2].
    clear Hstop.
    pose proof (next_block _ _ _ _ _ _ Hcore Hc L1 L2) as Hn.
    destruct (core_step _ _ _ _ _ Hcore Hn) as (Hval & Hcore').
    rewrite Hval.
    unfold next_of in Hcore'; cbn [fst snd] in Hcore'.
    assert (Hnext : d_height (l_disk st) + 1 = g_initial g + N.of_nat j).
    { destruct Hcore as (_ & Hh & _). cbn [n_disk] in Hh. pose proof init_pos. lia. }
    rewrite Hnext in *.
    match goal with |- context [try_sync exec f ?st'] =>
      destruct (IH st' (S j)) as (j' & Hle & R1 & R2 & R3 & R4 & R5 & R6 & R7) end.
    - exact Hcore'.
    - cbn. apply cache_ok_after; exact Hc.
    - reflexivity.
    - cbn. pose proof (remove_shrinks _ _ _ L1). lia.
    - cbn [l_cache l_log] in *.
      exists j'. split; [lia|]. split; [exact R1|]. split; [exact R2|]. split; [|split; [exact R4|split; [exact R5|split]]].
      + intros L Hlog. apply R3.
        rewrite Hlog, (calls_after_S exec _ _ _ _ Hn), app_assoc. cbn [fst snd].
        destruct Hcore as (_ & _ & _ & Hl & _). cbn in Hl. rewrite Hl. reflexivity.
      + eapply keeps_trans; [apply keeps_after|exact R6].
      + intros HD Hs. apply R7; [exact HD|]. eapply seen_ok_after; eauto.
  Qed.

  (* ---- node level ------------------------------------------------------------------------------ *)
  Definition Inv (nd : node) (j : nat) : Prop :=
    n_status nd = Running /\ core (n_disk nd) (n_last nd) j /\ cache_ok (n_cache nd) /\ cache_ok (n_files nd).

  Lemma keeps_items c j c' :
    c_hdrs c' = c_hdrs c -> c_data c' = c_data c -> keeps c j c' j.
  Proof. intros E1 E2 i sh d _. unfold hv_h, hv_d. rewrite E1, E2. split; auto. Qed.

  Lemma nth_same_height i i' sh d sh' d' :
    nth_error C i = Some (sh, d) -> nth_error C i' = Some (sh', d') ->
    h_height (sh_hdr sh) = h_height (sh_hdr sh') -> i = i' /\ sh = sh' /\ d = d'.
  Proof.
    intros H1 H2 E. destruct (chain_block _ _ _ H1) as (A & _). destruct (chain_block _ _ _ H2) as (B & _).
    assert (i = i') by lia. subst. rewrite H1 in H2. inversion H2. auto.
  Qed.

  Lemma keeps_set_hdr c j i0 sh d0 :
    nth_error C i0 = Some (sh, d0) -> keeps c j (set_hdr c (g_initial g + N.of_nat i0) sh) j.
  Proof.
    intros H0 i sh' d' Hn. unfold hv_h, hv_d; cbn [set_hdr c_hdrs c_data lookup]. split; [|auto].
    intros [H|H]; [left; exact H|right].
    destruct (N.eqb_spec (g_initial g + N.of_nat i0) (g_initial g + N.of_nat i)) as [E|E]; [|exact H].
    assert (i0 = i) by lia. subst. rewrite H0 in Hn. inversion Hn. reflexivity.
  Qed.

  Lemma keeps_set_data c j i0 sh d0 :
    nth_error C i0 = Some (sh, d0) -> keeps c j (set_data c (g_initial g + N.of_nat i0) d0) j.
  Proof.
    intros H0 i sh' d' Hn. unfold hv_h, hv_d; cbn [set_data c_hdrs c_data lookup]. split; [auto|].
    intros [H|H]; [left; exact H|right].
    destruct (N.eqb_spec (g_initial g + N.of_nat i0) (g_initial g + N.of_nat i)) as [E|E]; [|exact H].
    assert (i0 = i) by lia. subst. rewrite H0 in Hn. inversion Hn. reflexivity.
  Qed.

  Lemma cache_ok_set_hdr c i0 sh d0 :
    nth_error C i0 = Some (sh, d0) -> cache_ok c -> cache_ok (set_hdr c (g_initial g + N.of_nat i0) sh).
  Proof.
    intros H0 (H1 & H2). split; cbn; intros n x Hin; [|eauto].
    destruct Hin as [E|Hin]; [inversion E; subst; eauto|eauto].
  Qed.
  Lemma cache_ok_set_data c i0 sh d0 :
    nth_error C i0 = Some (sh, d0) -> cache_ok c -> cache_ok (set_data c (g_initial g + N.of_nat i0) d0).
  Proof.
    intros H0 (H1 & H2). split; cbn; intros n x Hin; [eauto|].
    destruct Hin as [E|Hin]; [inversion E; subst; eauto|eauto].
  Qed.

  Lemma seen_ok_add_h c j i0 sh d0 :
    nth_error C i0 = Some (sh, d0) -> hv_h c j i0 sh -> (d_txs d0 = [] -> hv_d c j i0 d0) ->
    seen_ok c j -> seen_ok (add_hseen c (sh_hdr sh)) j.
  Proof.
    intros H0 A B (S1 & S2). split.
    - intros i sh' d' Hn Hs. unfold hseen in Hs. cbn [add_hseen c_hseen existsb] in Hs.
      apply orb_true_iff in Hs as [Hs|Hs].
      + apply header_eqb_height in Hs. destruct (nth_same_height _ _ _ _ _ _ Hn H0 Hs) as (-> & -> & ->).
        split; assumption.
      + exact (S1 _ _ _ Hn Hs).
    - intros i sh' d' Hn Hne Hs. exact (S2 _ _ _ Hn Hne Hs).
  Qed.

  Lemma seen_ok_add_d c j i0 sh d0 :
    Distinct -> nth_error C i0 = Some (sh, d0) -> hv_d c j i0 d0 ->
    seen_ok c j -> seen_ok (add_dseen c (d_txs d0)) j.
  Proof.
    intros HD H0 A (S1 & S2). split.
    - intros i sh' d' Hn Hs. exact (S1 _ _ _ Hn Hs).
    - intros i sh' d' Hn Hne Hs. unfold dseen in Hs. cbn [add_dseen c_dseen existsb] in Hs.
      apply orb_true_iff in Hs as [Hs|Hs].
      + apply commitment_eqb_eq in Hs.
        assert (i = i0) by (apply (HD i i0 (sh', d') (sh, d0)); auto). subst.
        rewrite H0 in Hn. inversion Hn; subst. exact A.
      + exact (S2 _ _ _ Hn Hne Hs).
  Qed.

  Notation calls j := (calls_after exec s0 C j).

  Lemma loop_good nd j c mark :
    Inv nd j -> cache_ok c ->
    (forall c', c_hdrs (mark c') = c_hdrs c' /\ c_data (mark c') = c_data c') ->
    exists j' c', (j <= j')%nat /\ Inv (fst (finish nd (start_loop exec nd c) mark)) j' /\
      n_cache (fst (finish nd (start_loop exec nd c) mark)) = mark c' /\
      n_files (fst (finish nd (start_loop exec nd c) mark)) = n_files nd /\
      (forall L, n_log nd = L ++ calls j -> n_log (fst (finish nd (start_loop exec nd c) mark)) = L ++ calls j') /\
      fixp c' (n_disk (fst (finish nd (start_loop exec nd c) mark))) /\
      keeps c j c' j' /\ (Distinct -> seen_ok c j -> seen_ok c' j').
  Proof.
    intros (Hst & Hcore & Hc & Hf) Hc' Hmark.
    unfold start_loop.
    match goal with |- context [try_sync exec ?f ?st] =>
      destruct (try_sync_inv f st j) as (j' & Hle & Hcore' & Hcc & Hlog' & Hst' & Hfix & Hk & Hs); auto;
      set (R := try_sync exec f st) in * end.
    exists j', (l_cache R). split; [exact Hle|].
    unfold finish; cbn [fst n_status n_disk n_last n_cache n_files n_log].
    rewrite Hst'. cbn [l_cache] in *.
    split; [|split; [reflexivity|split; [reflexivity|split; [exact Hlog'|split; [exact Hfix|split; assumption]]]]].
    split; [reflexivity|]. split; [exact Hcore'|]. split; [|exact Hf].
    destruct Hcc as (H1 & H2). destruct (Hmark (l_cache R)) as (E1 & E2).
    unfold cache_ok; cbn [n_cache]. rewrite E1, E2. split; assumption.
  Qed.

  (* what one step guarantees *)
  Definition StepOK (nd : node) (j : nat) (nd' : node) (j' : nat) : Prop :=
    (j <= j')%nat /\ Inv nd' j' /\
    (forall L, n_log nd = L ++ calls j -> n_log nd' = L ++ calls j') /\
    (fixp (n_cache nd) (n_disk nd) -> fixp (n_cache nd') (n_disk nd')) /\
    keeps (n_cache nd) j (n_cache nd') j' /\
    (Distinct -> seen_ok (n_cache nd) j -> seen_ok (n_cache nd') j').

  Lemma StepOK_refl nd j : Inv nd j -> StepOK nd j nd j.
  Proof. intros HI. split; [lia|]. split; [exact HI|]. split; [auto|]. split; [auto|]. split; [apply keeps_refl|auto]. Qed.

  (* after a header (data) event of block i: block i is applied or its header (data) is cached *)
  Definition effect (e : event) (c : cache) (j : nat) : Prop :=
    match e with
    | EvHeader sh _ => forall i d, nth_error C i = Some (sh, d) -> hv_h c j i sh /\ (d_txs d = [] -> hv_d c j i d)
    | EvData d _ => forall i sh, nth_error C i = Some (sh, d) -> d_txs d <> [] -> hv_d c j i d
    end.

  Lemma effect_keeps e c j c' j' : keeps c j c' j' -> effect e c j -> effect e c' j'.
  Proof.
    intros Hk. destruct e as [sh da|d da]; cbn.
    - intros He i d Hn. destruct (He _ _ Hn) as (A & B). destruct (Hk _ _ _ Hn) as (K1 & K2). split; auto.
    - intros He i sh Hn Hne. destruct (Hk _ _ _ Hn) as (_ & K2). apply K2. exact (He _ _ Hn Hne).
  Qed.

  Lemma below_height m last j i sh d :
    core m last j -> nth_error C i = Some (sh, d) -> (h_height (sh_hdr sh) <=? d_height m) = true -> (i < j)%nat.
  Proof.
    intros (_ & Hh & _) Hn Hle. cbn [n_disk] in Hh. destruct (chain_block _ _ _ Hn) as (Hhh & _).
    apply N.leb_le in Hle. pose proof init_pos. lia.
  Qed.

  Lemma process_good nd j e :
    Inv nd j -> ev_in C e ->
    exists j', StepOK nd j (fst (process exec nd e)) j' /\
      n_files (fst (process exec nd e)) = n_files nd /\
      (Distinct -> seen_ok (n_cache nd) j -> effect e (n_cache (fst (process exec nd e))) j').
  Proof.
    intros HI Hev. pose proof HI as (Hst & Hcore & Hc & Hf).
    unfold process. rewrite Hst.
    destruct e as [sh da | d da].
    - destruct Hev as (d0 & Hin). apply In_nth_error in Hin as (i0 & H0).
      destruct (chain_block _ _ _ H0) as (Hh & Htx & Hm).
      unfold on_header.
      destruct ((h_height (sh_hdr sh) <=? d_height (n_disk nd)) || hseen (n_cache nd) (sh_hdr sh)) eqn:Hcond.
      + exists j. cbn [fst]. split; [apply StepOK_refl; exact HI|]. split; [reflexivity|].
        intros HD (S1 & _) i d Hn. apply orb_true_iff in Hcond as [Hle|Hs].
        * pose proof (below_height _ _ _ _ _ _ Hcore Hn Hle). split; [left; lia|intros _; left; lia].
        * exact (S1 _ _ _ Hn Hs).
      + rewrite Hh.
        set (c2 := if is_empty_commitment (h_data (sh_hdr sh))
                   then set_data (set_hdr (n_cache nd) (g_initial g + N.of_nat i0) sh) (g_initial g + N.of_nat i0) (empty_data (sh_hdr sh))
                   else set_hdr (n_cache nd) (g_initial g + N.of_nat i0) sh).
        assert (Hc2 : cache_ok c2 /\ keeps (n_cache nd) j c2 j /\ c_hseen c2 = c_hseen (n_cache nd) /\
                      c_dseen c2 = c_dseen (n_cache nd) /\ hv_h c2 j i0 sh /\ (d_txs d0 = [] -> hv_d c2 j i0 d0)).
        { subst c2. destruct (is_empty_commitment (h_data (sh_hdr sh))) eqn:He.
          - assert (He' : d_txs d0 = []) by (rewrite Htx; destruct (h_data (sh_hdr sh)); [reflexivity|discriminate He]).
            rewrite (empty_data_eq _ _ _ H0 He').
            split; [eapply cache_ok_set_data; eauto; eapply cache_ok_set_hdr; eauto|].
            split; [eapply keeps_trans; [eapply keeps_set_hdr; eauto|eapply keeps_set_data; eauto]|].
            split; [reflexivity|]. split; [reflexivity|].
            split; [right; cbn; rewrite N.eqb_refl; reflexivity|intros _; right; cbn; rewrite N.eqb_refl; reflexivity].
          - split; [eapply cache_ok_set_hdr; eauto|]. split; [eapply keeps_set_hdr; eauto|].
            split; [reflexivity|]. split; [reflexivity|].
            split; [right; cbn; rewrite N.eqb_refl; reflexivity|].
            intros He'. rewrite Htx in He'. rewrite He' in He. discriminate He. }
        destruct Hc2 as (Hcok & Hk2 & Es1 & Es2 & Hvh & Hvd).
        destruct (loop_good nd j c2 (fun c => add_hseen c (sh_hdr sh)) HI Hcok) as
          (j' & c' & Hle & HI' & Ecache & Efiles & Hlog & Hfix & Hk & Hs); [intros c'; split; reflexivity|].
        exists j'. unfold StepOK. rewrite Ecache.
        assert (Hvh' : hv_h c' j' i0 sh) by (destruct (Hk _ _ _ H0) as (K1 & _); auto).
        assert (Hvd' : d_txs d0 = [] -> hv_d c' j' i0 d0) by (destruct (Hk _ _ _ H0) as (_ & K2); auto).
        assert (Hka : keeps c' j' (add_hseen c' (sh_hdr sh)) j') by (apply keeps_items; reflexivity).
        split; [|split; [exact Efiles|]].
        * split; [exact Hle|]. split; [exact HI'|]. split; [exact Hlog|]. split; [intros _; exact Hfix|].
          split; [eapply keeps_trans; [exact Hk2|eapply keeps_trans; [exact Hk|exact Hka]]|].
          intros HD Hs0. eapply seen_ok_add_h; eauto. apply Hs; [exact HD|].
          eapply seen_ok_keeps; eauto.
        * intros _ _ i d Hn.
          destruct (nth_same_height _ _ _ _ _ _ Hn H0 eq_refl) as (-> & _ & ->).
          destruct (Hka _ _ _ H0) as (K1 & K2). split; auto.
    - destruct Hev as (sh0 & Hin). apply In_nth_error in Hin as (i0 & H0).
      destruct (chain_block _ _ _ H0) as (Hh & Htx & Hm).
      assert (Huniq : forall i sh, nth_error C i = Some (sh, d) -> d_txs d <> [] -> Distinct -> i = i0 /\ sh = sh0).
      { intros i sh Hn Hne HD. assert (i = i0) by (apply (HD i i0 (sh, d) (sh0, d)); auto).
        split; [assumption|]. subst i.
        assert (E : Some (sh, d) = Some (sh0, d)) by (rewrite <- Hn; exact H0). inversion E. reflexivity. }
      unfold on_data. rewrite Hm.
      destruct (d_txs d) as [|t0 tl] eqn:Ht in |- *.
      { exists j. cbn [fst]. split; [apply StepOK_refl; exact HI|]. split; [reflexivity|].
        intros _ _ i sh Hn Hne. exfalso; apply Hne; exact Ht. }
      rewrite <- Ht. assert (Hne0 : d_txs d <> []) by (rewrite Ht; discriminate).
      destruct (dseen (n_cache nd) (d_txs d)) eqn:Hds.
      { exists j. cbn [fst]. split; [apply StepOK_refl; exact HI|]. split; [reflexivity|].
        intros HD (_ & S2) i sh Hn Hne. exact (S2 _ _ _ Hn Hne Hds). }
      cbn [m_height].
      destruct (h_height (sh_hdr sh0) <=? d_height (n_disk nd)) eqn:Hle0.
      { exists j. cbn [fst]. split; [apply StepOK_refl; exact HI|]. split; [reflexivity|].
        intros HD _ i sh Hn Hne. destruct (Huniq _ _ Hn Hne HD) as (-> & ->).
        left. eapply below_height; eauto. }
      rewrite Hh.
      set (c2 := set_data (n_cache nd) (g_initial g + N.of_nat i0) d).
      destruct (loop_good nd j c2 (fun c => add_dseen c (d_txs d)) HI) as
        (j' & c' & Hle & HI' & Ecache & Efiles & Hlog & Hfix & Hk & Hs);
        [eapply cache_ok_set_data; eauto|intros c'; split; reflexivity|].
      exists j'. unfold StepOK. rewrite Ecache.
      assert (Hvd : hv_d c2 j i0 d) by (right; cbn; rewrite N.eqb_refl; reflexivity).
      assert (Hvd' : hv_d c' j' i0 d) by (destruct (Hk _ _ _ H0) as (_ & K2); auto).
      assert (Hka : keeps c' j' (add_dseen c' (d_txs d)) j') by (apply keeps_items; reflexivity).
      assert (Hk2 : keeps (n_cache nd) j c2 j) by (eapply keeps_set_data; eauto).
      split; [|split; [exact Efiles|]].
      * split; [exact Hle|]. split; [exact HI'|]. split; [exact Hlog|]. split; [intros _; exact Hfix|].
        split; [eapply keeps_trans; [exact Hk2|eapply keeps_trans; [exact Hk|exact Hka]]|].
        intros HD Hs0. eapply seen_ok_add_d; eauto. apply Hs; [exact HD|].
        apply (seen_ok_keeps (n_cache nd) j c2 j); [reflexivity|reflexivity|exact Hk2|exact Hs0].
      * intros HD _ i sh Hn Hne. destruct (Huniq _ _ Hn Hne HD) as (-> & ->).
        destruct (Hka _ _ _ H0) as (_ & K2). auto.
  Qed.
End Safety.
