(* Proofs/SyncerProofs.v — lemmas about Model/Syncer.v (C02, C05).  The invariants are proved once, for the
   general node (any signature payload provider, read faults: try_sync_f, process_f, boot_p, fstep); the
   theorems about the node with the default provider and no fault (safety, monotone, recovery, progress,
   complete_partial — used by C05, the composition theorems and the P2P ingress proofs) are corollaries
   through frun_lift. *)
From Coq Require Import String Ascii NArith ZArith List Bool Lia ZifyBool ZifyN ZifyNat.
From Verif Require Import Base.KV Base.Keys Model.Types Model.Syncer.
Import ListNotations.
Open Scope list_scope.
Open Scope N_scope.

(* ---- keys ------------------------------------------------------------------------------------- *)
Lemma block_key_state n : String.eqb (block_key n) state_key = false.
Proof. reflexivity. Qed.
Lemma block_key_height n : String.eqb (block_key n) height_key = false.
Proof. reflexivity. Qed.
Lemma state_key_block n : String.eqb state_key (block_key n) = false.
Proof. reflexivity. Qed.
Lemma height_key_block n : String.eqb height_key (block_key n) = false.
Proof. reflexivity. Qed.
Lemma block_key_eqb a b : String.eqb (block_key a) (block_key b) = (a =? b).
Proof.
  destruct (N.eqb_spec a b) as [->|Hne].
  - apply String.eqb_refl.
  - apply String.eqb_neq. intros H. apply Hne. unfold block_key in H.
    apply append_inj_r in H. apply dec_inj in H. exact H.
Qed.

(* ---- reads after the writes of one application ----------------------------------------------- *)
Lemma height_after_block m new sh d :
  d_height (apply_writes m (block_writes m new sh d)) =
  if h_height (sh_hdr sh) <=? d_height m then d_height m else h_height (sh_hdr sh).
Proof.
  unfold block_writes. destruct (h_height (sh_hdr sh) <=? d_height m); reflexivity.
Qed.

Lemma state_after_block m new sh d :
  d_state (apply_writes m (block_writes m new sh d)) = Some new.
Proof.
  unfold block_writes. destruct (h_height (sh_hdr sh) <=? d_height m); reflexivity.
Qed.

Lemma block_after_block m new sh d k :
  d_block (apply_writes m (block_writes m new sh d)) k =
  if k =? h_height (sh_hdr sh) then Some (sh, d) else d_block m k.
Proof.
  unfold block_writes, d_block.
  destruct (h_height (sh_hdr sh) <=? d_height m);
    cbn [apply_writes fold_left apply_write apply_prim app kv_put kv_get];
    rewrite ?block_key_height, ?block_key_state, ?block_key_eqb;
    destruct (k =? h_height (sh_hdr sh)); reflexivity.
Qed.

(* ---- lists ------------------------------------------------------------------------------------- *)
Lemma lookup_in {A} (l : list (N * A)) n v : lookup l n = Some v -> In (n, v) l.
Proof.
  induction l as [|[k x] r IH]; cbn; [discriminate|].
  destruct (N.eqb_spec k n) as [->|]; intros H.
  - inversion H; subst; left; reflexivity.
  - right; auto.
Qed.

Lemma remove_in {A} (l : list (N * A)) n e : In e (remove l n) -> In e l.
Proof. unfold remove; intros H; apply filter_In in H; tauto. Qed.

Lemma remove_length {A} (l : list (N * A)) n : (length (remove l n) <= length l)%nat.
Proof. unfold remove. induction l as [|e r IH]; cbn; [lia|]. destruct (negb (fst e =? n)); cbn; lia. Qed.

Lemma remove_shrinks {A} (l : list (N * A)) n v : lookup l n = Some v -> (length (remove l n) < length l)%nat.
Proof.
  induction l as [|[k x] r IH]; cbn; [discriminate|].
  destruct (N.eqb_spec k n) as [->|Hne]; intros H; cbn.
  - pose proof (remove_length r n). unfold remove in *. lia.
  - apply IH in H. unfold remove in *. cbn. lia.
Qed.

Lemma commitment_eqb_eq a b : commitment_eqb a b = true -> a = b.
Proof.
  revert b; induction a as [|x a IH]; intros [|y b]; cbn; intros H; try reflexivity; try discriminate.
  apply andb_true_iff in H as [H1 H2]. apply N.eqb_eq in H1. subst. f_equal. apply IH. exact H2.
Qed.
Lemma commitment_eqb_refl a : commitment_eqb a a = true.
Proof. induction a as [|x a IH]; cbn; [reflexivity|]. rewrite N.eqb_refl. exact IH. Qed.

Lemma addr_eqb_Addr a k : addr_eqb a (Addr k) = true -> a = Addr k.
Proof. destruct a; cbn; intros H; try discriminate. apply N.eqb_eq in H; subst; reflexivity. Qed.

Lemma validate_p_default s sh d : validate_p 0 s sh d = validate s sh d.
Proof. reflexivity. Qed.

Section P.
  Variable exec : root -> N -> Z -> list tx -> root.
  Variable prov : N.
  Variable g : config.
  Variable k : key.

  (* a state that stands just below height n with last time t and root r *)
  Definition st_ok (s : cstate) (n : N) (t : Z) (r : root) : Prop :=
    s_chain s = g_chain g /\ s_height s + 1 = n /\ s_time s = t /\ s_app s = r.

  Lemma block_ok_validate prev n t r s sh d :
    block_okb_p prov g k prev n t r (sh, d) = true -> st_ok s n t r ->
    validate_p prov s sh d = true /\ h_height (sh_hdr sh) = n /\
    d_txs d = h_data (sh_hdr sh) /\
    d_meta d = Some {| m_chain := h_chain (sh_hdr sh); m_height := h_height (sh_hdr sh); m_time := h_time (sh_hdr sh) |}.
  Proof.
    unfold block_okb_p, st_ok. intros H (Hc & Hh & Ht & Ha).
    repeat (apply andb_true_iff in H as [H ?]).
    destruct (d_meta d) as [m|] eqn:Hm; [|discriminate].
    destruct (sg_pub (sh_signer sh)) as [[k']|] eqn:Hp; [|discriminate].
    match goal with X : addr_eqb (h_proposer _) _ = true |- _ => apply addr_eqb_Addr in X; rename X into Hprop end.
    match goal with X : addr_eqb (sg_addr _) _ = true |- _ => apply addr_eqb_Addr in X; rename X into Hsa end.
    match goal with X : commitment_eqb _ _ = true |- _ => pose proof (commitment_eqb_eq _ _ X) as Hcm end.
    match goal with X : verify_header _ _ _ = true |- _ => rename X into Hv end.
    repeat match goal with X : (_ && _) = true |- _ => apply andb_true_iff in X as [X ?] end.
    repeat match goal with X : (_ =? _) = true |- _ => apply N.eqb_eq in X end.
    repeat match goal with X : (_ =? _)%Z = true |- _ => apply Z.eqb_eq in X end.
    match goal with X : (t <=? _)%Z = true |- _ => apply Z.leb_le in X; rename X into Htime end.
    subst k'.
    split; [|split; [assumption|split; [assumption|]]].
    - unfold validate_p, validate_basic_p, validate_pair.
      rewrite Hprop, Hsa, Hp, Hm, Hv. cbn [addr_eqb negb key_address].
      rewrite !N.eqb_refl.
      destruct (sh_sig sh); try discriminate Hv.
      rewrite Hcm, commitment_eqb_refl.
      replace (h_chain (sh_hdr sh) =? m_chain m) with true by (symmetry; apply N.eqb_eq; congruence).
      replace (h_height (sh_hdr sh) =? m_height m) with true by (symmetry; apply N.eqb_eq; congruence).
      replace (h_time (sh_hdr sh) =? m_time m)%Z with true by (symmetry; apply Z.eqb_eq; congruence).
      replace (h_chain (sh_hdr sh) =? s_chain s) with true by (symmetry; apply N.eqb_eq; congruence).
      replace (h_height (sh_hdr sh) =? s_height s + 1) with true by (symmetry; apply N.eqb_eq; congruence).
      replace (h_app (sh_hdr sh) =? s_app s) with true by (symmetry; apply N.eqb_eq; congruence).
      replace (h_time (sh_hdr sh) <? s_time s)%Z with false by (symmetry; apply Z.ltb_ge; lia).
      rewrite andb_false_r. reflexivity.
    - destruct m as [mc mh mt]; cbn in *. f_equal. f_equal; congruence.
  Qed.

  Definition next_of (s : cstate) (b : block) : cstate :=
    next_state s (sh_hdr (fst b)) (exec (s_app s) (h_height (sh_hdr (fst b))) (h_time (sh_hdr (fst b))) (d_txs (snd b))).

  Lemma state_after_S s C j b :
    nth_error C j = Some b -> state_after exec s C (S j) = next_of (state_after exec s C j) b.
  Proof.
    revert s j; induction C as [|[sh d] C IH]; intros s [|j] H; cbn in H; try discriminate.
    - inversion H; subst. cbn. destruct C; reflexivity.
    - cbn [state_after]. rewrite <- IH by exact H. reflexivity.
  Qed.

  Lemma calls_after_S s C j b :
    nth_error C j = Some b ->
    calls_after exec s C (S j) =
    calls_after exec s C j ++
      [{| x_height := h_height (sh_hdr (fst b)); x_time := h_time (sh_hdr (fst b));
          x_prev := s_app (state_after exec s C j); x_txs := d_txs (snd b) |}].
  Proof.
    revert s j; induction C as [|[sh d] C IH]; intros s [|j] H; cbn in H; try discriminate.
    - inversion H; subst. cbn. destruct C; reflexivity.
    - cbn [calls_after state_after]. rewrite (IH _ _ H). reflexivity.
  Qed.

  (* the j-th block of a valid chain validates against the state after the first j blocks *)
  Lemma chain_nth prev n t r s C j b :
    chain_fromb_p exec prov g k prev n t r C = true -> st_ok s n t r -> nth_error C j = Some b ->
    exists prev' t' r',
      block_okb_p prov g k prev' (n + N.of_nat j) t' r' b = true /\ st_ok (state_after exec s C j) (n + N.of_nat j) t' r'.
  Proof.
    revert prev n t r s j; induction C as [|[sh d] C IH]; intros prev n t r s [|j] Hc Hs Hn; cbn in Hn; try discriminate.
    - inversion Hn; subst. cbn [chain_fromb_p] in Hc. apply andb_true_iff in Hc as [Hb _].
      exists prev, t, r. replace (n + N.of_nat 0) with n by lia. split; [exact Hb|exact Hs].
    - cbn [chain_fromb_p] in Hc. apply andb_true_iff in Hc as [Hb Hc]. cbn [fst snd] in Hc.
      destruct (block_ok_validate _ _ _ _ _ _ _ Hb Hs) as (_ & Hh & _ & _).
      cbn [state_after].
      specialize (IH _ _ _ _ (next_state s (sh_hdr sh) (exec (s_app s) (h_height (sh_hdr sh)) (h_time (sh_hdr sh)) (d_txs d))) j Hc).
      destruct IH as (p' & t' & r' & Hb' & Hs').
      + destruct Hs as (Hc1 & Hh1 & Ht1 & Ha1). unfold st_ok, next_state; cbn.
        repeat split; try assumption; try lia. rewrite Ha1, Hh. reflexivity.
      + exact Hn.
      + exists p', t', r'. replace (n + N.of_nat (S j)) with (n + 1 + N.of_nat j) by lia. split; assumption.
  Qed.
End P.

Lemma lookup_remove_other {A} (l : list (N * A)) n k : k <> n -> lookup (remove l n) k = lookup l k.
Proof.
  intros Hne. induction l as [|[a x] r IH]; cbn; [reflexivity|].
  destruct (N.eqb_spec a n) as [->|Han]; cbn.
  - destruct (N.eqb_spec n k); [congruence|exact IH].
  - destruct (a =? k); [reflexivity|exact IH].
Qed.

Lemma header_eqb_height a b : header_eqb a b = true -> h_height a = h_height b.
Proof.
  destruct a, b; cbn. intros H. repeat (apply andb_true_iff in H as [H _]). apply N.eqb_eq. exact H.
Qed.

(* ---- the invariants ------------------------------------------------------------------------------ *)
Section Safety.
  Variable exec : root -> N -> Z -> list tx -> root.
  Variable prov : N.
  Variable g : config.
  Variable k : key.
  Variable C : list block.
  Hypothesis HV : ChainValidP exec prov g k C.

  Notation s0 := (genesis_state g).

  Lemma init_pos : 1 <= g_initial g.
  Proof. destruct HV as (H & _); exact H. Qed.

  Lemma s0_ok : st_ok g s0 (g_initial g) (g_time g) (g_initroot g).
  Proof. pose proof init_pos. unfold st_ok, genesis_state; cbn. repeat split; lia. Qed.

  Lemma chain_at j b :
    nth_error C j = Some b ->
    exists prev t r, block_okb_p prov g k prev (g_initial g + N.of_nat j) t r b = true /\
                     st_ok g (state_after exec s0 C j) (g_initial g + N.of_nat j) t r.
  Proof. destruct HV as (_ & _ & Hc). intros H. exact (chain_nth exec prov g k _ _ _ _ _ _ _ _ Hc s0_ok H). Qed.

  Lemma chain_block i sh d :
    nth_error C i = Some (sh, d) ->
    h_height (sh_hdr sh) = g_initial g + N.of_nat i /\ d_txs d = h_data (sh_hdr sh) /\
    d_meta d = Some {| m_chain := h_chain (sh_hdr sh); m_height := h_height (sh_hdr sh); m_time := h_time (sh_hdr sh) |}.
  Proof.
    intros Hn. destruct (chain_at _ _ Hn) as (prev & t & r & Hok & Hst).
    destruct (block_ok_validate exec prov g k _ _ _ _ _ _ _ Hok Hst) as (_ & H1 & H2 & H3). auto.
  Qed.

  Lemma empty_data_eq i sh d :
    nth_error C i = Some (sh, d) -> d_txs d = [] -> empty_data (sh_hdr sh) = d.
  Proof.
    intros Hn He. destruct (chain_block _ _ _ Hn) as (_ & _ & Hm).
    destruct d as [dm dt]; cbn in *. subst. reflexivity.
  Qed.

  Definition core (m : img) (last : cstate) (j : nat) : Prop :=
    synced_to exec g C {| n_disk := m; n_last := last; n_cache := empty_cache; n_files := empty_cache;
                          n_status := Running; n_log := [] |} j.

  Lemma synced_core nd j : synced_to exec g C nd j <-> core (n_disk nd) (n_last nd) j.
  Proof. unfold core, synced_to; cbn. tauto. Qed.

  Lemma core_unique m s j s' j' : core m s j -> core m s' j' -> j = j'.
  Proof.
    intros (_ & H1 & _) (_ & H2 & _). cbn [n_disk] in *. pose proof init_pos. lia.
  Qed.

  Definition cache_ok (c : cache) : Prop :=
    (forall n sh, In (n, sh) (c_hdrs c) -> exists i d, nth_error C i = Some (sh, d) /\ n = g_initial g + N.of_nat i) /\
    (forall n d, In (n, d) (c_data c) -> exists i sh, nth_error C i = Some (sh, d) /\ n = g_initial g + N.of_nat i).

  Lemma cache_ok_empty : cache_ok empty_cache.
  Proof. split; intros ? ? [].  Qed.

  (* block i is applied, or its header / data sits in the cache at its height *)
  Definition hv_h (c : cache) (j i : nat) (sh : sheader) : Prop :=
    (i < j)%nat \/ lookup (c_hdrs c) (g_initial g + N.of_nat i) = Some sh.
  Definition hv_d (c : cache) (j i : nat) (d : data) : Prop :=
    (i < j)%nat \/ lookup (c_data c) (g_initial g + N.of_nat i) = Some d.

  Definition keeps (c : cache) (j : nat) (c' : cache) (j' : nat) : Prop :=
    forall i sh d, nth_error C i = Some (sh, d) ->
      (hv_h c j i sh -> hv_h c' j' i sh) /\ (hv_d c j i d -> hv_d c' j' i d).

  (* a hash marked as seen belongs to a block that is applied or cached *)
  Definition seen_ok (c : cache) (j : nat) : Prop :=
    (forall i sh d, nth_error C i = Some (sh, d) -> hseen c (sh_hdr sh) = true ->
        hv_h c j i sh /\ (d_txs d = [] -> hv_d c j i d)) /\
    (forall i sh d, nth_error C i = Some (sh, d) -> d_txs d <> [] -> dseen c (d_txs d) = true -> hv_d c j i d).

  (* trySyncNextBlock has nothing to do *)
  Definition fixp (c : cache) (m : img) : Prop :=
    lookup (c_hdrs c) (d_height m + 1) = None \/ lookup (c_data c) (d_height m + 1) = None.

  (* the guard of the completeness theorems: non-empty transaction lists are pairwise distinct *)
  Definition Distinct : Prop :=
    forall i i' b b', nth_error C i = Some b -> nth_error C i' = Some b' ->
      d_txs (snd b) = d_txs (snd b') -> d_txs (snd b) <> [] -> i = i'.

  Lemma keeps_refl c j : keeps c j c j.
  Proof. intros i sh d _. split; auto. Qed.
  Lemma keeps_trans c1 j1 c2 j2 c3 j3 : keeps c1 j1 c2 j2 -> keeps c2 j2 c3 j3 -> keeps c1 j1 c3 j3.
  Proof. intros H1 H2 i sh d Hn. destruct (H1 _ _ _ Hn), (H2 _ _ _ Hn). split; auto. Qed.
  Lemma keeps_mono c j j' : (j <= j')%nat -> keeps c j c j'.
  Proof. intros Hle i sh d _. unfold hv_h, hv_d. split; intros [H|H]; auto; left; lia. Qed.

  (* same seen sets: seen_ok follows the items *)
  Lemma seen_ok_keeps c j c' j' :
    c_hseen c' = c_hseen c -> c_dseen c' = c_dseen c -> keeps c j c' j' -> seen_ok c j -> seen_ok c' j'.
  Proof.
    intros E1 E2 Hk (S1 & S2). unfold seen_ok, hseen, dseen in *. rewrite E1, E2. split.
    - intros i sh d Hn Hs. destruct (S1 _ _ _ Hn Hs) as (A & B). destruct (Hk _ _ _ Hn) as (K1 & K2).
      split; auto.
    - intros i sh d Hn Hne Hs. destruct (Hk _ _ _ Hn) as (_ & K2). apply K2. eapply S2; eauto.
  Qed.
  Lemma seen_ok_mono c j j' : (j <= j')%nat -> seen_ok c j -> seen_ok c j'.
  Proof. intros Hle. apply seen_ok_keeps; auto. apply keeps_mono; exact Hle. Qed.

  (* what the cache holds at the next height is the next block of the chain *)
  Lemma next_block m last j c sh d :
    core m last j -> cache_ok c ->
    lookup (c_hdrs c) (d_height m + 1) = Some sh -> lookup (c_data c) (d_height m + 1) = Some d ->
    nth_error C j = Some (sh, d).
  Proof.
    intros (Hj & Hh & _) (Hc1 & Hc2) L1 L2. cbn in Hh. pose proof init_pos as Hi.
    apply lookup_in in L1. apply lookup_in in L2.
    destruct (Hc1 _ _ L1) as (i & d0 & N1 & E1). destruct (Hc2 _ _ L2) as (i' & sh' & N2 & E2).
    assert (i = j) by lia. assert (i' = j) by lia. subst i i'.
    rewrite N1 in N2. inversion N2; subst. exact N1.
  Qed.

  Lemma core_step m last j sh d :
    core m last j -> nth_error C j = Some (sh, d) ->
    validate_p prov last sh d = true /\
    core (apply_writes m (block_writes m (next_of exec last (sh, d)) sh d)) (next_of exec last (sh, d)) (S j).
  Proof.
    intros (Hj & Hh & Hb & Hl & Hs & Hs0) Hn. cbn [n_disk n_last] in *. pose proof init_pos as Hi.
    destruct (chain_at _ _ Hn) as (prev & t & r & Hok & Hst).
    rewrite <- Hl in Hst.
    destruct (block_ok_validate exec prov g k _ _ _ _ _ _ _ Hok Hst) as (Hval & Hhh & _ & _).
    split; [exact Hval|].
    assert (Hlt : (j < length C)%nat) by (apply nth_error_Some; congruence).
    unfold core, synced_to; cbn [n_disk n_last].
    repeat split.
    - lia.
    - rewrite height_after_block. rewrite Hhh, Hh.
      destruct (N.leb_spec (g_initial g + N.of_nat j) (g_initial g + N.of_nat j - 1)); lia.
    - intros i Hi'. rewrite block_after_block, Hhh.
      destruct (N.eqb_spec (g_initial g + N.of_nat i) (g_initial g + N.of_nat j)) as [E|E].
      + assert (i = j) by lia. subst. symmetry; exact Hn.
      + apply Hb. lia.
    - rewrite Hl. symmetry. apply (state_after_S exec). exact Hn.
    - intros _. apply state_after_block.
    - intros E; discriminate E.
  Qed.

  Lemma cache_ok_after c n sh : cache_ok c -> cache_ok (after_apply c n sh).
  Proof.
    intros (H1 & H2). split; cbn; intros ? ? Hin; apply remove_in in Hin; auto.
  Qed.

  (* one application: items at other heights stay, the seen marks it adds belong to the applied block *)
  Lemma keeps_after c j sh : keeps c j (after_apply c (g_initial g + N.of_nat j) sh) (S j).
  Proof.
    intros i sh' d' Hn. unfold hv_h, hv_d; cbn [after_apply c_hdrs c_data].
    destruct (Nat.eq_dec i j) as [->|Hne].
    - split; intros _; left; lia.
    - split; (intros [H|H]; [left; lia|right; rewrite lookup_remove_other by lia; exact H]).
  Qed.

  Lemma seen_ok_after c j sh d :
    Distinct -> nth_error C j = Some (sh, d) -> seen_ok c j ->
    seen_ok (after_apply c (g_initial g + N.of_nat j) sh) (S j).
  Proof.
    intros HD Hn (S1 & S2). pose proof (keeps_after c j sh) as Hk.
    destruct (chain_block _ _ _ Hn) as (Hhj & Htj & _). split.
    - intros i sh' d' Hn' Hs. destruct (Hk _ _ _ Hn') as (K1 & K2).
      unfold hseen in Hs. cbn [after_apply c_hseen existsb] in Hs. apply orb_true_iff in Hs as [Hs|Hs].
      + apply header_eqb_height in Hs. destruct (chain_block _ _ _ Hn') as (Hhi & _).
        assert (i = j) by lia. subst i. split; [left; lia|intros _; left; lia].
      + destruct (S1 _ _ _ Hn' Hs) as (A & B). split; auto.
    - intros i sh' d' Hn' Hne Hs. destruct (Hk _ _ _ Hn') as (_ & K2).
      unfold dseen in Hs. cbn [after_apply c_dseen] in Hs.
      destruct (is_empty_commitment (h_data (sh_hdr sh))).
      + apply K2. eapply S2; eauto.
      + cbn [existsb] in Hs. apply orb_true_iff in Hs as [Hs|Hs].
        * apply commitment_eqb_eq in Hs. rewrite <- Htj in Hs.
          assert (i = j) by (apply (HD i j (sh', d') (sh, d)); auto). subst. left; lia.
        * apply K2. eapply S2; eauto.
  Qed.

  (* trySyncNextBlock keeps the invariant, never fails validation on chain items, never runs out of fuel,
     returns an error only at a failed height read, stops otherwise only when the header or the data of the
     next height is missing, and loses no cached item *)
  Lemma try_sync_inv fuel : forall st j flt,
    core (l_disk st) (l_last st) j -> cache_ok (l_cache st) ->
    l_status st = Running ->
    (length (c_hdrs (l_cache st)) < fuel)%nat ->
    exists j', (j <= j')%nat /\
      core (l_disk (try_sync_f exec prov fuel flt st)) (l_last (try_sync_f exec prov fuel flt st)) j' /\
      cache_ok (l_cache (try_sync_f exec prov fuel flt st)) /\
      (forall L, l_log st = L ++ calls_after exec s0 C j ->
                 l_log (try_sync_f exec prov fuel flt st) = L ++ calls_after exec s0 C j') /\
      (l_status (try_sync_f exec prov fuel flt st) = Running \/
       (l_status (try_sync_f exec prov fuel flt st) = Halted /\ flt <> None)) /\
      (l_status (try_sync_f exec prov fuel flt st) = Running ->
       fixp (l_cache (try_sync_f exec prov fuel flt st)) (l_disk (try_sync_f exec prov fuel flt st))) /\
      keeps (l_cache st) j (l_cache (try_sync_f exec prov fuel flt st)) j' /\
      (Distinct -> seen_ok (l_cache st) j -> seen_ok (l_cache (try_sync_f exec prov fuel flt st)) j').
  Proof.
    induction fuel as [|f IH]; intros st j flt Hcore Hc Hst Hfuel; [lia|].
    cbn [try_sync_f].
    destruct (fault_now flt) eqn:Hfn.
    { (* the height read of this iteration fails *)
      exists j. cbn [set_status l_disk l_last l_cache l_log l_status].
      split; [lia|]. split; [exact Hcore|]. split; [exact Hc|]. split; [auto|].
      split; [right; split; [reflexivity|destruct flt; discriminate]|].
      split; [intros E; discriminate E|]. split; [apply keeps_refl|auto]. }
    assert (Hstop : fixp (l_cache st) (l_disk st) ->
      exists j', (j <= j')%nat /\ core (l_disk st) (l_last st) j' /\ cache_ok (l_cache st) /\
        (forall L, l_log st = L ++ calls_after exec s0 C j -> l_log st = L ++ calls_after exec s0 C j') /\
        (l_status st = Running \/ (l_status st = Halted /\ flt <> None)) /\
        (l_status st = Running -> fixp (l_cache st) (l_disk st)) /\ keeps (l_cache st) j (l_cache st) j' /\
        (Distinct -> seen_ok (l_cache st) j -> seen_ok (l_cache st) j')).
    { intros Hf. exists j. split; [lia|]. split; [exact Hcore|]. split; [exact Hc|]. split; [auto|].
      split; [left; exact Hst|]. split; [intros _; exact Hf|]. split; [apply keeps_refl|auto]. }
    destruct (lookup (c_hdrs (l_cache st)) (d_height (l_disk st) + 1)) as [sh|] eqn:L1;
      [|apply Hstop; left; exact L1].
    destruct (lookup (c_data (l_cache st)) (d_height (l_disk st) + 1)) as [d|] eqn:L2;
      [|apply Hstop; right; exact L2].
    clear Hstop.
    pose proof (next_block _ _ _ _ _ _ Hcore Hc L1 L2) as Hn.
    destruct (core_step _ _ _ _ _ Hcore Hn) as (Hval & Hcore').
    rewrite Hval.
    unfold next_of in Hcore'; cbn [fst snd] in Hcore'.
    assert (Hnext : d_height (l_disk st) + 1 = g_initial g + N.of_nat j).
    { destruct Hcore as (_ & Hh & _). cbn [n_disk] in Hh. pose proof init_pos. lia. }
    rewrite Hnext in *.
    match goal with |- context [try_sync_f exec prov f (tick flt) ?st'] =>
      destruct (IH st' (S j) (tick flt)) as (j' & Hle & R1 & R2 & R3 & R4 & R5 & R6 & R7) end.
    - exact Hcore'.
    - cbn. apply cache_ok_after; exact Hc.
    - reflexivity.
    - cbn. pose proof (remove_shrinks _ _ _ L1). lia.
    - cbn [l_cache l_log] in *.
      exists j'. split; [lia|]. split; [exact R1|]. split; [exact R2|].
      split; [|split; [|split; [exact R5|split]]].
      + intros L Hlog. apply R3.
        rewrite Hlog, (calls_after_S exec _ _ _ _ Hn), app_assoc. cbn [fst snd].
        destruct Hcore as (_ & _ & _ & Hl & _). cbn in Hl. rewrite Hl. reflexivity.
      + destruct R4 as [R4|(R4 & Hne)]; [left; exact R4|right; split; [exact R4|]].
        intros E; subst flt; apply Hne; reflexivity.
      + eapply keeps_trans; [apply keeps_after|exact R6].
      + intros HD Hs. apply R7; [exact HD|]. eapply seen_ok_after; eauto.
  Qed.

  (* ---- node level ------------------------------------------------------------------------------ *)
  (* SyncLoop is running, or it returned after a failed height read inside trySyncNextBlock *)
  Definition alive (s : status) : Prop := s = Running \/ s = Halted.
  Definition Inv (nd : node) (j : nat) : Prop :=
    alive (n_status nd) /\ core (n_disk nd) (n_last nd) j /\ cache_ok (n_cache nd) /\ cache_ok (n_files nd).

  Lemma keeps_items c j c' :
    c_hdrs c' = c_hdrs c -> c_data c' = c_data c -> keeps c j c' j.
  Proof. intros E1 E2 i sh d _. unfold hv_h, hv_d. rewrite E1, E2. split; auto. Qed.

  Lemma nth_same_height i i' sh d sh' d' :
    nth_error C i = Some (sh, d) -> nth_error C i' = Some (sh', d') ->
    h_height (sh_hdr sh) = h_height (sh_hdr sh') -> i = i' /\ sh = sh' /\ d = d'.
  Proof.
    intros H1 H2 E. destruct (chain_block _ _ _ H1) as (A & _). destruct (chain_block _ _ _ H2) as (B & _).
    assert (i = i') by lia. subst. rewrite H1 in H2. inversion H2. auto.
  Qed.

  Lemma keeps_set_hdr c j i0 sh d0 :
    nth_error C i0 = Some (sh, d0) -> keeps c j (set_hdr c (g_initial g + N.of_nat i0) sh) j.
  Proof.
    intros H0 i sh' d' Hn. unfold hv_h, hv_d; cbn [set_hdr c_hdrs c_data lookup]. split; [|auto].
    intros [H|H]; [left; exact H|right].
    destruct (N.eqb_spec (g_initial g + N.of_nat i0) (g_initial g + N.of_nat i)) as [E|E]; [|exact H].
    assert (i0 = i) by lia. subst. rewrite H0 in Hn. inversion Hn. reflexivity.
  Qed.

  Lemma keeps_set_data c j i0 sh d0 :
    nth_error C i0 = Some (sh, d0) -> keeps c j (set_data c (g_initial g + N.of_nat i0) d0) j.
  Proof.
    intros H0 i sh' d' Hn. unfold hv_h, hv_d; cbn [set_data c_hdrs c_data lookup]. split; [auto|].
    intros [H|H]; [left; exact H|right].
    destruct (N.eqb_spec (g_initial g + N.of_nat i0) (g_initial g + N.of_nat i)) as [E|E]; [|exact H].
    assert (i0 = i) by lia. subst. rewrite H0 in Hn. inversion Hn. reflexivity.
  Qed.

  Lemma cache_ok_set_hdr c i0 sh d0 :
    nth_error C i0 = Some (sh, d0) -> cache_ok c -> cache_ok (set_hdr c (g_initial g + N.of_nat i0) sh).
  Proof.
    intros H0 (H1 & H2). split; cbn; intros n x Hin; [|eauto].
    destruct Hin as [E|Hin]; [inversion E; subst; eauto|eauto].
  Qed.
  Lemma cache_ok_set_data c i0 sh d0 :
    nth_error C i0 = Some (sh, d0) -> cache_ok c -> cache_ok (set_data c (g_initial g + N.of_nat i0) d0).
  Proof.
    intros H0 (H1 & H2). split; cbn; intros n x Hin; [eauto|].
    destruct Hin as [E|Hin]; [inversion E; subst; eauto|eauto].
  Qed.

  Lemma seen_ok_add_h c j i0 sh d0 :
    nth_error C i0 = Some (sh, d0) -> hv_h c j i0 sh -> (d_txs d0 = [] -> hv_d c j i0 d0) ->
    seen_ok c j -> seen_ok (add_hseen c (sh_hdr sh)) j.
  Proof.
    intros H0 A B (S1 & S2). split.
    - intros i sh' d' Hn Hs. unfold hseen in Hs. cbn [add_hseen c_hseen existsb] in Hs.
      apply orb_true_iff in Hs as [Hs|Hs].
      + apply header_eqb_height in Hs. destruct (nth_same_height _ _ _ _ _ _ Hn H0 Hs) as (-> & -> & ->).
        split; assumption.
      + exact (S1 _ _ _ Hn Hs).
    - intros i sh' d' Hn Hne Hs. exact (S2 _ _ _ Hn Hne Hs).
  Qed.

  Lemma seen_ok_add_d c j i0 sh d0 :
    Distinct -> nth_error C i0 = Some (sh, d0) -> hv_d c j i0 d0 ->
    seen_ok c j -> seen_ok (add_dseen c (d_txs d0)) j.
  Proof.
    intros HD H0 A (S1 & S2). split.
    - intros i sh' d' Hn Hs. exact (S1 _ _ _ Hn Hs).
    - intros i sh' d' Hn Hne Hs. unfold dseen in Hs. cbn [add_dseen c_dseen existsb] in Hs.
      apply orb_true_iff in Hs as [Hs|Hs].
      + apply commitment_eqb_eq in Hs.
        assert (i = i0) by (apply (HD i i0 (sh', d') (sh, d0)); auto). subst.
        rewrite H0 in Hn. inversion Hn; subst. exact A.
      + exact (S2 _ _ _ Hn Hne Hs).
  Qed.

  Notation calls j := (calls_after exec s0 C j).

  (* the cache after the loop: the event is marked as seen only when trySyncNextBlock returned nil *)
  Definition marked (s : status) (mark : cache -> cache) (c : cache) : cache :=
    match s with Running => mark c | _ => c end.

  Lemma keeps_marked s mark c j :
    (forall c', c_hdrs (mark c') = c_hdrs c' /\ c_data (mark c') = c_data c') -> keeps c j (marked s mark c) j.
  Proof.
    intros Hm. destruct (Hm c) as (E1 & E2). destruct s; cbn [marked]; try apply keeps_refl.
    apply keeps_items; assumption.
  Qed.

  Lemma loop_good nd j c mark flt :
    Inv nd j -> cache_ok c ->
    (forall c', c_hdrs (mark c') = c_hdrs c' /\ c_data (mark c') = c_data c') ->
    exists j' c', (j <= j')%nat /\ Inv (fst (finish nd (start_loop_f exec prov nd c flt) mark)) j' /\
      n_cache (fst (finish nd (start_loop_f exec prov nd c flt) mark)) =
        marked (n_status (fst (finish nd (start_loop_f exec prov nd c flt) mark))) mark c' /\
      n_files (fst (finish nd (start_loop_f exec prov nd c flt) mark)) = n_files nd /\
      (forall L, n_log nd = L ++ calls j -> n_log (fst (finish nd (start_loop_f exec prov nd c flt) mark)) = L ++ calls j') /\
      (n_status (fst (finish nd (start_loop_f exec prov nd c flt) mark)) = Running ->
       fixp c' (n_disk (fst (finish nd (start_loop_f exec prov nd c flt) mark)))) /\
      (flt = None -> n_status (fst (finish nd (start_loop_f exec prov nd c flt) mark)) = Running) /\
      keeps c j c' j' /\ (Distinct -> seen_ok c j -> seen_ok c' j').
  Proof.
    intros (Hst & Hcore & Hc & Hf) Hc' Hmark.
    unfold start_loop_f.
    match goal with |- context [try_sync_f exec prov ?f flt ?st] =>
      destruct (try_sync_inv f st j flt) as (j' & Hle & Hcore' & Hcc & Hlog' & Hst' & Hfix & Hk & Hs); auto;
      set (R := try_sync_f exec prov f flt st) in * end.
    exists j', (l_cache R). split; [exact Hle|].
    unfold finish; cbn [fst n_status n_disk n_last n_cache n_files n_log].
    cbn [l_cache] in *.
    split; [|split; [reflexivity|split; [reflexivity|split; [exact Hlog'|split; [exact Hfix|split; [|split; assumption]]]]]].
    - split; [destruct Hst' as [E|(E & _)]; [left|right]; exact E|]. split; [exact Hcore'|]. split; [|exact Hf].
      destruct Hcc as (H1 & H2). destruct (Hmark (l_cache R)) as (E1 & E2).
      destruct (l_status R); unfold cache_ok; cbn [n_cache]; rewrite ?E1, ?E2; split; assumption.
    - intros ->. destruct Hst' as [E|(_ & E)]; [exact E|exfalso; apply E; reflexivity].
  Qed.

  (* what one step guarantees *)
  Definition StepOK (nd : node) (j : nat) (nd' : node) (j' : nat) : Prop :=
    (j <= j')%nat /\ Inv nd' j' /\
    (forall L, n_log nd = L ++ calls j -> n_log nd' = L ++ calls j') /\
    (n_status nd' = Running -> fixp (n_cache nd) (n_disk nd) -> fixp (n_cache nd') (n_disk nd')) /\
    keeps (n_cache nd) j (n_cache nd') j' /\
    (Distinct -> seen_ok (n_cache nd) j -> seen_ok (n_cache nd') j').

  Lemma StepOK_refl nd j : Inv nd j -> StepOK nd j nd j.
  Proof. intros HI. split; [lia|]. split; [exact HI|]. split; [auto|]. split; [auto|]. split; [apply keeps_refl|auto]. Qed.

  (* after a header (data) event of block i: block i is applied or its header (data) is cached *)
  Definition effect (e : event) (c : cache) (j : nat) : Prop :=
    match e with
    | EvHeader sh _ => forall i d, nth_error C i = Some (sh, d) -> hv_h c j i sh /\ (d_txs d = [] -> hv_d c j i d)
    | EvData d _ => forall i sh, nth_error C i = Some (sh, d) -> d_txs d <> [] -> hv_d c j i d
    end.

  Lemma effect_keeps e c j c' j' : keeps c j c' j' -> effect e c j -> effect e c' j'.
  Proof.
    intros Hk. destruct e as [sh da|d da]; cbn.
    - intros He i d Hn. destruct (He _ _ Hn) as (A & B). destruct (Hk _ _ _ Hn) as (K1 & K2). split; auto.
    - intros He i sh Hn Hne. destruct (Hk _ _ _ Hn) as (_ & K2). apply K2. exact (He _ _ Hn Hne).
  Qed.

  Lemma below_height m last j i sh d :
    core m last j -> nth_error C i = Some (sh, d) -> (h_height (sh_hdr sh) <=? d_height m) = true -> (i < j)%nat.
  Proof.
    intros (_ & Hh & _) Hn Hle. cbn [n_disk] in Hh. destruct (chain_block _ _ _ Hn) as (Hhh & _).
    apply N.leb_le in Hle. pose proof init_pos. lia.
  Qed.

  Lemma flt_none flt : fault_now flt = false -> halting_flt flt = false -> flt = None.
  Proof. destruct flt as [[|n]|]; cbn; intros; try discriminate; reflexivity. Qed.

  Lemma process_good nd j e flt :
    Inv nd j -> n_status nd = Running -> ev_in C e ->
    exists j', StepOK nd j (fst (process_f exec prov nd e flt)) j' /\
      n_files (fst (process_f exec prov nd e flt)) = n_files nd /\
      (halting_flt flt = false -> n_status (fst (process_f exec prov nd e flt)) = Running) /\
      (Distinct -> seen_ok (n_cache nd) j -> flt <> Some O ->
       effect e (n_cache (fst (process_f exec prov nd e flt))) j').
  Proof.
    intros HI Hst Hev. pose proof HI as (_ & Hcore & Hc & Hf).
    assert (Hskip : (Distinct -> seen_ok (n_cache nd) j -> flt <> Some O -> effect e (n_cache nd) j) ->
              exists j', StepOK nd j nd j' /\ n_files nd = n_files nd /\
                (halting_flt flt = false -> n_status nd = Running) /\
                (Distinct -> seen_ok (n_cache nd) j -> flt <> Some O -> effect e (n_cache nd) j')).
    { intros He. exists j. split; [apply StepOK_refl; exact HI|]. split; [reflexivity|]. split; [intros _; exact Hst|exact He]. }
    unfold process_f. rewrite Hst.
    destruct e as [sh da | d da].
    - destruct Hev as (d0 & Hin). apply In_nth_error in Hin as (i0 & H0).
      destruct (chain_block _ _ _ H0) as (Hh & Htx & Hm).
      unfold on_header_f.
      destruct (fault_now flt) eqn:Hfn.
      { cbn [fst]. apply Hskip. intros _ _ Hne. exfalso. apply Hne.
        destruct flt as [[|n]|]; try discriminate Hfn. reflexivity. }
      destruct ((h_height (sh_hdr sh) <=? d_height (n_disk nd)) || hseen (n_cache nd) (sh_hdr sh)) eqn:Hcond.
      + cbn [fst]. apply Hskip.
        intros HD (S1 & _) _ i d Hn. apply orb_true_iff in Hcond as [Hle|Hs].
        * pose proof (below_height _ _ _ _ _ _ Hcore Hn Hle). split; [left; lia|intros _; left; lia].
        * exact (S1 _ _ _ Hn Hs).
      + clear Hskip. rewrite Hh.
        set (c2 := if is_empty_commitment (h_data (sh_hdr sh))
                   then set_data (set_hdr (n_cache nd) (g_initial g + N.of_nat i0) sh) (g_initial g + N.of_nat i0) (empty_data (sh_hdr sh))
                   else set_hdr (n_cache nd) (g_initial g + N.of_nat i0) sh).
        assert (Hc2 : cache_ok c2 /\ keeps (n_cache nd) j c2 j /\ c_hseen c2 = c_hseen (n_cache nd) /\
                      c_dseen c2 = c_dseen (n_cache nd) /\ hv_h c2 j i0 sh /\ (d_txs d0 = [] -> hv_d c2 j i0 d0)).
        { subst c2. destruct (is_empty_commitment (h_data (sh_hdr sh))) eqn:He.
          - assert (He' : d_txs d0 = []) by (rewrite Htx; destruct (h_data (sh_hdr sh)); [reflexivity|discriminate He]).
            rewrite (empty_data_eq _ _ _ H0 He').
            split; [eapply cache_ok_set_data; eauto; eapply cache_ok_set_hdr; eauto|].
            split; [eapply keeps_trans; [eapply keeps_set_hdr; eauto|eapply keeps_set_data; eauto]|].
            split; [reflexivity|]. split; [reflexivity|].
            split; [right; cbn; rewrite N.eqb_refl; reflexivity|intros _; right; cbn; rewrite N.eqb_refl; reflexivity].
          - split; [eapply cache_ok_set_hdr; eauto|]. split; [eapply keeps_set_hdr; eauto|].
            split; [reflexivity|]. split; [reflexivity|].
            split; [right; cbn; rewrite N.eqb_refl; reflexivity|].
            intros He'. rewrite Htx in He'. rewrite He' in He. discriminate He. }
        destruct Hc2 as (Hcok & Hk2 & Es1 & Es2 & Hvh & Hvd).
        assert (Hmk : forall c', c_hdrs (add_hseen c' (sh_hdr sh)) = c_hdrs c' /\ c_data (add_hseen c' (sh_hdr sh)) = c_data c')
          by (intros c'; split; reflexivity).
        destruct (loop_good nd j c2 (fun c => add_hseen c (sh_hdr sh)) (tick flt) HI Hcok Hmk) as
          (j' & c' & Hle & HI' & Ecache & Efiles & Hlog & Hfix & Hrun & Hk & Hs).
        set (nd' := fst (finish nd (start_loop_f exec prov nd c2 (tick flt)) (fun c => add_hseen c (sh_hdr sh)))) in *.
        exists j'. unfold StepOK. rewrite Ecache.
        assert (Hvh' : hv_h c' j' i0 sh) by (destruct (Hk _ _ _ H0) as (K1 & _); auto).
        assert (Hvd' : d_txs d0 = [] -> hv_d c' j' i0 d0) by (destruct (Hk _ _ _ H0) as (_ & K2); auto).
        pose proof (keeps_marked (n_status nd') _ c' j' Hmk) as Hka.
        split; [|split; [exact Efiles|split]].
        * split; [exact Hle|]. split; [exact HI'|]. split; [exact Hlog|].
          split; [intros Hr _; rewrite Hr; exact (Hfix Hr)|].
          split; [eapply keeps_trans; [exact Hk2|eapply keeps_trans; [exact Hk|exact Hka]]|].
          intros HD Hs0.
          assert (Hs' : seen_ok c' j') by (apply Hs; [exact HD|]; eapply seen_ok_keeps; eauto).
          destruct (n_status nd'); cbn [marked]; try exact Hs'. eapply seen_ok_add_h; eauto.
        * intros Hh0. apply Hrun. rewrite (flt_none _ Hfn Hh0). reflexivity.
        * intros _ _ _ i d Hn.
          destruct (nth_same_height _ _ _ _ _ _ Hn H0 eq_refl) as (-> & _ & ->).
          destruct (Hka _ _ _ H0) as (K1 & K2). split; auto.
    - destruct Hev as (sh0 & Hin). apply In_nth_error in Hin as (i0 & H0).
      destruct (chain_block _ _ _ H0) as (Hh & Htx & Hm).
      assert (Huniq : forall i sh, nth_error C i = Some (sh, d) -> d_txs d <> [] -> Distinct -> i = i0 /\ sh = sh0).
      { intros i sh Hn Hne HD. assert (i = i0) by (apply (HD i i0 (sh, d) (sh0, d)); auto).
        split; [assumption|]. subst i.
        assert (E : Some (sh, d) = Some (sh0, d)) by (rewrite <- Hn; exact H0). inversion E. reflexivity. }
      unfold on_data_f. rewrite Hm.
      destruct (d_txs d) as [|t0 tl] eqn:Ht in |- *.
      { cbn [fst]. apply Hskip. intros _ _ _ i sh Hn Hne. exfalso; apply Hne; exact Ht. }
      rewrite <- Ht. assert (Hne0 : d_txs d <> []) by (rewrite Ht; discriminate).
      destruct (dseen (n_cache nd) (d_txs d)) eqn:Hds.
      { cbn [fst]. apply Hskip. intros HD (_ & S2) _ i sh Hn Hne. exact (S2 _ _ _ Hn Hne Hds). }
      destruct (fault_now flt) eqn:Hfn.
      { cbn [fst]. apply Hskip. intros _ _ Hne. exfalso. apply Hne.
        destruct flt as [[|n]|]; try discriminate Hfn. reflexivity. }
      cbn [m_height].
      destruct (h_height (sh_hdr sh0) <=? d_height (n_disk nd)) eqn:Hle0.
      { cbn [fst]. apply Hskip. intros HD _ _ i sh Hn Hne. destruct (Huniq _ _ Hn Hne HD) as (-> & ->).
        left. eapply below_height; eauto. }
      clear Hskip. rewrite Hh.
      set (c2 := set_data (n_cache nd) (g_initial g + N.of_nat i0) d).
      assert (Hmk : forall c', c_hdrs (add_dseen c' (d_txs d)) = c_hdrs c' /\ c_data (add_dseen c' (d_txs d)) = c_data c')
        by (intros c'; split; reflexivity).
      assert (Hcok : cache_ok c2) by (eapply cache_ok_set_data; eauto).
      destruct (loop_good nd j c2 (fun c => add_dseen c (d_txs d)) (tick flt) HI Hcok Hmk) as
        (j' & c' & Hle & HI' & Ecache & Efiles & Hlog & Hfix & Hrun & Hk & Hs).
      set (nd' := fst (finish nd (start_loop_f exec prov nd c2 (tick flt)) (fun c => add_dseen c (d_txs d)))) in *.
      exists j'. unfold StepOK. rewrite Ecache.
      assert (Hvd : hv_d c2 j i0 d) by (right; cbn; rewrite N.eqb_refl; reflexivity).
      assert (Hvd' : hv_d c' j' i0 d) by (destruct (Hk _ _ _ H0) as (_ & K2); auto).
      pose proof (keeps_marked (n_status nd') _ c' j' Hmk) as Hka.
      assert (Hk2 : keeps (n_cache nd) j c2 j) by (eapply keeps_set_data; eauto).
      split; [|split; [exact Efiles|split]].
      * split; [exact Hle|]. split; [exact HI'|]. split; [exact Hlog|].
        split; [intros Hr _; rewrite Hr; exact (Hfix Hr)|].
        split; [eapply keeps_trans; [exact Hk2|eapply keeps_trans; [exact Hk|exact Hka]]|].
        intros HD Hs0.
        assert (Hs' : seen_ok c' j').
        { apply Hs; [exact HD|]. apply (seen_ok_keeps (n_cache nd) j c2 j); [reflexivity|reflexivity|exact Hk2|exact Hs0]. }
        destruct (n_status nd'); cbn [marked]; try exact Hs'. eapply seen_ok_add_d; eauto.
      * intros Hh0. apply Hrun. rewrite (flt_none _ Hfn Hh0). reflexivity.
      * intros HD _ _ i sh Hn Hne. destruct (Huniq _ _ Hn Hne HD) as (-> & ->).
        destruct (Hka _ _ _ H0) as (_ & K2). auto.
  Qed.

  (* ---- start-up ---------------------------------------------------------------------------------- *)
  Lemma last_height m last j :
    core m last j -> j <> O -> s_height last = g_initial g + N.of_nat j - 1.
  Proof.
    intros (Hj & _ & _ & Hl & _) Hne. cbn [n_last] in Hl. destruct j as [|j0]; [congruence|].
    assert (Hlt : (j0 < length C)%nat) by lia.
    apply nth_error_Some in Hlt. destruct (nth_error C j0) as [[sh d]|] eqn:Hn; [|congruence].
    rewrite (state_after_S exec _ _ _ _ Hn) in Hl. subst last.
    destruct (chain_block _ _ _ Hn) as (Hh & _). unfold next_of, next_state; cbn. lia.
  Qed.

  Lemma height_put_block m n v : d_height (kv_put m (block_key n) v) = d_height m.
  Proof. reflexivity. Qed.
  Lemma state_put_block m n v : d_state (kv_put m (block_key n) v) = d_state m.
  Proof. reflexivity. Qed.
  Lemma block_put_block m n v n' :
    d_block (kv_put m (block_key n) v) n' = if n' =? n then match v with VBlock sh d => Some (sh, d) | _ => None end else d_block m n'.
  Proof. unfold d_block. cbn [kv_put kv_get]. rewrite block_key_eqb. destruct (n' =? n); reflexivity. Qed.

  (* putting a block record at or above the next height does not disturb what is applied *)
  Lemma core_put_block m last j n sh d :
    core m last j -> g_initial g + N.of_nat j <= n -> core (kv_put m (block_key n) (VBlock sh d)) last j.
  Proof.
    intros (Hj & Hh & Hb & Hl & Hs & Hs0) Hn. cbn [n_disk n_last] in *.
    unfold core, synced_to; cbn [n_disk n_last]. rewrite height_put_block, state_put_block.
    repeat split; auto. intros i Hi. rewrite block_put_block.
    destruct (N.eqb_spec (g_initial g + N.of_nat i) n); [lia|auto].
  Qed.

  (* an image from which NewManager's own writes lead to "exactly j blocks applied", j >= j0 *)
  Definition pre_core (j0 : nat) (m : img) : Prop :=
    exists s ws j, boot_writes g m = Some (s, ws) /\ (j0 <= j)%nat /\ core (apply_writes m ws) s j.

  Lemma pre_core_mono j0 j1 m : (j0 <= j1)%nat -> pre_core j1 m -> pre_core j0 m.
  Proof. intros Hle (s & ws & j & E & Hj & Hc). exists s, ws, j. split; [exact E|split; [lia|exact Hc]]. Qed.

  (* start-up on an image with exactly j applied blocks: no write unless nothing was ever applied *)
  Lemma boot_core m last j :
    core m last j ->
    exists s ws, boot_writes g m = Some (s, ws) /\ core (apply_writes m ws) s j /\
                 forall q, exists s', core (crash_after q m ws) s' j.
  Proof.
    intros Hcore. pose proof Hcore as (Hj & Hh & Hb & Hl & Hs & Hs0). cbn [n_disk n_last] in *.
    pose proof init_pos as Hi. unfold boot_writes.
    destruct j as [|j0].
    - rewrite (Hs0 eq_refl). cbn [genesis_state s_height].
      replace (g_initial g - 1 <=? d_height m) with true by (symmetry; apply N.leb_le; lia).
      assert (Hc0 : core m s0 O).
      { unfold core, synced_to; cbn [n_disk n_last]. repeat split; auto; try lia; try (intros i Hlt; lia).
        destruct C; reflexivity. }
      eexists _, _. split; [reflexivity|]. rewrite app_nil_r.
      cbn [apply_writes fold_left apply_write apply_prim].
      split; [apply core_put_block; [exact Hc0|lia]|].
      intros [|q]; exists s0; unfold crash_after; cbn [firstn apply_writes fold_left]; [exact Hc0|].
      rewrite firstn_nil. cbn [fold_left apply_write apply_prim]. apply core_put_block; [exact Hc0|lia].
    - rewrite (Hs ltac:(discriminate)).
      pose proof (last_height _ _ _ Hcore ltac:(discriminate)) as Hlh.
      replace (s_height last <? g_initial g) with false by (symmetry; apply N.ltb_ge; lia).
      replace (s_height last <=? d_height m) with true by (symmetry; apply N.leb_le; lia).
      eexists _, _. split; [reflexivity|]. split; [exact Hcore|].
      intros q. exists last. unfold crash_after. rewrite firstn_nil. exact Hcore.
  Qed.

  Lemma core_pre m last j : core m last j -> pre_core j m.
  Proof. intros Hc. destruct (boot_core _ _ _ Hc) as (s & ws & E & Hc' & _). exists s, ws, j. auto. Qed.

  Lemma block_writes_eq m last j sh d new :
    core m last j -> nth_error C j = Some (sh, d) ->
    block_writes m new sh d =
    [ WBatch [Put (block_key (h_height (sh_hdr sh))) (VBlock sh d)]; W1 (Put state_key (VState new));
      W1 (Put height_key (VHeight (h_height (sh_hdr sh)))) ].
  Proof.
    intros (_ & Hh & _) Hn. cbn [n_disk] in Hh. pose proof init_pos.
    destruct (chain_block _ _ _ Hn) as (Hhh & _).
    unfold block_writes.
    replace (h_height (sh_hdr sh) <=? d_height m) with false by (symmetry; apply N.leb_gt; lia).
    reflexivity.
  Qed.

  (* block and state of the next application written, height not yet: start-up raises the height *)
  Lemma mid_pre m last j sh d :
    core m last j -> nth_error C j = Some (sh, d) ->
    pre_core (S j) (apply_writes m [ WBatch [Put (block_key (h_height (sh_hdr sh))) (VBlock sh d)];
                                     W1 (Put state_key (VState (next_of exec last (sh, d)))) ]).
  Proof.
    intros Hc Hn.
    destruct (core_step _ _ _ _ _ Hc Hn) as (_ & Hc').
    remember (next_of exec last (sh, d)) as new eqn:Hnew.
    rewrite (block_writes_eq _ _ _ _ _ new Hc Hn) in Hc'.
    pose proof (last_height _ _ _ Hc' ltac:(discriminate)) as Hlh.
    destruct Hc as (_ & Hh & _). cbn [n_disk] in Hh. pose proof init_pos.
    cbn [apply_writes fold_left apply_write apply_prim] in *.
    set (m' := kv_put (kv_put m (block_key (h_height (sh_hdr sh))) (VBlock sh d)) state_key (VState new)) in *.
    assert (Hs' : d_state m' = Some new) by reflexivity.
    assert (Hh' : d_height m' = d_height m) by reflexivity.
    assert (Hsh : s_height new = h_height (sh_hdr sh)) by (subst new; reflexivity).
    exists new, [W1 (Put height_key (VHeight (h_height (sh_hdr sh))))], (S j).
    split; [|split; [lia|exact Hc']].
    unfold boot_writes. rewrite Hs', Hh'.
    replace (s_height new <? g_initial g) with false by (symmetry; apply N.ltb_ge; lia).
    replace (s_height new <=? d_height m) with false by (symmetry; apply N.leb_gt; lia).
    rewrite Hsh. reflexivity.
  Qed.

  (* every prefix of the writes of trySyncNextBlock is an image from which start-up recovers *)
  Lemma try_sync_crash fuel : forall st j W,
    core (l_disk st) (l_last st) j -> cache_ok (l_cache st) -> l_status st = Running ->
    (length (c_hdrs (l_cache st)) < fuel)%nat -> l_ws st = W ->
    exists ws, l_ws (try_sync_f exec prov fuel None st) = W ++ ws /\
      forall q, pre_core j (crash_after q (l_disk st) ws).
  Proof.
    induction fuel as [|f IH]; intros st j W Hcore Hc Hst Hfuel HW; [lia|].
    cbn [try_sync_f fault_now tick].
    assert (Hnone : exists ws, l_ws st = W ++ ws /\ forall q, pre_core j (crash_after q (l_disk st) ws)).
    { exists []. rewrite app_nil_r. split; [exact HW|]. intros q. unfold crash_after.
      rewrite firstn_nil. cbn. eapply core_pre; exact Hcore. }
    destruct (lookup (c_hdrs (l_cache st)) (d_height (l_disk st) + 1)) as [sh|] eqn:L1; [|exact Hnone].
    destruct (lookup (c_data (l_cache st)) (d_height (l_disk st) + 1)) as [d|] eqn:L2; [|exact Hnone].
    clear Hnone.
    pose proof (next_block _ _ _ _ _ _ Hcore Hc L1 L2) as Hn.
    destruct (core_step _ _ _ _ _ Hcore Hn) as (Hval & Hcore').
    rewrite Hval.
    pose proof (mid_pre _ _ _ _ _ Hcore Hn) as Hmid.
    unfold next_of in Hcore', Hmid; cbn [fst snd] in Hcore', Hmid.
    set (new := next_state (l_last st) (sh_hdr sh)
                  (exec (s_app (l_last st)) (h_height (sh_hdr sh)) (h_time (sh_hdr sh)) (d_txs d))) in *.
    pose proof (block_writes_eq _ _ _ _ _ new Hcore Hn) as Hbw.
    destruct (chain_block _ _ _ Hn) as (Hhh & _).
    match goal with |- context [try_sync_f exec prov f None ?st'] =>
      destruct (IH st' (S j) (W ++ block_writes (l_disk st) new sh d)) as (ws' & Hws' & Hboot') end.
    - exact Hcore'.
    - cbn. apply cache_ok_after; exact Hc.
    - reflexivity.
    - cbn. pose proof (remove_shrinks _ _ _ L1). lia.
    - cbn. rewrite HW. reflexivity.
    - exists (block_writes (l_disk st) new sh d ++ ws'). split; [rewrite Hws', app_assoc; reflexivity|].
      cbn [l_disk] in Hboot'. rewrite Hbw in *.
      intros q. unfold crash_after.
      destruct q as [|[|[|q]]].
      + cbn. eapply core_pre; exact Hcore.
      + cbn [firstn app apply_writes fold_left apply_write apply_prim].
        eapply core_pre. apply core_put_block; [exact Hcore|lia].
      + cbn [firstn app]. apply (pre_core_mono j (S j)); [lia|exact Hmid].
      + specialize (Hboot' q). unfold crash_after in Hboot'. cbn [firstn app].
        apply (pre_core_mono j (S j)); [lia|]. exact Hboot'.
  Qed.

  (* a new process on an image from which start-up recovers: SyncLoop runs *)
  Lemma boot_good j0 m files log :
    pre_core j0 m -> cache_ok files ->
    exists j', (j0 <= j')%nat /\ Inv (fst (boot_p exec prov g m files log)) j' /\
      n_status (fst (boot_p exec prov g m files log)) = Running /\
      n_files (fst (boot_p exec prov g m files log)) = files /\
      fixp (n_cache (fst (boot_p exec prov g m files log))) (n_disk (fst (boot_p exec prov g m files log))) /\
      keeps files j0 (n_cache (fst (boot_p exec prov g m files log))) j' /\
      (Distinct -> seen_ok files j0 -> seen_ok (n_cache (fst (boot_p exec prov g m files log))) j') /\
      (forall s ws j, boot_writes g m = Some (s, ws) -> core (apply_writes m ws) s j ->
         forall L, log = L ++ calls j -> n_log (fst (boot_p exec prov g m files log)) = L ++ calls j').
  Proof.
    intros (s & ws & j & E & Hj & Hcore) Hf. unfold boot_p. rewrite E.
    match goal with |- context [try_sync_f exec prov ?f None ?st] =>
      destruct (try_sync_inv f st j None) as (j' & Hle & Hcore' & Hcc & Hlog' & Hst' & Hfix & Hk & Hs); auto;
      set (R := try_sync_f exec prov f None st) in * end.
    assert (Hrun : l_status R = Running) by (destruct Hst' as [Hr|(_ & Hr)]; [exact Hr|exfalso; apply Hr; reflexivity]).
    cbn [fst n_status n_disk n_last n_cache n_files n_log l_cache l_log] in *.
    exists j'. split; [lia|]. split; [split; [left; exact Hrun|split; [exact Hcore'|split; assumption]]|].
    split; [exact Hrun|]. split; [reflexivity|]. split; [exact (Hfix Hrun)|].
    split; [eapply keeps_trans; [apply (keeps_mono files j0 j); exact Hj|exact Hk]|].
    split; [intros HD Hs0; apply Hs; [exact HD|]; eapply seen_ok_mono; eauto|].
    intros s2 ws2 j2 E2 Hc2 L HL. inversion E2; subst s2 ws2.
    rewrite (core_unique _ _ _ _ _ Hc2 Hcore) in HL. auto.
  Qed.

  (* every prefix of the writes of a start is again an image from which start-up recovers *)
  Lemma boot_crash m last j files log q :
    core m last j -> cache_ok files -> pre_core j (crash_after q m (snd (boot_p exec prov g m files log))).
  Proof.
    intros Hcore Hf. destruct (boot_core _ _ _ Hcore) as (s & ws & E & Hc' & Hq).
    unfold boot_p. rewrite E. cbn [snd].
    match goal with |- context [try_sync_f exec prov ?f None ?st] =>
      destruct (try_sync_crash f st j []) as (tws & Htws & Hboot); auto end.
    cbn [app] in Htws. rewrite Htws. cbn [l_disk] in Hboot.
    unfold crash_after. unfold wr in *. rewrite firstn_app, apply_writes_app.
    destruct (Nat.ltb_spec q (length ws)) as [Hlt|Hge].
    - replace (q - length ws)%nat with O by lia. cbn [firstn apply_writes fold_left].
      destruct (Hq q) as (s' & Hcq). eapply core_pre. exact Hcq.
    - rewrite firstn_all2 by lia. apply Hboot.
  Qed.

  (* ---- every kind of step ---------------------------------------------------------------------- *)
  Definition Good (nd : node) (j : nat) : Prop :=
    Inv nd j /\ (n_status nd = Running -> fixp (n_cache nd) (n_disk nd)) /\
    (Distinct -> seen_ok (n_cache nd) j /\ seen_ok (n_files nd) j).

  Lemma process_pre nd j e q :
    Inv nd j -> ev_in C e -> pre_core j (crash_after q (n_disk nd) (snd (process_f exec prov nd e None))).
  Proof.
    intros HI Hev. pose proof HI as (Hst & Hcore & Hc & Hf).
    assert (Hskip : forall ws, ws = [] -> pre_core j (crash_after q (n_disk nd) ws)).
    { intros ws ->. unfold crash_after. rewrite firstn_nil. cbn. eapply core_pre; exact Hcore. }
    assert (Hloop : forall c mark, cache_ok c ->
              pre_core j (crash_after q (n_disk nd) (snd (finish nd (start_loop_f exec prov nd c None) mark)))).
    { intros c mark Hc'. unfold finish, start_loop_f. cbn [snd].
      match goal with |- context [try_sync_f exec prov ?f None ?st] =>
        destruct (try_sync_crash f st j []) as (ws & Hws & Hboot); auto end.
      cbn [app] in Hws. rewrite Hws. apply Hboot. }
    unfold process_f. destruct (n_status nd); try (apply Hskip; reflexivity).
    destruct e as [sh da | d da].
    - destruct Hev as (d0 & Hin). apply In_nth_error in Hin as (i0 & H0).
      destruct (chain_block _ _ _ H0) as (Hh & Htx & Hm).
      unfold on_header_f. cbn [fault_now tick].
      destruct ((h_height (sh_hdr sh) <=? d_height (n_disk nd)) || hseen (n_cache nd) (sh_hdr sh));
        [apply Hskip; reflexivity|].
      apply Hloop. rewrite Hh.
      destruct (is_empty_commitment (h_data (sh_hdr sh))) eqn:He.
      + assert (He' : d_txs d0 = []) by (rewrite Htx; destruct (h_data (sh_hdr sh)); [reflexivity|discriminate He]).
        rewrite (empty_data_eq _ _ _ H0 He').
        eapply cache_ok_set_data; eauto; eapply cache_ok_set_hdr; eauto.
      + eapply cache_ok_set_hdr; eauto.
    - destruct Hev as (sh0 & Hin). apply In_nth_error in Hin as (i0 & H0).
      destruct (chain_block _ _ _ H0) as (Hh & Htx & Hm).
      unfold on_data_f. rewrite Hm. cbn [fault_now tick].
      destruct (d_txs d) eqn:Ht in |- *; [apply Hskip; reflexivity|].
      destruct (dseen (n_cache nd) _); [apply Hskip; reflexivity|].
      cbn [m_height].
      destruct (h_height (sh_hdr sh0) <=? d_height (n_disk nd)); [apply Hskip; reflexivity|].
      apply Hloop. rewrite Hh. eapply cache_ok_set_data; eauto.
  Qed.

  Lemma Good_of nd j j' files0 :
    Inv nd j' -> (n_status nd = Running -> fixp (n_cache nd) (n_disk nd)) ->
    (Distinct -> seen_ok (n_cache nd) j') -> n_files nd = files0 -> (j <= j')%nat ->
    (Distinct -> seen_ok files0 j) -> Good nd j'.
  Proof.
    intros HI Hfx Hs Ef Hle Hsf. split; [exact HI|]. split; [exact Hfx|].
    intros HD. split; [auto|]. rewrite Ef. eapply seen_ok_mono; eauto.
  Qed.

  Lemma restart_files_alive nd : alive (n_status nd) -> restart_files nd = n_cache nd.
  Proof. unfold restart_files. intros [E|E]; rewrite E; reflexivity. Qed.

  (* any step at all keeps the node good and never lowers the applied prefix; SyncLoop runs after it if the
     step starts a new process, or it ran before and no height read inside trySyncNextBlock was made to fail *)
  Lemma step_good nd j i :
    Good nd j -> fitem_in C i ->
    exists j', (j <= j')%nat /\ Good (fstep exec prov g nd i) j' /\
      (boots i = true \/ (halting i = false /\ n_status nd = Running) -> n_status (fstep exec prov g nd i) = Running).
  Proof.
    intros (HI & Hfx & Hseen) Hin. pose proof HI as (Hst & Hcore & Hc & Hf).
    destruct i as [e flt| |e q|q]; cbn [fstep].
    - destruct Hst as [Hr|Hh].
      + destruct (process_good nd j e flt HI Hr Hin) as (j' & (Hle & HI' & _ & Hfx' & _ & Hs') & Ef & Hrun & _).
        exists j'. split; [exact Hle|]. split.
        * eapply (Good_of _ j j'); eauto. intros HD. apply Hs'; [exact HD|]. apply Hseen; exact HD.
          intros HD. apply Hseen; exact HD.
        * intros [Hb|(Hh0 & _)]; [discriminate Hb|]. apply Hrun. exact Hh0.
      + unfold process_f. rewrite Hh. cbn [fst]. exists j. split; [lia|]. split; [split; [exact HI|split; assumption]|].
        intros [Hb|(_ & Hr)]; [discriminate Hb|congruence].
    - rewrite (restart_files_alive _ Hst).
      destruct (boot_good j (n_disk nd) (n_cache nd) (n_log nd) (core_pre _ _ _ Hcore) Hc)
        as (j' & Hle & HI' & Hrun & Ef & Hfx' & _ & Hs' & _).
      exists j'. split; [exact Hle|]. split; [|intros _; exact Hrun].
      eapply (Good_of _ j j'); eauto. intros HD. apply Hs'; [exact HD|]. apply Hseen; exact HD.
      intros HD. apply Hseen; exact HD.
    - destruct (boot_good j _ (n_files nd) (n_log nd) (process_pre nd j e q HI Hin) Hf)
        as (j' & Hle & HI' & Hrun & Ef & Hfx' & _ & Hs' & _).
      exists j'. split; [exact Hle|]. split; [|intros _; exact Hrun].
      eapply (Good_of _ j j'); eauto. intros HD. apply Hs'; [exact HD|]. apply Hseen; exact HD.
      intros HD. apply Hseen; exact HD.
    - destruct (boot_good j _ (n_files nd) (n_log nd) (boot_crash _ _ _ (n_files nd) (n_log nd) q Hcore Hf) Hf)
        as (j' & Hle & HI' & Hrun & Ef & Hfx' & _ & Hs' & _).
      exists j'. split; [exact Hle|]. split; [|intros _; exact Hrun].
      eapply (Good_of _ j j'); eauto. intros HD. apply Hs'; [exact HD|]. apply Hseen; exact HD.
      intros HD. apply Hseen; exact HD.
  Qed.

  Lemma live_step (b : bool) i nd nd' :
    (b = true -> n_status nd = Running) ->
    (boots i = true \/ (halting i = false /\ n_status nd = Running) -> n_status nd' = Running) ->
    (if boots i then true else if halting i then false else b) = true -> n_status nd' = Running.
  Proof.
    intros Hb Hs. destruct (boots i); [intros _; apply Hs; left; reflexivity|].
    destruct (halting i); [discriminate|]. intros E. apply Hs. right. split; [reflexivity|apply Hb; exact E].
  Qed.

  Lemma run_good h : forall nd j b,
    Good nd j -> (b = true -> n_status nd = Running) -> Forall (fitem_in C) h ->
    exists j', (j <= j')%nat /\ Good (frun_from exec prov g nd h) j' /\
      (live_after b h = true -> n_status (frun_from exec prov g nd h) = Running).
  Proof.
    induction h as [|i r IH]; intros nd j b HG Hb Hall.
    - exists j. split; [lia|]. split; [exact HG|exact Hb].
    - inversion Hall as [|? ? Hi Hr]; subst.
      destruct (step_good nd j i HG Hi) as (j1 & Hle1 & HG1 & Hs1).
      destruct (IH _ _ (if boots i then true else if halting i then false else b) HG1 (live_step b i _ _ Hb Hs1) Hr)
        as (j2 & Hle2 & HG2 & Hs2).
      exists j2. split; [lia|]. split; [exact HG2|exact Hs2].
  Qed.

  Lemma boot_empty :
    exists ws, boot_writes g [] = Some (s0, ws) /\ core (apply_writes [] ws) s0 O.
  Proof.
    pose proof init_pos as Hi. unfold boot_writes. cbn [d_state kv_get genesis_state s_height d_height].
    eexists. split; [reflexivity|].
    unfold core, synced_to.
    destruct (N.leb_spec (g_initial g - 1) 0); cbn; repeat split; auto; try lia; try (intros i Hlt; lia);
      try (destruct C; reflexivity).
  Qed.

  Lemma seen_ok_empty j : seen_ok empty_cache j.
  Proof. split; intros; discriminate. Qed.

  Lemma init_good : Good (finit exec prov g) O /\ n_log (finit exec prov g) = [] /\ n_status (finit exec prov g) = Running.
  Proof.
    destruct boot_empty as (ws & E & Hc0).
    assert (Hpre : pre_core O []) by (exists s0, ws, O; auto).
    unfold finit.
    destruct (boot_good O [] empty_cache [] Hpre cache_ok_empty)
      as (j' & _ & HI & Hrun & Ef & Hfx & _ & Hs & Hlog).
    assert (j' = O).
    { destruct HI as (_ & Hcj & _). revert Hcj. unfold boot_p. rewrite E.
      cbn [try_sync_f fault_now empty_cache c_hdrs length lookup fst n_disk n_last l_disk l_last].
      intros Hcj. exact (core_unique _ _ _ _ _ Hcj Hc0). }
    subst j'. split; [|split; [|exact Hrun]].
    - eapply (Good_of _ O O); eauto. intros HD. apply Hs; [exact HD|apply seen_ok_empty].
      intros _. apply seen_ok_empty.
    - rewrite (Hlog s0 ws O E Hc0 []); destruct C; reflexivity.
  Qed.

  (* ---- clean histories: log and effects of the delivered events ---------------------------------- *)
  Lemma step_clean nd j i :
    Good nd j -> fitem_in C i -> fclean i = true ->
    exists j', (j <= j')%nat /\ Good (fstep exec prov g nd i) j' /\
      (boots i = true \/ (halting i = false /\ n_status nd = Running) -> n_status (fstep exec prov g nd i) = Running) /\
      (forall L, n_log nd = L ++ calls j -> n_log (fstep exec prov g nd i) = L ++ calls j') /\
      keeps (n_cache nd) j (n_cache (fstep exec prov g nd i)) j' /\
      (Distinct -> match i with
                   | FEv e flt => n_status nd = Running -> flt <> Some O -> effect e (n_cache (fstep exec prov g nd i)) j'
                   | _ => True end).
  Proof.
    intros (HI & Hfx & Hseen) Hin Hcl. pose proof HI as (Hst & Hcore & Hc & Hf).
    destruct i as [e flt| |e q|q]; try discriminate Hcl; cbn [fstep].
    - destruct Hst as [Hr|Hh].
      + destruct (process_good nd j e flt HI Hr Hin) as (j' & (Hle & HI' & Hlog & Hfx' & Hk & Hs') & Ef & Hrun & Heff).
        exists j'. split; [exact Hle|]. split; [|split; [|split; [exact Hlog|split; [exact Hk|]]]].
        * eapply (Good_of _ j j'); eauto. intros HD. apply Hs'; [exact HD|]. apply Hseen; exact HD.
          intros HD. apply Hseen; exact HD.
        * intros [Hb|(Hh0 & _)]; [discriminate Hb|]. apply Hrun. exact Hh0.
        * intros HD _ Hne. apply Heff; [exact HD| |exact Hne]. apply Hseen; exact HD.
      + unfold process_f. rewrite Hh. cbn [fst]. exists j. split; [lia|].
        split; [split; [exact HI|split; assumption]|].
        split; [intros [Hb|(_ & Hr)]; [discriminate Hb|congruence]|].
        split; [auto|]. split; [apply keeps_refl|]. intros _ Hr. congruence.
    - rewrite (restart_files_alive _ Hst).
      destruct (boot_good j (n_disk nd) (n_cache nd) (n_log nd) (core_pre _ _ _ Hcore) Hc)
        as (j' & Hle & HI' & Hrun & Ef & Hfx' & Hk & Hs' & Hlog).
      exists j'. split; [exact Hle|]. split; [|split; [intros _; exact Hrun|split; [|split; [exact Hk|auto]]]].
      + eapply (Good_of _ j j'); eauto. intros HD. apply Hs'; [exact HD|]. apply Hseen; exact HD.
        intros HD. apply Hseen; exact HD.
      + destruct (boot_core _ _ _ Hcore) as (s & ws & E & Hc' & _). intros L HL. exact (Hlog s ws j E Hc' L HL).
  Qed.

  Lemma run_clean h : forall nd j b,
    Good nd j -> (b = true -> n_status nd = Running) -> Forall (fitem_in C) h -> forallb fclean h = true ->
    exists j', (j <= j')%nat /\ Good (frun_from exec prov g nd h) j' /\
      (live_after b h = true -> n_status (frun_from exec prov g nd h) = Running) /\
      (forall L, n_log nd = L ++ calls j -> n_log (frun_from exec prov g nd h) = L ++ calls j') /\
      keeps (n_cache nd) j (n_cache (frun_from exec prov g nd h)) j' /\
      (Distinct -> forall p e flt, nth_error h p = Some (FEv e flt) -> flt <> Some O ->
         n_status (frun_from exec prov g nd (firstn p h)) = Running ->
         effect e (n_cache (frun_from exec prov g nd h)) j').
  Proof.
    induction h as [|i r IH]; intros nd j b HG Hb Hall Hcl.
    - exists j. cbn. split; [lia|]. split; [exact HG|]. split; [exact Hb|]. split; [auto|]. split; [apply keeps_refl|].
      intros _ [|p] e flt E; discriminate E.
    - inversion Hall as [|? ? Hi Hr]; subst. cbn [forallb] in Hcl. apply andb_true_iff in Hcl as [Hc1 Hc2].
      destruct (step_clean nd j i HG Hi Hc1) as (j1 & Hle1 & HG1 & Hs1 & Hlog1 & Hk1 & He1).
      destruct (IH _ _ (if boots i then true else if halting i then false else b) HG1 (live_step b i _ _ Hb Hs1) Hr Hc2)
        as (j2 & Hle2 & HG2 & Hs2 & Hlog2 & Hk2 & He2).
      exists j2. cbn [frun_from fold_left live_after]. split; [lia|]. split; [exact HG2|]. split; [exact Hs2|].
      split; [intros L HL; apply Hlog2; apply Hlog1; exact HL|].
      split; [eapply keeps_trans; eauto|].
      intros HD [|p] e flt E Hne Hrun.
      + cbn in E. inversion E; subst i. cbn in Hrun.
        eapply effect_keeps; [exact Hk2|]. exact (He1 HD Hrun Hne).
      + cbn [nth_error] in E. cbn [firstn fold_left] in Hrun. exact (He2 HD p e flt E Hne Hrun).
  Qed.

  (* everything delivered (or already applied) up to m has been applied, if SyncLoop runs *)
  Lemma progress_end nd j m :
    Good nd j -> n_status nd = Running -> (m <= length C)%nat ->
    (forall i sh d, (i < m)%nat -> nth_error C i = Some (sh, d) ->
        hv_h (n_cache nd) j i sh /\ hv_d (n_cache nd) j i d) ->
    (m <= j)%nat.
  Proof.
    intros ((_ & Hcore & _) & Hfx & _) Hrun Hm Hall. specialize (Hfx Hrun).
    destruct (Nat.le_gt_cases m j) as [|Hlt]; [assumption|exfalso].
    assert (Hj : (j < length C)%nat) by lia.
    apply nth_error_Some in Hj. destruct (nth_error C j) as [[sh d]|] eqn:Hn; [|congruence].
    destruct (Hall j sh d Hlt Hn) as ([A|A] & [B|B]); try lia.
    destruct Hcore as (_ & Hh & _). cbn [n_disk] in Hh. pose proof init_pos.
    unfold fixp in Hfx.
    replace (d_height (n_disk nd) + 1) with (g_initial g + N.of_nat j) in Hfx by lia.
    destruct Hfx as [F|F]; congruence.
  Qed.
End Safety.

Lemma is_empty_spec x : is_empty_commitment x = true <-> x = [].
Proof. destruct x; cbn; split; intros H; try reflexivity; discriminate. Qed.

Lemma distinctb_Distinct C : distinct_commitmentsb C = true ->
  forall i i' b b', nth_error C i = Some b -> nth_error C i' = Some b' ->
    d_txs (snd b) = d_txs (snd b') -> d_txs (snd b) <> [] -> i = i'.
Proof.
  induction C as [|c C IH]; intros HD i i' b b' H1 H2 E Hne; [destruct i; discriminate|].
  cbn [distinct_commitmentsb] in HD. apply andb_true_iff in HD as [Hhd Htl].
  assert (Hclash : forall x y n, nth_error C n = Some y -> d_txs (snd x) = d_txs (snd y) ->
                     d_txs (snd x) <> [] -> x = c -> False).
  { intros x y n Hn Exy Hx ->. apply orb_true_iff in Hhd as [Hhd|Hhd].
    - apply is_empty_spec in Hhd. auto.
    - apply negb_true_iff in Hhd.
      assert (existsb (fun b' => commitment_eqb (d_txs (snd c)) (d_txs (snd b'))) C = true).
      { apply existsb_exists. exists y. split; [eapply nth_error_In; eauto|]. rewrite Exy. apply commitment_eqb_refl. }
      congruence. }
  destruct i as [|i], i' as [|i']; cbn in H1, H2.
  - reflexivity.
  - inversion H1; subst. exfalso. eapply (Hclash b b'); eauto.
  - inversion H2; subst. exfalso. eapply (Hclash b' b); eauto. congruence.
  - f_equal. eapply IH; eauto.
Qed.

(* ---- the node with the default provider and no read fault is the instance prov = 0, flt = None -------- *)
Lemma try_sync_f_base exec fuel : forall st, try_sync_f exec 0 fuel None st = try_sync exec fuel st.
Proof.
  induction fuel as [|f IH]; intros st; cbn [try_sync_f try_sync fault_now tick]; [reflexivity|].
  destruct (lookup (c_hdrs (l_cache st)) (d_height (l_disk st) + 1)) as [sh|]; [|reflexivity].
  destruct (lookup (c_data (l_cache st)) (d_height (l_disk st) + 1)) as [d|]; [|reflexivity].
  rewrite validate_p_default. destruct (validate (l_last st) sh d); [apply IH|reflexivity].
Qed.

Lemma process_f_base exec nd e : process_f exec 0 nd e None = process exec nd e.
Proof.
  unfold process_f, process. destruct (n_status nd); try reflexivity.
  destruct e as [sh da|d da].
  - unfold on_header_f, on_header, start_loop_f, start_loop. cbn [fault_now tick].
    rewrite !try_sync_f_base. reflexivity.
  - unfold on_data_f, on_data, start_loop_f, start_loop. cbn [fault_now tick].
    destruct (d_txs d); [reflexivity|]. destruct (d_meta d); [|reflexivity].
    rewrite !try_sync_f_base. reflexivity.
Qed.

Lemma boot_p_base exec g m files log : boot_p exec 0 g m files log = boot exec g m files log.
Proof. unfold boot_p, boot. destruct (boot_writes g m) as [[s ws]|]; [|reflexivity]. rewrite !try_sync_f_base. reflexivity. Qed.

Lemma fstep_lift exec g nd i : fstep exec 0 g nd (lift i) = step exec g nd i.
Proof. destruct i; cbn [lift fstep step]; rewrite ?process_f_base, ?boot_p_base; reflexivity. Qed.

Lemma frun_from_lift exec g h : forall nd, frun_from exec 0 g nd (map lift h) = run_from exec g nd h.
Proof.
  induction h as [|i r IH]; intros nd; [reflexivity|].
  cbn [map frun_from run_from fold_left]. rewrite fstep_lift. apply IH.
Qed.

Lemma frun_lift exec g h : frun exec 0 g (map lift h) = run exec g h.
Proof. unfold frun, run, finit, init. rewrite boot_p_base. apply frun_from_lift. Qed.

Lemma chain_fromb_p0 exec g k C : forall prev n t r,
  chain_fromb_p exec 0 g k prev n t r C = chain_fromb exec g k prev n t r C.
Proof.
  induction C as [|b C IH]; intros prev n t r; [reflexivity|].
  cbn [chain_fromb_p chain_fromb]. rewrite IH. destruct b as [sh d]. reflexivity.
Qed.

Lemma ChainValid_P0 exec g k C : ChainValid exec g k C <-> ChainValidP exec 0 g k C.
Proof. unfold ChainValid, ChainValidP. rewrite chain_fromb_p0. tauto. Qed.

Lemma item_in_lift C h : Forall (item_in C) h -> Forall (fitem_in C) (map lift h).
Proof. intros H. induction H as [|i r Hi _ IH]; cbn [map]; constructor; [destruct i; exact Hi|exact IH]. Qed.

Lemma clean_lift h : forallb fclean (map lift h) = forallb is_clean h.
Proof. induction h as [|i r IH]; [reflexivity|]. cbn [map forallb]. rewrite IH. destruct i; reflexivity. Qed.

Lemma live_lift h : forall b, b = true -> live_after b (map lift h) = true.
Proof.
  induction h as [|i r IH]; intros b Hb; [exact Hb|]. cbn [map live_after]. apply IH.
  destruct i; cbn [lift boots halting halting_flt]; [exact Hb|reflexivity|reflexivity|reflexivity].
Qed.

Lemma live_no_halting h : forall b, b = true -> forallb (fun i => negb (halting i)) h = true -> live_after b h = true.
Proof.
  induction h as [|i r IH]; intros b Hb Hn; [exact Hb|]. cbn [forallb] in Hn. apply andb_true_iff in Hn as [H1 H2].
  cbn [live_after]. apply IH; [|exact H2]. destruct (boots i); [reflexivity|].
  apply negb_true_iff in H1. rewrite H1. exact Hb.
Qed.

(* ---- C02 with any signature payload provider and store read faults: safety and monotonicity ------------ *)
Theorem safety_f exec prov g k C h :
  ChainValidP exec prov g k C -> Forall (fitem_in C) h -> forallb fclean h = true ->
  (n_status (frun exec prov g h) = Running \/ n_status (frun exec prov g h) = Halted) /\
  (live_after true h = true -> n_status (frun exec prov g h) = Running) /\
  exists j, synced_to exec g C (frun exec prov g h) j /\
            n_log (frun exec prov g h) = calls_after exec (genesis_state g) C j.
Proof.
  intros HV Hall Hcl. destruct (init_good exec prov g k C HV) as (HG & Hl & Hr).
  destruct (run_clean exec prov g k C HV h _ O true HG (fun _ => Hr) Hall Hcl)
    as (j & _ & ((Hst & Hcore & _) & _) & Hlive & Hlog & _).
  split; [exact Hst|]. split; [exact Hlive|]. exists j. split; [apply (synced_core exec g C); exact Hcore|].
  apply (Hlog []). rewrite Hl. destruct C; reflexivity.
Qed.

(* the applied prefix never shrinks — for every history, crashes and read faults included *)
Theorem monotone_f exec prov g k C h1 h2 :
  ChainValidP exec prov g k C -> Forall (fitem_in C) (h1 ++ h2) ->
  exists j1 j2, (j1 <= j2)%nat /\ synced_to exec g C (frun exec prov g h1) j1 /\
                synced_to exec g C (frun exec prov g (h1 ++ h2)) j2.
Proof.
  intros HV Hall. apply Forall_app in Hall as (Ha1 & Ha2).
  destruct (init_good exec prov g k C HV) as (HG & _ & Hr).
  destruct (run_good exec prov g k C HV h1 _ O true HG (fun _ => Hr) Ha1) as (j1 & _ & HG1 & _).
  destruct (run_good exec prov g k C HV h2 _ j1 false HG1 ltac:(discriminate) Ha2) as (j2 & Hle & HG2 & _).
  exists j1, j2. split; [exact Hle|].
  unfold frun, frun_from in *. rewrite fold_left_app.
  destruct HG1 as ((_ & Hk1 & _) & _). destruct HG2 as ((_ & Hk2 & _) & _).
  split; apply (synced_core exec g C); assumption.
Qed.

(* recovery, all histories with crashes and read faults anywhere: a prefix of the chain; SyncLoop runs unless
   a height read inside trySyncNextBlock was made to fail since the last start *)
Theorem recovery_f exec prov g k C h :
  ChainValidP exec prov g k C -> Forall (fitem_in C) h ->
  (n_status (frun exec prov g h) = Running \/ n_status (frun exec prov g h) = Halted) /\
  (live_after true h = true -> n_status (frun exec prov g h) = Running) /\
  exists j, synced_to exec g C (frun exec prov g h) j.
Proof.
  intros HV Hall. destruct (init_good exec prov g k C HV) as (HG & _ & Hr).
  destruct (run_good exec prov g k C HV h _ O true HG (fun _ => Hr) Hall) as (j & _ & ((Hst & Hcore & _) & _) & Hlive).
  split; [exact Hst|]. split; [exact Hlive|]. exists j. apply (synced_core exec g C). exact Hcore.
Qed.

(* ---- completeness / progress after any past, with read faults ------------------------------------------ *)
Theorem progress_f exec prov g k C h1 h2 m :
  ChainValidP exec prov g k C -> Forall (fitem_in C) (h1 ++ h2) -> forallb fclean h2 = true ->
  distinct_commitmentsb C = true -> (m <= length C)%nat ->
  n_status (frun exec prov g (h1 ++ h2)) = Running ->
  (forall i b, (i < m)%nat -> nth_error C i = Some b ->
     g_initial g + N.of_nat i <= d_height (n_disk (frun exec prov g h1)) \/
     delivered_live exec prov g h1 h2 (EvHeader (fst b))) ->
  (forall i b, (i < m)%nat -> nth_error C i = Some b -> d_txs (snd b) <> [] ->
     g_initial g + N.of_nat i <= d_height (n_disk (frun exec prov g h1)) \/
     delivered_live exec prov g h1 h2 (EvData (snd b))) ->
  g_initial g + N.of_nat m - 1 <= d_height (n_disk (frun exec prov g (h1 ++ h2))).
Proof.
  intros HV Hall Hcl HDb Hm Hrun Hhd Hdd. apply Forall_app in Hall as (Ha1 & Ha2).
  pose proof (distinctb_Distinct C HDb) as HD.
  destruct (init_good exec prov g k C HV) as (HG & _ & Hr).
  destruct (run_good exec prov g k C HV h1 _ O true HG (fun _ => Hr) Ha1) as (j1 & _ & HG1 & _).
  destruct (run_clean exec prov g k C HV h2 _ j1 false HG1 ltac:(discriminate) Ha2 Hcl)
    as (j2 & Hle & HG2 & _ & _ & _ & Heff).
  assert (Hlive : forall e, delivered_live exec prov g h1 h2 e -> exists da,
            effect g C (e da) (n_cache (frun_from exec prov g (frun exec prov g h1) h2)) j2).
  { intros e (p & da & flt & Hp & Hne & Hst). exists da. apply (Heff HD p (e da) flt Hp Hne).
    unfold frun, frun_from in *. rewrite fold_left_app in Hst. exact Hst. }
  unfold frun, frun_from in *. rewrite fold_left_app in *.
  set (nd1 := fold_left (fstep exec prov g) h1 (finit exec prov g)) in *.
  set (nd2 := fold_left (fstep exec prov g) h2 nd1) in *.
  assert (Hh1 : d_height (n_disk nd1) = g_initial g + N.of_nat j1 - 1).
  { destruct HG1 as ((_ & (_ & Hh & _) & _) & _). exact Hh. }
  assert (Hh2 : d_height (n_disk nd2) = g_initial g + N.of_nat j2 - 1).
  { destruct HG2 as ((_ & (_ & Hh & _) & _) & _). exact Hh. }
  pose proof (init_pos exec prov g k C HV) as Hi.
  assert (Hmj : (m <= j2)%nat).
  { apply (progress_end exec prov g k C HV nd2 j2 m HG2 Hrun Hm).
    intros i sh d Hlt Hn.
    assert (Hhv : hv_h g (n_cache nd2) j2 i sh /\ (d_txs d = [] -> hv_d g (n_cache nd2) j2 i d)).
    { destruct (Hhd i (sh, d) Hlt Hn) as [Hap|Hdl].
      - split; [left; lia|intros _; left; lia].
      - destruct (Hlive _ Hdl) as (da & He). exact (He i d Hn). }
    destruct Hhv as (A & B). split; [exact A|].
    destruct (d_txs d) eqn:Ht; [apply B; reflexivity|].
    assert (Hne : d_txs (snd (sh, d)) <> []) by (cbn; rewrite Ht; discriminate).
    destruct (Hdd i (sh, d) Hlt Hn Hne) as [Hap|Hdl].
    - left; lia.
    - destruct (Hlive _ Hdl) as (da & He). apply (He i sh Hn). cbn in Hne. exact Hne. }
  rewrite Hh2. lia.
Qed.

(* completeness as C02 words it, with read faults: what counts as received is an event whose own height read
   did not fail and that arrived while SyncLoop was running *)
Theorem complete_f exec prov g k C h m :
  ChainValidP exec prov g k C -> Forall (fitem_in C) h -> forallb fclean h = true ->
  distinct_commitmentsb C = true -> (m <= length C)%nat ->
  n_status (frun exec prov g h) = Running ->
  (forall i b, (i < m)%nat -> nth_error C i = Some b -> delivered_live exec prov g [] h (EvHeader (fst b))) ->
  (forall i b, (i < m)%nat -> nth_error C i = Some b -> d_txs (snd b) <> [] ->
     delivered_live exec prov g [] h (EvData (snd b))) ->
  g_initial g + N.of_nat m - 1 <= d_height (n_disk (frun exec prov g h)).
Proof.
  intros HV Hall Hcl HD Hm Hrun Hh Hd.
  apply (progress_f exec prov g k C [] h m HV Hall Hcl HD Hm Hrun).
  - intros i b Hlt Hn. right. exact (Hh i b Hlt Hn).
  - intros i b Hlt Hn Hne. right. exact (Hd i b Hlt Hn Hne).
Qed.

Lemma Forall_firstn {A} (P : A -> Prop) n l : Forall P l -> Forall P (firstn n l).
Proof. intros H. rewrite <- (firstn_skipn n l) in H. apply Forall_app in H. tauto. Qed.

Lemma forallb_firstn {A} (f : A -> bool) n l : forallb f l = true -> forallb f (firstn n l) = true.
Proof. intros H. rewrite <- (firstn_skipn n l), forallb_app in H. apply andb_true_iff in H. tauto. Qed.

(* every event lost to a failed height read is delivered again: if no height read inside trySyncNextBlock
   fails (SyncLoop never returns), a history that contains, for every block up to m, a header event and (if
   the block is not empty) a data event whose own height read did not fail — whatever else it contains, lost
   events of the same blocks included — brings the node to height >= initial + m - 1 *)
Theorem complete_redelivery exec prov g k C h m :
  ChainValidP exec prov g k C -> Forall (fitem_in C) h -> forallb fclean h = true ->
  distinct_commitmentsb C = true -> (m <= length C)%nat ->
  forallb (fun i => negb (halting i)) h = true ->
  (forall i b, (i < m)%nat -> nth_error C i = Some b ->
     exists da flt, In (FEv (EvHeader (fst b) da) flt) h /\ flt <> Some O) ->
  (forall i b, (i < m)%nat -> nth_error C i = Some b -> d_txs (snd b) <> [] ->
     exists da flt, In (FEv (EvData (snd b) da) flt) h /\ flt <> Some O) ->
  g_initial g + N.of_nat m - 1 <= d_height (n_disk (frun exec prov g h)).
Proof.
  intros HV Hall Hcl HD Hm Hnh Hh Hd.
  assert (Hrun : forall p, n_status (frun exec prov g (firstn p h)) = Running).
  { intros p. destruct (recovery_f exec prov g k C (firstn p h) HV (Forall_firstn _ p h Hall)) as (_ & Hl & _).
    apply Hl. apply live_no_halting; [reflexivity|]. apply forallb_firstn. exact Hnh. }
  assert (Hlive : forall e da flt, In (FEv (e da) flt) h -> flt <> Some O -> delivered_live exec prov g [] h e).
  { intros e da flt Hin Hne. apply In_nth_error in Hin as (p & Hp). exists p, da, flt.
    split; [exact Hp|]. split; [exact Hne|]. cbn [app]. apply Hrun. }
  apply (complete_f exec prov g k C h m HV Hall Hcl HD Hm).
  - specialize (Hrun (length h)). rewrite firstn_all in Hrun. exact Hrun.
  - intros i b Hlt Hn. destruct (Hh i b Hlt Hn) as (da & flt & Hin & Hne). exact (Hlive _ da flt Hin Hne).
  - intros i b Hlt Hn Hne0. destruct (Hd i b Hlt Hn Hne0) as (da & flt & Hin & Hne). exact (Hlive _ da flt Hin Hne).
Qed.

(* ---- the default provider without read faults (C02 as first stated, C05, the composition theorems) ------ *)
Theorem safety exec g k C h :
  ChainValid exec g k C -> Forall (item_in C) h -> forallb is_clean h = true ->
  n_status (run exec g h) = Running /\
  exists j, synced_to exec g C (run exec g h) j /\
            n_log (run exec g h) = calls_after exec (genesis_state g) C j.
Proof.
  intros HV Hall Hcl. apply ChainValid_P0 in HV. apply item_in_lift in Hall. rewrite <- clean_lift in Hcl.
  destruct (safety_f exec 0 g k C (map lift h) HV Hall Hcl) as (_ & Hl & Hj).
  rewrite frun_lift in *. split; [apply Hl; apply live_lift; reflexivity|exact Hj].
Qed.

(* the applied prefix never shrinks — for every history, crashes included *)
Theorem monotone exec g k C h1 h2 :
  ChainValid exec g k C -> Forall (item_in C) (h1 ++ h2) ->
  exists j1 j2, (j1 <= j2)%nat /\ synced_to exec g C (run exec g h1) j1 /\ synced_to exec g C (run exec g (h1 ++ h2)) j2.
Proof.
  intros HV Hall. apply ChainValid_P0 in HV. apply item_in_lift in Hall. rewrite map_app in Hall.
  destruct (monotone_f exec 0 g k C _ _ HV Hall) as (j1 & j2 & H). rewrite <- map_app, !frun_lift in H.
  exists j1, j2. exact H.
Qed.

(* ---- C05: recovery, all chains, all histories with crashes anywhere -------------------------------- *)
Theorem recovery exec g k C h :
  ChainValid exec g k C -> Forall (item_in C) h -> recovered exec g C (run exec g h).
Proof.
  intros HV Hall. apply ChainValid_P0 in HV. apply item_in_lift in Hall.
  destruct (recovery_f exec 0 g k C _ HV Hall) as (_ & Hl & Hj). rewrite frun_lift in *.
  split; [apply Hl; apply live_lift; reflexivity|exact Hj].
Qed.

(* ---- completeness / progress after any past (C02 with h1 = [], C05 with crashes in h1) ------------ *)
Theorem progress exec g k C h1 h2 m :
  ChainValid exec g k C -> Forall (item_in C) (h1 ++ h2) -> forallb is_clean h2 = true ->
  distinct_commitmentsb C = true -> (m <= length C)%nat ->
  (forall i b, (i < m)%nat -> nth_error C i = Some b ->
     g_initial g + N.of_nat i <= d_height (n_disk (run exec g h1)) \/ header_delivered h2 b) ->
  (forall i b, (i < m)%nat -> nth_error C i = Some b -> d_txs (snd b) <> [] ->
     g_initial g + N.of_nat i <= d_height (n_disk (run exec g h1)) \/ data_delivered h2 b) ->
  g_initial g + N.of_nat m - 1 <= d_height (n_disk (run exec g (h1 ++ h2))).
Proof.
  intros HV Hall Hcl HDb Hm Hhd Hdd.
  assert (Hrun : forall h, Forall (item_in C) h -> n_status (run exec g h) = Running).
  { intros h Hh. destruct (recovery exec g k C h HV Hh) as (Hr & _). exact Hr. }
  assert (Hlive : forall e da, In (IEv (e da)) h2 -> delivered_live exec 0 g (map lift h1) (map lift h2) e).
  { intros e da Hin. apply In_nth_error in Hin as (p & Hp). exists p, da, None.
    split; [rewrite nth_error_map, Hp; reflexivity|]. split; [discriminate|].
    rewrite firstn_map, <- map_app, frun_lift. apply Hrun.
    apply Forall_app in Hall as (A1 & A2). apply Forall_app. split; [exact A1|apply Forall_firstn; exact A2]. }
  pose proof (Hrun _ Hall) as Hr.
  pose proof HV as HV0. apply ChainValid_P0 in HV0.
  pose proof (item_in_lift _ _ Hall) as Hall'. rewrite map_app in Hall'. rewrite <- clean_lift in Hcl.
  pose proof (progress_f exec 0 g k C (map lift h1) (map lift h2) m HV0 Hall' Hcl HDb Hm) as P.
  rewrite <- map_app, !frun_lift in P. apply P; [exact Hr| |].
  - intros i b Hlt Hn. destruct (Hhd i b Hlt Hn) as [A|(da & Hin)]; [left; exact A|right; exact (Hlive _ da Hin)].
  - intros i b Hlt Hn Hne. destruct (Hdd i b Hlt Hn Hne) as [A|(da & Hin)]; [left; exact A|right; exact (Hlive _ da Hin)].
Qed.

(* completeness as C02 words it, under the guard *)
Theorem complete_partial exec g k C h m :
  ChainValid exec g k C -> Forall (item_in C) h -> forallb is_clean h = true ->
  distinct_commitmentsb C = true -> (m <= length C)%nat ->
  (forall i b, (i < m)%nat -> nth_error C i = Some b -> header_delivered h b) ->
  (forall i b, (i < m)%nat -> nth_error C i = Some b -> d_txs (snd b) <> [] -> data_delivered h b) ->
  g_initial g + N.of_nat m - 1 <= d_height (n_disk (run exec g h)).
Proof.
  intros HV Hall Hcl HD Hm Hh Hd.
  apply (progress exec g k C [] h m HV Hall Hcl HD Hm).
  - intros i b Hlt Hn. right. exact (Hh i b Hlt Hn).
  - intros i b Hlt Hn Hne. right. exact (Hd i b Hlt Hn Hne).
Qed.

(* ---- concrete chains for witnesses and non-vacuity examples ------------------------------------ *)
Definition ex_exec : root -> N -> Z -> list tx -> root :=
  fun r n _ txs => r * 7 + n + N.of_nat (length txs).
Definition ex_g (initial : N) : config :=
  {| g_chain := 1; g_initial := initial; g_time := 100%Z; g_proposer := Addr 1; g_initroot := 5 |}.
(* what the proposer with key 1 builds from a list of (transactions, time) *)
Fixpoint ex_build (prev : option header) (n : N) (r : root) (l : list (list tx * Z)) : list block :=
  match l with
  | [] => []
  | (txs, t) :: l' =>
      let h := {| h_height := n; h_time := t; h_chain := 1; h_last := prev; h_data := txs; h_app := r;
                  h_proposer := Addr 1 |} in
      ({| sh_hdr := h; sh_sig := Sig 1 h; sh_signer := {| sg_pub := Some (Pub 1); sg_addr := Addr 1 |} |},
       {| d_meta := Some {| m_chain := 1; m_height := n; m_time := t |}; d_txs := txs |})
      :: ex_build (Some h) (n + 1) (ex_exec r n t txs) l'
  end.
Definition ex_chain (initial : N) (l : list (list tx * Z)) : list block := ex_build None initial 5 l.
Definition evh (C : list block) (i : nat) (da : N) : item :=
  IEv (EvHeader (fst (nth i C (genesis_block (ex_g 1)))) da).
Definition evd (C : list block) (i : nat) (da : N) : item :=
  IEv (EvData (snd (nth i C (genesis_block (ex_g 1)))) da).

Ltac solve_in := cbn; repeat (first [left; reflexivity | right]).
Ltac chain_valid := split; [cbn; lia|split; [reflexivity|vm_compute; reflexivity]].

(* F2 (still open): blocks 2 and 3 carry the same non-empty transaction list *)
Definition f2_chain := ex_chain 1 [([], 100%Z); ([7], 101%Z); ([7], 102%Z)].
Definition f2_hist := [evh f2_chain 0 1; evh f2_chain 1 1; evd f2_chain 1 1; evh f2_chain 2 1; evd f2_chain 2 1].

Lemma complete_refuted :
  exists exec g k C h m,
    ChainValid exec g k C /\ Forall (item_in C) h /\ forallb is_clean h = true /\ (m <= length C)%nat /\
    (forall i b, (i < m)%nat -> nth_error C i = Some b -> header_delivered h b) /\
    (forall i b, (i < m)%nat -> nth_error C i = Some b -> d_txs (snd b) <> [] -> data_delivered h b) /\
    d_height (n_disk (run exec g h)) < g_initial g + N.of_nat m - 1.
Proof.
  exists ex_exec, (ex_g 1), 1, f2_chain, f2_hist, 3%nat.
  split; [chain_valid|].
  split; [repeat constructor; cbn; eexists; solve_in|].
  split; [reflexivity|]. split; [cbn; lia|].
  split; [|split].
  - intros i b Hi Hn. destruct i as [|[|[|i]]]; try lia; inversion Hn; subst; exists 1; solve_in.
  - intros i b Hi Hn Hne. destruct i as [|[|[|i]]]; try lia; inversion Hn; subst.
    + exfalso. apply Hne. reflexivity.
    + exists 1; solve_in.
    + exists 1; solve_in.
  - vm_compute. reflexivity.
Qed.

(* the witness violates exactly the guard of complete_partial *)
Lemma complete_refuted_guard : distinct_commitmentsb f2_chain = false.
Proof. vm_compute. reflexivity. Qed.

(* ---- chains signed over the payload of provider p, histories with read faults ------------------------ *)
Fixpoint ex_build_p (p : N) (prev : option header) (n : N) (r : root) (l : list (list tx * Z)) : list block :=
  match l with
  | [] => []
  | (txs, t) :: l' =>
      let h := {| h_height := n; h_time := t; h_chain := 1; h_last := prev; h_data := txs; h_app := r;
                  h_proposer := Addr 1 |} in
      ({| sh_hdr := h; sh_sig := Sig 1 (payload p h); sh_signer := {| sg_pub := Some (Pub 1); sg_addr := Addr 1 |} |},
       {| d_meta := Some {| m_chain := 1; m_height := n; m_time := t |}; d_txs := txs |})
      :: ex_build_p p (Some h) (n + 1) (ex_exec r n t txs) l'
  end.
Definition ex_chain_p (p initial : N) (l : list (list tx * Z)) : list block := ex_build_p p None initial 5 l.
Definition fevh (C : list block) (i : nat) (da : N) (flt : option nat) : fitem :=
  FEv (EvHeader (fst (nth i C (genesis_block (ex_g 1)))) da) flt.
Definition fevd (C : list block) (i : nat) (da : N) (flt : option nat) : fitem :=
  FEv (EvData (snd (nth i C (genesis_block (ex_g 1)))) da) flt.
