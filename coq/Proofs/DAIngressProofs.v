(* Proofs/DAIngressProofs.v — lemmas about Model/DAIngress.v (C02, DA ingress): a failed DA request of EVERY
   error class leaves the scan position where it was; the scan position never passes a height whose blobs were
   not handed to SyncLoop (unless the DA layer itself denied them); a failed request costs a request, never
   a height; composition with the syncer's completeness theorem. *)
From Coq Require Import String NArith ZArith List Bool Lia ZifyBool ZifyN ZifyNat.
From Verif Require Import Base.KV Base.Keys Model.Types Model.Syncer Proofs.SyncerProofs Model.DAIngress.
Import ListNotations.
Open Scope list_scope.
Open Scope N_scope.

(* ---- one request ------------------------------------------------------------------------------------- *)
(* the verdict by cases of the outcome: a pass needs an answer — the blobs, or "not found" *)
Lemma attempt_spec ne o :
  attempt ne o =
  match o with
  | OOk => VPass ne
  | OIds e => if is_notfound e then VPass false else VStay (negb (is_future e))
  | OGet e => if ne then VStay (negb (is_future e)) else VPass false
  end.
Proof.
  destruct o as [e|e|]; unfold attempt, fetch_blobs, retrieve.
  - destruct e; reflexivity.
  - destruct ne; [destruct e; reflexivity|reflexivity].
  - destruct ne; reflexivity.
Qed.

(* EVERY error class of GetIDs other than "not found" is a failure: nothing handed over, the position stays *)
Lemma ids_error_stays ct cur e : e <> ENotFound -> da_step ct cur (OIds e) = (cur, []).
Proof.
  intros He. unfold da_step. rewrite attempt_spec. destruct e; try reflexivity. contradiction.
Qed.

(* EVERY error class of Get (the height has ids) is a failure *)
Lemma get_error_stays ct cur e : blobs_at ct cur <> [] -> da_step ct cur (OGet e) = (cur, []).
Proof.
  intros Hne. unfold da_step. rewrite attempt_spec.
  destruct (blobs_at ct cur); [contradiction|]. cbn [nonempty]. reflexivity.
Qed.

(* the scan position moves, by exactly one, iff the request was answered: the blobs, "not found", or no ids *)
Lemma step_cursor ct cur o :
  fst (da_step ct cur o) =
  match o with
  | OOk => cur + 1
  | OIds e => if is_notfound e then cur + 1 else cur
  | OGet _ => if nonempty (blobs_at ct cur) then cur else cur + 1
  end.
Proof.
  unfold da_step. rewrite attempt_spec. destruct o as [e|e|].
  - destruct (is_notfound e); reflexivity.
  - destruct (nonempty (blobs_at ct cur)); reflexivity.
  - destruct (nonempty (blobs_at ct cur)); reflexivity.
Qed.

Lemma step_mono ct cur o : cur <= fst (da_step ct cur o) /\ fst (da_step ct cur o) <= cur + 1.
Proof.
  rewrite step_cursor. destruct o as [e|e|]; [destruct (is_notfound e)|destruct (nonempty (blobs_at ct cur))|]; lia.
Qed.

(* what one request hands over: on success every blob of the height, tagged with it; otherwise nothing *)
Lemma step_handed ct cur o :
  snd (da_step ct cur o) =
  match o with OOk => map (fun p => (p, cur)) (blobs_at ct cur) | _ => [] end.
Proof.
  unfold da_step. rewrite attempt_spec. destruct o as [e|e|].
  - destruct (is_notfound e); reflexivity.
  - destruct (nonempty (blobs_at ct cur)); reflexivity.
  - destruct (blobs_at ct cur); reflexivity.
Qed.

(* a height is passed only with its blobs handed over, or on a denial by the DA layer *)
Lemma step_no_skip ct cur o p :
  fst (da_step ct cur o) = cur + 1 -> In p (blobs_at ct cur) ->
  In (p, cur) (snd (da_step ct cur o)) \/ lie_at ct cur o = true.
Proof.
  intros Hc Hin. rewrite step_cursor in Hc. rewrite step_handed. unfold lie_at.
  assert (Hne : nonempty (blobs_at ct cur) = true) by (destruct (blobs_at ct cur); [destruct Hin|reflexivity]).
  rewrite Hne. destruct o as [e|e|].
  - right. destruct (is_notfound e); [reflexivity|lia].
  - rewrite Hne in Hc. lia.
  - left. apply in_map_iff. exists p. split; [reflexivity|exact Hin].
Qed.

(* ---- a run ------------------------------------------------------------------------------------------- *)
Lemma run_cons ct cur o r :
  da_run ct cur (o :: r) =
  (snd (da_step ct cur o) :: fst (da_run ct (fst (da_step ct cur o)) r), snd (da_run ct (fst (da_step ct cur o)) r)).
Proof.
  cbn [da_run]. destruct (da_step ct cur o) as (c' & em). cbn [fst snd].
  destruct (da_run ct c' r) as (ems & fin). reflexivity.
Qed.

Lemma cursor_cons ct cur o r : da_cursor ct cur (o :: r) = da_cursor ct (fst (da_step ct cur o)) r.
Proof. unfold da_cursor. rewrite run_cons. reflexivity. Qed.

Lemma handed_cons ct cur o r :
  da_handed ct cur (o :: r) = snd (da_step ct cur o) ++ da_handed ct (fst (da_step ct cur o)) r.
Proof. unfold da_handed. rewrite run_cons. reflexivity. Qed.

Lemma cursor_app ct outs : forall cur o,
  da_cursor ct cur (outs ++ [o]) = fst (da_step ct (da_cursor ct cur outs) o).
Proof.
  induction outs as [|a r IH]; intros cur o.
  - cbn [app]. rewrite cursor_cons. reflexivity.
  - cbn [app]. rewrite !cursor_cons. apply IH.
Qed.

Lemma cursor_mono ct outs : forall cur, cur <= da_cursor ct cur outs.
Proof.
  induction outs as [|o r IH]; intros cur; [unfold da_cursor; cbn; lia|].
  rewrite cursor_cons. pose proof (step_mono ct cur o). specialize (IH (fst (da_step ct cur o))). lia.
Qed.

(* THE SCAN POSITION NEVER PASSES A HEIGHT WHOSE BLOBS WERE NOT HANDED OVER — whatever the outcomes of the
   requests were (errors of any class at GetIDs or Get, any number, in any order) — unless the DA layer denied
   the height ("not found" for a height that carries blobs) *)
Theorem no_skip ct outs : forall c0 x p,
  c0 <= x -> x < da_cursor ct c0 outs -> In p (blobs_at ct x) ->
  In (p, x) (da_handed ct c0 outs) \/ In x (da_lies ct c0 outs).
Proof.
  induction outs as [|o r IH]; intros c0 x p Hlo Hhi Hin.
  - unfold da_cursor in Hhi. cbn in Hhi. lia.
  - rewrite cursor_cons in Hhi. rewrite handed_cons. cbn [da_lies].
    pose proof (step_mono ct c0 o) as (Hm1 & Hm2).
    destruct (N.eq_dec x c0) as [->|Hne].
    + destruct (N.eq_dec (fst (da_step ct c0 o)) (c0 + 1)) as [Hp|Hs].
      * destruct (step_no_skip ct c0 o p Hp Hin) as [A|A].
        -- left. apply in_or_app. left. exact A.
        -- right. rewrite A. left. reflexivity.
      * assert (Hst : fst (da_step ct c0 o) = c0) by lia. rewrite Hst in *.
        destruct (IH c0 c0 p ltac:(lia) Hhi Hin) as [A|A].
        -- left. apply in_or_app. right. exact A.
        -- right. apply in_or_app. right. exact A.
    + destruct (IH (fst (da_step ct c0 o)) x p ltac:(lia) Hhi Hin) as [A|A].
      * left. apply in_or_app. right. exact A.
      * right. apply in_or_app. right. exact A.
Qed.

(* nothing else is handed over: only blobs the DA layer holds, tagged with their DA height, of heights the scan
   has passed *)
Theorem handed_sound ct outs : forall c0 p x,
  In (p, x) (da_handed ct c0 outs) -> c0 <= x /\ x < da_cursor ct c0 outs /\ In p (blobs_at ct x).
Proof.
  induction outs as [|o r IH]; intros c0 p x Hin; [destruct Hin|].
  rewrite handed_cons in Hin. rewrite cursor_cons.
  pose proof (step_mono ct c0 o) as (Hm1 & Hm2).
  apply in_app_or in Hin as [Hin|Hin].
  - rewrite step_handed in Hin. destruct o as [e|e|]; try destruct Hin.
    apply in_map_iff in Hin as (q & E & Hq). inversion E; subst q x.
    pose proof (cursor_mono ct r (fst (da_step ct c0 OOk))) as Hc.
    rewrite step_cursor in Hc |- *. split; [lia|]. split; [lia|exact Hq].
  - destruct (IH _ _ _ Hin) as (A & B & D). split; [lia|]. split; [exact B|exact D].
Qed.

(* each height is handed over at most once: the hand-overs are for strictly increasing DA heights *)
Theorem asked_nondecreasing ct outs : forall c0 x, In x (da_asked ct c0 outs) -> c0 <= x /\ x <= da_cursor ct c0 outs.
Proof.
  induction outs as [|o r IH]; intros c0 x Hin; [destruct Hin|].
  cbn [da_asked] in Hin. rewrite cursor_cons. pose proof (step_mono ct c0 o) as (Hm1 & Hm2).
  pose proof (cursor_mono ct r (fst (da_step ct c0 o))) as Hc.
  destruct Hin as [<-|Hin]; [lia|]. destruct (IH _ _ Hin). lia.
Qed.

(* A FAILED REQUEST COSTS A REQUEST, NEVER A HEIGHT: the scan position is the start position plus the number of
   requests that were answered *)
Theorem progress_count ct outs : forall c0,
  (da_failures ct c0 outs <= length outs)%nat /\
  da_cursor ct c0 outs = c0 + N.of_nat (length outs - da_failures ct c0 outs).
Proof.
  induction outs as [|o r IH]; intros c0.
  - unfold da_cursor. cbn. split; lia.
  - rewrite cursor_cons. cbn [da_failures length].
    destruct (IH (fst (da_step ct c0 o))) as (Hle & Hc). rewrite Hc.
    pose proof (step_mono ct c0 o) as (Hm1 & Hm2).
    set (c1 := fst (da_step ct c0 o)) in *.
    destruct (c1 =? c0) eqn:E.
    + apply N.eqb_eq in E. split; lia.
    + apply N.eqb_neq in E. split; lia.
Qed.

(* hence: if at most F requests fail and the retriever keeps asking, every height is passed *)
Corollary reaches ct outs c0 F n :
  (da_failures ct c0 outs <= F)%nat -> (F + n <= length outs)%nat -> c0 + N.of_nat n <= da_cursor ct c0 outs.
Proof. intros HF Hl. destruct (progress_count ct outs c0) as (Hle & ->). lia. Qed.

(* EVERY ERROR CLASS IS A FAILURE: a request that comes back with an error — of GetIDs, unless the error says "not
   found"; of Get, whenever the height has ids — hands nothing over and leaves the scan position where it was *)
Theorem every_error_class_fails ct cur (e : derr) :
  (e <> ENotFound -> da_step ct cur (OIds e) = (cur, [])) /\
  (blobs_at ct cur <> [] -> da_step ct cur (OGet e) = (cur, [])).
Proof. split; [apply ids_error_stays|apply get_error_stays]. Qed.

(* the law of the scan position: it never decreases; one more request moves it by one iff the request was answered
   (the blobs, "not found", or a height without ids), and leaves it otherwise *)
Theorem cursor_law ct c0 outs o :
  c0 <= da_cursor ct c0 outs /\
  da_cursor ct c0 (outs ++ [o]) =
    (let cur := da_cursor ct c0 outs in
     match o with
     | OOk => cur + 1
     | OIds e => if is_notfound e then cur + 1 else cur
     | OGet _ => if nonempty (blobs_at ct cur) then cur else cur + 1
     end).
Proof. split; [apply cursor_mono|]. rewrite cursor_app. apply step_cursor. Qed.

(* ---- composition with the syncer ----------------------------------------------------------------------- *)
Lemma da_events_in_chain C em : Forall (item_in C) (da_events C em).
Proof.
  apply Forall_forall. intros i Hi. unfold da_events in Hi. apply in_flat_map in Hi as (e & _ & Hi).
  unfold part_items in Hi. destruct (fst e) as [n|n];
    (destruct (nth_error C (N.to_nat n)) as [b|] eqn:Eb; [|destruct Hi]); destruct Hi as [<-|[]]; cbn.
  - exists (snd b). apply nth_error_In in Eb. destruct b; exact Eb.
  - exists (fst b). apply nth_error_In in Eb. destruct b; exact Eb.
Qed.

Lemma da_events_header C em i x b :
  In (PH (N.of_nat i), x) em -> nth_error C i = Some b -> In (IEv (EvHeader (fst b) x)) (da_events C em).
Proof.
  intros Hin Hb. unfold da_events. apply in_flat_map. exists (PH (N.of_nat i), x). split; [exact Hin|].
  unfold part_items. cbn [fst snd]. rewrite Nat2N.id. unfold block in *. rewrite Hb. left. reflexivity.
Qed.

Lemma da_events_data C em i x b :
  In (PD (N.of_nat i), x) em -> nth_error C i = Some b -> In (IEv (EvData (snd b) x)) (da_events C em).
Proof.
  intros Hin Hb. unfold da_events. apply in_flat_map. exists (PD (N.of_nat i), x). split; [exact Hin|].
  unfold part_items. cbn [fst snd]. rewrite Nat2N.id. unfold block in *. rewrite Hb. left. reflexivity.
Qed.

Lemma scanned_handed ct c0 outs q : scanned ct c0 outs q -> exists x, In (q, x) (da_handed ct c0 outs).
Proof.
  intros (x & Hlo & Hhi & Hin & Hnl). exists x.
  destruct (no_skip ct outs c0 x q Hlo Hhi Hin) as [A|A]; [exact A|contradiction].
Qed.

(* the retriever's seen-filter loses nothing: an event SyncLoop has marked as seen changes nothing when it is
   delivered (again), so the history with the filtered events put back is the same run *)
Lemma seen_header_noop exec nd sh da :
  n_status nd = Running -> hseen (n_cache nd) (sh_hdr sh) = true -> process exec nd (EvHeader sh da) = (nd, []).
Proof. intros Hs Hseen. unfold process, on_header. rewrite Hs, Hseen, orb_true_r. reflexivity. Qed.
Lemma seen_data_noop exec nd d da :
  n_status nd = Running -> dseen (n_cache nd) (d_txs d) = true -> process exec nd (EvData d da) = (nd, []).
Proof.
  intros Hs Hseen. unfold process, on_data. rewrite Hs.
  destruct (d_txs d); [reflexivity|]. destruct (d_meta d); [|reflexivity]. rewrite Hseen. reflexivity.
Qed.

Lemma live_after_app h1 : forall b h2, live_after b (h1 ++ h2) = live_after (live_after b h1) h2.
Proof. induction h1 as [|i r IH]; intros b h2; [reflexivity|]. cbn [app live_after]. apply IH. Qed.

(* DA INGRESS IS COMPLETE, for every signature payload provider.  After any past h1 (events, read faults, clean
   restarts, crashes; SyncLoop running at its end: no height read inside trySyncNextBlock failed since the last
   start), a process whose DA scan starts at c0 and whose requests meet ANY outcomes: if SyncLoop then consumes
   (h2: any clean history of chain items, any order, anything else of the chain — the P2P paths — in between)
   at least what the retriever handed over, the node reaches every height m up to which every block is applied
   already, or was delivered some other way, or lies — header and, if not empty, data — at a DA height the scan
   has passed without the DA layer denying it. *)
Theorem da_complete_p exec prov g k C h1 ct c0 outs h2 m :
  ChainValidP exec prov g k C -> distinct_commitmentsb C = true ->
  Forall (fitem_in C) h1 -> live_after true h1 = true ->
  Forall (item_in C) h2 -> forallb is_clean h2 = true ->
  incl (da_events C (da_handed ct c0 outs)) h2 ->
  (m <= length C)%nat ->
  (forall i b, (i < m)%nat -> nth_error C i = Some b ->
     g_initial g + N.of_nat i <= d_height (n_disk (frun exec prov g h1)) \/ header_delivered h2 b \/
     scanned ct c0 outs (PH (N.of_nat i))) ->
  (forall i b, (i < m)%nat -> nth_error C i = Some b -> d_txs (snd b) <> [] ->
     g_initial g + N.of_nat i <= d_height (n_disk (frun exec prov g h1)) \/ data_delivered h2 b \/
     scanned ct c0 outs (PD (N.of_nat i))) ->
  g_initial g + N.of_nat m - 1 <= d_height (n_disk (frun exec prov g (h1 ++ map lift h2))).
Proof.
  intros HV HD Ha1 Hl1 Ha2 Hcl Hinc Hm Hh Hd.
  assert (Hall : forall p, Forall (fitem_in C) (h1 ++ firstn p (map lift h2))).
  { intros p. apply Forall_app. split; [exact Ha1|]. apply Forall_firstn. apply item_in_lift. exact Ha2. }
  assert (Hrun : forall p, n_status (frun exec prov g (h1 ++ firstn p (map lift h2))) = Running).
  { intros p. destruct (recovery_f exec prov g k C _ HV (Hall p)) as (_ & Hl & _). apply Hl.
    rewrite live_after_app, Hl1, firstn_map. apply live_lift. reflexivity. }
  assert (Hlive : forall e da, In (IEv (e da)) h2 -> delivered_live exec prov g h1 (map lift h2) e).
  { intros e da Hin. apply In_nth_error in Hin as (p & Hp). exists p, da, None.
    split; [rewrite nth_error_map, Hp; reflexivity|]. split; [discriminate|apply Hrun]. }
  assert (Hfull : map lift h2 = firstn (length (map lift h2)) (map lift h2)) by (symmetry; apply firstn_all).
  apply (progress_f exec prov g k C h1 (map lift h2) m HV); try assumption.
  - rewrite Hfull. apply Hall.
  - rewrite clean_lift. exact Hcl.
  - rewrite Hfull. apply Hrun.
  - intros i b Hlt Hn. destruct (Hh i b Hlt Hn) as [A|[(da & A)|A]]; [left; exact A| |].
    + right. exact (Hlive _ da A).
    + right. apply scanned_handed in A as (x & A). apply (Hlive (EvHeader (fst b)) x). apply Hinc.
      eapply da_events_header; [exact A|exact Hn].
  - intros i b Hlt Hn Hne. destruct (Hd i b Hlt Hn Hne) as [A|[(da & A)|A]]; [left; exact A| |].
    + right. exact (Hlive _ da A).
    + right. apply scanned_handed in A as (x & A). apply (Hlive (EvData (snd b)) x). apply Hinc.
      eapply da_events_data; [exact A|exact Hn].
Qed.

(* the instance for the default provider on the fault-free model of the first part *)
Theorem da_complete exec g k C h1 ct c0 outs h2 m :
  ChainValid exec g k C -> distinct_commitmentsb C = true ->
  Forall (item_in C) h1 -> Forall (item_in C) h2 -> forallb is_clean h2 = true ->
  incl (da_events C (da_handed ct c0 outs)) h2 ->
  (m <= length C)%nat ->
  (forall i b, (i < m)%nat -> nth_error C i = Some b ->
     g_initial g + N.of_nat i <= d_height (n_disk (run exec g h1)) \/ header_delivered h2 b \/
     scanned ct c0 outs (PH (N.of_nat i))) ->
  (forall i b, (i < m)%nat -> nth_error C i = Some b -> d_txs (snd b) <> [] ->
     g_initial g + N.of_nat i <= d_height (n_disk (run exec g h1)) \/ data_delivered h2 b \/
     scanned ct c0 outs (PD (N.of_nat i))) ->
  g_initial g + N.of_nat m - 1 <= d_height (n_disk (run exec g (h1 ++ h2))).
Proof.
  intros HV HD Ha1 Ha2 Hcl Hinc Hm Hh Hd.
  pose proof (da_complete_p exec 0 g k C (map lift h1) ct c0 outs h2 m) as P.
  rewrite <- map_app, !frun_lift in P. apply P; try assumption.
  all: first [ apply ChainValid_P0; exact HV | apply item_in_lift; exact Ha1 | apply live_lift; reflexivity ].
Qed.

(* ---- non-vacuity: a concrete DA layer and a concrete run of requests ---------------------------------- *)
(* 6 blocks (Props/C02.v ex6: initial height 5, blocks 0, 2, 3 empty); DA heights 1..5, height 3 holds nothing;
   the header of block 1 sits ABOVE its data, block 0 is not on the DA layer at all *)
Definition ex_da : content :=
  [ (1, [PD 1; PH 2]); (2, [PH 1; PH 3]); (4, [PD 4; PH 4; PH 5]); (5, [PD 5]) ].
(* scan from 0: height 0 holds nothing; height 1 meets a deadline of the DA node, a cancelled context, a timeout
   of the request, then answers; height 2: a Get fails with a generic error, with "not found", then works;
   height 3: nothing there; height 4: GetIDs says "from the future" twice (the DA node lags), a Get is
   cancelled, then it answers; height 5 answers; height 6 does not exist yet *)
Definition ex_outs : list outcome :=
  [ OIds ENotFound;
    OIds EDeadlineDA; OIds ECanceledCtx; OIds EDeadlineCtx; OOk;
    OGet EGeneric; OGet ENotFound; OOk;
    OIds ENotFound;
    OIds EFuture; OIds EFuture; OGet ECanceledDA; OOk;
    OOk;
    OIds EFuture; OIds EFuture ].
