(* Proofs/BasedProofs.v — lemmas about Model/Based.v (the repaired based sequencer), for histories that may
   contain requests that cannot be used (foreign chain id, malformed LastBatchData) and calls under a
   cancelled context. *)
From Coq Require Import NArith List Bool Lia ZifyBool ZifyN ZifyNat.
From Verif Require Import Model.Based.
Import ListNotations.
Open Scope N_scope.

(* ---- sizes ------------------------------------------------------------------------------------- *)
Lemma total_cons : forall t p, total (t :: p) = t_sz t + total p.
Proof. reflexivity. Qed.

Lemma total_app : forall a b, total (a ++ b) = total a + total b.
Proof. induction a as [|t a IH]; intros b. - reflexivity. - rewrite <- app_comm_cons, !total_cons, IH. lia. Qed.

Lemma eff_max_pos : forall m, 0 < eff_max m.
Proof. intros m. unfold eff_max. destruct (m =? 0) eqn:E; lia. Qed.

(* ---- PopUpToMaxBytes ---------------------------------------------------------------------------- *)
Lemma pop_entry_spec : forall maxb txs size p rest s,
  pop_entry maxb txs size = (p, rest, s) ->
  p ++ rest = txs /\ s = size + total p /\ (size <= maxb -> s <= maxb).
Proof.
  induction txs as [|t r IH]; intros size p rest s H; cbn [pop_entry] in H.
  - inversion H; subst. cbn. repeat split; lia.
  - destruct (maxb <? size + t_sz t) eqn:E.
    + inversion H; subst. cbn. repeat split; lia.
    + destruct (pop_entry maxb r (size + t_sz t)) as [[p' rest'] s'] eqn:E2.
      inversion H; subst. apply IH in E2. destruct E2 as (A & B & C).
      rewrite total_cons. repeat split.
      * cbn. now rewrite A.
      * lia.
      * intros. apply C. lia.
Qed.

Lemma pop_spec : forall maxb q size ts p q1 s ts',
  pop maxb q size ts = (p, q1, s, ts') ->
  p ++ flat q1 = flat q /\ s = size + total p /\ (size <= maxb -> s <= maxb).
Proof.
  induction q as [|e q' IH]; intros size ts p q1 s ts' H; cbn [pop] in H.
  - inversion H; subst. cbn. repeat split; lia.
  - destruct (pop_entry maxb (e_txs e) size) as [[p0 rest] s0] eqn:E.
    apply pop_entry_spec in E. destruct E as (A & B & C).
    unfold flat in *. cbn [map concat].
    destruct rest as [|t0 rest].
    + destruct (pop maxb q' s0 (Some (e_ts e))) as [[[p2 q2] s2] ts2] eqn:E2.
      inversion H; subst. apply IH in E2. destruct E2 as (A2 & B2 & C2).
      rewrite app_nil_r in *. rewrite total_app. repeat split.
      * rewrite <- app_assoc. now rewrite A2, A.
      * lia.
      * intros. apply C2. now apply C.
    + inversion H; subst. cbn [map concat e_txs]. repeat split.
      * now rewrite app_assoc, A.
      * intros. now apply C.
Qed.

(* the head of the queue is popped first, or nothing is popped and the queue stays blocked by it *)
Lemma pop_head : forall maxb q size ts p q1 s ts' t l,
  pop maxb q size ts = (p, q1, s, ts') ->
  flat q = t :: l ->
  (exists p', p = t :: p') \/
  (p = [] /\ flat q1 = t :: l /\ q1 <> [] /\ maxb < size + t_sz t).
Proof.
  induction q as [|e q' IH]; intros size ts p q1 s ts' t l H F; cbn [pop] in H.
  - discriminate.
  - unfold flat in F. cbn [map concat] in F.
    destruct (e_txs e) as [|t0 r] eqn:Ee.
    + cbn [pop_entry] in H.
      destruct (pop maxb q' size (Some (e_ts e))) as [[[p2 q2] s2] ts2] eqn:E2.
      inversion H; subst. cbn [app] in *. eapply IH; eauto.
    + cbn [app] in F. inversion F; subst t0 l. cbn [pop_entry] in H.
      destruct (maxb <? size + t_sz t) eqn:E.
      * inversion H; subst. right. split; [reflexivity|]. split; [reflexivity|]. split; [discriminate|lia].
      * destruct (pop_entry maxb r (size + t_sz t)) as [[p' rest'] s'] eqn:E3.
        destruct rest' as [|t1 rest'].
        -- destruct (pop maxb q' s' (Some (e_ts e))) as [[[p2 q2] s2] ts2] eqn:E2.
           inversion H; subst. left. eexists. reflexivity.
        -- inversion H; subst. left. eexists. reflexivity.
Qed.

Lemma pop_flat_nil : forall maxb q size ts,
  flat q = [] -> exists ts', pop maxb q size ts = ([], [], size, ts').
Proof.
  induction q as [|e q' IH]; intros size ts F.
  - eexists. reflexivity.
  - unfold flat in F. cbn [map concat] in F. apply app_eq_nil in F. destruct F as [F1 F2].
    cbn [pop]. rewrite F1. cbn [pop_entry].
    destruct (IH size (Some (e_ts e)) F2) as [ts' E]. rewrite E. eexists. reflexivity.
Qed.

(* ---- the loop over one height ---------------------------------------------------------------------- *)
Lemma take_fit_spec : forall maxb txs size p rest s,
  take_fit maxb txs size = (p, rest, s) ->
  p ++ rest = txs /\ s = size + total p /\ (size <= maxb -> s <= maxb).
Proof.
  induction txs as [|t r IH]; intros size p rest s H; cbn [take_fit] in H.
  - inversion H; subst. cbn. repeat split; lia.
  - destruct (maxb <=? size + t_sz t) eqn:E.
    + inversion H; subst. cbn. repeat split; lia.
    + destruct (take_fit maxb r (size + t_sz t)) as [[p' rest'] s'] eqn:E2.
      inversion H; subst. apply IH in E2. destruct E2 as (A & B & C).
      rewrite total_cons. repeat split.
      * cbn. now rewrite A.
      * lia.
      * intros. apply C. lia.
Qed.

Lemma retrieve_ok : forall daf tip h code txs,
  retrieve daf tip h code = DOk txs -> txs = daf h /\ h <= tip.
Proof.
  intros daf tip h code txs H. unfold retrieve in H.
  destruct (code =? 1); [discriminate|].
  destruct (tip <? h) eqn:E; [discriminate|].
  destruct (daf h) as [|t r] eqn:D.
  - inversion H. split; [reflexivity|lia].
  - destruct (code =? 2); [discriminate|]. inversion H. split; [reflexivity|lia].
Qed.

(* ---- the DA stream ------------------------------------------------------------------------------------ *)
Section Stream.
Variable daf : N -> list tx.

Lemma stream_n_app : forall n m a,
  stream_n daf a (n + m)%nat = stream_n daf a n ++ stream_n daf (a + N.of_nat n) m.
Proof.
  induction n as [|n IH]; intros m a.
  - cbn. now rewrite N.add_0_r.
  - cbn [stream_n Nat.add]. rewrite IH, <- app_assoc. do 2 f_equal. f_equal. lia.
Qed.

Lemma stream_split : forall a b c, a <= b -> b <= c ->
  stream daf a c = stream daf a b ++ stream daf b c.
Proof.
  intros a b c H1 H2. unfold stream.
  replace (N.to_nat (c - a)) with (N.to_nat (b - a) + N.to_nat (c - b))%nat by lia.
  rewrite stream_n_app. do 2 f_equal. lia.
Qed.

Lemma stream_self : forall a, stream daf a a = [].
Proof. intros a. unfold stream. now rewrite N.sub_diag. Qed.

Lemma stream_one : forall a, stream daf a (a + 1) = daf a.
Proof.
  intros a. unfold stream. replace (a + 1 - a) with 1 by lia. change (N.to_nat 1) with 1%nat. cbn [stream_n]. apply app_nil_r.
Qed.

Lemma stream_n_heights : wf_da daf -> forall n a t,
  In t (stream_n daf a n) -> a <= t_h t /\ t_h t < a + N.of_nat n.
Proof.
  intros W. induction n as [|n IH]; intros a t H; cbn [stream_n] in H.
  - contradiction.
  - apply in_app_or in H. destruct H as [H|H].
    + apply W in H. lia.
    + apply IH in H. lia.
Qed.

Lemma stream_heights : wf_da daf -> forall a b t, a <= b ->
  In t (stream daf a b) -> a <= t_h t /\ t_h t < b.
Proof.
  intros W a b t L H. unfold stream in H. apply (stream_n_heights W) in H. lia.
Qed.
End Stream.

(* ---- the scan loop ---------------------------------------------------------------------------------------- *)
Definition push_flat (o : option entry) : list tx := match o with Some e => e_txs e | None => [] end.

Lemma scan_spec : forall daf maxb tip fuel next errs size ts,
  let r := scan daf maxb tip fuel next errs size ts in
  sr_txs r ++ push_flat (sr_push r) = stream daf next (sr_next r) /\
  next <= sr_next r /\
  sr_next r <= N.max next (tip + 1) /\
  (size <= maxb -> size + total (sr_txs r) <= maxb).
Proof.
  intros daf maxb tip. induction fuel as [|f IH]; intros next errs size ts; cbn zeta.
  - cbn [scan scan_stop sr_txs sr_push sr_next push_flat app total fold_right].
    rewrite stream_self. repeat split; lia.
  - cbn [scan]. destruct (size <? maxb) eqn:Es.
    2:{ cbn [scan_stop sr_txs sr_push sr_next push_flat app total fold_right].
        rewrite stream_self. repeat split; lia. }
    destruct (retrieve daf tip next (hd 0 errs)) as [| |txs] eqn:R.
    1,2: cbn [scan_stop sr_txs sr_push sr_next push_flat app total fold_right];
         rewrite stream_self; repeat split; lia.
    apply retrieve_ok in R. destruct R as [R1 R2]. subst txs.
    destruct (take_fit maxb (daf next) size) as [[p rest] s] eqn:T.
    apply take_fit_spec in T. destruct T as (A & B & C).
    destruct rest as [|t0 rest].
    + rewrite app_nil_r in A. subst p.
      specialize (IH (next + 1) (tl errs) s (match daf next with [] => ts | _ => Some next end)).
      cbn zeta in IH. destruct IH as (I1 & I2 & I3 & I4).
      cbn [sr_txs sr_push sr_next]. repeat split.
      * rewrite <- app_assoc, I1.
        rewrite (stream_split daf next (next + 1)) by lia. now rewrite stream_one.
      * lia.
      * lia.
      * intros. rewrite total_app. specialize (C H). specialize (I4 C). lia.
    + cbn [sr_txs sr_push sr_next push_flat e_txs]. repeat split.
      * now rewrite A, stream_one.
      * lia.
      * lia.
      * intros. specialize (C H). lia.
Qed.

(* ---- GetNextBatch ------------------------------------------------------------------------------------------ *)
Lemma scan_pos_ge : forall cfg s, cf_start cfg <= scan_pos cfg s.
Proof. intros cfg s. unfold scan_pos. destruct (dur_scan s); lia. Qed.

Lemma scan_pos_mk : forall cfg m d n, cf_start cfg <= n ->
  scan_pos cfg {| mem_q := m; dur_q := d; dur_scan := Some n |} = n.
Proof. intros. unfold scan_pos. cbn [dur_scan]. lia. Qed.

Lemma batch_of_mk : forall txs ts, batch_of (match txs with [] => MNone | _ => MBatch txs ts end) = txs.
Proof. intros [|t r] ts; reflexivity. Qed.

Lemma flat_app : forall a b, flat (a ++ b) = flat a ++ flat b.
Proof. intros. unfold flat. now rewrite map_app, concat_app. Qed.

Lemma flat_push : forall o, flat (match o with Some e => [e] | None => [] end) = push_flat o.
Proof. intros [e|]; unfold flat; cbn; [now rewrite app_nil_r|reflexivity]. Qed.

(* for every state and every LastBatchData: the queue is saved, and the batch respects the limit *)
Lemma gnb_always : forall cfg daf s c l s' rp lg,
  get_next_batch cfg daf s c l = (s', rp, lg) ->
  mem_q s' = dur_q s' /\ total (batch_of rp) <= eff_max (c_max c).
Proof.
  intros cfg daf s c l s' rp lg H. unfold get_next_batch in H.
  destruct (pop (eff_max (c_max c)) (mem_q s) 0 None) as [[[popped q1] size] ts] eqn:P.
  apply pop_spec in P. destruct P as (PA & PB & PC).
  pose proof (eff_max_pos (c_max c)) as MP.
  destruct (match l with
            | Some h => if scan_pos cfg s <? h then (h, h + 1) else (scan_pos cfg s, scan_pos cfg s)
            | None => (scan_pos cfg s, scan_pos cfg s) end) as [last next0].
  destruct q1 as [|e1 q1].
  - pose proof (scan_spec daf (eff_max (c_max c)) (c_tip c) (N.to_nat (last + cf_drift cfg + 1 - next0))
                  next0 (call_errs c) size ts) as S. cbn zeta in S. destruct S as (_ & _ & _ & S4).
    inversion H; subst. cbn [mem_q dur_q]. split; [reflexivity|].
    rewrite batch_of_mk, total_app. specialize (PC ltac:(lia)). specialize (S4 PC). lia.
  - inversion H; subst. cbn [mem_q dur_q]. split; [reflexivity|].
    rewrite batch_of_mk. cbn [scan_stop sr_txs]. rewrite app_nil_r. specialize (PC ltac:(lia)). lia.
Qed.

(* the head of the carry-over queue comes first *)
Lemma gnb_carry_first : forall cfg daf s c l s' rp lg t rest,
  get_next_batch cfg daf s c l = (s', rp, lg) ->
  flat (mem_q s) = t :: rest ->
  (exists txs ts, rp = MBatch (t :: txs) ts) \/
  (rp = MNone /\ flat (mem_q s') = t :: rest /\ eff_max (c_max c) < t_sz t).
Proof.
  intros cfg daf s c l s' rp lg t rest H F. unfold get_next_batch in H.
  destruct (pop (eff_max (c_max c)) (mem_q s) 0 None) as [[[popped q1] size] ts] eqn:P.
  pose proof (pop_head _ _ _ _ _ _ _ _ _ _ P F) as PH.
  destruct (match l with
            | Some h => if scan_pos cfg s <? h then (h, h + 1) else (scan_pos cfg s, scan_pos cfg s)
            | None => (scan_pos cfg s, scan_pos cfg s) end) as [last next0].
  destruct PH as [[p' PH]|(PH1 & PH2 & PH3 & PH4)].
  - subst popped. left. destruct q1; inversion H; subst; cbn [app]; eauto.
  - subst popped. right. destruct q1 as [|e1 q1]; [congruence|].
    inversion H; subst. cbn [scan_stop sr_txs sr_push mem_q app]. repeat split.
    + now rewrite app_nil_r.
    + lia.
Qed.

(* the invariant step: with LastBatchData below the scan position (or absent) *)
Lemma gnb_inv : forall cfg daf s c l s' rp lg rel,
  wf_da daf ->
  rel ++ flat (mem_q s) = stream daf (cf_start cfg) (scan_pos cfg s) ->
  (forall h, l = Some h -> h < scan_pos cfg s) ->
  get_next_batch cfg daf s c l = (s', rp, lg) ->
  (rel ++ batch_of rp) ++ flat (mem_q s') = stream daf (cf_start cfg) (scan_pos cfg s') /\
  scan_pos cfg s <= scan_pos cfg s' /\
  scan_pos cfg s' <= N.max (scan_pos cfg s) (c_tip c + 1).
Proof.
  intros cfg daf s c l s' rp lg rel W I L H. unfold get_next_batch in H.
  destruct (pop (eff_max (c_max c)) (mem_q s) 0 None) as [[[popped q1] size] ts] eqn:P.
  apply pop_spec in P. destruct P as (PA & PB & PC).
  pose proof (scan_pos_ge cfg s) as G.
  assert (E : match l with
            | Some h => if scan_pos cfg s <? h then (h, h + 1) else (scan_pos cfg s, scan_pos cfg s)
            | None => (scan_pos cfg s, scan_pos cfg s) end = (scan_pos cfg s, scan_pos cfg s)).
  { destruct l as [h|]; [|reflexivity]. specialize (L h eq_refl).
    destruct (scan_pos cfg s <? h) eqn:E; [lia|reflexivity]. }
  rewrite E in H. clear E.
  destruct q1 as [|e1 q1].
  - pose proof (scan_spec daf (eff_max (c_max c)) (c_tip c)
                  (N.to_nat (scan_pos cfg s + cf_drift cfg + 1 - scan_pos cfg s))
                  (scan_pos cfg s) (call_errs c) size ts) as S. cbn zeta in S.
    remember (scan daf (eff_max (c_max c)) (c_tip c)
                  (N.to_nat (scan_pos cfg s + cf_drift cfg + 1 - scan_pos cfg s))
                  (scan_pos cfg s) (call_errs c) size ts) as r eqn:Hr.
    destruct S as (S1 & S2 & S3 & _).
    inversion H; subst s' rp lg. clear H. rewrite batch_of_mk.
    rewrite scan_pos_mk by lia. cbn [mem_q app].
    rewrite flat_push. cbn [flat map concat] in PA. rewrite app_nil_r in PA.
    repeat split; try lia.
    rewrite (stream_split daf (cf_start cfg) (scan_pos cfg s)) by lia.
    rewrite <- I, <- S1, <- PA. now rewrite !app_assoc.
  - inversion H; subst s' rp lg. clear H. rewrite batch_of_mk.
    cbn [scan_stop sr_txs sr_push sr_next]. rewrite scan_pos_mk by lia. cbn [mem_q].
    rewrite !app_nil_r. repeat split; try lia.
    rewrite <- I, <- PA. now rewrite !app_assoc.
Qed.

(* ---- any request: usable or not -------------------------------------------------------------------------------- *)
Lemma gnb_usable : forall cfg daf s c l, unusable c = None ->
  gnb cfg daf s c l = get_next_batch cfg daf s c l.
Proof. intros cfg daf s c l U. unfold gnb. now rewrite U. Qed.

Lemma gnb_unusable : forall cfg daf s c l e, unusable c = Some e ->
  gnb cfg daf s c l = (s, MErr e, []).
Proof. intros cfg daf s c l e U. unfold gnb. now rewrite U. Qed.

(* the size limit, for every request; the queue in memory is the stored queue after the call if it was before *)
Lemma gnb_size : forall cfg daf s c l s' rp lg,
  gnb cfg daf s c l = (s', rp, lg) -> total (batch_of rp) <= eff_max (c_max c).
Proof.
  intros cfg daf s c l s' rp lg H. unfold gnb in H. destruct (unusable c) as [e|].
  - inversion H; subst. cbn [batch_of total fold_right]. pose proof (eff_max_pos (c_max c)). lia.
  - eapply gnb_always; eauto.
Qed.

Lemma gnb_saved : forall cfg daf s c l s' rp lg,
  mem_q s = dur_q s -> gnb cfg daf s c l = (s', rp, lg) -> mem_q s' = dur_q s'.
Proof.
  intros cfg daf s c l s' rp lg E H. unfold gnb in H. destruct (unusable c) as [e|].
  - inversion H; subst. exact E.
  - eapply gnb_always; eauto.
Qed.

(* ---- histories ------------------------------------------------------------------------------------------------ *)
Definition Inv (cfg : config) (daf : N -> list tx) (y : sys) (rel : list tx) : Prop :=
  mem_q (sy_st y) = dur_q (sy_st y) /\
  rel ++ carry y = stream daf (cf_start cfg) (scan_pos cfg (sy_st y)) /\
  (forall h, sy_lbd y = Some h -> h < scan_pos cfg (sy_st y)).

Lemma restart_id : forall s, mem_q s = dur_q s -> restart s = s.
Proof. intros [m d sc] H. cbn in *. subst. reflexivity. Qed.

Lemma step_restart : forall cfg daf y, mem_q (sy_st y) = dur_q (sy_st y) ->
  step cfg daf y IRestart = (y, None).
Proof. intros cfg daf [s l] H. cbn [step sy_st sy_lbd] in *. now rewrite restart_id. Qed.

Lemma last_height_in : forall txs h, last_height txs = Some h -> exists t, In t txs /\ t_h t = h.
Proof.
  unfold last_height. intros txs h H. destruct (rev txs) as [|t r] eqn:E; [discriminate|].
  inversion H. exists t. split; [|reflexivity]. apply in_rev. rewrite E. now left.
Qed.

Lemma step_unusable : forall cfg daf y c e, unusable c = Some e ->
  step cfg daf y (ICall c) = (y, Some (MErr e, [])).
Proof.
  intros cfg daf [s l] c e U. cbn [step sy_st sy_lbd]. rewrite (gnb_unusable _ _ _ _ _ _ U). reflexivity.
Qed.

Lemma step_call_inv : forall cfg daf y c rel,
  wf_da daf -> Inv cfg daf y rel ->
  match c_lbd c with LRaw _ => false | _ => true end = true ->
  exists y' rp lg,
    step cfg daf y (ICall c) = (y', Some (rp, lg)) /\
    Inv cfg daf y' (rel ++ batch_of rp) /\
    scan_pos cfg (sy_st y) <= scan_pos cfg (sy_st y') /\
    scan_pos cfg (sy_st y') <= N.max (scan_pos cfg (sy_st y)) (c_tip c + 1).
Proof.
  intros cfg daf y c rel W (I1 & I2 & I3) M.
  destruct (unusable c) as [e|] eqn:U.
  { (* a request that cannot be used: nothing changes *)
    exists y, (MErr e), []. split; [exact (step_unusable cfg daf y c e U)|].
    cbn [batch_of]. rewrite app_nil_r. split; [repeat split; assumption|lia]. }
  unfold step. rewrite (gnb_usable _ _ _ _ _ U).
  destruct (get_next_batch cfg daf (sy_st y) c (lbd_of (sy_lbd y) c)) as [[s' rp] lg] eqn:G.
  eexists _, _, _. split; [reflexivity|].
  pose proof (gnb_always _ _ _ _ _ _ _ _ G) as [GA _].
  assert (L : forall h, lbd_of (sy_lbd y) c = Some h -> h < scan_pos cfg (sy_st y)).
  { unfold lbd_of. destruct (c_lbd c); [exact I3|discriminate|discriminate|discriminate]. }
  unfold carry in I2.
  pose proof (gnb_inv _ _ _ _ _ _ _ _ _ W I2 L G) as (J1 & J2 & J3).
  split; [|split; assumption]. unfold Inv, carry. cbn [sy_st sy_lbd].
  split; [exact GA|]. split; [exact J1|].
  intros h Hh. destruct rp as [|txs ts|e].
  - apply I3 in Hh. lia.
  - apply last_height_in in Hh. destruct Hh as (t & Ht & Hth). cbn [batch_of] in J1.
    assert (Hin : In t (stream daf (cf_start cfg) (scan_pos cfg s'))).
    { rewrite <- J1. apply in_or_app. left. apply in_or_app. now right. }
    apply (stream_heights daf W) in Hin; [lia|apply scan_pos_ge].
  - apply I3 in Hh. lia.
Qed.

Lemma released_call : forall cfg daf y c h y' rp lg,
  step cfg daf y (ICall c) = (y', Some (rp, lg)) ->
  released cfg daf y (ICall c :: h) = batch_of rp ++ released cfg daf y' h.
Proof. intros. unfold released. cbn [trace]. rewrite H. reflexivity. Qed.

Lemma released_restart : forall cfg daf y h,
  released cfg daf y (IRestart :: h) = released cfg daf (fst (step cfg daf y IRestart)) h.
Proof. intros. unfold released. cbn [trace step snd]. reflexivity. Qed.

Lemma run_inv : forall cfg daf, wf_da daf -> forall h y rel,
  manager_lbd h = true -> Inv cfg daf y rel ->
  Inv cfg daf (final cfg daf y h) (rel ++ released cfg daf y h) /\
  scan_pos cfg (sy_st y) <= scan_pos cfg (sy_st (final cfg daf y h)) /\
  scan_pos cfg (sy_st (final cfg daf y h)) <= N.max (scan_pos cfg (sy_st y)) (max_tip h + 1).
Proof.
  intros cfg daf W. induction h as [|it h IH]; intros y rel M I.
  - unfold released. cbn [final trace map concat max_tip]. rewrite app_nil_r. split; [exact I|lia].
  - cbn [manager_lbd forallb] in M. apply andb_prop in M. destruct M as [M1 M2].
    destruct it as [c|].
    + destruct (step_call_inv cfg daf y c rel W I M1) as (y' & rp & lg & E & I' & P1 & P2).
      rewrite (released_call _ _ _ _ _ _ _ _ E). cbn [final max_tip]. rewrite E. cbn [fst].
      destruct (IH y' (rel ++ batch_of rp) M2 I') as (A & B & C).
      rewrite app_assoc. split; [exact A|]. lia.
    + rewrite released_restart. cbn [final max_tip].
      destruct I as (I1 & I2 & I3). rewrite (step_restart _ _ _ I1). cbn [fst].
      apply IH; [exact M2|]. repeat split; assumption.
Qed.

Lemma inv_init : forall cfg daf, Inv cfg daf init_sys [].
Proof.
  intros. unfold Inv, carry, init_sys, init, scan_pos. cbn. rewrite stream_self.
  repeat split. intros; discriminate.
Qed.

(* C20: DA order, exactly once, nothing dropped *)
Theorem order_once : forall cfg daf h, wf_da daf -> manager_lbd h = true ->
  released cfg daf init_sys h ++ carry (final cfg daf init_sys h) =
  stream daf (cf_start cfg) (scan_pos cfg (sy_st (final cfg daf init_sys h))).
Proof.
  intros cfg daf h W M.
  destruct (run_inv cfg daf W h init_sys [] M (inv_init cfg daf)) as ((_ & A & _) & _).
  exact A.
Qed.

Theorem order_prefix : forall cfg daf h, wf_da daf -> manager_lbd h = true ->
  exists b rest, stream daf (cf_start cfg) b = released cfg daf init_sys h ++ rest.
Proof.
  intros cfg daf h W M. eexists _, _. symmetry. apply order_once; assumption.
Qed.

Theorem pos_bound : forall cfg daf h, wf_da daf -> manager_lbd h = true ->
  scan_pos cfg (sy_st (final cfg daf init_sys h)) <= N.max (cf_start cfg) (max_tip h + 1).
Proof.
  intros cfg daf h W M.
  destruct (run_inv cfg daf W h init_sys [] M (inv_init cfg daf)) as (_ & _ & A).
  exact A.
Qed.

(* C20: the size limit, for every history and every LastBatchData *)
Theorem size_bound : forall cfg daf h c,
  total (batch_of (call_resp cfg daf (final cfg daf init_sys h) c)) <= eff_max (c_max c).
Proof.
  intros cfg daf h c. unfold call_resp.
  destruct (gnb cfg daf (sy_st (final cfg daf init_sys h)) c
              (lbd_of (sy_lbd (final cfg daf init_sys h)) c)) as [[s' rp] lg] eqn:G.
  cbn [fst snd]. eapply gnb_size; eauto.
Qed.

(* C20: what did not fit comes first in the next batch, for every history and every LastBatchData that can be used *)
Theorem carry_first : forall cfg daf h c t rest,
  unusable c = None ->
  carry (final cfg daf init_sys h) = t :: rest ->
  (exists txs ts, call_resp cfg daf (final cfg daf init_sys h) c = MBatch (t :: txs) ts) \/
  (call_resp cfg daf (final cfg daf init_sys h) c = MNone /\
   carry (after_call cfg daf (final cfg daf init_sys h) c) = t :: rest /\
   eff_max (c_max c) < t_sz t).
Proof.
  intros cfg daf h c t rest U F. unfold call_resp, after_call, step, carry in *.
  rewrite (gnb_usable _ _ _ _ _ U).
  destruct (get_next_batch cfg daf (sy_st (final cfg daf init_sys h)) c
              (lbd_of (sy_lbd (final cfg daf init_sys h)) c)) as [[s' rp] lg] eqn:G.
  cbn [fst snd sy_st]. eapply gnb_carry_first; eauto.
Qed.

(* C20: restarts change nothing *)
Lemma restart_safe_gen : forall cfg daf h y, mem_q (sy_st y) = dur_q (sy_st y) ->
  trace cfg daf y h = trace cfg daf y (no_restarts h) /\
  final cfg daf y h = final cfg daf y (no_restarts h).
Proof.
  intros cfg daf. induction h as [|it h IH]; intros y E.
  - split; reflexivity.
  - destruct it as [c|].
    + cbn [no_restarts filter trace final]. fold (no_restarts h).
      assert (E' : mem_q (sy_st (fst (step cfg daf y (ICall c)))) = dur_q (sy_st (fst (step cfg daf y (ICall c))))).
      { unfold step. destruct (gnb cfg daf (sy_st y) c (lbd_of (sy_lbd y) c)) as [[s' rp] lg] eqn:G.
        cbn [fst sy_st]. eapply gnb_saved; eauto. }
      destruct (IH _ E') as [A B]. rewrite A, B. split; reflexivity.
    + cbn [no_restarts filter]. fold (no_restarts h). cbn [trace final].
      rewrite (step_restart _ _ _ E). cbn [fst snd]. apply IH. exact E.
Qed.

Theorem restart_safe : forall cfg daf h,
  trace cfg daf init_sys h = trace cfg daf init_sys (no_restarts h) /\
  final cfg daf init_sys h = final cfg daf init_sys (no_restarts h).
Proof. intros. apply restart_safe_gen. reflexivity. Qed.

(* ---- the harness's DA contents are well formed ---------------------------------------------------------------- *)
Lemma mk_txs_h : forall szs h i t, In t (mk_txs h i szs) -> t_h t = h.
Proof.
  induction szs as [|s r IH]; intros h i t H; cbn [mk_txs] in H.
  - contradiction.
  - destruct H as [H|H]; [subst; reflexivity|eapply IH; eauto].
Qed.

Lemma da_at_wf : forall da, wf_da (da_at da).
Proof.
  intros da h t H. unfold da_at in H.
  destruct (find (fun p => fst p =? h) da) as [p|]; [eapply mk_txs_h; eauto|contradiction].
Qed.

(* ---- progress ------------------------------------------------------------------------------------------------------ *)
Lemma scan_first_ok : forall daf maxb tip f next errs ts txs,
  0 < maxb -> retrieve daf tip next (hd 0 errs) = DOk txs ->
  next < sr_next (scan daf maxb tip (S f) next errs 0 ts).
Proof.
  intros daf maxb tip f next errs ts txs Hm R. cbn [scan].
  destruct (0 <? maxb) eqn:E; [|lia]. rewrite R.
  destruct (take_fit maxb txs 0) as [[p rest] s] eqn:T. destruct rest as [|t0 rest].
  - cbn [sr_next].
    pose proof (scan_spec daf maxb tip f (next + 1) (tl errs) s (match p with [] => ts | _ => Some next end)) as S.
    cbn zeta in S. lia.
  - cbn [sr_next]. lia.
Qed.

(* with an empty carry-over queue, a call whose first retrieval is answered advances the scan position *)
Theorem progress_scan : forall cfg daf h c txs, wf_da daf ->
  manager_lbd (h ++ [ICall c]) = true ->
  unusable c = None ->
  carry (final cfg daf init_sys h) = [] ->
  retrieve daf (c_tip c) (scan_pos cfg (sy_st (final cfg daf init_sys h))) (hd 0 (call_errs c)) = DOk txs ->
  scan_pos cfg (sy_st (final cfg daf init_sys h)) <
  scan_pos cfg (sy_st (after_call cfg daf (final cfg daf init_sys h) c)).
Proof.
  intros cfg daf h c txs W M U F R.
  unfold manager_lbd in M. rewrite forallb_app in M. apply andb_prop in M. destruct M as [M1 M2].
  cbn [forallb] in M2. rewrite andb_true_r in M2.
  destruct (run_inv cfg daf W h init_sys [] M1 (inv_init cfg daf)) as ((I1 & I2 & I3) & _).
  remember (final cfg daf init_sys h) as y eqn:Hy. clear Hy.
  pose proof (scan_pos_ge cfg (sy_st y)) as G.
  unfold after_call, step. rewrite (gnb_usable _ _ _ _ _ U). unfold get_next_batch. unfold carry in F.
  destruct (pop_flat_nil (eff_max (c_max c)) (mem_q (sy_st y)) 0 None F) as [ts' P]. rewrite P.
  assert (E : match lbd_of (sy_lbd y) c with
            | Some h => if scan_pos cfg (sy_st y) <? h then (h, h + 1) else (scan_pos cfg (sy_st y), scan_pos cfg (sy_st y))
            | None => (scan_pos cfg (sy_st y), scan_pos cfg (sy_st y)) end = (scan_pos cfg (sy_st y), scan_pos cfg (sy_st y))).
  { unfold lbd_of. destruct (c_lbd c) as [| |x|]; [|reflexivity|discriminate|reflexivity].
    destruct (sy_lbd y) as [x|]; [|reflexivity]. specialize (I3 x eq_refl).
    destruct (scan_pos cfg (sy_st y) <? x) eqn:E; [lia|reflexivity]. }
  rewrite E. cbn [fst sy_st].
  destruct (N.to_nat (scan_pos cfg (sy_st y) + cf_drift cfg + 1 - scan_pos cfg (sy_st y))) as [|f] eqn:Fu; [lia|].
  pose proof (scan_first_ok daf (eff_max (c_max c)) (c_tip c) f (scan_pos cfg (sy_st y)) (call_errs c) ts' txs
                (eff_max_pos _) R) as S.
  rewrite scan_pos_mk by lia. exact S.
Qed.

(* a carry-over head that fits the limit is released by the next call *)
Theorem progress_carry : forall cfg daf h c t rest,
  unusable c = None ->
  carry (final cfg daf init_sys h) = t :: rest ->
  t_sz t <= eff_max (c_max c) ->
  exists txs ts, call_resp cfg daf (final cfg daf init_sys h) c = MBatch (t :: txs) ts.
Proof.
  intros cfg daf h c t rest U F L.
  destruct (carry_first cfg daf h c t rest U F) as [A|(_ & _ & B)]; [exact A|lia].
Qed.

(* ---- requests that cannot be used --------------------------------------------------------------------------------- *)
Lemma final_app : forall cfg daf h1 h2 y,
  final cfg daf y (h1 ++ h2) = final cfg daf (final cfg daf y h1) h2.
Proof. intros cfg daf. induction h1 as [|it h1 IH]; intros h2 y; [reflexivity|]. cbn [app final]. apply IH. Qed.

Lemma trace_app : forall cfg daf h1 h2 y,
  trace cfg daf y (h1 ++ h2) = trace cfg daf y h1 ++ trace cfg daf (final cfg daf y h1) h2.
Proof.
  intros cfg daf. induction h1 as [|it h1 IH]; intros h2 y; [reflexivity|].
  cbn [app trace final]. destruct (snd (step cfg daf y it)) as [[rp lg]|]; rewrite IH; reflexivity.
Qed.

Lemma released_app : forall cfg daf h1 h2 y,
  released cfg daf y (h1 ++ h2) = released cfg daf y h1 ++ released cfg daf (final cfg daf y h1) h2.
Proof. intros. unfold released. now rewrite trace_app, map_app, concat_app. Qed.

(* one such call: an error, and the system (carry-over in memory, stored queue, stored scan position, and what
   the caller will pass next) is what it was; no DA height is retrieved *)
Theorem unusable_call : forall cfg daf y c e, unusable c = Some e ->
  call_resp cfg daf y c = MErr e /\
  after_call cfg daf y c = y /\
  snd (step cfg daf y (ICall c)) = Some (MErr e, []).
Proof.
  intros cfg daf y c e U. unfold call_resp, after_call.
  rewrite (step_unusable cfg daf y c e U), (gnb_unusable _ _ _ _ _ _ U). repeat split.
Qed.

(* any number of them, anywhere in a history: the released sequence and the final system are those of the
   history without them *)
Theorem unusable_interleaved : forall cfg daf h y,
  released cfg daf y h = released cfg daf y (usable_only h) /\
  final cfg daf y h = final cfg daf y (usable_only h).
Proof.
  intros cfg daf. induction h as [|it h IH]; intros y; [split; reflexivity|].
  unfold usable_only. cbn [filter]. fold (usable_only h).
  destruct it as [c|]; cbn [usable_item].
  - destruct (unusable c) as [e|] eqn:U.
    + unfold released. cbn [trace final]. rewrite (step_unusable cfg daf y c e U). cbn [fst snd map concat batch_of app].
      apply IH.
    + unfold released in *. cbn [trace final].
      destruct (IH (fst (step cfg daf y (ICall c)))) as [A B].
      destruct (snd (step cfg daf y (ICall c))) as [[rp lg]|].
      * cbn [map concat]. rewrite A, B. split; reflexivity.
      * rewrite A, B. split; reflexivity.
  - unfold released in *. cbn [trace final step snd fst]. apply IH.
Qed.

Theorem unusable_no_effect : forall cfg daf h1 h2 c e, unusable c = Some e ->
  call_resp cfg daf (final cfg daf init_sys h1) c = MErr e /\
  after_call cfg daf (final cfg daf init_sys h1) c = final cfg daf init_sys h1 /\
  released cfg daf init_sys (h1 ++ ICall c :: h2) = released cfg daf init_sys (h1 ++ h2) /\
  final cfg daf init_sys (h1 ++ ICall c :: h2) = final cfg daf init_sys (h1 ++ h2).
Proof.
  intros cfg daf h1 h2 c e U.
  destruct (unusable_call cfg daf (final cfg daf init_sys h1) c e U) as (A & B & _).
  split; [exact A|]. split; [exact B|].
  rewrite !released_app, !final_app. unfold released. cbn [trace final].
  rewrite (step_unusable cfg daf _ c e U). cbn [fst snd map concat batch_of app]. split; reflexivity.
Qed.
