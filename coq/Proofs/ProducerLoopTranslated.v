(* Proofs/ProducerLoopTranslated.v — the rule by which Model/ProducerLoop.v lets a round end the production loop
   ([loop_ends]) is what the Go loops themselves do: Manager.normalAggregationLoop, Manager.lazyAggregationLoop and
   Manager.produceBlock (block/aggregation.go) are translated from /repo's source on every run (one function per case
   of their select) and evaluated by Model/GoLite.v against scripted collaborators; Check/GoLiteAggregation.v proves,
   for ALL worlds, what each case does.  Read off those lemmas here:
     - every case that produces makes exactly ONE call of m.publishBlock with the loop's context;
     - the case returns an error — the loop ends — exactly when [loop_ends round_ok cancelled]: the round failed and
       the node's context is live; otherwise the loop goes round again (timers re-armed);
     - the cases that do not produce (a notification; the lazy loop's block timer without announced transactions)
       never end the loop. *)
From Coq Require Import String List NArith ZArith Bool.
From Verif Require Import Model.Types Model.GoLite Model.ProducerLoop Check.GoLiteAggregation.
Import ListNotations.
Open Scope string_scope.
Open Scope list_scope.

Definition publish_calls (o : aobs) : nat :=
  List.length (filter (fun e => match e with VEff n _ => n =? "m.publishBlock" | _ => false end) (ao_calls o)).

(* what a case of the translated loops did: ended the loop with an error / went round again *)
Definition case_ends (o : aobs) : bool := match ao_result o with [VErr true] => true | _ => false end.
Definition case_goes_on (o : aobs) : bool := match ao_result o with [VTok "continue" []] => true | _ => false end.

Definition producing_case_ok (w : aworld) (o : aobs) : Prop :=
  publish_calls o = 1%nat /\
  case_ends o = loop_ends (a_pub_ok w) (a_cancel w) /\
  case_goes_on o = negb (loop_ends (a_pub_ok w) (a_cancel w)).

Lemma produce_ok w pre txs :
  publish_calls {| ao_result := []; ao_calls := pre; ao_txs := None |} = 0%nat ->
  producing_case_ok w (produce w pre txs).
Proof.
  intros Hpre. unfold producing_case_ok, produce, loop_ends, publish_calls, out in *. cbn [ao_calls] in Hpre.
  destruct (a_pub_ok w), (a_cancel w); cbn [negb andb ao_calls ao_result case_ends case_goes_on];
    rewrite ?filter_app, ?app_length, ?Hpre; repeat split; reflexivity.
Qed.

(* normal mode: the block timer fired *)
Theorem translated_normal_round : forall w, exists o,
  run_case "Manager.normalAggregationLoop$blockTimer" w = Some o /\ producing_case_ok w o.
Proof.
  intros w. exists (normal_block_timer_expect w). split; [apply go_normal_blockTimer|].
  unfold producing_case_ok, normal_block_timer_expect, loop_ends, publish_calls, out.
  destruct (a_pub_ok w), (a_cancel w); cbn; repeat split; reflexivity.
Qed.

(* lazy mode: the lazy timer fired *)
Theorem translated_lazy_timer_round : forall w, exists o,
  run_case "Manager.lazyAggregationLoop$lazyTimer" w = Some o /\ producing_case_ok w o.
Proof.
  intros w. exists (lazy_timer_expect w). split; [apply go_lazy_lazyTimer|].
  apply produce_ok. reflexivity.
Qed.

(* lazy mode: the block timer fired — a round iff transactions were announced *)
Theorem translated_lazy_block_timer_round : forall w, exists o,
  run_case "Manager.lazyAggregationLoop$blockTimer" w = Some o /\
  (a_txs w = true -> producing_case_ok w o) /\
  (a_txs w = false -> publish_calls o = 0%nat /\ case_ends o = false /\ case_goes_on o = true).
Proof.
  intros w. exists (lazy_block_timer_expect w). split; [apply go_lazy_blockTimer|].
  unfold lazy_block_timer_expect. split; intros Ht; rewrite Ht.
  - apply produce_ok. reflexivity.
  - repeat split; reflexivity.
Qed.

(* a notification never ends a loop and produces nothing *)
Theorem translated_notifications : forall w, exists o1 o2,
  run_case "Manager.normalAggregationLoop$txNotifyCh" w = Some o1 /\
  run_case "Manager.lazyAggregationLoop$txNotifyCh" w = Some o2 /\
  publish_calls o1 = 0%nat /\ case_ends o1 = false /\ case_goes_on o1 = true /\
  publish_calls o2 = 0%nat /\ case_ends o2 = false /\ case_goes_on o2 = true.
Proof.
  intros w. exists (notify_expect [] w), (notify_expect [new_lazy_timer] w).
  split; [apply go_normal_txNotify|]. split; [apply go_lazy_txNotify|]. repeat split; reflexivity.
Qed.

(* in one statement: in every case of both translated loops the loop ends iff a round was made, failed, and the
   node's context is live — [loop_ends] of Model/ProducerLoop.v *)
Theorem translated_loops_end_iff : forall w,
  (exists o, run_case "Manager.normalAggregationLoop$blockTimer" w = Some o /\
             case_ends o = loop_ends (a_pub_ok w) (a_cancel w)) /\
  (exists o, run_case "Manager.lazyAggregationLoop$lazyTimer" w = Some o /\
             case_ends o = loop_ends (a_pub_ok w) (a_cancel w)) /\
  (exists o, run_case "Manager.lazyAggregationLoop$blockTimer" w = Some o /\
             case_ends o = a_txs w && loop_ends (a_pub_ok w) (a_cancel w)) /\
  (exists o, run_case "Manager.normalAggregationLoop$txNotifyCh" w = Some o /\ case_ends o = false) /\
  (exists o, run_case "Manager.lazyAggregationLoop$txNotifyCh" w = Some o /\ case_ends o = false).
Proof.
  intros w.
  destruct (translated_normal_round w) as (o1 & E1 & _ & C1 & _).
  destruct (translated_lazy_timer_round w) as (o2 & E2 & _ & C2 & _).
  destruct (translated_lazy_block_timer_round w) as (o3 & E3 & T3 & F3).
  destruct (translated_notifications w) as (o4 & o5 & E4 & E5 & _ & C4 & _ & _ & C5 & _).
  split; [exists o1; split; assumption|]. split; [exists o2; split; assumption|].
  split; [|split; [exists o4; split; assumption|exists o5; split; assumption]].
  exists o3. split; [exact E3|]. destruct (a_txs w) eqn:Ht.
  - destruct (T3 eq_refl) as (_ & C3 & _). exact C3.
  - destruct (F3 eq_refl) as (_ & C3 & _). exact C3.
Qed.
