(* Proofs/ThrottleLoopProofs.v — lemmas about Model/ThrottleLoop.v (property C08): the two loop goroutines of a
   process outlive every iteration, so every tick of every history is served and the node with its long-lived
   loops runs exactly as Model/ThrottleConc.v says (whose theorems therefore are theorems about the node). *)
From Coq Require Import NArith List Bool Lia ZifyBool ZifyN ZifyNat.
From Verif Require Import Model.Throttle Proofs.ThrottleProofs Model.ThrottleConc Proofs.ThrottleConcProofs Model.ThrottleLoop.
Import ListNotations.
Open Scope N_scope.

(* no iteration ends the loop: not an idle one, not a failed fetch, not a submission that gave up, not a
   submission the DA layer answered with "context canceled" *)
Lemma loop_goes_on_always : forall o, loop_goes_on o = true.
Proof. intros [r cs]. unfold loop_goes_on. cbn [fst]. destruct r as [|p]; [reflexivity|]. destruct p as [p|p|]; try destruct p; reflexivity. Qed.

Lemma still_true : forall kind uos, still true kind uos = true.
Proof.
  intros kind uos. unfold still. cbn [andb]. apply forallb_forall. intros uo _.
  rewrite loop_goes_on_always. apply orb_true_r.
Qed.

Definition both (n : node) : Prop := n_hl n = true /\ n_dl n = true.

Lemma live_both : forall n u, both n -> live n u = true.
Proof. intros n u [Hh Hd]. unfold live. destruct (is_h u); assumption. Qed.

Lemma filter_live : forall n us, both n -> filter (live n) us = us.
Proof.
  intros n us Hb. induction us as [|u us IH]; [reflexivity|]. cbn [filter]. rewrite (live_both n u Hb), IH. reflexivity.
Qed.

Lemma live_sched_both : forall n q, both n -> live_sched n q = q.
Proof.
  intros n [a b d e f g] Hb. unfold live_sched. cbn [q_pre q_hd q_dd q_fetch q_loop q_build].
  rewrite !(filter_live n) by assumption. f_equal.
  induction f as [|l f IH]; [reflexivity|]. cbn [map]. rewrite (filter_live n l Hb), IH. reflexivity.
Qed.

(* one item: the goroutines are still there, and the item ran as in Model/ThrottleConc.v *)
Lemma nstep_spec : forall c n x, both n ->
  both (fst (nstep c n x)) /\ n_s (fst (nstep c n x)) = fst (xstep c (n_s n) x) /\ snd (nstep c n x) = snd (xstep c (n_s n) x).
Proof.
  intros c n x Hb. pose proof Hb as [Hh Hd]. destruct x as [i|q ne].
  - destruct i as [ne|k|sc|sc|].
    + cbn [nstep]. destruct (xstep c (n_s n) (XI (IProduce ne))) as [s' o]. cbn [fst snd n_s n_hl n_dl]. repeat split; assumption.
    + cbn [nstep]. destruct (xstep c (n_s n) (XI (IProduceEmptyN k))) as [s' o]. cbn [fst snd n_s n_hl n_dl]. repeat split; assumption.
    + cbn [nstep xstep step]. unfold nsub_step. rewrite (live_both n (SHeaders sc) Hb). cbn [is_h sub_step].
      destruct (headers_iter (n_s n) sc) as [s' [r cs]]. cbn [fst snd n_s n_hl n_dl].
      repeat split; [apply loop_goes_on_always | assumption].
    + cbn [nstep xstep step]. unfold nsub_step. rewrite (live_both n (SData sc) Hb). cbn [is_h sub_step].
      destruct (data_iter (n_s n) sc) as [s' [r cs]]. cbn [fst snd n_s n_hl n_dl].
      repeat split; [assumption | apply loop_goes_on_always].
    + cbn [nstep]. destruct (xstep c (n_s n) (XI IRestart)) as [s' o]. cbn [fst snd n_s n_hl n_dl]. repeat split.
  - cbn [nstep]. rewrite (live_sched_both n q Hb).
    destruct (xstep c (n_s n) (XProduceI q ne)) as [s' o]. cbn [fst snd n_s n_hl n_dl].
    rewrite Hh, Hd, !still_true. repeat split.
Qed.

Lemma nrun_from_spec : forall c h n, both n ->
  both (fst (nrun_from c n h)) /\
  n_s (fst (nrun_from c n h)) = fst (xrun_from c (n_s n) h) /\
  map fst (snd (nrun_from c n h)) = snd (xrun_from c (n_s n) h) /\
  Forall (fun o : nobs => snd o = (true, true)) (snd (nrun_from c n h)).
Proof.
  intros c h. induction h as [|x r IH]; intros n Hb; cbn [nrun_from xrun_from].
  - cbn [fst snd map]. repeat split; try apply Hb. constructor.
  - destruct (nstep_spec c n x Hb) as [Hb1 [Es Eo]].
    destruct (nstep c n x) as [n1 o] eqn:En. cbn [fst snd] in Hb1, Es, Eo.
    destruct (xstep c (n_s n) x) as [s1 o'] eqn:Ex. cbn [fst snd] in Es, Eo. subst s1 o'.
    destruct (IH n1 Hb1) as [Hb2 [Es2 [Eo2 Hall]]].
    destruct (nrun_from c n1 r) as [n2 os]. destruct (xrun_from c (n_s n1) r) as [s2 os'].
    cbn [fst snd map] in *. repeat split; try apply Hb2; try assumption.
    + f_equal. assumption.
    + constructor; [|assumption]. cbn [snd]. destruct Hb1 as [-> ->]. reflexivity.
Qed.

Lemma boot_both : forall c, both (boot c).
Proof. intros c. split; reflexivity. Qed.

(* ---- what Props/C08.v states -------------------------------------------------------------------------------- *)
(* both loop goroutines are there after every item of every history: whatever the DA layer answered, however
   often an iteration gave up or was answered "context canceled" *)
Lemma c08l_loops_never_return : forall (c : cfg) (h : list xitem),
  Forall (fun o : nobs => snd o = (true, true)) (snd (nrun c h)) /\ n_hl (nfinal c h) = true /\ n_dl (nfinal c h) = true.
Proof.
  intros c h. destruct (nrun_from_spec c h (boot c) (boot_both c)) as [[Hh Hd] [_ [_ Hall]]].
  unfold nfinal, nrun. repeat split; assumption.
Qed.

(* … so every tick of the history is served, and the node runs as Model/ThrottleConc.v says *)
Lemma c08l_refines : forall (c : cfg) (h : list xitem),
  n_s (nfinal c h) = xfinal c h /\ map fst (snd (nrun c h)) = snd (xrun c h).
Proof.
  intros c h. destruct (nrun_from_spec c h (boot c) (boot_both c)) as [_ [Es [Eo _]]].
  unfold nfinal, nrun, xfinal, xrun. cbn [boot n_s] in *. split; assumption.
Qed.

(* a tick request after any history is served: it is Throttle's iteration *)
Lemma c08l_tick_served : forall (c : cfg) (h : list xitem) (u : sub),
  nsub_step (nfinal c h) u =
  (let '(s', o) := sub_step (xfinal c h) u in
   (mk_node s' true true, o)).
Proof.
  intros c h u. destruct (c08l_loops_never_return c h) as [_ [Hh Hd]]. destruct (c08l_refines c h) as [Es _].
  unfold nsub_step. rewrite (live_both _ u (conj Hh Hd)), Es.
  destruct (sub_step (xfinal c h) u) as [s' o]. rewrite loop_goes_on_always, Hh, Hd. destruct (is_h u); reflexivity.
Qed.

(* no deadlock, on the node with its long-lived loops: after any interleaved history — DA outages of any length
   and kind in it, iterations that gave up, iterations answered "context canceled" —, every round (both loops get
   a tick against a DA layer that accepts, then one production attempt under any schedule) produces a block *)
Lemma c08l_no_deadlock : forall (c : cfg) (rs : list xround) (h : list xitem), 1 <= c_init c ->
  Forall xround_ok rs ->
  t_height (n_s (nfinal c (h ++ flat_map xround_items rs))) = t_height (n_s (nfinal c h)) + N.of_nat (length rs).
Proof.
  intros c rs h Hi Hok. destruct (c08l_refines c (h ++ flat_map xround_items rs)) as [-> _].
  destruct (c08l_refines c h) as [-> _]. apply c08i_no_deadlock; assumption.
Qed.
