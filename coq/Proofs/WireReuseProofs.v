(* Proofs/WireReuseProofs.v — lemmas about Model/WireReuse.v (property C12): decoding into a receiver that
   is not fresh, and the values decoded earlier. *)
From Coq Require Import NArith ZArith List Bool Lia.
From Verif Require Import Model.Wire Model.WireReuse Proofs.WireProofs.
Import ListNotations.
Open Scope N_scope.

(* ---------------------------------------------------------------------------------------------- *)
(* (a) the value a used receiver holds after a decode is the value a fresh receiver would hold       *)

Lemma into_header_fresh : forall r bs,
  into_header r bs = match dec_header bs with Some h => (h, true) | None => (r, false) end.
Proof. reflexivity. Qed.
Lemma into_metadata_fresh : forall r bs,
  into_metadata r bs = match dec_metadata bs with Some m => (m, true) | None => (r, false) end.
Proof. reflexivity. Qed.
Lemma into_data_fresh : forall r bs,
  into_data r bs = match dec_data bs with Some d => (d, true) | None => (r, false) end.
Proof. reflexivity. Qed.
Lemma into_state_fresh : forall r bs,
  into_state r bs = match dec_state bs with Some s => (s, true) | None => (r, false) end.
Proof. intros r bs. unfold into_state, dec_state. destruct (dec_msg pstate_step pstate0 bs); reflexivity. Qed.

Section WithPubKeysReuse.
Variable pk_canon : bytes -> option bytes.

(* SignedHeader: success gives the fresh-receiver value; failure is reported (the receiver may then be
   half-written: see [into_signed_header_half_written]) *)
Lemma into_signed_header_fresh : forall r bs,
  match dec_signed_header pk_canon bs with
  | Some s => into_signed_header pk_canon r bs = (s, true)
  | None => snd (into_signed_header pk_canon r bs) = false
  end.
Proof.
  intros r bs. unfold dec_signed_header, into_signed_header.
  destruct (dec_msg psh_step psh0 bs) as [p|]; [|reflexivity].
  destruct (psh_header p); [|reflexivity].
  destruct (signer_from_pb pk_canon (psh_signer p)); reflexivity.
Qed.

(* SignedData: the same when the bytes carry a Data field; without one the receiver's Data stays *)
Lemma into_signed_data_fresh : forall r bs, sd_data_present bs = true ->
  match dec_signed_data pk_canon bs with
  | Some s => into_signed_data pk_canon r bs = (s, true)
  | None => snd (into_signed_data pk_canon r bs) = false
  end.
Proof.
  intros r bs. unfold sd_data_present, dec_signed_data, into_signed_data.
  destruct (dec_msg psd_step psd0 bs) as [p|]; [|discriminate].
  destruct (psd_data p); [|discriminate]. intros _.
  destruct (signer_from_pb pk_canon (psd_signer p)); reflexivity.
Qed.
Lemma into_signed_data_absent : forall r bs, sd_data_present bs = false ->
  match dec_signed_data pk_canon bs with
  | Some s => into_signed_data pk_canon r bs = (sd_with_data s (sd_data r), true)
  | None => snd (into_signed_data pk_canon r bs) = false
  end.
Proof.
  intros r bs. unfold sd_data_present, dec_signed_data, into_signed_data.
  destruct (dec_msg psd_step psd0 bs) as [p|]; [|reflexivity].
  destruct (psd_data p); [discriminate|]. intros _.
  destruct (signer_from_pb pk_canon (psd_signer p)); reflexivity.
Qed.

(* every encoding of a well-formed value carries the Data field *)
Lemma signed_data_pb_dec : forall s, wf_signed_data pk_canon s ->
  dec_msg psd_step psd0 (enc_signed_data s) =
  Some {| psd_data := Some (sd_data s); psd_sig := sd_sig s; psd_signer := Some (signer_to_pb (sd_signer s)) |}.
Proof.
  intros [d sg sn] (Hh & Hhs & Hs & Hn). cbn [sd_data sd_sig sd_signer] in *.
  pose proof Hn as (Ha & Hk & Hes & _).
  destruct (signer_to_pb_sz sn Ha Hk) as [Ha' Hk'].
  eapply dec_msg_of.
  - unfold enc_signed_data. cbn [sd_data sd_sig sd_signer].
    apply emits_app; [apply emits_rec; [nk | assumption]|].
    apply emits_app; [apply emits_bytes; [nk | assumption]|].
    apply emits_rec; [nk | assumption].
  - eapply steps_app.
    { apply steps_one. rewrite psd_step_data. cbn [psd_data psd0]. rewrite (dec_data_into d Hh). reflexivity. }
    eapply steps_app.
    { apply steps_bytes; [intros _; cbn; reflexivity | intros ->; reflexivity]. }
    apply steps_one. rewrite psd_step_signer. cbn [psd_signer psd0].
    rewrite (signer_pb_roundtrip _ Ha' Hk'). reflexivity.
Qed.
Lemma sd_data_present_enc : forall s, wf_signed_data pk_canon s -> sd_data_present (enc_signed_data s) = true.
Proof. intros s H. unfold sd_data_present. rewrite (signed_data_pb_dec s H). reflexivity. Qed.

(* encode-then-decode into ANY receiver *)
Lemma into_header_value : forall r h, wf_header h -> into_header r (enc_header h) = (h, true).
Proof. intros r h H. unfold into_header. rewrite (dec_header_into h H). reflexivity. Qed.
Lemma into_metadata_value : forall r m, wf_metadata m -> into_metadata r (enc_metadata m) = (m, true).
Proof.
  intros r m H. rewrite into_metadata_fresh. destruct (metadata_roundtrip m H) as [_ ->]. reflexivity.
Qed.
Lemma into_data_value : forall r d, wf_data d -> into_data r (enc_data d) = (d, true).
Proof. intros r d H. unfold into_data. rewrite (dec_data_into d H). reflexivity. Qed.
Lemma into_state_value : forall r s, wf_state s -> into_state r (enc_state s) = (s, true).
Proof. intros r s H. rewrite into_state_fresh. destruct (state_roundtrip s H) as [_ ->]. reflexivity. Qed.
Lemma into_signed_header_value : forall r s, wf_signed_header pk_canon s ->
  into_signed_header pk_canon r (enc_signed_header s) = (s, true).
Proof.
  intros r s H. pose proof (into_signed_header_fresh r (enc_signed_header s)) as F.
  rewrite (signed_header_dec pk_canon s H) in F. exact F.
Qed.
Lemma into_signed_data_value : forall r s, wf_signed_data pk_canon s ->
  into_signed_data pk_canon r (enc_signed_data s) = (s, true).
Proof.
  intros r s H. pose proof (into_signed_data_fresh r (enc_signed_data s) (sd_data_present_enc s H)) as F.
  rewrite (signed_data_dec pk_canon s H) in F. exact F.
Qed.
End WithPubKeysReuse.

(* ---------------------------------------------------------------------------------------------- *)
(* (b) histories: earlier values                                                                    *)

Section Machine.
Context {T : Type}.
Variable ops : reuse_ops T.

Lemma rstep_kept : forall st bs,
  rs_kept (fst (rstep ops st bs)) =
  rs_kept st ++ (if snd (rstep ops st bs) then [rs_recv (fst (rstep ops st bs))] else []).
Proof. intros st bs. unfold rstep. destruct (op_into ops (rs_recv st) bs) as [r' ok]. reflexivity. Qed.

(* an observation made later in a run contains every kept value of the state it started from, at the
   same position and unchanged: the kept list only grows at its end *)
Lemma rrun_kept_prefix : forall steps st o, In o (rrun ops st steps) ->
  exists l, obs_kept o = rs_kept st ++ l.
Proof.
  induction steps as [|bs rest IH]; intros st o Hin; [destruct Hin|].
  cbn [rrun] in Hin. destruct (rstep ops st bs) as [st' ok] eqn:E.
  pose proof (rstep_kept st bs) as K. rewrite E in K. cbn [fst snd] in K.
  destruct Hin as [<-|Hin].
  - unfold observe, obs_kept. cbn [fst snd]. rewrite K. eauto.
  - destruct (IH st' o Hin) as [l Hl]. rewrite Hl, K, <- app_assoc. eauto.
Qed.

(* between two observations of one run: the earlier kept list is a prefix of the later one *)
Lemma rrun_kept_monotone : forall steps st l1 o1 l2,
  rrun ops st steps = l1 ++ o1 :: l2 -> forall o2, In o2 l2 -> exists l, obs_kept o2 = obs_kept o1 ++ l.
Proof.
  induction steps as [|bs rest IH]; intros st l1 o1 l2 Hrun o2 Hin.
  - destruct l1; discriminate.
  - cbn [rrun] in Hrun. destruct (rstep ops st bs) as [st' ok] eqn:E.
    destruct l1 as [|x l1]; cbn [app] in Hrun; inversion Hrun; subst.
    + unfold observe, obs_kept at 2. cbn [fst snd]. apply (rrun_kept_prefix rest st' o2 Hin).
    + eapply IH; eauto.
Qed.

(* a run over encodings of values that decode to themselves into any receiver *)
Lemma rrun_values : forall (enc : T -> bytes) (P : T -> Prop),
  (forall r v, P v -> op_into ops r (enc v) = (v, true)) ->
  forall vs st, Forall P vs -> map obs_deep (rrun ops st (map enc vs)) = value_obs (rs_kept st) vs.
Proof.
  intros enc P Hinto. induction vs as [|v vs IH]; intros st HP; [reflexivity|].
  inversion HP as [|? ? Hv Hvs]; subst.
  cbn [map rrun value_obs]. unfold rstep. rewrite (Hinto (rs_recv st) v Hv).
  cbn [map]. rewrite IH by assumption. reflexivity.
Qed.

(* ---- plain (shallow) copies ---- *)
Hypothesis strip_set : forall v m, op_strip ops (op_set_meta ops v m) = op_strip ops v.
Hypothesis meta_set : forall v m, op_meta ops (op_set_meta ops v m) = Some m.

Definition shallow_inv (st : rstate T) : Prop :=
  map (op_strip ops) (map fst (rs_shallow st)) = map (op_strip ops) (rs_kept st) /\
  Forall (fun k => snd k = true -> op_meta ops (fst k) = op_meta ops (rs_recv st) /\ op_meta ops (rs_recv st) <> None) (rs_shallow st).

Lemma rinit_inv : forall r0 live, shallow_inv (rinit ops r0 live).
Proof.
  intros r0 live. unfold shallow_inv, rinit. destruct live; cbn [rs_shallow rs_kept rs_recv map fst snd].
  - split; [reflexivity|]. constructor; [|constructor]. cbn [fst snd]. intros H. split; [reflexivity|].
    destruct (op_meta ops r0); discriminate.
  - split; [reflexivity | constructor].
Qed.

Lemma reshare_strip : forall r' k, op_strip ops (fst (reshare ops r' k)) = op_strip ops (fst k).
Proof.
  intros r' [v sh]. unfold reshare. cbn [fst snd]. destruct sh; [|reflexivity].
  destruct (op_meta ops r'); cbn [fst]; [apply strip_set | reflexivity].
Qed.

Lemma rstep_inv : forall st bs, shallow_inv st -> shallow_inv (fst (rstep ops st bs)).
Proof.
  intros st bs (Hs & Hm). unfold rstep. destruct (op_into ops (rs_recv st) bs) as [r' ok].
  unfold shallow_inv. cbn [fst rs_shallow rs_kept rs_recv].
  split.
  - rewrite !map_app, <- Hs. f_equal.
    + rewrite !map_map. apply map_ext. intros k. apply reshare_strip.
    + destruct ok; reflexivity.
  - apply Forall_app. split.
    + apply Forall_map. eapply Forall_impl; [|exact Hm]. intros [v sh] Hk. cbn [fst snd] in *.
      unfold reshare. cbn [fst snd]. destruct sh; [|discriminate].
      destruct (op_meta ops r') as [m|] eqn:Em; cbn [fst snd]; [|discriminate].
      intros _. rewrite meta_set. split; [reflexivity | discriminate].
    + destruct ok; [|constructor]. constructor; [|constructor]. cbn [fst snd].
      destruct (op_meta ops r'); cbn [is_some]; [|discriminate]. intros _. split; [reflexivity | discriminate].
Qed.

(* in every observation of a run the plain copies differ from the struct-level copies in the struct
   behind the pointer only *)
Lemma rrun_shallow_strip : forall steps st o, shallow_inv st -> In o (rrun ops st steps) ->
  map (op_strip ops) (obs_shallow o) = map (op_strip ops) (obs_kept o).
Proof.
  induction steps as [|bs rest IH]; intros st o Hinv Hin; [destruct Hin|].
  cbn [rrun] in Hin. pose proof (rstep_inv st bs Hinv) as Hinv'.
  destruct (rstep ops st bs) as [st' ok]. cbn [fst] in Hinv'.
  destruct Hin as [<-|Hin]; [exact (proj1 Hinv') | eapply IH; eauto].
Qed.
End Machine.

(* a type without a pointer field: plain copies ARE struct-level copies *)
Section NoPointer.
Context {T : Type}.
Variable into : T -> bytes -> T * bool.
Let ops := no_pointer into.

Definition flat (st : rstate T) : Prop := rs_shallow st = map (fun v => (v, false)) (rs_kept st).

Lemma rstep_flat : forall st bs, flat st -> flat (fst (rstep ops st bs)).
Proof.
  intros st bs H. unfold flat, rstep in *. cbn [op_into ops no_pointer].
  destruct (into (rs_recv st) bs) as [r' ok]. cbn [fst rs_shallow rs_kept].
  rewrite H, map_map, map_app. f_equal. destruct ok; reflexivity.
Qed.
Lemma rrun_flat : forall steps st o, flat st -> In o (rrun ops st steps) -> obs_shallow o = obs_kept o.
Proof.
  induction steps as [|bs rest IH]; intros st o Hf Hin; [destruct Hin|].
  cbn [rrun] in Hin. pose proof (rstep_flat st bs Hf) as Hf'.
  destruct (rstep ops st bs) as [st' ok]. cbn [fst] in Hf'.
  destruct Hin as [<-|Hin]; [|eapply IH; eauto].
  unfold observe, obs_shallow, obs_kept. cbn [fst snd]. rewrite Hf', map_map. cbn [fst]. apply map_id.
Qed.
Lemma rinit_flat : forall r0 live, flat (rinit ops r0 live).
Proof. intros r0 live. unfold flat, rinit. destruct live; reflexivity. Qed.
End NoPointer.

(* the two instances with a pointer satisfy the laws *)
Lemma ops_data_laws :
  (forall v m, op_strip ops_data (op_set_meta ops_data v m) = op_strip ops_data v) /\
  (forall v m, op_meta ops_data (op_set_meta ops_data v m) = Some m).
Proof. split; reflexivity. Qed.
Lemma ops_signed_data_laws : forall pk,
  (forall v m, op_strip (ops_signed_data pk) (op_set_meta (ops_signed_data pk) v m) = op_strip (ops_signed_data pk) v) /\
  (forall v m, op_meta (ops_signed_data pk) (op_set_meta (ops_signed_data pk) v m) = Some m).
Proof. split; reflexivity. Qed.

(* ---------------------------------------------------------------------------------------------- *)
(* statements used by Props/C12.v                                                                  *)

Lemma reuse_history_values : forall T (ops : reuse_ops T) (enc : T -> bytes) (P : T -> Prop),
  (forall r v, P v -> op_into ops r (enc v) = (v, true)) ->
  forall r0 live vs, Forall P vs ->
  map obs_deep (reuse_history ops r0 live (map enc vs)) = value_obs (if live then [r0] else []) vs.
Proof.
  intros T ops enc P H r0 live vs HP. unfold reuse_history. rewrite (rrun_values ops enc P H vs _ HP).
  unfold rinit. cbn [rs_kept]. reflexivity.
Qed.

Lemma reuse_roundtrip_all :
  (forall r0 live vs, Forall wf_header vs ->
     map obs_deep (reuse_history ops_header r0 live (map enc_header vs)) = value_obs (if live then [r0] else []) vs) /\
  (forall r0 live vs, Forall wf_metadata vs ->
     map obs_deep (reuse_history ops_metadata r0 live (map enc_metadata vs)) = value_obs (if live then [r0] else []) vs) /\
  (forall r0 live vs, Forall wf_data vs ->
     map obs_deep (reuse_history ops_data r0 live (map enc_data vs)) = value_obs (if live then [r0] else []) vs) /\
  (forall r0 live vs, Forall wf_state vs ->
     map obs_deep (reuse_history ops_state r0 live (map enc_state vs)) = value_obs (if live then [r0] else []) vs) /\
  (forall pk r0 live vs, Forall (wf_signed_header pk) vs ->
     map obs_deep (reuse_history (ops_signed_header pk) r0 live (map enc_signed_header vs)) = value_obs (if live then [r0] else []) vs) /\
  (forall pk r0 live vs, Forall (wf_signed_data pk) vs ->
     map obs_deep (reuse_history (ops_signed_data pk) r0 live (map enc_signed_data vs)) = value_obs (if live then [r0] else []) vs).
Proof.
  repeat split; intros.
  - apply (reuse_history_values _ ops_header enc_header wf_header); [exact into_header_value | assumption].
  - apply (reuse_history_values _ ops_metadata enc_metadata wf_metadata); [exact into_metadata_value | assumption].
  - apply (reuse_history_values _ ops_data enc_data wf_data); [exact into_data_value | assumption].
  - apply (reuse_history_values _ ops_state enc_state wf_state); [exact into_state_value | assumption].
  - apply (reuse_history_values _ (ops_signed_header pk) enc_signed_header (wf_signed_header pk)); [exact (into_signed_header_value pk) | assumption].
  - apply (reuse_history_values _ (ops_signed_data pk) enc_signed_data (wf_signed_data pk)); [exact (into_signed_data_value pk) | assumption].
Qed.

Lemma earlier_values_unchanged : forall T (ops : reuse_ops T) r0 live steps l1 o1 l2,
  reuse_history ops r0 live steps = l1 ++ o1 :: l2 ->
  forall o2, In o2 l2 -> exists l, obs_kept o2 = obs_kept o1 ++ l.
Proof. intros T ops r0 live steps l1 o1 l2 H. exact (rrun_kept_monotone ops steps _ l1 o1 l2 H). Qed.

Lemma plain_copies_no_pointer : forall T (into : T -> bytes -> T * bool) r0 live steps o,
  In o (reuse_history (no_pointer into) r0 live steps) -> obs_shallow o = obs_kept o.
Proof. intros T into r0 live steps o H. exact (rrun_flat into steps _ o (rinit_flat into r0 live) H). Qed.

Lemma plain_copies_data :
  (forall r0 live steps o, In o (reuse_history ops_data r0 live steps) ->
     map (op_strip ops_data) (obs_shallow o) = map (op_strip ops_data) (obs_kept o)) /\
  (forall pk r0 live steps o, In o (reuse_history (ops_signed_data pk) r0 live steps) ->
     map (op_strip (ops_signed_data pk)) (obs_shallow o) = map (op_strip (ops_signed_data pk)) (obs_kept o)).
Proof.
  split.
  - intros r0 live steps o H.
    exact (rrun_shallow_strip ops_data (proj1 ops_data_laws) (proj2 ops_data_laws) steps _ o (rinit_inv ops_data r0 live) H).
  - intros pk r0 live steps o H.
    exact (rrun_shallow_strip (ops_signed_data pk) (proj1 (ops_signed_data_laws pk)) (proj2 (ops_signed_data_laws pk)) steps _ o
             (rinit_inv (ops_signed_data pk) r0 live) H).
Qed.

Lemma decode_independent_of_receiver :
  (forall r bs, into_header r bs = match dec_header bs with Some v => (v, true) | None => (r, false) end) /\
  (forall r bs, into_metadata r bs = match dec_metadata bs with Some v => (v, true) | None => (r, false) end) /\
  (forall r bs, into_data r bs = match dec_data bs with Some v => (v, true) | None => (r, false) end) /\
  (forall r bs, into_state r bs = match dec_state bs with Some v => (v, true) | None => (r, false) end) /\
  (forall pk r bs, match dec_signed_header pk bs with
                   | Some s => into_signed_header pk r bs = (s, true)
                   | None => snd (into_signed_header pk r bs) = false end).
Proof.
  exact (conj into_header_fresh (conj into_metadata_fresh (conj into_data_fresh (conj into_state_fresh into_signed_header_fresh)))).
Qed.
