(* Proofs/SyncerOldProofs.v — kernel-checked witnesses of the two C05 defects on the FROZEN model of the
   code before the repairs f41125c / 5877669 (Model/SyncerOld.v).  Kept as history: the repaired code is
   Model/Syncer.v, for which C05_recovery_full holds. *)
From Coq Require Import String NArith ZArith List Bool Lia ZifyBool ZifyN ZifyNat.
From Verif Require Import Base.KV Base.Keys Model.Types Model.SyncerOld.
Import ListNotations.
Open Scope list_scope.
Open Scope N_scope.

Definition ox_exec : root -> N -> Z -> list tx -> root :=
  fun r n _ txs => r * 7 + n + N.of_nat (length txs).
Definition ox_g (initial : N) : config :=
  {| g_chain := 1; g_initial := initial; g_time := 100%Z; g_proposer := Addr 1; g_initroot := 5 |}.
Fixpoint ox_build (prev : option header) (n : N) (r : root) (l : list (list tx * Z)) : list block :=
  match l with
  | [] => []
  | (txs, t) :: l' =>
      let h := {| h_height := n; h_time := t; h_chain := 1; h_last := prev; h_data := txs; h_app := r;
                  h_proposer := Addr 1 |} in
      ({| sh_hdr := h; sh_sig := Sig 1 h; sh_signer := {| sg_pub := Some (Pub 1); sg_addr := Addr 1 |} |},
       {| d_meta := Some {| m_chain := 1; m_height := n; m_time := t |}; d_txs := txs |})
      :: ox_build (Some h) (n + 1) (ox_exec r n t txs) l'
  end.
Definition ox_chain (initial : N) (l : list (list tx * Z)) : list block := ox_build None initial 5 l.
Definition oevh (C : list block) (i : nat) (da : N) : item :=
  IEv (EvHeader (fst (nth i C (genesis_block (ox_g 1)))) da).
Definition oevd (C : list block) (i : nat) (da : N) : item :=
  IEv (EvData (snd (nth i C (genesis_block (ox_g 1)))) da).
Ltac osolve_in := cbn; repeat (first [left; reflexivity | right]).
Ltac ochain_valid := split; [cbn; lia|split; [reflexivity|vm_compute; reflexivity]].

(* F7: the process dies after the state write of the first application, before the block save *)
Definition f7_chain := ox_chain 1 [([], 100%Z)].
Definition f7_hist := [ICrash (EvHeader (fst (nth 0 f7_chain (genesis_block (ox_g 1)))) 1) 1].

Lemma old_recovery_refuted :
  exists exec g k C h,
    ChainValid exec g k C /\ Forall (item_in C) h /\ ~ recovered exec g C (run exec g h).
Proof.
  exists ox_exec, (ox_g 1), 1, f7_chain, f7_hist.
  split; [ochain_valid|].
  split; [repeat constructor; cbn; eexists; osolve_in|].
  intros (_ & j & Hj & Hh & Hb & _).
  destruct j as [|[|j]].
  - vm_compute in Hh. discriminate Hh.
  - specialize (Hb O ltac:(lia)). vm_compute in Hb. discriminate Hb.
  - cbn in Hj. lia.
Qed.

(* stale cache files *)
Definition st_chain := ox_chain 1 [([], 100%Z); ([7], 101%Z)].
Definition st_h1 := [oevh st_chain 1 1; oevd st_chain 1 1; IRestart;
                     ICrash (EvHeader (fst (nth 0 st_chain (genesis_block (ox_g 1)))) 1) 3].
Definition st_h2 := [oevh st_chain 0 2; oevd st_chain 0 2; oevh st_chain 1 2; oevd st_chain 1 2].

Lemma old_resync_refuted :
  exists exec g k C h1 h2,
    ChainValid exec g k C /\ Forall (item_in C) (h1 ++ h2) /\
    no_bad_crash exec g (init g) (h1 ++ h2) = true /\ forallb is_clean h2 = true /\
    (forall b, In b C -> header_delivered h2 b /\ data_delivered h2 b) /\
    d_height (n_disk (run exec g (h1 ++ h2))) < g_initial g + N.of_nat (length C) - 1.
Proof.
  exists ox_exec, (ox_g 1), 1, st_chain, st_h1, st_h2.
  split; [ochain_valid|].
  split; [repeat constructor; cbn; try exact I; eexists; osolve_in|].
  split; [vm_compute; reflexivity|]. split; [reflexivity|].
  split.
  - intros b [E|[E|[]]]; subst; split; exists 2; osolve_in.
  - vm_compute. reflexivity.
Qed.
