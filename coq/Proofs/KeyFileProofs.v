(* Proofs/KeyFileProofs.v — all lemmas about Model/KeyFile.v (the theorems of Props/C19.v are [exact] these). *)
From Coq Require Import NArith List Bool Arith Lia.
From Verif Require Import Model.KeyFile.
Import ListNotations.
Open Scope list_scope.

(* ---- bytes ---------------------------------------------------------------------------------- *)
Lemma bytes_eqb_refl : forall a, bytes_eqb a a = true.
Proof. induction a as [|x a IH]; cbn [bytes_eqb]; auto. rewrite N.eqb_refl, IH. reflexivity. Qed.

Lemma bytes_eqb_eq : forall a b, bytes_eqb a b = true -> a = b.
Proof.
  induction a as [|x a IH]; destruct b as [|y b]; cbn [bytes_eqb]; intros H; try discriminate; auto.
  apply andb_true_iff in H. destruct H as [H1 H2]. apply N.eqb_eq in H1. subst. f_equal. auto.
Qed.

Lemma skey_eqb_refl : forall k, skey_eqb k k = true.
Proof. destruct k; cbn [skey_eqb]; rewrite ?bytes_eqb_refl; reflexivity. Qed.

Lemma skey_eqb_eq : forall a b, skey_eqb a b = true -> a = b.
Proof.
  intros [x|p s] [y|p' s']; cbn [skey_eqb]; intros H; try discriminate.
  - apply bytes_eqb_eq in H. subst. reflexivity.
  - apply andb_true_iff in H. destruct H as [H1 H2]. apply bytes_eqb_eq in H1, H2. subst. reflexivity.
Qed.

Lemma some_inj : forall (A : Type) (a b : A), Some a = Some b -> a = b.
Proof. intros A a b H. congruence. Qed.
Lemma ok_inj : forall (A : Type) (a b : A), Ok a = Ok b -> a = b.
Proof. intros A a b H. congruence. Qed.

(* ---- key (un)marshalling ------------------------------------------------------------------------ *)
Lemma unmarshal_priv_len : forall pt k, unmarshal_priv pt = Some k -> length k = 64.
Proof.
  intros pt k. unfold unmarshal_priv. destruct (Nat.eqb_spec (length pt) 96) as [E|E].
  - destruct (bytes_eqb _ _); [|discriminate]. intros H. apply some_inj in H. subst k. apply firstn_length_le. lia.
  - destruct (Nat.eqb_spec (length pt) 64) as [E'|E']; [|discriminate]. intros H. apply some_inj in H. subst k. exact E'.
Qed.

Lemma unmarshal_priv_64 : forall k, length k = 64 -> unmarshal_priv k = Some k.
Proof.
  intros k H. unfold unmarshal_priv. rewrite H.
  destruct (Nat.eqb_spec 64 96) as [E|_]; [lia|]. destruct (Nat.eqb_spec 64 64) as [_|E]; [reflexivity|lia].
Qed.

Lemma pub_of_priv_app : forall seed pub, length seed = 32 -> pub_of_priv (seed ++ pub) = pub.
Proof.
  intros seed pub H. unfold pub_of_priv. rewrite skipn_app, H, Nat.sub_diag.
  rewrite skipn_all2 by lia. reflexivity.
Qed.

Lemma pub_of_priv_len : forall k, length k = 64 -> length (pub_of_priv k) = 32.
Proof. intros k H. unfold pub_of_priv. rewrite skipn_length, H. reflexivity. Qed.

(* a signer whose two fields belong together *)
Definition wf_signer (s : signer) : Prop := length (s_priv s) = 64 /\ s_pub s = pub_of_priv (s_priv s).

(* ---- legacy derivation --------------------------------------------------------------------------- *)
Lemma fallback_len : forall p k, fallback_derive p = Ok k -> length k = 32.
Proof.
  intros p k. unfold fallback_derive. destruct (Nat.leb_spec 32 (length p)) as [L|L].
  - intros H. apply ok_inj in H. subst k. apply firstn_length_le. exact L.
  - destruct (Nat.eqb_spec (length p) 0) as [E|E]; [discriminate|].
    intros H. apply ok_inj in H. subst k. rewrite app_length, map_length, seq_length. lia.
Qed.

Lemma fallback_no_err : forall p e, fallback_derive p <> Err e.
Proof.
  intros p e. unfold fallback_derive. destruct (Nat.leb 32 (length p)); [discriminate|].
  destruct (Nat.eqb (length p) 0); discriminate.
Qed.

Lemma fallback_nonempty : forall x p, fallback_derive (x :: p) <> Panic.
Proof.
  intros x p. unfold fallback_derive. destruct (Nat.leb 32 (length (x :: p))); [discriminate|].
  cbn [length Nat.eqb]. discriminate.
Qed.

Section WithCrypto.
Variable c : crypto.

(* ---- no panic: needs nothing of the cryptography ------------------------------------------------- *)
Lemma derive_key_no_panic : forall d pass, derive_key c d pass <> Panic.
Proof.
  intros d pass. unfold derive_key. destruct (kd_salt c d); [|discriminate].
  destruct pass as [|x p]; [discriminate|].
  destruct (fallback_derive (x :: p)) eqn:F; try discriminate.
  exfalso. exact (fallback_nonempty x p F).
Qed.

Lemma decrypt_no_panic : forall d pass, decrypt_data c d pass <> Panic.
Proof.
  intros d pass. unfold decrypt_data. destruct (derive_key c d pass) eqn:D.
  - destruct (Nat.eqb _ 12); [|discriminate]. destruct (open c _ _ _); discriminate.
  - discriminate.
  - exfalso. exact (derive_key_no_panic d pass D).
Qed.

Theorem no_panic : forall (f : file c) (pass : bytes),
  load c f pass <> Panic /\ export c f pass <> Panic /\
  (forall priv salt nonce, import c priv pass salt nonce <> Panic).
Proof.
  intros f pass. split; [|split].
  - destruct f as [| |d]; cbn [load]; try discriminate.
    destruct (decrypt_data c d pass) eqn:D; try discriminate.
    + destruct (unmarshal_priv a); [|discriminate]. destruct (unmarshal_pub _); [|discriminate].
      destruct (bytes_eqb _ _); discriminate.
    + exfalso. exact (decrypt_no_panic d pass D).
  - destruct f as [| |d]; cbn [export]; try discriminate. apply decrypt_no_panic.
  - intros priv salt nonce. unfold import. destruct (unmarshal_priv priv); discriminate.
Qed.

(* ---- inversion of a successful load / decrypt -------------------------------------------------- *)
Lemma load_ok_inv : forall f pass s, load c f pass = Ok s ->
  exists d pt, f = FData d /\ decrypt_data c d pass = Ok pt /\ unmarshal_priv pt = Some (s_priv s)
    /\ kd_pub c d = s_pub s /\ length (s_pub s) = 32 /\ pub_of_priv (s_priv s) = s_pub s.
Proof.
  intros f pass s. destruct f as [| |d]; cbn [load]; try discriminate.
  destruct (decrypt_data c d pass) as [pt|e|] eqn:D; try discriminate.
  destruct (unmarshal_priv pt) as [k|] eqn:U; try discriminate.
  unfold unmarshal_pub. destruct (Nat.eqb_spec (length (kd_pub c d)) 32) as [L|L]; try discriminate.
  destruct (bytes_eqb (pub_of_priv k) (kd_pub c d)) eqn:E; try discriminate.
  intros H. injection H as <-. cbn [s_priv s_pub]. exists d, pt.
  repeat split; auto. apply bytes_eqb_eq. exact E.
Qed.

Lemma decrypt_ok_inv : forall d pass pt, decrypt_data c d pass = Ok pt ->
  exists k, derive_key c d pass = Ok k /\ length (kd_nonce c d) = 12 /\ open c k (kd_nonce c d) (kd_ct c d) = Some pt.
Proof.
  intros d pass pt. unfold decrypt_data. destruct (derive_key c d pass) as [k|e|]; try discriminate.
  destruct (Nat.eqb_spec (length (kd_nonce c d)) 12) as [L|L]; try discriminate.
  destruct (open c k (kd_nonce c d) (kd_ct c d)) as [p|] eqn:O; try discriminate.
  intros H. injection H as <-. exists k. auto.
Qed.

(* every signer that loads — from ANY file, under ANY passphrase — is a matching one *)
Theorem loaded_signer_matches : forall (f : file c) pass s, load c f pass = Ok s ->
  s_pub s = pub_of_priv (s_priv s) /\ length (s_priv s) = 64 /\ length (s_pub s) = 32 /\
  signer_address c s = key_address c (signer_public s) /\
  noop_signer (s_priv s) = s /\ noop_address c (s_priv s) = signer_address c s.
Proof.
  intros f pass s H. destruct (load_ok_inv f pass s H) as (d & pt & _ & _ & U & _ & L & P).
  apply unmarshal_priv_len in U. destruct s as [k p]. cbn [s_priv s_pub] in *.
  unfold signer_address, key_address, signer_public, noop_signer, noop_address. cbn [s_priv s_pub].
  subst p. repeat split; auto.
Qed.

Lemma wf_loaded : forall (f : file c) pass s, load c f pass = Ok s -> wf_signer s.
Proof. intros f pass s H. destruct (loaded_signer_matches f pass s H) as (A & B & _). split; auto. Qed.

Hypothesis I : ideal c.

(* ---- save / load ---------------------------------------------------------------------------------- *)
Lemma new_signer_wf : forall seed, length seed = 32 -> wf_signer (new_signer c seed).
Proof.
  intros seed H. unfold wf_signer, new_signer. cbn [s_priv s_pub].
  rewrite app_length, H, (ed_pub_len c I seed H), pub_of_priv_app by exact H. split; reflexivity.
Qed.

Lemma decrypt_saved : forall s pass salt nonce, salt <> [] -> length nonce = 12 ->
  decrypt_data c (mkKeydata c (seal c (argon c pass salt) nonce (s_priv s)) nonce (s_pub s) salt) pass = Ok (s_priv s).
Proof.
  intros s pass salt nonce Hs Hn. unfold decrypt_data, derive_key. cbn [kd_salt kd_nonce kd_ct].
  destruct salt as [|x salt]; [congruence|]. rewrite Hn, Nat.eqb_refl, (open_seal c I). reflexivity.
Qed.

Lemma save_load : forall s pass salt nonce, wf_signer s -> salt <> [] -> length nonce = 12 ->
  load c (save c s pass salt nonce) pass = Ok s.
Proof.
  intros s pass salt nonce [L P] Hs Hn. unfold save. cbn [load]. rewrite decrypt_saved by assumption.
  rewrite (unmarshal_priv_64 _ L). unfold unmarshal_pub. cbn [kd_pub].
  rewrite P, (pub_of_priv_len _ L), Nat.eqb_refl, bytes_eqb_refl. destruct s as [k p]. cbn [s_priv s_pub] in *.
  subst p. reflexivity.
Qed.

Theorem create_load : forall seed pass salt nonce,
  length seed = 32 -> salt <> [] -> length nonce = 12 ->
  let s := fst (create c seed pass salt nonce) in
  let f := snd (create c seed pass salt nonce) in
  load c f pass = Ok s /\
  (forall m, signer_verifies c s m = true) /\
  signer_public s = ed_pub c seed /\
  signer_address c s = key_address c (ed_pub c seed) /\
  export c f pass = Ok (s_priv s).
Proof.
  intros seed pass salt nonce H Hs Hn. cbn [create fst snd]. repeat split.
  - apply save_load; auto. apply new_signer_wf. exact H.
  - intros m. unfold signer_verifies, verify_under, signer_public, signer_sign, new_signer. cbn [s_priv s_pub].
    apply (ed_correct c I). exact H.
  - unfold save. cbn [export]. apply decrypt_saved; assumption.
Qed.

(* ---- wrong passphrase -------------------------------------------------------------------------- *)
Lemma decrypt_saved_wrong : forall s pass salt nonce pass', salt <> [] -> length nonce = 12 -> pass' <> pass ->
  decrypt_data c (mkKeydata c (seal c (argon c pass salt) nonce (s_priv s)) nonce (s_pub s) salt) pass' = Err EDecrypt.
Proof.
  intros s pass salt nonce pass' Hs Hn Hp. unfold decrypt_data, derive_key. cbn [kd_salt kd_nonce kd_ct].
  destruct salt as [|x salt]; [congruence|]. rewrite Hn, Nat.eqb_refl.
  destruct (open c (argon c pass' (x :: salt)) nonce (seal c (argon c pass (x :: salt)) nonce (s_priv s))) eqn:O; [|reflexivity].
  exfalso. destruct (open_binds c I (argon c pass (x :: salt)) nonce (s_priv s) (argon c pass' (x :: salt)) nonce) as [K _].
  - rewrite O. discriminate.
  - apply (argon_inj c I) in K. destruct K as [K _]. exact (Hp K).
Qed.

Theorem wrong_passphrase : forall s pass salt nonce pass',
  salt <> [] -> length nonce = 12 -> pass' <> pass ->
  load c (save c s pass salt nonce) pass' = Err EDecrypt /\ export c (save c s pass salt nonce) pass' = Err EDecrypt.
Proof.
  intros s pass salt nonce pass' Hs Hn Hp. unfold save. cbn [load export].
  rewrite decrypt_saved_wrong by assumption. split; reflexivity.
Qed.

(* ---- corrupted files ------------------------------------------------------------------------------ *)
Lemma derive_key_argon_inv : forall d p' p s, derive_key c d p' = Ok (argon c p s) -> p' = p /\ kd_salt c d = s.
Proof.
  intros d p' p s. unfold derive_key. destruct (kd_salt c d) as [|x sl].
  - destruct p' as [|y q]; [discriminate|]. destruct (fallback_derive (y :: q)); try discriminate.
    intros H. injection H as H. exfalso. exact (argon_not_raw c I p s a (eq_sym H)).
  - intros H. injection H as H. apply (argon_inj c I) in H. exact H.
Qed.

Theorem corrupted_file : forall s pass salt nonce, wf_signer s -> salt <> [] -> length nonce = 12 ->
  forall (d' : keydata c) pass' s',
    (kd_ct c d' = seal c (argon c pass salt) nonce (s_priv s) \/ unopenable c (kd_ct c d')) ->
    load c (FData d') pass' = Ok s' ->
    FData d' = save c s pass salt nonce /\ pass' = pass /\ s' = s.
Proof.
  intros s pass salt nonce [L P] Hs Hn d' pass' s' Hct Hl.
  destruct (load_ok_inv _ _ _ Hl) as (d & pt & Ed & D & U & Pub & Lp & Pp). injection Ed as <-.
  destruct (decrypt_ok_inv _ _ _ D) as (k & K & Ln & O).
  destruct Hct as [Hct|Hct]; [|rewrite Hct in O; discriminate].
  rewrite Hct in O.
  destruct (open_binds c I (argon c pass salt) nonce (s_priv s) k (kd_nonce c d')) as [Ek En]; [rewrite O; discriminate|].
  subst k. rewrite En, (open_seal c I) in O. injection O as <-.
  destruct (derive_key_argon_inv _ _ _ _ K) as [Ep Es].
  rewrite (unmarshal_priv_64 _ L) in U. injection U as U.
  assert (s' = s) as ->.
  { destruct s as [k p], s' as [k' p']. cbn [s_priv s_pub] in *. f_equal; congruence. }
  repeat split; auto. unfold save. destruct d' as [ct n p sl]. cbn [kd_ct kd_nonce kd_pub kd_salt] in *. subst. reflexivity.
Qed.

(* a file that is absent, or whose text is not a JSON object of the expected shape (every truncation), is refused *)
Lemma unreadable_file : forall pass,
  load c FAbsent pass = Err EIo /\ load c FBadJson pass = Err EJson /\
  export c FAbsent pass = Err EIo /\ export c FBadJson pass = Err EJson.
Proof. intros pass. repeat split; reflexivity. Qed.

(* ---- export then import ---------------------------------------------------------------------------- *)
Theorem export_import : forall s pass salt nonce pass2 salt2 nonce2,
  wf_signer s -> salt <> [] -> length nonce = 12 -> salt2 <> [] -> length nonce2 = 12 ->
  exists pt f2,
    export c (save c s pass salt nonce) pass = Ok pt /\
    import c pt pass2 salt2 nonce2 = Ok f2 /\
    f2 = save c s pass2 salt2 nonce2 /\
    load c f2 pass2 = Ok s.
Proof.
  intros s pass salt nonce pass2 salt2 nonce2 W Hs Hn Hs2 Hn2.
  exists (s_priv s), (save c s pass2 salt2 nonce2). destruct W as [L P]. repeat split.
  - unfold save. cbn [export]. apply decrypt_saved; assumption.
  - unfold import, save. rewrite (unmarshal_priv_64 _ L), <- P. reflexivity.
  - apply save_load; auto. split; auto.
Qed.

(* ---- legacy salt-less files ------------------------------------------------------------------------ *)
Theorem legacy_load : forall s pass rawkey nonce,
  wf_signer s -> fallback_derive pass = Ok rawkey -> length nonce = 12 ->
  load c (legacy_file c s rawkey nonce) pass = Ok s /\ export c (legacy_file c s rawkey nonce) pass = Ok (s_priv s).
Proof.
  intros s pass rawkey nonce [L P] F Hn.
  assert (D : decrypt_data c (mkKeydata c (seal c (raw_key c rawkey) nonce (s_priv s)) nonce (s_pub s) []) pass = Ok (s_priv s)).
  { unfold decrypt_data, derive_key. cbn [kd_salt kd_nonce kd_ct]. destruct pass as [|x p]; [discriminate|].
    rewrite F, Hn, Nat.eqb_refl, (open_seal c I). reflexivity. }
  unfold legacy_file. cbn [load export]. rewrite D. split; [|reflexivity].
  rewrite (unmarshal_priv_64 _ L). unfold unmarshal_pub. cbn [kd_pub].
  rewrite P, (pub_of_priv_len _ L), Nat.eqb_refl, bytes_eqb_refl. destruct s as [k p]. cbn [s_priv s_pub] in *.
  subst p. reflexivity.
Qed.

Theorem legacy_wrong_passphrase_guarded : forall s rawkey nonce pass',
  fallback_derive pass' <> Ok rawkey ->
  (exists e, load c (legacy_file c s rawkey nonce) pass' = Err e) /\
  (exists e, export c (legacy_file c s rawkey nonce) pass' = Err e).
Proof.
  intros s rawkey nonce pass' G.
  assert (D : exists e, decrypt_data c (mkKeydata c (seal c (raw_key c rawkey) nonce (s_priv s)) nonce (s_pub s) []) pass' = Err e).
  { destruct (decrypt_data c _ pass') as [pt|e|] eqn:D.
    - exfalso. destruct (decrypt_ok_inv _ _ _ D) as (k & K & _ & O). cbn [kd_nonce kd_ct] in O.
      destruct (open_binds c I (raw_key c rawkey) nonce (s_priv s) k nonce) as [Ek _]; [rewrite O; discriminate|].
      subst k. unfold derive_key in K. cbn [kd_salt] in K. destruct pass' as [|x p]; [discriminate|].
      destruct (fallback_derive (x :: p)) as [k'| |] eqn:F; try discriminate.
      injection K as K. apply (raw_key_inj c I) in K. subst k'. exact (G eq_refl).
    - exists e. reflexivity.
    - exfalso. exact (decrypt_no_panic _ _ D). }
  destruct D as [e D]. unfold legacy_file. cbn [load export]. rewrite D. split; exists e; reflexivity.
Qed.

End WithCrypto.

(* ---- histories over one key file path -------------------------------------------------------------- *)
Section Histories.
Variable c : crypto.

(* the file opens with EXACTLY the passphrases of P, and then to the key s (export returns bytes that
   unmarshal to that key: the 64 key bytes, or the 96-byte form an import was given) *)
Definition opens_exactly (f : file c) (P : bytes -> Prop) (s : signer) : Prop :=
  wf_signer s /\
  forall p,
    (P p -> load c f p = Ok s /\ exists pt, export c f p = Ok pt /\ unmarshal_priv pt = Some (s_priv s)) /\
    (~ P p -> (exists e, load c f p = Err e) /\ (exists e, export c f p = Err e)).

(* ghost state of a history: the file, which passphrases are meant to open it, the key it holds *)
Record sealst := mk_seal { sl_file : file c; sl_pred : bytes -> Prop; sl_key : signer }.

Definition seal_ok (st : sealst) : Prop := opens_exactly (sl_file st) (sl_pred st) (sl_key st).

(* a file nothing can be got out of: deleted, not parsing (every truncation, the empty file, a flipped
   structural byte), or holding ciphertext bytes no key opens (what flipped ciphertext bytes give, ideal AEAD) *)
Definition dead_file (f : file c) : Prop :=
  match f with
  | FAbsent | FBadJson => True
  | FData d => unopenable c (kd_ct c d)
  end.

Lemma dead_file_never_opens : forall f p, dead_file f ->
  (exists e, load c f p = Err e) /\ (exists e, export c f p = Err e).
Proof.
  intros f p D. destruct f as [| |d]; cbn [load export]; [split; eexists; reflexivity|split; eexists; reflexivity|].
  cbn [dead_file] in D.
  assert (E : exists e, decrypt_data c d p = Err e).
  { unfold decrypt_data. destruct (derive_key c d p) as [k|e|] eqn:K.
    - destruct (Nat.eqb (length (kd_nonce c d)) 12); [|eexists; reflexivity].
      rewrite (D k (kd_nonce c d)). eexists; reflexivity.
    - eexists; reflexivity.
    - exfalso. exact (derive_key_no_panic c d p K). }
  destruct E as [e E]. rewrite E. split; exists e; reflexivity.
Qed.

(* only a successful import and a create on a free path re-seal (under the passphrase THEY are given);
   a fault that kills the file leaves it opening with NO passphrase *)
Definition seal_step (st : sealst) (op : hop c) : sealst :=
  let f' := fst (hstep c (sl_file st) op) in
  match op with
  | HImport k p _ _ =>
      match unmarshal_priv k with
      | Some k' => mk_seal f' (eq p) (noop_signer k')
      | None => mk_seal f' (sl_pred st) (sl_key st)
      end
  | HCreate sg p _ _ =>
      match sl_file st with
      | FAbsent => mk_seal f' (eq p) sg
      | _ => mk_seal f' (sl_pred st) (sl_key st)
      end
  | HDamage _ => mk_seal f' (fun _ => False) (sl_key st)   (* after a fault that kills the file NO passphrase opens it *)
  | _ => mk_seal f' (sl_pred st) (sl_key st)
  end.

Fixpoint seal_trace (st : sealst) (ops : list (hop c)) : list sealst :=
  match ops with
  | [] => []
  | op :: r => seal_step st op :: seal_trace (seal_step st op) r
  end.

(* what the code guarantees of its own random draws and key generation *)
Definition hop_wf (op : hop c) : Prop :=
  match op with
  | HImport _ _ salt nonce => salt <> [] /\ length nonce = 12
  | HCreate sg _ salt nonce => wf_signer sg /\ salt <> [] /\ length nonce = 12
  | HDamage f' => dead_file f'
  | _ => True
  end.

Definition hop_reads (op : hop c) : Prop :=
  match op with HLoad _ | HExport _ => True | _ => False end.

(* loads and exports — any number, any passphrases, right or wrong — leave the file as it is *)
Theorem readonly_history_keeps_file : forall ops (f : file c), Forall hop_reads ops ->
  Forall (fun fr => fst fr = f) (hrun c f ops) /\ hfile c f ops = f.
Proof.
  induction ops as [|op r IH]; intros f H; cbn [hrun hfile fold_left]; [split; [constructor|reflexivity]|].
  inversion H as [|? ? Hop Hr]; subst.
  assert (E : fst (hstep c f op) = f) by (destruct op; cbn [hop_reads] in Hop; try contradiction; reflexivity).
  rewrite E. destruct (IH f Hr) as [A B]. split; [constructor; [exact E|exact A]|exact B].
Qed.

Corollary readonly_history_same_answers : forall ops (f : file c) p, Forall hop_reads ops ->
  load c (hfile c f ops) p = load c f p /\ export c (hfile c f ops) p = export c f p.
Proof. intros ops f p H. destruct (readonly_history_keeps_file ops f H) as [_ E]. rewrite E. split; reflexivity. Qed.

(* an operation that reports an error has not touched the file *)
Theorem failed_step_keeps_file : forall (f : file c) op e,
  snd (hstep c f op) = RDone (Err e) -> fst (hstep c f op) = f.
Proof.
  intros f op e. destruct op as [p|p|k p sa n|sg p sa n|f']; cbn [hstep]; try discriminate.
  - destruct (import c k p sa n); cbn [fst snd]; try discriminate; reflexivity.
  - destruct f; cbn [fst snd]; try discriminate; reflexivity.
Qed.

(* the state of the path after a history is what the LAST write or fault left: histories compose *)
Lemma hfile_app : forall a b (f : file c), hfile c f (a ++ b) = hfile c (hfile c f a) b.
Proof. intros a b f. unfold hfile. apply fold_left_app. Qed.

(* WHATEVER happened on the path before (creates, imports = key rotations under the same or other passphrases,
   loads, exports, earlier faults), once a fault has left a dead file every later load and export — with ANY
   passphrase, those that opened earlier contents of the path included — reports an error and leaves the
   dead file as it is.  No hypothesis on the cryptography. *)
Theorem damaged_file_never_opens : forall before after (f bad : file c),
  dead_file bad -> Forall hop_reads after ->
  Forall (fun fr => fst fr = bad /\ exists e, snd fr = RSigner (Err e) \/ snd fr = RBytes (Err e))
         (hrun c (hfile c f (before ++ [HDamage bad])) after).
Proof.
  intros before after f bad D R. rewrite hfile_app. change (hfile c (hfile c f before) [HDamage bad]) with bad.
  induction after as [|op r IH]; cbn [hrun]; [constructor|].
  inversion R as [|? ? Hop Hr]; subst.
  destruct (dead_file_never_opens bad) with (p := match op with HLoad p | HExport p => p | _ => [] end) as [[e1 L] [e2 E]]; [exact D|].
  destruct op as [p|p|k p sa n|sg p sa n|f']; cbn [hop_reads] in Hop; try contradiction; cbn [hstep fst snd].
  - constructor; [split; [reflexivity|exists e1; left; rewrite L; reflexivity]|exact (IH Hr)].
  - constructor; [split; [reflexivity|exists e2; right; rewrite E; reflexivity]|exact (IH Hr)].
Qed.

(* ... and the only ways back to a usable path are the package's own writes: an import, or (after a deletion)
   a create; each seals under the passphrase IT is given (see seal_step_ok) *)

Hypothesis I : ideal c.

Lemma sealed_file_opens_exactly : forall k k' pass salt nonce,
  unmarshal_priv k = Some k' -> salt <> [] -> length nonce = 12 ->
  opens_exactly (FData (mkKeydata c (seal c (argon c pass salt) nonce k) nonce (pub_of_priv k') salt))
                (eq pass) (noop_signer k').
Proof.
  intros k k' pass salt nonce U Hs Hn.
  pose proof (unmarshal_priv_len _ _ U) as L.
  split; [split; [exact L|reflexivity]|].
  intros p. split.
  - intros <-. pose proof (decrypt_saved c I (mk_signer k (pub_of_priv k')) pass salt nonce Hs Hn) as D.
    cbn [s_priv s_pub] in D. cbn [load export]. rewrite D, U. unfold unmarshal_pub. cbn [kd_pub].
    rewrite (pub_of_priv_len _ L), Nat.eqb_refl, bytes_eqb_refl. split; [reflexivity|].
    exists k. split; [reflexivity|exact U].
  - intros Hp.
    pose proof (decrypt_saved_wrong c I (mk_signer k (pub_of_priv k')) pass salt nonce p Hs Hn) as D.
    cbn [s_priv s_pub] in D. cbn [load export]. rewrite D by (intros E; apply Hp; symmetry; exact E).
    split; exists EDecrypt; reflexivity.
Qed.

Lemma import_opens_exactly : forall k k' pass salt nonce f,
  unmarshal_priv k = Some k' -> salt <> [] -> length nonce = 12 ->
  import c k pass salt nonce = Ok f -> opens_exactly f (eq pass) (noop_signer k').
Proof.
  intros k k' pass salt nonce f U Hs Hn. unfold import. rewrite U. intros H. apply ok_inj in H. subst f.
  apply sealed_file_opens_exactly; assumption.
Qed.

Lemma save_opens_exactly : forall s pass salt nonce, wf_signer s -> salt <> [] -> length nonce = 12 ->
  opens_exactly (save c s pass salt nonce) (eq pass) s.
Proof.
  intros s pass salt nonce W Hs Hn. pose proof W as [L P].
  pose proof (sealed_file_opens_exactly (s_priv s) (s_priv s) pass salt nonce (unmarshal_priv_64 _ L) Hs Hn) as H.
  unfold save. rewrite P.
  replace (noop_signer (s_priv s)) with s in H; [exact H|].
  destruct s as [k q]. cbn [s_priv s_pub] in *. subst q. reflexivity.
Qed.

(* the two ways a file comes into being outside a history: Create, and a legacy salt-less file *)
Lemma create_opens_exactly : forall seed pass salt nonce, length seed = 32 -> salt <> [] -> length nonce = 12 ->
  opens_exactly (snd (create c seed pass salt nonce)) (eq pass) (fst (create c seed pass salt nonce)).
Proof.
  intros seed pass salt nonce H Hs Hn. cbn [create fst snd]. apply save_opens_exactly; auto.
  apply (new_signer_wf c I). exact H.
Qed.

Lemma legacy_opens_exactly : forall s rawkey nonce, wf_signer s -> length nonce = 12 ->
  opens_exactly (legacy_file c s rawkey nonce) (fun p => fallback_derive p = Ok rawkey) s.
Proof.
  intros s rawkey nonce W Hn. split; [exact W|]. intros p. split.
  - intros F. destruct (legacy_load c I s p rawkey nonce W F Hn) as [A B]. split; [exact A|].
    exists (s_priv s). split; [exact B|]. destruct W as [L _]. apply unmarshal_priv_64. exact L.
  - intros G. apply (legacy_wrong_passphrase_guarded c I). exact G.
Qed.

Lemma history_starts :
  (forall seed pass salt nonce, length seed = 32 -> salt <> [] -> length nonce = 12 ->
     opens_exactly (snd (create c seed pass salt nonce)) (eq pass) (fst (create c seed pass salt nonce))) /\
  (forall s rawkey nonce, wf_signer s -> length nonce = 12 ->
     opens_exactly (legacy_file c s rawkey nonce) (fun p => fallback_derive p = Ok rawkey) s).
Proof. split; [exact create_opens_exactly|exact legacy_opens_exactly]. Qed.

Lemma seal_step_ok : forall st op, hop_wf op -> seal_ok st -> seal_ok (seal_step st op).
Proof.
  intros [f P s] op W H. unfold seal_ok, seal_step in *. cbn [sl_file sl_pred sl_key] in *.
  destruct op as [p|p|k p sa n|sg p sa n|f']; cbn [hstep fst].
  - exact H.
  - exact H.
  - destruct W as [Hs Hn]. unfold import. destruct (unmarshal_priv k) as [k'|] eqn:U.
    + cbn [fst sl_file sl_pred sl_key]. apply sealed_file_opens_exactly; assumption.
    + cbn [fst sl_file sl_pred sl_key]. exact H.
  - destruct W as (Wf & Hs & Hn). destruct f; cbn [fst sl_file sl_pred sl_key]; try exact H.
    apply save_opens_exactly; assumption.
  - cbn [hop_wf] in W. cbn [sl_file sl_pred sl_key]. split; [exact (proj1 H)|].
    intros p. split; [intros []|intros _; apply dead_file_never_opens; exact W].
Qed.

(* after EVERY step of ANY history (loads, exports, imports, creates; right and wrong passphrases) the file
   opens with exactly the passphrase it was last sealed with, to the key last sealed in it *)
Theorem history_keeps_seal : forall ops st, Forall hop_wf ops -> seal_ok st -> Forall seal_ok (seal_trace st ops).
Proof.
  induction ops as [|op r IH]; intros st W H; cbn [seal_trace]; [constructor|].
  inversion W as [|? ? Wop Wr]; subst.
  pose proof (seal_step_ok st op Wop H) as H'. constructor; [exact H'|]. apply IH; assumption.
Qed.

(* the ghost state follows the model: its file is the file hrun reports after the same step *)
Lemma seal_trace_files : forall ops st,
  map sl_file (seal_trace st ops) = map fst (hrun c (sl_file st) ops).
Proof.
  induction ops as [|op r IH]; intros st; cbn [seal_trace hrun map]; [reflexivity|].
  assert (E : sl_file (seal_step st op) = fst (hstep c (sl_file st) op)).
  { unfold seal_step. destruct op as [p|p|k p sa n|sg p sa n|f']; cbn [sl_file]; try reflexivity.
    - destruct (unmarshal_priv k); reflexivity.
    - destruct (sl_file st); reflexivity. }
  rewrite E at 1. f_equal. rewrite IH, E. reflexivity.
Qed.

(* ---- signing sessions -------------------------------------------------------------------------------- *)
Theorem sign_session_verifies : forall seed ops, length seed = 32 ->
  let s := new_signer c seed in
  session_sigs c s ops = map (signer_sign c s) (session_msgs [] ops) /\
  Forall2 (fun m sig => verify_under c (signer_public s) m sig = true) (session_msgs [] ops) (session_sigs c s ops).
Proof.
  intros seed ops H s. split; [reflexivity|]. unfold session_sigs.
  induction (session_msgs [] ops) as [|m r IH]; cbn [map]; constructor; [|exact IH].
  exact (proj1 (proj2 (create_load c I seed [] [0%N] (repeat 0%N 12) H ltac:(discriminate) eq_refl)) m).
Qed.

Theorem loaded_sign_session_verifies : forall seed pass salt nonce s ops,
  length seed = 32 -> salt <> [] -> length nonce = 12 ->
  load c (snd (create c seed pass salt nonce)) pass = Ok s ->
  Forall2 (fun m sig => verify_under c (signer_public s) m sig = true) (session_msgs [] ops) (session_sigs c s ops).
Proof.
  intros seed pass salt nonce s ops H Hs Hn L.
  destruct (create_load c I seed pass salt nonce H Hs Hn) as (L' & _). cbn zeta in L'. rewrite L' in L.
  apply ok_inj in L. subst s. cbn [create fst]. apply sign_session_verifies. exact H.
Qed.

End Histories.

Arguments hop_reads {c} op.
Arguments hop_wf {c} op.

(* the legacy format looks at the first 32 bytes of the passphrase only: two different passphrases open
   exactly the same salt-less files, whatever the cryptography *)
Definition legacy_p1 : bytes := repeat 7%N 32 ++ [1%N].
Definition legacy_p2 : bytes := repeat 7%N 32 ++ [2%N].

Theorem legacy_wrong_passphrase_witness :
  legacy_p1 <> legacy_p2 /\
  forall (c : crypto) (d : keydata c), kd_salt c d = [] ->
    load c (FData d) legacy_p1 = load c (FData d) legacy_p2 /\ export c (FData d) legacy_p1 = export c (FData d) legacy_p2.
Proof.
  split.
  - intros H. apply (f_equal (fun l => nth 32 l 0%N)) in H. vm_compute in H. discriminate.
  - intros c d Hs.
    assert (D : decrypt_data c d legacy_p1 = decrypt_data c d legacy_p2).
    { unfold decrypt_data, derive_key. rewrite Hs.
      assert (F : fallback_derive legacy_p1 = fallback_derive legacy_p2) by (vm_compute; reflexivity).
      change legacy_p1 with (7%N :: repeat 7%N 31 ++ [1%N]) at 1.
      change legacy_p2 with (7%N :: repeat 7%N 31 ++ [2%N]) at 1.
      change (7%N :: repeat 7%N 31 ++ [1%N]) with legacy_p1.
      change (7%N :: repeat 7%N 31 ++ [2%N]) with legacy_p2.
      rewrite F. reflexivity. }
    cbn [load export]. rewrite D. split; reflexivity.
Qed.

(* ---- the symbolic instance satisfies the ideal hypotheses (they are consistent) --------------------- *)
Theorem sym_ideal : ideal sym.
Proof.
  constructor; cbn [sym open seal argon raw_key ed_pub ed_sign ed_verify ckey ctext].
  - intros k n p. unfold sym_open. rewrite skey_eqb_refl, bytes_eqb_refl. reflexivity.
  - intros k n p k' n'. unfold sym_open. destruct (skey_eqb k' k) eqn:K; cbn [andb]; [|congruence].
    destruct (bytes_eqb n' n) eqn:N; [|congruence]. intros _.
    apply skey_eqb_eq in K. apply bytes_eqb_eq in N. auto.
  - intros p s p' s' H. injection H as -> ->. auto.
  - intros p s b. discriminate.
  - intros b b' H. injection H as ->. reflexivity.
  - intros seed H. exact H.
  - intros seed m H. fold (pub_of_priv (seed ++ seed)). rewrite pub_of_priv_app by exact H. apply bytes_eqb_refl.
Qed.
