(* Proofs/WireProofs.v — all lemmas about Model/Wire.v (property C12). *)
From Coq Require Import NArith ZArith List Bool Lia ZifyBool ZifyN ZifyNat.
From Verif Require Import Model.Wire.
Import ListNotations.
Open Scope N_scope.

(* ---------------------------------------------------------------------------------------------- *)
(* varint                                                                                          *)

Fixpoint vbound (f : nat) : N :=
  match f with O => 0 | S O => 2 | S f' => 128 * vbound f' end.

Lemma vbound_SS : forall f, vbound (S (S f)) = 128 * vbound (S f).
Proof. reflexivity. Qed.

Lemma vbound_10 : vbound 10 = two64.
Proof. reflexivity. Qed.

Lemma dec_enc_varint_fuel : forall f n mul acc r,
  n < vbound f ->
  dec_varint_fuel f mul acc (enc_varint_fuel f n ++ r) = Some (acc + n * mul, r).
Proof.
  induction f as [|f IH]; intros n mul acc r Hn.
  - cbn in Hn. lia.
  - cbn [enc_varint_fuel dec_varint_fuel].
    destruct (n <? 128) eqn:E.
    + cbn [app]. rewrite E. destruct f as [|f'].
      * cbn in Hn. assert (H2 : (2 <=? n) = false) by lia. rewrite H2. reflexivity.
      * reflexivity.
    + cbn [app].
      assert (Hb : (n mod 128 + 128 <? 128) = false) by lia. rewrite Hb.
      destruct f as [|f'].
      * cbn in Hn. lia.
      * rewrite vbound_SS in Hn.
        rewrite IH.
        -- f_equal. f_equal.
           assert (Hm : (n mod 128 + 128) mod 128 = n mod 128).
           { rewrite N.add_mod by lia. rewrite N.mod_same by lia. rewrite N.add_0_r.
             rewrite N.mod_mod by lia. apply N.mod_mod. lia. }
           rewrite Hm.
           pose proof (N.div_mod n 128 ltac:(lia)) as Hd. nia.
        -- apply N.div_lt_upper_bound; lia.
Qed.

Lemma dec_enc_varint : forall n r, n < two64 -> dec_varint (enc_varint n ++ r) = Some (n, r).
Proof.
  intros n r H. unfold dec_varint, enc_varint. rewrite dec_enc_varint_fuel.
  - f_equal. f_equal. lia.
  - rewrite vbound_10. exact H.
Qed.

Lemma dec_varint_fuel_shrinks : forall f mul acc bs n r,
  dec_varint_fuel f mul acc bs = Some (n, r) -> (length r < length bs)%nat.
Proof.
  induction f as [|f IH]; intros mul acc bs n r H; cbn [dec_varint_fuel] in H.
  - discriminate.
  - destruct bs as [|b t]; [discriminate|].
    destruct (b <? 128).
    + destruct f; [destruct (2 <=? b); [discriminate|]|]; inversion H; subst; cbn; lia.
    + apply IH in H. cbn. lia.
Qed.

Lemma dec_varint_shrinks : forall bs n r, dec_varint bs = Some (n, r) -> (length r < length bs)%nat.
Proof. intros bs n r H. eapply dec_varint_fuel_shrinks; exact H. Qed.

(* a decoded varint fits in 64 bits *)
Lemma dec_varint_fuel_bound : forall f mul acc bs n r,
  dec_varint_fuel f mul acc bs = Some (n, r) -> acc < mul -> n < mul * vbound f.
Proof.
  induction f as [|f IH]; intros mul acc bs n r H Hacc; cbn [dec_varint_fuel] in H.
  - discriminate.
  - destruct bs as [|b t]; [discriminate|].
    destruct (b <? 128) eqn:E.
    + destruct f as [|f'].
      * destruct (2 <=? b) eqn:E2; [discriminate|]. inversion H; subst. cbn. nia.
      * inversion H; subst. rewrite vbound_SS.
        assert (1 <= vbound (S f')). { clear. induction f'; [cbn; lia| rewrite vbound_SS; lia]. }
        nia.
    + destruct f as [|f'].
      * cbn in H. discriminate.
      * apply IH in H.
        -- rewrite vbound_SS. nia.
        -- pose proof (N.mod_lt b 128 ltac:(lia)). nia.
Qed.

Lemma dec_varint_bound : forall bs n r, dec_varint bs = Some (n, r) -> n < two64.
Proof.
  intros bs n r H. unfold dec_varint in H. apply dec_varint_fuel_bound in H; [|lia].
  rewrite vbound_10 in H. lia.
Qed.

(* ---------------------------------------------------------------------------------------------- *)
(* take, tags, one field                                                                           *)

Definition sz (b : bytes) : Prop := len b < two64.

Lemma take_app : forall p r, take (len p) (p ++ r) = Some (p, r).
Proof.
  intros p r. unfold take, len.
  assert (H : (N.of_nat (length p) <=? N.of_nat (length (p ++ r))) = true).
  { rewrite app_length. lia. }
  rewrite H. rewrite Nat2N.id.
  rewrite firstn_app, Nat.sub_diag, firstn_all. cbn [firstn]. rewrite app_nil_r.
  rewrite skipn_app, Nat.sub_diag, skipn_all. reflexivity.
Qed.

Lemma take_shrinks : forall n bs p r, take n bs = Some (p, r) -> (length r <= length bs)%nat.
Proof.
  intros n bs p r H. unfold take in H. destruct (n <=? len bs); [|discriminate].
  inversion H; subst. rewrite skipn_length. lia.
Qed.

Lemma take_length : forall n bs p r, take n bs = Some (p, r) -> len p = n.
Proof.
  intros n bs p r H. unfold take in H. destruct (n <=? len bs) eqn:E; [|discriminate].
  inversion H; subst. unfold len in *. rewrite firstn_length. lia.
Qed.

Definition numok (num : N) : Prop := 1 <= num /\ num <= max_field.

Lemma read_tag_enc : forall num wt r, numok num -> wt < 8 ->
  read_tag (enc_tag num wt ++ r) = Some (num, wt, r).
Proof.
  intros num wt r [H1 H2] Hw. unfold read_tag, enc_tag. unfold max_field in *.
  rewrite dec_enc_varint by (unfold two64; lia).
  assert (Hd : (num * 8 + wt) / 8 = num).
  { rewrite N.div_add_l by lia. rewrite N.div_small by lia. lia. }
  assert (Hm : (num * 8 + wt) mod 8 = wt).
  { rewrite N.add_comm. rewrite N.mod_add by lia. apply N.mod_small. lia. }
  cbv zeta. rewrite Hd, Hm.
  assert (Hc : ((1 <=? num) && (num <=? 536870911)) = true) by lia.
  unfold max_field. rewrite Hc. reflexivity.
Qed.

Lemma parse_one_rec : forall num body rest, numok num -> sz body ->
  parse_one (f_rec num body ++ rest) = Some ((num, PBytes body), rest).
Proof.
  intros num body rest Hn Hs. unfold parse_one, f_rec.
  rewrite <- !app_assoc. rewrite read_tag_enc by (auto; lia).
  cbn [N.eqb Pos.eqb]. rewrite dec_enc_varint by exact Hs. rewrite take_app. reflexivity.
Qed.

Lemma parse_one_varint : forall num n rest, numok num -> n < two64 ->
  parse_one (enc_tag num 0 ++ enc_varint n ++ rest) = Some ((num, PVar n), rest).
Proof.
  intros num n rest Hn Hs. unfold parse_one.
  rewrite read_tag_enc by (auto; lia).
  cbn [N.eqb]. rewrite dec_enc_varint by exact Hs. reflexivity.
Qed.

(* ---------------------------------------------------------------------------------------------- *)
(* the message loop: every field consumes at least one byte, so fuel = length is enough            *)

Lemma read_tag_shrinks : forall bs num wt r, read_tag bs = Some (num, wt, r) -> (length r < length bs)%nat.
Proof.
  intros bs num wt r H. unfold read_tag in H.
  destruct (dec_varint bs) as [[t r']|] eqn:E; [|discriminate].
  cbv zeta in H. destruct ((1 <=? t / 8) && (t / 8 <=? max_field)); [|discriminate].
  inversion H; subst. eapply dec_varint_shrinks; eauto.
Qed.

Lemma read_tag_group_shrinks : forall bs num wt r, read_tag_group bs = Some (num, wt, r) -> (length r < length bs)%nat.
Proof.
  intros bs num wt r H. unfold read_tag_group in H.
  destruct (dec_varint bs) as [[t r']|] eqn:E; [|discriminate].
  cbv zeta in H. destruct ((1 <=? t / 8) && (t / 8 <=? max_int32)); [|discriminate].
  inversion H; subst. eapply dec_varint_shrinks; eauto.
Qed.

Lemma skip_group_shrinks : forall f st lvl bs r, skip_group f st lvl bs = Some r -> (length r <= length bs)%nat.
Proof.
  induction f as [|f IH]; intros st lvl bs r H; cbn [skip_group] in H; [discriminate|].
  destruct (read_tag_group bs) as [[[num wt] r0]|] eqn:ET; [|discriminate].
  apply read_tag_group_shrinks in ET.
  destruct (wt =? 0).
  { destruct (dec_varint r0) as [[x r1]|] eqn:E1; [|discriminate].
    apply dec_varint_shrinks in E1. apply IH in H. lia. }
  destruct (wt =? 1).
  { destruct (take 8 r0) as [[x r1]|] eqn:E1; [|discriminate].
    apply take_shrinks in E1. apply IH in H. lia. }
  destruct (wt =? 2).
  { destruct (dec_varint r0) as [[l r1]|] eqn:E1; [|discriminate].
    destruct (take l r1) as [[x r2]|] eqn:E2; [|discriminate].
    apply dec_varint_shrinks in E1. apply take_shrinks in E2. apply IH in H. lia. }
  destruct (wt =? 3).
  { destruct (lvl <=? group_depth); [|discriminate]. apply IH in H. lia. }
  destruct (wt =? 4).
  { destruct st as [|top st']; [discriminate|].
    destruct (num =? top); [|discriminate].
    destruct st' as [|s2 st''].
    - inversion H; subst. lia.
    - apply IH in H. lia. }
  destruct (wt =? 5).
  { destruct (take 4 r0) as [[x r1]|] eqn:E1; [|discriminate].
    apply take_shrinks in E1. apply IH in H. lia. }
  discriminate.
Qed.

Lemma parse_one_shrinks : forall bs fld r, parse_one bs = Some (fld, r) -> (length r < length bs)%nat.
Proof.
  intros bs fld r H. unfold parse_one in H.
  destruct (read_tag bs) as [[[num wt] r0]|] eqn:ET; [|discriminate].
  apply read_tag_shrinks in ET.
  destruct (wt =? 0).
  { destruct (dec_varint r0) as [[x r1]|] eqn:E1; [|discriminate].
    apply dec_varint_shrinks in E1. inversion H; subst. lia. }
  destruct (wt =? 1).
  { destruct (take 8 r0) as [[x r1]|] eqn:E1; [|discriminate].
    apply take_shrinks in E1. inversion H; subst. lia. }
  destruct (wt =? 2).
  { destruct (dec_varint r0) as [[l r1]|] eqn:E1; [|discriminate].
    destruct (take l r1) as [[x r2]|] eqn:E2; [|discriminate].
    apply dec_varint_shrinks in E1. apply take_shrinks in E2. inversion H; subst. lia. }
  destruct (wt =? 3).
  { destruct (skip_group (S (length r0)) [num] 1 r0) as [r1|] eqn:E1; [|discriminate].
    apply skip_group_shrinks in E1. inversion H; subst. lia. }
  destruct (wt =? 5).
  { destruct (take 4 r0) as [[x r1]|] eqn:E1; [|discriminate].
    apply take_shrinks in E1. inversion H; subst. lia. }
  discriminate.
Qed.

Lemma parse_fuel_indep : forall f1 f2 bs, (length bs <= f1)%nat -> (length bs <= f2)%nat ->
  parse_fuel f1 bs = parse_fuel f2 bs.
Proof.
  induction f1 as [|f1 IH]; intros f2 bs H1 H2.
  - destruct bs; [destruct f2; reflexivity | cbn in H1; lia].
  - destruct bs as [|b t]; [destruct f2; reflexivity|].
    destruct f2 as [|f2]; [cbn in H2; lia|].
    cbn [parse_fuel].
    destruct (parse_one (b :: t)) as [[fld r]|] eqn:E; [|reflexivity].
    apply parse_one_shrinks in E.
    rewrite (IH f2 r); [reflexivity | lia | lia].
Qed.

Lemma parse_nil : parse [] = Some [].
Proof. reflexivity. Qed.

Lemma parse_step : forall bs fld r, parse_one bs = Some (fld, r) ->
  parse bs = match parse r with Some l => Some (fld :: l) | None => None end.
Proof.
  intros bs fld r H. unfold parse.
  destruct bs as [|b t].
  - apply parse_one_shrinks in H. cbn in H. lia.
  - cbn [length parse_fuel]. rewrite H.
    pose proof (parse_one_shrinks _ _ _ H) as Hs. cbn [length] in Hs.
    rewrite (parse_fuel_indep (length t) (length r) r) by lia. reflexivity.
Qed.

(* [emits e l]: the encoded fragment [e] parses to the field list [l], whatever follows *)
Definition omap_app (l : list field) (o : option (list field)) : option (list field) :=
  match o with Some l' => Some (l ++ l') | None => None end.
Definition emits (e : bytes) (l : list field) : Prop :=
  forall rest, parse (e ++ rest) = omap_app l (parse rest).

Lemma emits_nil : emits [] [].
Proof. intro rest. cbn [app]. destruct (parse rest); reflexivity. Qed.

Lemma emits_app : forall a la b lb, emits a la -> emits b lb -> emits (a ++ b) (la ++ lb).
Proof.
  intros a la b lb Ha Hb rest. rewrite <- app_assoc. rewrite Ha, Hb.
  destruct (parse rest); cbn; [rewrite app_assoc|]; reflexivity.
Qed.

Lemma emits_parse : forall e l, emits e l -> parse e = Some l.
Proof. intros e l H. specialize (H []). rewrite app_nil_r in H. rewrite H. cbn. rewrite app_nil_r. reflexivity. Qed.

Definition l_varint (num n : N) : list field := if n =? 0 then [] else [(num, PVar n)].
Definition l_bytes (num : N) (b : bytes) : list field := match b with [] => [] | _ => [(num, PBytes b)] end.
Definition l_optmsg (num : N) (o : option bytes) : list field := match o with None => [] | Some b => [(num, PBytes b)] end.
Definition l_rep (num : N) (l : list bytes) : list field := map (fun b => (num, PBytes b)) l.

Lemma emits_rec : forall num body, numok num -> sz body -> emits (f_rec num body) [(num, PBytes body)].
Proof.
  intros num body Hn Hs rest. rewrite (parse_step _ _ _ (parse_one_rec num body rest Hn Hs)).
  destruct (parse rest); reflexivity.
Qed.

Lemma emits_varint : forall num n, numok num -> n < two64 -> emits (f_varint num n) (l_varint num n).
Proof.
  intros num n Hn Hs. unfold f_varint, l_varint. destruct (n =? 0); [apply emits_nil|].
  intro rest. rewrite <- app_assoc. rewrite (parse_step _ _ _ (parse_one_varint num n rest Hn Hs)).
  destruct (parse rest); reflexivity.
Qed.

Lemma emits_bytes : forall num b, numok num -> sz b -> emits (f_bytes num b) (l_bytes num b).
Proof.
  intros num b Hn Hs. unfold f_bytes, l_bytes. destruct b; [apply emits_nil|]. apply emits_rec; assumption.
Qed.

Lemma emits_optmsg : forall num o, numok num -> (forall b, o = Some b -> sz b) -> emits (f_optmsg num o) (l_optmsg num o).
Proof.
  intros num o Hn Hs. unfold f_optmsg, l_optmsg. destruct o; [|apply emits_nil]. apply emits_rec; auto.
Qed.

Lemma emits_rep : forall num l, numok num -> Forall sz l -> emits (f_rep num l) (l_rep num l).
Proof.
  intros num l Hn Hs. unfold f_rep, l_rep. induction Hs as [|b l Hb Hl IH]; cbn [flat_map map].
  - apply emits_nil.
  - apply (emits_app _ [(num, PBytes b)]); [apply emits_rec; assumption | exact IH].
Qed.

(* ---------------------------------------------------------------------------------------------- *)
(* folding the per-message step over a field list                                                  *)

Definition steps {A} (step : A -> field -> option A) (l : list field) (a a' : A) : Prop :=
  fold_opt step l a = Some a'.

Lemma steps_nil : forall A (step : A -> field -> option A) a, steps step [] a a.
Proof. reflexivity. Qed.

Lemma steps_app : forall A (step : A -> field -> option A) l1 l2 a a1 a2,
  steps step l1 a a1 -> steps step l2 a1 a2 -> steps step (l1 ++ l2) a a2.
Proof.
  intros A step l1. induction l1 as [|f l1 IH]; intros l2 a a1 a2 H1 H2.
  - cbn in H1. inversion H1; subst. exact H2.
  - unfold steps in *. cbn [app fold_opt] in *. destruct (step a f); [|discriminate]. eapply IH; eauto.
Qed.

Lemma steps_one : forall A (step : A -> field -> option A) f a a',
  step a f = Some a' -> steps step [f] a a'.
Proof. intros A step f a a' H. unfold steps. cbn. rewrite H. reflexivity. Qed.

Lemma steps_varint : forall A (step : A -> field -> option A) num n a a',
  (n <> 0 -> step a (num, PVar n) = Some a') -> (n = 0 -> a' = a) -> steps step (l_varint num n) a a'.
Proof.
  intros A step num n a a' H1 H2. unfold l_varint. destruct (n =? 0) eqn:E.
  - rewrite H2 by lia. apply steps_nil.
  - apply steps_one. apply H1. lia.
Qed.

Lemma steps_bytes : forall A (step : A -> field -> option A) num b a a',
  (b <> [] -> step a (num, PBytes b) = Some a') -> (b = [] -> a' = a) -> steps step (l_bytes num b) a a'.
Proof.
  intros A step num b a a' H1 H2. unfold l_bytes. destruct b.
  - rewrite H2 by reflexivity. apply steps_nil.
  - apply steps_one. apply H1. discriminate.
Qed.

Lemma dec_msg_of : forall A (step : A -> field -> option A) init e l v,
  emits e l -> steps step l init v -> dec_msg step init e = Some v.
Proof. intros A step init e l v He Hs. unfold dec_msg. rewrite (emits_parse _ _ He). exact Hs. Qed.

(* ---------------------------------------------------------------------------------------------- *)
(* sizes of the fixed-size sub-messages                                                            *)

Lemma enc_varint_fuel_length : forall f n, (length (enc_varint_fuel f n) <= f)%nat.
Proof.
  induction f as [|f IH]; intro n; cbn [enc_varint_fuel]; [cbn; lia|].
  destruct (n <? 128); cbn [length]; [lia|]. specialize (IH (n / 128)). lia.
Qed.

Lemma enc_varint_length : forall n, (length (enc_varint n) <= 10)%nat.
Proof. intro n. apply enc_varint_fuel_length. Qed.

Lemma f_varint_small_length : forall num n, num < 16 -> (length (f_varint num n) <= 11)%nat.
Proof.
  intros num n H. unfold f_varint. destruct (n =? 0); [cbn; lia|].
  rewrite app_length. pose proof (enc_varint_length n).
  assert (length (enc_tag num 0) = 1%nat).
  { unfold enc_tag, enc_varint. cbn [enc_varint_fuel]. assert (E : (num * 8 + 0 <? 128) = true) by lia. rewrite E. reflexivity. }
  lia.
Qed.

Ltac nk := unfold numok, max_field; lia.

(* ---------------------------------------------------------------------------------------------- *)
(* Version                                                                                         *)

Definition wf_version (v : wversion) : Prop := v_block v < two64 /\ v_app v < two64.

Lemma sz_enc_version : forall v, sz (enc_version v).
Proof.
  intro v. unfold sz, len, enc_version. rewrite app_length.
  pose proof (f_varint_small_length 1 (v_block v) ltac:(lia)).
  pose proof (f_varint_small_length 2 (v_app v) ltac:(lia)). unfold two64. lia.
Qed.

Lemma dec_version : forall v, wf_version v -> dec_msg version_step version0 (enc_version v) = Some v.
Proof.
  intros [b a] [Hb Ha]. cbn [v_block v_app] in *.
  eapply dec_msg_of.
  - unfold enc_version. cbn [v_block v_app].
    apply emits_app; apply emits_varint; try nk; assumption.
  - eapply steps_app; [apply steps_varint; [intros _; cbn; reflexivity | intros ->; reflexivity] |].
    apply steps_varint; [intros _; cbn; reflexivity | intros ->; reflexivity].
Qed.

(* ---------------------------------------------------------------------------------------------- *)
(* Header                                                                                          *)

Definition wf_header (h : wheader) : Prop :=
  wf_version (h_version h) /\ h_height h < two64 /\ h_time h < two64 /\
  sz (h_last_header h) /\ sz (h_last_commit h) /\ sz (h_data_hash h) /\ sz (h_consensus h) /\
  sz (h_app_hash h) /\ sz (h_last_results h) /\ sz (h_proposer h) /\ sz (h_validator h) /\
  sz (h_chain h) /\ utf8_valid (h_chain h) = true.

Definition flds_header (h : wheader) : list field :=
  [(1, PBytes (enc_version (h_version h)))] ++ l_varint 2 (h_height h) ++ l_varint 3 (h_time h) ++
  l_bytes 4 (h_last_header h) ++ l_bytes 5 (h_last_commit h) ++ l_bytes 6 (h_data_hash h) ++
  l_bytes 7 (h_consensus h) ++ l_bytes 8 (h_app_hash h) ++ l_bytes 9 (h_last_results h) ++
  l_bytes 10 (h_proposer h) ++ l_bytes 11 (h_validator h) ++ l_bytes 12 (h_chain h).

Lemma emits_header : forall h, wf_header h -> emits (enc_header h) (flds_header h).
Proof.
  intros h (Hv & H2 & H3 & H4 & H5 & H6 & H7 & H8 & H9 & H10 & H11 & H12 & _).
  unfold enc_header, flds_header.
  apply emits_app; [apply emits_rec; [nk | apply sz_enc_version]|].
  apply emits_app; [apply emits_varint; [nk | assumption]|].
  apply emits_app; [apply emits_varint; [nk | assumption]|].
  repeat (apply emits_app; [apply emits_bytes; [nk | assumption]|]).
  apply emits_bytes; [nk | assumption].
Qed.

Lemma header_step_version : forall a b,
  header_step a (1, PBytes b) =
  match dec_msg version_step (h_version a) b with Some v => Some (set_h_version a v) | None => None end.
Proof. reflexivity. Qed.

Lemma header_step_chain : forall a b, utf8_valid b = true -> header_step a (12, PBytes b) = Some (set_h_chain a b).
Proof. intros a b H. change (header_step a (12, PBytes b)) with (if utf8_valid b then Some (set_h_chain a b) else None). rewrite H. reflexivity. Qed.

Ltac step_v := eapply steps_app; [apply steps_varint; [intros _; cbn; reflexivity | intros ->; reflexivity] |].
Ltac step_b := eapply steps_app; [apply steps_bytes; [intros _; cbn; reflexivity | intros ->; reflexivity] |].

Ltac hnorm := unfold set_h_version, set_h_height, set_h_time, set_h_last_header, set_h_last_commit, set_h_data_hash,
  set_h_consensus, set_h_app_hash, set_h_last_results, set_h_proposer, set_h_validator, set_h_chain; cbn.
Ltac step_vh := eapply steps_app; [apply steps_varint; [intros _; cbn; hnorm; reflexivity | intros ->; reflexivity] |].
Ltac step_bh := eapply steps_app; [apply steps_bytes; [intros _; cbn; hnorm; reflexivity | intros ->; reflexivity] |].

Lemma steps_header : forall h, wf_header h -> steps header_step (flds_header h) header0 h.
Proof.
  intros [v ht tm f4 f5 f6 f7 f8 f9 f10 f11 ch] (Hv & _ & _ & _ & _ & _ & _ & _ & _ & _ & _ & _ & Hu).
  cbn [h_version h_chain] in *. unfold flds_header.
  cbn [h_version h_height h_time h_last_header h_last_commit h_data_hash h_consensus h_app_hash h_last_results h_proposer h_validator h_chain].
  eapply steps_app.
  { apply steps_one. rewrite header_step_version. change (h_version header0) with version0.
    rewrite (dec_version v Hv). hnorm. reflexivity. }
  step_vh. step_vh. step_bh. step_bh. step_bh. step_bh. step_bh. step_bh. step_bh. step_bh.
  apply steps_bytes; [intros _; rewrite (header_step_chain _ _ Hu); hnorm; reflexivity | intros ->; reflexivity].
Qed.

Lemma dec_header_into : forall h, wf_header h -> dec_msg header_step header0 (enc_header h) = Some h.
Proof. intros h H. eapply dec_msg_of; [apply emits_header | apply steps_header]; exact H. Qed.

Lemma header_roundtrip : forall h, wf_header h ->
  marshal_header h = Some (enc_header h) /\ dec_header (enc_header h) = Some h.
Proof.
  intros h H. split.
  - unfold marshal_header. destruct H as (_ & _ & _ & _ & _ & _ & _ & _ & _ & _ & _ & _ & Hu). rewrite Hu. reflexivity.
  - apply dec_header_into. exact H.
Qed.

(* ---------------------------------------------------------------------------------------------- *)
(* Metadata                                                                                        *)

Definition wf_metadata (m : wmetadata) : Prop :=
  sz (m_chain m) /\ utf8_valid (m_chain m) = true /\ m_height m < two64 /\ m_time m < two64 /\ sz (m_last m).

Definition flds_metadata (m : wmetadata) : list field :=
  l_bytes 1 (m_chain m) ++ l_varint 2 (m_height m) ++ l_varint 3 (m_time m) ++ l_bytes 4 (m_last m).

Lemma emits_metadata : forall m, wf_metadata m -> emits (enc_metadata m) (flds_metadata m).
Proof.
  intros m (H1 & _ & H2 & H3 & H4). unfold enc_metadata, flds_metadata.
  apply emits_app; [apply emits_bytes; [nk | assumption]|].
  apply emits_app; [apply emits_varint; [nk | assumption]|].
  apply emits_app; [apply emits_varint; [nk | assumption]|].
  apply emits_bytes; [nk | assumption].
Qed.

Lemma metadata_step_chain : forall a b, utf8_valid b = true ->
  metadata_step a (1, PBytes b) = Some {| m_chain := b; m_height := m_height a; m_time := m_time a; m_last := m_last a |}.
Proof.
  intros a b H.
  change (metadata_step a (1, PBytes b)) with
    (if utf8_valid b then Some {| m_chain := b; m_height := m_height a; m_time := m_time a; m_last := m_last a |} else None).
  rewrite H. reflexivity.
Qed.

Lemma steps_metadata : forall m, wf_metadata m -> steps metadata_step (flds_metadata m) metadata0 m.
Proof.
  intros [ch ht tm la] (_ & Hu & _). cbn [m_chain] in Hu. unfold flds_metadata. cbn [m_chain m_height m_time m_last].
  eapply steps_app.
  { apply steps_bytes; [intros _; rewrite (metadata_step_chain _ _ Hu); reflexivity | intros ->; reflexivity]. }
  step_v. step_v.
  apply steps_bytes; [intros _; cbn; reflexivity | intros ->; reflexivity].
Qed.

Lemma metadata_roundtrip : forall m, wf_metadata m ->
  marshal_metadata m = Some (enc_metadata m) /\ dec_metadata (enc_metadata m) = Some m.
Proof.
  intros m H. split.
  - unfold marshal_metadata. destruct H as (_ & Hu & _). rewrite Hu. reflexivity.
  - eapply dec_msg_of; [apply emits_metadata | apply steps_metadata]; exact H.
Qed.

(* ---------------------------------------------------------------------------------------------- *)
(* Data, Batch                                                                                     *)

Definition wf_data (d : wdata) : Prop :=
  (forall m, d_meta d = Some m -> wf_metadata m /\ sz (enc_metadata m)) /\ Forall sz (d_txs d).

Definition flds_data (d : wdata) : list field :=
  l_optmsg 1 (option_map enc_metadata (d_meta d)) ++ l_rep 2 (d_txs d).

Lemma emits_data : forall d, wf_data d -> emits (enc_data d) (flds_data d).
Proof.
  intros d [Hm Ht]. unfold enc_data, flds_data.
  apply emits_app.
  - apply emits_optmsg; [nk|]. intros b Hb. destruct (d_meta d) as [m|]; [|discriminate].
    cbn in Hb. inversion Hb; subst. apply (Hm m eq_refl).
  - apply emits_rep; [nk | exact Ht].
Qed.

Lemma steps_rep_data : forall txs m acc,
  steps data_step (l_rep 2 txs) {| d_meta := m; d_txs := acc |} {| d_meta := m; d_txs := acc ++ txs |}.
Proof.
  induction txs as [|t txs IH]; intros m acc.
  - rewrite app_nil_r. apply steps_nil.
  - cbn [l_rep map]. eapply (steps_app _ _ [(2, PBytes t)]).
    + apply steps_one. reflexivity.
    + cbn [d_meta d_txs]. specialize (IH m (acc ++ [t])). rewrite <- app_assoc in IH. exact IH.
Qed.

Lemma data_step_meta : forall a b,
  data_step a (1, PBytes b) =
  match dec_msg metadata_step (match d_meta a with Some m => m | None => metadata0 end) b with
  | Some m => Some {| d_meta := Some m; d_txs := d_txs a |} | None => None end.
Proof. reflexivity. Qed.

Lemma steps_data : forall d, wf_data d -> steps data_step (flds_data d) data0 d.
Proof.
  intros [om txs] [Hm _]. cbn [d_meta d_txs] in *. unfold flds_data. cbn [d_meta d_txs].
  destruct om as [m|]; cbn [option_map l_optmsg].
  - eapply steps_app.
    + apply steps_one. rewrite data_step_meta. cbn [d_meta data0].
      destruct (Hm m eq_refl) as [Hw _].
      destruct (metadata_roundtrip m Hw) as [_ Hd]. unfold dec_metadata in Hd. rewrite Hd. reflexivity.
    + apply (steps_rep_data txs (Some m) []).
  - apply (steps_rep_data txs None []).
Qed.

Lemma dec_data_into : forall d, wf_data d -> dec_msg data_step data0 (enc_data d) = Some d.
Proof. intros d H. eapply dec_msg_of; [apply emits_data | apply steps_data]; exact H. Qed.

Lemma wf_data_meta_ok : forall d, wf_data d -> meta_ok (d_meta d) = true.
Proof.
  intros d [Hm _]. unfold meta_ok. destruct (d_meta d) as [m|]; [|reflexivity].
  destruct (Hm m eq_refl) as [(_ & Hu & _) _]. exact Hu.
Qed.

Lemma data_roundtrip : forall d, wf_data d ->
  marshal_data d = Some (enc_data d) /\ dec_data (enc_data d) = Some d.
Proof.
  intros d H. split.
  - unfold marshal_data. rewrite (wf_data_meta_ok d H). reflexivity.
  - apply dec_data_into. exact H.
Qed.

Lemma steps_rep_batch : forall txs acc, steps batch_step (l_rep 1 txs) acc (acc ++ txs).
Proof.
  induction txs as [|t txs IH]; intro acc.
  - rewrite app_nil_r. apply steps_nil.
  - cbn [l_rep map]. eapply (steps_app _ _ [(1, PBytes t)]).
    + apply steps_one. reflexivity.
    + specialize (IH (acc ++ [t])). rewrite <- app_assoc in IH. exact IH.
Qed.

Lemma batch_roundtrip : forall l, Forall sz l -> dec_batch (enc_batch l) = Some l.
Proof.
  intros l H. unfold dec_batch, enc_batch. eapply dec_msg_of.
  - apply emits_rep; [nk | exact H].
  - apply (steps_rep_batch l []).
Qed.

(* ---------------------------------------------------------------------------------------------- *)
(* Signer, SignedHeader, SignedData                                                                *)

Lemma signer_pb_roundtrip : forall s, sz (sg_addr s) -> sz (sg_pk s) ->
  dec_msg signer_step signer0 (enc_signer s) = Some s.
Proof.
  intros [a k] Ha Hk. cbn [sg_addr sg_pk] in *. eapply dec_msg_of.
  - unfold enc_signer. cbn [sg_addr sg_pk]. apply emits_app; apply emits_bytes; try nk; assumption.
  - eapply steps_app; [apply steps_bytes; [intros _; cbn; reflexivity | intros ->; reflexivity] |].
    apply steps_bytes; [intros _; cbn; reflexivity | intros ->; reflexivity].
Qed.

Section WithPubKeysProofs.
Variable pk_canon : bytes -> option bytes.

Definition wf_signer (s : wsigner) : Prop :=
  sz (sg_addr s) /\ sz (sg_pk s) /\ sz (enc_signer (signer_to_pb s)) /\
  (sg_pk s = [] \/ pk_canon (sg_pk s) = Some (sg_pk s)).

Lemma signer_glue : forall s, wf_signer s ->
  signer_from_pb pk_canon (Some (signer_to_pb s)) = Some s.
Proof.
  intros [a k] (_ & _ & _ & Hc). cbn [sg_pk] in Hc. unfold signer_to_pb, signer_from_pb. cbn [sg_pk sg_addr].
  destruct k as [|k0 k']; cbn [is_nil sg_pk sg_addr].
  - destruct a; reflexivity.
  - destruct Hc as [Hc|Hc]; [discriminate|]. rewrite Hc. reflexivity.
Qed.

Lemma signer_to_pb_sz : forall s, sz (sg_addr s) -> sz (sg_pk s) -> sz (sg_addr (signer_to_pb s)) /\ sz (sg_pk (signer_to_pb s)).
Proof.
  intros s Ha Hk. unfold signer_to_pb. destruct (is_nil (sg_pk s)); [|split; assumption].
  cbn [sg_addr sg_pk]. split; [assumption|]. unfold sz, len, two64. cbn. lia.
Qed.

Definition wf_signed_header (s : wsigned_header) : Prop :=
  wf_header (sh_header s) /\ sz (enc_header (sh_header s)) /\ sz (sh_sig s) /\ wf_signer (sh_signer s).

Lemma psh_step_header : forall a b,
  psh_step a (1, PBytes b) =
  match dec_msg header_step (match psh_header a with Some h => h | None => header0 end) b with
  | Some h => Some {| psh_header := Some h; psh_sig := psh_sig a; psh_signer := psh_signer a |}
  | None => None end.
Proof. reflexivity. Qed.
Lemma psh_step_signer : forall a b,
  psh_step a (3, PBytes b) =
  match dec_msg signer_step (match psh_signer a with Some s => s | None => signer0 end) b with
  | Some s => Some {| psh_header := psh_header a; psh_sig := psh_sig a; psh_signer := Some s |}
  | None => None end.
Proof. reflexivity. Qed.

Lemma signed_header_dec : forall s, wf_signed_header s ->
  dec_signed_header pk_canon (enc_signed_header s) = Some s.
Proof.
  intros [h sg sn] (Hh & Hhs & Hs & Hn). cbn [sh_header sh_sig sh_signer] in *.
  pose proof Hn as (Ha & Hk & Hes & _).
  destruct (signer_to_pb_sz sn Ha Hk) as [Ha' Hk'].
  unfold dec_signed_header.
  assert (Hd : dec_msg psh_step psh0 (enc_signed_header {| sh_header := h; sh_sig := sg; sh_signer := sn |}) =
               Some {| psh_header := Some h; psh_sig := sg; psh_signer := Some (signer_to_pb sn) |}).
  { eapply dec_msg_of.
    - unfold enc_signed_header. cbn [sh_header sh_sig sh_signer].
      apply emits_app; [apply emits_rec; [nk | assumption]|].
      apply emits_app; [apply emits_bytes; [nk | assumption]|].
      apply emits_rec; [nk | assumption].
    - eapply steps_app.
      { apply steps_one. rewrite psh_step_header. cbn [psh_header psh0]. rewrite (dec_header_into h Hh). reflexivity. }
      eapply steps_app.
      { apply steps_bytes; [intros _; cbn; reflexivity | intros ->; reflexivity]. }
      apply steps_one. rewrite psh_step_signer. cbn [psh_signer psh0].
      rewrite (signer_pb_roundtrip _ Ha' Hk'). reflexivity. }
  rewrite Hd. cbn [psh_header psh_signer psh_sig]. rewrite (signer_glue sn Hn). reflexivity.
Qed.

Lemma signed_header_roundtrip : forall s, wf_signed_header s ->
  marshal_signed_header s = Some (enc_signed_header s) /\
  dec_signed_header pk_canon (enc_signed_header s) = Some s.
Proof.
  intros s H. split.
  - unfold marshal_signed_header. destruct H as ((_ & _ & _ & _ & _ & _ & _ & _ & _ & _ & _ & _ & Hu) & _). rewrite Hu. reflexivity.
  - apply signed_header_dec. exact H.
Qed.

Definition wf_signed_data (s : wsigned_data) : Prop :=
  wf_data (sd_data s) /\ sz (enc_data (sd_data s)) /\ sz (sd_sig s) /\ wf_signer (sd_signer s).

Lemma psd_step_data : forall a b,
  psd_step a (1, PBytes b) =
  match dec_msg data_step (match psd_data a with Some d => d | None => data0 end) b with
  | Some d => Some {| psd_data := Some d; psd_sig := psd_sig a; psd_signer := psd_signer a |}
  | None => None end.
Proof. reflexivity. Qed.
Lemma psd_step_signer : forall a b,
  psd_step a (3, PBytes b) =
  match dec_msg signer_step (match psd_signer a with Some s => s | None => signer0 end) b with
  | Some s => Some {| psd_data := psd_data a; psd_sig := psd_sig a; psd_signer := Some s |}
  | None => None end.
Proof. reflexivity. Qed.

Lemma signed_data_dec : forall s, wf_signed_data s ->
  dec_signed_data pk_canon (enc_signed_data s) = Some s.
Proof.
  intros [d sg sn] (Hh & Hhs & Hs & Hn). cbn [sd_data sd_sig sd_signer] in *.
  pose proof Hn as (Ha & Hk & Hes & _).
  destruct (signer_to_pb_sz sn Ha Hk) as [Ha' Hk'].
  unfold dec_signed_data.
  assert (Hd : dec_msg psd_step psd0 (enc_signed_data {| sd_data := d; sd_sig := sg; sd_signer := sn |}) =
               Some {| psd_data := Some d; psd_sig := sg; psd_signer := Some (signer_to_pb sn) |}).
  { eapply dec_msg_of.
    - unfold enc_signed_data. cbn [sd_data sd_sig sd_signer].
      apply emits_app; [apply emits_rec; [nk | assumption]|].
      apply emits_app; [apply emits_bytes; [nk | assumption]|].
      apply emits_rec; [nk | assumption].
    - eapply steps_app.
      { apply steps_one. rewrite psd_step_data. cbn [psd_data psd0]. rewrite (dec_data_into d Hh). reflexivity. }
      eapply steps_app.
      { apply steps_bytes; [intros _; cbn; reflexivity | intros ->; reflexivity]. }
      apply steps_one. rewrite psd_step_signer. cbn [psd_signer psd0].
      rewrite (signer_pb_roundtrip _ Ha' Hk'). reflexivity. }
  rewrite Hd. cbn [psd_data psd_signer psd_sig]. rewrite (signer_glue sn Hn). reflexivity.
Qed.

Lemma signed_data_roundtrip : forall s, wf_signed_data s ->
  marshal_signed_data s = Some (enc_signed_data s) /\
  dec_signed_data pk_canon (enc_signed_data s) = Some s.
Proof.
  intros s H. split.
  - unfold marshal_signed_data. destruct H as (Hd & _). rewrite (wf_data_meta_ok _ Hd). reflexivity.
  - apply signed_data_dec. exact H.
Qed.
End WithPubKeysProofs.

(* ---------------------------------------------------------------------------------------------- *)
(* Timestamp, State                                                                                *)

Lemma u64_of_z_lt : forall z, u64_of_z z < two64.
Proof.
  intro z. unfold u64_of_z, two64, two64z.
  pose proof (Z.mod_pos_bound z 18446744073709551616 ltac:(lia)). lia.
Qed.

Lemma z_of_u64_of_z : forall z, (- two63z <= z < two63z)%Z -> z_of_u64 (u64_of_z z) = z.
Proof.
  intros z H. unfold z_of_u64, u64_of_z, wrap64, two63z, two64z in *.
  pose proof (Z.mod_pos_bound z 18446744073709551616 ltac:(lia)).
  rewrite Z2N.id by lia.
  Z.div_mod_to_equations. lia.
Qed.

Lemma z_of_u32_of_z : forall z, (0 <= z < 1000000000)%Z -> z_of_u32 (u64_of_z z) = z.
Proof.
  intros z H. unfold z_of_u32, u64_of_z, two64z in *.
  pose proof (Z.mod_pos_bound z 18446744073709551616 ltac:(lia)).
  rewrite Z2N.id by lia.
  Z.div_mod_to_equations. lia.
Qed.

Lemma u64_of_z_zero : forall z, (- two63z <= z < two63z)%Z -> u64_of_z z = 0 -> z = 0%Z.
Proof.
  intros z H E. unfold u64_of_z, two63z, two64z in *.
  pose proof (Z.mod_pos_bound z 18446744073709551616 ltac:(lia)).
  assert (Hz : (z mod 18446744073709551616 = 0)%Z) by lia.
  revert Hz. Z.div_mod_to_equations. lia.
Qed.

Definition wf_time (t : Z * Z) : Prop := (- two63z <= fst t < two63z)%Z /\ (0 <= snd t < 1000000000)%Z.

Lemma sz_enc_timestamp : forall t, sz (enc_timestamp t).
Proof.
  intro t. unfold sz, len, enc_timestamp. rewrite app_length.
  pose proof (f_varint_small_length 1 (u64_of_z (fst t)) ltac:(lia)).
  pose proof (f_varint_small_length 2 (u64_of_z (snd t)) ltac:(lia)). unfold two64. lia.
Qed.

Lemma dec_timestamp : forall t, wf_time t -> dec_msg timestamp_step (0%Z, 0%Z) (enc_timestamp t) = Some t.
Proof.
  intros [s n] [Hs Hn]. cbn [fst snd] in *. eapply dec_msg_of.
  - unfold enc_timestamp. cbn [fst snd]. apply emits_app; apply emits_varint; try nk; apply u64_of_z_lt.
  - apply (steps_app _ _ _ _ _ (s, 0%Z)).
    + apply steps_varint.
      * intros _. cbn [timestamp_step N.eqb Pos.eqb fst snd]. rewrite (z_of_u64_of_z s Hs). reflexivity.
      * intro E. rewrite (u64_of_z_zero s Hs E). reflexivity.
    + apply steps_varint.
      * intros _. cbn [timestamp_step N.eqb Pos.eqb fst snd]. rewrite (z_of_u32_of_z n Hn). reflexivity.
      * intro E. assert (n = 0%Z). { apply u64_of_z_zero; [unfold two63z; lia | exact E]. } subst n. reflexivity.
Qed.

Lemma unix_norm_id : forall t, wf_time t -> unix_norm (fst t) (snd t) = t.
Proof.
  intros [s n] [Hs Hn]. cbn [fst snd] in *. unfold unix_norm, wrap64, two63z, two64z in *.
  f_equal; Z.div_mod_to_equations; lia.
Qed.

Definition wf_state (s : wstate) : Prop :=
  wf_version (s_version s) /\ sz (s_chain s) /\ utf8_valid (s_chain s) = true /\ s_initial s < two64 /\
  s_last_height s < two64 /\ wf_time (s_time s) /\ s_da s < two64 /\ sz (s_last_results s) /\ sz (s_app s).

Definition pb_of_state (s : wstate) : pb_state :=
  {| ps_version := s_version s; ps_chain := s_chain s; ps_initial := s_initial s; ps_last_height := s_last_height s;
     ps_time := Some (s_time s); ps_da := s_da s; ps_last_results := s_last_results s; ps_app := s_app s |}.

Lemma pstate_step_version : forall a b,
  pstate_step a (1, PBytes b) =
  match dec_msg version_step (ps_version a) b with
  | Some v => Some {| ps_version := v; ps_chain := ps_chain a; ps_initial := ps_initial a; ps_last_height := ps_last_height a; ps_time := ps_time a; ps_da := ps_da a; ps_last_results := ps_last_results a; ps_app := ps_app a |}
  | None => None end.
Proof. reflexivity. Qed.
Lemma pstate_step_chain : forall a b, utf8_valid b = true ->
  pstate_step a (2, PBytes b) =
  Some {| ps_version := ps_version a; ps_chain := b; ps_initial := ps_initial a; ps_last_height := ps_last_height a; ps_time := ps_time a; ps_da := ps_da a; ps_last_results := ps_last_results a; ps_app := ps_app a |}.
Proof.
  intros a b H.
  change (pstate_step a (2, PBytes b)) with
    (if utf8_valid b then Some {| ps_version := ps_version a; ps_chain := b; ps_initial := ps_initial a; ps_last_height := ps_last_height a; ps_time := ps_time a; ps_da := ps_da a; ps_last_results := ps_last_results a; ps_app := ps_app a |} else None).
  rewrite H. reflexivity.
Qed.
Lemma pstate_step_time : forall a b,
  pstate_step a (5, PBytes b) =
  match dec_msg timestamp_step (match ps_time a with Some t => t | None => (0%Z, 0%Z) end) b with
  | Some t => Some {| ps_version := ps_version a; ps_chain := ps_chain a; ps_initial := ps_initial a; ps_last_height := ps_last_height a; ps_time := Some t; ps_da := ps_da a; ps_last_results := ps_last_results a; ps_app := ps_app a |}
  | None => None end.
Proof. reflexivity. Qed.

Lemma state_roundtrip : forall s, wf_state s ->
  marshal_state s = Some (enc_state s) /\ dec_state (enc_state s) = Some s.
Proof.
  intros s H. split.
  { unfold marshal_state. destruct H as (_ & _ & Hu & _). rewrite Hu. reflexivity. }
  destruct s as [v ch ini lh tm da lr ap].
  destruct H as (Hv & Hch & Hu & Hi & Hl & Ht & Hd & Hlr & Hap). cbn [s_version s_chain s_initial s_last_height s_time s_da s_last_results s_app] in *.
  unfold dec_state.
  assert (Hdec : dec_msg pstate_step pstate0 (enc_state {| s_version := v; s_chain := ch; s_initial := ini; s_last_height := lh; s_time := tm; s_da := da; s_last_results := lr; s_app := ap |}) =
                 Some (pb_of_state {| s_version := v; s_chain := ch; s_initial := ini; s_last_height := lh; s_time := tm; s_da := da; s_last_results := lr; s_app := ap |})).
  { eapply dec_msg_of.
    - unfold enc_state. cbn [s_version s_chain s_initial s_last_height s_time s_da s_last_results s_app].
      apply emits_app; [apply emits_rec; [nk | apply sz_enc_version]|].
      apply emits_app; [apply emits_bytes; [nk | assumption]|].
      apply emits_app; [apply emits_varint; [nk | assumption]|].
      apply emits_app; [apply emits_varint; [nk | assumption]|].
      apply emits_app; [apply emits_rec; [nk | apply sz_enc_timestamp]|].
      apply emits_app; [apply emits_varint; [nk | assumption]|].
      apply emits_app; [apply emits_bytes; [nk | assumption]|].
      apply emits_bytes; [nk | assumption].
    - unfold pb_of_state. cbn [s_version s_chain s_initial s_last_height s_time s_da s_last_results s_app].
      eapply steps_app.
      { apply steps_one. rewrite pstate_step_version. change (ps_version pstate0) with version0. rewrite (dec_version v Hv). reflexivity. }
      eapply steps_app.
      { apply steps_bytes; [intros _; rewrite (pstate_step_chain _ _ Hu); reflexivity | intros ->; reflexivity]. }
      step_v. step_v.
      eapply steps_app.
      { apply steps_one. rewrite pstate_step_time. cbn [ps_time pstate0]. rewrite (dec_timestamp tm Ht). reflexivity. }
      step_v. step_b.
      apply steps_bytes; [intros _; cbn; reflexivity | intros ->; reflexivity]. }
  rewrite Hdec. destruct tm as [sec ns]. pose proof (unix_norm_id (sec, ns) Ht) as Hn. cbn [fst snd] in Hn.
  unfold state_from_pb, pb_of_state. cbn [ps_version ps_chain ps_initial ps_last_height ps_time ps_da ps_last_results ps_app s_version s_chain s_initial s_last_height s_time s_da s_last_results s_app].
  rewrite Hn. reflexivity.
Qed.

(* ---------------------------------------------------------------------------------------------- *)
(* batch-cursor list codec                                                                         *)

Lemma le32_value : forall n, n < two32 ->
  n mod 256 + 256 * ((n / 256) mod 256) + 65536 * ((n / 65536) mod 256) + 16777216 * ((n / 16777216) mod 256) = n.
Proof.
  intros n H. unfold two32 in H.
  assert (E2 : n / 65536 = n / 256 / 256) by (rewrite N.div_div by lia; reflexivity).
  assert (E3 : n / 16777216 = n / 256 / 256 / 256) by (rewrite !N.div_div by lia; reflexivity).
  rewrite E2, E3.
  pose proof (N.div_mod n 256 ltac:(lia)).
  pose proof (N.div_mod (n / 256) 256 ltac:(lia)).
  pose proof (N.div_mod (n / 256 / 256) 256 ltac:(lia)).
  pose proof (N.div_mod (n / 256 / 256 / 256) 256 ltac:(lia)).
  pose proof (N.mod_lt n 256 ltac:(lia)).
  pose proof (N.mod_lt (n / 256) 256 ltac:(lia)).
  pose proof (N.mod_lt (n / 256 / 256) 256 ltac:(lia)).
  assert (n / 256 / 256 / 256 / 256 = 0).
  { rewrite !N.div_div by lia. apply N.div_small. lia. }
  lia.
Qed.

Lemma cursor_roundtrip_fuel : forall l f, (length (enc_cursor l) <= f)%nat -> Forall (fun e => len e < two32) l ->
  dec_cursor_fuel f (enc_cursor l) = Some l.
Proof.
  induction l as [|e l IH]; intros f Hf Hl.
  - destruct f; reflexivity.
  - inversion Hl as [|x y He Hl']; subst.
    change (enc_cursor (e :: l)) with ((le32 (len e) ++ e) ++ enc_cursor l) in *.
    unfold le32 in Hf |- *. cbn [app] in Hf |- *.
    destruct f as [|f]; [cbn in Hf; lia|].
    cbn [dec_cursor_fuel].
    rewrite (le32_value (len e) He). rewrite take_app.
    rewrite IH; [reflexivity | | exact Hl'].
    cbn [length] in Hf. rewrite app_length in Hf. lia.
Qed.

Lemma cursor_roundtrip : forall l, Forall (fun e => len e < two32) l -> dec_cursor (enc_cursor l) = Some l.
Proof. intros l H. apply cursor_roundtrip_fuel; [lia | exact H]. Qed.

(* ---------------------------------------------------------------------------------------------- *)
(* hashes, commitment                                                                              *)

Lemma commitment_txs_only : forall d1 d2, d_txs d1 = d_txs d2 -> commitment_preimage d1 = commitment_preimage d2.
Proof. intros d1 d2 H. unfold commitment_preimage. rewrite H. reflexivity. Qed.

Lemma commitment_injective : forall d1 d2, Forall sz (d_txs d1) -> Forall sz (d_txs d2) ->
  commitment_preimage d1 = commitment_preimage d2 -> d_txs d1 = d_txs d2.
Proof.
  intros d1 d2 H1 H2 E. unfold commitment_preimage in E. inversion E as [E'].
  assert (W1 : wf_data {| d_meta := None; d_txs := d_txs d1 |}) by (split; [intros m Hm; discriminate | exact H1]).
  assert (W2 : wf_data {| d_meta := None; d_txs := d_txs d2 |}) by (split; [intros m Hm; discriminate | exact H2]).
  pose proof (dec_data_into _ W1) as D1. pose proof (dec_data_into _ W2) as D2.
  rewrite E' in D1. rewrite D1 in D2. inversion D2. reflexivity.
Qed.

(* ---------------------------------------------------------------------------------------------- *)
(* hashes and signatures after the round trip                                                      *)

Lemma hash_and_signature_stable :
  forall (sha : bytes -> bytes) (verify : bytes -> bytes -> bytes -> bool) pk_canon s s',
  wf_signed_header pk_canon s -> dec_signed_header pk_canon (enc_signed_header s) = Some s' ->
  sha (header_hash_preimage (sh_header s')) = sha (header_hash_preimage (sh_header s)) /\
  verify (sg_pk (sh_signer s')) (header_sig_payload (sh_header s')) (sh_sig s') =
  verify (sg_pk (sh_signer s)) (header_sig_payload (sh_header s)) (sh_sig s).
Proof.
  intros sha verify pkc s s' Hw Hd. rewrite (signed_header_dec pkc s Hw) in Hd. inversion Hd; subst; clear Hd.
  split; reflexivity.
Qed.

Lemma data_hash_and_signature_stable :
  forall (sha : bytes -> bytes) (verify : bytes -> bytes -> bytes -> bool) pk_canon s s',
  wf_signed_data pk_canon s -> dec_signed_data pk_canon (enc_signed_data s) = Some s' ->
  sha (data_hash_preimage (sd_data s')) = sha (data_hash_preimage (sd_data s)) /\
  sha (commitment_preimage (sd_data s')) = sha (commitment_preimage (sd_data s)) /\
  verify (sg_pk (sd_signer s')) (data_sig_payload (sd_data s')) (sd_sig s') =
  verify (sg_pk (sd_signer s)) (data_sig_payload (sd_data s)) (sd_sig s).
Proof.
  intros sha verify pkc s s' Hw Hd. rewrite (signed_data_dec pkc s Hw) in Hd. inversion Hd; subst; clear Hd.
  repeat split; reflexivity.
Qed.

(* ---------------------------------------------------------------------------------------------- *)
(* what a successful decode guarantees about the value (used for decode stability)                 *)

Definition fld_ok (f : field) : Prop := match f with (_, PVar n) => n < two64 | _ => True end.

Lemma parse_one_ok : forall bs f r, parse_one bs = Some (f, r) -> fld_ok f.
Proof.
  intros bs f r H. unfold parse_one in H.
  destruct (read_tag bs) as [[[num wt] r0]|]; [|discriminate].
  destruct (wt =? 0).
  { destruct (dec_varint r0) as [[x r1]|] eqn:E1; [|discriminate]. inversion H; subst. cbn. eapply dec_varint_bound; eauto. }
  destruct (wt =? 1). { destruct (take 8 r0) as [[x r1]|]; [|discriminate]. inversion H; subst. exact I. }
  destruct (wt =? 2).
  { destruct (dec_varint r0) as [[l r1]|]; [|discriminate]. destruct (take l r1) as [[x r2]|]; [|discriminate]. inversion H; subst. exact I. }
  destruct (wt =? 3). { destruct (skip_group (S (length r0)) [num] 1 r0); [|discriminate]. inversion H; subst. exact I. }
  destruct (wt =? 5). { destruct (take 4 r0) as [[x r1]|]; [|discriminate]. inversion H; subst. exact I. }
  discriminate.
Qed.

Lemma parse_fuel_ok : forall f bs l, parse_fuel f bs = Some l -> Forall fld_ok l.
Proof.
  induction f as [|f IH]; intros bs l H.
  - destruct bs; cbn in H; [inversion H; constructor | discriminate].
  - destruct bs as [|b t]; cbn [parse_fuel] in H; [inversion H; constructor|].
    destruct (parse_one (b :: t)) as [[fld r]|] eqn:E; [|discriminate].
    destruct (parse_fuel f r) as [l'|] eqn:E'; [|discriminate].
    inversion H; subst. constructor; [eapply parse_one_ok; eauto | eapply IH; eauto].
Qed.

Lemma fold_inv : forall A (P : A -> Prop) (step : A -> field -> option A),
  (forall a f a', P a -> fld_ok f -> step a f = Some a' -> P a') ->
  forall l a a', Forall fld_ok l -> P a -> fold_opt step l a = Some a' -> P a'.
Proof.
  intros A P step Hstep l. induction l as [|f l IH]; intros a a' Hl Ha H; cbn [fold_opt] in H.
  - inversion H; subst. exact Ha.
  - inversion Hl as [|x y Hf Hl']; subst. destruct (step a f) as [a1|] eqn:E; [|discriminate].
    apply (IH a1 a' Hl'); [|exact H]. eapply Hstep; [exact Ha | exact Hf | exact E].
Qed.

Lemma dec_msg_inv : forall A (P : A -> Prop) (step : A -> field -> option A),
  (forall a f a', P a -> fld_ok f -> step a f = Some a' -> P a') ->
  forall init bs v, P init -> dec_msg step init bs = Some v -> P v.
Proof.
  intros A P step Hstep init bs v Hi H. unfold dec_msg in H.
  destruct (parse bs) as [fl|] eqn:E; [|discriminate].
  apply (fold_inv A P step Hstep fl init v); [eapply parse_fuel_ok; exact E | exact Hi | exact H].
Qed.

Ltac split_step H :=
  repeat match type of H with
         | context [if ?c then _ else _] => destruct c eqn:?
         | context [match ?x with Some _ => _ | None => _ end] => destruct x eqn:?
         end.

Lemma version_step_inv : forall a f a', wf_version a -> fld_ok f -> version_step a f = Some a' -> wf_version a'.
Proof.
  intros a [num p] a' [H1 H2] Hf H. destruct p; cbn [version_step] in H; try (inversion H; subst; split; assumption).
  cbn in Hf. split_step H; inversion H; subst; split; cbn; assumption.
Qed.

Ltac c4 := (split; [|split; [|split]]).
Ltac c3 := (split; [|split]).

Definition inv_header (h : wheader) : Prop :=
  wf_version (h_version h) /\ h_height h < two64 /\ h_time h < two64 /\ utf8_valid (h_chain h) = true.

Lemma header_step_inv : forall a f a', inv_header a -> fld_ok f -> header_step a f = Some a' -> inv_header a'.
Proof.
  intros a [num p] a' (H1 & H2 & H3 & H4) Hf H.
  destruct p; cbn [header_step] in H; try (inversion H; subst; c4; assumption).
  - cbn in Hf. split_step H; inversion H; subst; unfold inv_header; hnorm; c4; assumption.
  - split_step H; try discriminate; inversion H; subst; unfold inv_header; hnorm; c4; try assumption.
    eapply (dec_msg_inv _ wf_version version_step version_step_inv); eauto.
Qed.

Lemma header0_inv : inv_header header0.
Proof. unfold inv_header, wf_version, two64; cbn. repeat split; try lia. Qed.

Definition sizes_header (h : wheader) : Prop :=
  sz (h_last_header h) /\ sz (h_last_commit h) /\ sz (h_data_hash h) /\ sz (h_consensus h) /\
  sz (h_app_hash h) /\ sz (h_last_results h) /\ sz (h_proposer h) /\ sz (h_validator h) /\ sz (h_chain h).

Lemma header_decode_stable : forall bs h, dec_header bs = Some h -> sizes_header h ->
  marshal_header h = Some (enc_header h) /\ dec_header (enc_header h) = Some h.
Proof.
  intros bs h H Hs. apply header_roundtrip.
  pose proof (dec_msg_inv _ inv_header header_step header_step_inv header0 bs h header0_inv H) as (I1 & I2 & I3 & I4).
  destruct Hs as (S4 & S5 & S6 & S7 & S8 & S9 & S10 & S11 & S12).
  unfold wf_header. repeat split; try assumption; apply I1.
Qed.

Definition inv_metadata (m : wmetadata) : Prop :=
  utf8_valid (m_chain m) = true /\ m_height m < two64 /\ m_time m < two64.

Lemma metadata_step_inv : forall a f a', inv_metadata a -> fld_ok f -> metadata_step a f = Some a' -> inv_metadata a'.
Proof.
  intros a [num p] a' (H1 & H2 & H3) Hf H.
  destruct p; cbn [metadata_step] in H; try (inversion H; subst; c3; assumption).
  - cbn in Hf. split_step H; inversion H; subst; unfold inv_metadata; cbn; c3; assumption.
  - split_step H; try discriminate; inversion H; subst; unfold inv_metadata; cbn; c3; assumption.
Qed.

Lemma metadata0_inv : inv_metadata metadata0.
Proof. unfold inv_metadata, two64; cbn. repeat split; lia. Qed.

Definition sizes_metadata (m : wmetadata) : Prop := sz (m_chain m) /\ sz (m_last m).

Lemma metadata_decode_stable : forall bs m, dec_metadata bs = Some m -> sizes_metadata m ->
  marshal_metadata m = Some (enc_metadata m) /\ dec_metadata (enc_metadata m) = Some m.
Proof.
  intros bs m H [S1 S2]. apply metadata_roundtrip.
  pose proof (dec_msg_inv _ inv_metadata metadata_step metadata_step_inv metadata0 bs m metadata0_inv H) as (I1 & I2 & I3).
  unfold wf_metadata. repeat split; assumption.
Qed.

Definition inv_data (d : wdata) : Prop := forall m, d_meta d = Some m -> inv_metadata m.

Lemma data_step_inv : forall a f a', inv_data a -> fld_ok f -> data_step a f = Some a' -> inv_data a'.
Proof.
  intros a [num p] a' Ha Hf H.
  destruct p; cbn [data_step] in H; try (inversion H; subst; assumption).
  split_step H; try discriminate; inversion H; subst; unfold inv_data in *; cbn [d_meta]; try assumption.
  intros m Hm. inversion Hm; subst.
  eapply (dec_msg_inv _ inv_metadata metadata_step metadata_step_inv); [|eassumption].
  destruct (d_meta a) as [m0|]; [apply Ha; reflexivity | apply metadata0_inv].
Qed.

Definition sizes_data (d : wdata) : Prop :=
  (forall m, d_meta d = Some m -> sizes_metadata m /\ sz (enc_metadata m)) /\ Forall sz (d_txs d).

Lemma data_decode_stable : forall bs d, dec_data bs = Some d -> sizes_data d ->
  marshal_data d = Some (enc_data d) /\ dec_data (enc_data d) = Some d.
Proof.
  intros bs d H [S1 S2]. apply data_roundtrip.
  assert (I : inv_data d).
  { eapply (dec_msg_inv _ inv_data data_step data_step_inv data0); [|exact H]. intros m Hm. discriminate. }
  split; [|exact S2]. intros m Hm. destruct (S1 m Hm) as [[Sa Sb] Sc]. destruct (I m Hm) as (I1 & I2 & I3).
  split; [|exact Sc]. unfold wf_metadata. repeat split; assumption.
Qed.

Lemma batch_decode_stable : forall bs l, dec_batch bs = Some l -> Forall sz l -> dec_batch (enc_batch l) = Some l.
Proof. intros bs l _ H. apply batch_roundtrip. exact H. Qed.

Lemma header_decode_total_stable : forall bs, dec_header bs = None \/
  exists h, dec_header bs = Some h /\
            (sizes_header h -> marshal_header h = Some (enc_header h) /\ dec_header (enc_header h) = Some h).
Proof.
  intro bs. destruct (dec_header bs) as [h|] eqn:E; [right|left; reflexivity].
  exists h. split; [reflexivity|]. apply (header_decode_stable bs h E).
Qed.

Lemma metadata_decode_total_stable : forall bs, dec_metadata bs = None \/
  exists m, dec_metadata bs = Some m /\
            (sizes_metadata m -> marshal_metadata m = Some (enc_metadata m) /\ dec_metadata (enc_metadata m) = Some m).
Proof.
  intro bs. destruct (dec_metadata bs) as [m|] eqn:E; [right|left; reflexivity].
  exists m. split; [reflexivity|]. apply (metadata_decode_stable bs m E).
Qed.

Lemma data_decode_total_stable : forall bs, dec_data bs = None \/
  exists d, dec_data bs = Some d /\
            (sizes_data d -> marshal_data d = Some (enc_data d) /\ dec_data (enc_data d) = Some d).
Proof.
  intro bs. destruct (dec_data bs) as [d|] eqn:E; [right|left; reflexivity].
  exists d. split; [reflexivity|]. apply (data_decode_stable bs d E).
Qed.

Lemma batch_decode_total_stable : forall bs, dec_batch bs = None \/
  exists l, dec_batch bs = Some l /\ (Forall sz l -> dec_batch (enc_batch l) = Some l).
Proof.
  intro bs. destruct (dec_batch bs) as [l|] eqn:E; [right|left; reflexivity].
  exists l. split; [reflexivity|]. apply (batch_decode_stable bs l E).
Qed.

(* ---------------------------------------------------------------------------------------------- *)
(* decode stability for State, SignedHeader, SignedData                                            *)

Lemma wf_header_of : forall h, inv_header h -> sizes_header h -> wf_header h.
Proof.
  intros h (I1 & I2 & I3 & I4) (S4 & S5 & S6 & S7 & S8 & S9 & S10 & S11 & S12).
  unfold wf_header. repeat split; try assumption; apply I1.
Qed.

Lemma wf_data_of : forall d, inv_data d -> sizes_data d -> wf_data d.
Proof.
  intros d I [S1 S2]. split; [|exact S2]. intros m Hm. destruct (S1 m Hm) as [[Sa Sb] Sc]. destruct (I m Hm) as (I1 & I2 & I3).
  split; [|exact Sc]. unfold wf_metadata. repeat split; assumption.
Qed.

Lemma unix_norm_wf : forall s n, wf_time (unix_norm s n).
Proof.
  intros s n. unfold wf_time, unix_norm, wrap64, two63z, two64z. cbn [fst snd].
  split; Z.div_mod_to_equations; lia.
Qed.

Definition inv_pstate (p : pb_state) : Prop :=
  wf_version (ps_version p) /\ utf8_valid (ps_chain p) = true /\ ps_initial p < two64 /\ ps_last_height p < two64 /\ ps_da p < two64.

Ltac c5 := (split; [|split; [|split; [|split]]]).

Lemma pstate_step_inv : forall a f a', inv_pstate a -> fld_ok f -> pstate_step a f = Some a' -> inv_pstate a'.
Proof.
  intros a [num p] a' (H1 & H2 & H3 & H4 & H5) Hf H.
  destruct p; cbn [pstate_step] in H; try (inversion H; subst; c5; assumption).
  - cbn in Hf. split_step H; inversion H; subst; unfold inv_pstate; cbn; c5; assumption.
  - split_step H; try discriminate; inversion H; subst; unfold inv_pstate; cbn; c5; try assumption.
    eapply (dec_msg_inv _ wf_version version_step version_step_inv); eauto.
Qed.

Lemma pstate0_inv : inv_pstate pstate0.
Proof. unfold inv_pstate, wf_version, two64; cbn. repeat split; lia. Qed.

Definition sizes_state (s : wstate) : Prop := sz (s_chain s) /\ sz (s_last_results s) /\ sz (s_app s).

Lemma state_decode_stable : forall bs s, dec_state bs = Some s -> sizes_state s ->
  marshal_state s = Some (enc_state s) /\ dec_state (enc_state s) = Some s.
Proof.
  intros bs s H (S1 & S2 & S3). apply state_roundtrip. unfold dec_state in H.
  destruct (dec_msg pstate_step pstate0 bs) as [p|] eqn:E; [|discriminate]. inversion H; subst; clear H.
  pose proof (dec_msg_inv _ inv_pstate pstate_step pstate_step_inv pstate0 bs p pstate0_inv E) as (I1 & I2 & I3 & I4 & I5).
  unfold state_from_pb, sizes_state in *. cbn [s_version s_chain s_initial s_last_height s_time s_da s_last_results s_app] in *.
  unfold wf_state. cbn [s_version s_chain s_initial s_last_height s_time s_da s_last_results s_app].
  repeat split; try assumption; try apply I1.
  all: destruct (ps_time p) as [[sec ns]|]; [apply unix_norm_wf | unfold zero_time, two63z; cbn; lia].
Qed.

Lemma state_decode_total_stable : forall bs, dec_state bs = None \/
  exists s, dec_state bs = Some s /\
            (sizes_state s -> marshal_state s = Some (enc_state s) /\ dec_state (enc_state s) = Some s).
Proof.
  intro bs. destruct (dec_state bs) as [s|] eqn:E; [right|left; reflexivity].
  exists s. split; [reflexivity|]. apply (state_decode_stable bs s E).
Qed.

Section StableSigned.
Variable pk_canon : bytes -> option bytes.
(* crypto.MarshalPublicKey output re-parses to itself *)
Hypothesis pk_canon_idem : forall raw c, pk_canon raw = Some c -> pk_canon c = Some c.

Lemma signer_from_pb_canon : forall o s, signer_from_pb pk_canon o = Some s ->
  sg_pk s = [] \/ pk_canon (sg_pk s) = Some (sg_pk s).
Proof.
  intros o s H. unfold signer_from_pb in H. destruct o as [x|]; [|inversion H; left; reflexivity].
  destruct (is_nil (sg_pk x)).
  - destruct (is_nil (sg_addr x)); inversion H; left; reflexivity.
  - destruct (pk_canon (sg_pk x)) as [c|] eqn:E; [|discriminate]. inversion H; subst. right. cbn [sg_pk]. eapply pk_canon_idem; eauto.
Qed.

Definition sizes_signer (s : wsigner) : Prop := sz (sg_addr s) /\ sz (sg_pk s) /\ sz (enc_signer (signer_to_pb s)).

Definition inv_psh (p : pb_signed_header) : Prop := forall h, psh_header p = Some h -> inv_header h.

Lemma psh_step_inv : forall a f a', inv_psh a -> fld_ok f -> psh_step a f = Some a' -> inv_psh a'.
Proof.
  intros a [num p] a' Ha Hf H.
  destruct p; cbn [psh_step] in H; try (inversion H; subst; assumption).
  split_step H; try discriminate; inversion H; subst; unfold inv_psh in *; cbn [psh_header]; try assumption.
  intros h Hh. inversion Hh; subst.
  eapply (dec_msg_inv _ inv_header header_step header_step_inv); [|eassumption].
  destruct (psh_header a) as [h0|]; [apply Ha; reflexivity | apply header0_inv].
Qed.

Definition sizes_signed_header (s : wsigned_header) : Prop :=
  sizes_header (sh_header s) /\ sz (enc_header (sh_header s)) /\ sz (sh_sig s) /\ sizes_signer (sh_signer s).

Lemma signed_header_decode_stable : forall bs s, dec_signed_header pk_canon bs = Some s -> sizes_signed_header s ->
  marshal_signed_header s = Some (enc_signed_header s) /\ dec_signed_header pk_canon (enc_signed_header s) = Some s.
Proof.
  intros bs s H (S1 & S2 & S3 & S4 & S5 & S6). apply signed_header_roundtrip. unfold dec_signed_header in H.
  destruct (dec_msg psh_step psh0 bs) as [p|] eqn:E; [|discriminate].
  assert (I : inv_psh p).
  { eapply (dec_msg_inv _ inv_psh psh_step psh_step_inv psh0); [|exact E]. intros h Hh. discriminate. }
  destruct (psh_header p) as [h|] eqn:Eh; [|discriminate].
  destruct (signer_from_pb pk_canon (psh_signer p)) as [sg|] eqn:Es; [|discriminate].
  inversion H; subst; clear H. cbn [sh_header sh_sig sh_signer] in *.
  unfold wf_signed_header, wf_signer. cbn [sh_header sh_sig sh_signer].
  split; [apply wf_header_of; [apply I; exact Eh | assumption]|].
  split; [assumption|]. split; [assumption|]. split; [assumption|]. split; [assumption|]. split; [assumption|].
  eapply signer_from_pb_canon; eauto.
Qed.

Definition inv_psd (p : pb_signed_data) : Prop := forall d, psd_data p = Some d -> inv_data d.

Lemma data0_inv : inv_data data0.
Proof. intros m Hm. discriminate. Qed.

Lemma psd_step_inv : forall a f a', inv_psd a -> fld_ok f -> psd_step a f = Some a' -> inv_psd a'.
Proof.
  intros a [num p] a' Ha Hf H.
  destruct p; cbn [psd_step] in H; try (inversion H; subst; assumption).
  split_step H; try discriminate; inversion H; subst; unfold inv_psd in *; cbn [psd_data]; try assumption.
  intros d Hd. inversion Hd; subst.
  eapply (dec_msg_inv _ inv_data data_step data_step_inv); [|eassumption].
  destruct (psd_data a) as [d0|]; [apply Ha; reflexivity | apply data0_inv].
Qed.

Definition sizes_signed_data (s : wsigned_data) : Prop :=
  sizes_data (sd_data s) /\ sz (enc_data (sd_data s)) /\ sz (sd_sig s) /\ sizes_signer (sd_signer s).

Lemma signed_data_decode_stable : forall bs s, dec_signed_data pk_canon bs = Some s -> sizes_signed_data s ->
  marshal_signed_data s = Some (enc_signed_data s) /\ dec_signed_data pk_canon (enc_signed_data s) = Some s.
Proof.
  intros bs s H (S1 & S2 & S3 & S4 & S5 & S6). apply signed_data_roundtrip. unfold dec_signed_data in H.
  destruct (dec_msg psd_step psd0 bs) as [p|] eqn:E; [|discriminate].
  assert (I : inv_psd p).
  { eapply (dec_msg_inv _ inv_psd psd_step psd_step_inv psd0); [|exact E]. intros d Hd. discriminate. }
  destruct (signer_from_pb pk_canon (psd_signer p)) as [sg|] eqn:Es; [|discriminate].
  inversion H; subst; clear H. cbn [sd_data sd_sig sd_signer] in *.
  unfold wf_signed_data, wf_signer. cbn [sd_data sd_sig sd_signer].
  split; [apply wf_data_of; [|assumption]; destruct (psd_data p) as [d|] eqn:Ed; [apply I; exact Ed | apply data0_inv]|].
  split; [assumption|]. split; [assumption|]. split; [assumption|]. split; [assumption|]. split; [assumption|].
  eapply signer_from_pb_canon; eauto.
Qed.

Lemma signed_header_decode_total_stable : forall bs, dec_signed_header pk_canon bs = None \/
  exists s, dec_signed_header pk_canon bs = Some s /\
            (sizes_signed_header s -> marshal_signed_header s = Some (enc_signed_header s) /\
                                      dec_signed_header pk_canon (enc_signed_header s) = Some s).
Proof.
  intro bs. destruct (dec_signed_header pk_canon bs) as [s|] eqn:E; [right|left; reflexivity].
  exists s. split; [reflexivity|]. apply (signed_header_decode_stable bs s E).
Qed.

Lemma signed_data_decode_total_stable : forall bs, dec_signed_data pk_canon bs = None \/
  exists s, dec_signed_data pk_canon bs = Some s /\
            (sizes_signed_data s -> marshal_signed_data s = Some (enc_signed_data s) /\
                                    dec_signed_data pk_canon (enc_signed_data s) = Some s).
Proof.
  intro bs. destruct (dec_signed_data pk_canon bs) as [s|] eqn:E; [right|left; reflexivity].
  exists s. split; [reflexivity|]. apply (signed_data_decode_stable bs s E).
Qed.
End StableSigned.

(* ---------------------------------------------------------------------------------------------- *)
(* fuel: the group-skipping loop and the cursor loop never run out of fuel when fuel > input length *)

Lemma skip_group_fuel_indep : forall f1 f2 st lvl bs, (length bs < f1)%nat -> (length bs < f2)%nat ->
  skip_group f1 st lvl bs = skip_group f2 st lvl bs.
Proof.
  induction f1 as [|f1 IH]; intros f2 st lvl bs H1 H2; [lia|].
  destruct f2 as [|f2]; [lia|]. cbn [skip_group].
  destruct (read_tag_group bs) as [[[num wt] r0]|] eqn:ET; [|reflexivity].
  apply read_tag_group_shrinks in ET.
  destruct (wt =? 0).
  { destruct (dec_varint r0) as [[x r1]|] eqn:E1; [|reflexivity].
    apply dec_varint_shrinks in E1. apply IH; lia. }
  destruct (wt =? 1).
  { destruct (take 8 r0) as [[x r1]|] eqn:E1; [|reflexivity].
    apply take_shrinks in E1. apply IH; lia. }
  destruct (wt =? 2).
  { destruct (dec_varint r0) as [[l r1]|] eqn:E1; [|reflexivity].
    destruct (take l r1) as [[x r2]|] eqn:E2; [|reflexivity].
    apply dec_varint_shrinks in E1. apply take_shrinks in E2. apply IH; lia. }
  destruct (wt =? 3).
  { destruct (lvl <=? group_depth); [|reflexivity]. apply IH; lia. }
  destruct (wt =? 4).
  { destruct st as [|top st']; [reflexivity|].
    destruct (num =? top); [|reflexivity].
    destruct st' as [|s2 st'']; [reflexivity|]. apply IH; lia. }
  destruct (wt =? 5).
  { destruct (take 4 r0) as [[x r1]|] eqn:E1; [|reflexivity].
    apply take_shrinks in E1. apply IH; lia. }
  reflexivity.
Qed.

Lemma cursor_fuel_indep : forall f1 f2 bs, (length bs <= f1)%nat -> (length bs <= f2)%nat ->
  dec_cursor_fuel f1 bs = dec_cursor_fuel f2 bs.
Proof.
  induction f1 as [|f1 IH]; intros f2 bs H1 H2.
  - destruct bs; [destruct f2; reflexivity | cbn in H1; lia].
  - destruct bs as [|b t]; [destruct f2; reflexivity|].
    destruct f2 as [|f2]; [cbn in H2; lia|].
    cbn [dec_cursor_fuel].
    destruct t as [|b1 [|b2 [|b3 r]]]; try reflexivity.
    destruct (take (b + 256 * b1 + 65536 * b2 + 16777216 * b3) r) as [[e r']|] eqn:E; [|reflexivity].
    apply take_shrinks in E. cbn [length] in *. rewrite (IH f2 r'); [reflexivity | lia | lia].
Qed.
