(* Proofs/QueueBudgetProofs.v — the byte budget of a hand-out request plays no role (Model/QueueBudget.v): histories
   with budgets are FIFO histories of whole batches. *)
From Coq Require Import NArith List Bool.
From Verif Require Import Model.Queue Model.QueueBudget Proofs.QueueProofs.
Import ListNotations.
Open Scope N_scope.

Lemma b_vitem_no_budget : forall it, b_vitem (no_budget it) = b_vitem it.
Proof. intros [[ok s|ok mb]|m|[ok s|ok mb] n m]; reflexivity. Qed.

Lemma map_b_vitem_no_budget : forall h, map b_vitem (map no_budget h) = map b_vitem h.
Proof. induction h as [|it h IH]; cbn [map]; [reflexivity|]. rewrite b_vitem_no_budget, IH. reflexivity. Qed.

(* for ALL histories, budgets and bounds: results, queue and records are the plain FIFO's, a hand-out being the oldest
   accepted batch, entire *)
Lemma b_fifo_full : forall max0 h, b_fifo max0 h.
Proof. intros max0 h. exact (v_fifo_full max0 (map b_vitem h)). Qed.

(* the budgets of a history can be replaced by "none" (or by any others) without changing a result, the final state or a
   datastore write *)
Lemma b_budget_ignored : forall max0 h,
  b_run (v_st0 max0) (map no_budget h) = b_run (v_st0 max0) h /\
  b_wlog max0 (map no_budget h) = b_wlog max0 h.
Proof. intros. unfold b_run, b_wlog. rewrite map_b_vitem_no_budget. split; reflexivity. Qed.

Lemma b_same_plain_same_run : forall max0 h h',
  map b_vitem h = map b_vitem h' ->
  b_run (v_st0 max0) h = b_run (v_st0 max0) h' /\ b_wlog max0 h = b_wlog max0 h'.
Proof. intros max0 h h' E. unfold b_run, b_wlog. rewrite E. split; reflexivity. Qed.

(* one hand-out, in every state, for every budget: the result is the oldest queued batch ENTIRE, the queue loses
   exactly that entry, and the only datastore write is the delete of its record *)
Lemma b_next_whole_head : forall st mb k b r,
  mem (core (vr st)) = (k, b) :: r ->
  snd (v_step st (b_vitem (BOp (BNext true mb)))) = Some (RBatch b) /\
  mem (core (vr (fst (v_step st (b_vitem (BOp (BNext true mb))))))) = r /\
  db (core (vr (fst (v_step st (b_vitem (BOp (BNext true mb))))))) = db_del k (db (core (vr st))) /\
  nseq (vr (fst (v_step st (b_vitem (BOp (BNext true mb)))))) = nseq (vr st) /\
  v_wlog st [b_vitem (BOp (BNext true mb))] = [WDel k].
Proof.
  intros [[[m d] sq] vm vl] mb k b r Hm. cbn in Hm. subst m.
  cbn. repeat split; reflexivity.
Qed.

(* ... and on an empty queue: a batch without transactions, nothing written *)
Lemma b_next_empty : forall st mb,
  mem (core (vr st)) = [] ->
  v_step st (b_vitem (BOp (BNext true mb))) = (st, Some REmpty) /\ v_wlog st [b_vitem (BOp (BNext true mb))] = [].
Proof.
  intros [[[m d] sq] vm vl] mb Hm. cbn in Hm. subst m. cbn. split; reflexivity.
Qed.
