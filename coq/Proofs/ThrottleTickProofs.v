(* Proofs/ThrottleTickProofs.v — lemmas about Model/ThrottleTick.v (property C08): what one tick of a submission
   loop offers to the DA layer, and that a tick the DA layer answers by taking something moves the watermark. *)
From Coq Require Import NArith List Bool Lia ZifyBool ZifyN ZifyNat.
From Verif Require Import Model.Throttle Proofs.ThrottleProofs Model.ThrottleConc Proofs.ThrottleConcProofs Model.ThrottleTick.
Import ListNotations.
Open Scope N_scope.

(* ---- submitToDA: every request carries everything that is left ------------------------------------------ *)
Lemma submit_loop_chain : forall fuel rem sc wp, rem <> [] ->
  chain rem (fst (fst (fst (submit_loop fuel rem sc wp)))).
Proof.
  induction fuel as [|f IH]; intros rem sc wp Hne; cbn [submit_loop].
  - constructor.
  - destruct sc as [|o sc']; [constructor|].
    destruct (match o with OAccept k => Nat.min (N.to_nat k) (length rem) | OAcceptAll => length rem | OFail => O end) as [|t].
    + specialize (IH rem sc' wp Hne).
      destruct (submit_loop f rem sc' wp) as [[[cs acc] e] wp'].
      cbn [fst] in *. apply (chain_call rem 0); [assumption | exact IH].
    + destruct (skipn (S t) rem) as [|r0 rest0] eqn:Hsk.
      * cbn [fst]. apply (chain_call rem 0); [assumption | constructor].
      * specialize (IH (r0 :: rest0) sc' (set_mark wp (last (firstn (S t) rem) 0)) ltac:(discriminate)).
        destruct (submit_loop f (r0 :: rest0) sc' (set_mark wp (last (firstn (S t) rem) 0))) as [[[cs acc] e] wp'].
        cbn [fst] in *. apply (chain_call rem (S t)); [assumption | rewrite Hsk; exact IH].
Qed.

(* … and an answer that takes something moves the watermark, at once *)
Lemma submit_loop_first_accept : forall f rem o sc w p cs acc e w' p',
  inc w rem -> rem <> [] -> accepts_some o = true ->
  submit_loop (S f) rem (o :: sc) (w, p) = (cs, acc, e, (w', p')) ->
  w < w' /\ p' = w' /\ (o = OAcceptAll -> acc = rem /\ w' = last rem 0).
Proof.
  intros f rem o sc w p cs acc e w' p' Hinc Hne Ho Heq. cbn [submit_loop] in Heq.
  remember (match o with OAccept k => Nat.min (N.to_nat k) (length rem) | OAcceptAll => length rem | OFail => O end) as take eqn:Htake.
  assert (Hlen : (1 <= length rem)%nat) by (destruct rem; [congruence | cbn [length]; lia]).
  assert (Hpos : (1 <= take)%nat).
  { subst take. destruct o as [k| |]; cbn [accepts_some] in Ho; [|lia|discriminate].
    apply N.leb_le in Ho. lia. }
  destruct take as [|t]; [lia|].
  assert (Hsub : firstn (S t) rem <> []) by (destruct rem; cbn in *; [lia | discriminate]).
  pose proof (firstn_skipn (S t) rem) as Hfs.
  rewrite <- Hfs in Hinc.
  destruct (inc_split _ _ _ Hsub Hinc) as [H1 [H2 [H3 H4]]].
  rewrite (set_mark_lt _ _ _ H1) in Heq.
  destruct (skipn (S t) rem) as [|r0 rest0] eqn:Hsk.
  - rewrite app_nil_r in Hfs. remember (firstn (S t) rem) as sub eqn:Esub. inversion Heq; subst cs acc e w' p'.
    split; [assumption|]. split; [reflexivity|]. intros _. rewrite Hfs. split; reflexivity.
  - remember (firstn (S t) rem) as sub eqn:Esub.
    destruct (submit_loop f (r0 :: rest0) sc (last sub 0, last sub 0)) as [[[cs0 acc0] e0] [w0 p0]] eqn:Hrec.
    inversion Heq; subst cs acc e w' p'.
    destruct (submit_loop_spec _ _ _ _ _ _ _ _ _ _ H2 Hrec) as [rest [E1 [E2 [E3 [E4 E5]]]]].
    split; [lia|]. split.
    + destruct E5 as [[E5 _]|[E5 _]]; [now inversion E5 | assumption].
    + intros ->. exfalso. assert (Hl : length (skipn (S t) rem) = 0%nat) by (rewrite skipn_length; lia).
      rewrite Hsk in Hl. cbn [length] in Hl. lia.
Qed.

(* ---- one tick ------------------------------------------------------------------------------------------- *)
(* for EVERY state and script (no invariant needed): what a tick sends is the chain over what is pending *)
Lemma headers_tick_chain : forall s sc, chain (pending_headers s) (headers_calls s sc).
Proof.
  intros s sc. unfold headers_calls, headers_iter, pending_headers.
  destruct (t_wh s =? t_height s); [constructor|].
  unfold get_pending. destruct (N.eqb_spec (t_wh s) (t_height s)); [constructor|].
  destruct (t_height s <? t_wh s); [constructor|].
  destruct (seqN (t_wh s + 1) (N.to_nat (t_height s - t_wh s))) as [|x items] eqn:Hit; [constructor|].
  pose proof (submit_loop_chain max_attempts (x :: items) sc (t_wh s, t_ph s) ltac:(discriminate)) as Hc.
  destruct (submit_loop max_attempts (x :: items) sc (t_wh s, t_ph s)) as [[[cs acc] e] [w p]].
  cbn [fst snd] in *. exact Hc.
Qed.

Lemma data_tick_chain : forall s sc, t_wd s <= t_height s -> chain (pending_data s) (data_calls s sc).
Proof.
  intros s sc Hle. unfold data_calls, data_iter, pending_data.
  destruct (t_wd s =? t_height s); [constructor|].
  rewrite (get_pending_ok _ _ Hle).
  destruct (filter (nonempty s) (seqN (t_wd s + 1) (N.to_nat (t_height s - t_wd s)))) as [|x items] eqn:Hit; [constructor|].
  pose proof (submit_loop_chain max_attempts (x :: items) sc (t_wd s, t_pd s) ltac:(discriminate)) as Hc.
  destruct (submit_loop max_attempts (x :: items) sc (t_wd s, t_pd s)) as [[[cs acc] e] [w p]].
  cbn [fst snd] in *. exact Hc.
Qed.

(* the first request of a tick that finds something pending carries all of it *)
Lemma chain_first : forall rem cs, chain rem cs -> cs = [] \/ hd [] cs = rem.
Proof. intros rem cs H. destruct H; [now left | now right]. Qed.

Lemma skipn_add : forall (A : Type) k k' (l : list A), skipn k' (skipn k l) = skipn (k + k') l.
Proof.
  induction k as [|k IH]; intros k' l; [reflexivity|].
  destruct l as [|x l]; cbn [skipn Nat.add]; [now rewrite skipn_nil | apply IH].
Qed.

Lemma chain_Forall : forall rem cs, chain rem cs -> Forall (fun c => c <> [] /\ exists k, c = skipn k rem) cs.
Proof.
  intros rem cs H. induction H as [rem | rem k cs Hne Hc IH]; constructor.
  - split; [assumption | exists 0%nat; reflexivity].
  - eapply Forall_impl; [|exact IH]. intros c [Hc1 [k' Hc2]]. split; [assumption|].
    exists (k + k')%nat. rewrite Hc2. apply skipn_add.
Qed.

(* header tick, something pending, the DA layer takes something: the header watermark moves up *)
Lemma headers_tick_progress : forall c s o sc, Inv c s -> pending_headers s <> [] -> accepts_some o = true ->
  let s' := fst (headers_iter s (o :: sc)) in
  t_wh s < t_wh s' /\ (o = OAcceptAll -> t_wh s' = t_height s).
Proof.
  intros c s o sc I Hp Ho. unfold pending_headers in Hp. unfold headers_iter.
  destruct (N.eqb_spec (t_wh s) (t_height s)) as [E|E].
  { rewrite E, N.sub_diag in Hp. cbn in Hp. congruence. }
  rewrite (get_pending_ok _ _ (i_hhi _ _ I)).
  destruct (seqN (t_wh s + 1) (N.to_nat (t_height s - t_wh s))) as [|x items] eqn:Hit; [congruence|].
  assert (Hinc : inc (t_wh s) (x :: items)) by (rewrite <- Hit; apply inc_seqN; lia).
  unfold max_attempts.
  destruct (submit_loop 30 (x :: items) (o :: sc) (t_wh s, t_ph s)) as [[[cs acc] e] [w p]] eqn:Hsl.
  destruct (submit_loop_first_accept _ _ _ _ _ _ _ _ _ _ _ Hinc ltac:(discriminate) Ho Hsl) as [H1 [H2 H3]].
  cbn [fst t_wh]. split; [assumption|]. intros Hall. destruct (H3 Hall) as [_ ->].
  rewrite <- Hit.
  assert (Hn : N.to_nat (t_height s - t_wh s) <> 0%nat) by (pose proof (i_hhi _ _ I); lia).
  pose proof (i_hhi _ _ I) as Hhi.
  assert (G : forall n a, n <> 0%nat -> last (seqN a n) 0 = a + N.of_nat n - 1).
  { induction n as [|n IH]; intros a0 Hn0; [congruence|]. destruct n as [|n].
    - cbn. lia.
    - change (seqN a0 (S (S n))) with (a0 :: seqN (a0 + 1) (S n)).
      change (last (a0 :: seqN (a0 + 1) (S n)) 0) with (last (seqN (a0 + 1) (S n)) 0).
      rewrite IH by discriminate. lia. }
  rewrite G by assumption. lia.
Qed.

(* data tick, a block with transactions pending, the DA layer takes something: the data watermark moves up;
   if it takes all, every pending block with transactions is on the DA layer *)
Lemma data_tick_progress : forall c s o sc, 1 <= c_init c -> Inv c s -> pending_data s <> [] -> accepts_some o = true ->
  let s' := fst (data_iter s (o :: sc)) in
  t_wd s < t_wd s' /\ (o = OAcceptAll -> forall h, In h (pending_data s) -> In h (t_dad s')).
Proof.
  intros c s o sc Hi I Hp Ho. unfold pending_data in Hp. unfold data_iter.
  destruct (N.eqb_spec (t_wd s) (t_height s)) as [E|E].
  { rewrite E, N.sub_diag in Hp. cbn in Hp. congruence. }
  rewrite (get_pending_ok _ _ (i_dhi _ _ I)). unfold pending_data.
  destruct (filter (nonempty s) (seqN (t_wd s + 1) (N.to_nat (t_height s - t_wd s)))) as [|x items] eqn:Hit; [congruence|].
  assert (Hinc : inc (t_wd s) (x :: items)) by (rewrite <- Hit; apply data_items_inc).
  unfold max_attempts.
  destruct (submit_loop 30 (x :: items) (o :: sc) (t_wd s, t_pd s)) as [[[cs acc] e] [w p]] eqn:Hsl.
  destruct (submit_loop_first_accept _ _ _ _ _ _ _ _ _ _ _ Hinc ltac:(discriminate) Ho Hsl) as [H1 [H2 H3]].
  cbn [fst t_wd t_dad]. split; [assumption|]. intros Hall h Hh. destruct (H3 Hall) as [-> _].
  apply in_or_app. now right.
Qed.

(* ---- stated over histories -------------------------------------------------------------------------------- *)
Lemma c08_tick_offers_everything : forall (c : cfg) (xhist : list xitem) (sc : list outcome), 1 <= c_init c ->
  let s := xfinal c xhist in
  chain (pending_headers s) (headers_calls s sc) /\ chain (pending_data s) (data_calls s sc).
Proof.
  intros c xhist sc Hi s. split; [apply headers_tick_chain|].
  apply data_tick_chain. exact (i_dhi _ _ (xfinal_inv c xhist Hi)).
Qed.

Lemma c08_tick_requests : forall (c : cfg) (xhist : list xitem) (sc : list outcome), 1 <= c_init c ->
  let s := xfinal c xhist in
  Forall (fun call => call <> [] /\ exists k, call = skipn k (pending_headers s)) (headers_calls s sc) /\
  Forall (fun call => call <> [] /\ exists k, call = skipn k (pending_data s)) (data_calls s sc).
Proof.
  intros c xhist sc Hi s. destruct (c08_tick_offers_everything c xhist sc Hi) as [H1 H2].
  split; apply chain_Forall; assumption.
Qed.

Lemma c08_tick_progress : forall (c : cfg) (xhist : list xitem) (o : outcome) (sc : list outcome), 1 <= c_init c ->
  accepts_some o = true ->
  let s := xfinal c xhist in
  (pending_headers s <> [] ->
     let s' := fst (headers_iter s (o :: sc)) in
     t_wh s < t_wh s' /\ (o = OAcceptAll -> t_wh s' = t_height s)) /\
  (pending_data s <> [] ->
     let s' := fst (data_iter s (o :: sc)) in
     t_wd s < t_wd s' /\ (o = OAcceptAll -> forall h, In h (pending_data s) -> In h (t_dad s'))).
Proof.
  intros c xhist o sc Hi Ho s. pose proof (xfinal_inv c xhist Hi) as I. split; intros Hp.
  - exact (headers_tick_progress c s o sc I Hp Ho).
  - exact (data_tick_progress c s o sc Hi I Hp Ho).
Qed.
