(* Proofs/GoLiteStoreRefine.v — the translated block store (pkg/store/store.go) refines Model/Store.v.

   Check/GoLiteStore.v proves what DefaultStore.SetHeight and DefaultStore.SaveBlockData — regenerated from the Go source
   on every run — do against a scripted datastore, for all worlds.  Here those expectations are tied to [Store.step], the
   function every theorem of C14 is stated over:

     setheight_refines_step   for EVERY durable image and height, the code run on the datastore the image describes puts
                              exactly what [step m (OSetHeight n)] writes — the height record := n iff n exceeds the
                              recorded height, nothing otherwise — and fails exactly when the model answers RErr;
     save_refines_step        for EVERY durable image, header, data and signature, the code performs, inside ONE
                              datastore batch committed once and last, the primitive writes of [save_prims] — same
                              keys, same order: the stale index entry of a different header at this height deleted,
                              then header, data, signature, hash index — and nothing outside the batch;
     translated_*             the compositions: the statements about the translated Go code itself. *)
From Coq Require Import String List NArith ZArith Bool Lia.
From Verif Require Import Base.KV Base.Keys Model.Types Model.GoLite Check.GoLiteStore.
From Verif Require Model.Store.
Import ListNotations.
Open Scope list_scope.
Import Store.

(* the key a call names, as the model's key string *)
Definition key_str (k : gval) : option string :=
  match k with
  | VTok f [] => if String.eqb f "getHeightKey" then Some height_key else if String.eqb f "getStateKey" then Some state_key else None
  | VTok f [VN n] =>
      if String.eqb f "getHeaderKey" then Some (header_key n) else
      if String.eqb f "getDataKey" then Some (data_key n) else
      if String.eqb f "getSignatureKey" then Some (sig_key n) else None
  | VTok f [VStr h] => if String.eqb f "getIndexKey" then Some (index_key h) else None
  | _ => None
  end.

(* the writes of a call sequence: through the batch (shape by shape), directly to the datastore, and the commits *)
Definition batch_shape (e : gval) : list wshape :=
  match e with
  | VEff name [_; k; _] => if String.eqb name "batch.Put" then match key_str k with Some s => [SPut s] | None => [] end else []
  | VEff name [_; k] => if String.eqb name "batch.Delete" then match key_str k with Some s => [SDel s] | None => [] end else []
  | _ => []
  end.
Definition direct_put (e : gval) : list (string * gval) :=
  match e with
  | VEff name [_; k; v] => if String.eqb name "db.Put" then match key_str k with Some s => [(s, v)] | None => [] end else []
  | _ => []
  end.
Definition is_commit (e : gval) : bool := match e with VEff name _ => String.eqb name "batch.Commit" | _ => false end.

(* ---- SetHeight ----------------------------------------------------------------------------------------------- *)
Definition get_of (m : img) : getres :=
  match kv_get m height_key with
  | None => GNotFound
  | Some (VHeight c) => GHeight c
  | Some _ => GBadLength
  end.

Definition model_puts (ws : list wr) : list (string * gval) :=
  flat_map (fun w => match w with W1 (Put k (VHeight n)) => [(k, VLE64 n)] | _ => [] end) ws.

Ltac klazy := lazy -[header_key data_key sig_key index_key height_key state_key N.leb str_eqb kv_get].

Theorem setheight_refines_step : forall (m : img) (n : N),
  let o := setheight_expect (get_of m) true n in
  flat_map direct_put (snd o) = model_puts (fst (step m (OSetHeight n))) /\
  (fst o = [VErr true] <-> snd (step m (OSetHeight n)) = RErr).
Proof.
  intros m n. cbv zeta. unfold setheight_expect, get_of, step, c_height.
  destruct (kv_get m height_key) as [[]|]; cbn [recorded];
    try (split; [reflexivity|]; split; reflexivity).
  - destruct (n <=? n0)%N; klazy; (split; [reflexivity|]; split; intros H; discriminate H).
  - destruct (n <=? 0)%N; klazy; (split; [reflexivity|]; split; intros H; discriminate H).
Qed.

Theorem translated_setheight_refines_step : forall (m : img) (n : N),
  exists o, run_calls "DefaultStore.SetHeight" (height_store (get_of m) true) [ctx; VN n] = Some o /\
            flat_map direct_put (snd o) = model_puts (fst (step m (OSetHeight n))) /\
            (fst o = [VErr true] <-> snd (step m (OSetHeight n)) = RErr).
Proof.
  intros m n. exists (setheight_expect (get_of m) true n). split; [apply go_SetHeight|].
  destruct (setheight_refines_step m n) as [A B]. split; assumption.
Qed.

(* ---- SaveBlockData ------------------------------------------------------------------------------------------- *)
Definition old_of (m : img) (n : N) : oldres :=
  match kv_get m (header_key n) with
  | Some (VHeader o) => OHeader (hhash o)
  | Some _ => OBad
  | None => ONone
  end.
Definition saveworld_of (m : img) (h : hdr) : saveworld :=
  {| v_hash := hhash h; v_height := hheight h; v_hm_ok := true; v_dm_ok := true; v_batch_ok := true;
     v_old := old_of m (hheight h); v_del_ok := true; v_p1 := true; v_p2 := true; v_p3 := true; v_p4 := true;
     v_commit_ok := true |}.

Theorem save_refines_step : forall (m : img) (h : hdr) (d s : N),
  let o := save_expect (saveworld_of m h) in
  fst o = [VNil] /\
  flat_map batch_shape (snd o) = map prim_shape (save_prims m h d s) /\
  flat_map direct_put (snd o) = [] /\
  filter is_commit (snd o) = [VEff "batch.Commit" [ctx]] /\
  List.last (snd o) VUnit = VEff "batch.Commit" [ctx].
Proof.
  intros m h d s. cbv zeta.
  unfold save_expect, saveworld_of, stale, old_of, save_prims, c_get_header; cbn [v_hash v_height v_hm_ok v_dm_ok v_batch_ok v_old
    v_del_ok v_p1 v_p2 v_p3 v_p4 v_commit_ok negb].
  destruct (kv_get m (header_key (hheight h))) as [[]|].
  2-7: (klazy; repeat split; reflexivity).
  change (str_eqb (hhash h0) (hhash h)) with (String.eqb (hhash h0) (hhash h)).
  destruct (String.eqb (hhash h0) (hhash h)); klazy; repeat split; reflexivity.
Qed.

Theorem translated_save_refines_step : forall (m : img) (h : hdr) (d s : N),
  let w := saveworld_of m h in
  exists o, run_calls "DefaultStore.SaveBlockData" (save_store w) [ctx; header_arg w; data_arg w; sig_arg] = Some o /\
            fst o = [VNil] /\
            flat_map batch_shape (snd o) = map prim_shape (save_prims m h d s) /\
            flat_map direct_put (snd o) = [] /\
            filter is_commit (snd o) = [VEff "batch.Commit" [ctx]] /\
            List.last (snd o) VUnit = VEff "batch.Commit" [ctx].
Proof.
  intros m h d s. cbv zeta. exists (save_expect (saveworld_of m h)). split; [apply go_SaveBlockData|].
  apply save_refines_step.
Qed.

(* a failing step of the save commits nothing: for ALL worlds, an error result means no Commit call succeeded *)
Theorem failed_save_commits_nothing : forall w,
  fst (save_expect w) = [VErr true] ->
  filter is_commit (snd (save_expect w)) = [] \/ v_commit_ok w = false.
Proof.
  intros [hash n hm dm bok old dok p1 p2 p3 p4 cok]; unfold save_expect, stale;
    cbn [v_hash v_height v_hm_ok v_dm_ok v_batch_ok v_old v_del_ok v_p1 v_p2 v_p3 v_p4 v_commit_ok].
  destruct hm, dm, bok; cbn [negb fst snd]; try (intros _; left; reflexivity).
  destruct old as [| |oh]; [| |destruct (str_eqb oh hash)]; cbn [negb fst snd];
    try destruct dok; destruct p1, p2, p3, p4, cok; cbn [negb fst snd]; intros H; try discriminate H;
    try (left; reflexivity); right; reflexivity.
Qed.

Print Assumptions translated_setheight_refines_step.
Print Assumptions translated_save_refines_step.
Print Assumptions failed_save_commits_nothing.
