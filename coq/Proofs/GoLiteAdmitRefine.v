(* Proofs/GoLiteAdmitRefine.v — C03 OVER TRANSLATED CODE: whatever blob the DA layer holds, if the Go functions
   handlePotentialHeader / handlePotentialData (block/retriever.go, translated from /repo's source on every run,
   coq/gen/GoLiteFuns.v) do ANYTHING with it — put a DA-included mark into a cache, wake the DA includer, hand an
   event to the sync loop — then the blob is a header / signed data signed with the genesis proposer's key.
   Combines the lemmas of Check/GoLiteAdmit.v (the translated functions are Admission.da_admit) with
   Proofs/AdmissionProofs.v (da_header_full / da_data_full). *)
From Coq Require Import String List NArith ZArith Bool Lia.
From Verif Require Import Model.Types Model.Admission Model.GoLite Check.GoLiteTactics gen.GoLiteFuns Check.GoLiteAdmit.
From Verif Require Import Proofs.AdmissionProofs.
Import ListNotations.
Open Scope string_scope.
Open Scope list_scope.

Definition header_path : string := "Manager.handlePotentialHeader".
Definition data_path : string := "Manager.handlePotentialData".

Lemma hmark_independent_of_seen : forall g hs ds sh,
  o_hmark (da_admit g hs ds (BHdr sh)) = o_hmark (da_admit g [] [] (BHdr sh)).
Proof.
  intros. unfold da_admit. destruct (negb (validate_basic sh)); [reflexivity|].
  destruct (negb (is_expected_sequencer g sh)); reflexivity.
Qed.
Lemma dmark_independent_of_seen : forall g hs ds sd,
  o_dmark (da_admit g hs ds (BData sd)) = o_dmark (da_admit g [] [] (BData sd)).
Proof.
  intros. unfold da_admit. destruct (d_txs (sd_data sd)); [reflexivity|]. destruct (d_meta (sd_data sd)); [|reflexivity].
  destruct (negb (is_valid_signed_data g sd)); reflexivity.
Qed.

Theorem translated_header_path_only_proposer : forall pk g, g_proposer g = Addr pk ->
  forall hs ds b da vals effs,
  b <> BEmpty ->
  run_eff gen_funs [] "Manager.handlePotentialHeader" (Some (VMgr (mk_mgr g hs ds))) [VUnit; VBlob b; VN da] = Some (vals, effs) ->
  effs <> [] ->
  exists sh, b = BHdr sh /\ signed_by pk sh = true.
Proof.
  intros pk g Hg hs ds b da vals effs Hne Hrun Heff.
  destruct b as [| | |sh|sd].
  - congruence.
  - rewrite go_handlePotentialHeader_other in Hrun by exact I. inversion Hrun; subst. congruence.
  - rewrite go_handlePotentialHeader_undecodable in Hrun. inversion Hrun; subst. congruence.
  - exists sh. split; [reflexivity|].
    rewrite go_handlePotentialHeader_hdr in Hrun. inversion Hrun; subst. clear Hrun.
    apply (da_header_full pk g Hg). unfold admit_da_header.
    rewrite <- (hmark_independent_of_seen g hs ds sh).
    unfold header_effects in Heff.
    destruct (o_hmark (da_admit g hs ds (BHdr sh))) eqn:Em; [reflexivity|].
    (* no mark: then no event either *)
    exfalso. apply Heff. cbn [app].
    unfold da_admit in *. destruct (negb (validate_basic sh)); [reflexivity|].
    destruct (negb (is_expected_sequencer g sh)); [reflexivity|]. discriminate Em.
  - rewrite go_handlePotentialHeader_other in Hrun by exact I. inversion Hrun; subst. congruence.
Qed.

Theorem translated_data_path_only_proposer : forall pk g, g_proposer g = Addr pk ->
  forall hs ds b da vals effs,
  run_eff gen_funs [] "Manager.handlePotentialData" (Some (VMgr (mk_mgr g hs ds))) [VUnit; VBlob b; VN da] = Some (vals, effs) ->
  effs <> [] ->
  exists sd, b = BData sd /\ data_signed_by pk sd = true.
Proof.
  intros pk g Hg hs ds b da vals effs Hrun Heff.
  destruct b as [| | |sh|sd];
    try (rewrite go_handlePotentialData_other in Hrun by exact I; inversion Hrun; subst; congruence).
  exists sd. split; [reflexivity|].
  rewrite go_handlePotentialData_data in Hrun. inversion Hrun; subst. clear Hrun.
  apply (da_data_full pk g Hg). unfold admit_da_data.
  rewrite <- (dmark_independent_of_seen g hs ds sd).
  unfold data_effects in Heff.
  destruct (o_dmark (da_admit g hs ds (BData sd))) eqn:Em; [reflexivity|].
  exfalso. apply Heff. cbn [app].
  unfold da_admit in *. destruct (d_txs (sd_data sd)); [reflexivity|]. destruct (d_meta (sd_data sd)); [|reflexivity].
  destruct (negb (is_valid_signed_data g sd)); [reflexivity|]. discriminate Em.
Qed.
