(* Proofs/WireCacheProofs.v — the cache-file path (Model/WireCache.v): what LoadFromDisk returns is what the
   last SaveToDisk saved, for every cache, every folder content and every history over one folder. *)
From Coq Require Import NArith List Bool Lia.
From Verif Require Import Model.Wire Model.WireCache Proofs.WireProofs.
Import ListNotations.
Open Scope N_scope.

Lemma beqb_eq : forall a b, beqb a b = true <-> a = b.
Proof.
  induction a as [|x a IH]; destruct b as [|y b]; cbn; split; intro H; try reflexivity; try discriminate.
  - apply andb_true_iff in H. destruct H as [H1 H2]. apply N.eqb_eq in H1. apply IH in H2. subst. reflexivity.
  - inversion H; subst. apply andb_true_iff. split; [apply N.eqb_refl | apply IH; reflexivity].
Qed.

(* ---------------------------------------------------------------------------------------------- *)
Section MapFacts.
Context {K V : Type}.
Variable keq : K -> K -> bool.
Hypothesis keq_eq : forall a b, keq a b = true <-> a = b.

Lemma keq_refl : forall a, keq a a = true.
Proof. intro a. apply keq_eq. reflexivity. Qed.

Lemma mdel_cons : forall (m : list (K * V)) k0 v0 k,
  mdel keq ((k0, v0) :: m) k = if keq k0 k then mdel keq m k else (k0, v0) :: mdel keq m k.
Proof. intros. unfold mdel. cbn. destruct (keq k0 k); reflexivity. Qed.

Lemma mget_mdel : forall (m : list (K * V)) k k',
  mget keq (mdel keq m k) k' = if keq k k' then None else mget keq m k'.
Proof.
  induction m as [|[k0 v0] m IH]; intros k k'.
  - cbn. destruct (keq k k'); reflexivity.
  - rewrite mdel_cons. destruct (keq k0 k) eqn:E0.
    + apply keq_eq in E0. subst k0. rewrite IH. cbn. destruct (keq k k'); reflexivity.
    + cbn. rewrite IH. destruct (keq k k') eqn:E1.
      * apply keq_eq in E1. subst k'. rewrite E0. reflexivity.
      * reflexivity.
Qed.

Lemma mget_mset : forall (m : list (K * V)) k v k',
  mget keq (mset keq m k v) k' = if keq k k' then Some v else mget keq m k'.
Proof.
  intros. unfold mset. cbn. destruct (keq k k') eqn:E; [reflexivity|]. rewrite mget_mdel, E. reflexivity.
Qed.

Lemma mget_mlive : forall (m : list (K * V)) k, mget keq (mlive keq m) k = mget keq m k.
Proof.
  induction m as [|[k0 v0] m IH]; intro k; cbn; [reflexivity|].
  change (mget keq (mset keq (mlive keq m) k0 v0) k = (if keq k0 k then Some v0 else mget keq m k)).
  rewrite mget_mset, IH. reflexivity.
Qed.

Lemma mget_app : forall (a b : list (K * V)) k,
  mget keq (a ++ b) k = match mget keq a k with Some v => Some v | None => mget keq b k end.
Proof.
  induction a as [|[k0 v0] a IH]; intros b k; cbn; [reflexivity|]. destruct (keq k0 k); [reflexivity | apply IH].
Qed.

Lemma mget_mstore_all : forall (l m : list (K * V)) k,
  mget keq (mstore_all keq m l) k = match mget keq (rev l) k with Some v => Some v | None => mget keq m k end.
Proof.
  induction l as [|[k0 v0] l IH]; intros m k; cbn; [reflexivity|].
  change (mget keq (mstore_all keq (mset keq m k0 v0) l) k =
          match mget keq (rev l ++ [(k0, v0)]) k with Some v => Some v | None => mget keq m k end).
  rewrite IH, mget_app, mget_mset. cbn. destruct (mget keq (rev l) k); [reflexivity|].
  destruct (keq k0 k); reflexivity.
Qed.

Lemma mget_some_in : forall (m : list (K * V)) k v, mget keq m k = Some v -> In (k, v) m.
Proof.
  induction m as [|[k0 v0] m IH]; intros k v H; cbn in *; [discriminate|].
  destruct (keq k0 k) eqn:E.
  - apply keq_eq in E. inversion H; subst. left. reflexivity.
  - right. apply IH. exact H.
Qed.

Lemma mget_none_notin : forall (m : list (K * V)) k, mget keq m k = None <-> ~ In k (map fst m).
Proof.
  induction m as [|[k0 v0] m IH]; intro k; cbn.
  - split; [intros _ [] | reflexivity].
  - destruct (keq k0 k) eqn:E.
    + apply keq_eq in E. subst. split; [discriminate | intro H; exfalso; apply H; left; reflexivity].
    + rewrite IH. split.
      * intros H [H1|H1]; [subst; rewrite keq_refl in E; discriminate | exact (H H1)].
      * intros H H1. apply H. right. exact H1.
Qed.

Lemma in_mget_nodup : forall (m : list (K * V)) k v, NoDup (map fst m) -> In (k, v) m -> mget keq m k = Some v.
Proof.
  induction m as [|[k0 v0] m IH]; intros k v ND H; cbn in *; [contradiction|].
  inversion ND as [|? ? Hn ND']; subst. destruct H as [H|H].
  - inversion H; subst. rewrite keq_refl. reflexivity.
  - destruct (keq k0 k) eqn:E.
    + apply keq_eq in E. subst. exfalso. apply Hn. apply in_map_iff. exists (k, v). split; [reflexivity | exact H].
    + apply IH; assumption.
Qed.

Lemma mget_rev_nodup : forall (m : list (K * V)) k, NoDup (map fst m) -> mget keq (rev m) k = mget keq m k.
Proof.
  intros m k ND. destruct (mget keq m k) as [v|] eqn:E.
  - apply in_mget_nodup.
    + rewrite map_rev. apply NoDup_rev. exact ND.
    + apply in_rev. rewrite rev_involutive. apply mget_some_in. exact E.
  - apply mget_none_notin. rewrite map_rev. intro H. apply in_rev in H. revert H. apply mget_none_notin. exact E.
Qed.

Lemma in_mdel : forall (m : list (K * V)) k x, In x (mdel keq m k) -> In x m /\ keq (fst x) k = false.
Proof.
  intros m k x H. unfold mdel in H. apply filter_In in H. destruct H as [H1 H2]. split; [exact H1|].
  destruct (keq (fst x) k); [discriminate | reflexivity].
Qed.

Lemma nodup_mdel : forall (m : list (K * V)) k, NoDup (map fst m) -> NoDup (map fst (mdel keq m k)).
Proof.
  induction m as [|[k0 v0] m IH]; intros k ND; cbn; [constructor|].
  inversion ND as [|? ? Hn ND']; subst. destruct (keq k0 k); cbn.
  - apply IH. exact ND'.
  - constructor; [|apply IH; exact ND'].
    intro H. apply Hn. apply in_map_iff in H. destruct H as [x [Hx1 Hx2]]. apply in_mdel in Hx2.
    apply in_map_iff. exists x. split; [exact Hx1 | apply Hx2].
Qed.

Lemma nodup_mset : forall (m : list (K * V)) k v, NoDup (map fst m) -> NoDup (map fst (mset keq m k v)).
Proof.
  intros m k v ND. unfold mset. cbn. constructor; [|apply nodup_mdel; exact ND].
  intro H. apply in_map_iff in H. destruct H as [x [Hx1 Hx2]]. apply in_mdel in Hx2. destruct Hx2 as [_ Hx2].
  rewrite Hx1, keq_refl in Hx2. discriminate.
Qed.

Lemma nodup_mlive : forall (m : list (K * V)), NoDup (map fst (mlive keq m)).
Proof.
  induction m as [|[k0 v0] m IH]; cbn; [constructor|].
  change (NoDup (map fst (mset keq (mlive keq m) k0 v0))). apply nodup_mset. exact IH.
Qed.

Lemma in_mset : forall (m : list (K * V)) k v x, In x (mset keq m k v) -> x = (k, v) \/ In x m.
Proof.
  intros m k v x [H|H]; [left; symmetry; exact H | right; apply (in_mdel m k x H)].
Qed.

Lemma in_mlive : forall (m : list (K * V)) x, In x (mlive keq m) -> In x m.
Proof.
  intros m [k v] H. apply mget_some_in. rewrite <- mget_mlive. apply in_mget_nodup; [apply nodup_mlive | exact H].
Qed.

Lemma in_mstore_all : forall (l m : list (K * V)) x, In x (mstore_all keq m l) -> In x m \/ In x l.
Proof.
  induction l as [|[k0 v0] l IH]; intros m x H; cbn in *; [left; exact H|].
  change (In x (mstore_all keq (mset keq m k0 v0) l)) in H.
  destruct (IH _ _ H) as [H1|H1]; [|right; right; exact H1].
  destruct (in_mset _ _ _ _ H1) as [H2|H2]; [right; left; symmetry; exact H2 | left; exact H2].
Qed.

(* storing the live entries of a map into an empty map gives the same map *)
Lemma mget_store_live : forall (m : list (K * V)) k, mget keq (mstore_all keq [] (mlive keq m)) k = mget keq m k.
Proof.
  intros m k. rewrite mget_mstore_all, mget_rev_nodup by apply nodup_mlive. rewrite mget_mlive.
  destruct (mget keq m k); reflexivity.
Qed.
End MapFacts.

(* ---------------------------------------------------------------------------------------------- *)
Section CodecFacts.
Context {T : Type}.
Variable enc : T -> option bytes.
Variable dec : bytes -> option T.

(* a value that survives the trip through its own bytes *)
Definition rt (v : T) : Prop := exists b, enc v = Some b /\ dec b = Some v.

Lemma enc_dec_all : forall {K} (l : list (K * T)), (forall k v, In (k, v) l -> rt v) ->
  exists l', enc_all enc l = Some l' /\ dec_all dec l' = Some l.
Proof.
  induction l as [|[k v] l IH]; intro H; cbn.
  - exists []. split; reflexivity.
  - destruct (H k v (or_introl eq_refl)) as [b [Hb1 Hb2]].
    destruct IH as [l' [Hl1 Hl2]]. { intros k' v' Hin. apply (H k' v'). right. exact Hin. }
    rewrite Hb1, Hl1. exists ((k, b) :: l'). split; [reflexivity|]. cbn. rewrite Hb2, Hl2. reflexivity.
Qed.

Lemma enc_all_in : forall {K} (l : list (K * T)) l' k b, enc_all enc l = Some l' -> In (k, b) l' ->
  exists v, In (k, v) l /\ enc v = Some b.
Proof.
  induction l as [|[k0 v0] l IH]; intros l' k b H Hin; cbn in H.
  - inversion H; subst. contradiction.
  - destruct (enc v0) as [b0|] eqn:E0; [|discriminate]. destruct (enc_all enc l) as [r|] eqn:E1; [|discriminate].
    inversion H; subst. destruct Hin as [Hin|Hin].
    + inversion Hin; subst. exists v0. split; [left; reflexivity | exact E0].
    + destruct (IH _ _ _ eq_refl Hin) as [v [Hv1 Hv2]]. exists v. split; [right; exact Hv1 | exact Hv2].
Qed.

Lemma dec_all_in : forall {K} (l : list (K * bytes)) l' k v, dec_all dec l = Some l' -> In (k, v) l' ->
  exists b, In (k, b) l /\ dec b = Some v.
Proof.
  induction l as [|[k0 b0] l IH]; intros l' k v H Hin; cbn in H.
  - inversion H; subst. contradiction.
  - destruct (dec b0) as [v0|] eqn:E0; [|discriminate]. destruct (dec_all dec l) as [r|] eqn:E1; [|discriminate].
    inversion H; subst. destruct Hin as [Hin|Hin].
    + inversion Hin; subst. exists b0. split; [left; reflexivity | exact E0].
    + destruct (IH _ _ _ eq_refl Hin) as [b [Hb1 Hb2]]. exists b. split; [right; exact Hb1 | exact Hb2].
Qed.

(* every item the cache holds survives the trip through its bytes *)
Definition items_ok (c : ccache T) : Prop :=
  (forall h v, In (h, v) (c_items c) -> rt v) /\ (forall s v, In (s, v) (c_sitems c) -> rt v).
(* every item the folder holds decodes (if at all) to a value that survives the trip *)
Definition dir_ok (d : cdir) : Prop :=
  (forall h b v, In (h, b) (file_map (f_items d)) -> dec b = Some v -> rt v) /\
  (forall s b v, In (s, b) (file_map (f_sitems d)) -> dec b = Some v -> rt v).

Lemma neqb_eq : forall a b : N, N.eqb a b = true <-> a = b.
Proof. exact N.eqb_eq. Qed.

(* SaveToDisk then LoadFromDisk into a new cache: succeeds, does not depend on what the folder held, and yields
   the cache that was saved *)
Lemma save_load_roundtrip : forall (c : ccache T), items_ok c ->
  exists d', (forall d0, save enc c d0 = (d', true)) /\
             exists c', load_fresh dec d' = (c', true) /\ cache_eq c' c.
Proof.
  intros c [Hi Hs].
  destruct (enc_dec_all (mlive N.eqb (c_items c))) as [fi [Hfi1 Hfi2]].
  { intros k v Hin. apply (Hi k v). apply (in_mlive N.eqb neqb_eq). exact Hin. }
  destruct (enc_dec_all (mlive beqb (c_sitems c))) as [fs [Hfs1 Hfs2]].
  { intros k v Hin. apply (Hs k v). apply (in_mlive beqb beqb_eq). exact Hin. }
  eexists. split.
  - intro d0. unfold save. rewrite Hfi1, Hfs1. reflexivity.
  - unfold load_fresh, load_into. cbn [f_items f_sitems f_hashes f_da file_map]. rewrite Hfi2, Hfs2.
    eexists. split; [reflexivity|]. unfold cache_eq. cbn [c_items c_sitems c_hashes c_da cempty].
    repeat split; intro k.
    + apply (mget_store_live N.eqb neqb_eq).
    + apply (mget_store_live beqb beqb_eq).
    + apply (mget_store_live beqb beqb_eq).
    + apply (mget_store_live beqb beqb_eq).
Qed.

Lemma cache_eq_getters : forall (a b : ccache T), cache_eq a b ->
  (forall h, get_item a h = get_item b h) /\ (forall s, is_seen a s = is_seen b s) /\ (forall s, da_height a s = da_height b s).
Proof.
  intros a b [H1 [_ [H3 H4]]]. unfold get_item, is_seen, da_height. repeat split; intro k.
  - apply H1.
  - rewrite H3. reflexivity.
  - apply H4.
Qed.

(* ---- histories ---- *)
Lemma cstep_dir : forall (st : cstate T) o, is_save o = false -> cs_dir (fst (cstep enc dec st o)) = cs_dir st.
Proof.
  intros st o H. destruct o; cbn in *; try reflexivity; try discriminate.
  - destruct (load_fresh dec (cs_dir st)). reflexivity.
  - destruct (load_into dec (cs_cache st) (cs_dir st)). reflexivity.
Qed.

Lemma cexec_dir : forall mid (st : cstate T), forallb (fun o => negb (is_save o)) mid = true ->
  cs_dir (cexec enc dec st mid) = cs_dir st.
Proof.
  induction mid as [|o mid IH]; intros st H; cbn in *; [reflexivity|].
  apply andb_true_iff in H. destruct H as [H1 H2].
  change (cs_dir (cexec enc dec (fst (cstep enc dec st o)) mid) = cs_dir st).
  rewrite IH by exact H2. apply cstep_dir. destruct (is_save o); [discriminate | reflexivity].
Qed.

(* for ANY state (any cache object, any folder content): save; then anything but another save (mutations, new
   cache objects, loads); then a restart's load: both succeed and the loaded cache is the one that was saved *)
Lemma load_returns_last_save : forall (st : cstate T) mid,
  items_ok (cs_cache st) -> forallb (fun o => negb (is_save o)) mid = true ->
  snd (cstep enc dec st OSave) = true /\
  let st3 := cexec enc dec (fst (cstep enc dec st OSave)) mid in
  snd (cstep enc dec st3 OLoad) = true /\
  cache_eq (cs_cache (fst (cstep enc dec st3 OLoad))) (cs_cache st).
Proof.
  intros st mid Hok Hmid. destruct (save_load_roundtrip _ Hok) as [d' [Hs [c' [Hl He]]]].
  cbn [cstep]. rewrite (Hs (cs_dir st)). cbn [fst snd]. split; [reflexivity|].
  cbv zeta. rewrite (cexec_dir mid _ Hmid). cbn [cs_dir]. rewrite Hl. cbn [fst snd cs_cache]. split; [reflexivity | exact He].
Qed.

(* the invariant of a history whose SetItem values all survive the trip through their bytes *)
Definition good (st : cstate T) : Prop := items_ok (cs_cache st) /\ dir_ok (cs_dir st).
Definition op_ok (o : cop T) : Prop := match o with OSetItem _ v => rt v | _ => True end.

Lemma save_dir_ok : forall c d, items_ok c -> dir_ok (fst (save enc c d)).
Proof.
  intros c d Hok. pose proof Hok as [Hi Hs]. destruct (save_load_roundtrip _ Hok) as [d' [Hsv _]].
  pose proof (Hsv d) as E. unfold save in E.
  destruct (enc_all enc (mlive N.eqb (c_items c))) as [fi|] eqn:Efi; [|inversion E].
  destruct (enc_all enc (mlive beqb (c_sitems c))) as [fs|] eqn:Efs; [|inversion E].
  unfold save. rewrite Efi, Efs. cbn [fst]. split; cbn [f_items f_sitems file_map].
  - intros h b v Hin Hd. destruct (enc_all_in _ _ _ _ Efi Hin) as [v0 [Hv1 Hv2]].
    apply (in_mlive N.eqb neqb_eq) in Hv1. destruct (Hi _ _ Hv1) as [b0 [Hb1 Hb2]].
    rewrite Hv2 in Hb1. inversion Hb1; subst. rewrite Hd in Hb2. inversion Hb2; subst. exact (Hi _ _ Hv1).
  - intros s b v Hin Hd. destruct (enc_all_in _ _ _ _ Efs Hin) as [v0 [Hv1 Hv2]].
    apply (in_mlive beqb beqb_eq) in Hv1. destruct (Hs _ _ Hv1) as [b0 [Hb1 Hb2]].
    rewrite Hv2 in Hb1. inversion Hb1; subst. rewrite Hd in Hb2. inversion Hb2; subst. exact (Hs _ _ Hv1).
Qed.

Lemma load_into_items_ok : forall c d, items_ok c -> dir_ok d -> items_ok (fst (load_into dec c d)).
Proof.
  intros c d [Hi Hs] [Di Ds]. unfold load_into.
  destruct (dec_all dec (file_map (f_items d))) as [li|] eqn:Eli; cbn [fst]; [|split; assumption].
  assert (Hi' : forall h v, In (h, v) (mstore_all N.eqb (c_items c) li) -> rt v).
  { intros h v Hin. destruct (in_mstore_all N.eqb _ _ _ Hin) as [H|H]; [exact (Hi _ _ H)|].
    destruct (dec_all_in _ _ _ _ Eli H) as [b [Hb1 Hb2]]. exact (Di _ _ _ Hb1 Hb2). }
  destruct (dec_all dec (file_map (f_sitems d))) as [ls|] eqn:Els; cbn [fst]; split; cbn [c_items c_sitems]; try assumption.
  intros s v Hin. destruct (in_mstore_all beqb _ _ _ Hin) as [H|H]; [exact (Hs _ _ H)|].
  destruct (dec_all_in _ _ _ _ Els H) as [b [Hb1 Hb2]]. exact (Ds _ _ _ Hb1 Hb2).
Qed.

Lemma items_ok_empty : items_ok (cempty T).
Proof. split; intros k v H; contradiction. Qed.

Lemma cstep_good : forall st o, good st -> op_ok o -> good (fst (cstep enc dec st o)).
Proof.
  intros st o [Hc Hd] Ho. pose proof Hc as [Hi Hs]. destruct o; cbn [cstep].
  - split; [|exact Hd]. cbn [fst cs_cache]. split; cbn [set_item c_items c_sitems]; [|exact Hs].
    intros k x Hin. destruct (in_mset N.eqb _ _ _ _ Hin) as [H|H]; [inversion H; subst; exact Ho | exact (Hi _ _ H)].
  - split; [|exact Hd]. cbn [fst cs_cache]. split; cbn [del_item c_items c_sitems]; [|exact Hs].
    intros k x Hin. apply (in_mdel N.eqb) in Hin. exact (Hi _ _ (proj1 Hin)).
  - split; [|exact Hd]. split; cbn; assumption.
  - split; [|exact Hd]. split; cbn; assumption.
  - destruct (save enc (cs_cache st) (cs_dir st)) as [d' ok] eqn:E. cbn [fst]. split; [exact Hc|].
    cbn [cs_dir]. replace d' with (fst (save enc (cs_cache st) (cs_dir st))) by (rewrite E; reflexivity).
    apply save_dir_ok. exact Hc.
  - destruct (load_fresh dec (cs_dir st)) as [c' ok] eqn:E. cbn [fst]. split; [|exact Hd]. cbn [cs_cache].
    replace c' with (fst (load_into dec (cempty T) (cs_dir st))) by (unfold load_fresh in E; rewrite E; reflexivity).
    apply load_into_items_ok; [apply items_ok_empty | exact Hd].
  - split; [apply items_ok_empty | exact Hd].
  - destruct (load_into dec (cs_cache st) (cs_dir st)) as [c' ok] eqn:E. cbn [fst]. split; [|exact Hd]. cbn [cs_cache].
    replace c' with (fst (load_into dec (cs_cache st) (cs_dir st))) by (rewrite E; reflexivity).
    apply load_into_items_ok; assumption.
Qed.

Lemma cexec_good : forall ops st, good st -> Forall op_ok ops -> good (cexec enc dec st ops).
Proof.
  induction ops as [|o ops IH]; intros st Hg Ho; cbn; [exact Hg|].
  inversion Ho; subst. apply IH; [apply cstep_good; assumption | assumption].
Qed.

(* ALL histories: start with any cache object whose items survive the trip and any folder whose item files hold
   decodable-to-such values (a new cache and a folder that does not exist, in particular); run any steps [pre]
   (earlier saves into the same folder included); save; run any steps [mid] without a save; restart.  Every
   one of these saves and the final load succeed and the loaded cache is the cache as it was saved last. *)
Lemma history_load_returns_last_save : forall (st0 : cstate T) pre mid,
  good st0 -> Forall op_ok pre -> forallb (fun o => negb (is_save o)) mid = true ->
  let st := cexec enc dec st0 pre in
  snd (cstep enc dec st OSave) = true /\
  let st3 := cexec enc dec (fst (cstep enc dec st OSave)) mid in
  snd (cstep enc dec st3 OLoad) = true /\
  cache_eq (cs_cache (fst (cstep enc dec st3 OLoad))) (cs_cache st).
Proof.
  intros st0 pre mid Hg Hpre Hmid st. apply load_returns_last_save; [|exact Hmid].
  exact (proj1 (cexec_good pre st0 Hg Hpre)).
Qed.

Lemma good_start : forall d, dir_ok d -> good {| cs_cache := cempty T; cs_dir := d |}.
Proof. intros d Hd. split; [apply items_ok_empty | exact Hd]. Qed.
Lemma dir_ok_none : dir_ok dir_none.
Proof. split; cbn; intros; contradiction. Qed.

(* the observations of [crun] are the states of [cexec] *)
Lemma crun_nth : forall ph ps ops (st : cstate T) pre o post, ops = pre ++ o :: post ->
  nth_error (crun enc dec ph ps st ops) (length pre) =
  Some (cobserve ph ps (fst (cstep enc dec (cexec enc dec st pre) o)) (snd (cstep enc dec (cexec enc dec st pre) o))).
Proof.
  intros ph ps ops st pre. revert ops st. induction pre as [|p pre IH]; intros ops st o post E; subst ops.
  - cbn [app crun length cexec fold_left]. destruct (cstep enc dec st o) as [st' ok]. reflexivity.
  - cbn [app crun length].
    assert (Hx : cexec enc dec st (p :: pre) = cexec enc dec (fst (cstep enc dec st p)) pre) by reflexivity.
    rewrite Hx. destruct (cstep enc dec st p) as [st' ok]. cbn [fst nth_error]. apply (IH _ st' o post eq_refl).
Qed.
End CodecFacts.

(* ---------------------------------------------------------------------------------------------- *)
(* the two caches of the node                                                                      *)

Lemma rt_signed_header : forall pk s, wf_signed_header pk s -> rt sh_enc (dec_signed_header pk) s.
Proof.
  intros pk s H. destruct (signed_header_roundtrip pk s H) as [H1 H2]. exists (enc_signed_header s). split; assumption.
Qed.
Lemma rt_data : forall d, wf_data d -> rt data_enc dec_data d.
Proof.
  intros d H. destruct (data_roundtrip d H) as [H1 H2]. exists (enc_data d). split; assumption.
Qed.

Definition items_wf {T} (wf : T -> Prop) (c : ccache T) : Prop :=
  (forall h v, In (h, v) (c_items c) -> wf v) /\ (forall s v, In (s, v) (c_sitems c) -> wf v).
Definition op_wf {T} (wf : T -> Prop) (o : cop T) : Prop := match o with OSetItem _ v => wf v | _ => True end.

Lemma items_wf_ok : forall {T} enc dec (wf : T -> Prop) c, (forall v, wf v -> rt enc dec v) -> items_wf wf c -> items_ok enc dec c.
Proof. intros T enc dec wf c H [H1 H2]. split; intros k v Hin; apply H; [exact (H1 _ _ Hin) | exact (H2 _ _ Hin)]. Qed.
Lemma op_wf_ok : forall {T} enc dec (wf : T -> Prop) ops, (forall v, wf v -> rt enc dec v) -> Forall (op_wf wf) ops -> Forall (op_ok enc dec) ops.
Proof.
  intros T enc dec wf ops H Hf. induction Hf as [|o ops Ho _ IH]; constructor; [|exact IH].
  destruct o; cbn in *; try exact I. apply H. exact Ho.
Qed.

Lemma cache_file_roundtrip_all :
  (forall pk (c : ccache wsigned_header), items_wf (wf_signed_header pk) c ->
     exists d', (forall d0, save sh_enc c d0 = (d', true)) /\
                exists c', load_fresh (dec_signed_header pk) d' = (c', true) /\ cache_eq c' c) /\
  (forall (c : ccache wdata), items_wf wf_data c ->
     exists d', (forall d0, save data_enc c d0 = (d', true)) /\
                exists c', load_fresh dec_data d' = (c', true) /\ cache_eq c' c).
Proof.
  split.
  - intros pk c H. apply save_load_roundtrip. exact (items_wf_ok _ _ _ c (rt_signed_header pk) H).
  - intros c H. apply save_load_roundtrip. exact (items_wf_ok _ _ _ c rt_data H).
Qed.

Lemma cache_load_returns_last_save_all :
  (forall pk (st : cstate wsigned_header) mid,
     items_wf (wf_signed_header pk) (cs_cache st) -> forallb (fun o => negb (is_save o)) mid = true ->
     snd (cstep sh_enc (dec_signed_header pk) st OSave) = true /\
     let st3 := cexec sh_enc (dec_signed_header pk) (fst (cstep sh_enc (dec_signed_header pk) st OSave)) mid in
     snd (cstep sh_enc (dec_signed_header pk) st3 OLoad) = true /\
     cache_eq (cs_cache (fst (cstep sh_enc (dec_signed_header pk) st3 OLoad))) (cs_cache st)) /\
  (forall (st : cstate wdata) mid,
     items_wf wf_data (cs_cache st) -> forallb (fun o => negb (is_save o)) mid = true ->
     snd (cstep data_enc dec_data st OSave) = true /\
     let st3 := cexec data_enc dec_data (fst (cstep data_enc dec_data st OSave)) mid in
     snd (cstep data_enc dec_data st3 OLoad) = true /\
     cache_eq (cs_cache (fst (cstep data_enc dec_data st3 OLoad))) (cs_cache st)).
Proof.
  split.
  - intros pk st mid H Hm. apply load_returns_last_save; [|exact Hm]. exact (items_wf_ok _ _ _ _ (rt_signed_header pk) H).
  - intros st mid H Hm. apply load_returns_last_save; [|exact Hm]. exact (items_wf_ok _ _ _ _ rt_data H).
Qed.

Lemma cache_history_all :
  (forall pk pre mid, Forall (op_wf (wf_signed_header pk)) pre -> forallb (fun o => negb (is_save o)) mid = true ->
     let st := cexec sh_enc (dec_signed_header pk) {| cs_cache := cempty _; cs_dir := dir_none |} pre in
     snd (cstep sh_enc (dec_signed_header pk) st OSave) = true /\
     let st3 := cexec sh_enc (dec_signed_header pk) (fst (cstep sh_enc (dec_signed_header pk) st OSave)) mid in
     snd (cstep sh_enc (dec_signed_header pk) st3 OLoad) = true /\
     cache_eq (cs_cache (fst (cstep sh_enc (dec_signed_header pk) st3 OLoad))) (cs_cache st)) /\
  (forall pre mid, Forall (op_wf wf_data) pre -> forallb (fun o => negb (is_save o)) mid = true ->
     let st := cexec data_enc dec_data {| cs_cache := cempty _; cs_dir := dir_none |} pre in
     snd (cstep data_enc dec_data st OSave) = true /\
     let st3 := cexec data_enc dec_data (fst (cstep data_enc dec_data st OSave)) mid in
     snd (cstep data_enc dec_data st3 OLoad) = true /\
     cache_eq (cs_cache (fst (cstep data_enc dec_data st3 OLoad))) (cs_cache st)).
Proof.
  split.
  - intros pk pre mid Hp Hm. apply history_load_returns_last_save; [apply good_start, dir_ok_none | | exact Hm].
    exact (op_wf_ok _ _ _ pre (rt_signed_header pk) Hp).
  - intros pre mid Hp Hm. apply history_load_returns_last_save; [apply good_start, dir_ok_none | | exact Hm].
    exact (op_wf_ok _ _ _ pre rt_data Hp).
Qed.
