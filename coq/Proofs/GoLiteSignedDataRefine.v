(* Proofs/GoLiteSignedDataRefine.v — the walk of the translated Manager.createSignedDataToSubmit keeps exactly the
   pending data that carries transactions, in order: the `filter f r` of Submitter.tick_side / Throttle's data tick
   and IncluderAgg.pending_d (where f tells which heights carry transactions).

   [code_walk] goes over the pending heights with the CODE's body (one_expect — which go_signed_one proves IS the
   translated body of `for _, data := range dataList`): the data of height h has transactions iff [f h]; signing
   succeeds.  code_walk_is_filter: for every f, every list of heights and every result so far the walk ends with the
   result so far followed by one signed item per height of [filter f hs], in that order, each carrying the data of
   its height, the signature made for it and the node's signer — and it never leaves the function. *)
From Coq Require Import String List NArith ZArith Bool Lia.
From Verif Require Import Model.GoLite Check.GoLiteSignedData.
Import ListNotations.
Open Scope list_scope.

Definition world_of (f : N -> bool) (acc : list gval) (h : N) : dworld :=
  {| d_txs := if f h then [VN h] else []; d_sig_ok := true; d_acc := acc |}.
Definition item_of (h : N) : gval := signed_v {| d_txs := [VN h]; d_sig_ok := true; d_acc := [] |}.

Fixpoint code_walk (f : N -> bool) (acc : list gval) (hs : list N) : bool * list gval :=
  match hs with
  | [] => (false, acc)
  | h :: r =>
      match fst (one_expect (world_of f acc h)) with
      | [VBool false; VList acc'; _; _] => code_walk f acc' r
      | _ => (true, acc)
      end
  end.

Theorem code_walk_is_filter : forall (f : N -> bool) (hs : list N) (acc : list gval),
  code_walk f acc hs = (false, acc ++ map item_of (filter f hs)).
Proof.
  intros f hs. induction hs as [|h r IH]; intros acc; cbn [code_walk filter map].
  - rewrite app_nil_r. reflexivity.
  - unfold one_expect, world_of; cbn [d_txs d_sig_ok d_acc negb].
    destruct (f h); cbn.
    + rewrite IH. unfold lapp. rewrite <- app_assoc. reflexivity.
    + apply IH.
Qed.

(* the heights handed to the DA layer for data are exactly the pending heights that carry transactions *)
Definition height_of (v : gval) : list N :=
  match v with VRec (("Data"%string, VRec (("Txs"%string, VList [VN h]) :: _)) :: _) => [h] | _ => [] end.
Corollary submitted_heights_are_the_nonempty_ones : forall f hs,
  flat_map height_of (snd (code_walk f [] hs)) = filter f hs.
Proof.
  intros f hs. rewrite code_walk_is_filter. cbn [snd app].
  induction (filter f hs) as [|h r IH]; [reflexivity|]. cbn. rewrite IH. reflexivity.
Qed.

Example keeps_somewhere : flat_map height_of (snd (code_walk (fun h => negb (h =? 5)%N) [] [4; 5; 6]%N)) = [4; 6]%N.
Proof. vm_compute. reflexivity. Qed.

Print Assumptions code_walk_is_filter.
Print Assumptions submitted_heights_are_the_nonempty_ones.
