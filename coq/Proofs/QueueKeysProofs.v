(* Proofs/QueueKeysProofs.v — string order of the queue's record keys is numeric order of their sequence numbers;
   Load reads back the number batchKey wrote (Model/QueueKeys.v). *)
From Coq Require Import NArith List Bool Lia.
From Verif Require Import Model.QueueKeys.
From Verif Require Model.Queue.
Import ListNotations.
Open Scope N_scope.

Lemma hexchar_mono : forall a b, a < b -> b < 16 -> hexchar a < hexchar b.
Proof.
  intros a b Hab Hb. unfold hexchar.
  destruct (N.ltb_spec a 10), (N.ltb_spec b 10); lia.
Qed.

Lemma hexchar_inj_lt16 : forall a b, a < 16 -> b < 16 -> hexchar a = hexchar b -> a = b.
Proof.
  intros a b Ha Hb. unfold hexchar.
  destruct (N.ltb_spec a 10), (N.ltb_spec b 10); lia.
Qed.

Lemma digit_lt16 : forall v n, (v / 16 ^ n) mod 16 < 16.
Proof. intros. apply N.mod_lt. lia. Qed.

(* v mod 16^(n+1) = leading digit * 16^n + v mod 16^n *)
Lemma mod_split : forall v n,
  v mod 16 ^ N.of_nat (S n) = (v / 16 ^ N.of_nat n) mod 16 * 16 ^ N.of_nat n + v mod 16 ^ N.of_nat n.
Proof.
  intros v n.
  replace (N.of_nat (S n)) with (N.succ (N.of_nat n)) by lia.
  rewrite N.pow_succ_r'. rewrite (N.mul_comm 16).
  assert (H16 : 16 ^ N.of_nat n <> 0) by (apply N.pow_nonzero; lia).
  rewrite N.mod_mul_r by lia. lia.
Qed.

Lemma lex_lt_irrefl : forall a, lex_lt a a = false.
Proof.
  induction a as [|x a IH]; cbn [lex_lt]; [reflexivity|].
  rewrite N.ltb_irrefl, N.eqb_refl, IH. reflexivity.
Qed.

Lemma lex_lt_asym : forall a b, lex_lt a b = true -> lex_lt b a = false.
Proof.
  induction a as [|x a IH]; intros [|y b] H; cbn [lex_lt] in *; try reflexivity; try discriminate.
  apply orb_true_iff in H. destruct H as [H|H].
  - apply N.ltb_lt in H. apply orb_false_iff. split.
    + apply N.ltb_ge. lia.
    + apply andb_false_iff. left. apply N.eqb_neq. lia.
  - apply andb_true_iff in H. destruct H as [E L]. apply N.eqb_eq in E. subst y.
    rewrite N.ltb_irrefl, N.eqb_refl. cbn. apply IH. exact L.
Qed.

(* fixed-width hex: the order of the digit strings is the order of the values (below 16^n), whatever follows *)
Lemma hex_fixed_order : forall n a b ta tb,
  a mod 16 ^ N.of_nat n < b mod 16 ^ N.of_nat n ->
  lex_lt (hex_fixed n a ++ ta) (hex_fixed n b ++ tb) = true.
Proof.
  induction n as [|n IH]; intros a b ta tb H.
  - cbn in H. rewrite !N.mod_1_r in H. lia.
  - rewrite !mod_split in H. cbn [hex_fixed app lex_lt].
    set (da := (a / 16 ^ N.of_nat n) mod 16) in *. set (db := (b / 16 ^ N.of_nat n) mod 16) in *.
    assert (Ha : da < 16) by apply digit_lt16. assert (Hb : db < 16) by apply digit_lt16.
    clearbody da db.
    assert (Hp : 0 < 16 ^ N.of_nat n) by (apply N.neq_0_lt_0, N.pow_nonzero; lia).
    assert (Hra : a mod 16 ^ N.of_nat n < 16 ^ N.of_nat n) by (apply N.mod_lt; lia).
    assert (Hrb : b mod 16 ^ N.of_nat n < 16 ^ N.of_nat n) by (apply N.mod_lt; lia).
    destruct (N.lt_trichotomy da db) as [L|[E|G]].
    + apply orb_true_iff. left. apply N.ltb_lt. apply hexchar_mono; assumption.
    + apply orb_true_iff. right. rewrite E, N.eqb_refl. cbn. apply IH. rewrite E in H. lia.
    + exfalso. assert (db + 1 <= da) by lia.
      assert (H1 : (db + 1) * 16 ^ N.of_nat n <= da * 16 ^ N.of_nat n) by (apply N.mul_le_mono_r; assumption).
      rewrite N.mul_add_distr_r in H1.
      generalize dependent (16 ^ N.of_nat n). intros P. generalize (da * P) (db * P) (a mod P) (b mod P). intros. lia.
Qed.

Lemma hex_fixed_length : forall n v, length (hex_fixed n v) = n.
Proof. induction n; intros; cbn [hex_fixed length]; [reflexivity|]. rewrite IHn. reflexivity. Qed.

(* the key strings of two different uint64 sequence numbers compare as the numbers do, whatever the hashes *)
Lemma key_string_lt : forall a b ha hb, a < b -> u64 b ->
  lex_lt (key_string a ha) (key_string b hb) = true.
Proof.
  intros a b ha hb Hab Hb. unfold u64 in Hb. unfold key_string. cbn [lex_lt].
  rewrite N.ltb_irrefl, N.eqb_refl. cbn [orb andb].
  apply hex_fixed_order.
  change (16 ^ N.of_nat 16) with (2 ^ 64).
  rewrite !N.mod_small by lia. exact Hab.
Qed.

Lemma key_string_order : forall a b ha hb, u64 a -> u64 b -> a <> b ->
  lex_lt (key_string a ha) (key_string b hb) = (a <? b).
Proof.
  intros a b ha hb Ha Hb Hne.
  destruct (N.ltb_spec a b) as [L|G].
  - apply key_string_lt; assumption.
  - apply lex_lt_asym. apply key_string_lt; [lia|assumption].
Qed.

(* reading the digits back *)
Lemma unhex_hexchar : forall d, d < 16 -> unhex (hexchar d) = d.
Proof.
  intros d Hd. unfold unhex, hexchar.
  destruct (N.ltb_spec d 10) as [L|G].
  - destruct (N.ltb_spec (48 + d) 58); lia.
  - destruct (N.ltb_spec (87 + d) 58); lia.
Qed.

Lemma hex_value_fixed_acc : forall n v acc t,
  fold_left (fun acc c => acc * 16 + unhex c) (hex_fixed n v ++ t) acc =
  fold_left (fun acc c => acc * 16 + unhex c) t (acc * 16 ^ N.of_nat n + v mod 16 ^ N.of_nat n).
Proof.
  induction n as [|n IH]; intros v acc t.
  - cbn [hex_fixed app]. cbn. rewrite N.mod_1_r. f_equal. lia.
  - cbn [hex_fixed app fold_left]. rewrite IH. f_equal.
    rewrite unhex_hexchar by apply digit_lt16.
    rewrite mod_split.
    replace (N.of_nat (S n)) with (N.succ (N.of_nat n)) by lia.
    rewrite N.pow_succ_r'. lia.
Qed.

Lemma firstn_app_exact : forall {A} (l t : list A), firstn (length l) (l ++ t) = l.
Proof. induction l; intros; cbn; [reflexivity|]. rewrite IHl. reflexivity. Qed.

(* Load's Sscanf reads back the number batchKey printed *)
Lemma key_seq_key_string : forall sq hash, u64 sq -> key_seq (key_string sq hash) = sq.
Proof.
  intros sq hash H. unfold u64 in H. unfold key_seq, key_string. cbn [tl].
  replace 16%nat with (length (hex_fixed 16 sq)) at 1 by apply hex_fixed_length.
  rewrite firstn_app_exact. unfold hex_value.
  rewrite <- (app_nil_r (hex_fixed 16 sq)). rewrite hex_value_fixed_acc. cbn [fold_left].
  change (16 ^ N.of_nat 16) with (2 ^ 64). rewrite N.mod_small by lia. lia.
Qed.

(* a list of records in string-key order is in sequence-number order: what Model/Queue.v assumes of the datastore *)
Lemma string_sorted_iff_number_sorted : forall (recs : list (N * list N)),
  Forall (fun r => u64 (fst r)) recs -> NoDup (map fst recs) ->
  sorted_by lex_lt (map (fun r => key_string (fst r) (snd r)) recs) =
  Queue.ssorted (map fst recs).
Proof.
  induction recs as [|[a ha] recs IH]; intros HU HN; [reflexivity|].
  cbn [map sorted_by Queue.ssorted fst snd]. inversion HU as [|? ? Ha HU']; subst. inversion HN as [|? ? Hnin HN']; subst.
  rewrite IH by assumption. f_equal.
  clear IH HN HN' HU. cbn [fst] in *.
  induction recs as [|[b hb] recs IH2]; [reflexivity|].
  cbn [map forallb fst snd]. inversion HU' as [|? ? Hb HU'']; subst. cbn [fst] in Hb.
  rewrite key_string_order; [|assumption|assumption|].
  - f_equal. apply IH2; [assumption|]. intro Hin. apply Hnin. cbn [map fst]. right. exact Hin.
  - intro E. apply Hnin. cbn [map fst]. left. symmetry. exact E.
Qed.

(* without the padding the order breaks at the first change of width: "s10-" sorts before "s2-"
   (strconv.FormatUint(16, 16) = "10", 2 digits; FormatUint(2, 16) = "2", 1 digit) *)
Example unpadded_keys_break_order :
  lex_lt (115 :: hex_fixed 2 16 ++ [45]) (115 :: hex_fixed 1 2 ++ [45]) = true /\ (16 <? 2) = false.
Proof. vm_compute. split; reflexivity. Qed.
(* the same for decimal digits ("s10-" before "s9-"): any unpadded positional notation *)
Example padded_keys_keep_order_at_the_boundaries :
  lex_lt (key_string 15 [7]) (key_string 16 [3]) = true /\ lex_lt (key_string 255 [7]) (key_string 256 [3]) = true /\
  lex_lt (key_string 9 [9]) (key_string 10 [0]) = true /\ lex_lt (key_string (2 ^ 64 - 2) [9]) (key_string (2 ^ 64 - 1) [0]) = true.
Proof. vm_compute. repeat split; reflexivity. Qed.
