(* Proofs/ThrottleLoopCodeProofs.v — the code side of ThrottleLoop.loop_goes_on (property C08).
   Check/GoLiteSubmitTick.v evaluates ONE ITERATION of Manager.HeaderSubmissionLoop / Manager.DataSubmissionLoop as
   translated from /repo's source on every run (go/ast -> Model/GoLite.v), for all worlds: node context cancelled
   or not, nothing pending, a failing fetch, an empty or non-empty list, submit…ToDA returning nil OR AN ERROR.
   Read off its lemmas here: with the node's context alive the translated iteration ends in `continue` (the for
   loop goes round again) in EVERY world — in particular whatever submit…ToDA returned —, and the loop function
   returns only when the node's context is cancelled, having called nothing. *)
From Coq Require Import String List NArith ZArith Bool.
From Verif Require Import Model.GoLite Check.GoLiteSubmitTick.
Import ListNotations.
Open Scope string_scope.
Open Scope list_scope.

Lemma tick_expect_goes_round : forall fetch submit w, t_cancel w = false -> fst (tick_expect fetch submit w) = go_on.
Proof.
  intros fetch submit w Hc. unfold tick_expect. rewrite Hc. cbv zeta.
  destruct (t_empty w); [reflexivity|]. destruct (negb (t_get_ok w)); [reflexivity|].
  destruct (seg_len (t_lo w) (t_hi w) =? 0)%N; reflexivity.
Qed.

Lemma tick_expect_cancelled : forall fetch submit w, t_cancel w = true -> tick_expect fetch submit w = ([], []).
Proof. intros fetch submit w Hc. unfold tick_expect. rewrite Hc. reflexivity. Qed.

(* the node's context is alive: the translated iteration of either loop goes round again, in every world *)
Lemma translated_loops_go_round : forall w, t_cancel w = false ->
  (exists calls, run_tick "Manager.HeaderSubmissionLoop" w = Some (go_on, calls)) /\
  (exists calls, run_tick "Manager.DataSubmissionLoop" w = Some (go_on, calls)).
Proof.
  intros w Hc. split.
  - pose proof (tick_expect_goes_round "pendingHeaders.getPendingHeaders" "m.submitHeadersToDA" w Hc) as E.
    rewrite go_HeaderSubmissionLoop.
    destruct (tick_expect "pendingHeaders.getPendingHeaders" "m.submitHeadersToDA" w) as [r cs].
    cbn [fst] in E. subst r. exists cs. reflexivity.
  - pose proof (tick_expect_goes_round "m.createSignedDataToSubmit" "m.submitDataToDA" w Hc) as E.
    rewrite go_DataSubmissionLoop.
    destruct (tick_expect "m.createSignedDataToSubmit" "m.submitDataToDA" w) as [r cs].
    cbn [fst] in E. subst r. exists cs. reflexivity.
Qed.

Definition header_loop : string := "Manager.HeaderSubmissionLoop".
Definition data_loop : string := "Manager.DataSubmissionLoop".

(* the only way out: the node's context is cancelled — the loop function returns having called nothing *)
Lemma translated_loops_return_on_shutdown_only : forall w name,
  name = header_loop \/ name = data_loop ->
  (t_cancel w = true -> run_tick name w = Some ([], [])) /\
  (t_cancel w = false -> exists calls, run_tick name w = Some (go_on, calls)).
Proof.
  intros w name Hn. unfold header_loop, data_loop in Hn. split.
  - intros Hc. destruct Hn as [-> | ->].
    + rewrite go_HeaderSubmissionLoop. now rewrite tick_expect_cancelled.
    + rewrite go_DataSubmissionLoop. now rewrite tick_expect_cancelled.
  - intros Hc. destruct (translated_loops_go_round w Hc) as [H1 H2]. destruct Hn as [-> | ->]; assumption.
Qed.
