(* Proofs/ReaperProofs.v — lemmas about Model/Reaper.v (C11).
   Structure: (1) list lemmas; (2) an abstract transition system over (block contents, queue, seen-set, mempool,
   taken, released) and the invariants of the property proved on it; (3) the shape invariant of the concrete model
   and the refinement: every item of a history is a short sequence of abstract transitions, where the lossy
   transition is used exactly by the items the guard excludes and partial marking only by crashed items;
   (4) the theorems over histories; (5) the witnesses. *)
From Coq Require Import NArith ZArith List Bool Arith Lia.
From Verif Require Import Model.Reaper.
Import ListNotations.

(* ---- (1) lists ------------------------------------------------------------------------------------------- *)
Lemma memb_in t l : memb t l = true <-> In t l.
Proof.
  unfold memb. rewrite existsb_exists. split.
  - intros [x [Hx He]]. apply N.eqb_eq in He. subst. assumption.
  - intros H. exists t. split; [assumption | apply N.eqb_refl].
Qed.

Lemma memb_false t l : memb t l = false <-> ~ In t l.
Proof.
  rewrite <- memb_in. destruct (memb t l); split; intros H; try reflexivity; try discriminate.
  exfalso; apply H; reflexivity.
Qed.

Lemma set_nth_length {A} (x : A) l : set_nth (length l) x l = l ++ [x].
Proof. induction l as [|y l IH]; cbn; [reflexivity | rewrite IH; reflexivity]. Qed.

Lemma set_nth_last {A} (x y : A) l : set_nth (length l) y (l ++ [x]) = l ++ [y].
Proof. induction l as [|z l IH]; cbn; [reflexivity | rewrite IH; reflexivity]. Qed.

Lemma list_snoc_of_length {A} (l : list A) n : length l = S n -> exists l' x, l = l' ++ [x] /\ length l' = n.
Proof.
  intros H. destruct (exists_last (l := l)) as (l' & x & ->).
  - intros ->; discriminate.
  - exists l', x. split; [reflexivity|]. rewrite app_length in H. cbn in H. lia.
Qed.

Lemma nth_error_snoc {A} (l : list A) x : nth_error (l ++ [x]) (length l) = Some x.
Proof. rewrite nth_error_app2 by lia. rewrite Nat.sub_diag. reflexivity. Qed.

(* select: exactly the unseen transactions of the mempool, each once, in mempool order *)
Lemma select_sound sn l : forall inb t, In t (select sn inb l) -> In t l /\ memb t sn = false /\ memb t inb = false.
Proof.
  induction l as [|x l IH]; intros inb t H; cbn in H; [contradiction|].
  destruct (memb x inb) eqn:Ei.
  - destruct (IH _ _ H) as (A & B & C). auto with datatypes.
  - destruct (memb x sn) eqn:Es.
    + destruct (IH _ _ H) as (A & B & C). auto with datatypes.
    + destruct H as [<-|H]; [auto with datatypes|].
      destruct (IH _ _ H) as (A & B & C). repeat split; auto with datatypes.
      apply memb_false. apply memb_false in C. intros D. apply C. right; exact D.
Qed.

Lemma select_complete sn l : forall inb t, In t l -> memb t sn = false -> memb t inb = false -> In t (select sn inb l).
Proof.
  induction l as [|x l IH]; intros inb t H Hs Hi; [contradiction|]. cbn.
  destruct H as [->|H].
  - rewrite Hi, Hs. left; reflexivity.
  - destruct (memb x inb) eqn:Ei; [apply IH; assumption|].
    destruct (memb x sn) eqn:Es; [apply IH; assumption|].
    destruct (N.eq_dec x t) as [->|Hne]; [left; reflexivity|]. right.
    apply IH; auto. apply memb_false. apply memb_false in Hi. intros [E|D]; [exact (Hne E)|exact (Hi D)].
Qed.

Lemma select_nodup sn l : forall inb, NoDup (select sn inb l).
Proof.
  induction l as [|x l IH]; intros inb; cbn; [constructor|].
  destruct (memb x inb); [apply IH|]. destruct (memb x sn); [apply IH|].
  constructor; [|apply IH]. intros H. apply select_sound in H as (_ & _ & C).
  apply memb_false in C. apply C. left; reflexivity.
Qed.

Lemma NoDup_app_iff {A} (a b : list A) : NoDup (a ++ b) <-> NoDup a /\ NoDup b /\ (forall x, In x a -> ~ In x b).
Proof.
  induction a as [|x a IH]; cbn.
  - split; [intros H; repeat split; auto; constructor | intros (_ & H & _); exact H].
  - split.
    + intros H. inversion H as [|? ? Hn Hd]; subst. apply IH in Hd as (Ha & Hb & Hc).
      repeat split; auto.
      * constructor; auto. intros Hi. apply Hn. apply in_or_app; left; exact Hi.
      * intros y [<-|Hy]; [intros Hi; apply Hn; apply in_or_app; right; exact Hi | apply Hc; exact Hy].
    + intros (Ha & Hb & Hc). inversion Ha as [|? ? Hn Hd]; subst. constructor.
      * intros Hi. apply in_app_or in Hi as [Hi|Hi]; [exact (Hn Hi) | exact (Hc x (or_introl eq_refl) Hi)].
      * apply IH. repeat split; auto.
Qed.

(* subsequence (order kept) *)
Inductive Subseq {A} : list A -> list A -> Prop :=
| Subseq_nil : Subseq [] []
| Subseq_skip l r x : Subseq l r -> Subseq l (x :: r)
| Subseq_keep l r x : Subseq l r -> Subseq (x :: l) (x :: r).

Lemma Subseq_snoc_skip {A} (l r : list A) x : Subseq l r -> Subseq l (r ++ [x]).
Proof. induction 1; cbn; [apply Subseq_skip, Subseq_nil | apply Subseq_skip; assumption | apply Subseq_keep; assumption]. Qed.

Lemma Subseq_snoc_keep {A} (l r : list A) x : Subseq l r -> Subseq (l ++ [x]) (r ++ [x]).
Proof. induction 1; cbn; [apply Subseq_keep, Subseq_nil | apply Subseq_skip; assumption | apply Subseq_keep; assumption]. Qed.

Lemma Subseq_refl {A} (l : list A) : Subseq l l.
Proof. induction l; [constructor | apply Subseq_keep; assumption]. Qed.

Lemma Subseq_nil_l {A} (r : list A) : Subseq [] r.
Proof. induction r; [constructor | apply Subseq_skip; assumption]. Qed.

Lemma Subseq_app_l {A} (a b r : list A) : Subseq (a ++ b) r -> Subseq a r.
Proof.
  remember (a ++ b) as l eqn:E. intros H. revert a b E.
  induction H as [| l r x H IH | l r x H IH]; intros a b E.
  - destruct a; [constructor | discriminate].
  - apply Subseq_skip. eapply IH; exact E.
  - destruct a as [|y a]; [apply Subseq_nil_l|]. cbn in E. inversion E; subst.
    apply Subseq_keep. eapply IH; reflexivity.
Qed.

Definition nonempty (b : list tx) : bool := match b with [] => false | _ => true end.

Lemma filter_firstn_prefix {A} (f : A -> bool) (l : list A) n : exists r, filter f l = filter f (firstn n l) ++ r.
Proof. exists (filter f (skipn n l)). rewrite <- filter_app, firstn_skipn. reflexivity. Qed.

(* ---- (2) the abstract transition system ------------------------------------------------------------------- *)
Record abs := mk_abs {
  aB : list (list tx);      (* contents of the block records, by height *)
  aQ : list batch;          (* the queue *)
  aS : list tx;             (* the seen-set *)
  aM : list tx;             (* the mempool *)
  aT : list tx;             (* taken *)
  aR : list batch           (* released *)
}.

Definition absf (s : st) : abs := mk_abs (block_txs s) (queue s) (seen s) (mem s) (taken s) (released s).

(* fl: the lossy transition may be used; fc: a hand-off may be cut between its marks *)
Inductive tr (fl fc : bool) : abs -> abs -> Prop :=
| t_arrive B Q S M T R t : tr fl fc (mk_abs B Q S M T R) (mk_abs B Q S (M ++ [t]) T R)
| t_take B Q S M T R : tr fl fc (mk_abs B Q S M T R) (mk_abs B Q S M (T ++ M) R)
| t_put B Q S M T R p r : p ++ r = select S [] M -> p ++ r <> [] -> (fc = false -> r = []) ->
    tr fl fc (mk_abs B Q S M T R) (mk_abs B (Q ++ [p ++ r]) (rev p ++ S) M T R)
| t_drop B Q S M T R b : fl = true -> tr fl fc (mk_abs B (b :: Q) S M T R) (mk_abs B Q S M T (R ++ [b]))
| t_move B Q S M T R b : tr fl fc (mk_abs B (b :: Q) S M T R) (mk_abs (B ++ [b]) Q S M T (R ++ [b]))
| t_empty B Q S M T R : tr fl fc (mk_abs B Q S M T R) (mk_abs (B ++ [[]]) Q S M T R)
| t_exec B Q S M T R x : In x B -> tr fl fc (mk_abs B Q S M T R) (mk_abs B Q S (filter (fun t => negb (memb t x)) M) T R).

Inductive star (fl fc : bool) : abs -> abs -> Prop :=
| star_refl a : star fl fc a a
| star_step a b c : tr fl fc a b -> star fl fc b c -> star fl fc a c.

Lemma star_one fl fc a b : tr fl fc a b -> star fl fc a b.
Proof. intros H. eapply star_step; [exact H | apply star_refl]. Qed.

Lemma star_trans fl fc a b c : star fl fc a b -> star fl fc b c -> star fl fc a c.
Proof. induction 1; intros; [assumption | eapply star_step; eauto]. Qed.

Lemma tr_weaken fl fc fl' fc' a b : (fl = true -> fl' = true) -> (fc = true -> fc' = true) -> tr fl fc a b -> tr fl' fc' a b.
Proof.
  intros Hl Hc H. destruct H; try (constructor; auto; fail).
  apply t_put; auto. intros E. destruct fc; [specialize (Hc eq_refl); congruence | auto].
Qed.

Lemma star_weaken fl fc fl' fc' a b : (fl = true -> fl' = true) -> (fc = true -> fc' = true) -> star fl fc a b -> star fl' fc' a b.
Proof. intros Hl Hc. induction 1; [apply star_refl | eapply star_step; [eapply tr_weaken; eauto | assumption]]. Qed.

Lemma star_inv (P : abs -> Prop) fl fc : (forall a b, tr fl fc a b -> P a -> P b) -> forall a b, star fl fc a b -> P a -> P b.
Proof. intros H a b S. induction S; auto. intros; apply IHS. eapply H; eauto. Qed.

(* -- no loss (without the lossy transition; crashes allowed) -- *)
Definition stored (a : abs) (t : tx) : Prop := In t (concat (aB a)) \/ In t (concat (aQ a)).

Definition Pinv (a : abs) : Prop :=
  (forall t, In t (aT a) -> stored a t \/ (In t (aM a) /\ memb t (aS a) = false)) /\
  (forall t, In t (aS a) -> stored a t).

Lemma Pinv_tr fc a b : tr false fc a b -> Pinv a -> Pinv b.
Proof.
  intros H [Ha Hb]. destruct H; unfold Pinv, stored in *; cbn [aB aQ aS aM aT aR] in *.
  - (* arrive *) split; [|exact Hb]. intros x Hx. destruct (Ha x Hx) as [?|[? ?]]; auto with datatypes.
  - (* take *) split; [|exact Hb]. intros x Hx. apply in_app_or in Hx as [Hx|Hx]; [auto|].
    destruct (memb x S) eqn:E; [left; apply Hb; apply memb_in; exact E | right; auto].
  - (* put *)
    assert (Hq : forall x, In x (p ++ r) -> In x (concat (Q ++ [p ++ r]))).
    { intros x Hx. rewrite concat_app. apply in_or_app; right. cbn. rewrite app_nil_r. exact Hx. }
    assert (Hm : forall x, In x (concat Q) -> In x (concat (Q ++ [p ++ r]))).
    { intros x Hx. rewrite concat_app. apply in_or_app; left; exact Hx. }
    split.
    + intros x Hx. destruct (Ha x Hx) as [[?|?]|[Hi Hu]]; [auto | auto |].
      destruct (memb x (rev p ++ S)) eqn:E; [|right; auto].
      left; right. apply memb_in in E. apply in_app_or in E as [E|E].
      * apply Hq. apply in_or_app; left. apply in_rev; exact E.
      * apply memb_false in Hu. contradiction.
    + intros x Hx. apply in_app_or in Hx as [Hx|Hx].
      * right. apply Hq. apply in_or_app; left. apply in_rev; exact Hx.
      * destruct (Hb x Hx); auto.
  - discriminate.
  - (* move *)
    assert (Hs : forall x, In x (concat B) \/ In x (concat (b :: Q)) -> In x (concat (B ++ [b])) \/ In x (concat Q)).
    { intros x [Hx|Hx].
      - left. rewrite concat_app. apply in_or_app; left; exact Hx.
      - cbn in Hx. apply in_app_or in Hx as [Hx|Hx]; [|auto].
        left. rewrite concat_app. apply in_or_app; right. cbn. rewrite app_nil_r. exact Hx. }
    split.
    + intros x Hx. destruct (Ha x Hx) as [?|?]; auto.
    + intros x Hx. auto.
  - (* empty block *)
    assert (E : concat (B ++ [[]]) = concat B) by (rewrite concat_app; cbn; rewrite app_nil_r; reflexivity).
    rewrite E. split; assumption.
  - (* exec *)
    split; [|exact Hb]. intros y Hy. destruct (Ha y Hy) as [?|[Hi Hu]]; [auto|].
    destruct (memb y x) eqn:E.
    + left; left. apply in_concat. exists x. split; [assumption | apply memb_in; exact E].
    + right. split; [|exact Hu]. apply filter_In. split; [exact Hi | rewrite E; reflexivity].
Qed.

(* -- order: the non-empty block contents are released batches, in release order; without the lossy transition
      they are exactly the released batches -- *)
Definition Qne (a : abs) : Prop := forall b, In b (aQ a) -> b <> [].

Lemma Qne_tr fl fc a b : tr fl fc a b -> Qne a -> Qne b.
Proof.
  intros H Hq. destruct H; unfold Qne in *; cbn [aQ] in *; auto with datatypes.
  intros b Hb. apply in_app_or in Hb as [Hb|[<-|[]]]; auto.
Qed.

Definition Oinv (a : abs) : Prop := Qne a /\ Subseq (filter nonempty (aB a)) (aR a).
Definition Oeq (a : abs) : Prop := Qne a /\ filter nonempty (aB a) = aR a.

Lemma filter_snoc_ne B (b : list tx) : b <> [] -> filter nonempty (B ++ [b]) = filter nonempty B ++ [b].
Proof. intros H. rewrite filter_app. cbn. destruct b; [congruence | reflexivity]. Qed.

Lemma filter_snoc_empty B : filter nonempty (B ++ [[]]) = filter nonempty B.
Proof. rewrite filter_app. cbn. apply app_nil_r. Qed.

Lemma Oinv_tr fl fc a b : tr fl fc a b -> Oinv a -> Oinv b.
Proof.
  intros H [Hq Hs]. split; [eapply Qne_tr; eauto|].
  destruct H; cbn [aB aR aQ] in *; auto.
  - apply Subseq_snoc_skip; assumption.
  - rewrite filter_snoc_ne by (apply Hq; left; reflexivity). apply Subseq_snoc_keep; assumption.
  - rewrite filter_snoc_empty; assumption.
Qed.

Lemma Oeq_tr fc a b : tr false fc a b -> Oeq a -> Oeq b.
Proof.
  intros H [Hq Hs]. split; [eapply Qne_tr; eauto|].
  destruct H; cbn [aB aR aQ] in *; auto.
  - discriminate.
  - rewrite filter_snoc_ne by (apply Hq; left; reflexivity). rewrite Hs; reflexivity.
  - rewrite filter_snoc_empty; assumption.
Qed.

(* -- no duplicates (without cut hand-offs; the lossy transition allowed) -- *)
Definition Dinv (a : abs) : Prop :=
  NoDup (concat (aB a) ++ concat (aQ a)) /\ (forall t, In t (concat (aB a) ++ concat (aQ a)) -> In t (aS a)).

Lemma Dinv_tr fl a b : tr fl false a b -> Dinv a -> Dinv b.
Proof.
  intros H [Hn Hs]. destruct H; unfold Dinv in *; cbn [aB aQ aS] in *; auto.
  - (* put: r = [] *)
    rewrite (H1 eq_refl) in *. rewrite app_nil_r in *.
    rewrite concat_app, app_assoc. cbn [concat]. rewrite app_nil_r. split.
    + apply NoDup_app_iff. repeat split.
      * exact Hn.
      * rewrite H. apply select_nodup.
      * intros x Hx Hp. rewrite H in Hp. apply select_sound in Hp as (_ & Hu & _).
        apply memb_false in Hu. apply Hu, Hs, Hx.
    + intros x Hx. apply in_or_app. apply in_app_or in Hx as [Hx|Hx]; [right; apply Hs; exact Hx | left; apply in_rev in Hx; exact Hx].
  - (* drop *)
    cbn [concat] in *. split.
    + apply NoDup_app_iff in Hn as (H1 & H2 & H3). apply NoDup_app_iff in H2 as (H4 & H5 & H6).
      apply NoDup_app_iff. repeat split; auto. intros x Hx Hy. apply (H3 x Hx). apply in_or_app; right; exact Hy.
    + intros x Hx. apply Hs. apply in_app_or in Hx as [Hx|Hx]; apply in_or_app; [left; exact Hx | right; apply in_or_app; right; exact Hx].
  - (* move *)
    assert (E : concat (B ++ [b]) ++ concat Q = concat B ++ concat (b :: Q)).
    { rewrite concat_app. cbn. rewrite app_nil_r, app_assoc. reflexivity. }
    rewrite E. split; assumption.
  - (* empty *)
    assert (E : concat (B ++ [[]]) = concat B) by (rewrite concat_app; cbn; rewrite app_nil_r; reflexivity).
    rewrite E. split; assumption.
Qed.

(* ---- (3) the shape invariant of the concrete model and the refinement ------------------------------------------ *)
(* durable part: (state height, store height, number of block records) is (n, n, n), (n, n, n+1) [a block saved
   above the store height] or (n+1, n, n+1) [died between the state write and the height write]; before the first
   commit only the genesis block exists *)
Definition dshape (s : st) : Prop :=
  ((sh s = th s /\ (length (blocks s) = th s \/ length (blocks s) = S (th s))) \/
   (sh s = S (th s) /\ length (blocks s) = S (th s))) /\
  (sh s = 0 -> forall x, In x (block_txs s) -> x = []).
(* a running node has raised the store height to the state height and, before the first commit, saved the genesis block *)
Definition ushape (s : st) : Prop := up s = true -> sh s = th s /\ (th s = 0 -> length (blocks s) = 1).
Definition shape (s : st) : Prop := dshape s /\ ushape s.

Lemma apply_acts_app s a b : apply_acts s (a ++ b) = apply_acts (apply_acts s a) b.
Proof. unfold apply_acts. apply fold_left_app. Qed.

Lemma apply_acts_cons s a l : apply_acts s (a :: l) = apply_acts (apply_act s a) l.
Proof. reflexivity. Qed.

(* the part of a state the abstraction does not see can change freely *)
Definition same_abs (s1 s2 : st) : Prop :=
  block_txs s2 = block_txs s1 /\ queue s2 = queue s1 /\ seen s2 = seen s1 /\ taken s2 = taken s1 /\ released s2 = released s1.

(* the commit tail on a state whose last block record is the block of the next height *)
Lemma tail_effect s1 l pb t k e :
  blocks s1 = l ++ [pb] -> length l = th s1 -> sh s1 = th s1 ->
  let L := commit_tail (S (th s1)) (b_txs pb) t in
  let s2 := apply_acts s1 (cut k e L) in
  same_abs s1 s2 /\ up s2 = up s1 /\
  (mem s2 = mem s1 \/ mem s2 = filter (fun x => negb (memb x (b_txs pb))) (mem s1)) /\
  length (blocks s2) = S (th s1) /\
  ((sh s2 = th s1 /\ th s2 = th s1) \/ (sh s2 = S (th s1) /\ th s2 = th s1) \/ (sh s2 = S (th s1) /\ th s2 = S (th s1))) /\
  (cut k e L = L -> sh s2 = S (th s1) /\ th s2 = S (th s1)).
Proof.
  intros Hb Hl Hs L s2. subst L s2. unfold commit_tail, same_abs, block_txs.
  assert (Hlen : length (blocks s1) = S (th s1)) by (rewrite Hb, app_length; cbn; lia).
  assert (Hset : forall sg, set_nth (th s1) {| b_txs := b_txs pb; b_time := t; b_signed := sg |} (blocks s1) = l ++ [{| b_txs := b_txs pb; b_time := t; b_signed := sg |}]).
  { intros sg. rewrite Hb, <- Hl. apply set_nth_last. }
  assert (Hmap : forall sg, map b_txs (l ++ [{| b_txs := b_txs pb; b_time := t; b_signed := sg |}]) = map b_txs (blocks s1)).
  { intros sg. rewrite Hb, !map_app. reflexivity. }
  assert (Hlen2 : forall sg, length (l ++ [{| b_txs := b_txs pb; b_time := t; b_signed := sg |}]) = S (th s1)).
  { intros sg. rewrite app_length; cbn; lia. }
  destruct k as [|[|[|k]]]; destruct e; cbn [cut apply_acts fold_left apply_act apply_wr pred
      set_mem set_blocks set_sh set_th up mem seen queue blocks sh th taken released];
    rewrite ?Hset, ?Hmap, ?Hlen2;
    repeat split; auto; try lia; try discriminate; try (intros E; discriminate E).
Qed.
