(* Proofs/ReaperProofs.v — lemmas about Model/Reaper.v (C11).
   Structure: (1) list lemmas; (2) an abstract transition system over (block contents, queue, seen-set, mempool,
   taken, released) and the invariants of the property proved on it; (3) the shape invariant of the concrete model
   and the refinement: every item of a history is a short sequence of abstract transitions, where the lossy
   transition is used exactly by the items the guard excludes and partial marking / a kept queue record only by
   crashed or faulted items (write faults: [fault_at], [fault_none], [produce_fault_effect], [reap_fault_effect]);
   (4) the theorems over histories; (5) the witnesses, (5b) the harmless cursor fault. *)
From Coq Require Import NArith ZArith List Bool Arith Lia.
From Verif Require Import Model.Reaper.
Import ListNotations.

(* ---- (1) lists ------------------------------------------------------------------------------------------- *)
Lemma memb_in t l : memb t l = true <-> In t l.
Proof.
  unfold memb. rewrite existsb_exists. split.
  - intros [x [Hx He]]. apply N.eqb_eq in He. subst. assumption.
  - intros H. exists t. split; [assumption | apply N.eqb_refl].
Qed.

Lemma memb_false t l : memb t l = false <-> ~ In t l.
Proof.
  rewrite <- memb_in. destruct (memb t l); split; intros H; try reflexivity; try discriminate.
  exfalso; apply H; reflexivity.
Qed.

Lemma set_nth_length {A} (x : A) l : set_nth (length l) x l = l ++ [x].
Proof. induction l as [|y l IH]; cbn; [reflexivity | rewrite IH; reflexivity]. Qed.

Lemma set_nth_last {A} (x y : A) l : set_nth (length l) y (l ++ [x]) = l ++ [y].
Proof. induction l as [|z l IH]; cbn; [reflexivity | rewrite IH; reflexivity]. Qed.

Lemma list_snoc_of_length {A} (l : list A) n : length l = S n -> exists l' x, l = l' ++ [x] /\ length l' = n.
Proof.
  intros H. destruct (exists_last (l := l)) as (l' & x & ->).
  - intros ->; discriminate.
  - exists l', x. split; [reflexivity|]. rewrite app_length in H. cbn in H. lia.
Qed.

Lemma nth_error_snoc {A} (l : list A) x : nth_error (l ++ [x]) (length l) = Some x.
Proof. rewrite nth_error_app2 by lia. rewrite Nat.sub_diag. reflexivity. Qed.

(* select: exactly the unseen transactions of the mempool, each once, in mempool order *)
Lemma select_sound sn l : forall inb t, In t (select sn inb l) -> In t l /\ memb t sn = false /\ memb t inb = false.
Proof.
  induction l as [|x l IH]; intros inb t H; cbn in H; [contradiction|].
  destruct (memb x inb) eqn:Ei.
  - destruct (IH _ _ H) as (A & B & C). auto with datatypes.
  - destruct (memb x sn) eqn:Es.
    + destruct (IH _ _ H) as (A & B & C). auto with datatypes.
    + destruct H as [<-|H]; [auto with datatypes|].
      destruct (IH _ _ H) as (A & B & C). repeat split; auto with datatypes.
      apply memb_false. apply memb_false in C. intros D. apply C. right; exact D.
Qed.

Lemma select_complete sn l : forall inb t, In t l -> memb t sn = false -> memb t inb = false -> In t (select sn inb l).
Proof.
  induction l as [|x l IH]; intros inb t H Hs Hi; [contradiction|]. cbn.
  destruct H as [->|H].
  - rewrite Hi, Hs. left; reflexivity.
  - destruct (memb x inb) eqn:Ei; [apply IH; assumption|].
    destruct (memb x sn) eqn:Es; [apply IH; assumption|].
    destruct (N.eq_dec x t) as [->|Hne]; [left; reflexivity|]. right.
    apply IH; auto. apply memb_false. apply memb_false in Hi. intros [E|D]; [exact (Hne E)|exact (Hi D)].
Qed.

Lemma select_nodup sn l : forall inb, NoDup (select sn inb l).
Proof.
  induction l as [|x l IH]; intros inb; cbn; [constructor|].
  destruct (memb x inb); [apply IH|]. destruct (memb x sn); [apply IH|].
  constructor; [|apply IH]. intros H. apply select_sound in H as (_ & _ & C).
  apply memb_false in C. apply C. left; reflexivity.
Qed.

Lemma NoDup_app_iff {A} (a b : list A) : NoDup (a ++ b) <-> NoDup a /\ NoDup b /\ (forall x, In x a -> ~ In x b).
Proof.
  induction a as [|x a IH]; cbn.
  - split; [intros H; repeat split; auto; constructor | intros (_ & H & _); exact H].
  - split.
    + intros H. inversion H as [|? ? Hn Hd]; subst. apply IH in Hd as (Ha & Hb & Hc).
      repeat split; auto.
      * constructor; auto. intros Hi. apply Hn. apply in_or_app; left; exact Hi.
      * intros y [<-|Hy]; [intros Hi; apply Hn; apply in_or_app; right; exact Hi | apply Hc; exact Hy].
    + intros (Ha & Hb & Hc). inversion Ha as [|? ? Hn Hd]; subst. constructor.
      * intros Hi. apply in_app_or in Hi as [Hi|Hi]; [exact (Hn Hi) | exact (Hc x (or_introl eq_refl) Hi)].
      * apply IH. repeat split; auto.
Qed.

(* subsequence (order kept) *)
Inductive Subseq {A} : list A -> list A -> Prop :=
| Subseq_nil : Subseq [] []
| Subseq_skip l r x : Subseq l r -> Subseq l (x :: r)
| Subseq_keep l r x : Subseq l r -> Subseq (x :: l) (x :: r).

Lemma Subseq_snoc_skip {A} (l r : list A) x : Subseq l r -> Subseq l (r ++ [x]).
Proof. induction 1; cbn; [apply Subseq_skip, Subseq_nil | apply Subseq_skip; assumption | apply Subseq_keep; assumption]. Qed.

Lemma Subseq_snoc_keep {A} (l r : list A) x : Subseq l r -> Subseq (l ++ [x]) (r ++ [x]).
Proof. induction 1; cbn; [apply Subseq_keep, Subseq_nil | apply Subseq_skip; assumption | apply Subseq_keep; assumption]. Qed.

Lemma Subseq_refl {A} (l : list A) : Subseq l l.
Proof. induction l; [constructor | apply Subseq_keep; assumption]. Qed.

Lemma Subseq_nil_l {A} (r : list A) : Subseq [] r.
Proof. induction r; [constructor | apply Subseq_skip; assumption]. Qed.

Lemma Subseq_app_l {A} (a b r : list A) : Subseq (a ++ b) r -> Subseq a r.
Proof.
  remember (a ++ b) as l eqn:E. intros H. revert a b E.
  induction H as [| l r x H IH | l r x H IH]; intros a b E.
  - destruct a; [constructor | discriminate].
  - apply Subseq_skip. eapply IH; exact E.
  - destruct a as [|y a]; [apply Subseq_nil_l|]. cbn in E. inversion E; subst.
    apply Subseq_keep. eapply IH; reflexivity.
Qed.

Definition nonempty (b : list tx) : bool := match b with [] => false | _ => true end.

Lemma filter_firstn_prefix {A} (f : A -> bool) (l : list A) n : exists r, filter f l = filter f (firstn n l) ++ r.
Proof. exists (filter f (skipn n l)). rewrite <- filter_app, firstn_skipn. reflexivity. Qed.

(* ---- (2) the abstract transition system ------------------------------------------------------------------- *)
Record abs := mk_abs {
  aB : list (list tx);      (* contents of the block records, by height *)
  aQ : list batch;          (* the queue *)
  aZ : list batch;          (* stale queue records: handed out, their Delete failed *)
  aS : list tx;             (* the seen-set *)
  aM : list tx;             (* the mempool *)
  aT : list tx;             (* taken *)
  aR : list batch           (* released *)
}.

Definition absf (s : st) : abs := mk_abs (block_txs s) (queue s) (stale s) (seen s) (mem s) (taken s) (released s).

(* fl: the lossy transition may be used; fc: the traces of a crash or of a write fault may appear — a hand-off
   with only some of its marks, a record kept although its batch was handed out *)
Inductive tr (fl fc : bool) : abs -> abs -> Prop :=
| t_arrive B Q Z S M T R t : tr fl fc (mk_abs B Q Z S M T R) (mk_abs B Q Z S (M ++ [t]) T R)
| t_take B Q Z S M T R : tr fl fc (mk_abs B Q Z S M T R) (mk_abs B Q Z S M (T ++ M) R)
| t_put B Q Z S M T R n p : n = select S [] M -> n <> [] -> (forall x, In x p -> In x n) -> (fc = false -> p = n) ->
    tr fl fc (mk_abs B Q Z S M T R) (mk_abs B (Q ++ [n]) Z (rev p ++ S) M T R)
| t_keep B Q Z S M T R b : fc = true -> In b Q -> tr fl fc (mk_abs B Q Z S M T R) (mk_abs B Q (Z ++ [b]) S M T R)
| t_requeue B Q Z S M T R : tr fl fc (mk_abs B Q Z S M T R) (mk_abs B (Z ++ Q) [] S M T R)
| t_drop B Q Z S M T R b : fl = true -> tr fl fc (mk_abs B (b :: Q) Z S M T R) (mk_abs B Q Z S M T (R ++ [b]))
| t_move B Q Z S M T R b : tr fl fc (mk_abs B (b :: Q) Z S M T R) (mk_abs (B ++ [b]) Q Z S M T (R ++ [b]))
| t_empty B Q Z S M T R : tr fl fc (mk_abs B Q Z S M T R) (mk_abs (B ++ [[]]) Q Z S M T R)
| t_exec B Q Z S M T R x : In x B -> tr fl fc (mk_abs B Q Z S M T R) (mk_abs B Q Z S (filter (fun t => negb (memb t x)) M) T R).

Inductive star (fl fc : bool) : abs -> abs -> Prop :=
| star_refl a : star fl fc a a
| star_step a b c : tr fl fc a b -> star fl fc b c -> star fl fc a c.

Lemma star_one fl fc a b : tr fl fc a b -> star fl fc a b.
Proof. intros H. eapply star_step; [exact H | apply star_refl]. Qed.

Lemma star_trans fl fc a b c : star fl fc a b -> star fl fc b c -> star fl fc a c.
Proof. induction 1; intros; [assumption | eapply star_step; eauto]. Qed.

Lemma tr_weaken fl fc fl' fc' a b : (fl = true -> fl' = true) -> (fc = true -> fc' = true) -> tr fl fc a b -> tr fl' fc' a b.
Proof.
  intros Hl Hc H. destruct H; try (constructor; auto; fail).
  apply t_put; auto. intros E. destruct fc; [specialize (Hc eq_refl); congruence | auto].
Qed.

Lemma star_weaken fl fc fl' fc' a b : (fl = true -> fl' = true) -> (fc = true -> fc' = true) -> star fl fc a b -> star fl' fc' a b.
Proof. intros Hl Hc. induction 1; [apply star_refl | eapply star_step; [eapply tr_weaken; eauto | assumption]]. Qed.

Lemma star_inv (P : abs -> Prop) fl fc : (forall a b, tr fl fc a b -> P a -> P b) -> forall a b, star fl fc a b -> P a -> P b.
Proof. intros H a b S. induction S; auto. intros; apply IHS. eapply H; eauto. Qed.

(* -- no loss (without the lossy transition; crashes and write faults allowed) -- *)
Definition stored (a : abs) (t : tx) : Prop := In t (concat (aB a)) \/ In t (concat (aQ a)).

Definition Pinv (a : abs) : Prop :=
  (forall t, In t (aT a) -> stored a t \/ (In t (aM a) /\ memb t (aS a) = false)) /\
  (forall t, In t (aS a) -> stored a t).

Lemma Pinv_tr fc a b : tr false fc a b -> Pinv a -> Pinv b.
Proof.
  intros H [Ha Hb]. destruct H; unfold Pinv, stored in *; cbn [aB aQ aZ aS aM aT aR] in *.
  - (* arrive *) split; [|exact Hb]. intros x Hx. destruct (Ha x Hx) as [?|[? ?]]; auto with datatypes.
  - (* take *) split; [|exact Hb]. intros x Hx. apply in_app_or in Hx as [Hx|Hx]; [auto|].
    destruct (memb x S) eqn:E; [left; apply Hb; apply memb_in; exact E | right; auto].
  - (* put *)
    assert (Hq : forall x, In x n -> In x (concat (Q ++ [n]))).
    { intros x Hx. rewrite concat_app. apply in_or_app; right. cbn. rewrite app_nil_r. exact Hx. }
    assert (Hm : forall x, In x (concat Q) -> In x (concat (Q ++ [n]))).
    { intros x Hx. rewrite concat_app. apply in_or_app; left; exact Hx. }
    split.
    + intros x Hx. destruct (Ha x Hx) as [[?|?]|[Hi Hu]]; [auto | auto |].
      destruct (memb x (rev p ++ S)) eqn:E; [|right; auto].
      left; right. apply memb_in in E. apply in_app_or in E as [E|E].
      * apply Hq. apply H1. apply in_rev; exact E.
      * apply memb_false in Hu. contradiction.
    + intros x Hx. apply in_app_or in Hx as [Hx|Hx].
      * right. apply Hq. apply H1. apply in_rev; exact Hx.
      * destruct (Hb x Hx); auto.
  - (* keep *) split; assumption.
  - (* requeue *)
    assert (Hm : forall x, In x (concat Q) -> In x (concat (Z ++ Q))).
    { intros x Hx. rewrite concat_app. apply in_or_app; right; exact Hx. }
    split.
    + intros x Hx. destruct (Ha x Hx) as [[?|?]|?]; auto.
    + intros x Hx. destruct (Hb x Hx); auto.
  - discriminate.
  - (* move *)
    assert (Hs : forall x, In x (concat B) \/ In x (concat (b :: Q)) -> In x (concat (B ++ [b])) \/ In x (concat Q)).
    { intros x [Hx|Hx].
      - left. rewrite concat_app. apply in_or_app; left; exact Hx.
      - cbn in Hx. apply in_app_or in Hx as [Hx|Hx]; [|auto].
        left. rewrite concat_app. apply in_or_app; right. cbn. rewrite app_nil_r. exact Hx. }
    split.
    + intros x Hx. destruct (Ha x Hx) as [?|?]; auto.
    + intros x Hx. auto.
  - (* empty block *)
    assert (E : concat (B ++ [[]]) = concat B) by (rewrite concat_app; cbn; rewrite app_nil_r; reflexivity).
    rewrite E. split; assumption.
  - (* exec *)
    split; [|exact Hb]. intros y Hy. destruct (Ha y Hy) as [?|[Hi Hu]]; [auto|].
    destruct (memb y x) eqn:E.
    + left; left. apply in_concat. exists x. split; [assumption | apply memb_in; exact E].
    + right. split; [|exact Hu]. apply filter_In. split; [exact Hi | rewrite E; reflexivity].
Qed.

(* -- order: the non-empty block contents are released batches, in release order; without the lossy transition
      they are exactly the released batches -- *)
Definition Qne (a : abs) : Prop := forall b, In b (aQ a) \/ In b (aZ a) -> b <> [].

Lemma Qne_tr fl fc a b : tr fl fc a b -> Qne a -> Qne b.
Proof.
  intros H Hq. destruct H; unfold Qne in *; cbn [aQ aZ] in *; auto with datatypes.
  - (* put *) intros b [Hb|Hb]; [|auto]. apply in_app_or in Hb as [Hb|[<-|[]]]; auto.
  - (* keep *) intros b0 [Hb|Hb]; [auto|]. apply in_app_or in Hb as [Hb|[<-|[]]]; auto.
  - (* requeue *) intros b [Hb|[]]. apply in_app_or in Hb as [Hb|Hb]; auto.
  - intros b0 [Hb|Hb]; auto with datatypes.
  - intros b0 [Hb|Hb]; auto with datatypes.
Qed.

Definition Oinv (a : abs) : Prop := Qne a /\ Subseq (filter nonempty (aB a)) (aR a).
Definition Oeq (a : abs) : Prop := Qne a /\ filter nonempty (aB a) = aR a.

Lemma filter_snoc_ne B (b : list tx) : b <> [] -> filter nonempty (B ++ [b]) = filter nonempty B ++ [b].
Proof. intros H. rewrite filter_app. cbn. destruct b; [congruence | reflexivity]. Qed.

Lemma filter_snoc_empty B : filter nonempty (B ++ [[]]) = filter nonempty B.
Proof. rewrite filter_app. cbn. apply app_nil_r. Qed.

Lemma Oinv_tr fl fc a b : tr fl fc a b -> Oinv a -> Oinv b.
Proof.
  intros H [Hq Hs]. split; [eapply Qne_tr; eauto|].
  destruct H; cbn [aB aR aQ aZ] in *; auto.
  - apply Subseq_snoc_skip; assumption.
  - rewrite filter_snoc_ne by (apply Hq; left; left; reflexivity). apply Subseq_snoc_keep; assumption.
  - rewrite filter_snoc_empty; assumption.
Qed.

Lemma Oeq_tr fc a b : tr false fc a b -> Oeq a -> Oeq b.
Proof.
  intros H [Hq Hs]. split; [eapply Qne_tr; eauto|].
  destruct H; cbn [aB aR aQ aZ] in *; auto.
  - discriminate.
  - rewrite filter_snoc_ne by (apply Hq; left; left; reflexivity). rewrite Hs; reflexivity.
  - rewrite filter_snoc_empty; assumption.
Qed.

(* -- no duplicates (without the traces of crashes and write faults; the lossy transition allowed) -- *)
Definition Dinv (a : abs) : Prop :=
  NoDup (concat (aB a) ++ concat (aQ a)) /\ (forall t, In t (concat (aB a) ++ concat (aQ a)) -> In t (aS a)) /\ aZ a = [].

Lemma Dinv_tr fl a b : tr fl false a b -> Dinv a -> Dinv b.
Proof.
  intros H (Hn & Hs & Hz). destruct H; unfold Dinv in *; cbn [aB aQ aZ aS] in *; auto.
  - (* put: p = n *)
    rewrite (H2 eq_refl) in *.
    rewrite concat_app, app_assoc. cbn [concat]. rewrite app_nil_r. split; [|split; [|exact Hz]].
    + apply NoDup_app_iff. repeat split.
      * exact Hn.
      * rewrite H. apply select_nodup.
      * intros x Hx Hp. rewrite H in Hp. apply select_sound in Hp as (_ & Hu & _).
        apply memb_false in Hu. apply Hu, Hs, Hx.
    + intros x Hx. apply in_or_app. apply in_app_or in Hx as [Hx|Hx]; [right; apply Hs; exact Hx | left; apply in_rev in Hx; exact Hx].
  - (* keep *) discriminate.
  - (* requeue: nothing is stale *) subst Z. cbn [app]. auto.
  - (* drop *)
    cbn [concat] in *. split; [|split; [|exact Hz]].
    + apply NoDup_app_iff in Hn as (H1 & H2 & H3). apply NoDup_app_iff in H2 as (H4 & H5 & H6).
      apply NoDup_app_iff. repeat split; auto. intros x Hx Hy. apply (H3 x Hx). apply in_or_app; right; exact Hy.
    + intros x Hx. apply Hs. apply in_app_or in Hx as [Hx|Hx]; apply in_or_app; [left; exact Hx | right; apply in_or_app; right; exact Hx].
  - (* move *)
    assert (E : concat (B ++ [b]) ++ concat Q = concat B ++ concat (b :: Q)).
    { rewrite concat_app. cbn. rewrite app_nil_r, app_assoc. reflexivity. }
    rewrite E. auto.
  - (* empty *)
    assert (E : concat (B ++ [[]]) = concat B) by (rewrite concat_app; cbn; rewrite app_nil_r; reflexivity).
    rewrite E. auto.
Qed.

(* ---- (3) the shape invariant of the concrete model and the refinement ------------------------------------------ *)
(* durable part: (state height, store height, number of block records) is (n, n, n), (n, n, n+1) [a block saved
   above the store height] or (n+1, n, n+1) [died between the state write and the height write]; before the first
   commit only the genesis block exists *)
Definition dshape (s : st) : Prop :=
  ((sh s = th s /\ (length (blocks s) = th s \/ length (blocks s) = S (th s))) \/
   (sh s = S (th s) /\ length (blocks s) = S (th s))) /\
  (sh s = 0 -> forall x, In x (block_txs s) -> x = []).
(* a running node has, before the first commit, saved the genesis block (its state height is its store height, or —
   after a failed store-height write — one above: [dshape]) *)
Definition ushape (s : st) : Prop := up s = true -> th s = 0 -> length (blocks s) = 1.
Definition shape (s : st) : Prop := dshape s /\ ushape s.

Lemma apply_acts_app s a b : apply_acts s (a ++ b) = apply_acts (apply_acts s a) b.
Proof. unfold apply_acts. apply fold_left_app. Qed.

Lemma apply_acts_cons s a l : apply_acts s (a :: l) = apply_acts (apply_act s a) l.
Proof. reflexivity. Qed.

(* the part of a state the abstraction does not see can change freely *)
Definition same_abs (s1 s2 : st) : Prop :=
  block_txs s2 = block_txs s1 /\ queue s2 = queue s1 /\ stale s2 = stale s1 /\ seen s2 = seen s1 /\ taken s2 = taken s1 /\ released s2 = released s1.

(* the commit tail on a state whose last block record is the block of the next height *)
Lemma tail_effect s1 l pb t k e :
  blocks s1 = l ++ [pb] -> length l = th s1 -> sh s1 = th s1 ->
  let L := commit_tail (S (th s1)) (b_txs pb) t in
  let s2 := apply_acts s1 (cut k e L) in
  same_abs s1 s2 /\ up s2 = up s1 /\
  (mem s2 = mem s1 \/ mem s2 = filter (fun x => negb (memb x (b_txs pb))) (mem s1)) /\
  length (blocks s2) = S (th s1) /\
  ((sh s2 = th s1 /\ th s2 = th s1) \/ (sh s2 = S (th s1) /\ th s2 = th s1) \/ (sh s2 = S (th s1) /\ th s2 = S (th s1))) /\
  (cut k e L = L -> sh s2 = S (th s1) /\ th s2 = S (th s1)).
Proof.
  intros Hb Hl Hs L s2. subst L s2. unfold commit_tail, same_abs, block_txs.
  assert (Hlen : length (blocks s1) = S (th s1)) by (rewrite Hb, app_length; cbn; lia).
  assert (Hset : forall sg, set_nth (th s1) {| b_txs := b_txs pb; b_time := t; b_signed := sg |} (blocks s1) = l ++ [{| b_txs := b_txs pb; b_time := t; b_signed := sg |}]).
  { intros sg. rewrite Hb, <- Hl. apply set_nth_last. }
  assert (Hmap : forall sg, map b_txs (l ++ [{| b_txs := b_txs pb; b_time := t; b_signed := sg |}]) = map b_txs (blocks s1)).
  { intros sg. rewrite Hb, !map_app. reflexivity. }
  assert (Hlen2 : forall sg, length (l ++ [{| b_txs := b_txs pb; b_time := t; b_signed := sg |}]) = S (th s1)).
  { intros sg. rewrite app_length; cbn; lia. }
  destruct k as [|[|[|k]]]; destruct e; cbn [cut apply_acts fold_left apply_act apply_wr pred
      set_mem set_blocks set_sh set_th up mem seen queue stale blocks sh th taken released];
    rewrite ?Hset, ?Hmap, ?Hlen2;
    repeat split; auto; try lia; try discriminate; try (intros E; discriminate E).
Qed.

Lemma same_abs_star fl fc s1 s2 x :
  same_abs s1 s2 -> (mem s2 = mem s1 \/ mem s2 = filter (fun t => negb (memb t x)) (mem s1)) -> In x (block_txs s1) ->
  star fl fc (absf s1) (absf s2).
Proof.
  intros (H1 & H2 & H2' & H3 & H4 & H5) Hm Hx. unfold absf. rewrite H1, H2, H2', H3, H4, H5.
  destruct Hm as [->| ->]; [apply star_refl | apply star_one, t_exec, Hx].
Qed.

Lemma in_block_txs_last l (pb : blk) : In (b_txs pb) (map b_txs (l ++ [pb])).
Proof. rewrite map_app. apply in_or_app; right; left; reflexivity. Qed.

(* what tail_effect gives, packaged for a state s1 reached from s by a first segment of the action *)
Lemma tail_wrap fl s s1 l pb t k e :
  blocks s1 = l ++ [pb] -> length l = th s1 -> sh s1 = th s1 ->
  (sh s1 = 0 -> forall x, In x (block_txs s1) -> x = []) ->
  star fl false (absf s) (absf s1) ->
  let L := commit_tail (S (th s1)) (b_txs pb) t in
  let s2 := apply_acts s1 (cut k e L) in
  dshape s2 /\ up s2 = up s1 /\ star fl false (absf s) (absf s2) /\
  (th s2 = 0 -> length (blocks s2) = 1).
Proof.
  intros Hb Hl Hs H0 Hst L s2.
  destruct (tail_effect s1 l pb t k e Hb Hl Hs) as (Hsame & Hup & Hm & Hlen & Hcomb & Hfull).
  fold L in Hsame, Hup, Hm, Hlen, Hcomb, Hfull. fold s2 in Hsame, Hup, Hm, Hlen, Hcomb, Hfull.
  repeat split.
  - destruct Hcomb as [[A B]|[[A B]|[A B]]]; rewrite A, B, Hlen; [left | right | left]; split; auto.
  - intros Z x Hx. destruct Hsame as (Hbt & _). rewrite Hbt in Hx. apply H0; [|exact Hx].
    destruct Hcomb as [[A B]|[[A B]|[A B]]]; lia.
  - exact Hup.
  - eapply star_trans; [exact Hst|]. eapply same_abs_star; [exact Hsame | exact Hm |].
    unfold block_txs. rewrite Hb. apply in_block_txs_last.
  - intros Z. destruct Hcomb as [[A B]|[[A B]|[A B]]]; lia.
Qed.

Ltac quad := split; [|split; [|split]].

Lemma lossy_block_in l : has_block l = true -> lossy l = false.
Proof. unfold lossy. intros ->. apply andb_false_r. Qed.

Lemma produce_effect ts s k e :
  shape s -> up s = true ->
  let L := fst (produce_acts ts s) in
  let c := cut k e L in
  let s2 := apply_acts s c in
  dshape s2 /\ up s2 = true /\ star (lossy c) false (absf s) (absf s2) /\
  (th s2 = 0 -> length (blocks s2) = 1).
Proof.
  intros [[Hd H0] Hu] Hup L c s2. specialize (Hu Hup) as Hg. subst s2 c L.
  assert (Hsame0 : dshape s) by (split; assumption).
  destruct (Nat.eqb_spec (sh s) (th s)) as [Hsh|Hne].
  2:{ (* the state record is above the store height (a failed store-height write): the pending block is executed,
         then refused *)
    assert (Hs : sh s = S (th s) /\ length (blocks s) = S (th s)) by (destruct Hd as [[? _]|[? ?]]; [contradiction | split; assumption]).
    destruct Hs as [Hs Hlen].
    destruct (list_snoc_of_length _ _ Hlen) as (l & pb & Hb & Hl).
    assert (Ep : nth_error (blocks s) (th s) = Some pb) by (rewrite Hb, <- Hl; apply nth_error_snoc).
    assert (Elt : exists lt, (match th s with
         | O => Some None
         | S k => match nth_error (blocks s) k with Some b => Some (Some (b_time b)) | None => None end
         end) = Some lt).
    { destruct (th s) as [|n] eqn:Eth; [eexists; reflexivity|].
      destruct (nth_error (blocks s) n) eqn:E0; [eexists; reflexivity | apply nth_error_None in E0; lia]. }
    unfold produce_acts. cbv zeta. destruct Elt as [lt ->]. rewrite Ep.
    destruct (Nat.eqb_spec (sh s) (th s)) as [?|_]; [contradiction|]. cbn [fst].
    assert (Hx : In (b_txs pb) (block_txs s)) by (unfold block_txs; rewrite Hb; apply in_block_txs_last).
    assert (Hl0 : forall c, c = [] \/ c = [AExec (b_txs pb)] -> lossy c = false) by (intros c0 [->| ->]; reflexivity).
    assert (Hc : cut k e [AExec (b_txs pb)] = [] \/ cut k e [AExec (b_txs pb)] = [AExec (b_txs pb)])
      by (destruct k; destruct e; cbn; auto).
    rewrite (Hl0 _ Hc). destruct Hc as [-> | ->]; cbn [apply_acts fold_left apply_act].
    - quad; [exact Hsame0 | exact Hup | apply star_refl | exact Hg].
    - quad; [exact Hsame0 | exact Hup | | exact Hg].
      apply star_one. unfold absf. cbn [block_txs blocks queue stale seen mem taken released set_mem]. apply t_exec. exact Hx. }
  assert (Hlen : length (blocks s) = th s \/ length (blocks s) = S (th s)) by (destruct Hd as [[_ ?]|[? _]]; [assumption | lia]).
  unfold produce_acts. cbv zeta. rewrite (proj2 (Nat.eqb_eq (sh s) (th s)) Hsh).
  destruct Hlen as [Hlen|Hlen].
  - (* no block above the store height *)
    destruct (th s) as [|n] eqn:Eth; [specialize (Hg eq_refl); lia|].
    destruct (nth_error (blocks s) n) as [b0|] eqn:E0; [|apply nth_error_None in E0; lia].
    destruct (nth_error (blocks s) (S n)) as [pb|] eqn:E1; [assert (nth_error (blocks s) (S n) <> None) as X by congruence; apply nth_error_Some in X; lia|].
    assert (Hnz : th s = 0 -> length (blocks s) = 1) by (intros Z; lia).
    destruct (queue s) as [|b q] eqn:Eq.
    + (* empty queue *)
      destruct (before ts (Some (b_time b0))).
      * (* skipped *)
        cbn [fst]. destruct k; cbn [cut apply_acts fold_left apply_act apply_wr];
          (quad; [exact Hsame0 | exact Hup | apply star_refl | exact Hnz]).
      * cbn [fst]. destruct k as [|[|k]].
        -- cbn [cut apply_acts fold_left]. quad; [exact Hsame0 | exact Hup | apply star_refl | exact Hnz].
        -- cbn [cut apply_acts fold_left apply_act apply_wr]. quad; [exact Hsame0 | exact Hup | apply star_refl | exact Hnz].
        -- cbn [cut]. rewrite !apply_acts_cons. cbn [apply_act apply_wr pred].
           set (eb := {| b_txs := []; b_time := ts; b_signed := false |}).
           set (s1 := set_blocks (set_nth (S n) eb (blocks s)) s).
           assert (Hb1 : blocks s1 = blocks s ++ [eb]) by (subst s1; cbn [blocks set_blocks]; rewrite <- Hlen; apply set_nth_length).
           assert (Hlossy : lossy (AW WMeta :: AW (WBlock (S (S n)) [] ts false) :: cut k e (commit_tail (S (S n)) [] ts)) = false) by (apply lossy_block_in; reflexivity).
           rewrite Hlossy.
           assert (Et : th s1 = S n) by (subst s1; cbn; lia).
           destruct (tail_wrap false s s1 (blocks s) eb ts k e Hb1) as (A & B & C & D).
           { rewrite Et; exact Hlen. } { rewrite Et; subst s1; cbn; lia. } { subst s1; cbn; intros; lia. }
           { apply star_one. unfold absf, block_txs. subst s1; cbn [blocks queue stale seen mem taken released set_blocks].
             rewrite <- Hlen, set_nth_length, map_app. cbn. apply t_empty. }
           rewrite Et in A, B, C, D. cbn [b_txs eb] in A, B, C, D.
           quad; [exact A | rewrite B; subst s1; exact Hup | exact C | exact D].
    + (* a batch is queued *)
      destruct (before ts (Some (b_time b0))).
      * (* F12: released, then an error *)
        cbn [fst]. destruct k as [|[|k]]; cbn [cut apply_acts fold_left apply_act apply_wr].
        -- quad; [exact Hsame0 | exact Hup | apply star_refl | exact Hnz].
        -- quad; [exact Hsame0 | exact Hup | | exact Hnz].
           unfold absf, block_txs. cbn. rewrite Eq. apply star_one, t_drop. reflexivity.
        -- quad; [exact Hsame0 | exact Hup | | exact Hnz].
           unfold absf, block_txs. cbn. rewrite Eq. apply star_one, t_drop. reflexivity.
      * cbn [fst]. destruct k as [|[|[|k]]].
        -- cbn [cut apply_acts fold_left]. quad; [exact Hsame0 | exact Hup | apply star_refl | exact Hnz].
        -- cbn [cut apply_acts fold_left apply_act apply_wr]. quad; [exact Hsame0 | exact Hup | | exact Hnz].
           unfold absf, block_txs. cbn. rewrite Eq. apply star_one, t_drop. reflexivity.
        -- cbn [cut apply_acts fold_left apply_act apply_wr]. quad; [exact Hsame0 | exact Hup | | exact Hnz].
           unfold absf, block_txs. cbn. rewrite Eq. apply star_one, t_drop. reflexivity.
        -- cbn [cut]. rewrite !apply_acts_cons. cbn [apply_act apply_wr pred].
           set (eb := {| b_txs := b; b_time := ts; b_signed := false |}).
           set (s0 := set_released (released s ++ [b]) (set_queue (tl (queue s)) s)).
           set (s1 := set_blocks (set_nth (S n) eb (blocks s0)) s0).
           assert (Hb1 : blocks s1 = blocks s ++ [eb]) by (subst s1 s0; cbn [blocks set_blocks set_released set_queue]; rewrite <- Hlen; apply set_nth_length).
           assert (Hlossy : lossy (AW (WQDel b) :: AW WMeta :: AW (WBlock (S (S n)) b ts false) :: cut k e (commit_tail (S (S n)) b ts)) = false) by (apply lossy_block_in; reflexivity).
           rewrite Hlossy.
           assert (Et : th s1 = S n) by (subst s1 s0; cbn; lia).
           destruct (tail_wrap false s s1 (blocks s) eb ts k e Hb1) as (A & B & C & D).
           { rewrite Et; exact Hlen. } { rewrite Et; subst s1 s0; cbn; lia. } { subst s1 s0; cbn; intros; lia. }
           { apply star_one. unfold absf, block_txs. subst s1 s0; cbn [blocks queue stale seen mem taken released set_blocks set_released set_queue].
             rewrite <- Hlen, set_nth_length, map_app, Eq. cbn. apply t_move. }
           rewrite Et in A, B, C, D. cbn [b_txs eb] in A, B, C, D.
           quad; [exact A | rewrite B; subst s1 s0; exact Hup | exact C | exact D].
  - (* the block of the next height is already stored: it is re-used *)
    destruct (list_snoc_of_length _ _ Hlen) as (l & pb & Hb & Hl).
    assert (Ep : nth_error (blocks s) (th s) = Some pb) by (rewrite Hb, <- Hl; apply nth_error_snoc).
    assert (Elt : exists lt, (match th s with
         | O => Some None
         | S k => match nth_error (blocks s) k with Some b => Some (Some (b_time b)) | None => None end
         end) = Some lt).
    { destruct (th s) as [|n] eqn:Eth; [eexists; reflexivity|].
      destruct (nth_error (blocks s) n) eqn:E0; [eexists; reflexivity | apply nth_error_None in E0; lia]. }
    destruct Elt as [lt ->]. rewrite Ep. cbn [fst].
    assert (Hlossy : lossy (cut k e (commit_tail (S (th s)) (b_txs pb) (b_time pb))) = false).
    { unfold commit_tail. destruct k as [|[|[|k]]]; destruct e; reflexivity. }
    rewrite Hlossy.
    destruct (tail_wrap false s s l pb (b_time pb) k e Hb Hl Hsh) as (A & B & C & D).
    { intros Z. apply H0. exact Z. } { apply star_refl. }
    quad; [exact A | rewrite B; exact Hup | exact C | exact D].
Qed.

Lemma cut_writes k e ws : cut k e (map AW ws) = map AW (firstn k ws).
Proof. revert k. induction ws as [|w ws IH]; intros [|k]; cbn; try reflexivity. rewrite IH; reflexivity. Qed.

Lemma produce_acts_full ts s : cut 10 true (fst (produce_acts ts s)) = fst (produce_acts ts s).
Proof.
  unfold produce_acts.
  destruct (match th s with O => Some None | S k => match nth_error (blocks s) k with Some b => Some (Some (b_time b)) | None => None end end);
    [|reflexivity].
  destruct (nth_error (blocks s) (th s)); [destruct (sh s =? th s); reflexivity|].
  destruct (queue s); destruct (before ts o); reflexivity.
Qed.

Lemma seen_marks p : forall s, apply_acts s (map (fun t => AW (WSeen t)) p) = set_seen (rev p ++ seen s) s.
Proof.
  induction p as [|t p IH]; intros s.
  - destruct s; reflexivity.
  - cbn [map]. rewrite apply_acts_cons. cbn [apply_act apply_wr]. rewrite IH.
    cbn [seen set_seen rev]. rewrite <- app_assoc. reflexivity.
Qed.

Lemma has_del_marks p : has_del (map (fun t => AW (WSeen t)) p) = false.
Proof. induction p; [reflexivity | exact IHp]. Qed.

Lemma has_del_app a b : has_del (a ++ b) = has_del a || has_del b.
Proof. apply existsb_app. Qed.

Lemma has_block_app a b : has_block (a ++ b) = has_block a || has_block b.
Proof. apply existsb_app. Qed.

(* ---- write faults: what [fault] does, in terms of the write it hits -------------------------------------------- *)
Lemma fault_none L : forall k, nth_error (writes_of L) k = None -> fault k L = (L, false).
Proof.
  induction L as [|[w|x] L IH]; intros k H; cbn [fault writes_of] in *.
  - reflexivity.
  - destruct k as [|k]; [discriminate|]. cbn [nth_error] in H. rewrite (IH k H). reflexivity.
  - rewrite (IH k H). reflexivity.
Qed.

Lemma fault_at L : forall k w, nth_error (writes_of L) k = Some w ->
  exists pre post, L = pre ++ AW w :: post /\ cut k true L = pre /\
    fault k L = if swallowed w then (pre ++ AW (WFail w) :: post, false) else (pre ++ [AW (WFail w)], true).
Proof.
  induction L as [|[w0|x] L IH]; intros k w H; cbn [writes_of] in H.
  - destruct k; discriminate.
  - destruct k as [|k].
    + injection H as <-. exists [], L. cbn [app cut fault]. split; [reflexivity | split; [reflexivity|]].
      destruct (swallowed w0); reflexivity.
    + cbn [nth_error] in H. destruct (IH k w H) as (pre & post & E1 & E2 & E3).
      exists (AW w0 :: pre), post. cbn [cut fault]. rewrite E2, E3. split; [cbn [app]; f_equal; exact E1 | split; [reflexivity|]].
      destruct (swallowed w); reflexivity.
  - destruct (IH k w H) as (pre & post & E1 & E2 & E3).
    exists (AExec x :: pre), post. cbn [fault]. rewrite E3. split; [cbn [app]; f_equal; exact E1 | split].
    + destruct k; cbn [cut]; rewrite E2; reflexivity.
    + destruct (swallowed w); reflexivity.
Qed.

(* a write error that is returned leaves no trace of the attempt *)
Lemma fail_noop w s : swallowed w = false -> apply_wr s (WFail w) = s.
Proof. destruct w; cbn; intros H; try discriminate H; reflexivity. Qed.

Lemma lossy_swap pre post a a' :
  is_del a = is_del a' ->
  (match a with AW (WBlock _ _ _ _) => true | _ => false end) = (match a' with AW (WBlock _ _ _ _) => true | _ => false end) ->
  lossy (pre ++ a :: post) = lossy (pre ++ a' :: post).
Proof.
  intros H1 H2. unfold lossy, has_del, has_block. rewrite !existsb_app. cbn [existsb]. rewrite H1, H2. reflexivity.
Qed.

Lemma lossy_trunc pre w : swallowed w = false -> lossy (pre ++ [AW (WFail w)]) = lossy pre.
Proof.
  intros H. unfold lossy. rewrite has_del_app, has_block_app. cbn.
  destruct w; try discriminate H; cbn; rewrite !orb_false_r; reflexivity.
Qed.

Lemma apply_trunc s pre w : swallowed w = false -> apply_acts s (pre ++ [AW (WFail w)]) = apply_acts s pre.
Proof. intros H. rewrite apply_acts_app. cbn [apply_acts fold_left apply_act]. apply fail_noop; exact H. Qed.

Lemma fault_acts_fst max gt s a k : fst (fault_acts_of max gt s a k) = fst (fault k (fst (acts_of max gt s a))).
Proof. unfold fault_acts_of. destruct (acts_of max gt s a) as [l c]. cbn [fst]. destruct (fault k l); reflexivity. Qed.

(* the record of a handed-out batch that stays: the same step from a state in which it is already listed as stale *)
Definition plain (a : act) : Prop := match a with AW (WFail _) => False | _ => True end.
Definition add_stale (b : batch) (s : st) : st := set_stale (stale s ++ [b]) s.

Lemma add_stale_act b a s : plain a -> apply_act (add_stale b s) a = add_stale b (apply_act s a).
Proof. destruct a as [w|x]; [destruct w|]; cbn; intros H; try contradiction; reflexivity. Qed.

Lemma add_stale_acts b l : Forall plain l -> forall s, apply_acts (add_stale b s) l = add_stale b (apply_acts s l).
Proof.
  induction 1 as [|a l Ha Hl IH]; intros s; [reflexivity|].
  rewrite !apply_acts_cons, add_stale_act by exact Ha. apply IH.
Qed.

Lemma fail_qdel b s : apply_wr s (WFail (WQDel b)) = apply_wr (add_stale b s) (WQDel b).
Proof. reflexivity. Qed.

Lemma dshape_add_stale b s : dshape (add_stale b s) <-> dshape s.
Proof. unfold dshape, block_txs. cbn. tauto. Qed.

Lemma produce_acts_wf ts s :
  Forall (fun a => plain a /\ (forall t, a <> AW (WSeen t)) /\ (forall b, a = AW (WQDel b) -> In b (queue s))) (fst (produce_acts ts s)).
Proof.
  assert (G : forall a, (match a with AW (WFail _) | AW (WSeen _) | AW (WQDel _) => False | _ => True end) ->
              plain a /\ (forall t, a <> AW (WSeen t)) /\ (forall b, a = AW (WQDel b) -> In b (queue s))).
  { intros [w|x]; [destruct w|]; cbn; intros H; try contradiction; repeat split; try discriminate. }
  unfold produce_acts. cbv zeta.
  destruct (match th s with O => Some None | S k => match nth_error (blocks s) k with Some b => Some (Some (b_time b)) | None => None end end);
    [|constructor].
  destruct (nth_error (blocks s) (th s)).
  { destruct (sh s =? th s); cbn [fst commit_tail]; repeat (constructor; [apply G; exact I|]); constructor. }
  destruct (queue s) as [|b q] eqn:Eq; destruct (before ts o); cbn [fst commit_tail].
  - repeat (constructor; [apply G; exact I|]); constructor.
  - repeat (constructor; [apply G; exact I|]); constructor.
  - constructor; [|repeat (constructor; [apply G; exact I|]); constructor].
    repeat split; try discriminate. intros b' E. injection E as <-. left; reflexivity.
  - constructor; [|repeat (constructor; [apply G; exact I|]); constructor].
    repeat split; try discriminate. intros b' E. injection E as <-. left; reflexivity.
Qed.

Lemma produce_fault_effect ts s k :
  shape s -> up s = true ->
  let c := fst (fault k (fst (produce_acts ts s))) in
  let s2 := apply_acts s c in
  dshape s2 /\ up s2 = true /\ star (lossy c) true (absf s) (absf s2) /\ (th s2 = 0 -> length (blocks s2) = 1).
Proof.
  intros Hs Hup c s2. subst s2 c.
  pose proof (produce_acts_wf ts s) as Hwf.
  assert (Hfull : forall s0, shape s0 -> up s0 = true ->
            let L := fst (produce_acts ts s0) in let s2 := apply_acts s0 L in
            dshape s2 /\ up s2 = true /\ star (lossy L) true (absf s0) (absf s2) /\ (th s2 = 0 -> length (blocks s2) = 1)).
  { intros s0 Hs0 Hup0. destruct (produce_effect ts s0 10 true Hs0 Hup0) as (A & B & C & D). cbn zeta in A, B, C, D.
    rewrite produce_acts_full in A, B, C, D. cbn zeta. quad; auto. eapply star_weaken; [| |exact C]; auto. }
  set (L := fst (produce_acts ts s)) in *.
  destruct (nth_error (writes_of L) k) as [w|] eqn:En.
  2:{ rewrite (fault_none L k En). cbn [fst]. apply (Hfull s Hs Hup). }
  destruct (fault_at L k w En) as (pre & post & E1 & E2 & E3). rewrite E3.
  destruct (swallowed w) eqn:Esw; cbn [fst].
  - (* the error is swallowed: the step goes on *)
    assert (Hin : In (AW w) L) by (rewrite E1; apply in_or_app; right; left; reflexivity).
    destruct (proj1 (Forall_forall _ _) Hwf _ Hin) as (_ & Hns & Hq).
    destruct w; try discriminate Esw.
    + (* the queue delete: the record stays *)
      assert (Hpl : Forall plain pre).
      { apply Forall_forall. intros a Ha. apply (proj1 (Forall_forall _ _) Hwf). rewrite E1. apply in_or_app; left; exact Ha. }
      assert (Eapp : apply_acts s (pre ++ AW (WFail (WQDel b)) :: post) = apply_acts (add_stale b s) L).
      { rewrite E1, !apply_acts_app, !apply_acts_cons. cbn [apply_act]. rewrite fail_qdel, add_stale_acts by exact Hpl. reflexivity. }
      rewrite Eapp.
      assert (El : lossy (pre ++ AW (WFail (WQDel b)) :: post) = lossy L) by (rewrite E1; apply lossy_swap; reflexivity).
      rewrite El.
      assert (Hs' : shape (add_stale b s)).
      { destruct Hs as [Hd Hu]. split; [apply dshape_add_stale; exact Hd | exact Hu]. }
      destruct (Hfull (add_stale b s) Hs' Hup) as (A & B & C & D). cbn zeta in A, B, C, D.
      change (fst (produce_acts ts (add_stale b s))) with L in A, B, C, D.
      quad; [exact A | exact B | | exact D].
      eapply star_step; [|exact C].
      unfold absf, block_txs, add_stale. cbn [blocks queue stale seen mem taken released set_stale].
      apply t_keep; [reflexivity | apply Hq; reflexivity].
    + (* the cursor write *)
      assert (Eapp : apply_acts s (pre ++ AW (WFail WMeta) :: post) = apply_acts s L).
      { rewrite E1, !apply_acts_app, !apply_acts_cons. reflexivity. }
      rewrite Eapp.
      assert (El : lossy (pre ++ AW (WFail WMeta) :: post) = lossy L) by (rewrite E1; apply lossy_swap; reflexivity).
      rewrite El. apply (Hfull s Hs Hup).
    + exfalso. exact (Hns t eq_refl).
  - (* the error is returned: the step ends there *)
    rewrite apply_trunc, lossy_trunc by exact Esw. rewrite <- E2.
    destruct (produce_effect ts s k true Hs Hup) as (A & B & C & D). cbn zeta in A, B, C, D. fold L in A, B, C, D.
    quad; auto. eapply star_weaken; [| |exact C]; auto.
Qed.

(* the hand-off: the batch is stored, then the transactions [p] of it are marked seen *)
Lemma reap_put fc s n p marks :
  up s = true -> n = select (seen s) [] (mem s) -> n <> [] -> (forall x, In x p -> In x n) -> (fc = false -> p = n) ->
  has_del marks = false ->
  (forall s', apply_acts s' marks = set_seen (rev p ++ seen s') s') ->
  let s1 := set_taken (taken s ++ mem s) s in
  let c := AW (WQPut n) :: marks in
  lossy c = false /\ blocks (apply_acts s1 c) = blocks s /\ sh (apply_acts s1 c) = sh s /\ th (apply_acts s1 c) = th s /\
  up (apply_acts s1 c) = true /\ star false fc (absf s) (absf (apply_acts s1 c)).
Proof.
  intros Hup En Hne Hp Hfc Hdel Hmarks s1 c. subst c. rewrite apply_acts_cons, Hmarks. cbn [apply_act apply_wr].
  split; [unfold lossy; cbn [has_del existsb is_del]; change (existsb is_del marks) with (has_del marks); rewrite Hdel; reflexivity|].
  subst s1. cbn [blocks sh th up set_seen set_queue set_taken seen queue]. repeat split; try exact Hup.
  eapply star_step; [unfold absf, block_txs; cbn; apply t_take|].
  apply star_one. unfold absf, block_txs.
  cbn [blocks queue stale seen mem taken released set_seen set_queue set_taken].
  apply t_put; assumption.
Qed.

Lemma firstn_incl {A} k (l : list A) x : In x (firstn k l) -> In x l.
Proof. intros H. rewrite <- (firstn_skipn k l). apply in_or_app; left; exact H. Qed.

Lemma reap_effect max s k e (crash : bool) :
  up s = true ->
  let L := reap_acts max s in
  let c := if crash then cut k e L else L in
  let s2 := apply_acts (pre s AReap) c in
  lossy c = false /\ blocks s2 = blocks s /\ sh s2 = sh s /\ th s2 = th s /\ up s2 = up s /\
  star false crash (absf s) (absf s2).
Proof.
  intros Hup L c s2. subst s2 c L. unfold pre. rewrite Hup. unfold reap_acts, new_txs.
  set (s1 := set_taken (taken s ++ mem s) s).
  assert (Htake : star false crash (absf s) (absf s1)) by (apply star_one; unfold absf, block_txs; subst s1; cbn; apply t_take).
  destruct (select (seen s) [] (mem s)) as [|t0 n'] eqn:En.
  { assert (E : (if crash then cut k e [] else []) = []) by (destruct crash; reflexivity). rewrite E.
    cbn. repeat split; auto. }
  destruct (full max (queue s)).
  { assert (E : (if crash then cut k e [] else []) = []) by (destruct crash; reflexivity). rewrite E.
    cbn. repeat split; auto. }
  set (n := t0 :: n') in *.
  destruct crash.
  - rewrite <- (map_map WSeen AW n).
    change (AW (WQPut n) :: map AW (map WSeen n)) with (map AW (WQPut n :: map WSeen n)).
    rewrite cut_writes. destruct k as [|k].
    + cbn. repeat split; auto.
    + cbn [firstn map]. rewrite firstn_map, map_map.
      apply (reap_put true s n (firstn k n)); auto.
      * subst n; discriminate.
      * intros x; apply firstn_incl.
      * discriminate.
      * apply has_del_marks.
      * intros s'; apply seen_marks.
  - apply (reap_put false s n n); auto.
    + subst n; discriminate.
    + apply has_del_marks.
    + intros s'; apply seen_marks.
Qed.

(* a write fault inside the marks: the mark of one transaction is missing, the others are made *)
Lemma fault_marks n : forall j, fault j (map (fun t => AW (WSeen t)) n) =
  (match skipn j n with
   | [] => map (fun t => AW (WSeen t)) n
   | t :: r => map (fun t => AW (WSeen t)) (firstn j n) ++ AW (WFail (WSeen t)) :: map (fun t => AW (WSeen t)) r
   end, false).
Proof.
  induction n as [|t n IH]; intros j.
  - destruct j; reflexivity.
  - destruct j as [|j]; [reflexivity|]. cbn [map fault skipn firstn]. rewrite IH.
    destruct (skipn j n); reflexivity.
Qed.

Lemma seen_marks_but_one p1 t p2 s :
  apply_acts s (map (fun t => AW (WSeen t)) p1 ++ AW (WFail (WSeen t)) :: map (fun t => AW (WSeen t)) p2) =
  set_seen (rev (p1 ++ p2) ++ seen s) s.
Proof.
  rewrite apply_acts_app, apply_acts_cons, seen_marks. cbn [apply_act apply_wr]. rewrite seen_marks.
  cbn [seen set_seen]. rewrite rev_app_distr, <- app_assoc. reflexivity.
Qed.

Lemma reap_fault_effect max s k :
  up s = true ->
  let c := fst (fault k (reap_acts max s)) in
  let s2 := apply_acts (pre s AReap) c in
  lossy c = false /\ blocks s2 = blocks s /\ sh s2 = sh s /\ th s2 = th s /\ up s2 = up s /\
  star false true (absf s) (absf s2).
Proof.
  intros Hup c s2. subst s2 c. unfold pre. rewrite Hup. unfold reap_acts, new_txs.
  set (s1 := set_taken (taken s ++ mem s) s).
  assert (Htake : star false true (absf s) (absf s1)) by (apply star_one; unfold absf, block_txs; subst s1; cbn; apply t_take).
  destruct (select (seen s) [] (mem s)) as [|t0 n'] eqn:En.
  { destruct k; cbn; repeat split; auto. }
  destruct (full max (queue s)).
  { destruct k; cbn; repeat split; auto. }
  set (n := t0 :: n') in *.
  destruct k as [|j].
  - (* the Put of the batch fails: the hand-off is refused, nothing is marked *)
    cbn. repeat split; auto.
  - cbn [fault]. rewrite fault_marks. cbn [fst].
    destruct (skipn j n) as [|t r] eqn:Esk.
    + apply (reap_put true s n n); auto.
      * subst n; discriminate.
      * apply has_del_marks.
      * intros s'; apply seen_marks.
    + assert (En' : n = firstn j n ++ t :: r) by (rewrite <- Esk; symmetry; apply firstn_skipn).
      apply (reap_put true s n (firstn j n ++ r)); auto.
      * subst n; discriminate.
      * intros x Hx. rewrite En'. apply in_app_or in Hx as [Hx|Hx]; apply in_or_app; [left; exact Hx | right; right; exact Hx].
      * discriminate.
      * rewrite has_del_app, has_del_marks. cbn [has_del existsb is_del]. apply has_del_marks.
      * intros s'. apply seen_marks_but_one.
Qed.

Lemma boot_effect gt s k e (crash : bool) :
  dshape s ->
  let L := boot_acts gt s in
  let c := if crash then cut k e L else L in
  let s2 := apply_acts s c in
  lossy c = false /\ dshape s2 /\ star false false (absf s) (absf s2) /\
  (c = L -> sh s2 = th s2 /\ (th s2 = 0 -> length (blocks s2) = 1)).
Proof.
  intros [Hd H0] L c s2. subst s2 c L. unfold boot_acts.
  destruct (sh s) as [|m] eqn:Esh.
  - (* no state record: the genesis block is (re)written *)
    assert (Eth : th s = 0) by (destruct Hd as [[? _]|[? _]]; lia).
    assert (Hlen : length (blocks s) = 0 \/ length (blocks s) = 1) by (destruct Hd as [[_ ?]|[? _]]; lia).
    rewrite Eth. cbn [Nat.eqb Nat.ltb Nat.leb app].
    assert (Hfull : let s2 := apply_acts s [AW (WBlock 1 [] gt true)] in
              dshape s2 /\ star false false (absf s) (absf s2) /\ sh s2 = th s2 /\ (th s2 = 0 -> length (blocks s2) = 1)).
    { cbn [apply_acts fold_left apply_act apply_wr pred]. unfold dshape, absf, block_txs.
      cbn [blocks sh th queue seen mem taken released set_blocks]. rewrite Esh, Eth.
      destruct (blocks s) as [|g [|g' r]] eqn:Eb; cbn [length] in Hlen; try lia; cbn [set_nth map length b_txs].
      - split; [split; [left; split; [reflexivity | right; reflexivity] | intros _ x [<-|[]]; reflexivity]|].
        split; [apply star_one, (t_empty false false [])|]. split; [reflexivity | intros _; reflexivity].
      - assert (Eg : b_txs g = []) by (apply (H0 eq_refl); unfold block_txs; rewrite Eb; left; reflexivity).
        rewrite Eg. split; [split; [left; split; [reflexivity | right; reflexivity] | intros _ x [<-|[]]; reflexivity]|].
        split; [apply star_refl|]. split; [reflexivity | intros _; reflexivity]. }
    assert (Hnone : dshape s /\ star false false (absf s) (absf s)) by (split; [split; [rewrite Esh; exact Hd | rewrite Esh; exact H0] | apply star_refl]).
    destruct crash; [destruct k|]; cbn [cut].
    + split; [reflexivity|]. cbn [apply_acts fold_left]. destruct Hnone as [Hn1 Hn2]. split; [exact Hn1 | split; [exact Hn2 | intros E; discriminate E]].
    + split; [reflexivity|]. destruct Hfull as (A & B & C & D). split; [exact A | split; [exact B | intros _; split; [exact C | exact D]]].
    + split; [reflexivity|]. destruct Hfull as (A & B & C & D). split; [exact A | split; [exact B | intros _; split; [exact C | exact D]]].
  - (* a state record exists: raise the store height if it is behind *)
    cbn [Nat.eqb app].
    destruct (th s <? S m) eqn:Elt.
    + apply Nat.ltb_lt in Elt.
      assert (Hs : S m = S (th s) /\ length (blocks s) = S (th s)) by (destruct Hd as [[? _]|[? ?]]; [lia | split; lia]).
      destruct Hs as [Hs Hl].
      assert (Hnone : dshape s /\ star false false (absf s) (absf s)) by (split; [split; [rewrite Esh; assumption | rewrite Esh; intros; lia] | apply star_refl]).
      assert (Hfull : let s2 := apply_acts s [AW (WHeight (S m))] in
              dshape s2 /\ star false false (absf s) (absf s2) /\ sh s2 = th s2 /\ (th s2 = 0 -> length (blocks s2) = 1)).
      { cbn [apply_acts fold_left apply_act apply_wr]. unfold dshape, absf, block_txs.
        cbn [blocks sh th queue seen mem taken released set_th]. rewrite Esh.
        split; [split; [left; split; [reflexivity | left; lia] | intros; lia]|].
        split; [apply star_refl|]. split; [reflexivity | intros; lia]. }
      destruct crash; [destruct k|]; cbn [cut].
      * split; [reflexivity|]. cbn [apply_acts fold_left]. destruct Hnone as [Hn1 Hn2]. split; [exact Hn1 | split; [exact Hn2 | intros E; discriminate E]].
      * split; [reflexivity|]. destruct Hfull as (A & B & C & D). split; [exact A | split; [exact B | intros _; split; [exact C | exact D]]].
      * split; [reflexivity|]. destruct Hfull as (A & B & C & D). split; [exact A | split; [exact B | intros _; split; [exact C | exact D]]].
    + apply Nat.ltb_ge in Elt.
      assert (E : (if crash then cut k e [] else []) = []) by (destruct crash; reflexivity). rewrite E.
      cbn [apply_acts fold_left]. split; [reflexivity|]. rewrite Esh.
      assert (Hs : S m = th s) by (destruct Hd as [[? _]|[? _]]; lia).
      split; [split; [destruct Hd as [[? ?]|[? ?]]; [left; split; [lia | assumption] | lia] | intros; lia]|].
      split; [apply star_refl|]. intros _. split; [lia|]. intros Z. lia.
Qed.

(* ---- (3b) an ExecuteTxs call that fails; a reap in the middle of a produce step ------------------------------------ *)
Lemma until_exec_cut L : exists k, fst (until_exec L) = cut k false L.
Proof.
  induction L as [|[w|x] L [k IH]].
  - exists 0. reflexivity.
  - exists (S k). cbn [until_exec cut]. destruct (until_exec L) as [r e]. cbn [fst] in *. rewrite IH. reflexivity.
  - exists 0. reflexivity.
Qed.

(* the whole reap as one state transformer *)
Definition RP (max : N) (s : st) : st := apply_acts (take_all s) (reap_acts max s).

Lemma RP_eq max s :
  RP max s = match new_txs s with
             | [] => take_all s
             | n => if full max (queue s) then take_all s
                    else set_seen (rev n ++ seen s) (set_queue (queue s ++ [n]) (take_all s))
             end.
Proof.
  unfold RP, reap_acts. destruct (new_txs s) as [|t n] eqn:En; [reflexivity|].
  destruct (full max (queue s)); [reflexivity|].
  rewrite apply_acts_cons, seen_marks. reflexivity.
Qed.

Lemma step_reap_RP max gt s : up s = true -> step max gt s (IRun AReap) = RP max s.
Proof. intros Hup. cbn [step item_acts acts_of pre fst]. rewrite Hup. reflexivity. Qed.

(* the acts of a produce step that commute with a reap: they touch neither the queue nor the seen-set nor the
   mempool ([AExec []] executes nothing) *)
Definition quietx (a : act) : Prop :=
  match a with
  | AW WMeta | AW (WBlock _ _ _ _) | AW (WState _) | AW (WHeight _) | AExec [] => True
  | _ => False
  end.

Lemma filter_all {A} (l : list A) : filter (fun _ => true) l = l.
Proof. induction l as [|x l IH]; cbn; [reflexivity | rewrite IH; reflexivity]. Qed.

Lemma exec_nil s : apply_act s (AExec []) = s.
Proof. cbn [apply_act memb existsb negb]. rewrite filter_all. destruct s; reflexivity. Qed.

Lemma RP_quiet max s a : quietx a -> RP max (apply_act s a) = apply_act (RP max s) a.
Proof.
  intros Hq. destruct a as [w|x].
  - destruct w; try contradiction; rewrite !RP_eq; unfold new_txs, take_all;
      cbn [apply_act apply_wr seen mem queue taken set_blocks set_sh set_th];
      destruct (select (seen s) [] (mem s)); try reflexivity;
      destruct (full max (queue s)); reflexivity.
  - destruct x; [|contradiction]. rewrite !exec_nil. reflexivity.
Qed.

Lemma RP_quiets max l : Forall quietx l -> forall s, RP max (apply_acts s l) = apply_acts (RP max s) l.
Proof.
  induction 1 as [|a l Ha Hl IH]; intros s; [reflexivity|].
  rewrite !apply_acts_cons, IH, RP_quiet by exact Ha. reflexivity.
Qed.

Lemma RP_shift max s A Bq Br : Forall quietx Bq ->
  apply_acts (RP max (apply_acts s A)) (Bq ++ Br) = apply_acts (RP max (apply_acts s (A ++ Bq))) Br.
Proof. intros H. rewrite (apply_acts_app s A Bq), (RP_quiets max Bq H), <- apply_acts_app. reflexivity. Qed.

Lemma reap_no_del_block max s : has_del (reap_acts max s) = false /\ has_block (reap_acts max s) = false.
Proof.
  unfold reap_acts. destruct (new_txs s) as [|t n]; [split; reflexivity|].
  destruct (full max (queue s)); [split; reflexivity|].
  set (m := t :: n). split.
  - cbn [has_del existsb is_del orb]. apply has_del_marks.
  - cbn [has_block existsb orb]. induction m; [reflexivity | assumption].
Qed.

Lemma lossy_mid A R B : has_del R = false -> has_block R = false -> lossy (A ++ R ++ B) = lossy (A ++ B).
Proof.
  intros H1 H2. unfold lossy. rewrite !has_del_app, !has_block_app, H1, H2. reflexivity.
Qed.

Lemma Forall_skipn {A} (P : A -> Prop) n : forall l, Forall P l -> Forall P (skipn n l).
Proof. induction n as [|n IH]; intros l H; [exact H|]. destruct H; [constructor | cbn; apply IH; assumption]. Qed.

Lemma mid_state max gt s ts p : up s = true ->
  step max gt s (IMid ts p) = apply_acts (RP max (apply_acts s (mid_before s ts p))) (mid_after s ts p).
Proof. intros Hup. cbn [step]. rewrite Hup. reflexivity. Qed.

Lemma mid_lossy max gt s ts p : up s = true ->
  lossy (item_acts max gt s (IMid ts p)) = lossy (fst (produce_acts ts s)).
Proof.
  intros Hup. cbn [item_acts]. rewrite Hup. destruct (reap_no_del_block max (apply_acts s (mid_before s ts p))) as [H1 H2].
  unfold mid_reap. rewrite lossy_mid by assumption. unfold mid_before, mid_after. rewrite firstn_skipn. reflexivity.
Qed.

Lemma reap_run_refines max gt s : shape s -> up s = true ->
  shape (step max gt s (IRun AReap)) /\ star false false (absf s) (absf (step max gt s (IRun AReap))).
Proof.
  intros [Hd Hu] Eup. cbn [step item_acts acts_of pre fst]. rewrite Eup.
  destruct (reap_effect max s 0 false false Eup) as (A & B & C & D & E & F). cbn iota in A, B, C, D, E, F.
  unfold pre in B, C, D, E, F. rewrite Eup in B, C, D, E, F.
  cbn [fst]. split; [|exact F]. split.
  - destruct Hd as [Hd1 Hd2]. split; [rewrite B, C, D; exact Hd1 | unfold block_txs; rewrite B, C; exact Hd2].
  - intros _. rewrite B, D. apply Hu; exact Eup.
Qed.

Lemma produce_run_refines max gt s ts : shape s -> up s = true ->
  shape (step max gt s (IRun (AProduce ts))) /\ up (step max gt s (IRun (AProduce ts))) = true /\
  star (lossy (fst (produce_acts ts s))) false (absf s) (absf (step max gt s (IRun (AProduce ts)))).
Proof.
  intros Hsh Eup. cbn [step item_acts acts_of pre fst]. rewrite Eup.
  destruct (produce_effect ts s 10 true Hsh Eup) as (A & B & C & D). cbn zeta in A, B, C, D.
  rewrite produce_acts_full in A, B, C, D.
  destruct (produce_acts ts s) as [L o] eqn:Ep. cbn [fst] in *.
  split; [split; [exact A | intros _; exact D] | split; [exact B | exact C]].
Qed.

Lemma step_produce_acts max gt s ts : up s = true ->
  step max gt s (IRun (AProduce ts)) = apply_acts s (fst (produce_acts ts s)).
Proof.
  intros Hup. cbn [step item_acts acts_of pre fst]. rewrite Hup. destruct (produce_acts ts s); reflexivity.
Qed.

Lemma up_RP max s : up (RP max s) = up s.
Proof.
  rewrite RP_eq. unfold take_all. destruct (new_txs s); [reflexivity|]. destruct (full max (queue s)); reflexivity.
Qed.

(* the reap falls behind every act of the step that does not commute with it: the step, then the reap *)
Lemma mid_sequential max gt s ts p : shape s -> up s = true ->
  Forall quietx (mid_after s ts p) ->
  shape (step max gt s (IMid ts p)) /\
  star (lossy (item_acts max gt s (IMid ts p))) false (absf s) (absf (step max gt s (IMid ts p))).
Proof.
  intros Hsh Hup Hq. rewrite mid_lossy, mid_state by exact Hup.
  rewrite <- RP_quiets by exact Hq. rewrite <- apply_acts_app. unfold mid_before, mid_after. rewrite firstn_skipn.
  rewrite <- (step_produce_acts max gt s ts Hup).
  destruct (produce_run_refines max gt s ts Hsh Hup) as (A & B & C).
  rewrite <- (step_reap_RP max gt _ B).
  destruct (reap_run_refines max gt _ A B) as (D & E).
  split; [exact D|]. eapply star_trans; [exact C | eapply star_weaken; [| |exact E]; auto]. intros X; discriminate X.
Qed.

Lemma mid_effect max gt s ts p : shape s -> up s = true ->
  shape (step max gt s (IMid ts p)) /\
  star (lossy (item_acts max gt s (IMid ts p))) false (absf s) (absf (step max gt s (IMid ts p))).
Proof.
  intros Hsh Hup.
  assert (Htl : Forall quietx (tl (fst (produce_acts ts s))) ->
            shape (step max gt s (IMid ts p)) /\
            star (lossy (item_acts max gt s (IMid ts p))) false (absf s) (absf (step max gt s (IMid ts p)))).
  { intros H. apply mid_sequential; [exact Hsh | exact Hup |]. unfold mid_after.
    destruct (fst (produce_acts ts s)) as [|a L]; [constructor|]. cbn [skipn tl] in *. apply Forall_skipn; exact H. }
  pose proof Hsh as [[Hd H0] Hu].
  unfold produce_acts in Htl. cbv zeta in Htl.
  destruct (match th s with O => Some None | S k => match nth_error (blocks s) k with Some b => Some (Some (b_time b)) | None => None end end) as [lt|] eqn:Elt;
    [|apply Htl; constructor].
  destruct (nth_error (blocks s) (th s)) as [pb|] eqn:Ep.
  { apply Htl. destruct (sh s =? th s); cbn [fst tl commit_tail]; repeat constructor. }
  destruct (queue s) as [|b q] eqn:Eq.
  { apply Htl. destruct (before ts lt); cbn [fst tl commit_tail]; repeat constructor. }
  destruct (before ts lt) eqn:Eb.
  { apply Htl. cbn [fst tl]. repeat constructor. }
  clear Htl.
  (* a batch is taken and committed: [QDel b; Meta; Block early; Exec b; Block final; State; Height] *)
  assert (Hlen : length (blocks s) = th s).
  { apply nth_error_None in Ep. destruct Hd as [[_ [?|?]]|[_ ?]]; lia. }
  assert (Hs : sh s = th s) by (destruct Hd as [[? _]|[_ ?]]; [assumption | lia]).
  set (h := th s) in *.
  assert (EL : fst (produce_acts ts s) = AW (WQDel b) :: AW WMeta :: AW (WBlock (S h) b ts false) :: commit_tail (S h) b ts).
  { unfold produce_acts. cbv zeta. fold h. rewrite Elt, Ep, Eq, Eb. reflexivity. }
  assert (Hearly : shape (apply_acts (RP max (apply_acts s [AW (WQDel b); AW WMeta; AW (WBlock (S h) b ts false)])) (commit_tail (S h) b ts)) /\
            star false false (absf s) (absf (apply_acts (RP max (apply_acts s [AW (WQDel b); AW WMeta; AW (WBlock (S h) b ts false)])) (commit_tail (S h) b ts)))).
  { (* the reap falls between the early block save and the execution: the step up to the early save, the reap,
       then the step that finds the pending block *)
    set (eb := {| b_txs := b; b_time := ts; b_signed := false |}).
    set (s_pre := apply_acts s [AW (WQDel b); AW WMeta; AW (WBlock (S h) b ts false)]).
    assert (Hpre : s_pre = apply_acts s (cut 3 false (fst (produce_acts ts s)))) by (rewrite EL; reflexivity).
    destruct (produce_effect ts s 3 false Hsh Hup) as (A & B & C & D). cbn zeta in A, B, C, D. rewrite <- Hpre in A, B, C, D.
    assert (Hl0 : lossy (cut 3 false (fst (produce_acts ts s))) = false) by (rewrite EL; reflexivity). rewrite Hl0 in C.
    assert (Hsp : shape s_pre) by (split; [exact A | intros _; exact D]).
    rewrite <- (step_reap_RP max gt s_pre B).
    destruct (reap_run_refines max gt s_pre Hsp B) as (E & F).
    assert (Hbr : blocks (step max gt s_pre (IRun AReap)) = blocks s ++ [eb] /\ sh (step max gt s_pre (IRun AReap)) = h /\ th (step max gt s_pre (IRun AReap)) = h).
    { rewrite step_reap_RP by exact B.
      destruct (reap_effect max s_pre 0 false false B) as (_ & X1 & X2 & X3 & _). cbn iota in X1, X2, X3.
      unfold pre in X1, X2, X3. rewrite B in X1, X2, X3. unfold RP, take_all. rewrite X1, X2, X3.
      subst s_pre. unfold apply_acts. cbn [fold_left apply_act apply_wr blocks sh th set_blocks set_released set_queue pred].
      fold h. rewrite <- Hlen, set_nth_length. split; [reflexivity | split; [rewrite Hs; symmetry; exact Hlen | reflexivity]]. }
    assert (Hupr : up (step max gt s_pre (IRun AReap)) = true) by (rewrite step_reap_RP, up_RP by exact B; exact B).
    set (s_r := step max gt s_pre (IRun AReap)) in *.
    destruct Hbr as (Hb1 & Hb2 & Hb3).
    assert (Ept : fst (produce_acts ts s_r) = commit_tail (S h) b ts).
    { unfold produce_acts. cbv zeta. rewrite Hb1, Hb2, Hb3.
      assert (X : exists lt', (match h with O => Some None | S k => match nth_error (blocks s ++ [eb]) k with Some b1 => Some (Some (b_time b1)) | None => None end end) = Some lt').
      { destruct h as [|k]; [eexists; reflexivity|].
        destruct (nth_error (blocks s ++ [eb]) k) eqn:E0; [eexists; reflexivity | apply nth_error_None in E0; rewrite app_length in E0; cbn in E0; lia]. }
      destruct X as [lt' ->]. rewrite <- Hlen at 1. rewrite nth_error_snoc, Nat.eqb_refl. reflexivity. }
    rewrite <- Ept, <- (step_produce_acts max gt s_r ts Hupr).
    destruct (produce_run_refines max gt s_r ts E Hupr) as (G1 & _ & G3). rewrite Ept in G3.
    assert (Hl2 : lossy (commit_tail (S h) b ts) = false) by reflexivity. rewrite Hl2 in G3.
    split; [exact G1 | eapply star_trans; [exact C | eapply star_trans; [exact F | exact G3]]]. }
  assert (Hl1 : lossy (fst (produce_acts ts s)) = false) by (rewrite EL; reflexivity).
  destruct p as [|[|[|p]]].
  4:{ (* after ExecuteTxs: the rest of the step commutes *)
    apply mid_sequential; [exact Hsh | exact Hup |]. unfold mid_after. rewrite EL. unfold commit_tail.
    cbn [skipn]. apply Forall_skipn. repeat constructor. }
  all: rewrite mid_lossy, mid_state, Hl1 by exact Hup; unfold mid_before, mid_after; rewrite EL; cbn [firstn skipn].
  - change (AW WMeta :: AW (WBlock (S h) b ts false) :: commit_tail (S h) b ts) with ([AW WMeta; AW (WBlock (S h) b ts false)] ++ commit_tail (S h) b ts).
    rewrite (RP_shift max s [AW (WQDel b)]) by (repeat constructor). exact Hearly.
  - change (AW (WBlock (S h) b ts false) :: commit_tail (S h) b ts) with ([AW (WBlock (S h) b ts false)] ++ commit_tail (S h) b ts).
    rewrite (RP_shift max s [AW (WQDel b); AW WMeta]) by (repeat constructor). exact Hearly.
  - exact Hearly.
Qed.

Lemma absf_set_up v s : absf (set_up v s) = absf s.
Proof. reflexivity. Qed.

Lemma dshape_set_up v s : dshape (set_up v s) <-> dshape s.
Proof. unfold dshape, block_txs. cbn. tauto. Qed.

(* start-up loads every record under /batches: the stale ones come back, in front *)
Definition requeued (s : st) : st := set_queue (stale s ++ queue s) (set_stale [] s).

Lemma dshape_requeued s : dshape (requeued s) <-> dshape s.
Proof. unfold dshape, block_txs. cbn. tauto. Qed.

Lemma star_requeued fl fc s : star fl fc (absf s) (absf (requeued s)).
Proof. apply star_one. unfold absf, block_txs, requeued. cbn. apply t_requeue. Qed.

Lemma boot_writes_hard gt s w : In (AW w) (boot_acts gt s) -> swallowed w = false.
Proof.
  unfold boot_acts. intros H. apply in_app_or in H as [H|H].
  - destruct (sh s =? 0); [destruct H as [H|[]]; injection H as <-; reflexivity | destruct H].
  - destruct (th s <? sh s); [destruct H as [H|[]]; injection H as <-; reflexivity | destruct H].
Qed.

(* an item that can leave the traces of a crash or of a write fault *)
Definition is_rough (it : item) : bool := is_crash it || is_fault it.

(* every item of a history is a short sequence of abstract transitions; the lossy one is used only by items the
   guard excludes, a cut hand-off / a kept record only by crashed or faulted items; and the shape invariant is kept *)
Lemma step_refines max gt s it : shape s ->
  shape (step max gt s it) /\ star (lossy (item_acts max gt s it)) (is_rough it) (absf s) (absf (step max gt s it)).
Proof.
  intros Hsh. pose proof Hsh as [Hd Hu].
  assert (Hux : forall x, ushape (set_up false x)) by (intros x Z; discriminate Z).
  destruct it as [t | a | a k e | a k | ts | ts p].
  - (* arrive *)
    cbn [step item_acts is_rough is_crash is_fault orb]. split.
    + split; [exact Hd | exact Hu].
    + apply star_one. unfold absf, block_txs. cbn. apply t_arrive.
  - cbn [step item_acts is_rough is_crash is_fault orb]. destruct a as [| | ts]; cbn [acts_of fst pre].
    + (* boot *)
      fold (requeued s).
      destruct (boot_effect gt (requeued s) 0 false false (proj2 (dshape_requeued s) Hd)) as (A & B & C & D). cbn iota in A, B, C, D.
      change (boot_acts gt (requeued s)) with (boot_acts gt s) in A, B, C, D.
      rewrite A, absf_set_up. split; [split|].
      * apply dshape_set_up; exact B.
      * intros _. cbn [sh th blocks set_up]. apply D; reflexivity.
      * eapply star_trans; [apply star_requeued | eapply star_weaken; [| |exact C]; auto].
    + (* reap *)
      destruct (up s) eqn:Eup.
      * destruct (reap_effect max s 0 false false Eup) as (A & B & C & D & E & F). cbn iota in A, B, C, D, E, F.
        unfold pre in B, C, D, E, F. rewrite Eup in B, C, D, E, F.
        cbn [fst]. rewrite A. split; [|exact F]. split.
        -- destruct Hd as [Hd1 Hd2]. split; [rewrite B, C, D; exact Hd1 | unfold block_txs; rewrite B, C; exact Hd2].
        -- intros _. rewrite B, D. apply Hu; exact Eup.
      * cbn [fst apply_acts fold_left]. split; [exact Hsh | apply star_refl].
    + (* produce *)
      destruct (up s) eqn:Eup.
      * destruct (produce_effect ts s 10 true Hsh Eup) as (A & B & C & D). cbn zeta in A, B, C, D.
        rewrite produce_acts_full in A, B, C, D.
        destruct (produce_acts ts s) as [L o] eqn:Ep. cbn [fst] in *.
        split; [split; [exact A | intros _; exact D] | exact C].
      * cbn [fst apply_acts fold_left]. split; [exact Hsh | apply star_refl].
  - cbn [step item_acts is_rough is_crash is_fault orb]. rewrite absf_set_up.
    destruct a as [| | ts]; cbn [acts_of fst pre].
    + fold (requeued s).
      destruct (boot_effect gt (requeued s) k e true (proj2 (dshape_requeued s) Hd)) as (A & B & C & D). cbn iota in A, B, C, D.
      change (boot_acts gt (requeued s)) with (boot_acts gt s) in A, B, C, D.
      rewrite A. split; [split; [apply dshape_set_up; exact B | apply Hux] |].
      eapply star_trans; [apply star_requeued | eapply star_weaken; [| |exact C]; auto].
    + destruct (up s) eqn:Eup.
      * destruct (reap_effect max s k e true Eup) as (A & B & C & D & E & F). cbn iota in A, B, C, D, E, F.
        unfold pre in B, C, D, E, F. rewrite Eup in B, C, D, E, F.
        cbn [fst]. rewrite A. split; [|exact F]. split; [|apply Hux].
        apply dshape_set_up. destruct Hd as [Hd1 Hd2]. split; [rewrite B, C, D; exact Hd1 | unfold block_txs; rewrite B, C; exact Hd2].
      * cbn [fst cut apply_acts fold_left]. split; [split; [apply dshape_set_up; exact Hd | apply Hux] | apply star_refl].
    + destruct (up s) eqn:Eup.
      * destruct (produce_effect ts s k e Hsh Eup) as (A & B & C & D). cbn zeta in A, B, C, D.
        destruct (produce_acts ts s) as [L o] eqn:Ep. cbn [fst] in *.
        split; [split; [apply dshape_set_up; exact A | apply Hux] | eapply star_weaken; [| |exact C]; auto].
      * cbn [fst cut apply_acts fold_left]. split; [split; [apply dshape_set_up; exact Hd | apply Hux] | apply star_refl].
  - (* a write fault *)
    cbn [step item_acts is_rough is_crash is_fault orb]. rewrite fault_acts_fst.
    destruct a as [| | ts]; cbn [acts_of fst pre].
    + (* start-up: a failed write is returned, the node does not start *)
      fold (requeued s). rewrite absf_set_up.
      pose proof (proj2 (dshape_requeued s) Hd) as Hdr.
      destruct (nth_error (writes_of (boot_acts gt s)) k) as [w|] eqn:En.
      * destruct (fault_at _ k w En) as (pr & post & E1 & E2 & E3).
        assert (Hw : swallowed w = false) by (apply (boot_writes_hard gt s); rewrite E1; apply in_or_app; right; left; reflexivity).
        rewrite E3, Hw. cbn [fst snd negb]. rewrite apply_trunc, lossy_trunc by exact Hw. rewrite <- E2.
        destruct (boot_effect gt (requeued s) k true true Hdr) as (A & B & C & D). cbn iota in A, B, C, D.
        change (boot_acts gt (requeued s)) with (boot_acts gt s) in A, B, C, D.
        rewrite A. split; [split; [apply dshape_set_up; exact B | apply Hux] |].
        eapply star_trans; [apply star_requeued | eapply star_weaken; [| |exact C]; auto].
      * rewrite (fault_none _ k En). cbn [fst snd negb].
        destruct (boot_effect gt (requeued s) 0 false false Hdr) as (A & B & C & D). cbn iota in A, B, C, D.
        change (boot_acts gt (requeued s)) with (boot_acts gt s) in A, B, C, D.
        rewrite A. split; [split|].
        -- apply dshape_set_up; exact B.
        -- intros _. cbn [sh th blocks set_up]. apply D; reflexivity.
        -- eapply star_trans; [apply star_requeued | eapply star_weaken; [| |exact C]; auto].
    + (* reap *)
      destruct (up s) eqn:Eup.
      * destruct (reap_fault_effect max s k Eup) as (A & B & C & D & E & F). cbn zeta in A, B, C, D, E, F.
        unfold pre in B, C, D, E, F. rewrite Eup in B, C, D, E, F.
        cbn [fst]. rewrite A. split; [|exact F]. split.
        -- destruct Hd as [Hd1 Hd2]. split; [rewrite B, C, D; exact Hd1 | unfold block_txs; rewrite B, C; exact Hd2].
        -- intros _. rewrite B, D. apply Hu; exact Eup.
      * cbn [fst]. assert (E : fault k [] = ([], false)) by (destruct k; reflexivity). rewrite E.
        cbn [fst apply_acts fold_left]. split; [exact Hsh | apply star_refl].
    + (* produce *)
      destruct (up s) eqn:Eup.
      * destruct (produce_fault_effect ts s k Hsh Eup) as (A & B & C & D). cbn zeta in A, B, C, D.
        destruct (produce_acts ts s) as [L o] eqn:Ep. cbn [fst] in *.
        split; [split; [exact A | intros _; exact D] | exact C].
      * cbn [fst]. assert (E : fault k [] = ([], false)) by (destruct k; reflexivity). rewrite E.
        cbn [fst apply_acts fold_left]. split; [exact Hsh | apply star_refl].
  - (* ExecuteTxs fails: the step up to the call *)
    cbn [step item_acts is_rough is_crash is_fault orb]. unfold execfail_acts_of.
    destruct (up s) eqn:Eup.
    + destruct (produce_acts ts s) as [L o] eqn:Ep. destruct (until_exec L) as [l' e'] eqn:Eu. cbn [fst].
      destruct (until_exec_cut L) as [k Hk]. rewrite Eu in Hk. cbn [fst] in Hk.
      destruct (produce_effect ts s k false Hsh Eup) as (A & B & C & D). cbn zeta in A, B, C, D.
      rewrite Ep in A, B, C, D. cbn [fst] in A, B, C, D. rewrite <- Hk in A, B, C, D.
      split; [split; [exact A | intros _; exact D] | exact C].
    + cbn [fst apply_acts fold_left]. split; [exact Hsh | apply star_refl].
  - (* a reap in the middle of a produce step *)
    cbn [is_rough is_crash is_fault orb].
    destruct (up s) eqn:Eup.
    + apply mid_effect; assumption.
    + cbn [step item_acts]. rewrite Eup. split; [exact Hsh | apply star_refl].
Qed.

(* ---- (4) histories ------------------------------------------------------------------------------------------ *)
Lemma shape_st0 : shape st0.
Proof.
  split; [split; [left; split; [reflexivity | left; reflexivity] | intros _ x []] | intros Z; discriminate Z].
Qed.

Lemma run_app max gt h1 h2 s : run max gt s (h1 ++ h2) = run max gt (run max gt s h1) h2.
Proof. revert s. induction h1 as [|it h1 IH]; intros s; [reflexivity | cbn; apply IH]. Qed.

Lemma run_shape max gt h : forall s, shape s -> shape (run max gt s h).
Proof. induction h as [|it h IH]; intros s Hs; [exact Hs | cbn; apply IH; apply step_refines; exact Hs]. Qed.

(* any history: all transitions *)
Lemma run_star max gt h : forall s, shape s -> star true true (absf s) (absf (run max gt s h)).
Proof.
  induction h as [|it h IH]; intros s Hs; [apply star_refl|]. cbn [run].
  destruct (step_refines max gt s it Hs) as [Hs' Hst].
  eapply star_trans; [eapply star_weaken; [| |exact Hst]; auto | apply IH; exact Hs'].
Qed.

(* inside the guard: never the lossy transition *)
Lemma run_star_safe max gt h : forall s, shape s -> safe_hist max gt s h = true -> star false true (absf s) (absf (run max gt s h)).
Proof.
  induction h as [|it h IH]; intros s Hs Hg; [apply star_refl|]. cbn [run]. cbn [safe_hist] in Hg.
  apply andb_true_iff in Hg as [Hl Hg]. apply negb_true_iff in Hl.
  destruct (step_refines max gt s it Hs) as [Hs' Hst]. rewrite Hl in Hst.
  eapply star_trans; [eapply star_weaken; [| |exact Hst]; auto | apply IH; assumption].
Qed.

(* without crashes and write faults: never a cut hand-off, never a kept record *)
Lemma run_star_crashfree max gt h : forall s, shape s -> crash_free h = true -> fault_free h = true ->
  star true false (absf s) (absf (run max gt s h)).
Proof.
  induction h as [|it h IH]; intros s Hs Hg Hf; [apply star_refl|]. cbn [run]. cbn [crash_free fault_free forallb] in Hg, Hf.
  apply andb_true_iff in Hg as [Hl Hg]. apply negb_true_iff in Hl.
  apply andb_true_iff in Hf as [Hl' Hf]. apply negb_true_iff in Hl'.
  destruct (step_refines max gt s it Hs) as [Hs' Hst]. unfold is_rough in Hst. rewrite Hl, Hl' in Hst.
  eapply star_trans; [eapply star_weaken; [| |exact Hst]; auto | apply IH; assumption].
Qed.

Lemma Pinv_st0 : Pinv (absf st0).
Proof. split; intros t []. Qed.
Lemma Oeq_st0 : Oeq (absf st0).
Proof. split; [intros b [[]|[]] | reflexivity]. Qed.
Lemma Oinv_st0 : Oinv (absf st0).
Proof. split; [intros b [[]|[]] | constructor]. Qed.
Lemma Dinv_st0 : Dinv (absf st0).
Proof. split; [constructor | split; [intros t [] | reflexivity]]. Qed.

(* no loss, inside the guard *)
Lemma no_loss_partial max gt h :
  safe_hist max gt st0 h = true ->
  let s := final max gt h in
  (forall t, In t (taken s) ->
     In t (concat (block_txs s)) \/ In t (concat (queue s)) \/ (In t (mem s) /\ memb t (seen s) = false)) /\
  (quiescedb s = true -> forall t, In t (taken s) -> In t (concat (committed s))).
Proof.
  intros Hg s.
  assert (HP : Pinv (absf s)).
  { eapply (star_inv Pinv false true); [intros a b; apply Pinv_tr | apply run_star_safe; [apply shape_st0 | exact Hg] | apply Pinv_st0]. }
  destruct HP as [Ha _]. unfold stored in Ha. cbn [absf aB aQ aS aM aT] in Ha.
  split.
  - intros t Ht. destruct (Ha t Ht) as [[?|?]|?]; auto.
  - intros Hq t Ht. unfold quiescedb in Hq.
    apply andb_true_iff in Hq as [Hq Hn]. apply andb_true_iff in Hq as [Hq Hp]. apply andb_true_iff in Hq as [_ Hq].
    destruct (queue s) eqn:Eq; [|discriminate]. destruct (nth_error (blocks s) (th s)) eqn:Ep; [discriminate|].
    destruct (new_txs s) eqn:En; [|discriminate].
    assert (Hc : committed s = block_txs s).
    { unfold committed. apply firstn_all2. unfold block_txs. rewrite map_length. apply nth_error_None; exact Ep. }
    rewrite Hc. destruct (Ha t Ht) as [[?|Hx]|[Hi Hu]]; [assumption | cbn in Hx; contradiction |].
    exfalso. unfold new_txs in En.
    assert (X : In t (select (seen s) [] (mem s))) by (apply select_complete; auto).
    rewrite En in X. exact X.
Qed.

(* order: for every history *)
Lemma order_full max gt h :
  let s := final max gt h in
  Subseq (filter nonempty (committed s)) (released s) /\
  (safe_hist max gt st0 h = true -> filter nonempty (block_txs s) = released s).
Proof.
  intros s. split.
  - assert (HO : Oinv (absf s)).
    { eapply (star_inv Oinv true true); [intros a b; apply Oinv_tr | apply run_star; apply shape_st0 | apply Oinv_st0]. }
    destruct HO as [_ HS]. cbn [absf aB aR] in HS.
    destruct (filter_firstn_prefix nonempty (block_txs s) (th s)) as [r Hr]. rewrite Hr in HS.
    eapply Subseq_app_l; exact HS.
  - intros Hg.
    assert (HO : Oeq (absf s)).
    { eapply (star_inv Oeq false true); [intros a b; apply Oeq_tr | apply run_star_safe; [apply shape_st0 | exact Hg] | apply Oeq_st0]. }
    destruct HO as [_ HS]. exact HS.
Qed.

(* no duplicates without crashes: for every crash-free history *)
Lemma no_dup_full max gt h :
  crash_free h = true -> fault_free h = true ->
  NoDup (concat (block_txs (final max gt h)) ++ concat (queue (final max gt h))).
Proof.
  intros Hc Hf.
  assert (HD : Dinv (absf (final max gt h))).
  { eapply (star_inv Dinv true false); [intros a b; apply Dinv_tr | apply run_star_crashfree; [apply shape_st0 | exact Hc | exact Hf] | apply Dinv_st0]. }
  destruct HD as [HN _]. exact HN.
Qed.

Lemma no_dup_chain_full max gt h : crash_free h = true -> fault_free h = true -> NoDup (concat (block_txs (final max gt h))).
Proof. intros Hc Hf. pose proof (no_dup_full max gt h Hc Hf) as H. apply NoDup_app_iff in H. tauto. Qed.

(* a refused hand-off leaves no trace: nothing is marked seen, so the same transactions are offered again *)
Lemma refused_no_trace max gt s :
  up s = true -> full max (queue s) = true ->
  step max gt s (IRun AReap) = set_taken (taken s ++ mem s) s.
Proof.
  intros Hu Hf. cbn [step item_acts acts_of pre]. rewrite Hu. cbn [fst]. unfold reap_acts. rewrite Hf.
  destruct (new_txs s); reflexivity.
Qed.

(* ---- (5) lost for ever ------------------------------------------------------------------------------------------ *)
(* a transaction that is marked seen and is in no block record, in no queued batch and in no stale record never comes back *)
Definition stored3 (a : abs) (t : tx) : Prop := In t (concat (aB a)) \/ In t (concat (aQ a)) \/ In t (concat (aZ a)).
Definition Linv (t : tx) (a : abs) : Prop := In t (aS a) /\ ~ stored3 a t.

Lemma in_concat_snoc {A} (x : A) (l : list (list A)) b : In x (concat (l ++ [b])) <-> In x (concat l) \/ In x b.
Proof. rewrite concat_app, in_app_iff. cbn. rewrite app_nil_r. tauto. Qed.

Lemma Linv_tr t fl fc a b : tr fl fc a b -> Linv t a -> Linv t b.
Proof.
  intros H [Hs Hn]. destruct H; unfold Linv, stored3 in *; cbn [aB aQ aZ aS] in *; auto.
  - (* put *)
    split; [apply in_or_app; right; exact Hs|]. intros [Hx|[Hx|Hx]]; [apply Hn; auto | | apply Hn; auto].
    apply in_concat_snoc in Hx as [Hx|Hx]; [apply Hn; auto|].
    rewrite H in Hx. apply select_sound in Hx as (_ & Hu & _).
    apply memb_false in Hu. exact (Hu Hs).
  - (* keep: the batch is in the queue *)
    split; [exact Hs|]. intros [Hx|[Hx|Hx]]; [apply Hn; auto | apply Hn; auto |].
    apply in_concat_snoc in Hx as [Hx|Hx]; [apply Hn; auto|].
    apply Hn. right; left. apply in_concat. exists b. split; assumption.
  - (* requeue *)
    split; [exact Hs|]. intros [Hx|[Hx|Hx]]; [apply Hn; auto | | destruct Hx].
    rewrite concat_app in Hx. apply in_app_or in Hx as [Hx|Hx]; apply Hn; auto.
  - (* drop *)
    split; [exact Hs|]. intros [Hx|[Hx|Hx]]; apply Hn; [auto | right; left; cbn; apply in_or_app; right; exact Hx | auto].
  - (* move *)
    split; [exact Hs|]. intros [Hx|[Hx|Hx]]; apply Hn; [| right; left; cbn; apply in_or_app; right; exact Hx | auto].
    apply in_concat_snoc in Hx as [Hx|Hx]; [auto | right; left; cbn; apply in_or_app; left; exact Hx].
  - (* empty *)
    split; [exact Hs|]. intros [Hx|[Hx|Hx]]; apply Hn; [|auto|auto].
    apply in_concat_snoc in Hx as [Hx|[]]. auto.
Qed.

Definition lostb (t : tx) (s : st) : bool :=
  memb t (seen s) && negb (memb t (concat (block_txs s))) && negb (memb t (concat (queue s))) && negb (memb t (concat (stale s))).

Lemma lost_forever max gt h t :
  lostb t (final max gt h) = true ->
  forall h', ~ In t (concat (block_txs (final max gt (h ++ h')))).
Proof.
  intros Hl h'. unfold final. rewrite run_app. fold (final max gt h).
  unfold lostb in Hl. apply andb_true_iff in Hl as [Hl H4]. apply andb_true_iff in Hl as [Hl H3]. apply andb_true_iff in Hl as [H1 H2].
  apply negb_true_iff in H2, H3, H4. apply memb_in in H1. apply memb_false in H2, H3, H4.
  assert (HL : Linv t (absf (run max gt (final max gt h) h'))).
  { eapply (star_inv (Linv t) true true); [intros a b; apply Linv_tr | apply run_star; apply run_shape, shape_st0 |].
    split; [exact H1 | intros [?|[?|?]]; contradiction]. }
  destruct HL as [_ HL]. intros Hx. apply HL. left. exact Hx.
Qed.

(* ---- (5b) a write fault the code swallows without any other effect: the cursor write -------------------------------- *)
(* if write attempt k of a produce step is the SetMetadata(LastBatchDataKey) of retrieveBatch, the step with that
   attempt failing leaves the node in exactly the state of the step without a fault: the batch in hand is built
   into the block all the same *)
Lemma cursor_fault_harmless max gt s ts k :
  nth_error (writes_of (fst (acts_of max gt s (AProduce ts)))) k = Some WMeta ->
  step max gt s (IFault (AProduce ts) k) = step max gt s (IRun (AProduce ts)) /\
  fst (observe max gt s (IFault (AProduce ts) k)) = fst (observe max gt s (IRun (AProduce ts))).
Proof.
  intros H. cbn [step item_acts observe fst snd pre]. rewrite fault_acts_fst.
  unfold fault_acts_of. destruct (acts_of max gt s (AProduce ts)) as [L c] eqn:Ea. cbn [fst] in *.
  destruct (fault_at L k WMeta H) as (pr & post & E1 & E2 & E3). cbn [swallowed] in E3. rewrite E3. cbn [fst snd].
  split; [|reflexivity].
  rewrite E1, !apply_acts_app, !apply_acts_cons. reflexivity.
Qed.

(* ---- (6) the queue of this model is the FIFO specification of C10 ------------------------------------------------
   Model/Queue.v identifies a batch with a content id; under ANY encoding [enc] of transaction lists as ids, the
   two queue operations of this model (WQPut on acceptance, WQDel of the head on hand-out, refusal at the bound) are
   the steps [s_step] of the specification that C10_fifo_full proves the real queue to refine. *)
Require Verif.Model.Queue.

Lemma queue_submit_is_C10 (enc : batch -> Verif.Model.Queue.batch) max q b :
  Verif.Model.Queue.s_step max (map enc q) (Verif.Model.Queue.USubmit true (Verif.Model.Queue.UB (enc b))) =
  if full max q then (map enc q, Verif.Model.Queue.RFull) else (map enc (q ++ [b]), Verif.Model.Queue.ROk).
Proof.
  cbn [Verif.Model.Queue.s_step]. unfold Verif.Model.Queue.s_full, full. rewrite map_length.
  destruct ((0 <? max)%N && (max <=? N.of_nat (length q))%N); [reflexivity|]. rewrite map_app. reflexivity.
Qed.

Lemma queue_next_is_C10 (enc : batch -> Verif.Model.Queue.batch) max q :
  Verif.Model.Queue.s_step max (map enc q) (Verif.Model.Queue.UNext true) =
  match q with
  | [] => (map enc q, Verif.Model.Queue.REmpty)
  | b :: r => (map enc r, Verif.Model.Queue.RBatch (enc b))
  end.
Proof. destruct q; reflexivity. Qed.

(* ---- (7) hand-out of the WHOLE head batch, whatever it holds, and restarts keep the queue records ------------------
   sequencers/single queue.go Next / sequencer.go GetNextBatch ignore GetNextBatchRequest.MaxBytes (block/manager.go
   retrieveBatch passes none): the batch at the head is handed out with ALL its transactions — the model has no
   notion of transaction size, [b] below is any list — its record is deleted, and (clock permitting) the block of
   the same step holds exactly [b].  A clean restart rebuilds the queue from the records ([stale ++ queue]) and
   touches nothing else.  The harness drives hand-offs whose total size lies just under / at / just over the byte
   limits a size-aware hand-out would use (1 500 000 and others) and restarts the node right after the step that
   took such a batch: a hand-out of a PART of the head contradicts [handout_whole] on the compared writes. *)

Definition last_time (s : st) : option (option Z) :=
  match th s with
  | O => Some None
  | S k => match nth_error (blocks s) k with Some b => Some (Some (b_time b)) | None => None end
  end.

Lemma last_time_length s lt : last_time s = Some lt -> nth_error (blocks s) (th s) = None -> length (blocks s) = th s.
Proof.
  unfold last_time. intros H1 H2. apply nth_error_None in H2.
  destruct (th s) as [|k]; [lia|].
  destruct (nth_error (blocks s) k) eqn:E; [|discriminate].
  assert (k < length (blocks s)) by (apply nth_error_Some; rewrite E; discriminate). lia.
Qed.

Lemma handout_whole max gt s ts b q lt :
  up s = true -> queue s = b :: q -> nth_error (blocks s) (th s) = None -> last_time s = Some lt ->
  let s' := step max gt s (IRun (AProduce ts)) in
  queue s' = q /\ stale s' = stale s /\ released s' = released s ++ [b] /\
  writes_of (item_acts max gt s (IRun (AProduce ts))) =
    (if before ts lt then [WQDel b; WMeta]
     else [WQDel b; WMeta; WBlock (S (th s)) b ts false; WBlock (S (th s)) b ts true; WState (S (th s)); WHeight (S (th s))]) /\
  (before ts lt = false ->
     blocks s' = blocks s ++ [{| b_txs := b; b_time := ts; b_signed := true |}] /\ th s' = S (th s) /\ sh s' = S (th s) /\
     fst (observe max gt s (IRun (AProduce ts))) = 3%N).
Proof.
  intros Hup Hq Hp Hl. pose proof (last_time_length s lt Hl Hp) as Hlen.
  cbn [step item_acts observe acts_of pre fst snd]. rewrite Hup. unfold produce_acts.
  unfold last_time in Hl.
  destruct (th s) as [|k] eqn:Eth.
  - injection Hl as <-. rewrite Hp, Hq. cbn [before].
    destruct (blocks s) eqn:Eb; [|discriminate].
    cbn. rewrite Hq, Eb. cbn. repeat split; reflexivity.
  - destruct (nth_error (blocks s) k) as [lb|] eqn:El; [|discriminate]. injection Hl as <-.
    rewrite Hp, Hq. destruct (before ts (Some (b_time lb))) eqn:Eb.
    + cbn. rewrite Hq. repeat split; try reflexivity; discriminate.
    + cbn [fst snd writes_of commit_tail code_of app]. unfold apply_acts. cbn [fold_left apply_act apply_wr pred].
      cbn [queue stale released blocks th sh set_queue set_released set_blocks set_sh set_th set_mem up mem seen taken].
      rewrite Hq. cbn [tl]. rewrite <- Hlen, set_nth_length. unfold commit_tail.
      cbn [fold_left apply_act apply_wr pred queue stale released blocks th sh set_queue set_released set_blocks set_sh set_th set_mem up mem seen taken].
      rewrite set_nth_last.
      repeat split; reflexivity.
Qed.

Lemma restart_keeps_records max gt s :
  sh s <> 0 ->
  let s' := step max gt s (IRun ABoot) in
  up s' = true /\ queue s' = stale s ++ queue s /\ stale s' = [] /\ blocks s' = blocks s /\ sh s' = sh s /\
  seen s' = seen s /\ mem s' = mem s /\ taken s' = taken s /\ released s' = released s.
Proof.
  intros Hsh. cbn [step item_acts acts_of pre fst]. unfold boot_acts.
  destruct (sh s =? 0) eqn:E; [apply Nat.eqb_eq in E; contradiction|].
  cbn [app]. destruct (th s <? sh s); cbn; repeat split; reflexivity.
Qed.

(* ---- (8) a failing ExecuteTxs call keeps the batch; a concurrent reap does not change the block ------------------------ *)
(* what a produce step takes, builds, executes and commits *)
Definition prod_view (s : st) := (blocks s, sh s, th s, released s, stale s, mem s, up s).

Lemma view_act s1 s2 a : prod_view s1 = prod_view s2 -> prod_view (apply_act s1 a) = prod_view (apply_act s2 a).
Proof.
  unfold prod_view. intros H. injection H as H1 H2 H3 H4 H5 H6 H7.
  destruct a as [w|x]; [destruct w as [b|b| |n x t g|n|n|t| |w]; [| | | | | | | |destruct w]|];
    cbn [apply_act apply_wr blocks sh th released stale mem up set_queue set_released set_stale set_blocks set_sh set_th set_seen set_mem];
    congruence.
Qed.

Lemma view_acts l : forall s1 s2, prod_view s1 = prod_view s2 -> prod_view (apply_acts s1 l) = prod_view (apply_acts s2 l).
Proof.
  induction l as [|a l IH]; intros s1 s2 H; [exact H|]. rewrite !apply_acts_cons. apply IH, view_act, H.
Qed.

Lemma view_RP max s : prod_view (RP max s) = prod_view s.
Proof.
  rewrite RP_eq. unfold take_all. destruct (new_txs s); [reflexivity|]. destruct (full max (queue s)); reflexivity.
Qed.

Lemma mid_same_block max gt s ts p :
  up s = true -> prod_view (step max gt s (IMid ts p)) = prod_view (step max gt s (IRun (AProduce ts))).
Proof.
  intros Hup. rewrite mid_state, step_produce_acts by exact Hup.
  rewrite (view_acts _ _ _ (view_RP max _)), <- apply_acts_app. unfold mid_before, mid_after. rewrite firstn_skipn. reflexivity.
Qed.

Lemma mid_same_block_fields max gt s ts p : up s = true ->
  let s' := step max gt s (IMid ts p) in let s0 := step max gt s (IRun (AProduce ts)) in
  blocks s' = blocks s0 /\ sh s' = sh s0 /\ th s' = th s0 /\ released s' = released s0 /\ stale s' = stale s0 /\
  mem s' = mem s0 /\ up s' = up s0 /\
  fst (observe max gt s (IMid ts p)) = fst (observe max gt s (IRun (AProduce ts))).
Proof.
  intros Hup s' s0. pose proof (mid_same_block max gt s ts p Hup) as H. unfold prod_view in H.
  injection H as H1 H2 H3 H4 H5 H6 H7. repeat split; assumption.
Qed.

(* the hand-off made in the middle of the step is the hand-off of a reap on the state the step has reached then: it
   is queued BEHIND whatever waits, and nothing else of the queue / seen-set / taken list is touched *)
Lemma mid_handoff max gt s ts p : up s = true ->
  let x := apply_acts s (mid_before s ts p) in
  writes_of (item_acts max gt s (IMid ts p)) =
    writes_of (mid_before s ts p) ++ writes_of (reap_acts max x) ++ writes_of (mid_after s ts p).
Proof.
  intros Hup x. cbn [item_acts]. rewrite Hup. unfold mid_reap. fold x.
  assert (W : forall a b, writes_of (a ++ b) = writes_of a ++ writes_of b).
  { induction a as [|[w|y] a IH]; intros b; cbn [app writes_of]; [reflexivity | rewrite IH; reflexivity | apply IH]. }
  rewrite !W. reflexivity.
Qed.

Lemma execfail_retried max gt s ts ts' b q lt :
  up s = true -> queue s = b :: q -> nth_error (blocks s) (th s) = None -> last_time s = Some lt ->
  before ts lt = false -> sh s = th s ->
  let s1 := step max gt s (IExecFail ts) in
  let s2 := step max gt s1 (IRun (AProduce ts')) in
  observe max gt s (IExecFail ts) = (12%N, [WQDel b; WMeta; WBlock (S (th s)) b ts false]) /\
  queue s1 = q /\ released s1 = released s ++ [b] /\ th s1 = th s /\ up s1 = true /\
  blocks s2 = blocks s ++ [{| b_txs := b; b_time := ts; b_signed := true |}] /\ th s2 = S (th s) /\ sh s2 = S (th s) /\
  queue s2 = q /\ released s2 = released s ++ [b] /\
  observe max gt s1 (IRun (AProduce ts')) = (3%N, [WBlock (S (th s)) b ts true; WState (S (th s)); WHeight (S (th s))]).
Proof.
  intros Hup Hq Hp Hl Hb Hs. pose proof (last_time_length s lt Hl Hp) as Hlen.
  assert (EL : produce_acts ts s = (AW (WQDel b) :: AW WMeta :: AW (WBlock (S (th s)) b ts false) :: commit_tail (S (th s)) b ts, OCommitted)).
  { unfold produce_acts. cbv zeta. unfold last_time in Hl. rewrite Hl, Hp, Hq, Hb. reflexivity. }
  cbv zeta.
  set (eb := {| b_txs := b; b_time := ts; b_signed := false |}).
  assert (E1 : step max gt s (IExecFail ts) =
               set_blocks (blocks s ++ [eb]) (set_released (released s ++ [b]) (set_queue q s))).
  { cbn [step item_acts]. unfold execfail_acts_of. rewrite Hup, EL. unfold commit_tail. cbn [until_exec fst].
    unfold apply_acts. cbn [fold_left apply_act apply_wr pred blocks set_released set_queue queue].
    rewrite Hq. cbn [tl]. rewrite <- Hlen, set_nth_length. reflexivity. }
  rewrite E1.
  assert (EO : observe max gt s (IExecFail ts) = (12%N, [WQDel b; WMeta; WBlock (S (th s)) b ts false])).
  { cbn [observe item_acts]. unfold execfail_acts_of. rewrite Hup, EL. reflexivity. }
  set (s1 := set_blocks (blocks s ++ [eb]) (set_released (released s ++ [b]) (set_queue q s))).
  assert (EL1 : produce_acts ts' s1 = (commit_tail (S (th s)) b ts, OCommitted)).
  { unfold produce_acts. cbv zeta. subst s1. cbn [th sh blocks set_blocks set_released set_queue].
    assert (X : exists lt', (match th s with O => Some None | S k => match nth_error (blocks s ++ [eb]) k with Some b1 => Some (Some (b_time b1)) | None => None end end) = Some lt').
    { destruct (th s) as [|k]; [eexists; reflexivity|].
      destruct (nth_error (blocks s ++ [eb]) k) eqn:E0; [eexists; reflexivity | apply nth_error_None in E0; rewrite app_length in E0; cbn in E0; lia]. }
    destruct X as [lt' ->]. rewrite <- Hlen at 1. rewrite nth_error_snoc, Hs, Nat.eqb_refl. reflexivity. }
  assert (E2 : step max gt s1 (IRun (AProduce ts')) =
               set_th (S (th s)) (set_sh (S (th s)) (set_blocks (blocks s ++ [{| b_txs := b; b_time := ts; b_signed := true |}])
                 (set_mem (filter (fun t => negb (memb t b)) (mem s1)) s1)))).
  { cbn [step item_acts acts_of pre fst]. replace (up s1) with true by (subst s1; cbn; symmetry; exact Hup).
    rewrite EL1. cbn [fst]. unfold commit_tail, apply_acts.
    cbn [fold_left apply_act apply_wr pred blocks set_mem set_blocks set_sh set_th].
    subst s1. cbn [blocks set_blocks set_released set_queue]. rewrite <- Hlen, set_nth_last. reflexivity. }
  rewrite E2.
  assert (EO2 : observe max gt s1 (IRun (AProduce ts')) = (3%N, [WBlock (S (th s)) b ts true; WState (S (th s)); WHeight (S (th s))])).
  { cbn [observe item_acts acts_of]. replace (up s1) with true by (subst s1; cbn; symmetry; exact Hup). rewrite EL1. reflexivity. }
  repeat split; try assumption; reflexivity.
Qed.
