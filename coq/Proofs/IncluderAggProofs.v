(* Proofs/IncluderAggProofs.v — the aggregator around the includer (Model/IncluderAgg.v), C07:
   refinement to Model/Includer.v; the marks a sequencer node sets are for blobs the DA layer holds at the marked
   height, whatever the DA layer answers (ids that come next to an error have no effect at all); the marks survive
   a clean stop / start for every configuration of the node's directories; and, with them, the liveness part of C07
   for an aggregator over histories without a process death. *)
From Coq Require Import String Arith NArith List Bool Lia ZifyBool ZifyN ZifyNat.
From Verif Require Import Model.Includer Proofs.IncluderProofs Model.IncluderScan Proofs.IncluderScanProofs Model.IncluderAgg.
Import ListNotations.
Open Scope N_scope.

(* ---- the cache files ------------------------------------------------------------------------------------- *)
Lemma dir_eqb_refl d : dir_eqb d d = true.
Proof. unfold dir_eqb. rewrite !String.eqb_refl. reflexivity. Qed.

Lemma fs_get_put d v f : fs_get (fs_put d v f) d = v.
Proof. unfold fs_put. cbn [fs_get]. rewrite dir_eqb_refl. reflexivity. Qed.

(* SaveCache writes where LoadCache reads, for every configuration *)
Theorem cache_dir_agrees : forall c, save_dir c = load_dir c.
Proof. reflexivity. Qed.

Lemma saved_is_loaded c v f : fs_get (fs_put (save_dir c) v f) (load_dir c) = v.
Proof. rewrite cache_dir_agrees. apply fs_get_put. Qed.

(* ---- histories ---------------------------------------------------------------------------------------------- *)
Lemma arun_snoc c b h i : arun c b (h ++ [i]) = astep (arun c b h) i.
Proof. unfold arun, arun_from. rewrite fold_left_app. reflexivity. Qed.

Lemma arun_app c b h h' : arun c b (h ++ h') = arun_from (arun c b h) h'.
Proof. unfold arun, arun_from. apply fold_left_app. Qed.

Lemma atrace_app : forall h s h', atrace s (h ++ h') = atrace s h ++ atrace (arun_from s h) h'.
Proof.
  induction h as [|i h IH]; intros s h'; [reflexivity|].
  cbn [app atrace]. rewrite IH, <- app_assoc. reflexivity.
Qed.

Lemma atrace_snoc c b h i :
  atrace (ainit c b) (h ++ [i]) = atrace (ainit c b) h ++ aitems (arun c b h) i.
Proof. rewrite atrace_app. cbn [atrace]. rewrite app_nil_r. reflexivity. Qed.

Lemma astep_cfg s i : a_cfg (astep s i) = a_cfg s.
Proof.
  destruct i; try reflexivity; cbn [astep].
  - destruct (sub (pending_h s) sc (a_wh s) (a_dal s)) as ((ms & w) & d). reflexivity.
  - destruct (sub (pending_d s) sc (a_wd s) (a_dal s)) as ((ms & w) & d). reflexivity.
Qed.

(* ---- one submission ------------------------------------------------------------------------------------------- *)
Lemma content_app_gen d ext h : h <= N.of_nat (length d) -> content (d ++ ext) h = content d h.
Proof.
  intros H. unfold content. destruct (h =? 0) eqn:E; [reflexivity|]. apply N.eqb_neq in E.
  apply app_nth1. lia.
Qed.

Lemma content_last d bl : content (d ++ [bl]) (N.of_nat (length (d ++ [bl]))) = bl.
Proof.
  unfold content. rewrite app_length. cbn [length].
  replace (N.of_nat (length d + 1) =? 0) with false by (symmetry; apply N.eqb_neq; lia).
  replace (N.to_nat (N.of_nat (length d + 1) - 1)) with (length d) by lia.
  rewrite app_nth2 by lia. rewrite Nat.sub_diag. reflexivity.
Qed.

Lemma da_keep_grows d bl : exists ext, da_keep d bl = d ++ ext.
Proof. destruct bl; [exists []; cbn; rewrite app_nil_r; reflexivity | exists [b :: bl]; reflexivity]. Qed.

Definition on_da_item (d : list (list blob)) (i : item) : Prop :=
  match i with
  | IMarkH id da => In (BH id) (content d da)
  | IMarkD id da => In (BD id) (content d da)
  | _ => True
  end.

Lemma on_da_item_grows d ext i : is_mark i = true -> on_da_item d i -> on_da_item (d ++ ext) i.
Proof.
  destruct i; cbn; try discriminate; intros _ H; pose proof (content_in _ _ _ H) as Hr;
    rewrite content_app_gen by lia; exact H.
Qed.

(* what one run of submitToDA does, for every fuel, pending list, answer script, watermark and DA layer:
   it emits mark events only; the DA layer only grows; every mark is for a blob the DA layer holds at the marked
   height; the watermark does not decrease *)
Lemma asubmit_spec : forall f rem sc wm d ms w dd,
  asubmit f rem sc wm d = (ms, w, dd) ->
  forallb is_mark ms = true /\ (exists ext, dd = d ++ ext) /\ wm <= w /\
  (forall i, In i ms -> on_da_item dd i).
Proof.
  induction f as [|f IH]; intros rem sc wm d ms w dd H; cbn [asubmit] in H.
  - injection H as <- <- <-. repeat split; [exists []; rewrite app_nil_r; reflexivity | lia | intros i []].
  - destruct (hd (AOk (N.of_nat (length rem))) sc) as [k|e ids kept].
    + destruct (firstn (N.to_nat k) rem) as [|t0 tr] eqn:Et.
      * exact (IH _ _ _ _ _ _ _ H).
      * set (taken := t0 :: tr) in *.
        set (d' := d ++ [map snd taken]) in *.
        set (da := N.of_nat (length d')) in *.
        assert (Hms : forall i, In i (mark_items da (map snd taken)) -> is_mark i = true /\ on_da_item d' i).
        { intros i Hi. pose proof (in_mark_items _ _ _ Hi) as Hm.
          destruct i; try (destruct Hm; fail); destruct Hm as (-> & Hin); (split; [reflexivity|]);
            cbn [on_da_item]; unfold da, d'; rewrite content_last; exact Hin. }
        destruct (skipn (N.to_nat k) rem) as [|r0 rr] eqn:Es.
        -- injection H as <- <- <-. repeat split.
           ++ exact (mark_items_marks da (map snd taken)).
           ++ exists [map snd taken]. reflexivity.
           ++ lia.
           ++ intros i Hi. apply (Hms i Hi).
        -- destruct (asubmit f (r0 :: rr) (tl sc) (N.max wm (fst (last taken (0, BJ)))) d') as ((ms' & w') & dd') eqn:Er.
           injection H as <- <- <-.
           destruct (IH _ _ _ _ _ _ _ Er) as (A & (ext & B) & C & D).
           repeat split.
           ++ rewrite forallb_app. apply andb_true_iff. split; [exact (mark_items_marks da (map snd taken)) | exact A].
           ++ exists ([map snd taken] ++ ext). rewrite B. unfold d'. rewrite <- app_assoc. reflexivity.
           ++ lia.
           ++ intros i Hi. apply in_app_or in Hi as [Hi|Hi]; [|apply D, Hi].
              destruct (Hms i Hi) as (Hm & Ho). rewrite B. apply on_da_item_grows; assumption.
    + destruct (da_keep_grows d (map snd (firstn (N.to_nat kept) rem))) as (ext & Ek).
      destruct e.
      1,2,4: destruct (IH _ _ _ _ _ _ _ H) as (A & (ext' & B) & C & D);
        (repeat split; [exact A | exists (ext ++ ext'); rewrite B, Ek, <- app_assoc; reflexivity | exact C | exact D]).
      injection H as <- <- <-. repeat split; [exists ext; exact Ek | lia | intros i []].
Qed.

Lemma sub_spec rem sc wm d ms w dd :
  sub rem sc wm d = (ms, w, dd) ->
  forallb is_mark ms = true /\ (exists ext, dd = d ++ ext) /\ wm <= w /\
  (forall i, In i ms -> on_da_item dd i).
Proof.
  unfold sub. destruct rem as [|x r].
  - intros H; injection H as <- <- <-. repeat split; [exists []; rewrite app_nil_r; reflexivity | lia | intros i []].
  - apply asubmit_spec.
Qed.

(* ids that come back next to an error have no effect whatever: not on the marks, not on the watermark, not on
   what is submitted next *)
Theorem ids_with_error_ignored : forall f rem sc wm d,
  asubmit f rem (map strip_ids sc) wm d = asubmit f rem sc wm d.
Proof.
  induction f as [|f IH]; intros rem sc wm d; [reflexivity|].
  cbn [asubmit]. destruct sc as [|a sc]; [reflexivity|].
  cbn [map hd tl]. destruct a as [k|e ids kept]; cbn [strip_ids].
  - destruct (firstn (N.to_nat k) rem); [apply IH|].
    destruct (skipn (N.to_nat k) rem); [reflexivity|]. rewrite IH. reflexivity.
  - destruct e; try apply IH. reflexivity.
Qed.

(* an answer with an error — any class, any number of ids — sets no mark and moves no watermark by itself: the
   submission continues (or, for a cancellation, ends) exactly as if the call had not been made, on the DA layer
   as the call left it *)
Theorem error_answer_marks_nothing : forall f rem sc wm d e ids kept,
  asubmit (S f) rem (AErr e ids kept :: sc) wm d =
  let d' := da_keep d (map snd (firstn (N.to_nat kept) rem)) in
  match e with ECancel => ([], wm, d') | _ => asubmit f rem sc wm d' end.
Proof. intros. destruct e; reflexivity. Qed.

(* ---- the invariant: the node's view of the saved marks is what lies in the directory it loads from ------------- *)
Definition AInv (s : anode) : Prop :=
  fs_get (a_fs s) (load_dir (a_cfg s)) = (sv_h (a_nd s), sv_d (a_nd s)).

Lemma run_marks_sv : forall its s, forallb is_mark its = true ->
  sv_h (run_from s its) = sv_h s /\ sv_d (run_from s its) = sv_d s.
Proof.
  induction its as [|i its IH]; intros s H; [split; reflexivity|].
  cbn [forallb] in H. apply andb_true_iff in H as (Hi & H).
  unfold run_from in *. cbn [fold_left]. destruct (IH (step s i) H) as (A & B). rewrite A, B.
  destruct i; try discriminate Hi; split; reflexivity.
Qed.

Lemma boot_is_boot_with n : boot n = boot_with n (sv_h n, sv_d n).
Proof. reflexivity. Qed.
Lemma boot_save_is_boot_with n : boot (save n) = boot_with n (hm n, dm n).
Proof. reflexivity. Qed.

Lemma astep_nd s i : AInv s -> a_nd (astep s i) = run_from (a_nd s) (aitems s i).
Proof.
  unfold AInv. intros I. destruct i as [b|sc|sc| |k|k|]; cbn [astep aitems].
  - reflexivity.
  - destruct (sub (pending_h s) sc (a_wh s) (a_dal s)) as ((ms & w) & d). reflexivity.
  - destruct (sub (pending_d s) sc (a_wd s) (a_dal s)) as ((ms & w) & d). reflexivity.
  - reflexivity.
  - cbn [with_nd a_nd run_from fold_left step]. rewrite I, boot_is_boot_with.
    destruct (dying_fields (a_nd s) k) as (_ & _ & _ & A & B & _). rewrite A, B. reflexivity.
  - unfold stop_start. cbn [a_nd run_from fold_left step]. rewrite saved_is_loaded, boot_save_is_boot_with. reflexivity.
  - unfold stop_start. cbn [a_nd run_from fold_left step]. rewrite saved_is_loaded, boot_save_is_boot_with. reflexivity.
Qed.

Lemma astep_inv s i : AInv s -> AInv (astep s i).
Proof.
  intros I. pose proof (astep_nd s i I) as Hn. unfold AInv in *.
  destruct i as [b|sc|sc| |k|k|].
  - cbn [astep with_nd a_fs a_cfg a_nd aitems run_from fold_left step sv_h sv_d]. exact I.
  - cbn [astep aitems] in *. destruct (sub (pending_h s) sc (a_wh s) (a_dal s)) as ((ms & w) & d) eqn:E.
    cbn [a_fs a_cfg a_nd fst] in *. destruct (sub_spec _ _ _ _ _ _ _ E) as (A & _).
    destruct (run_marks_sv ms (a_nd s) A) as (B & C). rewrite B, C. exact I.
  - cbn [astep aitems] in *. destruct (sub (pending_d s) sc (a_wd s) (a_dal s)) as ((ms & w) & d) eqn:E.
    cbn [a_fs a_cfg a_nd fst] in *. destruct (sub_spec _ _ _ _ _ _ _ E) as (A & _).
    destruct (run_marks_sv ms (a_nd s) A) as (B & C). rewrite B, C. exact I.
  - cbn [astep with_nd a_fs a_cfg a_nd aitems run_from fold_left step].
    destruct (apply_effs_fields (include_effs (a_nd s)) (a_nd s)) as (_ & _ & _ & A & B & _). rewrite A, B. exact I.
  - cbn [astep with_nd a_fs a_cfg a_nd boot_with sv_h sv_d]. destruct (fs_get (a_fs s) (load_dir (a_cfg s))); reflexivity.
  - cbn [astep stop_start a_fs a_cfg a_nd boot_with sv_h sv_d]. rewrite saved_is_loaded. reflexivity.
  - cbn [astep stop_start a_fs a_cfg a_nd boot_with sv_h sv_d]. rewrite saved_is_loaded. reflexivity.
Qed.

Lemma ainit_inv c b : AInv (ainit c b).
Proof. reflexivity. Qed.

Lemma arun_from_inv : forall h s, AInv s -> AInv (arun_from s h).
Proof.
  induction h as [|i h IH]; intros s I; [exact I|].
  unfold arun_from in *. cbn [fold_left]. apply IH, astep_inv, I.
Qed.

Lemma arun_inv c b h : AInv (arun c b h).
Proof. apply arun_from_inv, ainit_inv. Qed.

Lemma atrace_refines : forall h s, AInv s -> a_nd (arun_from s h) = run_from (a_nd s) (atrace s h).
Proof.
  induction h as [|i h IH]; intros s I; [reflexivity|].
  unfold arun_from in *. cbn [fold_left atrace]. rewrite (IH _ (astep_inv s i I)), (astep_nd s i I), run_from_app.
  reflexivity.
Qed.

(* the includer part of an aggregator after history h = the includer model after the translated history, for
   every configuration *)
Theorem aggregator_refines : forall c b h, a_nd (arun c b h) = run b (atrace (ainit c b) h).
Proof. intros c b h. unfold arun. rewrite (atrace_refines h _ (ainit_inv c b)). reflexivity. Qed.

(* ---- C07: the marks of an aggregator are for blobs the DA layer holds at the marked height ------------------- *)
Lemma adal_grows s i : exists ext, a_dal (astep s i) = a_dal s ++ ext.
Proof.
  destruct i as [b|sc|sc| |k|k|]; cbn [astep]; try (exists []; cbn; rewrite app_nil_r; reflexivity).
  - destruct (sub (pending_h s) sc (a_wh s) (a_dal s)) as ((ms & w) & d) eqn:E.
    destruct (sub_spec _ _ _ _ _ _ _ E) as (_ & X & _). exact X.
  - destruct (sub (pending_d s) sc (a_wd s) (a_dal s)) as ((ms & w) & d) eqn:E.
    destruct (sub_spec _ _ _ _ _ _ _ E) as (_ & X & _). exact X.
Qed.

Theorem amarks_on_da : forall c b h i,
  In i (atrace (ainit c b) h) -> on_da_item (a_dal (arun c b h)) i.
Proof.
  intros c b. induction h as [|j h IH] using rev_ind; intros i Hi; [destruct Hi|].
  rewrite atrace_snoc in Hi. rewrite arun_snoc. apply in_app_or in Hi as [Hi|Hi].
  - specialize (IH i Hi). destruct (adal_grows (arun c b h) j) as (ext & E). rewrite E.
    destruct i; try exact I; apply on_da_item_grows; auto.
  - set (s := arun c b h) in *.
    destruct j as [x|sc|sc| |k|k|]; cbn [aitems] in Hi;
      try (destruct Hi as [<-|[]]; exact I).
    + cbn [astep]. destruct (sub (pending_h s) sc (a_wh s) (a_dal s)) as ((ms & w) & d) eqn:E.
      destruct (sub_spec _ _ _ _ _ _ _ E) as (_ & _ & _ & X). cbn [a_dal]. apply X. exact Hi.
    + cbn [astep]. destruct (sub (pending_d s) sc (a_wd s) (a_dal s)) as ((ms & w) & d) eqn:E.
      destruct (sub_spec _ _ _ _ _ _ _ E) as (_ & _ & _ & X). cbn [a_dal]. apply X. exact Hi.
Qed.

(* every mark that is in the caches of an aggregator at any time — set by this process or loaded from the cache
   files — is for a blob the DA layer holds at the marked DA height *)
Theorem aggregator_marks_sound : forall c b h id da, let s := arun c b h in
  (mget (hm (a_nd s)) id = Some da -> In (BH id) (content (a_dal s) da)) /\
  (mget (dm (a_nd s)) id = Some da -> In (BD id) (content (a_dal s) da)).
Proof.
  intros c b h id da s. subst s.
  destruct (run_inv b (atrace (ainit c b) h)) as ((I & _) & _). rewrite <- aggregator_refines in I.
  destruct (i_prov _ _ I) as (A & _ & C & _).
  split; intros H; [apply A in H | apply C in H]; apply (amarks_on_da c b h _ H).
Qed.

(* every height an aggregator reports is a stored block whose header and (unless empty) data ARE on the DA layer
   at the DA heights recorded under rhb/<n>/h and rhb/<n>/d *)
Theorem aggregator_sound : forall c b h n, let s := arun c b h in
  b < n <= rep (a_nd s) ->
  exists x hda dda,
    block_at (a_nd s) n = Some x /\
    meta_get (meta (a_nd s)) (KH n) = Some hda /\ meta_get (meta (a_nd s)) (KT n) = Some dda /\
    In (BH (bh x)) (content (a_dal s) hda) /\
    (if bempty x then dda = hda else In (BD (bd x)) (content (a_dal s) dda)).
Proof.
  intros c b h n s Hn. subst s. rewrite aggregator_refines in *.
  destruct (sound b (atrace (ainit c b) h) n Hn) as (x & hda & dda & A & B & C & D & E).
  exists x, hda, dda. repeat split; try assumption.
  - apply (amarks_on_da c b h _ D).
  - destruct (bempty x); [exact E | apply (amarks_on_da c b h _ E)].
Qed.

(* ---- C07: the marks survive a clean stop / start, for every configuration ------------------------------------ *)
Theorem restart_keeps_marks : forall c b h k,
  let s := arun c b h in
  hm (a_nd (arun c b (h ++ [ARestart]))) = hm (a_nd s) /\ dm (a_nd (arun c b (h ++ [ARestart]))) = dm (a_nd s) /\
  hm (a_nd (arun c b (h ++ [AFault k]))) = hm (a_nd s) /\ dm (a_nd (arun c b (h ++ [AFault k]))) = dm (a_nd s).
Proof.
  intros c b h k s. subst s. rewrite !arun_snoc. cbn [astep stop_start a_nd boot_with hm dm].
  rewrite !saved_is_loaded. cbn [fst snd].
  destruct (dying_fields (a_nd (arun c b h)) k) as (_ & A & B & _). rewrite A, B. repeat split.
Qed.

(* ---- C07 liveness on an aggregator, over histories without a process death --------------------------------- *)
(* strictly increasing heights, all above [lo] *)
Fixpoint incN (lo : N) (l : list N) : Prop :=
  match l with [] => True | h :: r => lo < h /\ incN h r end.

Lemma incN_weaken : forall l lo lo', lo' <= lo -> incN lo l -> incN lo' l.
Proof. destruct l as [|h r]; intros lo lo' H Hi; [exact Hi|]. cbn in *. destruct Hi; split; [lia | assumption]. Qed.

Lemma incN_all_gt : forall l lo h, incN lo l -> In h l -> lo < h.
Proof.
  induction l as [|x r IH]; intros lo h I Hin; [destruct Hin|]. cbn in I. destruct I as (A & B).
  destruct Hin as [<-|Hin]; [exact A|]. pose proof (IH x h B Hin). lia.
Qed.

(* a non-empty prefix: its last height is above lo, bounds the prefix, and the rest lies above it *)
Lemma incN_app : forall l1 l2 lo, l1 <> [] -> incN lo (l1 ++ l2) ->
  lo < last l1 0 /\ (forall h, In h l1 -> h <= last l1 0) /\ incN (last l1 0) l2 /\ In (last l1 0) l1.
Proof.
  induction l1 as [|x r IH]; intros l2 lo Hne I; [congruence|].
  cbn [app incN] in I. destruct I as (A & B).
  destruct r as [|y r'].
  - cbn [last]. repeat split; [exact A | intros h [<-|[]]; lia | exact B | left; reflexivity].
  - assert (Hne' : y :: r' <> []) by discriminate.
    destruct (IH l2 x Hne' B) as (C & D & E & F).
    change (last (x :: y :: r') 0) with (last (y :: r') 0).
    repeat split; [lia | | exact E | right; exact F].
    intros h [<-|Hin]; [lia | apply D, Hin].
Qed.

Lemma last_map_fst : forall (l : list (N * blob)), last (map fst l) 0 = fst (last l (0, BJ)).
Proof.
  induction l as [|x r IH]; [reflexivity|]. destruct r as [|y r']; [reflexivity|].
  change (last (map fst (x :: y :: r')) 0) with (last (map fst (y :: r')) 0).
  change (last (x :: y :: r') (0, BJ)) with (last (y :: r') (0, BJ)). exact IH.
Qed.

(* the mark event a submitted blob gets *)
Definition has_mark (ms : list item) (x : blob) : Prop :=
  match x with
  | BH id => exists da, In (IMarkH id da) ms
  | BD id => exists da, In (IMarkD id da) ms
  | _ => True
  end.

Lemma has_mark_app_l ms ms' x : has_mark ms x -> has_mark (ms ++ ms') x.
Proof. destruct x; cbn; try (intros (da & H); exists da; apply in_or_app; left; exact H); auto. Qed.
Lemma has_mark_app_r ms ms' x : has_mark ms' x -> has_mark (ms ++ ms') x.
Proof. destruct x; cbn; try (intros (da & H); exists da; apply in_or_app; right; exact H); auto. Qed.

Lemma mark_items_has da : forall bl x, In x bl -> has_mark (mark_items da bl) x.
Proof.
  induction bl as [|y r IH]; intros x Hin; [destruct Hin|].
  rewrite mark_items_cons. destruct Hin as [->|Hin]; [apply has_mark_app_l | apply has_mark_app_r, IH, Hin].
  destruct x; cbn; try (exists da; left; reflexivity); exact I.
Qed.

(* submitToDA on a pending list with increasing heights above the watermark: the new watermark is the old one or
   the height of a submitted item, and every item at or below it got its mark *)
Lemma asubmit_covers : forall f rem sc wm d ms w dd,
  incN wm (map fst rem) ->
  asubmit f rem sc wm d = (ms, w, dd) ->
  (w = wm \/ In w (map fst rem)) /\
  (forall x, In x rem -> fst x <= w -> has_mark ms (snd x)).
Proof.
  induction f as [|f IH]; intros rem sc wm d ms w dd Hinc H; cbn [asubmit] in H.
  - injection H as <- <- <-. split; [left; reflexivity|].
    intros x Hx Hle. pose proof (incN_all_gt _ _ _ Hinc (in_map fst _ _ Hx)). lia.
  - destruct (hd (AOk (N.of_nat (length rem))) sc) as [k|e ids kept].
    + destruct (firstn (N.to_nat k) rem) as [|t0 tr] eqn:Et.
      * exact (IH _ _ _ _ _ _ _ Hinc H).
      * set (taken := t0 :: tr) in *.
        assert (Hsplit : rem = taken ++ skipn (N.to_nat k) rem) by (rewrite <- Et; symmetry; apply firstn_skipn).
        assert (Hne : map fst taken <> []) by discriminate.
        pose proof Hinc as Hinc'. rewrite Hsplit, map_app in Hinc'.
        destruct (incN_app _ _ _ Hne Hinc') as (A & B & C & D).
        rewrite last_map_fst in A, B, C, D.
        set (m := fst (last taken (0, BJ))) in *.
        assert (Hmax : N.max wm m = m) by lia.
        assert (Hm_in : In m (map fst rem)) by (rewrite Hsplit, map_app; apply in_or_app; left; exact D).
        destruct (skipn (N.to_nat k) rem) as [|r0 rr] eqn:Es.
        -- injection H as <- <- <-. rewrite Hmax. split; [right; exact Hm_in|].
           intros x Hx _. rewrite Hsplit, app_nil_r in Hx.
           exact (mark_items_has _ (map snd taken) (snd x) (in_map snd _ _ Hx)).
        -- destruct (asubmit f (r0 :: rr) (tl sc) (N.max wm m) (d ++ [map snd taken])) as ((ms' & w') & dd') eqn:Er.
           injection H as <- <- <-. rewrite Hmax in Er.
           destruct (IH _ _ _ _ _ _ _ C Er) as (E & F).
           split.
           ++ right. destruct E as [->|E]; [exact Hm_in|]. rewrite Hsplit, map_app. apply in_or_app. right. exact E.
           ++ intros x Hx Hle. rewrite Hsplit in Hx. apply in_app_or in Hx as [Hx|Hx].
              ** apply has_mark_app_l. exact (mark_items_has _ (map snd taken) (snd x) (in_map snd _ _ Hx)).
              ** apply has_mark_app_r, F; assumption.
    + destruct e.
      1,2,4: exact (IH _ _ _ _ _ _ _ Hinc H).
      injection H as <- <- <-. split; [left; reflexivity|].
      intros x Hx Hle. pose proof (incN_all_gt _ _ _ Hinc (in_map fst _ _ Hx)). lia.
Qed.

Lemma sub_covers rem sc wm d ms w dd :
  incN wm (map fst rem) ->
  sub rem sc wm d = (ms, w, dd) ->
  (w = wm \/ In w (map fst rem)) /\
  (forall x, In x rem -> fst x <= w -> has_mark ms (snd x)).
Proof.
  unfold sub. destruct rem as [|x r].
  - intros _ H. injection H as <- <- <-. split; [left; reflexivity | intros x []].
  - apply asubmit_covers.
Qed.

(* a mark event in a list of mark events is in the cache afterwards *)
Lemma mark_in_run : forall ms s, forallb is_mark ms = true ->
  (forall id da, In (IMarkH id da) ms -> mget (hm (run_from s ms)) id <> None) /\
  (forall id da, In (IMarkD id da) ms -> mget (dm (run_from s ms)) id <> None).
Proof.
  induction ms as [|i ms IH]; intros s H; [split; intros id da []|].
  cbn [forallb] in H. apply andb_true_iff in H as (Hi & H).
  change (run_from s (i :: ms)) with (run_from (step s i) ms).
  destruct (IH (step s i) H) as (A & B).
  destruct (run_marks ms (step s i) H) as (_ & _ & C & D).
  split; intros id da [->|Hin]; eauto.
  - apply C. cbn [step hm mget]. rewrite N.eqb_refl. discriminate.
  - apply D. cbn [step dm mget]. rewrite N.eqb_refl. discriminate.
Qed.

(* the pending lists *)
Lemma with_heights_nth : forall bs n j x, nth_error bs j = Some x -> nth_error (with_heights n bs) j = Some (n + N.of_nat j, x).
Proof.
  induction bs as [|b r IH]; intros n j x H; [destruct j; discriminate|].
  destruct j as [|j]; cbn in *.
  - injection H as ->. f_equal. f_equal. lia.
  - rewrite (IH (n + 1) j x H). f_equal. f_equal. lia.
Qed.

Lemma with_heights_in : forall bs n h x, In (h, x) (with_heights n bs) ->
  exists j, nth_error bs j = Some x /\ h = n + N.of_nat j.
Proof.
  induction bs as [|b r IH]; intros n h x H; [destruct H|].
  cbn [with_heights] in H. destruct H as [E|H].
  - injection E as <- <-. exists 0%nat. split; [reflexivity | cbn; lia].
  - destruct (IH _ _ _ H) as (j & A & B). exists (S j). split; [exact A | lia].
Qed.

Lemma with_heights_inc : forall bs n lo, lo < n -> incN lo (map fst (with_heights n bs)).
Proof.
  induction bs as [|b r IH]; intros n lo H; [exact I|]. cbn. split; [exact H | apply IH; lia].
Qed.

Lemma incN_filter (f : N * blk -> bool) : forall l lo, incN lo (map fst l) -> incN lo (map fst (filter f l)).
Proof.
  induction l as [|x r IH]; intros lo H; [exact I|]. cbn [map incN] in H. destruct H as (A & B).
  cbn [filter]. destruct (f x).
  - cbn [map incN]. split; [exact A | apply IH, B].
  - apply (incN_weaken _ (fst x)); [lia | apply IH, B].
Qed.

Lemma pending_h_fst s : map fst (pending_h s) = map fst (pending (a_nd s) (a_wh s)).
Proof. unfold pending_h. rewrite map_map. reflexivity. Qed.
Lemma pending_d_fst s :
  map fst (pending_d s) = map fst (filter (fun p => negb (bempty (snd p))) (pending (a_nd s) (a_wd s))).
Proof. unfold pending_d. rewrite map_map. reflexivity. Qed.

(* the block of height base+j+1 above the watermark is in the pending range *)
Lemma pending_has nd wm j x :
  base nd <= wm -> nth_error (chain nd) j = Some x -> wm < base nd + N.of_nat j + 1 ->
  In (base nd + N.of_nat j + 1, x) (pending nd wm).
Proof.
  intros Hb Hx Hgt. unfold pending.
  set (k := N.to_nat (wm - base nd)).
  assert (Hj : nth_error (skipn k (chain nd)) (j - k) = Some x).
  { rewrite nth_error_skipn'. replace (k + (j - k))%nat with j by lia. exact Hx. }
  pose proof (with_heights_nth _ (wm + 1) _ _ Hj) as Hn.
  replace (wm + 1 + N.of_nat (j - k)) with (base nd + N.of_nat j + 1) in Hn by lia.
  eapply nth_error_In, Hn.
Qed.

Lemma pending_bound nd wm h x : base nd <= wm -> In (h, x) (pending nd wm) -> h <= sheight nd.
Proof.
  intros Hb H. unfold pending in H. apply with_heights_in in H as (j & A & ->).
  assert (Hl : (j < length (skipn (N.to_nat (wm - base nd)) (chain nd)))%nat) by (apply nth_error_Some; congruence).
  rewrite skipn_length in Hl. unfold sheight. lia.
Qed.

Record LInv (s : anode) : Prop := {
  l_wh : base (a_nd s) <= a_wh s <= sheight (a_nd s);
  l_wd : base (a_nd s) <= a_wd s <= sheight (a_nd s);
  (* every block at or below the header watermark has its header mark in the cache of this process *)
  l_hm : forall j x, nth_error (chain (a_nd s)) j = Some x -> base (a_nd s) + N.of_nat j + 1 <= a_wh s ->
           mget (hm (a_nd s)) (bh x) <> None;
  (* every non-empty block at or below the data watermark has its data mark *)
  l_dm : forall j x, nth_error (chain (a_nd s)) j = Some x -> bempty x = false ->
           base (a_nd s) + N.of_nat j + 1 <= a_wd s -> mget (dm (a_nd s)) (bd x) <> None
}.

Lemma ainit_linv c b : LInv (ainit c b).
Proof.
  constructor; cbn [ainit a_nd a_wh a_wd init base chain].
  - unfold sheight; cbn; lia.
  - unfold sheight; cbn; lia.
  - intros j x H; destruct j; discriminate H.
  - intros j x H; destruct j; discriminate H.
Qed.

(* the chain grows, the watermarks stay, no mark is lost *)
Lemma linv_keep s s' ext :
  LInv s -> base (a_nd s') = base (a_nd s) -> chain (a_nd s') = chain (a_nd s) ++ ext ->
  a_wh s' = a_wh s -> a_wd s' = a_wd s ->
  (forall id, mget (hm (a_nd s)) id <> None -> mget (hm (a_nd s')) id <> None) ->
  (forall id, mget (dm (a_nd s)) id <> None -> mget (dm (a_nd s')) id <> None) ->
  LInv s'.
Proof.
  intros [Hwh Hwd Hh Hd] Eb Ec Ewh Ewd Kh Kd.
  assert (Hs : sheight (a_nd s) <= sheight (a_nd s')).
  { unfold sheight. rewrite Eb, Ec, app_length. lia. }
  assert (Hnth : forall j x, nth_error (chain (a_nd s')) j = Some x ->
            base (a_nd s) + N.of_nat j + 1 <= sheight (a_nd s) -> nth_error (chain (a_nd s)) j = Some x).
  { intros j x Hx Hle. rewrite Ec in Hx. unfold sheight in Hle. rewrite nth_error_app1 in Hx; [exact Hx | lia]. }
  constructor; rewrite ?Eb, ?Ewh, ?Ewd.
  - lia.
  - lia.
  - intros j x Hx Hle. apply Kh, (Hh j x); [apply Hnth; [exact Hx | lia] | exact Hle].
  - intros j x Hx He Hle. apply Kd, (Hd j x); [apply Hnth; [exact Hx | lia] | exact He | exact Hle].
Qed.

Lemma astep_linv s i : LInv s -> is_acrash i = false -> LInv (astep s i).
Proof.
  intros L Hc.
  destruct i as [b|sc|sc| |k|k|]; try discriminate Hc.
  - (* AAppend *)
    destruct (step_keeps (a_nd s) (IAppend b) eq_refl) as (A & B & C & D).
    apply (linv_keep s _ [b] L); cbn [astep aitems with_nd a_nd a_wh a_wd run_from fold_left]; auto.
  - (* ASubH *)
    cbn [astep]. destruct (sub (pending_h s) sc (a_wh s) (a_dal s)) as ((ms & w) & d) eqn:E.
    destruct (sub_spec _ _ _ _ _ _ _ E) as (Hm & _ & Hle & _).
    destruct L as [Hwh Hwd Hh Hd].
    assert (Hinc : incN (a_wh s) (map fst (pending_h s))).
    { rewrite pending_h_fst. unfold pending. apply with_heights_inc. lia. }
    destruct (sub_covers _ _ _ _ _ _ _ Hinc E) as (Hw & Hcov).
    destruct (run_marks ms (a_nd s) Hm) as (Ec & Eb & Kh & Kd).
    destruct (mark_in_run ms (a_nd s) Hm) as (Mh & _).
    assert (Hwle : w <= sheight (a_nd s)).
    { destruct Hw as [->|Hw]; [lia|]. rewrite pending_h_fst in Hw. apply in_map_iff in Hw as ((h & x) & <- & Hin).
      apply (pending_bound _ _ _ _ (proj1 Hwh) Hin). }
    constructor; cbn [a_nd a_wh a_wd]; unfold sheight in *; rewrite ?Ec, ?Eb.
    + lia.
    + exact Hwd.
    + intros j x Hx Hjw.
      destruct (N.le_gt_cases (base (a_nd s) + N.of_nat j + 1) (a_wh s)) as [Hold|Hnew].
      * apply Kh, (Hh j x Hx Hold).
      * pose proof (pending_has (a_nd s) (a_wh s) j x (proj1 Hwh) Hx Hnew) as Hin.
        assert (Hin' : In (base (a_nd s) + N.of_nat j + 1, BH (bh x)) (pending_h s)).
        { unfold pending_h. apply in_map_iff. exists (base (a_nd s) + N.of_nat j + 1, x). split; [reflexivity | exact Hin]. }
        destruct (Hcov _ Hin' Hjw) as (da & Hda). apply (Mh _ _ Hda).
    + intros j x Hx He Hjw. apply Kd, (Hd j x Hx He Hjw).
  - (* ASubD *)
    cbn [astep]. destruct (sub (pending_d s) sc (a_wd s) (a_dal s)) as ((ms & w) & d) eqn:E.
    destruct (sub_spec _ _ _ _ _ _ _ E) as (Hm & _ & Hle & _).
    destruct L as [Hwh Hwd Hh Hd].
    assert (Hinc : incN (a_wd s) (map fst (pending_d s))).
    { rewrite pending_d_fst. apply incN_filter. unfold pending. apply with_heights_inc. lia. }
    destruct (sub_covers _ _ _ _ _ _ _ Hinc E) as (Hw & Hcov).
    destruct (run_marks ms (a_nd s) Hm) as (Ec & Eb & Kh & Kd).
    destruct (mark_in_run ms (a_nd s) Hm) as (_ & Md).
    assert (Hwle : w <= sheight (a_nd s)).
    { destruct Hw as [->|Hw]; [lia|]. rewrite pending_d_fst in Hw. apply in_map_iff in Hw as ((h & x) & <- & Hin).
      apply filter_In in Hin as (Hin & _). apply (pending_bound _ _ _ _ (proj1 Hwd) Hin). }
    constructor; cbn [a_nd a_wh a_wd]; unfold sheight in *; rewrite ?Ec, ?Eb.
    + exact Hwh.
    + lia.
    + intros j x Hx Hjw. apply Kh, (Hh j x Hx Hjw).
    + intros j x Hx He Hjw.
      destruct (N.le_gt_cases (base (a_nd s) + N.of_nat j + 1) (a_wd s)) as [Hold|Hnew].
      * apply Kd, (Hd j x Hx He Hold).
      * pose proof (pending_has (a_nd s) (a_wd s) j x (proj1 Hwd) Hx Hnew) as Hin.
        assert (Hin' : In (base (a_nd s) + N.of_nat j + 1, BD (bd x)) (pending_d s)).
        { unfold pending_d. apply in_map_iff. exists (base (a_nd s) + N.of_nat j + 1, x). split; [reflexivity|].
          apply filter_In. split; [exact Hin | cbn [snd]; rewrite He; reflexivity]. }
        destruct (Hcov _ Hin' Hjw) as (da & Hda). apply (Md _ _ Hda).
  - (* AInclude *)
    destruct (step_keeps (a_nd s) IInclude eq_refl) as (A & B & C & D).
    apply (linv_keep s _ [] L); cbn [astep aitems with_nd a_nd a_wh a_wd run_from fold_left]; auto.
  - (* AFault: the marks of the dying process are saved and loaded again *)
    destruct (dying_fields (a_nd s) k) as (A & B & C & _ & _ & F).
    apply (linv_keep s _ [] L); cbn [astep stop_start a_nd a_wh a_wd boot_with base chain hm dm];
      rewrite ?saved_is_loaded; cbn [fst snd]; rewrite ?A, ?B, ?C, ?F, ?app_nil_r; auto.
  - (* ARestart *)
    apply (linv_keep s _ [] L); cbn [astep stop_start a_nd a_wh a_wd boot_with base chain hm dm];
      rewrite ?saved_is_loaded; cbn [fst snd]; rewrite ?app_nil_r; auto.
Qed.

Lemma arun_from_linv : forall h s, LInv s -> no_crash h = true -> LInv (arun_from s h).
Proof.
  induction h as [|i h IH]; intros s L H; [exact L|].
  unfold no_crash in H. cbn [forallb] in H. apply andb_true_iff in H as (Hi & H).
  unfold arun_from in *. cbn [fold_left]. apply IH; [|exact H].
  apply astep_linv; [exact L | destruct (is_acrash i); [discriminate Hi | reflexivity]].
Qed.

Lemma in_firstn_nth {A} : forall (l : list A) k x, In x (firstn k l) -> exists j, (j < k)%nat /\ nth_error l j = Some x.
Proof.
  induction l as [|a l IH]; intros k x H; [rewrite firstn_nil in H; destruct H|].
  destruct k; [destruct H|]. cbn [firstn] in H. destruct H as [->|H].
  - exists 0%nat. split; [lia | reflexivity].
  - destruct (IH k x H) as (j & A1 & A2). exists (S j). split; [lia | exact A2].
Qed.

(* For EVERY history of an aggregator without a process death — any interleaving of blocks produced, submission
   iterations under any answers of the DA layer, includer runs, failing effects, clean stops and starts — and EVERY
   configuration of its directories: once the header watermark has reached n (the DA layer accepted the headers up
   to n) and every non-empty block up to n lies at or below the data watermark, one includer run reports at least n. *)
Theorem aggregator_eventually : forall c b h n, let s := arun c b h in
  no_crash h = true ->
  n <= a_wh s ->
  data_submitted s n = true ->
  n <= rep (a_nd (arun c b (h ++ [AInclude]))).
Proof.
  intros c b h n s Hnc Hn Hd. subst s.
  rewrite arun_snoc. cbn [astep aitems with_nd a_nd run_from fold_left]. unfold rep.
  set (s := arun c b h) in *.
  assert (L : LInv s) by (apply arun_from_linv; [apply ainit_linv | exact Hnc]).
  destruct (run_inv b (atrace (ainit c b) h)) as (Q & Hb). rewrite <- aggregator_refines in Q, Hb. fold s in Q, Hb.
  destruct L as [Hwh Hwd Hh Hdm].
  apply (include_reaches _ _ n Q); [lia|].
  intros x Hx. apply in_firstn_nth in Hx as (j & Hj & Hx).
  assert (Hle : base (a_nd s) + N.of_nat j + 1 <= n) by lia.
  unfold inclb. pose proof (Hh j x Hx ltac:(lia)) as Mh.
  destruct (mget (hm (a_nd s)) (bh x)); [|congruence].
  destruct (bempty x) eqn:He; [reflexivity|]. cbn [orb].
  unfold data_submitted in Hd. rewrite forallb_forall in Hd.
  pose proof (with_heights_nth _ (base (a_nd s) + 1) _ _ Hx) as Hn'.
  pose proof (nth_error_in_firstn _ _ (N.to_nat (n - base (a_nd s))) _ Hn' Hj) as Hin.
  specialize (Hd _ Hin). cbn [fst snd] in Hd. rewrite He in Hd. cbn [orb] in Hd.
  pose proof (Hdm j x Hx He ltac:(lia)) as Md.
  destruct (mget (dm (a_nd s)) (bd x)); [reflexivity | congruence].
Qed.
