(* Proofs/IncluderAggProofs.v — the aggregator around the includer (Model/IncluderAgg.v), C07:
   refinement to Model/Includer.v; the marks a sequencer node sets are for blobs the DA layer holds at the marked
   height, whatever the DA layer answers (ids that come next to an error have no effect at all); the marks survive
   a clean stop / start for every configuration of the node's directories; and, with them, the liveness part of C07
   for an aggregator over histories without a process death. *)
From Coq Require Import String Arith NArith List Bool Lia ZifyBool ZifyN ZifyNat.
From Verif Require Import Model.Includer Proofs.IncluderProofs Model.IncluderScan Proofs.IncluderScanProofs Model.IncluderAgg.
Import ListNotations.
Open Scope N_scope.

(* ---- the cache files ------------------------------------------------------------------------------------- *)
Lemma dir_eqb_refl d : dir_eqb d d = true.
Proof. unfold dir_eqb. rewrite !String.eqb_refl. reflexivity. Qed.

Lemma fs_get_put d v f : fs_get (fs_put d v f) d = v.
Proof. unfold fs_put. cbn [fs_get]. rewrite dir_eqb_refl. reflexivity. Qed.

(* SaveCache writes where LoadCache reads, for every configuration *)
Theorem cache_dir_agrees : forall c, save_dir c = load_dir c.
Proof. reflexivity. Qed.

Lemma saved_is_loaded c v f : fs_get (fs_put (save_dir c) v f) (load_dir c) = v.
Proof. rewrite cache_dir_agrees. apply fs_get_put. Qed.

(* ---- histories ---------------------------------------------------------------------------------------------- *)
Lemma arun_snoc c b h i : arun c b (h ++ [i]) = astep (arun c b h) i.
Proof. unfold arun, arun_from. rewrite fold_left_app. reflexivity. Qed.

Lemma arun_app c b h h' : arun c b (h ++ h') = arun_from (arun c b h) h'.
Proof. unfold arun, arun_from. apply fold_left_app. Qed.

Lemma atrace_app : forall h s h', atrace s (h ++ h') = atrace s h ++ atrace (arun_from s h) h'.
Proof.
  induction h as [|i h IH]; intros s h'; [reflexivity|].
  cbn [app atrace]. rewrite IH, <- app_assoc. reflexivity.
Qed.

Lemma atrace_snoc c b h i :
  atrace (ainit c b) (h ++ [i]) = atrace (ainit c b) h ++ aitems (arun c b h) i.
Proof. rewrite atrace_app. cbn [atrace]. rewrite app_nil_r. reflexivity. Qed.

Lemma astep_cfg s i : a_cfg (astep s i) = a_cfg s.
Proof.
  destruct i; try reflexivity; cbn [astep].
  - destruct (sub (pending_h s) sc (a_wh s) (a_dal s)) as ((ms & w) & d). reflexivity.
  - destruct (sub (pending_d s) sc (a_wd s) (a_dal s)) as ((ms & w) & d). reflexivity.
Qed.

(* ---- one submission ------------------------------------------------------------------------------------------- *)
Lemma content_app_gen d ext h : h <= N.of_nat (length d) -> content (d ++ ext) h = content d h.
Proof.
  intros H. unfold content. destruct (h =? 0) eqn:E; [reflexivity|]. apply N.eqb_neq in E.
  apply app_nth1. lia.
Qed.

Lemma content_last d bl : content (d ++ [bl]) (N.of_nat (length (d ++ [bl]))) = bl.
Proof.
  unfold content. rewrite app_length. cbn [length].
  replace (N.of_nat (length d + 1) =? 0) with false by (symmetry; apply N.eqb_neq; lia).
  replace (N.to_nat (N.of_nat (length d + 1) - 1)) with (length d) by lia.
  rewrite app_nth2 by lia. rewrite Nat.sub_diag. reflexivity.
Qed.

Lemma da_keep_grows d bl : exists ext, da_keep d bl = d ++ ext.
Proof. destruct bl; [exists []; cbn; rewrite app_nil_r; reflexivity | exists [b :: bl]; reflexivity]. Qed.

Definition on_da_item (d : list (list blob)) (i : item) : Prop :=
  match i with
  | IMarkH id da => In (BH id) (content d da)
  | IMarkD id da => In (BD id) (content d da)
  | _ => True
  end.

Lemma on_da_item_grows d ext i : is_mark i = true -> on_da_item d i -> on_da_item (d ++ ext) i.
Proof.
  destruct i; cbn; try discriminate; intros _ H; pose proof (content_in _ _ _ H) as Hr;
    rewrite content_app_gen by lia; exact H.
Qed.

(* what one run of submitToDA does, for every fuel, pending list, answer script, watermark and DA layer:
   it emits mark events only; the DA layer only grows; every mark is for a blob the DA layer holds at the marked
   height; the watermark does not decrease *)
Lemma asubmit_spec : forall f rem sc wm d ms w dd,
  asubmit f rem sc wm d = (ms, w, dd) ->
  forallb is_mark ms = true /\ (exists ext, dd = d ++ ext) /\ wm <= w /\
  (forall i, In i ms -> on_da_item dd i).
Proof.
  induction f as [|f IH]; intros rem sc wm d ms w dd H; cbn [asubmit] in H.
  - injection H as <- <- <-. repeat split; [exists []; rewrite app_nil_r; reflexivity | lia | intros i []].
  - destruct (hd (AOk (N.of_nat (length rem))) sc) as [k|e ids kept].
    + destruct (firstn (N.to_nat k) rem) as [|t0 tr] eqn:Et.
      * exact (IH _ _ _ _ _ _ _ H).
      * set (taken := t0 :: tr) in *.
        set (d' := d ++ [map snd taken]) in *.
        set (da := N.of_nat (length d')) in *.
        assert (Hms : forall i, In i (mark_items da (map snd taken)) -> is_mark i = true /\ on_da_item d' i).
        { intros i Hi. pose proof (in_mark_items _ _ _ Hi) as Hm.
          destruct i; try (destruct Hm; fail); destruct Hm as (-> & Hin); (split; [reflexivity|]);
            cbn [on_da_item]; unfold da, d'; rewrite content_last; exact Hin. }
        destruct (skipn (N.to_nat k) rem) as [|r0 rr] eqn:Es.
        -- injection H as <- <- <-. repeat split.
           ++ apply mark_items_marks.
           ++ exists [map snd taken]. reflexivity.
           ++ lia.
           ++ intros i Hi. apply (Hms i Hi).
        -- destruct (asubmit f (r0 :: rr) (tl sc) (N.max wm (fst (last taken (0, BJ)))) d') as ((ms' & w') & dd') eqn:Er.
           injection H as <- <- <-.
           destruct (IH _ _ _ _ _ _ _ Er) as (A & (ext & B) & C & D).
           repeat split.
           ++ rewrite forallb_app, A, mark_items_marks. reflexivity.
           ++ exists ([map snd taken] ++ ext). rewrite B. unfold d'. rewrite <- app_assoc. reflexivity.
           ++ lia.
           ++ intros i Hi. apply in_app_or in Hi as [Hi|Hi]; [|apply D, Hi].
              destruct (Hms i Hi) as (Hm & Ho). rewrite B. apply on_da_item_grows; assumption.
    + destruct (da_keep_grows d (map snd (firstn (N.to_nat kept) rem))) as (ext & Ek).
      destruct e.
      1,2,4: destruct (IH _ _ _ _ _ _ _ H) as (A & (ext' & B) & C & D);
        (repeat split; [exact A | exists (ext ++ ext'); rewrite B, Ek, <- app_assoc; reflexivity | exact C | exact D]).
      injection H as <- <- <-. repeat split; [exists ext; exact Ek | lia | intros i []].
Qed.

Lemma sub_spec rem sc wm d ms w dd :
  sub rem sc wm d = (ms, w, dd) ->
  forallb is_mark ms = true /\ (exists ext, dd = d ++ ext) /\ wm <= w /\
  (forall i, In i ms -> on_da_item dd i).
Proof.
  unfold sub. destruct rem as [|x r].
  - intros H; injection H as <- <- <-. repeat split; [exists []; rewrite app_nil_r; reflexivity | lia | intros i []].
  - apply asubmit_spec.
Qed.

(* ids that come back next to an error have no effect whatever: not on the marks, not on the watermark, not on
   what is submitted next *)
Theorem ids_with_error_ignored : forall f rem sc wm d,
  asubmit f rem (map strip_ids sc) wm d = asubmit f rem sc wm d.
Proof.
  induction f as [|f IH]; intros rem sc wm d; [reflexivity|].
  cbn [asubmit]. destruct sc as [|a sc]; [cbn [map hd tl]; rewrite <- (IH _ [] _ _) at 1; reflexivity|].
  cbn [map hd tl]. destruct a as [k|e ids kept]; cbn [strip_ids].
  - destruct (firstn (N.to_nat k) rem); [apply IH|].
    destruct (skipn (N.to_nat k) rem); [reflexivity|]. rewrite IH. reflexivity.
  - destruct e; try apply IH. reflexivity.
Qed.

(* an answer with an error — any class, any number of ids — sets no mark and moves no watermark by itself: the
   submission continues (or, for a cancellation, ends) exactly as if the call had not been made, on the DA layer
   as the call left it *)
Theorem error_answer_marks_nothing : forall f rem sc wm d e ids kept,
  asubmit (S f) rem (AErr e ids kept :: sc) wm d =
  let d' := da_keep d (map snd (firstn (N.to_nat kept) rem)) in
  match e with ECancel => ([], wm, d') | _ => asubmit f rem sc wm d' end.
Proof. intros. destruct e; reflexivity. Qed.

(* ---- the invariant: the node's view of the saved marks is what lies in the directory it loads from ------------- *)
Definition AInv (s : anode) : Prop :=
  fs_get (a_fs s) (load_dir (a_cfg s)) = (sv_h (a_nd s), sv_d (a_nd s)).

Lemma run_marks_sv : forall its s, forallb is_mark its = true ->
  sv_h (run_from s its) = sv_h s /\ sv_d (run_from s its) = sv_d s.
Proof.
  induction its as [|i its IH]; intros s H; [split; reflexivity|].
  cbn [forallb] in H. apply andb_true_iff in H as (Hi & H).
  unfold run_from in *. cbn [fold_left]. destruct (IH (step s i) H) as (A & B). rewrite A, B.
  destruct i; try discriminate Hi; split; reflexivity.
Qed.

Lemma boot_is_boot_with n : boot n = boot_with n (sv_h n, sv_d n).
Proof. reflexivity. Qed.
Lemma boot_save_is_boot_with n : boot (save n) = boot_with n (hm n, dm n).
Proof. reflexivity. Qed.

Lemma astep_nd s i : AInv s -> a_nd (astep s i) = run_from (a_nd s) (aitems s i).
Proof.
  unfold AInv. intros I. destruct i as [b|sc|sc| |k|k|]; cbn [astep aitems].
  - reflexivity.
  - destruct (sub (pending_h s) sc (a_wh s) (a_dal s)) as ((ms & w) & d). reflexivity.
  - destruct (sub (pending_d s) sc (a_wd s) (a_dal s)) as ((ms & w) & d). reflexivity.
  - reflexivity.
  - cbn [with_nd a_nd run_from fold_left step]. rewrite I, boot_is_boot_with.
    destruct (dying_fields (a_nd s) k) as (_ & _ & _ & A & B & _). rewrite A, B. reflexivity.
  - unfold stop_start. cbn [a_nd run_from fold_left step]. rewrite saved_is_loaded, boot_save_is_boot_with. reflexivity.
  - unfold stop_start. cbn [a_nd run_from fold_left step]. rewrite saved_is_loaded, boot_save_is_boot_with. reflexivity.
Qed.

Lemma astep_inv s i : AInv s -> AInv (astep s i).
Proof.
  intros I. pose proof (astep_nd s i I) as Hn. unfold AInv in *.
  destruct i as [b|sc|sc| |k|k|].
  - cbn [astep with_nd a_fs a_cfg a_nd aitems run_from fold_left step sv_h sv_d]. exact I.
  - cbn [astep aitems] in *. destruct (sub (pending_h s) sc (a_wh s) (a_dal s)) as ((ms & w) & d) eqn:E.
    cbn [a_fs a_cfg a_nd fst] in *. destruct (sub_spec _ _ _ _ _ _ _ E) as (A & _).
    destruct (run_marks_sv ms (a_nd s) A) as (B & C). rewrite B, C. exact I.
  - cbn [astep aitems] in *. destruct (sub (pending_d s) sc (a_wd s) (a_dal s)) as ((ms & w) & d) eqn:E.
    cbn [a_fs a_cfg a_nd fst] in *. destruct (sub_spec _ _ _ _ _ _ _ E) as (A & _).
    destruct (run_marks_sv ms (a_nd s) A) as (B & C). rewrite B, C. exact I.
  - cbn [astep with_nd a_fs a_cfg a_nd aitems run_from fold_left step].
    destruct (apply_effs_fields (include_effs (a_nd s)) (a_nd s)) as (_ & _ & _ & A & B & _). rewrite A, B. exact I.
  - cbn [astep with_nd a_fs a_cfg a_nd boot_with sv_h sv_d]. destruct (fs_get (a_fs s) (load_dir (a_cfg s))); reflexivity.
  - cbn [astep stop_start a_fs a_cfg a_nd boot_with sv_h sv_d]. rewrite saved_is_loaded. reflexivity.
  - cbn [astep stop_start a_fs a_cfg a_nd boot_with sv_h sv_d]. rewrite saved_is_loaded. reflexivity.
Qed.

Lemma ainit_inv c b : AInv (ainit c b).
Proof. reflexivity. Qed.

Lemma arun_from_inv : forall h s, AInv s -> AInv (arun_from s h).
Proof.
  induction h as [|i h IH]; intros s I; [exact I|].
  unfold arun_from in *. cbn [fold_left]. apply IH, astep_inv, I.
Qed.

Lemma arun_inv c b h : AInv (arun c b h).
Proof. apply arun_from_inv, ainit_inv. Qed.

Lemma atrace_refines : forall h s, AInv s -> a_nd (arun_from s h) = run_from (a_nd s) (atrace s h).
Proof.
  induction h as [|i h IH]; intros s I; [reflexivity|].
  unfold arun_from in *. cbn [fold_left atrace]. rewrite (IH _ (astep_inv s i I)), (astep_nd s i I), run_from_app.
  reflexivity.
Qed.

(* the includer part of an aggregator after history h = the includer model after the translated history, for
   every configuration *)
Theorem aggregator_refines : forall c b h, a_nd (arun c b h) = run b (atrace (ainit c b) h).
Proof. intros c b h. unfold arun. rewrite (atrace_refines h _ (ainit_inv c b)). reflexivity. Qed.

(* ---- C07: the marks of an aggregator are for blobs the DA layer holds at the marked height ------------------- *)
Lemma adal_grows s i : exists ext, a_dal (astep s i) = a_dal s ++ ext.
Proof.
  destruct i as [b|sc|sc| |k|k|]; cbn [astep]; try (exists []; cbn; rewrite app_nil_r; reflexivity).
  - destruct (sub (pending_h s) sc (a_wh s) (a_dal s)) as ((ms & w) & d) eqn:E.
    destruct (sub_spec _ _ _ _ _ _ _ E) as (_ & X & _). exact X.
  - destruct (sub (pending_d s) sc (a_wd s) (a_dal s)) as ((ms & w) & d) eqn:E.
    destruct (sub_spec _ _ _ _ _ _ _ E) as (_ & X & _). exact X.
Qed.

Theorem amarks_on_da : forall c b h i,
  In i (atrace (ainit c b) h) -> on_da_item (a_dal (arun c b h)) i.
Proof.
  intros c b. induction h as [|j h IH] using rev_ind; intros i Hi; [destruct Hi|].
  rewrite atrace_snoc in Hi. rewrite arun_snoc. apply in_app_or in Hi as [Hi|Hi].
  - specialize (IH i Hi). destruct (adal_grows (arun c b h) j) as (ext & E). rewrite E.
    destruct i; try exact I; apply on_da_item_grows; auto.
  - set (s := arun c b h) in *.
    destruct j as [x|sc|sc| |k|k|]; cbn [aitems] in Hi;
      try (destruct Hi as [<-|[]]; exact I).
    + cbn [astep]. destruct (sub (pending_h s) sc (a_wh s) (a_dal s)) as ((ms & w) & d) eqn:E.
      destruct (sub_spec _ _ _ _ _ _ _ E) as (_ & _ & _ & X). cbn [a_dal]. apply X. exact Hi.
    + cbn [astep]. destruct (sub (pending_d s) sc (a_wd s) (a_dal s)) as ((ms & w) & d) eqn:E.
      destruct (sub_spec _ _ _ _ _ _ _ E) as (_ & _ & _ & X). cbn [a_dal]. apply X. exact Hi.
Qed.

(* every mark that is in the caches of an aggregator at any time — set by this process or loaded from the cache
   files — is for a blob the DA layer holds at the marked DA height *)
Theorem aggregator_marks_sound : forall c b h id da, let s := arun c b h in
  (mget (hm (a_nd s)) id = Some da -> In (BH id) (content (a_dal s) da)) /\
  (mget (dm (a_nd s)) id = Some da -> In (BD id) (content (a_dal s) da)).
Proof.
  intros c b h id da s. subst s.
  destruct (run_inv b (atrace (ainit c b) h)) as ((I & _) & _). rewrite <- aggregator_refines in I.
  destruct (i_prov _ _ I) as (A & _ & C & _).
  split; intros H; [apply A in H | apply C in H]; apply (amarks_on_da c b h _ H).
Qed.

(* every height an aggregator reports is a stored block whose header and (unless empty) data ARE on the DA layer
   at the DA heights recorded under rhb/<n>/h and rhb/<n>/d *)
Theorem aggregator_sound : forall c b h n, let s := arun c b h in
  b < n <= rep (a_nd s) ->
  exists x hda dda,
    block_at (a_nd s) n = Some x /\
    meta_get (meta (a_nd s)) (KH n) = Some hda /\ meta_get (meta (a_nd s)) (KT n) = Some dda /\
    In (BH (bh x)) (content (a_dal s) hda) /\
    (if bempty x then dda = hda else In (BD (bd x)) (content (a_dal s) dda)).
Proof.
  intros c b h n s Hn. subst s. rewrite aggregator_refines in *.
  destruct (sound b (atrace (ainit c b) h) n Hn) as (x & hda & dda & A & B & C & D & E).
  exists x, hda, dda. repeat split; try assumption.
  - apply (amarks_on_da c b h _ D).
  - destruct (bempty x); [exact E | apply (amarks_on_da c b h _ E)].
Qed.

(* ---- C07: the marks survive a clean stop / start, for every configuration ------------------------------------ *)
Theorem restart_keeps_marks : forall c b h k,
  let s := arun c b h in
  hm (a_nd (arun c b (h ++ [ARestart]))) = hm (a_nd s) /\ dm (a_nd (arun c b (h ++ [ARestart]))) = dm (a_nd s) /\
  hm (a_nd (arun c b (h ++ [AFault k]))) = hm (a_nd s) /\ dm (a_nd (arun c b (h ++ [AFault k]))) = dm (a_nd s).
Proof.
  intros c b h k s. subst s. rewrite !arun_snoc. cbn [astep stop_start a_nd boot_with hm dm].
  rewrite !saved_is_loaded. cbn [fst snd].
  destruct (dying_fields (a_nd (arun c b h)) k) as (_ & A & B & _). rewrite A, B. repeat split.
Qed.
