(* Proofs/AdmissionCommitProofs.v — lemmas about Model/AdmissionCommit.v (property C03): the bytes that
   DACommitment hashes determine the transaction list, hence the symbolic commitment of Model/Types.v (the list
   of transaction ids) is what the code's commitment identifies; and what that gives for the blocks a node applies. *)
From Coq Require Import NArith ZArith List Bool Lia.
From Verif Require Import Model.Types Model.Admission Model.AdmissionCommit Proofs.AdmissionProofs.
Import ListNotations.
Local Open Scope N_scope.

(* ---- boolean equalities ------------------------------------------------------------------------- *)
Lemma bytes_eqb_eq : forall a b, bytes_eqb a b = true <-> a = b.
Proof.
  induction a as [|x a IH]; intros [|y b]; cbn; split; intros H; try discriminate; try reflexivity.
  - apply andb_true_iff in H as [Hx Hr]. apply N.eqb_eq in Hx. apply IH in Hr. subst. reflexivity.
  - inversion H; subst. rewrite N.eqb_refl. cbn. apply IH. reflexivity.
Qed.

Lemma btxs_eqb_eq : forall a b, btxs_eqb a b = true <-> a = b.
Proof.
  induction a as [|x a IH]; intros [|y b]; cbn; split; intros H; try discriminate; try reflexivity.
  - apply andb_true_iff in H as [Hx Hr]. apply bytes_eqb_eq in Hx. apply IH in Hr. subst. reflexivity.
  - inversion H; subst. apply andb_true_iff. split; [apply bytes_eqb_eq|apply IH]; reflexivity.
Qed.

Lemma commitment_eqb_eq : forall a b : commitment, commitment_eqb a b = true <-> a = b.
Proof.
  unfold commitment_eqb.
  induction a as [|x a IH]; intros [|y b]; cbn; split; intros H; try discriminate; try reflexivity.
  - apply andb_true_iff in H as [Hx Hr]. apply N.eqb_eq in Hx. apply IH in Hr. subst. reflexivity.
  - inversion H; subst. rewrite N.eqb_refl. cbn. apply IH. reflexivity.
Qed.

(* ---- the varint is prefix-free: what follows it is found again -------------------------------------- *)
Lemma divmod128_eq : forall n m, n / 128 = m / 128 -> n mod 128 = m mod 128 -> n = m.
Proof.
  intros n m Hd Hm.
  rewrite (N.div_mod n 128), (N.div_mod m 128) by discriminate.
  rewrite Hd, Hm. reflexivity.
Qed.

Lemma cons_inj : forall (A : Type) (x y : A) l l', x :: l = y :: l' -> x = y /\ l = l'.
Proof. intros A x y l l' H. inversion H. split; reflexivity. Qed.

Lemma varint_from_S : forall f n,
  varint_from (S f) n = if n <? 128 then [n] else (128 + n mod 128) :: varint_from f (n / 128).
Proof. reflexivity. Qed.

Lemma varint_from_prefix_free : forall f n m r r',
  varint_from f n ++ r = varint_from f m ++ r' -> n = m /\ r = r'.
Proof.
  induction f as [|f IH]; intros n m r r' H.
  - change (n :: r = m :: r') in H. apply cons_inj in H as [Hh Ht]. split; assumption.
  - rewrite !varint_from_S in H.
    destruct (n <? 128) eqn:En; destruct (m <? 128) eqn:Em; rewrite <- ?app_comm_cons, ?app_nil_l in H;
      apply cons_inj in H as [Hh Ht].
    + split; assumption.
    + exfalso. apply N.ltb_lt in En. generalize dependent (m mod 128). intros; lia.
    + exfalso. apply N.ltb_lt in Em. generalize dependent (n mod 128). intros; lia.
    + apply IH in Ht as [Hd Hr]. split; [|exact Hr].
      apply divmod128_eq; [exact Hd|]. apply N.add_cancel_l in Hh. exact Hh.
Qed.

Lemma app_same_length : forall (A : Type) (a b r r' : list A),
  length a = length b -> a ++ r = b ++ r' -> a = b /\ r = r'.
Proof.
  induction a as [|x a IH]; intros [|y b] r r' Hl H; cbn in Hl; try discriminate.
  - split; [reflexivity|exact H].
  - cbn [app] in H. inversion H; subst. injection Hl as Hl. destruct (IH b r r' Hl H2) as [-> ->].
    split; reflexivity.
Qed.

(* a framed transaction followed by anything: the transaction and the rest are determined *)
Lemma tx_frame_prefix_free : forall t t' r r',
  tx_frame t ++ r = tx_frame t' ++ r' -> t = t' /\ r = r'.
Proof.
  intros t t' r r' H. unfold tx_frame in H. rewrite <- !app_comm_cons in H.
  apply cons_inj in H as [_ H1]. rewrite <- !app_assoc in H1. unfold varint in H1.
  apply varint_from_prefix_free in H1 as [Hl Hr].
  apply Nat2N.inj in Hl. exact (app_same_length _ t t' r r' Hl Hr).
Qed.

(* ---- the encoding, hence the commitment, determines the transaction list ------------------------------ *)
Lemma txs_encoding_inj : forall a b, txs_encoding a = txs_encoding b -> a = b.
Proof.
  unfold txs_encoding.
  induction a as [|t a IH]; intros [|t' b] H; cbn [map concat] in H.
  - reflexivity.
  - unfold tx_frame in H. rewrite <- app_comm_cons in H. discriminate.
  - unfold tx_frame in H. rewrite <- app_comm_cons in H. discriminate.
  - apply tx_frame_prefix_free in H as [Ht Hr]. subst. f_equal. apply IH. exact Hr.
Qed.

Lemma commit_preimage_inj : forall a b, commit_preimage a = commit_preimage b -> a = b.
Proof. unfold commit_preimage. intros a b H. apply cons_inj in H as [_ H]. apply txs_encoding_inj. exact H. Qed.

Lemma same_commitment_iff : forall a b, same_commitment a b = true <-> a = b.
Proof.
  intros a b. unfold same_commitment. rewrite bytes_eqb_eq. split.
  - apply commit_preimage_inj.
  - intros ->. reflexivity.
Qed.

Lemma same_commitment_btxs_eqb : forall a b, same_commitment a b = btxs_eqb a b.
Proof.
  intros a b. destruct (btxs_eqb a b) eqn:E.
  - apply same_commitment_iff. apply btxs_eqb_eq. exact E.
  - destruct (same_commitment a b) eqn:E2; [|reflexivity].
    apply same_commitment_iff in E2. apply btxs_eqb_eq in E2. congruence.
Qed.

(* only the empty list has the commitment of the empty block *)
Lemma empty_commitment_only_empty : forall a, commit_preimage a = empty_preimage -> a = [].
Proof. intros a H. apply (commit_preimage_inj a []). exact H. Qed.

(* ---- the symbolic commitment of Model/Types.v is sound ----------------------------------------------------- *)
(* transaction ids stand for byte strings, different ids for different strings (the harness's pool): two lists of
   ids have the same byte-level commitment exactly when they are the same list of ids *)
Lemma map_inj_on : forall (A B : Type) (f : A -> B) a b,
  (forall x y, In x a -> In y b -> f x = f y -> x = y) -> map f a = map f b -> a = b.
Proof.
  induction a as [|x a IH]; intros [|y b] Hi H; cbn in H; try discriminate; [reflexivity|].
  inversion H as [[Hx Hr]]. f_equal.
  - apply Hi; [left; reflexivity|left; reflexivity|exact Hx].
  - apply IH; [|exact Hr]. intros u v Hu Hv. apply Hi; right; assumption.
Qed.

Lemma symbolic_commitment_sound : forall (I : tx -> btx) (a b : list tx),
  (forall x y, In x a -> In y b -> I x = I y -> x = y) ->
  (commit_preimage (map I a) = commit_preimage (map I b) <-> commitment_eqb a b = true).
Proof.
  intros I a b Hi. rewrite commitment_eqb_eq. split.
  - intros H. apply commit_preimage_inj in H. exact (map_inj_on _ _ I a b Hi H).
  - intros ->. reflexivity.
Qed.

(* ---- what the header/data check gives ----------------------------------------------------------------------- *)
(* types.Validate passes: the data's transaction list is the one the header commits to *)
Lemma validate_pair_txs : forall sh d, validate_pair sh d = true -> d_txs d = h_data (sh_hdr sh).
Proof.
  intros sh d H. unfold validate_pair in H. apply andb_true_iff in H as [_ H].
  apply commitment_eqb_eq. exact H.
Qed.

Lemma validate_txs : forall s sh d, validate s sh d = true -> d_txs d = h_data (sh_hdr sh).
Proof.
  intros s sh d H. unfold validate in H. repeat (apply andb_true_iff in H as [H ?]).
  apply validate_pair_txs. assumption.
Qed.

(* at the level of bytes: any transaction list (as bytes) that has the commitment found in the header IS the
   byte image of the data that passed the check against that header *)
Lemma validate_pair_bytes : forall (I : tx -> btx) sh d, validate_pair sh d = true ->
  forall bl : list btx, commit_preimage bl = commit_preimage (map I (h_data (sh_hdr sh))) -> bl = map I (d_txs d).
Proof.
  intros I sh d H bl Hc. rewrite (validate_pair_txs sh d H). apply commit_preimage_inj. exact Hc.
Qed.

Lemma data_under_header_full : forall (I : tx -> btx) sh d, validate_pair sh d = true ->
  d_txs d = h_data (sh_hdr sh) /\
  forall bl : list btx, commit_preimage bl = commit_preimage (map I (h_data (sh_hdr sh))) -> bl = map I (d_txs d).
Proof. intros I sh d H. split; [apply validate_pair_txs; exact H|apply validate_pair_bytes; exact H]. Qed.

(* every block a full node applies and stores, whatever the traffic (DA and P2P, any origin, any order): its header
   is signed by the proposer and its transactions are the list that header commits to — so (bytes) the one list of
   byte strings with the signed commitment *)
Lemma applied_txs_full : forall pk g, g_proposer g = Addr pk -> forall now tb l s, sync_inv pk s ->
  forall sh d, In (sh, d) (n_applied (node_final g now tb s l)) ->
  signed_by pk sh = true /\ d_txs d = h_data (sh_hdr sh).
Proof.
  intros pk g Hg now tb l s Hs sh d Hin.
  destruct (applied_signed_full pk g Hg now tb l s Hs) as [_ Ha].
  rewrite Forall_forall in Ha. destruct (Ha _ Hin) as [Hsig Hc]. cbn [fst snd] in *.
  split; [exact Hsig|]. apply commitment_eqb_eq. exact Hc.
Qed.

Lemma applied_bytes_full : forall pk g, g_proposer g = Addr pk -> forall (I : tx -> btx) now tb l s, sync_inv pk s ->
  forall sh d, In (sh, d) (n_applied (node_final g now tb s l)) ->
  signed_by pk sh = true /\ d_txs d = h_data (sh_hdr sh) /\
  forall bl : list btx, commit_preimage bl = commit_preimage (map I (h_data (sh_hdr sh))) -> bl = map I (d_txs d).
Proof.
  intros pk g Hg I now tb l s Hs sh d Hin.
  destruct (applied_txs_full pk g Hg now tb l s Hs sh d Hin) as [Hsig Ht].
  split; [exact Hsig|]. split; [exact Ht|]. intros bl Hc. rewrite Ht. apply commit_preimage_inj. exact Hc.
Qed.

(* ---- why the framing matters: the bare concatenation does not determine the list ------------------------------ *)
Lemma unframed_not_binding : exists a b : list btx, unframed_preimage a = unframed_preimage b /\ a <> b.
Proof. exists [[1; 2]; [3]], [[1]; [2; 3]]. split; [reflexivity|discriminate]. Qed.

(* ---- witnesses --------------------------------------------------------------------------------------------- *)
Module WC.
(* the transactions of AdmissionProofs.W as bytes; 7 and 8 are the proposer's bytes of block 2 cut one byte further *)
Definition p : pool := [ (5, [10; 11; 12]); (6, [13; 14]); (7, [10; 11; 12; 13]); (8, [14]); (9, []) ].
(* the re-cut list, gossiped for block 2 by a third party *)
Definition RD : data := {| d_meta := Some {| m_chain := 7; m_height := 2; m_time := 2000 |}; d_txs := [7; 8] |}.
(* the proposer's list with an empty transaction in front *)
Definition ED : data := {| d_meta := Some {| m_chain := 7; m_height := 2; m_time := 2000 |}; d_txs := [9; 5; 6] |}.
Definition recut_p2p : list item := [ IInitH W.sh1; IInitD W.D1; IGossipD RD true; IGossipH W.sh2; IGossipD W.D2 true ].
Lemma p_inj_56_78 : forall x y, In x [5; 6] -> In y [7; 8] -> pool_get p x = pool_get p y -> x = y.
Proof. intros x y [<-|[<-|[]]] [<-|[<-|[]]]; vm_compute; intros H; discriminate H. Qed.
End WC.
