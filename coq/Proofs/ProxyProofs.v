(* Proofs/ProxyProofs.v — lemmas about Model/Proxy.v (C16). *)
From Coq Require Import String Ascii NArith List Bool Lia ZifyBool ZifyN ZifyNat.
From Verif Require Import Model.Proxy.
Import ListNotations.
Open Scope string_scope.
Open Scope list_scope.

(* ---- strings ---------------------------------------------------------------------------------------- *)
Lemma prefix_refl : forall s, String.prefix s s = true.
Proof.
  induction s as [|a r IH]; cbn [String.prefix]; [reflexivity|].
  destruct (ascii_dec a a) as [_|n]; [exact IH | contradiction].
Qed.

Lemma contains_refl : forall s, contains s s = true.
Proof. intros [|a r]; cbn [contains]; rewrite prefix_refl; reflexivity. Qed.

(* ---- sentinels ---------------------------------------------------------------------------------------- *)
Lemma sentinel_eqb_eq : forall a b, sentinel_eqb a b = true <-> a = b.
Proof. intros a b; split; [destruct a, b; cbn; intros H; try reflexivity; discriminate | intros ->; destruct b; reflexivity]. Qed.

Lemma sentinel_eqb_refl : forall a, sentinel_eqb a a = true.
Proof. destruct a; reflexivity. Qed.

Lemma existsb_filter : forall (f : sentinel -> bool) s l,
  existsb (sentinel_eqb s) (filter f l) = f s && existsb (sentinel_eqb s) l.
Proof.
  intros f s l; induction l as [|x r IH]; cbn [filter existsb].
  - rewrite andb_false_r; reflexivity.
  - destruct (f x) eqn:Fx; cbn [existsb]; rewrite IH.
    + destruct (sentinel_eqb s x) eqn:E.
      * apply sentinel_eqb_eq in E; subst x; rewrite Fx; reflexivity.
      * cbn [orb]; reflexivity.
    + destruct (sentinel_eqb s x) eqn:E.
      * apply sentinel_eqb_eq in E; subst x; rewrite Fx; reflexivity.
      * cbn [orb]; reflexivity.
Qed.

Lemma in_all_sentinels : forall s, existsb (sentinel_eqb s) all_sentinels = true.
Proof. destruct s; reflexivity. Qed.

Lemma is_sent_filter : forall f c m s, is_sent (mk_err (filter f all_sentinels) c m) s = f s.
Proof.
  intros; unfold is_sent; cbn [e_is]; rewrite existsb_filter, in_all_sentinels, andb_true_r; reflexivity.
Qed.

(* ---- submit: error classes survive the wire ------------------------------------------------------------ *)
Lemma wfb_parts : forall T e, wfb T e = true ->
  (e_ctx e || is_sent e SCanceled = contains (e_msg e) (t_ctx T) || contains (e_msg e) (txt T SCanceled))
  /\ is_sent e STimedOut = contains (e_msg e) (txt T STimedOut)
  /\ is_sent e SMempool = contains (e_msg e) (txt T SMempool)
  /\ is_sent e SSeq = contains (e_msg e) (txt T SSeq)
  /\ is_sent e STooBig = contains (e_msg e) (txt T STooBig)
  /\ is_sent e SDeadline = contains (e_msg e) (txt T SDeadline).
Proof.
  intros T e H; unfold wfb, switch_sentinels in H; cbn [forallb] in H.
  rewrite !andb_true_iff in H; destruct H as (Hc & H1 & H2 & H3 & H4 & H5 & _).
  repeat match goal with X : Bool.eqb _ _ = true |- _ => apply eqb_prop in X end.
  repeat split; assumption.
Qed.

Lemma classify_wire : forall T e, wfb T e = true ->
  classify_submit (client_submit_err T (wire_err e)) = classify_submit e.
Proof.
  intros T e H; destruct (wfb_parts T e H) as (Hc & H1 & H2 & H3 & H4 & H5).
  unfold client_submit_err, wire_err; cbn [e_msg e_ctx].
  destruct (contains (e_msg e) (t_ctx T)) eqn:C.
  - (* the client returns context.Canceled *)
    unfold classify_submit at 1; cbn [ctx_err e_ctx orb].
    unfold classify_submit; rewrite Hc; cbn [orb]; reflexivity.
  - unfold classify_submit; cbn [e_ctx]; rewrite !is_sent_filter.
    assert (N0 : forall s, is_sent (mk_err [] false (e_msg e)) s = false) by reflexivity.
    rewrite !N0, !orb_false_r, Hc, H1, H2, H3, H4, H5; cbn [orb]; reflexivity.
Qed.

(* the size filter keeps everything that fits *)
Lemma filter_fits : forall l max cur, (cur + sumN l <= max)%N -> filter_loop max cur l = (l, false).
Proof.
  induction l as [|b r IH]; intros max cur H; cbn [filter_loop sumN] in *; [reflexivity|].
  destruct (max <? b)%N eqn:E1; [lia|].
  destruct (max <? cur + b)%N eqn:E2; [lia|].
  rewrite IH by lia; reflexivity.
Qed.

Definition in_domain_answer (T : table) (r : sresult) : Prop :=
  match r with SFail e => wfb T e = true | SRes _ _ => True end.

Lemma submit_transparent : forall T, table_ok T = true -> forall (b : backend) max sizes cancelled,
  (sumN sizes <= max)%N ->
  in_domain_answer T (b sizes) ->
  (sizes = [] -> cancelled = false /\ exists h, b [] = SRes [] h) ->
  fst (proxied_submit T max b cancelled sizes) = fst (direct_submit T b cancelled sizes).
Proof.
  intros T OK b max sizes cancelled Hfit Hdom Hempty.
  unfold proxied_submit, direct_submit; cbn [fst].
  rewrite (filter_fits sizes max 0) by lia; cbn [fst snd].
  destruct sizes as [|x r].
  - destruct (Hempty eq_refl) as [-> [h Hb]]; unfold honour_s; rewrite Hb; reflexivity.
  - unfold rpc_submit, honour_s; destruct cancelled; cbn [fst].
    + (* transport failure vs ctx.Err() from the backend *)
      unfold client_sresult, transport_cancel_err, client_submit_err; cbn [e_msg].
      rewrite contains_refl; reflexivity.
    + destruct (b (x :: r)) as [ids h|e] eqn:B; cbn [wire_sresult client_sresult]; [reflexivity|].
      unfold server_err; cbn [submit_helper]; rewrite (classify_wire T e Hdom); reflexivity.
Qed.

(* every error the DA interface defines is in the domain, for a usable table *)
Lemma table_ok_sentinels : forall T, table_ok T = true -> forall s, wfb T (sent_err T s) = true.
Proof.
  intros T H s; unfold table_ok in H.
  rewrite !andb_true_iff in H; destruct H as [[[H _] _] _].
  rewrite forallb_forall in H; apply H; destruct s; cbn; tauto.
Qed.

Lemma table_ok_ctx : forall T, table_ok T = true -> wfb T (ctx_err T) = true.
Proof. intros T H; unfold table_ok in H; rewrite !andb_true_iff in H; destruct H as [[[_ H] _] _]; exact H. Qed.

Lemma table_ok_retrieve : forall T, table_ok T = true ->
  contains (t_ctx T) (txt T SNotFound) = false /\ contains (t_ctx T) (txt T SFuture) = false.
Proof.
  intros T H; unfold table_ok in H; rewrite !andb_true_iff in H; destruct H as [[[_ _] H1] H2].
  split; apply negb_true_iff; assumption.
Qed.

Lemma error_classes : forall T, table_ok T = true ->
  (forall s, classify_submit (client_submit_err T (wire_err (sent_err T s))) = classify_submit (sent_err T s))
  /\ classify_submit (client_submit_err T (wire_err (ctx_err T))) = StCanceled
  /\ classify_submit (sent_err T STimedOut) = StNotIncluded
  /\ classify_submit (sent_err T SMempool) = StMempool
  /\ classify_submit (sent_err T SSeq) = StSeq
  /\ classify_submit (sent_err T STooBig) = StTooBig
  /\ classify_submit (sent_err T SDeadline) = StDeadline
  /\ classify_submit (sent_err T SCanceled) = StCanceled
  /\ classify_submit (ctx_err T) = StCanceled.
Proof.
  intros T H; split; [|split]; [| |repeat split].
  - intros s; apply classify_wire, table_ok_sentinels, H.
  - rewrite classify_wire by (apply table_ok_ctx, H); reflexivity.
Qed.

(* ---- submit: the longest prefix that fits --------------------------------------------------------------- *)
Lemma filter_spec : forall l max cur, (cur <= max)%N ->
  exists k, (k <= length l)%nat
    /\ (cur + sumN (firstn k l) <= max)%N
    /\ ((k < length l)%nat -> (max < cur + sumN (firstn (S k) l))%N)
    /\ (snd (filter_loop max cur l) = false -> fst (filter_loop max cur l) = firstn k l)
    /\ (snd (filter_loop max cur l) = true <-> ((k < length l)%nat /\ (max < nth k l 0)%N)).
Proof.
  induction l as [|b r IH]; intros max cur Hc.
  - exists 0%nat; cbn [length firstn sumN nth fst snd filter_loop].
    split; [lia|]; split; [lia|]; split; [lia|]; split; [reflexivity|].
    split; [discriminate | intros [? _]; lia].
  - cbn [filter_loop].
    destruct (max <? b)%N eqn:E1.
    + exists 0%nat; cbn [length firstn sumN nth fst snd].
      split; [lia|]; split; [lia|]; split; [lia|]; split; [discriminate|].
      split; [intros _; split; lia | reflexivity].
    + destruct (max <? cur + b)%N eqn:E2.
      * exists 0%nat; cbn [length firstn sumN nth fst snd].
        split; [lia|]; split; [lia|]; split; [lia|]; split; [reflexivity|].
        split; [discriminate | intros [_ ?]; lia].
      * destruct (IH max (cur + b)%N ltac:(lia)) as (k & K1 & K2 & K3 & K4 & K5).
        exists (S k); cbn [length firstn sumN nth fst snd].
        split; [lia|]; split; [lia|]; split; [|split].
        -- intros Hk; specialize (K3 ltac:(lia)); cbn [firstn sumN] in K3; cbn [firstn sumN]; lia.
        -- intros Hs; rewrite (K4 Hs); reflexivity.
        -- split.
           ++ intros Hs; apply K5 in Hs; split; [lia | tauto].
           ++ intros [Hk Hn]; apply K5; split; [lia|exact Hn].
Qed.

Definition too_big_obs := mk_sobs StTooBig [] 0 0.

Lemma classify_too_big : forall T, classify_submit (sent_err T STooBig) = StTooBig.
Proof. reflexivity. Qed.

Lemma prefix_rule : forall T (b : backend) max sizes,
  exists k, (k <= length sizes)%nat
    /\ (sumN (firstn k sizes) <= max)%N
    /\ ((k < length sizes)%nat -> (max < sumN (firstn (S k) sizes))%N)
    /\ ( (* a blob that can never fit stops the batch: too big, nothing sent *)
         ((k < length sizes)%nat /\ (max < nth k sizes 0)%N
            /\ proxied_submit T max b false sizes = (too_big_obs, []))
         \/ (* nothing to send: answered by the client, nothing sent *)
         (sizes = [] /\ proxied_submit T max b false sizes = (mk_sobs StSuccess [] 0 0, []))
         \/ (* exactly the first k blobs are sent, and the answer is the backend's answer for them *)
         ((0 < k)%nat /\ ((k < length sizes)%nat -> (nth k sizes 0 <= max)%N)
            /\ proxied_submit T max b false sizes =
               (submit_helper (length sizes) (client_sresult T (wire_sresult (b (firstn k sizes)))), [firstn k sizes])) ).
Proof.
  intros T b max sizes.
  destruct (filter_spec sizes max 0 ltac:(lia)) as (k & K1 & K2 & K3 & K4 & K5).
  exists k; split; [exact K1|]; split; [lia|]; split; [intros Hk; specialize (K3 Hk); lia|].
  unfold proxied_submit.
  destruct (snd (filter_loop max 0 sizes)) eqn:Sn.
  - left; destruct (proj1 K5 eq_refl) as [Hk Hn]; repeat split; assumption.
  - rewrite (K4 eq_refl).
    destruct sizes as [|x r].
    + right; left; split; [reflexivity|]. destruct k; reflexivity.
    + destruct k as [|k'].
      * (* k = 0 with a non-empty list: the first blob alone exceeds the limit, so it is oversize — contradiction with S *)
        exfalso. specialize (K3 ltac:(cbn; lia)); cbn [firstn sumN] in K3.
        assert (Hx : (max < x)%N) by lia.
        assert (false = true) by (apply K5; split; [cbn; lia | cbn; exact Hx]).
        discriminate.
      * right; right; split; [lia|]; split.
        -- intros Hk. destruct (N.ltb max (nth (S k') (x :: r) 0%N)) eqn:E; [|lia].
           assert (false = true) by (apply K5; split; [exact Hk | lia]). discriminate.
        -- cbn [firstn]; unfold rpc_submit; cbn [fst snd]; reflexivity.
Qed.

(* what is reported never exceeds what reached the backend *)
Definition honest (b : backend) : Prop := forall l ids h, b l = SRes ids h -> (length ids <= length l)%nat.

Lemma submit_helper_count : forall n r, so_count (submit_helper n r) = N.of_nat (length (so_ids (submit_helper n r))).
Proof. intros n [ids h|e]; cbn; [destruct ids; [destruct n|]; reflexivity | reflexivity]. Qed.

Lemma submit_helper_ids_le : forall n r m, (match r with SRes ids _ => (length ids <= m)%nat | SFail _ => True end) ->
  (length (so_ids (submit_helper n r)) <= m)%nat.
Proof. intros n [ids h|e] m H; cbn; [destruct ids; [destruct n; cbn; lia | exact H] | lia]. Qed.

Lemma count_sound : forall T (b : backend) max cancelled sizes, honest b ->
  let o := fst (proxied_submit T max b cancelled sizes) in
  let reached := snd (proxied_submit T max b cancelled sizes) in
  so_count o = N.of_nat (length (so_ids o))
  /\ (length (so_ids o) <= length (concat reached))%nat
  /\ (forall l, In l reached -> exists k, l = firstn k sizes).
Proof.
  intros T b max cancelled sizes Hb o reached; subst o reached.
  split; [|split].
  - unfold proxied_submit.
    destruct (snd (filter_loop max 0 sizes)); [apply submit_helper_count|].
    destruct (fst (filter_loop max 0 sizes)); [destruct sizes; apply submit_helper_count|].
    apply submit_helper_count.
  - unfold proxied_submit.
    destruct (snd (filter_loop max 0 sizes)); [cbn; lia|].
    destruct (fst (filter_loop max 0 sizes)) as [|y t]; [destruct sizes; cbn; lia|].
    unfold rpc_submit; destruct cancelled; cbn [fst snd].
    + cbn; lia.
    + cbn [concat]; rewrite app_nil_r.
      apply submit_helper_ids_le.
      destruct (b (y :: t)) as [ids h|e] eqn:B; cbn [wire_sresult client_sresult]; [|exact I].
      exact (Hb _ _ _ B).
  - intros l Hin. unfold proxied_submit in Hin.
    destruct (filter_spec sizes max 0 ltac:(lia)) as (k & _ & _ & _ & K4 & _).
    destruct (snd (filter_loop max 0 sizes)) eqn:Sn; [destruct Hin|].
    rewrite (K4 eq_refl) in Hin.
    destruct (firstn k sizes) as [|y t] eqn:F; [destruct sizes; destruct Hin|].
    unfold rpc_submit in Hin; destruct cancelled; cbn [snd] in Hin; [destruct Hin|].
    destruct Hin as [<-|[]]; exists k; symmetry; exact F.
Qed.

(* ---- retrieve ---------------------------------------------------------------------------------------------- *)
Definition same_shape (g1 g2 : getfn) : Prop :=
  forall ids, match g1 ids, g2 ids with
              | BOk a, BOk b => a = b
              | BErr _, BErr _ => True
              | _, _ => False
              end.

Lemma get_batches_shape : forall g1 g2, same_shape g1 g2 -> forall bs acc c,
  get_batches g1 bs acc c = get_batches g2 bs acc c.
Proof.
  intros g1 g2 H bs; induction bs as [|b r IH]; intros acc c; cbn [get_batches]; [reflexivity|].
  specialize (H b); destruct (g1 b), (g2 b); try contradiction; [subst; apply IH | reflexivity].
Qed.

Lemma retrieve_helper_shape : forall T g g1 g2, same_shape g1 g2 -> retrieve_helper T g g1 = retrieve_helper T g g2.
Proof.
  intros T g g1 g2 H; destruct g as [|ids ts|e]; cbn [retrieve_helper]; try reflexivity.
  destruct ids; [reflexivity|]. rewrite (get_batches_shape g1 g2 H); reflexivity.
Qed.

Lemma client_get_shape : forall T cancelled get, same_shape (client_get T cancelled get) (honour_b T cancelled get).
Proof.
  intros T cancelled get ids; unfold client_get, honour_b; destruct cancelled.
  - cbn [transport_cancel_err e_msg]; rewrite contains_refl; exact I.
  - destruct (get ids) as [b|e]; [reflexivity|].
    unfold server_err; cbn [wire_err e_msg]; destruct (contains (e_msg e) (t_ctx T)); exact I.
Qed.

(* what the retrieve helper makes of a GetIDs answer does not change across wire and client — for EVERY error *)
Lemma getids_transparent : forall T, table_ok T = true -> forall g cancelled get,
  retrieve_helper T (client_getids T (rpc_getids T cancelled g)) get = retrieve_helper T (honour_g T cancelled g) get.
Proof.
  intros T OK g cancelled get; destruct (table_ok_retrieve T OK) as [R1 R2].
  unfold rpc_getids, honour_g; destruct cancelled.
  - cbn [client_getids transport_cancel_err e_msg]; rewrite R1, R2, contains_refl.
    cbn [retrieve_helper ctx_err e_msg]; rewrite R1, R2; reflexivity.
  - destruct g as [|ids ts|e]; cbn [wire_gresult client_getids].
    + cbn [retrieve_helper sent_err e_msg]; rewrite contains_refl; reflexivity.
    + destruct ids; [cbn [retrieve_helper sent_err e_msg]; rewrite contains_refl; reflexivity | reflexivity].
    + unfold server_err. assert (W : e_msg (wire_err e) = e_msg e) by reflexivity.
      rewrite !W.
      destruct (contains (e_msg e) (txt T SNotFound)) eqn:C1; [cbn [retrieve_helper]; rewrite !W, C1; reflexivity|].
      destruct (contains (e_msg e) (txt T SFuture)) eqn:C2; [cbn [retrieve_helper]; rewrite !W, C1, C2; reflexivity|].
      destruct (contains (e_msg e) (t_ctx T)) eqn:C3; cbn [retrieve_helper ctx_err e_msg].
      * rewrite R1, R2, C1, C2; reflexivity.
      * rewrite !W, C1, C2; reflexivity.
Qed.

Lemma retrieve_transparent : forall T, table_ok T = true -> forall g get cancelled,
  proxied_retrieve T g get cancelled = direct_retrieve T g get cancelled.
Proof.
  intros T OK g get cancelled; unfold proxied_retrieve, direct_retrieve.
  rewrite (retrieve_helper_shape T _ _ _ (client_get_shape T cancelled get)).
  apply getids_transparent, OK.
Qed.

(* the DummyDA of core/da/dummy.go and the client apply the same rule when their limits coincide *)
Lemma dummy_matches_filter : forall l L cur,
  match dummy_loop L cur l with
  | Some t => snd (filter_loop L cur l) = false -> fst (filter_loop L cur l) = t
  | None => snd (filter_loop L cur l) = true
  end.
Proof.
  induction l as [|b r IH]; intros L cur; cbn [dummy_loop filter_loop]; [reflexivity|].
  destruct (L <? b)%N; [reflexivity|].
  destruct (L <? cur + b)%N; [reflexivity|].
  specialize (IH L (cur + b)%N); destruct (dummy_loop L (cur + b)%N r); cbn [option_map fst snd].
  - intros Sn; rewrite (IH Sn); reflexivity.
  - exact IH.
Qed.

(* ==== the error TEXT: what the backing DA says is what the node's helper is handed, whatever its length ==== *)

(* ---- strings.Contains and concatenation ------------------------------------------------------------------- *)
Lemma prefix_app_r : forall t s q, String.prefix t s = true -> String.prefix t (s ++ q)%string = true.
Proof.
  induction t as [|a t IH]; intros s q H; [destruct (s ++ q)%string; reflexivity|].
  destruct s as [|c s]; cbn [String.prefix] in H; [discriminate|].
  cbn [append String.prefix]. destruct (ascii_dec a c); [apply IH; exact H | discriminate].
Qed.

Lemma contains_nil_r : forall s, contains s "" = true.
Proof. intros [|a r]; reflexivity. Qed.

Lemma contains_app_r : forall s t q, contains s t = true -> contains (s ++ q)%string t = true.
Proof.
  induction s as [|a r IH]; intros t q H.
  - cbn [contains] in H. rewrite orb_false_r in H. destruct t; [apply contains_nil_r | discriminate].
  - cbn [contains] in H. cbn [append contains].
    apply orb_true_iff in H; destruct H as [H|H]; apply orb_true_iff.
    + left; exact (prefix_app_r t (String a r) q H).
    + right; apply IH; exact H.
Qed.

Lemma contains_app_l : forall p s t, contains s t = true -> contains (p ++ s)%string t = true.
Proof.
  induction p as [|a r IH]; intros s t H; [exact H|].
  cbn [append contains]. apply orb_true_iff; right; apply IH; exact H.
Qed.

(* a text is found inside whatever stands before and after it: no length, no position matters *)
Lemma contains_mid : forall pre t post, contains (pre ++ t ++ post)%string t = true.
Proof. intros; apply contains_app_l, contains_app_r, contains_refl. Qed.

(* ---- submit -------------------------------------------------------------------------------------------------- *)
(* [proxied_answer] is the answer [proxied_submit] classifies *)
Lemma proxied_submit_answer : forall T max b cancelled sizes,
  fst (proxied_submit T max b cancelled sizes) = submit_helper (length sizes) (proxied_answer T max b cancelled sizes).
Proof.
  intros; unfold proxied_submit, proxied_answer.
  destruct (snd (filter_loop max 0 sizes)); [reflexivity|].
  destruct (fst (filter_loop max 0 sizes)); [destruct sizes; reflexivity | reflexivity].
Qed.

Lemma direct_submit_answer : forall T b cancelled sizes,
  fst (direct_submit T b cancelled sizes) = submit_helper (length sizes) (direct_answer T b cancelled sizes).
Proof. reflexivity. Qed.

(* the text [sent] by the backing DA and the text [arrived] at the helper: the same, except that a text
   mentioning context.Canceled's is replaced by exactly that text (client.go lines 133 / 185 / 48 / 75) *)
Definition carried (T : table) (sent arrived : string) : Prop :=
  if contains sent (t_ctx T) then arrived = t_ctx T else arrived = sent.

Lemma client_submit_err_text : forall T e, carried T (e_msg e) (e_msg (client_submit_err T (wire_err (server_err e)))).
Proof.
  intros T e; unfold carried, client_submit_err, server_err; cbn [wire_err e_msg].
  destruct (contains (e_msg e) (t_ctx T)); reflexivity.
Qed.

(* what the client knows of the error that arrived is what its text says *)
Lemma client_submit_err_is : forall T e s, contains (e_msg e) (t_ctx T) = false ->
  is_sent (client_submit_err T (wire_err (server_err e))) s = contains (e_msg e) (txt T s).
Proof.
  intros T e s C; unfold client_submit_err, server_err; cbn [wire_err e_msg e_ctx]; rewrite C.
  rewrite is_sent_filter. assert (N0 : is_sent (wire_err e) s = false) by reflexivity.
  rewrite N0, orb_false_r; reflexivity.
Qed.

Lemma submit_text : forall T (b : backend) max sizes e,
  (sumN sizes <= max)%N -> sizes <> [] -> b sizes = SFail e ->
  answer_text (direct_answer T b false sizes) = Some (e_msg e)
  /\ exists a, answer_text (proxied_answer T max b false sizes) = Some a /\ carried T (e_msg e) a.
Proof.
  intros T b max sizes e Hfit Hne Hb; split.
  - unfold direct_answer, honour_s; rewrite Hb; reflexivity.
  - unfold proxied_answer. rewrite (filter_fits sizes max 0) by lia; cbn [fst snd].
    destruct sizes as [|x r]; [contradiction|].
    unfold rpc_submit; cbn [fst]; rewrite Hb; cbn [wire_sresult client_sresult answer_text].
    eexists; split; [reflexivity | apply client_submit_err_text].
Qed.

(* for a batch that is cut to its longest fitting prefix as well: the error is the backend's error for that prefix *)
Lemma submit_text_prefix : forall T (b : backend) max sizes y t e,
  filter_loop max 0 sizes = (y :: t, false) -> b (y :: t) = SFail e ->
  exists a, answer_text (proxied_answer T max b false sizes) = Some a /\ carried T (e_msg e) a.
Proof.
  intros T b max sizes y t e Hf Hb; unfold proxied_answer; rewrite Hf; cbn [fst snd].
  unfold rpc_submit; cbn [fst]; rewrite Hb; cbn [wire_sresult client_sresult answer_text].
  eexists; split; [reflexivity | apply client_submit_err_text].
Qed.

(* ---- retrieve ------------------------------------------------------------------------------------------------- *)
Lemma first_get_err_ext : forall g1 g2, (forall ids, g1 ids = g2 ids) -> forall bs, first_get_err g1 bs = first_get_err g2 bs.
Proof.
  intros g1 g2 H bs; induction bs as [|b r IH]; cbn [first_get_err]; [reflexivity|].
  rewrite H, IH; reflexivity.
Qed.

Definition get_carried (T : table) (sent : string) : string :=
  if contains sent (t_ctx T) then t_ctx T else (get_wrap ++ sent)%string.

Lemma first_get_err_client : forall T get bs,
  first_get_err (client_get T false get) bs = option_map (get_carried T) (first_get_err get bs).
Proof.
  intros T get bs; induction bs as [|b r IH]; cbn [first_get_err]; [reflexivity|].
  unfold client_get at 1. destruct (get b) as [blobs|e]; [exact IH|].
  unfold server_err, get_carried; cbn [wire_err e_msg option_map].
  destruct (contains (e_msg e) (t_ctx T)); reflexivity.
Qed.

Lemma retrieve_text_direct : forall T g get, direct_retrieve_text T g get false = retrieve_text g get.
Proof.
  intros T g get; unfold direct_retrieve_text, honour_g; destruct g as [|ids ts|e]; cbn [retrieve_text]; reflexivity.
Qed.

(* GetIDs: the text arrives whole; only a cancellation that mentions neither "not found" nor "from the
   future" is replaced by context.Canceled's text.  Get: the text arrives whole behind the client's
   "failed to get blobs: ", or is replaced by context.Canceled's text. *)
Lemma retrieve_text_proxied : forall T g get,
  proxied_retrieve_text T g get false =
  match g with
  | GErr e => Some (if contains (e_msg e) (txt T SNotFound) then e_msg e
                    else if contains (e_msg e) (txt T SFuture) then e_msg e
                    else if contains (e_msg e) (t_ctx T) then t_ctx T else e_msg e)
  | GNil | GRes [] _ => Some (txt T SNotFound)
  | GRes ids _ => option_map (get_carried T) (first_get_err get (chunks 100 ids))
  end.
Proof.
  intros T g get; unfold proxied_retrieve_text, rpc_getids; destruct g as [|ids ts|e]; cbn [wire_gresult client_getids].
  - reflexivity.
  - destruct ids; [reflexivity|]. cbn [retrieve_text]. apply first_get_err_client.
  - unfold server_err; cbn [wire_err e_msg].
    destruct (contains (e_msg e) (txt T SNotFound)); [reflexivity|].
    destruct (contains (e_msg e) (txt T SFuture)); [reflexivity|].
    destruct (contains (e_msg e) (t_ctx T)); reflexivity.
Qed.

Lemma error_text : forall T,
  (* submit *)
  (forall (b : backend) max sizes e, (sumN sizes <= max)%N -> sizes <> [] -> b sizes = SFail e ->
     answer_text (direct_answer T b false sizes) = Some (e_msg e)
     /\ exists a, answer_text (proxied_answer T max b false sizes) = Some a /\ carried T (e_msg e) a)
  /\ (forall e s, contains (e_msg e) (t_ctx T) = false ->
        is_sent (client_submit_err T (wire_err (server_err e))) s = contains (e_msg e) (txt T s))
  (* retrieve: GetIDs fails *)
  /\ (forall e get, direct_retrieve_text T (GErr e) get false = Some (e_msg e)
        /\ exists a, proxied_retrieve_text T (GErr e) get false = Some a
             /\ (a = e_msg e \/ (contains (e_msg e) (txt T SNotFound) = false /\ contains (e_msg e) (txt T SFuture) = false
                                  /\ contains (e_msg e) (t_ctx T) = true /\ a = t_ctx T)))
  (* retrieve: a Get fails *)
  /\ (forall x ids ts get,
        proxied_retrieve_text T (GRes (x :: ids) ts) get false
        = option_map (get_carried T) (direct_retrieve_text T (GRes (x :: ids) ts) get false)).
Proof.
  intros T; split; [|split; [|split]].
  - intros; apply submit_text; assumption.
  - intros; apply client_submit_err_is; assumption.
  - intros e get; split; [rewrite retrieve_text_direct; reflexivity|].
    rewrite retrieve_text_proxied. eexists; split; [reflexivity|].
    destruct (contains (e_msg e) (txt T SNotFound)); [left; reflexivity|].
    destruct (contains (e_msg e) (txt T SFuture)); [left; reflexivity|].
    destruct (contains (e_msg e) (t_ctx T)); [right; repeat split; reflexivity | left; reflexivity].
  - intros; rewrite retrieve_text_proxied, retrieve_text_direct; reflexivity.
Qed.

(* ---- a sentinel wrapped anywhere in a context of any length ------------------------------------------------- *)
(* the rest of the text mentions no other class *)
Definition others_clean (T : table) (s : sentinel) (m : string) : bool :=
  forallb (fun s' => sentinel_eqb s' s || negb (contains m (txt T s'))) (SCanceled :: switch_sentinels)
  && (sentinel_eqb s SCanceled || negb (contains m (t_ctx T))).

Lemma wrapped_wfb : forall T s pre post,
  others_clean T s (pre ++ txt T s ++ post)%string = true -> wfb T (mk_err [s] false (pre ++ txt T s ++ post)%string) = true.
Proof.
  intros T s pre post H.
  pose proof (contains_mid pre (txt T s) post) as Hs.
  set (m := (pre ++ txt T s ++ post)%string) in *.
  unfold others_clean, switch_sentinels in H; cbn [forallb] in H.
  unfold wfb, switch_sentinels, is_sent; cbn [forallb e_is e_ctx e_msg existsb].
  rewrite !andb_true_iff in H. destruct H as [(H0 & H1 & H2 & H3 & H4 & H5 & _) Hc].
  destruct s; cbn [sentinel_eqb orb negb] in *;
    repeat match goal with X : negb _ = true |- _ => apply negb_true_iff in X end;
    cbn [txt] in *;
    repeat match goal with X : contains m _ = _ |- _ => rewrite X end; rewrite ?orb_true_r; reflexivity.
Qed.

Lemma classify_same_is : forall is1 c m1 m2, classify_submit (mk_err is1 c m1) = classify_submit (mk_err is1 c m2).
Proof. reflexivity. Qed.

Lemma wrapped_anywhere : forall T, table_ok T = true -> forall s pre post,
  let m := (pre ++ txt T s ++ post)%string in
  contains m (txt T s) = true
  /\ (others_clean T s m = true ->
      classify_submit (client_submit_err T (wire_err (server_err (mk_err [s] false m)))) = classify_submit (sent_err T s)).
Proof.
  intros T OK s pre post m; split; [apply contains_mid|].
  intros H; unfold server_err; rewrite classify_wire by (apply wrapped_wfb; exact H). reflexivity.
Qed.

(* retrieve: "not found" / "from the future" wrapped anywhere, any length — no cleanliness needed for "not found" *)
Lemma wrapped_anywhere_retrieve : forall T, table_ok T = true -> forall is c pre post get,
  ro_code (proxied_retrieve T (GErr (mk_err is c (pre ++ txt T SNotFound ++ post)%string)) get false) = StNotFound
  /\ (contains (pre ++ txt T SFuture ++ post)%string (txt T SNotFound) = false ->
      ro_code (proxied_retrieve T (GErr (mk_err is c (pre ++ txt T SFuture ++ post)%string)) get false) = StFuture).
Proof.
  intros T OK is c pre post get; rewrite !retrieve_transparent by exact OK.
  unfold direct_retrieve, honour_g; cbn [retrieve_helper e_msg]; split.
  - rewrite contains_mid; reflexivity.
  - intros H; rewrite H, contains_mid; reflexivity.
Qed.
