(* Proofs/ProducerRestartProofs.v — C01: a RESTART of the node on the same database (NewManager ->
   getInitialState with a stored state, block/manager.go:250-262, 310-318) in the middle of a crash-free
   history, in particular after a production step that FAILED (execution error, validation error: the
   early-saved pending block then lies above the recorded state).  Lemmas over Model/Producer.v; they
   use only the invariant of Proofs/ProducerProofs.v. *)
From Coq Require Import String Ascii NArith ZArith List Bool Lia ZifyBool ZifyN ZifyNat.
From Verif Require Import Base.KV Base.Keys Model.Types Model.Producer Proofs.ProducerProofs.
Import ListNotations.
Open Scope list_scope.
Open Scope N_scope.

(* completed actions never touch the cache directory *)
Lemma crash_free_files c h : crash_free h = true -> forall st,
  bad_files (fst (run_from c st h)) = bad_files st.
Proof.
  unfold crash_free. induction h as [|i r IH]; intros Hc st; [reflexivity|].
  cbn [forallb] in Hc. apply andb_true_iff in Hc. destruct Hc as (H1 & H2).
  rewrite run_from_cons, (IH H2). destruct i; try discriminate H1. reflexivity.
Qed.

Lemma crash_free_app h1 h2 : crash_free h1 = true -> crash_free h2 = true -> crash_free (h1 ++ h2) = true.
Proof. unfold crash_free. intros A B. rewrite forallb_app, A, B. reflexivity. Qed.

(* after a crash-free history: recorded state and store height agree, the state is not below genesis, no cache
   file is damaged *)
Lemma crash_free_facts c h s :
  wf_cfg c -> crash_free h = true -> g_state (img_of (run c h)) = Some s ->
  g_height (img_of (run c h)) = s_height s /\ c_initial c <= s_height s /\ files_ok (run c h) = true.
Proof.
  intros Hwf Hc Hs.
  destruct (inv_run c Hwf h fresh (inv_fresh c)) as ((HD & _) & _ & Hsy).
  specialize (Hsy Hc (synced_fresh)). fold (run c h) in HD, Hsy.
  split; [apply Hsy, Hs|]. split.
  - unfold DInv in HD. rewrite Hs in HD. destruct HD as (_ & Hle & _). exact Hle.
  - unfold files_ok, run. rewrite (crash_free_files c h Hc fresh). reflexivity.
Qed.

(* the start-up on an image that holds a state at the store height: no write at all *)
Lemma boot_on_state c m ic s :
  g_state m = Some s -> g_height m = s_height s -> c_initial c <= s_height s ->
  boot c m true ic =
  {| a_pre := []; a_commit := []; a_vol := Some {| v_state := s; v_cursor := g_cursor m |};
     a_out := OBootOk; a_call := None; a_req := None; a_init := None; a_built := None |}.
Proof.
  intros Hs Hh Hle. unfold boot. rewrite Hs.
  destruct (N.ltb_spec (s_height s) (c_initial c)) as [Hlt|_]; [lia|].
  unfold set_height. destruct (N.leb_spec (s_height s) (g_height m)) as [_|Hlt]; [reflexivity|lia].
Qed.

(* ONE restart, at any point of a crash-free history at which a state is recorded (i.e. after the first
   committed block) — whatever the steps before it did (committed, skipped, refused, FAILED in the execution
   layer or in validation with the early-saved pending block left above the state): the start-up succeeds,
   writes NOTHING (in particular the store height is not moved: it stays the height of the recorded state, the
   pending block above it stays not committed), every height serves what it served, the InitChain answer is
   not consulted, and the new process resumes from the recorded state and cursor. *)
Theorem restart_item_crash_free c h ic s :
  wf_cfg c -> crash_free h = true -> g_state (img_of (run c h)) = Some s ->
  let st := run c h in
  let r := exec_item c st (IRun (ABoot ic)) in
  o_res (snd r) = OBootOk /\ o_ws (snd r) = [] /\
  img_of (fst r) = img_of st /\
  vol_of (fst r) = Some {| v_state := s; v_cursor := g_cursor (img_of st) |} /\
  g_inits (fst r) = g_inits st /\ g_built (fst r) = g_built st /\ g_execs (fst r) = g_execs st.
Proof.
  intros Hwf Hc Hs st r. subst st r.
  destruct (crash_free_facts c h s Hwf Hc Hs) as (Hh & Hle & Hf).
  cbn [exec_item do_act fst snd o_res o_ws img_of vol_of g_inits g_built g_execs].
  rewrite Hf, (boot_on_state c _ ic s Hs Hh Hle).
  cbn [a_ws a_pre a_commit a_out a_vol a_init a_built a_call app log_opt log_execs].
  rewrite apply_writes_nil. repeat split; reflexivity.
Qed.

(* the same at the level of histories, with what follows from it: after [h ++ [restart]]
   (a) the durable image is that of [h]; (b) the store height is the height of the recorded state — a block
   above it (the pending block of a failed step) is NOT covered by the height; (c) every height serves what it
   served; (d) the process runs on the recorded state; (e) a well-formed pair of responses commits height+1 in
   the very next step (so a restart after a failed step never leaves the node unable to produce) and
   (f) a stored pending block is re-used by that step: it is committed with the header that was saved early. *)
Theorem restart_crash_free c h ic s :
  wf_cfg c -> crash_free h = true -> g_state (img_of (run c h)) = Some s ->
  let st := run c h in
  let st' := run c (h ++ [IRun (ABoot ic)]) in
  img_of st' = img_of st /\
  g_height (img_of st') = s_height s /\
  (forall n, served st' n = served st n) /\
  (exists v, vol_of st' = Some v /\ v_state v = s /\ v_cursor v = g_cursor (img_of st) /\
     forall sq e, wf_resp c st' sq e = true ->
       a_out (step c (img_of st') v sq e) = OCommitted (s_height s + 1) /\
       (forall pb, served st (s_height s + 1) = Some pb ->
          a_pre (step c (img_of st') v sq e) = [w_block (s_height s + 1) (final_block c pb)])).
Proof.
  intros Hwf Hc Hs st st'.
  destruct (restart_item_crash_free c h ic s Hwf Hc Hs) as (_ & _ & Hi & Hv & _).
  destruct (crash_free_facts c h s Hwf Hc Hs) as (Hh & Hle & _).
  assert (E : st' = fst (exec_item c st (IRun (ABoot ic)))).
  { unfold st'. rewrite run_app. fold st. rewrite run_from_cons. reflexivity. }
  fold st in Hi, Hv, Hh. rewrite <- E in Hi, Hv.
  split; [exact Hi|]. split; [rewrite Hi; exact Hh|]. split; [intros n; unfold served; rewrite Hi; reflexivity|].
  eexists. split; [exact Hv|]. split; [reflexivity|]. split; [reflexivity|].
  intros sq e Hw.
  assert (Hc' : crash_free (h ++ [IRun (ABoot ic)]) = true) by (apply crash_free_app; [exact Hc|reflexivity]).
  pose proof (no_wedge_crash_free c (h ++ [IRun (ABoot ic)]) Hwf Hc' _ Hv sq e Hw) as Hnw.
  fold st' in Hnw. rewrite Hi, Hh in Hnw. rewrite Hi. split; [exact Hnw|].
  intros pb Hpb. unfold served in Hpb.
  pose proof Hnw as Hout. revert Hout.
  unfold step. rewrite Hh.
  destruct (last_info c (img_of st) (s_height s)) as [[[lsig lhdr] ltime]|]; [|cbn; discriminate].
  rewrite Hpb. unfold finish.
  destruct sq as [| |txs ts cur]; try discriminate Hw.
  destruct e as [ret|]; [|discriminate Hw].
  destruct (validate _ _ _); cbn [a_out a_pre]; [|discriminate].
  intros Ho. inversion Ho as [Hhh]. rewrite Hhh. reflexivity.
Qed.
