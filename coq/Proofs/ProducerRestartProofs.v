(* Proofs/ProducerRestartProofs.v — C01: a RESTART of the node on the same database (NewManager ->
   getInitialState with a stored state, block/manager.go:250-262, 310-318) in the middle of a crash-free
   history, in particular after a production step that FAILED (execution error, validation error: the
   early-saved pending block then lies above the recorded state).  Lemmas over Model/Producer.v; they
   use only the invariant of Proofs/ProducerProofs.v. *)
From Coq Require Import String Ascii NArith ZArith List Bool Lia ZifyBool ZifyN ZifyNat.
From Verif Require Import Base.KV Base.Keys Model.Types Model.Producer Proofs.ProducerProofs.
Import ListNotations.
Open Scope list_scope.
Open Scope N_scope.

(* completed actions never touch the cache directory *)
Lemma crash_free_files c h : crash_free h = true -> forall st,
  bad_files (fst (run_from c st h)) = bad_files st.
Proof.
  unfold crash_free. induction h as [|i r IH]; intros Hc st; [reflexivity|].
  cbn [forallb] in Hc. apply andb_true_iff in Hc. destruct Hc as (H1 & H2).
  rewrite run_from_cons, (IH H2). destruct i; try discriminate H1. reflexivity.
Qed.

Lemma crash_free_app h1 h2 : crash_free h1 = true -> crash_free h2 = true -> crash_free (h1 ++ h2) = true.
Proof. unfold crash_free. intros A B. rewrite forallb_app, A, B. reflexivity. Qed.

(* after a crash-free history: recorded state and store height agree, the state is not below genesis, no cache
   file is damaged *)
Lemma crash_free_facts c h s :
  wf_cfg c -> crash_free h = true -> g_state (img_of (run c h)) = Some s ->
  g_height (img_of (run c h)) = s_height s /\ c_initial c <= s_height s /\ files_ok (run c h) = true.
Proof.
  intros Hwf Hc Hs.
  destruct (inv_run c Hwf h fresh (inv_fresh c)) as ((HD & _) & _ & Hsy).
  specialize (Hsy Hc (synced_fresh)). fold (run c h) in HD, Hsy.
  split; [apply Hsy, Hs|]. split.
  - unfold DInv in HD. rewrite Hs in HD. destruct HD as (_ & Hle & _). exact Hle.
  - unfold files_ok, run. rewrite (crash_free_files c h Hc fresh). reflexivity.
Qed.

(* the start-up on an image that holds a state at the store height: no write at all *)
Lemma boot_on_state c m ic s :
  g_state m = Some s -> g_height m = s_height s -> c_initial c <= s_height s ->
  boot c m true ic =
  {| a_pre := []; a_commit := []; a_vol := Some {| v_state := s; v_cursor := g_cursor m |};
     a_out := OBootOk; a_call := None; a_req := None; a_init := None; a_built := None |}.
Proof.
  intros Hs Hh Hle. unfold boot. rewrite Hs.
  destruct (N.ltb_spec (s_height s) (c_initial c)) as [Hlt|_]; [lia|].
  unfold set_height. destruct (N.leb_spec (s_height s) (g_height m)) as [_|Hlt]; [reflexivity|lia].
Qed.

(* ONE restart, at any point of a crash-free history at which a state is recorded (i.e. after the first
   committed block) — whatever the steps before it did (committed, skipped, refused, FAILED in the execution
   layer or in validation with the early-saved pending block left above the state): the start-up succeeds,
   writes NOTHING (in particular the store height is not moved: it stays the height of the recorded state, the
   pending block above it stays not committed), every height serves what it served, the InitChain answer is
   not consulted, and the new process resumes from the recorded state and cursor. *)
Theorem restart_item_crash_free c h ic s :
  wf_cfg c -> crash_free h = true -> g_state (img_of (run c h)) = Some s ->
  let st := run c h in
  let r := exec_item c st (IRun (ABoot ic)) in
  o_res (snd r) = OBootOk /\ o_ws (snd r) = [] /\
  img_of (fst r) = img_of st /\
  vol_of (fst r) = Some {| v_state := s; v_cursor := g_cursor (img_of st) |} /\
  g_inits (fst r) = g_inits st /\ g_built (fst r) = g_built st /\ g_execs (fst r) = g_execs st.
Proof.
  intros Hwf Hc Hs st r. subst st r.
  destruct (crash_free_facts c h s Hwf Hc Hs) as (Hh & Hle & Hf).
  cbn [exec_item do_act fst snd o_res o_ws img_of vol_of g_inits g_built g_execs].
  rewrite Hf, (boot_on_state c _ ic s Hs Hh Hle).
  cbn [a_ws a_pre a_commit a_out a_vol a_init a_built a_call app log_opt log_execs].
  rewrite apply_writes_nil. repeat split; reflexivity.
Qed.

(* the same at the level of histories, with what follows from it: after [h ++ [restart]]
   (a) the durable image is that of [h]; (b) the store height is the height of the recorded state — a block
   above it (the pending block of a failed step) is NOT covered by the height; (c) every height serves what it
   served; (d) the process runs on the recorded state; (e) a well-formed pair of responses commits height+1 in
   the very next step (so a restart after a failed step never leaves the node unable to produce) and
   (f) a stored pending block is re-used by that step: it is committed with the header that was saved early. *)
Theorem restart_crash_free c h ic s :
  wf_cfg c -> crash_free h = true -> g_state (img_of (run c h)) = Some s ->
  let st := run c h in
  let st' := run c (h ++ [IRun (ABoot ic)]) in
  img_of st' = img_of st /\
  g_height (img_of st') = s_height s /\
  (forall n, served st' n = served st n) /\
  (exists v, vol_of st' = Some v /\ v_state v = s /\ v_cursor v = g_cursor (img_of st) /\
     forall sq e, wf_resp c st' sq e = true ->
       a_out (step c (img_of st') v sq e) = OCommitted (s_height s + 1) /\
       (forall pb, served st (s_height s + 1) = Some pb ->
          a_pre (step c (img_of st') v sq e) = [w_block (s_height s + 1) (final_block c pb)])).
Proof.
  intros Hwf Hc Hs st st'.
  destruct (restart_item_crash_free c h ic s Hwf Hc Hs) as (_ & _ & Hi & Hv & _).
  destruct (crash_free_facts c h s Hwf Hc Hs) as (Hh & Hle & _).
  assert (E : st' = fst (exec_item c st (IRun (ABoot ic)))).
  { unfold st'. rewrite run_app. fold st. rewrite run_from_cons. reflexivity. }
  fold st in Hi, Hv, Hh. rewrite <- E in Hi, Hv.
  split; [exact Hi|]. split; [rewrite Hi; exact Hh|]. split; [intros n; unfold served; rewrite Hi; reflexivity|].
  eexists. split; [exact Hv|]. split; [reflexivity|]. split; [reflexivity|].
  intros sq e Hw.
  assert (Hc' : crash_free (h ++ [IRun (ABoot ic)]) = true) by (apply crash_free_app; [exact Hc|reflexivity]).
  pose proof (no_wedge_crash_free c (h ++ [IRun (ABoot ic)]) Hwf Hc' _ Hv sq e Hw) as Hnw.
  fold st' in Hnw. rewrite Hi, Hh in Hnw. rewrite Hi. split; [exact Hnw|].
  intros pb Hpb. unfold served in Hpb.
  pose proof Hnw as Hout. revert Hout.
  unfold step. rewrite Hh.
  destruct (last_info c (img_of st) (s_height s)) as [[[lsig lhdr] ltime]|]; [|cbn; discriminate].
  rewrite Hpb. unfold finish.
  destruct sq as [| |txs ts cur]; try discriminate Hw.
  destruct e as [ret|]; [|discriminate Hw].
  destruct (validate _ _ _); cbn [a_out a_pre]; [|discriminate].
  intros Ho. inversion Ho as [Hhh]. rewrite Hhh. reflexivity.
Qed.

(* ================================================================================================ *)
(* PROCESS DEATHS inside a production step, and the restart that follows (C01, last sentence: the   *)
(* node is never left permanently unable to produce blocks).  Histories here are ANY lists of items *)
(* without hand-made damage ([untampered]): boots, steps, [ICrash a k] = the process dies after k   *)
(* atomic datastore writes of a boot or step (any k), shutdowns.                                    *)
(* ================================================================================================ *)

Lemma untampered_app h1 h2 : untampered h1 = true -> untampered h2 = true -> untampered (h1 ++ h2) = true.
Proof. unfold untampered. intros A B. rewrite forallb_app, A, B. reflexivity. Qed.

(* safety and liveness whenever a process runs, after every history (crashes anywhere) *)
Theorem running_after_crashes c h :
  wf_cfg c -> forall v, vol_of (run c h) = Some v ->
  ChainValid c (run c h) /\
  forall sq e, wf_resp c (run c h) sq e = true ->
    a_out (step c (img_of (run c h)) v sq e) = OCommitted (g_height (img_of (run c h)) + 1).
Proof.
  intros Hwf v Hv. split; [eapply chain_valid_running; eassumption|].
  intros sq e Hw. apply no_wedge_all; assumption.
Qed.

(* a step that commits writes its state and then the store height, as its last two writes *)
Lemma step_committed_shape c m v sq e n :
  a_out (step c m v sq e) = OCommitted n ->
  exists s', a_commit (step c m v sq e) = w_state s' :: set_height m n /\ s_height s' = n.
Proof.
  unfold step.
  destruct (last_info c m (g_height m)) as [[[lsig lhdr] ltime]|]; [|cbn; discriminate].
  assert (F : forall v0 b ws0 req bu, a_out (finish c m v0 b ws0 req bu e) = OCommitted n ->
            exists s', a_commit (finish c m v0 b ws0 req bu e) = w_state s' :: set_height m n /\ s_height s' = n).
  { intros v0 b ws0 req bu. unfold finish. destruct e as [ret|]; [|cbn; discriminate].
    destruct (validate _ _ _); cbn [a_out a_commit]; [|discriminate].
    intros Ho. inversion Ho as [Hn]. eexists. split; [reflexivity|reflexivity]. }
  destruct (g_block m (g_height m + 1)) as [pb|]; [apply F|].
  destruct sq as [| |txs ts cur]; try (cbn; discriminate).
  cbv zeta.
  destruct (_ && _); [cbn; discriminate|].
  destruct (match ltime with Some lt => (ts <? lt)%Z | None => false end); [cbn; discriminate|].
  destruct (negb _); [cbn; discriminate|]. apply F.
Qed.

Lemma firstn_S_length_app {A} (l : list A) (a b : A) : firstn (S (length l)) (l ++ [a; b]) = l ++ [a].
Proof. induction l as [|x l IH]; [reflexivity|]. simpl. simpl in IH. rewrite IH. reflexivity. Qed.

(* a start-up on a recorded state does not consult InitChain: its answer does not matter *)
Lemma boot_item_any_init c st ic ic' s :
  g_state (img_of st) = Some s ->
  exec_item c st (IRun (ABoot ic)) = exec_item c st (IRun (ABoot ic')).
Proof.
  intros Hs. cbn [exec_item do_act]. unfold boot. rewrite Hs.
  destruct (s_height s <? c_initial c); [reflexivity|].
  destruct (files_ok st); reflexivity.
Qed.

(* THE WINDOW BETWEEN THE TWO WRITES OF A COMMIT.  After any history, while a process runs, a well-formed pair of
   responses commits height H+1 with the writes  pre ++ [state; store height].  If the process dies after the state
   write and before the height write (k = |pre| + 1) the disk holds the state of H+1 under the store height H.
   The next start-up — whatever InitChain would answer — succeeds and performs exactly ONE write: it raises the store
   height to H+1 (block/manager.go NewManager: store.SetHeight(s.LastBlockHeight)); afterwards height, state and
   blocks agree and a well-formed pair of responses commits H+2 in the very next step. *)
Theorem torn_commit_restart c h v sq e ic :
  wf_cfg c -> untampered h = true -> vol_of (run c h) = Some v -> wf_resp c (run c h) sq e = true ->
  let st := run c h in let H := g_height (img_of st) in
  let r := step c (img_of st) v sq e in
  let st1 := run c (h ++ [ICrash (AStep sq e) (S (length (a_pre r)))]) in
  let r2 := exec_item c st1 (IRun (ABoot ic)) in
  a_out r = OCommitted (H + 1) /\
  g_height (img_of st1) = H /\ option_map s_height (g_state (img_of st1)) = Some (H + 1) /\ vol_of st1 = None /\
  o_res (snd r2) = OBootOk /\ o_ws (snd r2) = [w_height (H + 1)] /\ g_height (img_of (fst r2)) = H + 1 /\
  exists v', vol_of (fst r2) = Some v' /\ ChainValid c (fst r2) /\
    forall sq' e', wf_resp c (fst r2) sq' e' = true ->
      a_out (step c (img_of (fst r2)) v' sq' e') = OCommitted (H + 2).
Proof.
  intros Hwf Hu Hv Hw st H r st1 r2.
  pose proof (no_wedge_all c h Hwf v Hv sq e Hw) as Hout. fold st in Hout. fold H in Hout. fold r in Hout.
  destruct (reach_inv c h Hwf) as (_ & HR). specialize (HR v Hv). fold st in HR.
  pose proof (rf_height c _ _ _ _ _ HR) as (_ & Hge). fold H in Hge.
  destruct (step_committed_shape c _ v sq e _ Hout) as (s' & Hcm & Hs'h). fold r in Hcm.
  unfold H in Hcm. rewrite set_height_next in Hcm. fold H in Hcm.
  pose proof (step_spec c Hwf _ _ _ _ v sq e HR) as (_ & Hsafe & _). fold r in Hsafe.
  assert (HR' : RF c (img_of st) (g_inits st) (log_opt (g_built st) (a_built r)) (g_execs st) (v_state v)).
  { eapply rf_mono; [apply incl_refl|apply incl_log_opt|apply incl_refl|exact HR]. }
  destruct (rf_safe_writes c (img_of st) _ _ _ _ (a_pre r) (img_of st) (based_refl _) Hsafe HR') as ((Bh & _ & _) & _).
  (* the image the dead process leaves *)
  assert (E1 : st1 = fst (exec_item c st (ICrash (AStep sq e) (S (length (a_pre r)))))).
  { unfold st1. rewrite run_app. fold st. rewrite run_from_cons. reflexivity. }
  assert (Hi1 : img_of st1 = apply_write (apply_writes (img_of st) (a_pre r)) (w_state s')).
  { rewrite E1. cbn [exec_item fst img_of do_act]. change (vol_of st) with (vol_of (run c h)). rewrite Hv. fold st. fold r. unfold crash_after, a_ws.
    rewrite Hcm, firstn_S_length_app, aws_app. reflexivity. }
  destruct (aw_state (apply_writes (img_of st) (a_pre r)) s') as (A1 & A2 & _ & _).
  assert (Hh1 : g_height (img_of st1) = H) by (rewrite Hi1, A1; exact Bh).
  assert (Hs1 : g_state (img_of st1) = Some s') by (rewrite Hi1; exact A2).
  assert (Hv1 : vol_of st1 = None) by (rewrite E1; reflexivity).
  assert (Hu1 : untampered (h ++ [ICrash (AStep sq e) (S (length (a_pre r)))]) = true)
    by (apply untampered_app; [exact Hu|reflexivity]).
  assert (Hf1 : files_ok st1 = true) by (apply cache_files_ok_all, Hu1).
  split; [exact Hout|]. split; [exact Hh1|]. split; [rewrite Hs1; cbn [option_map]; rewrite Hs'h; reflexivity|].
  split; [exact Hv1|].
  (* the start-up *)
  assert (Hb : boot c (img_of st1) true ic =
               {| a_pre := [w_height (H + 1)]; a_commit := []; a_vol := Some {| v_state := s'; v_cursor := g_cursor (img_of st1) |};
                  a_out := OBootOk; a_call := None; a_req := None; a_init := None; a_built := None |}).
  { unfold boot. rewrite Hs1, Hs'h.
    destruct (N.ltb_spec (H + 1) (c_initial c)) as [Hlt|_]; [lia|].
    unfold set_height. rewrite Hh1. destruct (N.leb_spec (H + 1) H) as [Hle|_]; [lia|reflexivity]. }
  assert (Hws : o_ws (snd r2) = [w_height (H + 1)]).
  { unfold r2. cbn [exec_item snd o_ws do_act]. rewrite Hf1, Hb. reflexivity. }
  split; [unfold r2; cbn [exec_item snd o_res do_act]; rewrite Hf1, Hb; reflexivity|].
  split; [exact Hws|].
  assert (Hh2 : g_height (img_of (fst r2)) = H + 1).
  { unfold r2. cbn [exec_item fst img_of do_act]. rewrite Hf1, Hb. cbn [a_ws a_pre a_commit app].
    rewrite apply_writes_cons, apply_writes_nil. apply aw_height. }
  split; [exact Hh2|].
  pose proof (restart_all c _ 0 Hwf Hu1) as HRA. cbv zeta in HRA. fold st1 in HRA.
  rewrite <- (boot_item_any_init c st1 ic (@Some root 0) s' Hs1) in HRA. fold r2 in HRA.
  destruct HRA as (v' & Hv' & Hcv & Hnw). exists v'. split; [exact Hv'|]. split; [exact Hcv|].
  intros sq' e' Hw'. rewrite (Hnw sq' e' Hw'), Hh2. f_equal. lia.
Qed.
