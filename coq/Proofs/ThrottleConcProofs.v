(* Proofs/ThrottleConcProofs.v — lemmas about Model/ThrottleConc.v (property C08, production attempts
   interleaved with the submission loops). *)
From Coq Require Import NArith List Bool Lia ZifyBool ZifyN ZifyNat.
From Verif Require Import Model.Throttle Model.ThrottleConc Proofs.ThrottleProofs.
Import ListNotations.
Open Scope N_scope.

(* ---- what a step may change: the DA layer only gains, the watermarks only advance ------------------------ *)
Record le_da (s s' : state) : Prop := {
  f_h : t_height s' = t_height s;
  f_nes : t_nes s' = t_nes s;
  f_wh : t_wh s <= t_wh s';
  f_wd : t_wd s <= t_wd s';
  f_dah : incl (t_dah s) (t_dah s');
  f_dad : incl (t_dad s) (t_dad s')
}.

Lemma le_da_refl : forall s, le_da s s.
Proof. intros s. constructor; try reflexivity; try lia; apply incl_refl. Qed.

Lemma le_da_trans : forall a b d, le_da a b -> le_da b d -> le_da a d.
Proof.
  intros a b d [] []. constructor; try congruence; try lia; eapply incl_tran; eassumption.
Qed.

Lemma nonempty_eq : forall s s' h, t_nes s' = t_nes s -> nonempty s' h = nonempty s h.
Proof. intros s s' h E. unfold nonempty. now rewrite E. Qed.

Lemma headers_iter_le : forall c s sc s' r, Inv c s -> headers_iter s sc = (s', r) -> le_da s s'.
Proof.
  intros c s sc s' r I Heq. unfold headers_iter in Heq.
  destruct (N.eqb_spec (t_wh s) (t_height s)) as [E|E]; [inversion Heq; subst; apply le_da_refl|].
  rewrite (get_pending_ok _ _ (i_hhi _ _ I)) in Heq.
  destruct (seqN (t_wh s + 1) (N.to_nat (t_height s - t_wh s))) as [|x items] eqn:Hit; [inversion Heq; subst; apply le_da_refl|].
  rewrite <- Hit in Heq.
  destruct (submit_loop max_attempts _ sc (t_wh s, t_ph s)) as [[[cs acc] e] [w p]] eqn:Hsl.
  inversion Heq; subst s' r; clear Heq.
  assert (Hinc : inc (t_wh s) (seqN (t_wh s + 1) (N.to_nat (t_height s - t_wh s)))) by (apply inc_seqN; lia).
  destruct (submit_loop_spec _ _ _ _ _ _ _ _ _ _ Hinc Hsl) as [rest [E1 [E2 [E3 [E4 E5]]]]].
  constructor; cbn; try reflexivity; try lia; try apply incl_refl. apply incl_appl, incl_refl.
Qed.

Lemma data_iter_le : forall c s sc s' r, Inv c s -> data_iter s sc = (s', r) -> le_da s s'.
Proof.
  intros c s sc s' r I Heq. unfold data_iter in Heq.
  destruct (N.eqb_spec (t_wd s) (t_height s)) as [E|E]; [inversion Heq; subst; apply le_da_refl|].
  rewrite (get_pending_ok _ _ (i_dhi _ _ I)) in Heq.
  destruct (filter (nonempty s) (seqN (t_wd s + 1) (N.to_nat (t_height s - t_wd s)))) as [|x items] eqn:Hit; [inversion Heq; subst; apply le_da_refl|].
  rewrite <- Hit in Heq.
  destruct (submit_loop max_attempts _ sc (t_wd s, t_pd s)) as [[[cs acc] e] [w p]] eqn:Hsl.
  inversion Heq; subst s' r; clear Heq.
  destruct (submit_loop_spec _ _ _ _ _ _ _ _ _ _ (data_items_inc s) Hsl) as [rest [E1 [E2 [E3 [E4 E5]]]]].
  constructor; cbn; try reflexivity; try lia; try apply incl_refl. apply incl_appl, incl_refl.
Qed.

Lemma sub_step_inv : forall c s u, 1 <= c_init c -> Inv c s -> Inv c (fst (sub_step s u)).
Proof.
  intros c s u Hi I. destruct u as [sc|sc]; cbn [sub_step].
  - destruct (headers_iter s sc) as [s' r] eqn:E. cbn [fst]. eapply headers_iter_inv; eassumption.
  - destruct (data_iter s sc) as [s' r] eqn:E. cbn [fst]. eapply data_iter_inv; eassumption.
Qed.

Lemma sub_step_le : forall c s u, Inv c s -> le_da s (fst (sub_step s u)).
Proof.
  intros c s u I. destruct u as [sc|sc]; cbn [sub_step].
  - destruct (headers_iter s sc) as [s' r] eqn:E. cbn [fst]. eapply headers_iter_le; eassumption.
  - destruct (data_iter s sc) as [s' r] eqn:E. cbn [fst]. eapply data_iter_le; eassumption.
Qed.

(* ---- numWaitingData stepping the data watermark over empty items ------------------------------------------ *)
Lemma mark_step_inv : forall c s h, Inv c s ->
  (forall x, t_wd s < x <= h -> nonempty s x = false) -> h <= t_height s ->
  Inv c (with_d s (set_mark (t_wd s, t_pd s) h)).
Proof.
  intros c s h I He Hh. unfold with_d, set_mark. cbn [fst snd].
  destruct (N.ltb_spec (t_wd s) h) as [Hlt|Hge]; cbn [fst snd].
  - destruct I. constructor; cbn; try assumption; try lia.
    + intros x Hx. specialize (i_dad1 x Hx). lia.
    + intros x Hx Hne. destruct (N.le_gt_cases x (t_wd s)) as [Hl|Hg]; [apply i_dad2; [lia | assumption]|].
      change (nonempty s x = true) in Hne. rewrite He in Hne by lia. discriminate.
  - destruct s; assumption.
Qed.

Lemma mark_step_le : forall s h, le_da s (with_d s (set_mark (t_wd s, t_pd s) h)).
Proof.
  intros s h. unfold with_d, set_mark. cbn [fst snd].
  destruct (N.ltb_spec (t_wd s) h); constructor; cbn; try reflexivity; try lia; apply incl_refl.
Qed.

(* ---- reachability inside an attempt: submission iterations and watermark steps over empty items ------- *)
Inductive reach : state -> list sub -> state -> Prop :=
| r_nil : forall s, reach s [] s
| r_sub : forall s u us s', reach (fst (sub_step s u)) us s' -> reach s (u :: us) s'
| r_mark : forall s h us s', (forall x, t_wd s < x <= h -> nonempty s x = false) -> h <= t_height s ->
    reach (with_d s (set_mark (t_wd s, t_pd s) h)) us s' -> reach s us s'.

Lemma reach_app : forall s us s1 vs s2, reach s us s1 -> reach s1 vs s2 -> reach s (us ++ vs) s2.
Proof.
  intros s us s1 vs s2 R1 R2. induction R1 as [s|s u us s' R IH|s h us s' He Hh R IH]; cbn [app].
  - assumption.
  - apply r_sub. now apply IH.
  - eapply r_mark; [eassumption | assumption | now apply IH].
Qed.

Lemma subs_run_reach : forall us s, reach s us (fst (subs_run s us)).
Proof.
  induction us as [|u us IH]; intros s; cbn [subs_run]; [apply r_nil|].
  destruct (sub_step s u) as [s1 o] eqn:E. specialize (IH s1).
  destruct (subs_run s1 us) as [s2 os]. cbn [fst] in *. apply r_sub. now rewrite E.
Qed.

Lemma reach_inv : forall c s us s', 1 <= c_init c -> reach s us s' -> Inv c s -> Inv c s'.
Proof.
  intros c s us s' Hi R. induction R as [s|s u us s' R IH|s h us s' He Hh R IH]; intros I.
  - assumption.
  - apply IH. now apply sub_step_inv.
  - apply IH. now apply mark_step_inv.
Qed.

Lemma reach_le : forall c s us s', 1 <= c_init c -> reach s us s' -> Inv c s -> le_da s s'.
Proof.
  intros c s us s' Hi R. induction R as [s|s u us s' R IH|s h us s' He Hh R IH]; intros I.
  - apply le_da_refl.
  - eapply le_da_trans; [eapply sub_step_le; eassumption | apply IH; now apply sub_step_inv].
  - eapply le_da_trans; [apply mark_step_le | apply IH; now apply mark_step_inv].
Qed.

(* ---- fewer blocks wait as the DA layer gains ------------------------------------------------------------- *)
Lemma waits_mono : forall s s' h, le_da s s' -> waits s' h = true -> waits s h = true.
Proof.
  intros s s' h [Eh En _ _ Ih Id] Hw. unfold waits in *. rewrite (nonempty_eq s s' h En) in Hw.
  apply orb_true_iff in Hw. apply orb_true_iff. destruct Hw as [Hw|Hw].
  - left. apply negb_true_iff, memN_false. apply negb_true_iff, memN_false in Hw. intro Hin. apply Hw. now apply Ih.
  - right. apply andb_true_iff in Hw. destruct Hw as [Hn Hw]. rewrite Hn. cbn [andb].
    apply negb_true_iff, memN_false. apply negb_true_iff, memN_false in Hw. intro Hin. apply Hw. now apply Id.
Qed.

Lemma filter_length_mono : forall (A : Type) (f g : A -> bool) l, (forall x, f x = true -> g x = true) ->
  (length (filter f l) <= length (filter g l))%nat.
Proof.
  intros A f g l H. induction l as [|a l IH]; cbn [filter]; [lia|].
  destruct (f a) eqn:Ef.
  - rewrite (H a Ef). cbn [length]. lia.
  - destruct (g a); cbn [length]; lia.
Qed.

Lemma waiting_mono : forall c s s', le_da s s' -> num_waiting_blocks c s' <= num_waiting_blocks c s.
Proof.
  intros c s s' Hle. unfold num_waiting_blocks, committed. rewrite (f_h _ _ Hle).
  pose proof (filter_length_mono N (waits s') (waits s) (seqN (c_init c) (N.to_nat (t_height s + 1 - c_init c)))
                (fun h => waits_mono s s' h Hle)). lia.
Qed.

(* ---- the two tests of the limit check, each against the state it reads --------------------------------- *)
Lemma hdr_waiting : forall c s, 1 <= c_init c -> Inv c s ->
  c_limit c <= t_height s - t_wh s -> c_limit c <= num_waiting_blocks c s.
Proof.
  intros c s Hi I HA.
  pose proof (i_hhi _ _ I) as Hhh. pose proof (i_hlo _ _ I) as Hhl.
  pose proof (waiting_blocks_ge c s (seqN (t_wh s + 1) (N.to_nat (t_height s - t_wh s))) (seqN_NoDup _ _)) as H.
  rewrite seqN_length in H. etransitivity; [|apply H]; [lia|].
  intros h Hh. apply seqN_In in Hh. split.
  - apply committed_In; [assumption | lia | lia].
  - unfold waits. apply orb_true_iff. left. apply negb_true_iff, memN_false.
    intro Hin. apply (i_dah _ _ I) in Hin. lia.
Qed.

Lemma dat_waiting : forall c s, 1 <= c_init c -> Inv c s ->
  c_limit c <= N.of_nat (length (filter (nonempty s) (seqN (t_wd s + 1) (N.to_nat (t_height s - t_wd s))))) ->
  c_limit c <= num_waiting_blocks c s.
Proof.
  intros c s Hi I Hr.
  pose proof (i_dhi _ _ I) as Hdh. pose proof (i_dlo _ _ I) as Hdl.
  pose proof (waiting_blocks_ge c s (filter (nonempty s) (seqN (t_wd s + 1) (N.to_nat (t_height s - t_wd s))))
                (NoDup_filter _ (seqN_NoDup _ _))) as H.
  etransitivity; [|apply H]; [lia|].
  intros h Hh. apply filter_In in Hh. destruct Hh as [Hh Hne]. apply seqN_In in Hh. split.
  - apply committed_In; [assumption | lia | lia].
  - unfold waits. apply orb_true_iff. right. rewrite Hne. cbn [andb]. apply negb_true_iff, memN_false.
    intro Hin. apply (i_dad1 _ _ I) in Hin. lia.
Qed.

(* ---- the interleaved loop of numWaitingData ---------------------------------------------------------------- *)
Lemma concat_hd_tl : forall (A : Type) (qs : list (list A)), concat qs = hd [] qs ++ concat (tl qs).
Proof. intros A qs. destruct qs; reflexivity. Qed.

Lemma waiting_loop_i_spec : forall c, 1 <= c_init c -> forall n a s k qs cnt s' os,
  Inv c s -> waiting_loop_i s (seqN a n) k qs = (cnt, (s', os)) ->
  a + N.of_nat n <= t_height s + 1 ->
  (k = 0 -> forall x, t_wd s < x < a -> nonempty s x = false) ->
  reach s (concat qs) s' /\ cnt = k + N.of_nat (length (filter (nonempty s) (seqN a n))).
Proof.
  intros c Hi. induction n as [|n IH]; intros a s k qs cnt s' os I Heq Hb Hk; cbn [seqN waiting_loop_i] in Heq.
  - pose proof (subs_run_reach (concat qs) s) as R. destruct (subs_run s (concat qs)) as [s2 o2].
    inversion Heq; subst. cbn [fst] in R. split; [assumption | cbn; lia].
  - pose proof (subs_run_reach (hd [] qs) s) as R1.
    destruct (subs_run s (hd [] qs)) as [s1 o1] eqn:E1. cbn [fst] in R1.
    pose proof (reach_inv c _ _ _ Hi R1 I) as I1. pose proof (reach_le c _ _ _ Hi R1 I) as [Fh Fn Fwh Fwd _ _].
    assert (Hf : forall l, filter (nonempty s1) l = filter (nonempty s) l)
      by (intros l; apply filter_ext; intros x; now apply nonempty_eq).
    rewrite (concat_hd_tl _ qs). cbn [filter seqN]. rewrite <- (nonempty_eq s s1 a Fn).
    destruct (nonempty s1 a) eqn:Hne.
    + destruct (waiting_loop_i s1 (seqN (a + 1) n) (k + 1) (tl qs)) as [n0 [s3 o3]] eqn:Er.
      inversion Heq; subst n0 s3 os; clear Heq.
      destruct (IH _ _ _ _ _ _ _ I1 Er ltac:(lia) ltac:(lia)) as [R2 C2].
      split; [eapply reach_app; eassumption|]. rewrite Hf in C2. cbn [length]. lia.
    + destruct (N.eqb_spec k 0) as [->|Hk0].
      * assert (He : forall x, t_wd s1 < x <= a -> nonempty s1 x = false).
        { intros x Hx. destruct (N.eq_dec x a) as [->|Hxa]; [assumption|].
          rewrite (nonempty_eq s s1 x Fn). apply (Hk eq_refl). lia. }
        assert (Ha : a <= t_height s1) by lia.
        pose proof (mark_step_inv c s1 a I1 He Ha) as I2.
        destruct (waiting_loop_i (with_d s1 (set_mark (t_wd s1, t_pd s1) a)) (seqN (a + 1) n) 0 (tl qs)) as [n0 [s3 o3]] eqn:Er.
        inversion Heq; subst n0 s3 os; clear Heq.
        assert (Hk' : 0 = 0 -> forall x, t_wd (with_d s1 (set_mark (t_wd s1, t_pd s1) a)) < x < a + 1 ->
                      nonempty (with_d s1 (set_mark (t_wd s1, t_pd s1) a)) x = false).
        { intros _ x Hx. exfalso. revert Hx. unfold with_d, set_mark. cbn [fst snd t_wd].
          destruct (N.ltb_spec (t_wd s1) a); cbn [fst]; lia. }
        destruct (IH _ _ _ _ _ _ _ I2 Er ltac:(cbn [with_d t_height]; lia) Hk') as [R2 C2].
        split.
        -- eapply reach_app; [eassumption|]. eapply r_mark; eassumption.
        -- assert (Hf2 : forall l, filter (nonempty (with_d s1 (set_mark (t_wd s1, t_pd s1) a))) l = filter (nonempty s) l).
           { intros l. apply filter_ext. intros x. rewrite <- (nonempty_eq s s1 x Fn). reflexivity. }
           rewrite Hf2 in C2. lia.
      * destruct (waiting_loop_i s1 (seqN (a + 1) n) k (tl qs)) as [n0 [s3 o3]] eqn:Er.
        inversion Heq; subst n0 s3 os; clear Heq.
        destruct (IH _ _ _ _ _ _ _ I1 Er ltac:(lia) ltac:(lia)) as [R2 C2].
        split; [eapply reach_app; eassumption|]. rewrite Hf in C2. lia.
Qed.

(* ---- one interleaved attempt --------------------------------------------------------------------------- *)
Lemma bump_inv : forall c s ne, 1 <= c_init c -> Inv c s ->
  (c_limit c <> 0 -> t_height s - t_wh s < c_limit c) -> Inv c (bump c s ne).
Proof.
  intros c s ne Hi I Hthr. unfold bump. destruct I. constructor; cbn; try assumption; try lia.
  - intros h Hh. destruct (ne && negb (t_height s + 1 <=? c_init c)) eqn:Hne.
    + destruct Hh as [<-|Hh]; [|specialize (i_nes h Hh); lia].
      apply andb_prop in Hne. destruct Hne as [_ Hne].
      destruct (N.leb_spec (t_height s + 1) (c_init c)); [discriminate | lia].
    + specialize (i_nes h Hh). lia.
  - intros h Hh Hne. apply i_dad2; [assumption|].
    unfold nonempty in *. cbn [t_nes] in *. destruct (ne && negb (t_height s + 1 <=? c_init c)); [|assumption].
    unfold memN in *. cbn [existsb] in Hne. destruct (N.eqb_spec h (t_height s + 1)); [lia | assumption].
Qed.

Lemma run_eq : forall s us s1 o1, subs_run s us = (s1, o1) -> reach s us s1.
Proof. intros s us s1 o1 E. pose proof (subs_run_reach us s) as R. now rewrite E in R. Qed.

(* the state s5 just before the decision takes effect is reached from s by exactly the iterations of the
   schedule (plus watermark steps over empty items); a refusal is backed by L waiting blocks at the START of
   the attempt; a pass leaves room under the limit *)
Lemma attempt_i_spec : forall c s q ne s' r os, 1 <= c_init c -> Inv c s ->
  attempt_i c s q ne = (s', (r, os)) ->
  exists s5, reach s (all_subs q) s5 /\ Inv c s5 /\ le_da s s5 /\
    (r = true -> s' = s5 /\ c_limit c <> 0 /\ c_limit c <= num_waiting_blocks c s) /\
    (r = false -> s' = bump c s5 ne /\ (c_limit c <> 0 -> t_height s5 - t_wh s5 < c_limit c)).
Proof.
  intros c s q ne s' r os Hi I Heq. unfold attempt_i in Heq.
  destruct (subs_run s (q_pre q)) as [s0 o0] eqn:E0. pose proof (run_eq _ _ _ _ E0) as R0.
  destruct (subs_run s0 (q_hd q)) as [s1 o1] eqn:E1. pose proof (run_eq _ _ _ _ E1) as R1.
  destruct (subs_run s1 (q_dd q)) as [s2 o2] eqn:E2. pose proof (run_eq _ _ _ _ E2) as R2.
  destruct (subs_run s2 (q_fetch q)) as [s3 o3] eqn:E3. pose proof (run_eq _ _ _ _ E3) as R3.
  pose proof (reach_inv c _ _ _ Hi R0 I) as I0. pose proof (reach_le c _ _ _ Hi R0 I) as L0.
  pose proof (reach_inv c _ _ _ Hi R1 I0) as I1. pose proof (reach_le c _ _ _ Hi R1 I0) as L1.
  pose proof (reach_inv c _ _ _ Hi R2 I1) as I2. pose proof (reach_le c _ _ _ Hi R2 I1) as L2.
  pose proof (reach_inv c _ _ _ Hi R3 I2) as I3. pose proof (reach_le c _ _ _ Hi R3 I2) as L3.
  pose proof (le_da_trans _ _ _ L0 L1) as L01. pose proof (le_da_trans _ _ _ L01 L2) as L02.
  pose proof (le_da_trans _ _ _ L02 L3) as L03.
  set (L := c_limit c) in *. set (H := t_height s) in *.
  set (hdr := negb (L =? 0) && (L <=? sub64 H (t_wh s0))) in *.
  set (dat := negb (L =? 0) && negb hdr && (L <=? sub64 H (t_wd s1))) in *.
  set (pending := if dat then match get_pending (t_wd s2) H with Some l => l | None => [] end else []) in *.
  assert (Hw2 : t_wd s2 <= H) by (pose proof (i_dhi _ _ I2); pose proof (f_h _ _ L02); lia).
  assert (Hp : exists n', pending = seqN (t_wd s2 + 1) n' /\ t_wd s2 + 1 + N.of_nat n' <= H + 1 /\
                          (dat = true -> n' = N.to_nat (H - t_wd s2))).
  { subst pending. destruct dat.
    - rewrite (get_pending_ok _ _ Hw2). exists (N.to_nat (H - t_wd s2)). split; [reflexivity|]. split; [lia | auto].
    - exists O. split; [reflexivity|]. split; [lia | discriminate]. }
  destruct Hp as [n' [Ep [Hb Hn']]]. rewrite Ep in Heq.
  destruct (waiting_loop_i s3 (seqN (t_wd s2 + 1) n') 0 (q_loop q)) as [n [s4 o4]] eqn:E4.
  assert (Hk : 0 = 0 -> forall x, t_wd s3 < x < t_wd s2 + 1 -> nonempty s3 x = false).
  { intros _ x Hx. pose proof (f_wd _ _ L3). lia. }
  destruct (waiting_loop_i_spec c Hi _ _ _ _ _ _ _ _ I3 E4 ltac:(rewrite (f_h _ _ L03); fold H; lia) Hk) as [R4 C4].
  pose proof (reach_inv c _ _ _ Hi R4 I3) as I4. pose proof (reach_le c _ _ _ Hi R4 I3) as L4.
  destruct (subs_run s4 (q_build q)) as [s5 o5] eqn:E5. pose proof (run_eq _ _ _ _ E5) as R5.
  pose proof (reach_inv c _ _ _ Hi R5 I4) as I5. pose proof (reach_le c _ _ _ Hi R5 I4) as L5.
  pose proof (le_da_trans _ _ _ L03 L4) as L04. pose proof (le_da_trans _ _ _ L04 L5) as L05.
  inversion Heq; subst s' r os; clear Heq.
  exists s5. split; [|split; [assumption|split; [assumption|]]].
  { unfold all_subs. repeat (eapply reach_app; [eassumption|]). rewrite <- (app_nil_r (q_build q)).
    eapply reach_app; [eassumption | apply r_nil]. }
  assert (Hwh0 : t_wh s0 <= H) by (pose proof (i_hhi _ _ I0); pose proof (f_h _ _ L0); lia).
  assert (Hwd1 : t_wd s1 <= H) by (pose proof (i_dhi _ _ I1); pose proof (f_h _ _ L01); lia).
  split.
  - intros Hr. split; [now rewrite Hr|].
    apply orb_true_iff in Hr. destruct Hr as [Hr|Hr].
    + subst hdr. apply andb_true_iff in Hr. destruct Hr as [Hon Hl].
      split; [destruct (N.eqb_spec L 0); [discriminate | assumption]|].
      rewrite (sub64_le _ _ Hwh0) in Hl. apply N.leb_le in Hl.
      etransitivity; [|apply (waiting_mono c _ _ L0)].
      apply hdr_waiting; try assumption. rewrite (f_h _ _ L0). fold H. fold L. lia.
    + apply andb_true_iff in Hr. destruct Hr as [Hd Hl]. specialize (Hn' Hd). subst n'.
      assert (Hon : L <> 0).
      { subst dat. destruct (N.eqb_spec L 0); [cbn in Hd; discriminate | assumption]. }
      split; [assumption|]. apply N.leb_le in Hl.
      etransitivity; [|apply (waiting_mono c _ _ L02)].
      apply dat_waiting; try assumption. rewrite (f_h _ _ L02). fold H. fold L.
      assert (Hf : filter (nonempty s2) (seqN (t_wd s2 + 1) (N.to_nat (H - t_wd s2))) =
                   filter (nonempty s3) (seqN (t_wd s2 + 1) (N.to_nat (H - t_wd s2)))).
      { apply filter_ext. intros x. symmetry. apply nonempty_eq. apply (f_nes _ _ L3). }
      rewrite Hf. lia.
  - intros Hr. split; [now rewrite Hr|]. intros HL.
    apply orb_false_iff in Hr. destruct Hr as [Hh _]. subst hdr.
    destruct (N.eqb_spec L 0) as [E|_]; [contradiction|]. cbn [negb andb] in Hh.
    rewrite (sub64_le _ _ Hwh0) in Hh. apply N.leb_gt in Hh.
    pose proof (f_h _ _ L05). fold H in H0.
    assert (t_wh s0 <= t_wh s5).
    { pose proof (f_wh _ _ L1). pose proof (f_wh _ _ L2). pose proof (f_wh _ _ L3). pose proof (f_wh _ _ L4). pose proof (f_wh _ _ L5). lia. }
    fold L. lia.
Qed.

(* with nothing scheduled inside, the attempt is the atomic one of Model/Throttle.v *)
Lemma with_d_id : forall s, with_d s (t_wd s, t_pd s) = s.
Proof. intros []. reflexivity. Qed.

Lemma waiting_loop_i_nil : forall hs s k wp,
  waiting_loop_i (with_d s wp) hs k [] =
  (fst (waiting_loop s hs k wp), (with_d s (snd (waiting_loop s hs k wp)), [])).
Proof.
  induction hs as [|h r IH]; intros s k wp; cbn [waiting_loop_i waiting_loop hd tl concat subs_run fst snd]; [reflexivity|].
  change (nonempty (with_d s wp) h) with (nonempty s h).
  destruct (nonempty s h).
  - rewrite IH. reflexivity.
  - destruct (k =? 0).
    + replace (set_mark (t_wd (with_d s wp), t_pd (with_d s wp)) h) with (set_mark wp h) by (destruct wp; reflexivity).
      change (with_d (with_d s wp) (set_mark wp h)) with (with_d s (set_mark wp h)). rewrite IH. reflexivity.
    + rewrite IH. reflexivity.
Qed.

Lemma attempt_i_sequential : forall c s ne,
  attempt_i c s no_sched ne = (produce c s ne, (refused c s, [])).
Proof.
  intros c s ne. unfold attempt_i, produce, refused, limit_check, num_waiting, no_sched.
  cbn [q_pre q_hd q_dd q_fetch q_loop q_build subs_run].
  destruct (c_limit c =? 0) eqn:E0; cbn [negb andb orb].
  - cbn [waiting_loop_i concat subs_run fst app]. reflexivity.
  - destruct (c_limit c <=? sub64 (t_height s) (t_wh s)) eqn:E1; cbn [negb andb orb].
    + cbn [waiting_loop_i concat subs_run fst app]. reflexivity.
    + destruct (c_limit c <=? sub64 (t_height s) (t_wd s)) eqn:E2; cbn [negb andb orb].
      * rewrite <- (with_d_id s) at 1. rewrite waiting_loop_i_nil.
        destruct (waiting_loop s _ 0 (t_wd s, t_pd s)) as [n [w p]]. cbn [fst snd app].
        destruct (c_limit c <=? n); reflexivity.
      * cbn [waiting_loop_i concat subs_run fst app]. destruct s; reflexivity.
Qed.

(* ---- histories ----------------------------------------------------------------------------------------------- *)
Lemma xstep_inv : forall c s x, 1 <= c_init c -> Inv c s -> Inv c (fst (xstep c s x)).
Proof.
  intros c s x Hi I. destruct x as [i|q ne]; cbn [xstep].
  - pose proof (step_inv c s i Hi I). destruct (step c s i) as [s' o]. assumption.
  - destruct (attempt_i c s q ne) as [s' [r os]] eqn:E. cbn [fst].
    destruct (attempt_i_spec _ _ _ _ _ _ _ Hi I E) as [s5 [_ [I5 [_ [Ht Hf]]]]].
    destruct r.
    + destruct (Ht eq_refl) as [-> _]. assumption.
    + destruct (Hf eq_refl) as [-> Hthr]. now apply bump_inv.
Qed.

Lemma xrun_from_fst : forall c h s, fst (xrun_from c s h) = fold_left (fun s x => fst (xstep c s x)) h s.
Proof.
  intros c. induction h as [|x h IH]; intros s; cbn [xrun_from fold_left]; [reflexivity|].
  destruct (xstep c s x) as [s1 o] eqn:Hs. specialize (IH s1).
  destruct (xrun_from c s1 h) as [s2 os]. cbn [fst] in *. assumption.
Qed.

Lemma xrun_from_inv : forall c h s, 1 <= c_init c -> Inv c s -> Inv c (fst (xrun_from c s h)).
Proof.
  intros c h s Hi. rewrite xrun_from_fst. revert s.
  induction h as [|x h IH]; intros s I; cbn [fold_left]; [assumption|].
  apply IH. now apply xstep_inv.
Qed.

Lemma xfinal_inv : forall c h, 1 <= c_init c -> Inv c (xfinal c h).
Proof. intros c h Hi. unfold xfinal, xrun. apply xrun_from_inv; [assumption | now apply init_inv]. Qed.

Lemma xfinal_app : forall c h1 h2, xfinal c (h1 ++ h2) = fst (xrun_from c (xfinal c h1) h2).
Proof. intros c h1 h2. unfold xfinal, xrun. rewrite !xrun_from_fst. apply fold_left_app. Qed.

(* atomic histories are histories *)
Lemma xrun_from_XI : forall c h s, fst (xrun_from c s (map XI h)) = fst (run_from c s h).
Proof.
  intros c. induction h as [|i h IH]; intros s; cbn [map xrun_from run_from xstep]; [reflexivity|].
  destruct (step c s i) as [s1 o]. specialize (IH s1).
  destruct (xrun_from c s1 (map XI h)) as [s2 os]. destruct (run_from c s1 h) as [s3 os']. cbn [fst] in *. assumption.
Qed.

Lemma xfinal_XI : forall c h, xfinal c (map XI h) = final c h.
Proof. intros c h. unfold xfinal, xrun, final, run. apply xrun_from_XI. Qed.

(* the attempt as an item *)
Definition attempt_state (c : cfg) (s : state) (q : sched) (ne : bool) : state := fst (attempt_i c s q ne).
Definition attempt_refused (c : cfg) (s : state) (q : sched) (ne : bool) : bool := fst (snd (attempt_i c s q ne)).

Lemma xfinal_snoc_attempt : forall c h q ne,
  xfinal c (h ++ [XProduceI q ne]) = attempt_state c (xfinal c h) q ne.
Proof.
  intros c h q ne. rewrite xfinal_app. cbn [xrun_from xstep]. unfold attempt_state.
  destruct (attempt_i c (xfinal c h) q ne) as [s' [r os]]. reflexivity.
Qed.

Lemma bump_height : forall c s ne, t_height (bump c s ne) = t_height s + 1.
Proof. reflexivity. Qed.

(* refused <-> the height stays; passed <-> the height moves by one *)
Lemma attempt_height : forall c s q ne, 1 <= c_init c -> Inv c s ->
  t_height (attempt_state c s q ne) = if attempt_refused c s q ne then t_height s else t_height s + 1.
Proof.
  intros c s q ne Hi I. unfold attempt_state, attempt_refused.
  destruct (attempt_i c s q ne) as [s' [r os]] eqn:E. cbn [fst snd].
  destruct (attempt_i_spec _ _ _ _ _ _ _ Hi I E) as [s5 [_ [_ [L5 [Ht Hf]]]]].
  destruct r.
  - destruct (Ht eq_refl) as [-> _]. apply (f_h _ _ L5).
  - destruct (Hf eq_refl) as [-> _]. rewrite bump_height, (f_h _ _ L5). reflexivity.
Qed.

Lemma attempt_refusal_justified : forall c s q ne, 1 <= c_init c -> Inv c s ->
  attempt_refused c s q ne = true -> c_limit c <> 0 /\ c_limit c <= num_waiting_blocks c s.
Proof.
  intros c s q ne Hi I Hr. unfold attempt_refused in Hr.
  destruct (attempt_i c s q ne) as [s' [r os]] eqn:E. cbn [fst snd] in Hr. subst r.
  destruct (attempt_i_spec _ _ _ _ _ _ _ Hi I E) as [s5 [_ [_ [_ [Ht _]]]]].
  destruct (Ht eq_refl) as [_ [H1 H2]]. split; assumption.
Qed.

(* ---- the iterations inside an attempt do reach the DA layer -------------------------------------------- *)
Definition sched_accepts (q : sched) : Prop :=
  (exists sh, In (SHeaders sh) (all_subs q) /\ eventually_accepts sh) /\
  (exists sd, In (SData sd) (all_subs q) /\ eventually_accepts sd).

Lemma le_da_headers_on_da : forall c s s', le_da s s' -> all_headers_on_da c s -> all_headers_on_da c s'.
Proof. intros c s s' Hle A h Hh. apply (f_dah _ _ Hle). apply A. rewrite <- (f_h _ _ Hle). assumption. Qed.

Lemma le_da_data_on_da : forall c s s', le_da s s' -> all_data_on_da c s -> all_data_on_da c s'.
Proof.
  intros c s s' Hle A h Hh Hne. apply (f_dad _ _ Hle). apply A; [rewrite <- (f_h _ _ Hle); assumption|].
  rewrite <- (nonempty_eq s s' h (f_nes _ _ Hle)). assumption.
Qed.

Lemma reach_headers_on_da : forall c s us s', 1 <= c_init c -> reach s us s' -> Inv c s ->
  all_headers_on_da c s \/ (exists sh, In (SHeaders sh) us /\ eventually_accepts sh) ->
  all_headers_on_da c s'.
Proof.
  intros c s us s' Hi R. induction R as [s|s u us s' R IH|s h us s' He Hh R IH]; intros I HA.
  - destruct HA as [HA|[sh [[] _]]]. assumption.
  - apply IH; [now apply sub_step_inv|].
    destruct HA as [HA|[sh [[->|Hin] Hacc]]].
    + left. eapply le_da_headers_on_da; [eapply sub_step_le; eassumption | assumption].
    + left. cbn [sub_step]. destruct (headers_iter s sh) as [s1 r1] eqn:E. cbn [fst].
      eapply headers_accepting; eassumption.
    + right. exists sh. split; assumption.
  - apply IH; [now apply mark_step_inv|].
    destruct HA as [HA|HA]; [left | right; assumption].
    eapply le_da_headers_on_da; [apply mark_step_le | assumption].
Qed.

Lemma reach_data_on_da : forall c s us s', 1 <= c_init c -> reach s us s' -> Inv c s ->
  all_data_on_da c s \/ (exists sd, In (SData sd) us /\ eventually_accepts sd) ->
  all_data_on_da c s'.
Proof.
  intros c s us s' Hi R. induction R as [s|s u us s' R IH|s h us s' He Hh R IH]; intros I HA.
  - destruct HA as [HA|[sh [[] _]]]. assumption.
  - apply IH; [now apply sub_step_inv|].
    destruct HA as [HA|[sd [[->|Hin] Hacc]]].
    + left. eapply le_da_data_on_da; [eapply sub_step_le; eassumption | assumption].
    + left. cbn [sub_step]. destruct (data_iter s sd) as [s1 r1] eqn:E. cbn [fst].
      eapply data_accepting; eassumption.
    + right. exists sd. split; assumption.
  - apply IH; [now apply mark_step_inv|].
    destruct HA as [HA|HA]; [left | right; assumption].
    eapply le_da_data_on_da; [apply mark_step_le | assumption].
Qed.

(* an attempt that is refused while a DA layer that accepts takes a header and a data iteration somewhere
   inside it: afterwards nothing waits *)
Lemma refused_attempt_settles : forall c s q ne, 1 <= c_init c -> Inv c s -> sched_accepts q ->
  attempt_refused c s q ne = true -> num_waiting_blocks c (attempt_state c s q ne) = 0.
Proof.
  intros c s q ne Hi I [HH HD] Hr. unfold attempt_refused, attempt_state in *.
  destruct (attempt_i c s q ne) as [s' [r os]] eqn:E. cbn [fst snd] in *. subst r.
  destruct (attempt_i_spec _ _ _ _ _ _ _ Hi I E) as [s5 [R5 [I5 [L5 [Ht _]]]]].
  destruct (Ht eq_refl) as [-> _].
  apply settled_zero; try assumption.
  - pose proof (i_hlo _ _ I5). pose proof (i_hhi _ _ I5). lia.
  - eapply reach_headers_on_da; try eassumption. now right.
  - eapply reach_data_on_da; try eassumption. now right.
Qed.

(* ---- the statements of Props/C08.v about interleaved histories ------------------------------------------- *)
Lemma c08i_sequential : forall (c : cfg) (s : state) (ne : bool),
  attempt_i c s no_sched ne = (produce c s ne, (refused c s, [])).
Proof. exact attempt_i_sequential. Qed.

Lemma c08i_atomic_histories : forall (c : cfg) (hist : list item), xfinal c (map XI hist) = final c hist.
Proof. exact xfinal_XI. Qed.

Lemma c08i_refusal_justified : forall (c : cfg) (hist : list xitem) (q : sched) (ne : bool), 1 <= c_init c ->
  let s := xfinal c hist in
  let s' := xfinal c (hist ++ [XProduceI q ne]) in
  t_height s' <> t_height s + 1 ->
  t_height s' = t_height s /\ c_limit c <> 0 /\ c_limit c <= num_waiting_blocks c s.
Proof.
  intros c hist q ne Hi s s' Hn. subst s'. rewrite xfinal_snoc_attempt in *. fold s in Hn |- *.
  pose proof (xfinal_inv c hist Hi) as I. fold s in I.
  rewrite (attempt_height c s q ne Hi I) in *.
  destruct (attempt_refused c s q ne) eqn:Hr; [|congruence].
  split; [reflexivity|]. eapply attempt_refusal_justified; eassumption.
Qed.

Lemma c08i_resumes_when_accepted : forall (c : cfg) (hist : list xitem) (q : sched) (ne : bool), 1 <= c_init c ->
  let s := xfinal c hist in
  num_waiting_blocks c s < c_limit c ->
  t_height (xfinal c (hist ++ [XProduceI q ne])) = t_height s + 1.
Proof.
  intros c hist q ne Hi s Hlt. rewrite xfinal_snoc_attempt. fold s.
  pose proof (xfinal_inv c hist Hi) as I. fold s in I.
  rewrite (attempt_height c s q ne Hi I).
  destruct (attempt_refused c s q ne) eqn:Hr; [|reflexivity].
  destruct (attempt_refusal_justified _ _ _ _ Hi I Hr). lia.
Qed.

(* one header and one data iteration between attempts, then an attempt under ANY schedule *)
Lemma c08i_resumes : forall (c : cfg) (hist : list xitem) (hfirst : bool) (sh sd : list outcome) (q : sched) (ne : bool),
  1 <= c_init c -> eventually_accepts sh -> eventually_accepts sd ->
  let s := xfinal c (hist ++ map XI (sub_round hfirst sh sd)) in
  num_waiting_blocks c s = 0 /\ t_height (xfinal c (hist ++ map XI (sub_round hfirst sh sd) ++ [XProduceI q ne])) = t_height s + 1.
Proof.
  intros c hist hfirst sh sd q ne Hi Hsh Hsd s.
  assert (Z : num_waiting_blocks c s = 0).
  { subst s. rewrite xfinal_app, xrun_from_XI.
    destruct (sub_round_settles c (xfinal c hist) hfirst sh sd Hi (xfinal_inv c hist Hi) Hsh Hsd) as [_ [_ Z]]. exact Z. }
  split; [assumption|]. rewrite app_assoc.
  destruct (N.eq_dec (c_limit c) 0) as [E0|E0].
  - rewrite xfinal_snoc_attempt. fold s.
    pose proof (xfinal_inv c (hist ++ map XI (sub_round hfirst sh sd)) Hi) as I. fold s in I.
    rewrite (attempt_height c s q ne Hi I).
    destruct (attempt_refused c s q ne) eqn:Hr; [|reflexivity].
    destruct (attempt_refusal_justified _ _ _ _ Hi I Hr). contradiction.
  - apply c08i_resumes_when_accepted; [assumption|]. fold s. lia.
Qed.

(* a stale refusal costs one attempt: of two consecutive attempts, under any schedules, the first of which
   has a header and a data iteration against an accepting DA layer somewhere inside, at least one produces *)
Lemma c08i_stale_refusal_one_attempt : forall (c : cfg) (hist : list xitem) (q1 q2 : sched) (ne1 ne2 : bool),
  1 <= c_init c -> c_limit c <> 0 -> sched_accepts q1 ->
  let s0 := xfinal c hist in
  let s1 := xfinal c (hist ++ [XProduceI q1 ne1]) in
  let s2 := xfinal c (hist ++ [XProduceI q1 ne1; XProduceI q2 ne2]) in
  t_height s1 = t_height s0 + 1 \/ (num_waiting_blocks c s1 = 0 /\ t_height s2 = t_height s1 + 1).
Proof.
  intros c hist q1 q2 ne1 ne2 Hi HL Hacc s0 s1 s2.
  pose proof (xfinal_inv c hist Hi) as I. fold s0 in I.
  assert (E1 : s1 = attempt_state c s0 q1 ne1) by (subst s1 s0; apply xfinal_snoc_attempt).
  assert (E2 : s2 = xfinal c ((hist ++ [XProduceI q1 ne1]) ++ [XProduceI q2 ne2])) by (subst s2; now rewrite <- app_assoc).
  pose proof (attempt_height c s0 q1 ne1 Hi I) as Hh. rewrite <- E1 in Hh.
  destruct (attempt_refused c s0 q1 ne1) eqn:Hr; [right | now left].
  pose proof (refused_attempt_settles c s0 q1 ne1 Hi I Hacc Hr) as Z. rewrite <- E1 in Z.
  split; [assumption|]. rewrite E2.
  apply c08i_resumes_when_accepted; [assumption|]. fold s1. lia.
Qed.

(* no deadlock, rounds with an interleaved attempt *)
Record xround := mk_xround { xr_hfirst : bool; xr_sh : list outcome; xr_sd : list outcome; xr_q : sched; xr_ne : bool }.
Definition xround_items (r : xround) : list xitem :=
  map XI (sub_round (xr_hfirst r) (xr_sh r) (xr_sd r)) ++ [XProduceI (xr_q r) (xr_ne r)].
Definition xround_ok (r : xround) : Prop := eventually_accepts (xr_sh r) /\ eventually_accepts (xr_sd r).

Lemma c08i_no_deadlock : forall (c : cfg) (rs : list xround) (hist : list xitem), 1 <= c_init c ->
  Forall xround_ok rs ->
  t_height (xfinal c (hist ++ flat_map xround_items rs)) = t_height (xfinal c hist) + N.of_nat (length rs).
Proof.
  intros c. induction rs as [|r rs IH]; intros hist Hi Hok; cbn [flat_map length].
  - rewrite app_nil_r. lia.
  - inversion Hok as [|r' rs' [Hsh Hsd] Hrest]; subst.
    rewrite app_assoc, IH by assumption. unfold xround_items.
    destruct (c08i_resumes c hist (xr_hfirst r) (xr_sh r) (xr_sd r) (xr_q r) (xr_ne r) Hi Hsh Hsd) as [_ E].
    rewrite E. rewrite xfinal_app, xrun_from_XI.
    destruct (sub_round_settles c (xfinal c hist) (xr_hfirst r) (xr_sh r) (xr_sd r) Hi (xfinal_inv c hist Hi) Hsh Hsd) as [_ [Eh _]].
    rewrite Eh. lia.
Qed.

(* no deadlock, nothing but attempts: the submission loops run only INSIDE the attempts; if every attempt has
   an accepting header and an accepting data iteration somewhere inside, at least every second attempt
   produces a block *)
Lemma attempts_progress : forall (c : cfg), 1 <= c_init c -> c_limit c <> 0 ->
  forall (n : nat) (as_ : list (sched * bool)) (hist : list xitem), (length as_ <= n)%nat ->
  Forall (fun a => sched_accepts (fst a)) as_ ->
  t_height (xfinal c hist) + N.of_nat (Nat.div2 (length as_)) <=
  t_height (xfinal c (hist ++ map (fun a => XProduceI (fst a) (snd a)) as_)).
Proof.
  intros c Hi HL. induction n as [|n IH]; intros as_ hist Hlen Hok.
  - destruct as_; [|cbn in Hlen; lia]. cbn. rewrite app_nil_r. lia.
  - destruct as_ as [|[q1 ne1] [|[q2 ne2] rest]].
    + cbn. rewrite app_nil_r. lia.
    + cbn [map length Nat.div2 fst snd].
      pose proof (xfinal_inv c hist Hi) as I.
      rewrite xfinal_snoc_attempt, (attempt_height c _ q1 ne1 Hi I).
      destruct (attempt_refused c (xfinal c hist) q1 ne1); lia.
    + inversion Hok as [|a l H1 Hok1]; subst. inversion Hok1 as [|a l H2 Hok2]; subst. cbn [fst] in H1.
      cbn [map length Nat.div2 fst snd].
      replace (hist ++ XProduceI q1 ne1 :: XProduceI q2 ne2 :: map (fun a => XProduceI (fst a) (snd a)) rest)
        with ((hist ++ [XProduceI q1 ne1; XProduceI q2 ne2]) ++ map (fun a => XProduceI (fst a) (snd a)) rest)
        by (rewrite <- app_assoc; reflexivity).
      assert (Hlen' : (length rest <= n)%nat) by (cbn [length] in Hlen; lia).
      specialize (IH rest (hist ++ [XProduceI q1 ne1; XProduceI q2 ne2]) Hlen' Hok2).
      pose proof (c08i_stale_refusal_one_attempt c hist q1 q2 ne1 ne2 Hi HL H1) as Hs. cbn zeta in Hs.
      (* heights never decrease over an attempt *)
      assert (Hm : forall h q ne, t_height (xfinal c h) <= t_height (xfinal c (h ++ [XProduceI q ne]))).
      { intros h q ne. pose proof (xfinal_inv c h Hi) as Ih.
        rewrite xfinal_snoc_attempt, (attempt_height c _ q ne Hi Ih). destruct (attempt_refused c (xfinal c h) q ne); lia. }
      pose proof (Hm hist q1 ne1) as M1.
      pose proof (Hm (hist ++ [XProduceI q1 ne1]) q2 ne2) as M2. rewrite <- app_assoc in M2. cbn [app] in M2.
      destruct Hs as [Hs|[_ Hs]]; lia.
Qed.

Lemma c08i_no_deadlock_concurrent : forall (c : cfg) (hist : list xitem) (as_ : list (sched * bool)),
  1 <= c_init c -> c_limit c <> 0 -> Forall (fun a => sched_accepts (fst a)) as_ ->
  t_height (xfinal c hist) + N.of_nat (Nat.div2 (length as_)) <=
  t_height (xfinal c (hist ++ map (fun a => XProduceI (fst a) (snd a)) as_)).
Proof. intros c hist as_ Hi HL Hok. eapply attempts_progress; try eassumption. apply le_n. Qed.

(* the invariants of Model/Throttle.v hold along interleaved histories too *)
Lemma c08i_limit_enforced : forall (c : cfg) (hist : list xitem) (h : N), 1 <= c_init c -> c_limit c <> 0 ->
  let s := xfinal c hist in
  c_init c <= h <= t_height s -> ~ In h (t_dah s) -> t_height s < h + c_limit c.
Proof. intros c hist h Hi HL s Hh Hn. eapply limit_enforced; try eassumption. now apply xfinal_inv. Qed.

Lemma c08i_no_wrap : forall (c : cfg) (hist : list xitem), 1 <= c_init c ->
  let s := xfinal c hist in
  c_init c - 1 <= t_wh s <= t_height s /\ c_init c - 1 <= t_wd s <= t_height s /\
  sub64 (t_height s) (t_wh s) = t_height s - t_wh s /\ sub64 (t_height s) (t_wd s) = t_height s - t_wd s.
Proof.
  intros c hist Hi s. destruct (xfinal_inv c hist Hi). fold s in i_hlo, i_hhi, i_dlo, i_dhi.
  repeat split; try assumption; now apply sub64_le.
Qed.
