(* Proofs/GoLiteQueueRefine.v — REFINEMENT FROM TRANSLATED CODE: a history whose operations are executed by the
   TRANSLATED Go functions Sequencer.SubmitBatchTxs / GetNextBatch (with BatchQueue.AddBatch / Next / batchKey
   underneath; coq/gen/GoLiteFuns.v, regenerated from /repo on every run) is, step for step, a history of
   Model/Queue.v's [r_run] — and therefore has every property proved of [r_run], in particular the exactly-once
   FIFO specification (C10_fifo_full).
   Process starts (BatchQueue.Load: a loop over a datastore query, not translated) and crash cuts are taken from the
   model; the datastore is the model's image, to which the writes the translated code issues are applied. *)
From Coq Require Import String List NArith ZArith Bool Lia.
From Verif Require Import Model.Types Model.Admission Model.GoLite Check.GoLiteTactics gen.GoLiteFuns Check.GoLiteQueue.
From Verif Require Import Model.Queue Proofs.QueueProofs.
Import ListNotations.
Open Scope string_scope.
Open Scope list_scope.

(* the request a caller sends for an operation of the model's vocabulary; [me] = the sequencer's own chain id *)
Definition id_of (me : N) (ok : bool) : N := if ok then me else (me + 1)%N.
Definition sub_at (next : N) (s : usub) : sub := match s with UNil => SNil | UEmpty => SEmpty | UB b => SB next b end.

Definition out_of_submit (e : gval) : out :=
  let c := err_class e in
  if c =? "ok" then ROk else if c =? "ErrInvalidId" then RInvalidId else RFull.
Definition out_of_next (r e : gval) : out :=
  if err_class e =? "ErrInvalidId" then RInvalidId
  else match r with
       | VRec (("Batch", VBatchQ b) :: _) => RBatch b
       | _ => REmpty
       end.

(* one operation, executed by the translated code on the sequencer object built from the model's state *)
Definition go_uop (me max : N) (m : list entry) (next : N) (o : uop) : option (list entry * N * out * list wr) :=
  match o with
  | USubmit ok s =>
      match run_eff gen_funs seq_globals "Sequencer.SubmitBatchTxs" (Some (seqobj me m next max))
                    [VUnit; req_of (id_of me ok) (sub_at next s)] with
      | Some ([_; e], effs) =>
          match seq_after effs with
          | Some (m', n') => Some (m', n', out_of_submit e, fst (qsplit effs))
          | None => None
          end
      | _ => None
      end
  | UNext ok =>
      match run_eff gen_funs seq_globals "Sequencer.GetNextBatch" (Some (seqobj me m next max))
                    [VUnit; VRec [("Id", VChainQ (id_of me ok))]] with
      | Some ([r; e], effs) =>
          match seq_after effs with
          | Some (m', n') => Some (m', n', out_of_next r e, fst (qsplit effs))
          | None => None
          end
      | _ => None
      end
  end.

Lemma id_of_eqb : forall me ok, (id_of me ok =? me)%N = ok.
Proof. intros me [|]; unfold id_of; [apply N.eqb_refl|apply N.eqb_neq; lia]. Qed.

(* the translated code computes exactly the model's step: result, datastore writes, queue, counter *)
Lemma go_uop_is_step : forall me max m next o,
  go_uop me max m next o =
  let '(m', r, ws) := step_mem max m (key_op next o) in
  Some (m', (if accepts max m o then next + 1 else next)%N, r, ws).
Proof.
  intros me max m next o. destruct o as [ok s|ok]; unfold go_uop.
  - pose proof (go_SubmitBatchTxs me (id_of me ok) m next max (sub_at next s)) as H.
    assert (Hk : match sub_at next s with SB k _ => k = next | _ => True end) by (destruct s; cbn; auto).
    specialize (H Hk). rewrite id_of_eqb in H.
    destruct (run_eff gen_funs seq_globals "Sequencer.SubmitBatchTxs" _ _) as [[vals effs]|]; [|contradiction].
    destruct vals as [|v0 [|e [|? ?]]]; try contradiction.
    replace (key_op next (USubmit ok s)) with (OSubmit ok (sub_at next s)) by (destruct s; reflexivity).
    destruct (step_mem max m (OSubmit ok (sub_at next s))) as [[m' r] ws] eqn:Es.
    destruct H as [He [Hw Ha]]. rewrite Ha, Hw. unfold out_of_submit. rewrite He.
    (* the counter: incremented exactly when the submission was accepted *)
    unfold step_mem in Es. unfold accepts.
    destruct ok; destruct s as [| |b]; cbn [sub_at] in *;
      try (inversion Es; subst; reflexivity).
    destruct (full max m); inversion Es; subst; reflexivity.
  - pose proof (go_GetNextBatch me (id_of me ok) m next max) as H. rewrite id_of_eqb in H.
    destruct (run_eff gen_funs seq_globals "Sequencer.GetNextBatch" _ _) as [[vals effs]|]; [|contradiction].
    destruct vals as [|r [|e [|? ?]]]; try contradiction.
    cbn [key_op accepts].
    destruct (step_mem max m (ONext ok)) as [[m' ro] ws] eqn:Es.
    destruct H as [He [Hr [Hw Ha]]]. rewrite Ha, Hw. unfold out_of_next. rewrite He.
    unfold step_mem in Es. destruct ok.
    + destruct m as [|[k b] m0]; inversion Es; subst.
      * destruct Hr as [ts Hr]; subst r. reflexivity.
      * destruct Hr as [ts Hr]; subst r. reflexivity.
    + inversion Es; subst. reflexivity.
Qed.

(* a history step: operations by the translated code, process starts and crash cuts by the model *)
Definition go_step (me max : N) (rst : rstate) (it : uitem) : option (rstate * option out) :=
  match it with
  | UOp o =>
      match go_uop me max (mem (core rst)) (nseq rst) o with
      | Some (m', n', r, ws) => Some ({| core := {| mem := m'; db := apply_ws (db (core rst)) ws |}; nseq := n' |}, Some r)
      | None => None
      end
  | _ => Some (r_step max rst it)
  end.
Fixpoint go_run (me max : N) (rst : rstate) (h : list uitem) : option (rstate * list (option out)) :=
  match h with
  | [] => Some (rst, [])
  | it :: r =>
      match go_step me max rst it with
      | Some (rst', o) => match go_run me max rst' r with
                          | Some (rst'', os) => Some (rst'', o :: os)
                          | None => None
                          end
      | None => None
      end
  end.

Lemma go_step_is_r_step : forall me max rst it, go_step me max rst it = Some (r_step max rst it).
Proof.
  intros me max rst it. destruct it as [o| |o n]; try reflexivity.
  unfold go_step. rewrite go_uop_is_step. unfold r_step, key_item, step.
  destruct (step_mem max (mem (core rst)) (key_op (nseq rst) o)) as [[m' r] ws]. reflexivity.
Qed.

Theorem go_run_is_r_run : forall me max h rst, go_run me max rst h = Some (r_run max rst h).
Proof.
  intros me max h. induction h as [|it r IH]; intros rst; [reflexivity|].
  cbn [go_run r_run]. rewrite go_step_is_r_step.
  destruct (r_step max rst it) as [rst' o]. rewrite IH.
  destruct (r_run max rst' r) as [rst'' os]. reflexivity.
Qed.

(* the exactly-once FIFO, of histories run by the translated code *)
Theorem go_run_fifo : forall me max h,
  exists rst outs, go_run me max r_st0 h = Some (rst, outs) /\
    outs = s_outputs max h /\
    map snd (mem (core rst)) = s_final max h /\
    map snd (db (core rst)) = s_final max h.
Proof.
  intros me max h. rewrite go_run_is_r_run.
  destruct (fifo_full max h) as [H1 [H2 H3]].
  unfold r_outputs, r_final in *.
  destruct (r_run max r_st0 h) as [rst outs]. cbn [fst snd] in *.
  exists rst, outs. repeat split; assumption.
Qed.

(* ---- the same with a bound per process start (Model/Queue.v [v_run]): every operation is executed by the translated
   code under the bound of the process it runs in (the maxQueueSize field of the queue object); process starts and
   crash cuts are the model's ---- *)
Definition go_vstep (me : N) (st : vstate) (it : vitem) : option (vstate * option out) :=
  match it with
  | VOp o =>
      match go_uop me (vmax st) (mem (core (vr st))) (nseq (vr st)) o with
      | Some (m', n', r, ws) =>
          Some ({| vr := {| core := {| mem := m'; db := apply_ws (db (core (vr st))) ws |}; nseq := n' |};
                   vmax := vmax st; vload := vload st |}, Some r)
      | None => None
      end
  | _ => Some (v_step st it)
  end.
Fixpoint go_vrun (me : N) (st : vstate) (h : list vitem) : option (vstate * list (option out)) :=
  match h with
  | [] => Some (st, [])
  | it :: r =>
      match go_vstep me st it with
      | Some (st', o) => match go_vrun me st' r with
                         | Some (st'', os) => Some (st'', o :: os)
                         | None => None
                         end
      | None => None
      end
  end.

Lemma go_vstep_is_v_step : forall me st it, go_vstep me st it = Some (v_step st it).
Proof.
  intros me st it. destruct it as [o|m|o n m]; try reflexivity.
  unfold go_vstep. rewrite go_uop_is_step. unfold v_step, v_plain, r_step, key_item, step.
  destruct (step_mem (vmax st) (mem (core (vr st))) (key_op (nseq (vr st)) o)) as [[m' r] ws]. reflexivity.
Qed.

Theorem go_vrun_is_v_run : forall me h st, go_vrun me st h = Some (v_run st h).
Proof.
  intros me h. induction h as [|it r IH]; intros st; [reflexivity|].
  cbn [go_vrun v_run]. rewrite go_vstep_is_v_step.
  destruct (v_step st it) as [st' o]. rewrite IH.
  destruct (v_run st' r) as [st'' os]. reflexivity.
Qed.

(* the exactly-once FIFO across restarts with changing bounds, of histories run by the translated code *)
Theorem go_vrun_fifo : forall me max0 h,
  exists st outs, go_vrun me (v_st0 max0) h = Some (st, outs) /\
    outs = sv_outputs max0 h /\
    map snd (mem (core (vr st))) = sv_final max0 h /\
    map snd (db (core (vr st))) = sv_final max0 h.
Proof.
  intros me max0 h. rewrite go_vrun_is_v_run.
  destruct (v_fifo_full max0 h) as [H1 [H2 H3]].
  unfold v_outputs, v_final in *.
  destruct (v_run (v_st0 max0) h) as [st outs]. cbn [fst snd] in *.
  exists st, outs. repeat split; assumption.
Qed.
