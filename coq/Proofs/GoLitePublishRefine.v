(* Proofs/GoLitePublishRefine.v — the translated publishBlockInternal refines the production step of the models.

   Check/GoLitePublish.v proves, over the code regenerated from block/manager.go, that for every world the calls made
   by publishBlockInternal are exactly [pub_expect].  This file ties [pub_expect] to the models the property
   theorems are stated over:

     refused_is_limit_check   the refusal test of the code = fst (Throttle.limit_check) (C08), for all limits,
                              watermarks and backlogs;
     pub_refines_step         for EVERY input of Producer.step (configuration, durable image, volatile state,
                              answer of the sequencing layer, answer of the executor) the code, run in the world that
                              input describes ([world_of]: every store call succeeds, Validate answers what
                              Types.validate computes), performs the store writes of Producer.step — the same kinds,
                              the same heights, the same cursor, in the same order — returns nil exactly when the
                              model's outcome is "committed" or "skipped", and leaves the in-memory cursor where
                              the model leaves it;
     translated_publish_refines_step   the composition: the statement about the translated Go code itself.

   So the write order that the crash theorems of C04 quantify over (cursor; early block; final block; state; height)
   is the write order of the code as it is now, for all inputs — not only on the histories the harness replays. *)
From Coq Require Import String List NArith ZArith Bool Lia.
From Verif Require Import Base.KV Base.Keys Model.Types Model.GoLite Check.GoLitePublish.
From Verif Require Model.Producer Model.Throttle.
Import ListNotations.
Open Scope list_scope.

(* ---- C08: the refusal test ------------------------------------------------------------------------------- *)
Definition refused4 (lim ph pd wd : N) : bool :=
  negb (lim =? 0)%N && ((lim <=? ph)%N || ((lim <=? pd)%N && (lim <=? wd)%N)).

Lemma refused_unfold : forall w, refused w = refused4 (w_lim w) (w_ph w) (w_pd w) (w_wd w).
Proof. reflexivity. Qed.

Lemma refused_is_limit_check : forall (c : Throttle.cfg) (s : Throttle.state),
  fst (Throttle.limit_check c s) =
  refused4 (Throttle.c_limit c)
           (Throttle.sub64 (Throttle.t_height s) (Throttle.t_wh s))     (* numPendingHeaders *)
           (Throttle.sub64 (Throttle.t_height s) (Throttle.t_wd s))     (* numPendingData *)
           (fst (Throttle.num_waiting s)).                              (* numWaitingData *)
Proof.
  intros c s. unfold Throttle.limit_check, refused4.
  destruct (Throttle.c_limit c =? 0)%N; [reflexivity|].
  destruct (Throttle.c_limit c <=? Throttle.sub64 (Throttle.t_height s) (Throttle.t_wh s))%N; [reflexivity|].
  destruct (Throttle.c_limit c <=? Throttle.sub64 (Throttle.t_height s) (Throttle.t_wd s))%N; [|reflexivity].
  destruct (Throttle.num_waiting s) as [n [w p]]. reflexivity.
Qed.

(* ---- C01 / C04 / C11: the production step ------------------------------------------------------------------ *)
Import Producer.

(* the store writes, by kind *)
Inductive wkind := WCursor (c : N) | WBlockEarly (h : N) | WBlockFinal (h : N) | WState | WHeight (h : N).

(* ... of the code *)
Definition kind_of_call (c : cname * list cval) : list wkind :=
  match c with
  | (CSetMetadata, [_; KKey _; KCursor cur]) => [WCursor cur]
  | (CSaveBlockData, [_; KHeader _ h _ signed; _; _]) => [if signed then WBlockFinal h else WBlockEarly h]
  | (CUpdateState, _) => [WState]
  | (CSetHeight, [_; KN h]) => [WHeight h]
  | _ => []
  end.
Definition code_writes (o : observed) : list wkind := flat_map kind_of_call (o_calls o).

(* ... of the model: DefaultStore.SetHeight is CALLED on every commit (whether it writes is the store's decision,
   Producer.set_height) *)
Definition kind_of_wr (w : wr) : list wkind :=
  match w with
  | W1 (Put _ (VCursor c)) => [WCursor c]
  | WBatch [Put _ (VBlock b)] => [match b_sig b with SigEmpty => WBlockEarly (h_height (hdr_of b)) | _ => WBlockFinal (h_height (hdr_of b)) end]
  | _ => []
  end.
Definition model_writes (r : ares) : list wkind :=
  flat_map kind_of_wr (a_pre r) ++ match a_out r with OCommitted n => [WState; WHeight n] | _ => [] end.

Definition nil_result (o : observed) : bool := match o_result o with [VNil] => true | _ => false end.
Definition ok_outcome (x : outcome) : bool := match x with OCommitted _ | OSkipped => true | _ => false end.

Definition is_some {A} (x : option A) : bool := match x with Some _ => true | None => false end.
Definition nonempty {A} (l : list A) : bool := match l with [] => false | _ => true end.

(* the world an input of Producer.step describes *)
Definition world_of (c : cfg) (m : img) (v : vol) (s : seqresp) (e : execresp) : pworld :=
  let H := g_height m in
  let n := (H + 1)%N in
  let gen := (n <=? c_initial c)%N in
  let last := g_block m H in
  let pend := g_block m n in
  let blk : option blk :=
    match pend with
    | Some pb => Some pb
    | None =>
        match last_info c m H, s with
        | Some (lsig, lhdr, _), SBatch txs ts cur => Some (early_block c v n lsig lhdr txs ts)
        | _, _ => None
        end
    end in
  {| w_cancel := false; w_lim := 0; w_ph := 0; w_pd := 0; w_wd := 0; w_lazy := false;
     w_H := H; w_init := c_initial c; w_hok := true; w_gen := gen;
     w_sigok := is_some last; w_lastok := is_some last;
     w_lt := match last with Some b => h_time (hdr_of b) | None => 0%Z end;
     w_pend := is_some pend;
     w_pendh := match pend with Some pb => h_height (hdr_of pb) | None => 0 end;
     w_pendt := match pend with Some pb => h_time (hdr_of pb) | None => 0%Z end;
     w_seq := match s with
              | SErr => SqErr
              | SNil => SqNoResp
              | SBatch txs ts cur => SqBatch (nonempty txs) 1 ts cur
              end;
     w_putok := true; w_cur0 := v_cursor v;
     w_createok := addr_eqb (c_gaddr c) (Addr (c_key c));
     w_newh := n; w_newt := match s with SBatch _ ts _ => ts | _ => 0%Z end;
     w_earlyok := true;
     w_applyok := match e with EOk _ => true | EErr => false end;
     w_signok := true;
     w_validok := match blk with
                  | Some b => validate (v_state v) (b_sh (final_block c b)) (b_data (final_block c b))
                  | None => true
                  end;
     w_finalok := true; w_stateok := true; w_heightok := true; w_bhok := true; w_bdok := true;
     w_da := 0; w_now := 0 |}.

Lemma world_of_wf : forall c m v s e, wf (world_of c m v s e).
Proof. reflexivity. Qed.

Definition cursor_of (r : ares) (v : vol) : N := match a_vol r with Some v' => v_cursor v' | None => v_cursor v end.

Lemma sig_final_not_empty : forall c b, b_sig (final_block c b) = Sig (c_key c) (hdr_of b).
Proof. reflexivity. Qed.

Lemma hdr_final : forall c b, hdr_of (final_block c b) = hdr_of b.
Proof. reflexivity. Qed.

Lemma early_block_vol : forall c v cur n ls lh txs ts,
  early_block c {| v_state := v_state v; v_cursor := cur |} n ls lh txs ts = early_block c v n ls lh txs ts.
Proof. reflexivity. Qed.

Theorem pub_refines_step : forall c m v s e,
  let w := world_of c m v s e in
  let r := step c m v s e in
  code_writes (pub_expect w) = model_writes r /\
  nil_result (pub_expect w) = ok_outcome (a_out r) /\
  o_cursor (pub_expect w) = Some (KCursor (cursor_of r v)).
Proof.
  intros c m v s e.
  cbv zeta.
  unfold pub_expect, step, world_of, refused, gen, last_info; cbn [w_cancel w_lim w_ph w_pd w_wd w_lazy w_H w_init w_hok w_gen w_sigok
    w_lastok w_lt w_pend w_pendh w_pendt w_seq w_putok w_cur0 w_createok w_newh w_newt w_earlyok w_applyok w_signok
    w_validok w_finalok w_stateok w_heightok w_bhok w_bdok w_da w_now negb andb orb N.eqb].
  destruct (g_height m + 1 <=? c_initial c)%N eqn:Hgen.
  - (* the first block of the chain: no predecessor is read *)
    destruct (g_block m (g_height m + 1)) as [pb|] eqn:Hp; cbn [is_some].
    + unfold GoLitePublish.finish, Producer.finish; cbn [w_applyok w_signok w_validok w_finalok w_stateok w_heightok w_bhok w_bdok w_da w_lazy w_now negb andb].
      destruct e as [r0|]; cbn [negb]; [|repeat split; reflexivity].
      destruct (validate (v_state v) (b_sh (final_block c pb)) (b_data (final_block c pb))); cbn [negb];
        repeat split; reflexivity.
    + destruct s as [| |txs ts cur]; cbn [nonempty]; try (repeat split; reflexivity).
      destruct txs as [|t0 txs']; cbn [nonempty andb];
      (destruct (addr_eqb (c_gaddr c) (Addr (c_key c))); cbn [negb]; [|repeat split; reflexivity]);
      unfold GoLitePublish.finish, Producer.finish; cbn [w_applyok w_signok w_validok w_finalok w_stateok w_heightok w_bhok w_bdok w_da w_lazy w_now negb andb];
      (destruct e as [r0|]; cbn [negb]; [|repeat split; reflexivity]);
      rewrite ?early_block_vol; cbn [v_state v_cursor];
      match goal with |- context [validate ?a ?b ?d] => destruct (validate a b d) end; cbn [negb];
        repeat split; reflexivity.
  - destruct (g_block m (g_height m)) as [lb|] eqn:Hl; cbn [is_some negb]; [|repeat split; reflexivity].
    destruct (g_block m (g_height m + 1)) as [pb|] eqn:Hp; cbn [is_some].
    + unfold GoLitePublish.finish, Producer.finish; cbn [w_applyok w_signok w_validok w_finalok w_stateok w_heightok w_bhok w_bdok w_da w_lazy w_now negb andb].
      destruct e as [r0|]; cbn [negb]; [|repeat split; reflexivity].
      destruct (validate (v_state v) (b_sh (final_block c pb)) (b_data (final_block c pb))); cbn [negb];
        repeat split; reflexivity.
    + destruct s as [| |txs ts cur]; cbn [nonempty]; try (repeat split; reflexivity).
      destruct (ts <? h_time (hdr_of lb))%Z eqn:Hb;
      destruct txs as [|t0 txs']; cbn [nonempty andb]; try (repeat split; reflexivity);
      (destruct (addr_eqb (c_gaddr c) (Addr (c_key c))); cbn [negb]; [|repeat split; reflexivity]);
      unfold GoLitePublish.finish, Producer.finish; cbn [w_applyok w_signok w_validok w_finalok w_stateok w_heightok w_bhok w_bdok w_da w_lazy w_now negb andb];
      (destruct e as [r0|]; cbn [negb]; [|repeat split; reflexivity]);
      rewrite ?early_block_vol; cbn [v_state v_cursor];
      match goal with |- context [validate ?a ?b ?d] => destruct (validate a b d) end; cbn [negb];
        repeat split; reflexivity.
Qed.

(* the composition: what the TRANSLATED code does in the world of a model input *)
Theorem translated_publish_refines_step : forall c m v s e,
  exists o, run_publish (world_of c m v s e) = Some o /\
            code_writes o = model_writes (step c m v s e) /\
            nil_result o = ok_outcome (a_out (step c m v s e)) /\
            o_cursor o = Some (KCursor (cursor_of (step c m v s e) v)).
Proof.
  intros. exists (pub_expect (world_of c m v s e)). split.
  - apply go_publishBlockInternal, world_of_wf.
  - apply pub_refines_step.
Qed.

(* the pending limit: the translated code refuses exactly when Throttle.limit_check refuses, and then calls nothing *)
Theorem translated_publish_refused : forall w, wf w -> w_cancel w = false -> refused w = true ->
  exists o, run_publish w = Some o /\ o_calls o = [] /\ nil_result o = true.
Proof.
  intros w Hwf Hc Hr. exists (pub_expect w). split; [apply go_publishBlockInternal, Hwf|].
  unfold pub_expect. rewrite Hc, Hr. split; reflexivity.
Qed.

(* non-vacuity: a world in which a block is committed, with the five writes in order *)
Example committed_somewhere :
  exists w, wf w /\ code_writes (pub_expect w) = [WCursor 7; WBlockEarly 5; WBlockFinal 5; WState; WHeight 5].
Proof.
  exists {| w_cancel := false; w_lim := 3; w_ph := 1; w_pd := 1; w_wd := 0; w_lazy := false; w_H := 4; w_init := 1; w_hok := true;
            w_gen := false; w_sigok := true; w_lastok := true; w_lt := 100; w_pend := false; w_pendh := 0; w_pendt := 0;
            w_seq := SqBatch true 1 120 7; w_putok := true; w_cur0 := 6; w_createok := true; w_newh := 5; w_newt := 120;
            w_earlyok := true; w_applyok := true; w_signok := true; w_validok := true; w_finalok := true; w_stateok := true;
            w_heightok := true; w_bhok := true; w_bdok := true; w_da := 9; w_now := 1 |}.
  split; reflexivity.
Qed.

Print Assumptions translated_publish_refines_step.
Print Assumptions translated_publish_refused.
Print Assumptions refused_is_limit_check.
