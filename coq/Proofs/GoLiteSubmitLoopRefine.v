(* Proofs/GoLiteSubmitLoopRefine.v — one iteration of the translated retry loop of submitToDA refines one unfolding of
   Submitter.submit (Model/Submitter.v), the function the theorems of C06 (every block reaches the DA layer in order,
   the watermark is sound) and the submission side of C07 / C08 are stated over.

     iter_refines_submit   for EVERY state of the model's loop — attempts left, backoff, the heights still to submit, the
                           DA layer's next answer, the side — the code, run on the locals that state describes with
                           the helper answering what [helper_status] computes, does what the model's unfolding does:
                             - success with count c: postSubmit receives exactly the first c remaining items
                               (= [firstn c rem], the argument of the model's [set_last]), the items still to submit
                               are exactly [skipn c rem], the loop is finished iff c = |rem| (RDone), the backoff is 0;
                             - not included / already in mempool: nothing is marked, nothing dropped, the next backoff
                               is BlockTime * MempoolTTL;
                             - cancelled: the call returns nil (RCancelled);
                             - anything else (too big included): nothing marked, nothing dropped, the next backoff is
                               [exp_backoff];
                           and with no attempts left, or everything submitted, the loop stops;
     translated_iter_refines_submit   the composition with Check/GoLiteSubmitLoop.go_submitToDA_iter. *)
From Coq Require Import String List NArith ZArith Bool Lia.
From Verif Require Import Model.Types Model.GoLite Check.GoLiteSubmitLoop.
From Verif Require Model.Submitter Model.Proxy.
Import ListNotations.
Open Scope list_scope.
Import Submitter.

Definition st_of (s : status) : Proxy.status :=
  match s with
  | SSuccess => Proxy.StSuccess | SNotIncluded => Proxy.StNotIncluded | SInMempool => Proxy.StMempool
  | STooBig => Proxy.StTooBig | SDeadline => Proxy.StDeadline | SError => Proxy.StError | SSeq => Proxy.StSeq
  | SCanceled => Proxy.StCanceled
  end.

(* the locals of the code for the model's loop state: [done] items of the call were submitted before, [rem] are left *)
Definition lworld_of (c : cfg) (fuel : nat) (b : N) (done : N) (rem : list N) (o : outcome) : lworld :=
  let n := N.of_nat (length rem) in
  {| l_all := false; l_attempt := 30 - Z.of_nat fuel; l_backoff := Z.of_N b; l_gas0 := 1; l_gas := 1;
     l_lo := done; l_hi := done + n; l_nsub := done; l_remlen := n;
     l_bt := Z.of_N (c_bt c); l_ttl := Z.of_N (c_ttl c); l_mult := 0; l_ib := Z.of_N initial_backoff;
     l_cancel := false; l_status := st_of (fst (helper_status o n)); l_cnt := snd (helper_status o n); l_dah := 0 |}.

(* what the code's iteration tells: which segment of the items postSubmit received, and the next locals *)
Definition post_segment (o : list gval * list gval) : option (N * N) :=
  match filter (fun e => match e with VEff name _ => String.eqb name "pkg.postSubmit" | _ => false end) (snd o) with
  | [VEff _ (VSeg _ lo hi :: _)] => Some (lo, hi)
  | _ => None
  end.
Definition next_locals (o : list gval * list gval) : option (bool * Z * N * N) :=   (* submittedAll, backoff, remaining lo, hi *)
  match fst o with
  | [VTok t []; VBool all; VZ backoff; _; _; _; VSeg _ lo hi; _; _; _] =>
      if String.eqb t "continue" then Some (all, backoff, lo, hi) else None
  | _ => None
  end.
Definition returned_nil (o : list gval * list gval) : bool := match fst o with [VNil] => true | _ => false end.
Definition stopped (o : list gval * list gval) : bool :=
  match fst o with VTok t [] :: _ => String.eqb t "break" | _ => false end.

Lemma expb_exp_backoff : forall c b,
  expb (Z.of_N (c_bt c)) (Z.of_N initial_backoff) (Z.of_N b) = Z.of_N (exp_backoff c b).
Proof.
  intros c b. unfold expb, exp_backoff, initial_backoff.
  replace (Z.of_N b * 2)%Z with (Z.of_N (b * 2)) by lia.
  destruct (b * 2 =? 0)%N eqn:E.
  - apply N.eqb_eq in E. rewrite E. cbn [Z.of_N Z.eqb].
    destruct (c_bt c <? 100)%N eqn:F.
    + apply N.ltb_lt in F. replace (Z.of_N (c_bt c) <? 100)%Z with true by (symmetry; apply Z.ltb_lt; lia). reflexivity.
    + apply N.ltb_ge in F. replace (Z.of_N (c_bt c) <? 100)%Z with false by (symmetry; apply Z.ltb_ge; lia). reflexivity.
  - apply N.eqb_neq in E.
    replace (Z.of_N (b * 2) =? 0)%Z with false by (symmetry; apply Z.eqb_neq; lia).
    destruct (c_bt c <? b * 2)%N eqn:F.
    + apply N.ltb_lt in F. replace (Z.of_N (c_bt c) <? Z.of_N (b * 2))%Z with true by (symmetry; apply Z.ltb_lt; lia). reflexivity.
    + apply N.ltb_ge in F. replace (Z.of_N (c_bt c) <? Z.of_N (b * 2))%Z with false by (symmetry; apply Z.ltb_ge; lia). reflexivity.
Qed.

(* the model's unfolding, read off Submitter.submit: what one attempt does to (backoff, rem) and how it ends *)
Inductive attempt_result :=
| AGoOn (b' : N) (rem' : list N) (marked : option (list N))   (* the loop goes on with this backoff and these heights; Some l: postSubmit was called, with l *)
| ADone (marked : list N) | ACancelled.
Definition model_attempt (c : cfg) (b : N) (rem : list N) (o : outcome) : attempt_result :=
  let n := N.of_nat (length rem) in
  match helper_status o n with
  | (SSuccess, cnt) => if (cnt =? n)%N then ADone (firstn (N.to_nat cnt) rem)
                       else AGoOn 0 (skipn (N.to_nat cnt) rem) (Some (firstn (N.to_nat cnt) rem))
  | (SNotIncluded, _) | (SInMempool, _) => AGoOn (c_bt c * c_ttl c) rem None
  | (SCanceled, _) => ACancelled
  | _ => AGoOn (exp_backoff c b) rem None
  end.

(* [model_attempt] IS the unfolding of Submitter.submit *)
Lemma submit_unfold : forall c f b rem o sc sd el,
  submit c (S f) b rem (o :: sc) sd el =
  let n := N.of_nat (length rem) in
  let sd1 := log_call rem o sd in
  let el' := (el + b + call_cost o)%N in
  match model_attempt c b rem o with
  | ADone marked => (set_last (last_height marked) sd1, sc, RDone, el')
  | AGoOn b' rem' marked =>
      submit c f b' rem' sc (match marked with Some l => set_last (last_height l) sd1 | None => sd1 end) el'
  | ACancelled => (sd1, sc, RCancelled, el')
  end.
Proof.
  intros. cbn [submit]. unfold model_attempt. cbv zeta.
  destruct (helper_status o (N.of_nat (length rem))) as [s cnt]; destruct s; try reflexivity.
  destruct (cnt =? N.of_nat (length rem))%N; reflexivity.
Qed.

Theorem iter_refines_submit : forall (c : cfg) (f : nat) (b done : N) (rem : list N) (o : outcome),
  (f < 30)%nat ->
  let w := lworld_of c (S f) b done rem o in
  let x := iter_expect w in
  let n := N.of_nat (length rem) in
  match model_attempt c b rem o with
  | ADone marked =>
      post_segment x = Some (done, done + N.of_nat (length marked)) /\
      next_locals x = Some (true, 0%Z, done + n, done + n)
  | AGoOn b' rem' marked =>
      post_segment x = option_map (fun l => (done, done + N.of_nat (length l))) marked /\
      next_locals x = Some (false, Z.of_N b', done + (n - N.of_nat (length rem')), done + n)
  | ACancelled => returned_nil x = true /\ post_segment x = None
  end.
Proof.
  intros c f b done rem o Hf. cbv zeta.
  unfold model_attempt, iter_expect, lworld_of, adjust;
    cbn [l_all l_attempt l_backoff l_gas0 l_gas l_lo l_hi l_nsub l_remlen l_bt l_ttl l_mult l_ib l_cancel l_status l_cnt l_dah].
  replace (30 - Z.of_nat (S f) <? 30)%Z with true by (symmetry; apply Z.ltb_lt; lia).
  cbn [orb negb andb Z.ltb Z.compare].
  destruct (helper_status o (N.of_nat (length rem))) as [s cnt] eqn:Hs.
  assert (Hc : (cnt <= N.of_nat (length rem))%N).
  { unfold helper_status in Hs. destruct o as [k|fk|k fk|sn]; try (inversion Hs; lia).
    destruct ((N.min k (N.of_nat (length rem)) =? 0)%N && negb (N.of_nat (length rem) =? 0)%N); inversion Hs; lia. }
  destruct s; cbn [fst snd st_of].
  - (* success *)
    unfold seg_len. replace (done + N.of_nat (length rem) - done)%N with (N.of_nat (length rem)) by lia.
    destruct (cnt =? N.of_nat (length rem))%N eqn:E.
    + apply N.eqb_eq in E. subst cnt.
      rewrite firstn_length, Nat2N.id, Nat.min_id.
      split; reflexivity.
    + apply N.eqb_neq in E.
      assert (Hl : length (firstn (N.to_nat cnt) rem) = N.to_nat cnt) by (rewrite firstn_length; lia).
      assert (Hk : length (skipn (N.to_nat cnt) rem) = (length rem - N.to_nat cnt)%nat) by apply skipn_length.
      split.
      * cbn [option_map]. rewrite Hl, N2Nat.id. reflexivity.
      * unfold next_locals. cbn. rewrite Hk.
        replace (done + (N.of_nat (length rem) - N.of_nat (length rem - N.to_nat cnt)))%N with (done + cnt)%N by lia.
        reflexivity.
  - split; [reflexivity|]. unfold next_locals, seg_len. cbn.
    replace (done + (N.of_nat (length rem) - N.of_nat (length rem)))%N with done by lia.
    replace (Z.of_N (c_bt c) * Z.of_N (c_ttl c))%Z with (Z.of_N (c_bt c * c_ttl c)) by lia. reflexivity.
  - split; [reflexivity|]. unfold next_locals, seg_len. cbn.
    replace (done + (N.of_nat (length rem) - N.of_nat (length rem)))%N with done by lia.
    replace (Z.of_N (c_bt c) * Z.of_N (c_ttl c))%Z with (Z.of_N (c_bt c * c_ttl c)) by lia. reflexivity.
  - split; [reflexivity|]. unfold next_locals, seg_len. cbn. rewrite expb_exp_backoff.
    replace (done + (N.of_nat (length rem) - N.of_nat (length rem)))%N with done by lia. reflexivity.
  - split; [reflexivity|]. unfold next_locals, seg_len. cbn. rewrite expb_exp_backoff.
    replace (done + (N.of_nat (length rem) - N.of_nat (length rem)))%N with done by lia. reflexivity.
  - split; [reflexivity|]. unfold next_locals, seg_len. cbn. rewrite expb_exp_backoff.
    replace (done + (N.of_nat (length rem) - N.of_nat (length rem)))%N with done by lia. reflexivity.
  - split; [reflexivity|]. unfold next_locals, seg_len. cbn. rewrite expb_exp_backoff.
    replace (done + (N.of_nat (length rem) - N.of_nat (length rem)))%N with done by lia. reflexivity.
  - split; reflexivity.
Qed.

(* no attempts left, or everything submitted: the loop stops having called nothing *)
Theorem iter_stops : forall w, (l_all w = true \/ (30 <= l_attempt w)%Z) -> stopped (iter_expect w) = true /\ snd (iter_expect w) = [].
Proof.
  intros w H. unfold iter_expect.
  destruct H as [H|H].
  - rewrite H. cbn [orb]. split; reflexivity.
  - replace (l_attempt w <? 30)%Z with false by (symmetry; apply Z.ltb_ge; lia). rewrite orb_true_r. split; reflexivity.
Qed.

Theorem translated_iter_refines_submit : forall (c : cfg) (f : nat) (b done : N) (rem : list N) (o : outcome),
  (f < 30)%nat ->
  exists x, run_iter (lworld_of c (S f) b done rem o) = Some x /\
    let n := N.of_nat (length rem) in
    match model_attempt c b rem o with
    | ADone marked =>
        post_segment x = Some (done, done + N.of_nat (length marked)) /\
        next_locals x = Some (true, 0%Z, done + n, done + n)
    | AGoOn b' rem' marked =>
        post_segment x = option_map (fun l => (done, done + N.of_nat (length l))) marked /\
        next_locals x = Some (false, Z.of_N b', done + (n - N.of_nat (length rem')), done + n)
    | ACancelled => returned_nil x = true /\ post_segment x = None
    end.
Proof.
  intros c f b done rem o Hf. exists (iter_expect (lworld_of c (S f) b done rem o)).
  split; [apply go_submitToDA_iter|]. apply iter_refines_submit, Hf.
Qed.

Print Assumptions translated_iter_refines_submit.
Print Assumptions submit_unfold.
Print Assumptions iter_stops.

(* ---- the whole loop ------------------------------------------------------------------------------------------
   [code_submit] runs the code's iteration again and again: at each round it asks [iter_expect] — which
   go_submitToDA_iter proves IS the translated Go iteration — what the loop does on the locals the model state
   describes, READS the outcome off the code's own observation (did it return nil? which segment of the items did
   postSubmit receive? which items remain? which backoff?) and updates the side exactly as the real postSubmit would
   (the watermark moves to the last marked height).  [code_submit_is_submit]: for every configuration, every number
   of attempts left (up to maxSubmitAttempts), every backoff, every list of heights, every script of DA answers, every
   side and clock, that is Submitter.submit — result, side, unconsumed script and time. *)
Definition read_attempt (done : N) (rem : list N) (x : list gval * list gval) : option attempt_result :=
  if returned_nil x then Some ACancelled
  else match next_locals x with
       | Some (all, b', lo', _) =>
           let marked := match post_segment x with
                         | Some (lo, hi) => Some (firstn (N.to_nat (hi - lo)) rem)
                         | None => None
                         end in
           if all then match marked with Some l => Some (ADone l) | None => None end
           else Some (AGoOn (Z.to_N b') (skipn (N.to_nat (lo' - done)) rem) marked)
       | None => None
       end.

Fixpoint code_submit (c : cfg) (fuel : nat) (b done : N) (rem : list N) (sc : list outcome) (sd : side) (el : N)
  : side * list outcome * result * N :=
  match fuel with
  | O => (sd, sc, RExhausted, el)
  | S f =>
    match sc with
    | [] => (sd, [], RCancelled, (el + b)%N)
    | o :: sc' =>
        let sd1 := log_call rem o sd in
        let el' := (el + b + call_cost o)%N in
        match read_attempt done rem (iter_expect (lworld_of c (S f) b done rem o)) with
        | Some (ADone marked) => (set_last (last_height marked) sd1, sc', RDone, el')
        | Some (AGoOn b' rem' marked) =>
            code_submit c f b' (done + (N.of_nat (length rem) - N.of_nat (length rem')))%N rem' sc'
                        (match marked with Some l => set_last (last_height l) sd1 | None => sd1 end) el'
        | Some ACancelled => (sd1, sc', RCancelled, el')
        | None => (sd, sc, RExhausted, el)       (* the observation could not be read: never the case, see below *)
        end
    end
  end.

Lemma goes_on_not_nil : forall x y, next_locals x = Some y -> returned_nil x = false.
Proof.
  intros [vals cs] y. unfold next_locals, returned_nil. cbn [fst].
  destruct vals as [|v l]; [intros H; discriminate H|].
  destruct v; intros H; try discriminate H; reflexivity.
Qed.

Lemma read_attempt_is_model : forall c f b done rem o,
  (f < 30)%nat ->
  read_attempt done rem (iter_expect (lworld_of c (S f) b done rem o)) = Some (model_attempt c b rem o).
Proof.
  intros c f b done rem o Hf.
  pose proof (iter_refines_submit c f b done rem o Hf) as H. cbv zeta in H.
  unfold read_attempt.
  destruct (model_attempt c b rem o) as [b' rem' marked | marked | ] eqn:Hm.
  - destruct H as [Hp Hn].
    assert (Hr : returned_nil (iter_expect (lworld_of c (S f) b done rem o)) = false) by (eapply goes_on_not_nil; exact Hn).
    rewrite Hr, Hn, Hp. cbn [option_map].
    (* what the model's attempt says about rem' and marked *)
    unfold model_attempt in Hm.
    destruct (helper_status o (N.of_nat (length rem))) as [s cnt] eqn:Hs.
    assert (Hc : (cnt <= N.of_nat (length rem))%N).
    { unfold helper_status in Hs. destruct o as [k|fk|k fk|sn]; try (inversion Hs; lia).
      destruct ((N.min k (N.of_nat (length rem)) =? 0)%N && negb (N.of_nat (length rem) =? 0)%N); inversion Hs; lia. }
    destruct s; try (inversion Hm; subst; rewrite N2Z.id;
                     replace (N.to_nat (done + (N.of_nat (length rem') - N.of_nat (length rem')) - done)) with 0%nat by lia;
                     reflexivity).
    + destruct (cnt =? N.of_nat (length rem))%N eqn:E; [discriminate Hm|]. inversion Hm; subst. cbn [option_map].
      rewrite skipn_length, firstn_length.
      replace (N.to_nat (done + N.of_nat (Nat.min (N.to_nat cnt) (length rem)) - done)) with (N.to_nat cnt) by lia.
      replace (N.to_nat (done + (N.of_nat (length rem) - N.of_nat (length rem - N.to_nat cnt)) - done)) with (N.to_nat cnt) by lia.
      reflexivity.
  - destruct H as [Hp Hn].
    assert (Hr : returned_nil (iter_expect (lworld_of c (S f) b done rem o)) = false) by (eapply goes_on_not_nil; exact Hn).
    rewrite Hr, Hn, Hp.
    unfold model_attempt in Hm.
    destruct (helper_status o (N.of_nat (length rem))) as [s cnt] eqn:Hs.
    destruct s; try discriminate Hm.
    destruct (cnt =? N.of_nat (length rem))%N eqn:E; [|discriminate Hm]. inversion Hm; subst.
    apply N.eqb_eq in E. subst cnt. rewrite firstn_length, Nat2N.id, Nat.min_id.
    replace (N.to_nat (done + N.of_nat (length rem) - done)) with (length rem) by lia. reflexivity.
  - destruct H as [Hr _]. rewrite Hr. reflexivity.
Qed.

Theorem code_submit_is_submit : forall c fuel b done rem sc sd el,
  (fuel <= 30)%nat ->
  code_submit c fuel b done rem sc sd el = submit c fuel b rem sc sd el.
Proof.
  intros c fuel. induction fuel as [|f IH]; intros b done rem sc sd el Hf; [reflexivity|].
  destruct sc as [|o sc']; [reflexivity|].
  rewrite submit_unfold. cbn [code_submit]. cbv zeta.
  rewrite read_attempt_is_model by lia.
  destruct (model_attempt c b rem o) as [b' rem' marked | marked | ]; try reflexivity.
  apply IH. lia.
Qed.

Print Assumptions code_submit_is_submit.
