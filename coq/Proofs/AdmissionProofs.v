(* Proofs/AdmissionProofs.v — lemmas about Model/Admission.v (property C03). *)
From Coq Require Import NArith ZArith List Bool Lia.
From Verif Require Import Model.Types Model.Admission.
From Verif Require Model.Retriever.
Import ListNotations.

(* ---- boolean equalities reflect equality where needed ----------------------------------------- *)
Lemma addr_eqb_eq : forall a b, addr_eqb a b = true -> a = b.
Proof.
  intros [x|x|] [y|y|] H; cbn in H; try discriminate; try reflexivity;
    apply N.eqb_eq in H; subst; reflexivity.
Qed.
Lemma addr_eqb_refl : forall a, addr_eqb a a = true.
Proof. intros [x|x|]; cbn; try reflexivity; apply N.eqb_refl. Qed.

Section WithProposer.
Variable pk : key.
Variable g : genesis.
Hypothesis Hg : g_proposer g = Addr pk.

(* the heart of the _full theorems (true since the fix that binds signer.address to signer.pubkey):
   passing ValidateBasic under the proposer's address means carrying the proposer's signature *)
Lemma expected_signed : forall sh, is_expected_sequencer g sh = true -> signed_by pk sh = true.
Proof.
  intros sh He. unfold is_expected_sequencer in He. rewrite Hg in He.
  apply andb_true_iff in He as [Hp Hv].
  unfold validate_basic in Hv.
  repeat (apply andb_true_iff in Hv as [Hv ?]).
  destruct (sg_pub (sh_signer sh)) as [p|] eqn:Epub; try discriminate.
  destruct p as [kp]. cbn [key_address] in *.
  match goal with H : _ && _ = true |- _ => apply andb_true_iff in H as [Hc Hver] end.
  apply addr_eqb_eq in Hc. apply addr_eqb_eq in Hp.
  match goal with H : addr_eqb (h_proposer _) (sg_addr _) = true |- _ => apply addr_eqb_eq in H; rename H into Hps end.
  assert (kp = pk) by congruence. subst kp.
  unfold signed_by. unfold verify_header in Hver.
  destruct (sh_sig sh) as [k pl| | |]; try discriminate.
  exact Hver.
Qed.

Lemma da_header_full : forall sh, admit_da_header g sh = true -> signed_by pk sh = true.
Proof.
  intros sh Ha. unfold admit_da_header, da_admit in Ha.
  destruct (validate_basic sh) eqn:Ev; cbn in Ha; try discriminate.
  destruct (is_expected_sequencer g sh) eqn:Ee; cbn in Ha; try discriminate.
  apply expected_signed; assumption.
Qed.

Lemma valid_data_signed : forall sd, is_valid_signed_data g sd = true -> data_signed_by pk sd = true.
Proof.
  intros sd Hv. unfold is_valid_signed_data in Hv. rewrite Hg in Hv.
  apply andb_true_iff in Hv as [Ha Hv].
  destruct (sg_pub (sd_signer sd)) as [[kp]|]; try discriminate.
  cbn [key_address] in Hv. apply andb_true_iff in Hv as [Hc Hv].
  apply addr_eqb_eq in Hc. apply addr_eqb_eq in Ha.
  assert (kp = pk) by congruence. subst kp.
  unfold data_signed_by. unfold verify_data in Hv.
  destruct (sd_sig sd); try discriminate. exact Hv.
Qed.

Lemma da_data_full : forall sd, admit_da_data g sd = true -> data_signed_by pk sd = true.
Proof.
  intros sd Ha. unfold admit_da_data, da_admit in Ha.
  destruct (d_txs (sd_data sd)); cbn in Ha; try discriminate.
  destruct (d_meta (sd_data sd)); cbn in Ha; try discriminate.
  destruct (is_valid_signed_data g sd) eqn:Ev; cbn in Ha; try discriminate.
  apply valid_data_signed; assumption.
Qed.

(* the retrieve goroutine never panics on a blob *)
Lemma da_admit_no_panic : forall hs dsn b, o_panic (da_admit g hs dsn b) = false.
Proof.
  intros hs dsn b. destruct b as [| | |sh|sd]; cbn [da_admit da_nothing o_panic]; try reflexivity.
  - destruct (validate_basic sh); cbn [negb da_nothing o_panic]; [|reflexivity].
    destruct (is_expected_sequencer g sh); reflexivity.
  - destruct (d_txs (sd_data sd)); [reflexivity|].
    destruct (d_meta (sd_data sd)); [|reflexivity].
    destruct (is_valid_signed_data g sd); reflexivity.
Qed.

(* ---- P2P: the only thing the header store enforces is the proposer ADDRESS ---------------------- *)
Lemma p2p_header_partial : forall now t st u,
  names_proposer pk (h_proposer (sh_hdr t)) = true ->
  names_proposer pk (h_proposer (sh_hdr u)) = false ->
  hstore_accepts now (t :: st) u = false.
Proof.
  intros now t st u Ht Hu. unfold hstore_accepts, p2p_verify.
  unfold names_proposer in *. apply addr_eqb_eq in Ht.
  destruct (p2p_validate u); [|reflexivity]. cbn [andb].
  destruct (negb (h_chain (sh_hdr u) =? h_chain (sh_hdr t))%N); [reflexivity|].
  destruct (h_height (sh_hdr u) <=? h_height (sh_hdr t))%N; [reflexivity|].
  destruct (h_time (sh_hdr u) <? h_time (sh_hdr t))%Z; [reflexivity|].
  destruct (now + clock_drift <? h_time (sh_hdr u))%Z; [reflexivity|].
  rewrite Ht, Hu. cbn [negb].
  destruct (h_height (sh_hdr u) =? h_height (sh_hdr t) + 1)%N; reflexivity.
Qed.

Lemma light_step_names : forall now st u,
  Forall (fun t => names_proposer pk (h_proposer (sh_hdr t)) = true) st ->
  Forall (fun t => names_proposer pk (h_proposer (sh_hdr t)) = true) (light_step now st u).
Proof.
  intros now st u Hst. unfold light_step.
  destruct (hstore_accepts now st u) eqn:Ea; [|assumption].
  constructor; [|assumption].
  destruct st as [|t st']; [discriminate|].
  destruct (names_proposer pk (h_proposer (sh_hdr u))) eqn:En; [reflexivity|].
  inversion Hst; subst. rewrite (p2p_header_partial now t st' u) in Ea by assumption. discriminate.
Qed.

Lemma light_run_names : forall now l st,
  Forall (fun t => names_proposer pk (h_proposer (sh_hdr t)) = true) st ->
  Forall (fun t => names_proposer pk (h_proposer (sh_hdr t)) = true) (light_run now st l).
Proof.
  intros now l. induction l as [|u l IH]; intros st Hst; cbn; [assumption|].
  apply IH. apply light_step_names. assumption.
Qed.

(* ---- frame lemmas: the sync machinery never touches the ingress part of the state ---------------- *)
Lemma try_sync_frame : forall tb fuel s,
  n_hstore (try_sync tb fuel s) = n_hstore s /\ n_dstore (try_sync tb fuel s) = n_dstore s /\
  n_hda (try_sync tb fuel s) = n_hda s /\ n_dda (try_sync tb fuel s) = n_dda s /\
  n_crashed (try_sync tb fuel s) = n_crashed s.
Proof.
  intros tb fuel. induction fuel as [|f IH]; intros s; cbn [try_sync]; [repeat split|].
  destruct (cache_get (n_hcache s) (n_height s + 1)); [|repeat split].
  destruct (cache_get (n_dcache s) (n_height s + 1)); [|repeat split].
  destruct (validate (n_state s) s0 d).
  - match goal with |- context [try_sync tb f ?x] => specialize (IH x) end.
    cbn [set_sync n_hstore n_dstore n_hda n_dda n_crashed] in IH. exact IH.
  - cbn. repeat split.
Qed.

Lemma sync_header_frame : forall tb s sh,
  n_hstore (sync_header tb s sh) = n_hstore s /\ n_dstore (sync_header tb s sh) = n_dstore s /\
  n_hda (sync_header tb s sh) = n_hda s /\ n_dda (sync_header tb s sh) = n_dda s /\
  n_crashed (sync_header tb s sh) = n_crashed s.
Proof.
  intros tb s sh. unfold sync_header.
  destruct (n_halted s); [repeat split|].
  destruct ((h_height (sh_hdr sh) <=? n_height s)%N || mem_header (sh_hdr sh) (n_hseen s)); [repeat split|].
  match goal with |- context [try_sync tb ?f ?x] => pose proof (try_sync_frame tb f x) as F; set (s2 := try_sync tb f x) in * end.
  cbn [set_sync n_hstore n_dstore n_hda n_dda n_crashed] in F.
  destruct (n_halted s2); [exact F|].
  cbn [set_sync n_hstore n_dstore n_hda n_dda n_crashed]. exact F.
Qed.

Lemma sync_data_frame : forall tb s d,
  n_hstore (sync_data tb s d) = n_hstore s /\ n_dstore (sync_data tb s d) = n_dstore s /\
  n_hda (sync_data tb s d) = n_hda s /\ n_dda (sync_data tb s d) = n_dda s /\
  n_crashed (sync_data tb s d) = n_crashed s.
Proof.
  intros tb s d. unfold sync_data.
  destruct (n_halted s); [repeat split|].
  destruct (d_txs d); [repeat split|].
  destruct (d_meta d); [|repeat split].
  destruct (mem_commitment (t :: l) (n_dseen s)); [repeat split|].
  destruct (m_height m <=? n_height s)%N; [repeat split|].
  match goal with |- context [try_sync tb ?f ?x] => pose proof (try_sync_frame tb f x) as F; set (s2 := try_sync tb f x) in * end.
  cbn [set_sync n_hstore n_dstore n_hda n_dda n_crashed] in F.
  destruct (n_halted s2); [exact F|].
  cbn [set_sync n_hstore n_dstore n_hda n_dda n_crashed]. exact F.
Qed.

Lemma forward_header_hstore : forall tb s sh, n_hstore (forward_header g tb s sh) = n_hstore s.
Proof.
  intros. unfold forward_header. destruct (is_expected_sequencer g sh); [|reflexivity].
  apply sync_header_frame.
Qed.

(* ---- a pass of HeaderStoreRetrieveLoop over a range of the header store ---------------------------------- *)
Lemma forward_header_frame : forall tb s sh,
  n_hstore (forward_header g tb s sh) = n_hstore s /\ n_crashed (forward_header g tb s sh) = n_crashed s.
Proof.
  intros. unfold forward_header. destruct (is_expected_sequencer g sh); [|split; reflexivity].
  destruct (sync_header_frame tb s sh) as (F1 & _ & _ & _ & F5). split; assumption.
Qed.

Lemma forward_range_frame : forall tb l s,
  n_hstore (forward_range g tb s l) = n_hstore s /\ n_crashed (forward_range g tb s l) = n_crashed s.
Proof.
  intros tb l. unfold forward_range. induction l as [|x r IH]; intros s; [split; reflexivity|].
  cbn [fold_left]. destruct (IH (forward_header g tb s x)) as [F1 F2].
  destruct (forward_header_frame tb s x) as [G1 G2]. rewrite F1, F2, G1, G2. split; reflexivity.
Qed.

(* what a pass hands to the sync loop is the subsequence of the range that passes the sequencer test, header by
   header, wherever in the range a header sits and whatever its neighbours are *)
Lemma forward_range_forwarded : forall tb l s,
  forward_range g tb s l = fold_left (sync_header tb) (forwarded g l) s.
Proof.
  intros tb l. unfold forward_range, forwarded. induction l as [|x r IH]; intros s; [reflexivity|].
  cbn [fold_left filter]. unfold forward_header at 2.
  destruct (is_expected_sequencer g x); cbn [fold_left]; apply IH.
Qed.

Lemma forwarded_signed : forall l, Forall (fun sh => signed_by pk sh = true) (forwarded g l).
Proof.
  intros l. unfold forwarded. rewrite Forall_forall. intros sh Hin.
  apply filter_In in Hin as [_ He]. apply expected_signed. exact He.
Qed.

(* whatever the header store holds — any number of headers per pass, of any origin, at any position of the range —
   what a pass of HeaderStoreRetrieveLoop hands to the sync loop is signed by the proposer *)
Lemma store_range_full : forall tb l s,
  forward_range g tb s l = fold_left (sync_header tb) (forwarded g l) s /\
  Forall (fun sh => signed_by pk sh = true) (forwarded g l).
Proof. intros. split; [apply forward_range_forwarded|apply forwarded_signed]. Qed.

(* ---- the chunked read of a DA height (RetrieveWithHelpers) hands over every blob, in order ----------- *)
Lemma chunks_from_nil : forall A fuel, @chunks_from A fuel [] = [].
Proof. intros A [|f]; reflexivity. Qed.

Lemma chunks_from_concat : forall A fuel (l : list A), (length l <= fuel)%nat -> concat (chunks_from fuel l) = l.
Proof.
  intros A fuel. induction fuel as [|f IH]; intros l Hl.
  - destruct l; [reflexivity|cbn [length] in Hl; lia].
  - destruct l as [|x r]; [reflexivity|].
    cbn [chunks_from concat]. rewrite IH.
    + apply firstn_skipn.
    + rewrite skipn_length. cbn [length] in *. unfold batch_size. lia.
Qed.

Lemma fetched_all : forall A (l : list A), fetched l = l.
Proof. intros A l. unfold fetched, chunks. apply chunks_from_concat. lia. Qed.

(* the Get calls: call number k asks for the ids from 100k on, 100 of them or what is left, never none *)
Lemma get_calls_from_nth : forall A fuel (l : list A) off k o n, (length l <= fuel)%nat ->
  nth_error (get_calls_from off (chunks_from fuel l)) k = Some (o, n) ->
  o = (off + N.of_nat (k * batch_size))%N /\
  n = N.of_nat (Nat.min batch_size (length l - k * batch_size)) /\ (0 < n)%N.
Proof.
  intros A fuel. induction fuel as [|f IH]; intros l off k o n Hl Hn.
  - cbn [chunks_from get_calls_from] in Hn. destruct k; discriminate.
  - destruct l as [|x r]; [cbn [chunks_from get_calls_from] in Hn; destruct k; discriminate|].
    cbn [chunks_from get_calls_from] in Hn.
    pose proof (firstn_length batch_size (x :: r)) as Hf.
    pose proof (skipn_length batch_size (x :: r)) as Hsk.
    remember (length (firstn batch_size (x :: r))) as c eqn:Ec. clear Ec.
    remember (skipn batch_size (x :: r)) as rest eqn:Er. clear Er.
    cbn [length] in Hf, Hsk, Hl |- *.
    destruct k as [|k'].
    + cbn [nth_error] in Hn. assert (Ho : off = o) by congruence. assert (Hc : N.of_nat c = n) by congruence.
      subst o n. clear Hn IH. unfold batch_size in *. repeat split; lia.
    + cbn [nth_error] in Hn.
      destruct rest as [|y r'].
      * rewrite chunks_from_nil in Hn. cbn [get_calls_from] in Hn. destruct k'; discriminate.
      * apply IH in Hn; [|unfold batch_size in *; lia].
        destruct Hn as (Ho & Hn' & Hp). cbn [length] in *. unfold batch_size in *.
        repeat split; [lia|lia|exact Hp].
Qed.

Lemma get_calls_nth : forall A (l : list A) k o n, nth_error (get_calls l) k = Some (o, n) ->
  o = N.of_nat (k * batch_size) /\ n = N.of_nat (Nat.min batch_size (length l - k * batch_size)) /\ (0 < n)%N.
Proof.
  intros A l k o n H. unfold get_calls, chunks in H. apply get_calls_from_nth in H; [|lia].
  destruct H as (Ho & Hn & Hp). rewrite N.add_0_l in Ho. repeat split; assumption.
Qed.

(* ---- the header store only ever holds headers naming the proposer ---------------------------------- *)
Lemma hstore_accepts_names : forall now t st u,
  names_proposer pk (h_proposer (sh_hdr t)) = true -> hstore_accepts now (t :: st) u = true ->
  names_proposer pk (h_proposer (sh_hdr u)) = true.
Proof.
  intros now t st u Ht Ha.
  destruct (names_proposer pk (h_proposer (sh_hdr u))) eqn:En; [reflexivity|].
  rewrite (p2p_header_partial now t st u Ht En) in Ha. discriminate.
Qed.

Lemma node_final_cons : forall now tb s i r,
  node_final g now tb s (i :: r) = node_final g now tb (fst (node_step g now tb s i)) r.
Proof.
  intros. unfold node_final. cbn [node_run].
  destruct (node_step g now tb s i) as [s1 o]. cbn [fst].
  destruct (node_run g now tb s1 r). reflexivity.
Qed.

Lemma node_final_nil : forall now tb s, node_final g now tb s [] = s.
Proof. reflexivity. Qed.

Lemma node_final_app : forall now tb a b s,
  node_final g now tb s (a ++ b) = node_final g now tb (node_final g now tb s a) b.
Proof.
  intros now tb a. induction a as [|i r IH]; intros b s; [reflexivity|].
  cbn [app]. rewrite !node_final_cons. apply IH.
Qed.

Lemma node_final_crashed : forall now tb l s, n_crashed s = true -> node_final g now tb s l = s.
Proof.
  intros now tb l. induction l as [|i r IH]; intros s Hc; [reflexivity|].
  rewrite node_final_cons. unfold node_step. rewrite Hc. cbn [fst]. apply IH. exact Hc.
Qed.

(* ---- one blob of a DA height: what it cannot touch ------------------------------------------------- *)
Lemma da_blob_step_frame : forall tb s b,
  n_hstore (fst (da_blob_step g tb s b)) = n_hstore s /\ n_dstore (fst (da_blob_step g tb s b)) = n_dstore s /\
  n_crashed (fst (da_blob_step g tb s b)) = false.
Proof.
  intros tb s b. unfold da_blob_step. cbn [fst]. rewrite da_admit_no_panic.
  set (o := da_admit g (n_hseen s) (n_dseen s) b).
  match goal with |- context [set_ingress s ?a ?b0 ?c ?d0 ?e] => set (s1 := set_ingress s a b0 c d0 e) end.
  set (s2 := match o_hevent o with Some sh => sync_header tb s1 sh | None => s1 end).
  assert (H2 : n_hstore s2 = n_hstore s /\ n_dstore s2 = n_dstore s /\ n_crashed s2 = false).
  { unfold s2. destruct (o_hevent o) as [sh|]; [|repeat split].
    destruct (sync_header_frame tb s1 sh) as (F1 & F2 & _ & _ & F5). rewrite F1, F2, F5. repeat split. }
  destruct (o_devent o) as [d|]; [|exact H2].
  destruct (sync_data_frame tb s2 d) as (F1 & F2 & _ & _ & F5). rewrite F1, F2, F5. exact H2.
Qed.

Lemma node_step_IDA : forall now tb s b, n_crashed s = false ->
  node_step g now tb s (IDA b) = da_blob_step g tb s b.
Proof. intros now tb s b Hc. unfold node_step. rewrite Hc. reflexivity. Qed.

(* ---- a DA height is processed exactly as the sequence of its blobs ---------------------------------- *)
Lemma da_blobs_run_cons : forall tb s b r, n_crashed s = false ->
  da_blobs_run g tb s (b :: r) = da_blobs_run g tb (fst (da_blob_step g tb s b)) r.
Proof. intros tb s b r Hc. cbn [da_blobs_run]. rewrite Hc. reflexivity. Qed.

Lemma da_blobs_run_final : forall now tb bl s, n_crashed s = false ->
  da_blobs_run g tb s bl = node_final g now tb s (map IDA bl).
Proof.
  intros now tb bl. induction bl as [|b r IH]; intros s Hc; [reflexivity|].
  rewrite da_blobs_run_cons by exact Hc. cbn [map]. rewrite node_final_cons.
  rewrite node_step_IDA by exact Hc. apply IH. apply da_blob_step_frame.
Qed.

(* reading a DA height through RetrieveWithHelpers' batches = reading its blobs one after the other:
   no blob is lost, duplicated or reordered, however many the height holds *)
Lemma node_step_height : forall now tb s bl,
  fst (node_step g now tb s (IDAHeight bl)) = node_final g now tb s (map IDA bl).
Proof.
  intros now tb s bl. destruct (n_crashed s) eqn:Hc.
  - rewrite node_final_crashed by exact Hc. unfold node_step. rewrite Hc. reflexivity.
  - unfold node_step. rewrite Hc. rewrite fetched_all.
    rewrite <- (da_blobs_run_final now tb bl s Hc). reflexivity.
Qed.

Lemma node_final_expand : forall now tb l s, node_final g now tb s l = node_final g now tb s (expand l).
Proof.
  intros now tb l. induction l as [|i r IH]; intros s; [reflexivity|].
  destruct i; cbn [expand]; try (rewrite !node_final_cons; apply IH).
  rewrite node_final_cons, node_step_height, node_final_app. apply IH.
Qed.

(* an invariant kept by every single blob is kept by a whole DA height *)
Lemma blobs_ind : forall (P : nstate -> Prop) now tb,
  (forall s b, P s -> P (fst (node_step g now tb s (IDA b)))) ->
  forall bl s, P s -> P (node_final g now tb s (map IDA bl)).
Proof.
  intros P now tb Hstep bl. induction bl as [|b r IH]; intros s Hs; [exact Hs|].
  cbn [map]. rewrite node_final_cons. apply IH. apply Hstep. exact Hs.
Qed.

Lemma node_step_inv_blob : forall now tb s b,
  hstore_inv pk s -> hstore_inv pk (fst (node_step g now tb s (IDA b))).
Proof.
  intros now tb s b Hs. unfold node_step. destruct (n_crashed s); [exact Hs|].
  unfold hstore_inv. destruct (da_blob_step_frame tb s b) as (F & _ & _). rewrite F. exact Hs.
Qed.

Lemma node_step_inv : forall now tb s i,
  init_ok pk i = true -> hstore_inv pk s -> hstore_inv pk (fst (node_step g now tb s i)).
Proof.
  intros now tb s i Hi Hs.
  destruct i as [sh|d|b|bl|u|u linked|rg]; try apply node_step_inv_blob; try assumption;
    [| |rewrite node_step_height; apply blobs_ind; [intros; apply node_step_inv_blob|]; assumption| | |];
    unfold node_step; (destruct (n_crashed s); [exact Hs|]).
  - destruct (n_hstore s) eqn:E; [|cbn; exact Hs].
    cbn [fst]. unfold hstore_inv. rewrite forward_header_hstore. cbn. exact Hi.
  - destruct (n_dstore s) eqn:E; [|cbn; exact Hs].
    cbn [fst]. unfold hstore_inv.
    destruct (sync_data_frame tb (set_ingress s (n_hda s) (n_dda s) (n_hstore s) [d] false) d) as [F _].
    rewrite F. cbn. exact Hs.
  - destruct (hstore_accepts now (n_hstore s) u) eqn:Ea; [|cbn; exact Hs].
    cbn [fst]. unfold hstore_inv. rewrite forward_header_hstore. cbn.
    unfold hstore_inv in Hs. destruct (n_hstore s) as [|t st]; [discriminate|].
    eapply hstore_accepts_names; eassumption.
  - destruct (dstore_accepts now (n_dstore s) u linked); [|cbn; exact Hs].
    cbn [fst]. unfold hstore_inv.
    destruct (sync_data_frame tb (set_ingress s (n_hda s) (n_dda s) (n_hstore s) (u :: n_dstore s) false) u) as [F _].
    rewrite F. cbn. exact Hs.
  - (* a range of the header store: its newest header becomes the head *)
    destruct (range_ok (n_hstore s) rg) eqn:Er; [|cbn; exact Hs]. cbn [fst]. unfold hstore_inv.
    match goal with |- context [forward_range g tb ?x rg] => destruct (forward_range_frame tb rg x) as [F _] end.
    rewrite F. cbn [set_ingress n_hstore].
    destruct (rev rg) as [|y ys] eqn:Erev.
    + apply (f_equal (@rev sheader)) in Erev. rewrite rev_involutive in Erev. subst rg.
      unfold range_ok in Er. destruct (n_hstore s); discriminate.
    + cbn [app]. cbn [init_ok] in Hi. rewrite forallb_forall in Hi. apply Hi.
      apply in_rev. rewrite Erev. left. reflexivity.
Qed.

(* ---- harmless adversarial traffic is a no-op on the whole node state ------------------------------- *)
Lemma set_ingress_id : forall s, n_crashed s = false ->
  set_ingress s (n_hda s) (n_dda s) (n_hstore s) (n_dstore s) false = s.
Proof. intros s H. destruct s. cbn in *. subst. reflexivity. Qed.

Lemma p2p_verify_data_unlinked : forall now t u, p2p_verify_data now t u false <> VAccept.
Proof.
  intros now t u. unfold p2p_verify_data.
  destruct (d_meta t); [|discriminate]. destruct (d_meta u); [|discriminate].
  destruct (negb (m_chain m0 =? m_chain m)%N); [discriminate|].
  destruct (m_height m0 <=? m_height m)%N; [discriminate|].
  destruct (m_time m0 <? m_time m)%Z; [discriminate|].
  destruct (now + clock_drift <? m_time m0)%Z; [discriminate|].
  destruct (m_height m0 =? m_height m + 1)%N; discriminate.
Qed.

(* a blob not signed by the proposer changes nothing at all *)
Lemma da_blob_noop : forall tb s b, n_crashed s = false -> blob_adversarial pk b = true ->
  fst (da_blob_step g tb s b) = s.
Proof.
  intros tb s b Ec Hh. unfold da_blob_step.
  assert (Hn : exists hd, da_admit g (n_hseen s) (n_dseen s) b = da_nothing hd).
  { destruct b as [| | |sh|sd]; cbn [da_admit]; try (eexists; reflexivity).
    - cbn [blob_adversarial] in Hh. apply negb_true_iff in Hh.
      destruct (validate_basic sh) eqn:Ev; cbn [negb]; [|eexists; reflexivity].
      destruct (is_expected_sequencer g sh) eqn:Ee; cbn [negb]; [|eexists; reflexivity].
      rewrite (expected_signed sh Ee) in Hh. discriminate.
    - cbn [blob_adversarial] in Hh. apply negb_true_iff in Hh.
      destruct (d_txs (sd_data sd)); [eexists; reflexivity|].
      destruct (d_meta (sd_data sd)); [|eexists; reflexivity].
      destruct (is_valid_signed_data g sd) eqn:Ev; cbn [negb]; [|eexists; reflexivity].
      rewrite (valid_data_signed sd Ev) in Hh. discriminate. }
  destruct Hn as [hd Hn]. rewrite Hn. cbn [da_nothing o_hmark o_dmark o_hevent o_devent o_panic fst].
  apply set_ingress_id. exact Ec.
Qed.

Lemma da_blobs_noop : forall now tb bl s, forallb (blob_adversarial pk) bl = true ->
  node_final g now tb s (map IDA bl) = s.
Proof.
  intros now tb bl. induction bl as [|b r IH]; intros s Ha; [reflexivity|].
  cbn [forallb] in Ha. apply andb_true_iff in Ha as [Hb Ha].
  cbn [map]. rewrite node_final_cons.
  destruct (n_crashed s) eqn:Ec.
  - unfold node_step. rewrite Ec. cbn [fst]. apply IH. exact Ha.
  - rewrite node_step_IDA by exact Ec. rewrite da_blob_noop by assumption. apply IH. exact Ha.
Qed.

Lemma harmless_noop : forall now tb s i,
  hstore_inv pk s -> harmless pk i = true -> fst (node_step g now tb s i) = s.
Proof.
  intros now tb s i Hs Hh.
  destruct i as [sh|d|b|bl|u|u linked|rg]; try discriminate.
  - (* DA blob *)
    destruct (n_crashed s) eqn:Ec; [unfold node_step; rewrite Ec; reflexivity|].
    rewrite node_step_IDA by exact Ec. apply da_blob_noop; assumption.
  - (* a DA height of third-party blobs *)
    rewrite node_step_height. apply da_blobs_noop. exact Hh.
  - (* header gossip *)
    unfold node_step. destruct (n_crashed s) eqn:Ec; [reflexivity|].
    cbn [harmless] in Hh. apply negb_true_iff in Hh.
    unfold hstore_inv in Hs. destruct (n_hstore s) as [|t st] eqn:E.
    + cbn. reflexivity.
    + rewrite (p2p_header_partial now t st u Hs Hh). reflexivity.
  - (* data gossip *)
    unfold node_step. destruct (n_crashed s) eqn:Ec; [reflexivity|].
    cbn [harmless] in Hh. apply negb_true_iff in Hh. subst linked.
    unfold dstore_accepts. destruct (n_dstore s) as [|t st]; [reflexivity|].
    pose proof (p2p_verify_data_unlinked now t u) as Hv.
    destruct (p2p_verify_data now t u false); try reflexivity. contradiction.
Qed.

Lemma no_halt_partial : forall now tb gs adv m,
  interleave gs adv m ->
  forallb (init_ok pk) gs = true -> forallb (harmless pk) adv = true ->
  forall s, hstore_inv pk s ->
  node_final g now tb s m = node_final g now tb s gs.
Proof.
  intros now tb gs adv m Hil. induction Hil as [|x gs' a m' Hil IH|x gs' a m' Hil IH]; intros Hg' Ha s Hs.
  - reflexivity.
  - cbn [forallb] in Hg'. apply andb_true_iff in Hg' as [Hx Hg'].
    rewrite !node_final_cons. apply IH; try assumption. apply node_step_inv; assumption.
  - cbn [forallb] in Ha. apply andb_true_iff in Ha as [Hx Ha].
    rewrite node_final_cons. rewrite (harmless_noop now tb s x Hs Hx). apply IH; assumption.
Qed.

Lemma node_init_inv : forall app0 t0, hstore_inv pk (node_init g app0 t0).
Proof. intros. exact I. Qed.

(* ---- under the guard, everything the node caches, applies and stores is signed by the proposer ------ *)
Definition blk_ok (b : sheader * data) : Prop :=
  signed_by pk (fst b) = true /\ commitment_eqb (d_txs (snd b)) (h_data (sh_hdr (fst b))) = true.
Definition sync_inv (s : nstate) : Prop :=
  Forall (fun e => signed_by pk (snd e) = true) (n_hcache s) /\ Forall blk_ok (n_applied s).

Lemma cache_get_in : forall A (l : list (N * A)) h v, cache_get l h = Some v -> exists k, In (k, v) l.
Proof.
  intros A l h v. induction l as [|[k x] r IH]; cbn; [discriminate|].
  destruct (k =? h)%N; intros H.
  - inversion H; subst. exists k. left. reflexivity.
  - destruct (IH H) as [k' Hin]. exists k'. right. exact Hin.
Qed.

Lemma cache_del_forall : forall A (P : N * A -> Prop) l h, Forall P l -> Forall P (cache_del l h).
Proof.
  intros A P l h H. unfold cache_del. induction H; cbn; [constructor|].
  destruct (negb (fst x =? h)%N); [constructor|]; assumption.
Qed.

Lemma try_sync_inv : forall tb fuel s, sync_inv s -> sync_inv (try_sync tb fuel s).
Proof.
  intros tb fuel. induction fuel as [|f IH]; intros s [Hc Ha]; cbn [try_sync]; [split; assumption|].
  destruct (cache_get (n_hcache s) (n_height s + 1)) as [h|] eqn:Eh; [|split; assumption].
  destruct (cache_get (n_dcache s) (n_height s + 1)) as [d|] eqn:Ed; [|split; assumption].
  destruct (validate (n_state s) h d) eqn:Ev.
  - apply IH. split; cbn [set_sync n_hcache n_applied].
    + apply cache_del_forall. exact Hc.
    + constructor; [|exact Ha]. split; cbn [fst snd].
      * destruct (cache_get_in _ _ _ _ Eh) as [k Hin].
        rewrite Forall_forall in Hc. exact (Hc _ Hin).
      * unfold validate in Ev. repeat (apply andb_true_iff in Ev as [Ev ?]).
        match goal with H : validate_pair h d = true |- _ => unfold validate_pair in H; apply andb_true_iff in H as [_ H]; exact H end.
  - split; cbn [set_sync n_hcache n_applied]; assumption.
Qed.

Lemma sync_header_inv : forall tb s sh, signed_by pk sh = true -> sync_inv s -> sync_inv (sync_header tb s sh).
Proof.
  intros tb s sh Hsg [Hc Ha]. unfold sync_header.
  destruct (n_halted s); [split; assumption|].
  destruct ((h_height (sh_hdr sh) <=? n_height s)%N || mem_header (sh_hdr sh) (n_hseen s)); [split; assumption|].
  match goal with |- context [try_sync tb ?f ?x] =>
    assert (H2 : sync_inv (try_sync tb f x)); [apply try_sync_inv; split; cbn [set_sync n_hcache n_applied]; [constructor; assumption|assumption]|];
    set (s2 := try_sync tb f x) in * end.
  destruct (n_halted s2); [exact H2|].
  destruct H2 as [H2c H2a]. split; cbn [set_sync n_hcache n_applied]; assumption.
Qed.

Lemma sync_data_inv : forall tb s d, sync_inv s -> sync_inv (sync_data tb s d).
Proof.
  intros tb s d [Hc Ha]. unfold sync_data.
  destruct (n_halted s); [split; assumption|].
  destruct (d_txs d); [split; assumption|].
  destruct (d_meta d); [|split; assumption].
  destruct (mem_commitment (t :: l) (n_dseen s)); [split; assumption|].
  destruct (m_height m <=? n_height s)%N; [split; assumption|].
  match goal with |- context [try_sync tb ?f ?x] =>
    assert (H2 : sync_inv (try_sync tb f x)); [apply try_sync_inv; split; cbn [set_sync n_hcache n_applied]; assumption|];
    set (s2 := try_sync tb f x) in * end.
  destruct (n_halted s2); [exact H2|].
  destruct H2 as [H2c H2a]. split; cbn [set_sync n_hcache n_applied]; assumption.
Qed.

Lemma forward_header_inv : forall tb s sh, sync_inv s -> sync_inv (forward_header g tb s sh).
Proof.
  intros tb s sh Hs. unfold forward_header.
  destruct (is_expected_sequencer g sh) eqn:Ee; [|exact Hs].
  apply sync_header_inv; [|exact Hs]. apply expected_signed; assumption.
Qed.

Lemma set_ingress_inv : forall s a b c d e, sync_inv s -> sync_inv (set_ingress s a b c d e).
Proof. intros s a b c d e [H1 H2]. split; cbn; assumption. Qed.

(* a pass over a range of the header store, whatever headers the range holds *)
Lemma forward_range_inv : forall tb l s, sync_inv s -> sync_inv (forward_range g tb s l).
Proof.
  intros tb l. unfold forward_range. induction l as [|x r IH]; intros s Hs; [exact Hs|].
  cbn [fold_left]. apply IH. apply forward_header_inv. exact Hs.
Qed.

Lemma da_admit_hevent : forall hs dsn b sh,
  o_hevent (da_admit g hs dsn b) = Some sh -> b = BHdr sh /\ is_expected_sequencer g sh = true.
Proof.
  intros hs dsn b sh. destruct b as [| | |sh'|sd]; cbn [da_admit da_nothing o_hevent]; try discriminate.
  - destruct (validate_basic sh'); cbn [negb da_nothing o_hevent]; try discriminate.
    destruct (is_expected_sequencer g sh') eqn:Ee; cbn [negb da_nothing o_hevent]; try discriminate.
    destruct (mem_header (sh_hdr sh') hs); try discriminate.
    intros H; inversion H; subst. split; [reflexivity|exact Ee].
  - destruct (d_txs (sd_data sd)); cbn [da_nothing o_hevent]; try discriminate.
    destruct (d_meta (sd_data sd)); cbn [da_nothing o_hevent]; try discriminate.
    destruct (is_valid_signed_data g sd); cbn [negb da_nothing o_hevent]; discriminate.
Qed.

Lemma node_step_sync_inv_blob : forall now tb s b, sync_inv s -> sync_inv (fst (node_step g now tb s (IDA b))).
Proof.
  intros now tb s b Hs. unfold node_step.
  destruct (n_crashed s); [exact Hs|]. unfold da_blob_step. cbn [fst].
  set (o := da_admit g (n_hseen s) (n_dseen s) b).
  match goal with |- context [set_ingress s ?a ?b0 ?c ?d0 ?e] => set (s1 := set_ingress s a b0 c d0 e) end.
  assert (H1 : sync_inv s1) by (apply set_ingress_inv; exact Hs).
  assert (H2 : sync_inv (match o_hevent o with Some sh => sync_header tb s1 sh | None => s1 end)).
  { destruct (o_hevent o) as [sh|] eqn:Eo; [|exact H1].
    destruct (da_admit_hevent _ _ _ _ Eo) as [Hb He]. subst b.
    apply sync_header_inv; [|exact H1]. apply expected_signed; assumption. }
  destruct (o_devent o); [|exact H2]. apply sync_data_inv. exact H2.
Qed.

Lemma node_step_sync_inv : forall now tb s i, sync_inv s -> sync_inv (fst (node_step g now tb s i)).
Proof.
  intros now tb s i Hs.
  destruct i as [sh|d|b|bl|u|u linked|rg]; try (apply node_step_sync_inv_blob; assumption);
    [| |rewrite node_step_height; apply blobs_ind; [intros; apply node_step_sync_inv_blob|]; assumption| | |];
    unfold node_step; (destruct (n_crashed s); [exact Hs|]).
  - destruct (n_hstore s); [|exact Hs]. cbn [fst].
    apply forward_header_inv. apply set_ingress_inv. exact Hs.
  - destruct (n_dstore s); [|exact Hs]. cbn [fst].
    apply sync_data_inv. apply set_ingress_inv. exact Hs.
  - destruct (hstore_accepts now (n_hstore s) u); [|exact Hs]. cbn [fst].
    apply forward_header_inv. apply set_ingress_inv. exact Hs.
  - destruct (dstore_accepts now (n_dstore s) u linked); [|exact Hs]. cbn [fst].
    apply sync_data_inv. apply set_ingress_inv. exact Hs.
  - destruct (range_ok (n_hstore s) rg); [|exact Hs]. cbn [fst].
    apply forward_range_inv. apply set_ingress_inv. exact Hs.
Qed.

(* for ALL traffic: everything the node caches, applies and stores is signed by the proposer *)
Lemma applied_signed_full : forall now tb l s, sync_inv s -> sync_inv (node_final g now tb s l).
Proof.
  intros now tb l. induction l as [|i r IH]; intros s Hs; [exact Hs|].
  rewrite node_final_cons. apply IH. apply node_step_sync_inv; assumption.
Qed.

(* no traffic whatsoever makes a goroutine of the node panic *)
Lemma node_step_no_crash_blob : forall now tb s b,
  n_crashed s = false -> n_crashed (fst (node_step g now tb s (IDA b))) = false.
Proof. intros now tb s b Hc. rewrite node_step_IDA by exact Hc. apply da_blob_step_frame. Qed.

Lemma node_step_no_crash : forall now tb s i, n_crashed s = false -> n_crashed (fst (node_step g now tb s i)) = false.
Proof.
  intros now tb s i Hc.
  destruct i as [sh|d|b|bl|u|u linked|rg]; try (apply node_step_no_crash_blob; assumption);
    [| |rewrite node_step_height; apply (blobs_ind (fun s => n_crashed s = false)); [intros; apply node_step_no_crash_blob|]; assumption| | |];
    unfold node_step; rewrite Hc.
  - destruct (n_hstore s); [|exact Hc]. cbn [fst]. unfold forward_header.
    destruct (is_expected_sequencer g sh); [|reflexivity].
    match goal with |- n_crashed (sync_header tb ?x sh) = _ => destruct (sync_header_frame tb x sh) as (_ & _ & _ & _ & F); rewrite F end.
    reflexivity.
  - destruct (n_dstore s); [|exact Hc]. cbn [fst].
    match goal with |- n_crashed (sync_data tb ?x d) = _ => destruct (sync_data_frame tb x d) as (_ & _ & _ & _ & F); rewrite F end.
    reflexivity.
  - destruct (hstore_accepts now (n_hstore s) u); [|exact Hc]. cbn [fst]. unfold forward_header.
    destruct (is_expected_sequencer g u); [|reflexivity].
    match goal with |- n_crashed (sync_header tb ?x u) = _ => destruct (sync_header_frame tb x u) as (_ & _ & _ & _ & F); rewrite F end.
    reflexivity.
  - destruct (dstore_accepts now (n_dstore s) u linked); [|exact Hc]. cbn [fst].
    match goal with |- n_crashed (sync_data tb ?x u) = _ => destruct (sync_data_frame tb x u) as (_ & _ & _ & _ & F); rewrite F end.
    reflexivity.
  - destruct (range_ok (n_hstore s) rg); [|exact Hc]. cbn [fst].
    match goal with |- n_crashed (forward_range g tb ?x rg) = _ => destruct (forward_range_frame tb rg x) as [_ F]; rewrite F end.
    reflexivity.
Qed.

Lemma no_crash_full : forall now tb l s, n_crashed s = false -> n_crashed (node_final g now tb s l) = false.
Proof.
  intros now tb l. induction l as [|i r IH]; intros s Hs; [exact Hs|].
  rewrite node_final_cons. apply IH. apply node_step_no_crash. exact Hs.
Qed.

(* third-party material on the DA layer (any blobs not signed by the proposer), interleaved anywhere: no effect *)
Lemma da_adversarial_harmless : forall i, da_adversarial pk i = true -> harmless pk i = true.
Proof. intros [sh|d|b|bl|u|u l|rg] H; cbn [da_adversarial harmless] in *; try discriminate; exact H. Qed.

Lemma no_halt_da_full : forall now tb gs adv m,
  interleave gs adv m ->
  forallb (init_ok pk) gs = true -> forallb (da_adversarial pk) adv = true ->
  forall s, hstore_inv pk s ->
  node_final g now tb s m = node_final g now tb s gs.
Proof.
  intros now tb gs adv m Hil Hgs Ha s Hs. eapply no_halt_partial; try eassumption.
  rewrite forallb_forall in *. intros x Hx. apply da_adversarial_harmless. apply Ha. exact Hx.
Qed.

(* ---- DA heights holding ANY number of third-party blobs ---------------------------------------------- *)
Lemma interleave_map : forall A B (f : A -> B) gs adv m, interleave gs adv m -> interleave (map f gs) (map f adv) (map f m).
Proof. intros A B f gs adv m H. induction H; cbn [map]; constructor; assumption. Qed.

Lemma init_ok_expand : forall l, forallb (init_ok pk) l = true -> forallb (init_ok pk) (expand l) = true.
Proof.
  induction l as [|i r IH]; intros H; [reflexivity|].
  cbn [forallb] in H. apply andb_true_iff in H as [Hi Hr].
  destruct i; cbn [expand forallb]; try (rewrite Hi, (IH Hr); reflexivity).
  rewrite forallb_app, (IH Hr), andb_true_r. rewrite forallb_forall. intros x Hx.
  apply in_map_iff in Hx as (b & <- & _). reflexivity.
Qed.

Lemma da_adversarial_expand : forall l, forallb (da_adversarial pk) l = true -> forallb (da_adversarial pk) (expand l) = true.
Proof.
  induction l as [|i r IH]; intros H; [reflexivity|].
  cbn [forallb] in H. apply andb_true_iff in H as [Hi Hr].
  destruct i; cbn [expand forallb]; try (rewrite Hi, (IH Hr); reflexivity).
  rewrite forallb_app, (IH Hr), andb_true_r. cbn [da_adversarial adversarial] in Hi.
  rewrite forallb_forall in *. intros x Hx.
  apply in_map_iff in Hx as (b & <- & Hb). cbn [da_adversarial adversarial]. apply Hi. exact Hb.
Qed.

(* genuine traffic gs and third-party DA material adv, both given per DA height or per blob, merged in any
   way that keeps the order of each — in particular third-party blobs put INSIDE the DA heights that carry the
   proposer's blobs, in any number and at any positions: the node ends in the state of the genuine run *)
Lemma no_halt_da_heights_full : forall now tb gs adv m,
  interleave (expand gs) (expand adv) (expand m) ->
  forallb (init_ok pk) gs = true -> forallb (da_adversarial pk) adv = true ->
  forall s, hstore_inv pk s ->
  node_final g now tb s m = node_final g now tb s gs.
Proof.
  intros now tb gs adv m Hil Hgs Ha s Hs.
  rewrite (node_final_expand now tb m), (node_final_expand now tb gs).
  eapply no_halt_da_full; try eassumption.
  - apply init_ok_expand. exact Hgs.
  - apply da_adversarial_expand. exact Ha.
Qed.

(* one DA height: the proposer's blobs gb with any third-party blobs ab anywhere between them *)
Lemma crowded_height_full : forall now tb gb ab mb,
  interleave gb ab mb -> forallb (blob_adversarial pk) ab = true ->
  forall s, hstore_inv pk s ->
  fst (node_step g now tb s (IDAHeight mb)) = fst (node_step g now tb s (IDAHeight gb)).
Proof.
  intros now tb gb ab mb Hil Ha s Hs. rewrite !node_step_height.
  apply (no_halt_da_full now tb (map IDA gb) (map IDA ab) (map IDA mb)).
  - apply interleave_map. exact Hil.
  - rewrite forallb_forall. intros x Hx. apply in_map_iff in Hx as (b & <- & _). reflexivity.
  - rewrite forallb_forall in *. intros x Hx. apply in_map_iff in Hx as (b & <- & Hb).
    cbn [da_adversarial adversarial]. apply Ha. exact Hb.
  - exact Hs.
Qed.

Lemma node_init_sync_inv : forall app0 t0, sync_inv (node_init g app0 t0).
Proof. intros. split; constructor. Qed.

(* DA-included marks: a header mark is only ever set for a header that passed the sequencer test *)
End WithProposer.

(* ---- a range of the header store read in one pass = its headers read one pass each ------------------------ *)
(* [wh s hs]: the node state with the header store replaced; nothing of the sync machinery looks at the store *)
Definition wh (s : nstate) (hs : list sheader) : nstate :=
  set_ingress s (n_hda s) (n_dda s) hs (n_dstore s) false.

Lemma try_sync_wh : forall tb fuel s a, try_sync tb fuel (wh s a) = wh (try_sync tb fuel s) a.
Proof.
  intros tb fuel. induction fuel as [|f IH]; intros s a; [reflexivity|].
  cbn [try_sync]. change (n_hcache (wh s a)) with (n_hcache s). change (n_dcache (wh s a)) with (n_dcache s).
  change (n_height (wh s a)) with (n_height s). change (n_state (wh s a)) with (n_state s).
  destruct (cache_get (n_hcache s) (n_height s + 1)) as [h|]; [|reflexivity].
  destruct (cache_get (n_dcache s) (n_height s + 1)) as [d|]; [|reflexivity].
  destruct (validate (n_state s) h d); [|reflexivity].
  match goal with |- try_sync tb f ?x = wh (try_sync tb f ?y) a => change x with (wh y a) end.
  apply IH.
Qed.

Lemma sync_header_wh : forall tb s a sh, sync_header tb (wh s a) sh = wh (sync_header tb s sh) a.
Proof.
  intros tb s a sh. unfold sync_header.
  change (n_halted (wh s a)) with (n_halted s). change (n_height (wh s a)) with (n_height s).
  change (n_hseen (wh s a)) with (n_hseen s).
  destruct (n_halted s); [reflexivity|].
  destruct ((h_height (sh_hdr sh) <=? n_height s)%N || mem_header (sh_hdr sh) (n_hseen s)); [reflexivity|].
  match goal with |- context [try_sync tb ?f ?x] =>
    match goal with |- context [wh (if n_halted (try_sync tb ?f' ?y) then _ else _) a] =>
      change f with f'; change x with (wh y a); rewrite (try_sync_wh tb f' y a); set (s2 := try_sync tb f' y) end end.
  change (n_halted (wh s2 a)) with (n_halted s2).
  destruct (n_halted s2); reflexivity.
Qed.

Section StoreRange.
Variable g : genesis.

Lemma forward_header_wh : forall tb s a sh, forward_header g tb (wh s a) sh = wh (forward_header g tb s sh) a.
Proof.
  intros. unfold forward_header. destruct (is_expected_sequencer g sh); [apply sync_header_wh|reflexivity].
Qed.

Lemma forward_range_wh : forall tb l s a, forward_range g tb (wh s a) l = wh (forward_range g tb s l) a.
Proof.
  intros tb l. unfold forward_range. induction l as [|x r IH]; intros s a; [reflexivity|].
  cbn [fold_left]. rewrite forward_header_wh. apply IH.
Qed.

Lemma wh_wh : forall s a b, wh (wh s a) b = wh s b.
Proof. reflexivity. Qed.

Lemma range_step_eq : forall now tb s l, n_crashed s = false -> range_ok (n_hstore s) l = true ->
  fst (node_step g now tb s (IStoreRange l)) = wh (forward_range g tb s l) (rev l ++ n_hstore s).
Proof.
  intros now tb s l Hc Hr. unfold node_step. rewrite Hc, Hr. cbn [fst].
  change (set_ingress s (n_hda s) (n_dda s) (rev l ++ n_hstore s) (n_dstore s) false) with (wh s (rev l ++ n_hstore s)).
  apply forward_range_wh.
Qed.

(* a range read in ONE pass does to the node exactly what its headers do when the store grows, and the loop
   passes, one header at a time *)
Lemma range_as_singles : forall now tb l s, n_crashed s = false -> range_ok (n_hstore s) l = true ->
  fst (node_step g now tb s (IStoreRange l)) = node_final g now tb s (map (fun x => IStoreRange [x]) l).
Proof.
  intros now tb l. induction l as [|x r IH]; intros s Hc Hr.
  - unfold range_ok in Hr. destruct (n_hstore s); discriminate.
  - rewrite range_step_eq by assumption.
    cbn [map]. rewrite node_final_cons.
    destruct (n_hstore s) as [|t st] eqn:Est; [discriminate|].
    cbn [range_ok consecutive] in Hr. apply andb_true_iff in Hr as [Hx Hrest].
    assert (Hr1 : range_ok (n_hstore s) [x] = true).
    { rewrite Est. cbn [range_ok consecutive]. rewrite Hx. reflexivity. }
    rewrite (range_step_eq now tb s [x] Hc Hr1). rewrite Est.
    cbn [rev app]. unfold forward_range at 2. cbn [fold_left].
    set (s' := wh (forward_header g tb s x) (x :: t :: st)).
    destruct r as [|y r'].
    + cbn [map]. rewrite node_final_nil. reflexivity.
    + assert (Hc' : n_crashed s' = false) by reflexivity.
      assert (Hr' : range_ok (n_hstore s') (y :: r') = true).
      { change (n_hstore s') with (x :: t :: st). cbn [range_ok].
        apply N.eqb_eq in Hx. rewrite Hx. exact Hrest. }
      rewrite <- (IH s' Hc' Hr'). rewrite (range_step_eq now tb s' (y :: r') Hc' Hr').
      unfold s'. rewrite forward_range_wh, wh_wh. change (n_hstore (wh (forward_header g tb s x) (x :: t :: st))) with (x :: t :: st).
      unfold forward_range. cbn [fold_left]. f_equal.
      rewrite <- app_assoc. reflexivity.
Qed.
End StoreRange.

(* ---- the same batches as property C09's model of RetrieveWithHelpers (Model/Retriever.v, C09_chunks_full) --- *)
Lemma get_calls_from_as_C09 : forall A fuel (l : list A) (l' : list Retriever.blob) off, length l = length l' ->
  get_calls_from (N.of_nat off) (chunks_from fuel l) =
  map (fun oc => (N.of_nat (fst oc), N.of_nat (length (snd oc)))) (Retriever.chunks_from fuel off l').
Proof.
  intros A fuel. induction fuel as [|f IH]; intros l l' off Hl; [reflexivity|].
  destruct l as [|x r]; destruct l' as [|x' r']; try discriminate; [reflexivity|].
  cbn [chunks_from Retriever.chunks_from get_calls_from map fst snd].
  pose proof (firstn_length batch_size (x :: r)) as Hf.
  pose proof (firstn_length Retriever.batch_size (x' :: r')) as Hf'.
  pose proof (skipn_length batch_size (x :: r)) as Hs.
  pose proof (skipn_length Retriever.batch_size (x' :: r')) as Hs'.
  remember (firstn batch_size (x :: r)) as c eqn:Ec. clear Ec.
  remember (firstn Retriever.batch_size (x' :: r')) as c' eqn:Ec'. clear Ec'.
  remember (skipn batch_size (x :: r)) as t eqn:Et. clear Et.
  remember (skipn Retriever.batch_size (x' :: r')) as t' eqn:Et'. clear Et'.
  assert (Hc : length c = length c') by (unfold batch_size, Retriever.batch_size in *; lia).
  assert (Ht : length t = length t') by (unfold batch_size, Retriever.batch_size in *; lia).
  rewrite Hc. f_equal.
  destruct t as [|y t0]; destruct t' as [|y' t0']; try discriminate.
  - rewrite chunks_from_nil. destruct f; reflexivity.
  - replace (N.of_nat off + N.of_nat (length c'))%N with (N.of_nat (off + Retriever.batch_size)).
    + apply IH. exact Ht.
    + cbn [length] in *. unfold batch_size, Retriever.batch_size in *. lia.
Qed.

Lemma get_calls_as_C09 : forall A (l : list A) (l' : list Retriever.blob), length l = length l' ->
  get_calls l = map (fun oc => (N.of_nat (fst oc), N.of_nat (length (snd oc)))) (Retriever.chunks l').
Proof.
  intros A l l' H. unfold get_calls, chunks, Retriever.chunks. rewrite <- H.
  apply (get_calls_from_as_C09 A (length l) l l' 0 H).
Qed.

(* ================= witnesses: the full statements are false of the faithful model ================= *)
Module W.
Local Open Scope N_scope.
Definition pk : key := 1%N.          (* the genesis proposer's key *)
Definition ak : key := 2%N.          (* a key minted by a third party *)
Definition gen : genesis := {| g_chain := 7; g_initial := 1; g_proposer := Addr pk |}.
Definition now : Z := 1000000%Z.
Definition app0 : root := 50%N.
Definition tb : exec_tbl := [ (50, [], 51); (51, [5; 6], 52) ]%N.
Definition prop_signer : signer := {| sg_pub := Some (Pub pk); sg_addr := Addr pk |}.

Definition H1 : header := Header 1 1000 7 None [] 50 (Addr pk).
Definition H2 : header := Header 2 2000 7 (Some H1) [5; 6]%N 51 (Addr pk).
Definition sh1 : sheader := {| sh_hdr := H1; sh_sig := Sig pk H1; sh_signer := prop_signer |}.
Definition sh2 : sheader := {| sh_hdr := H2; sh_sig := Sig pk H2; sh_signer := prop_signer |}.
Definition D2 : data := {| d_meta := Some {| m_chain := 7; m_height := 2; m_time := 2000 |}; d_txs := [5; 6]%N |}.
Definition sd2 : sdata := {| sd_data := D2; sd_sig := DSig pk D2; sd_signer := prop_signer |}.

(* F3: self-consistent forgery under the proposer's ADDRESS, another public key, signed with that key *)
Definition F1 : header := Header 1 1000 7 None [] 99 (Addr pk).
Definition forged_signer : signer := {| sg_pub := Some (Pub ak); sg_addr := Addr pk |}.
Definition fsh1 : sheader := {| sh_hdr := F1; sh_sig := Sig ak F1; sh_signer := forged_signer |}.
Definition FD : data := {| d_meta := Some {| m_chain := 7; m_height := 2; m_time := 2000 |}; d_txs := [9]%N |}.
Definition fsd : sdata := {| sd_data := FD; sd_sig := DSig ak FD; sd_signer := forged_signer |}.
(* the same without Metadata: admitted, then dereferenced *)
Definition FDnm : data := {| d_meta := None; d_txs := [9]%N |}.
Definition fsd_nometa : sdata := {| sd_data := FDnm; sd_sig := DSig ak FDnm; sd_signer := forged_signer |}.
(* F4: unsigned, no signer, hash-linked to the head *)
Definition U2 : header := Header 2 2000 7 (Some H1) [8]%N 77 (Addr pk).
Definition ush2 : sheader := {| sh_hdr := U2; sh_sig := SigEmpty; sh_signer := {| sg_pub := None; sg_addr := AddrEmpty |} |}.

Definition genuine : list item := [ IDA (BHdr sh1); IDA (BHdr sh2); IDA (BData sd2) ].
Definition D1 : data := {| d_meta := Some {| m_chain := 7; m_height := 1; m_time := 1000 |}; d_txs := [] |}.
Definition genuine_p2p : list item := [ IInitH sh1; IInitD D1; IGossipH sh2; IGossipD D2 true ].
Definition mixed_p2p : list item := [ IInitH sh1; IInitD D1; IGossipD FD true; IGossipH sh2; IGossipD D2 true ].
Definition s0 : nstate := node_init gen app0 500.
End W.

(* the repaired checks reject the forgeries that used to be admitted *)
Lemma forged_now_rejected :
  admit_da_header W.gen W.fsh1 = false /\ admit_da_data W.gen W.fsd = false /\ admit_da_data W.gen W.fsd_nometa = false.
Proof. vm_compute. repeat split; reflexivity. Qed.

Lemma p2p_header_refuted :
  ~ (forall pk now st u, Forall (fun t => signed_by pk t = true) st ->
       Forall (fun t => signed_by pk t = true) (light_step now st u)).
Proof.
  intros H. specialize (H W.pk W.now [W.sh1] W.ush2).
  assert (Hs : Forall (fun t => signed_by W.pk t = true) [W.sh1]) by (constructor; [vm_compute; reflexivity|constructor]).
  specialize (H Hs). vm_compute in H. inversion H as [|x l Hx Hl]; subst. discriminate.
Qed.

(* still false after the repairs, through P2P only: data gossip carries no signature; a third party's data
   for the next height that hash-links to the data head is cached, the genuine header then fails validation *)
Lemma no_halt_refuted :
  ~ (forall g pk now tb gs adv m s, g_proposer g = Addr pk -> interleave gs adv m ->
       forallb (init_ok pk) gs = true -> forallb (adversarial pk) adv = true -> hstore_inv pk s ->
       node_final g now tb s m = node_final g now tb s gs).
Proof.
  intros H.
  specialize (H W.gen W.pk W.now W.tb W.genuine_p2p [IGossipD W.FD true] W.mixed_p2p W.s0 eq_refl).
  assert (Hil : interleave W.genuine_p2p [IGossipD W.FD true] W.mixed_p2p).
  { unfold W.genuine_p2p, W.mixed_p2p. apply il_l. apply il_l. apply il_r. apply il_l. apply il_l. apply il_nil. }
  specialize (H Hil eq_refl eq_refl I).
  apply (f_equal n_halted) in H. vm_compute in H. discriminate.
Qed.

(* ---- copies that keep an item's identity; signers without a public key (stream h of the harness) ---------- *)
(* a signer without a public key (the address-only form the wire format allows, whatever the address says): the header
   path answers "not a header", the data path ignores the blob; no mark, no event, no panic *)
Lemma keyless_header_ignored : forall g hs ds sh, sg_pub (sh_signer sh) = None ->
  da_admit g hs ds (BHdr sh) = da_nothing false.
Proof.
  intros g hs ds sh H. unfold da_admit, validate_basic. rewrite H.
  rewrite !andb_false_r. reflexivity.
Qed.
Lemma keyless_data_ignored : forall g hs ds sd, sg_pub (sd_signer sd) = None ->
  da_admit g hs ds (BData sd) = da_nothing false.
Proof.
  intros g hs ds sd H. unfold da_admit, is_valid_signed_data. rewrite H. rewrite !andb_false_r.
  destruct (d_txs (sd_data sd)); [reflexivity|]. destruct (d_meta (sd_data sd)); reflexivity.
Qed.
Lemma keyless_step : forall g now tb s b,
  match b with BHdr sh => sg_pub (sh_signer sh) = None | BData sd => sg_pub (sd_signer sd) = None | _ => False end ->
  node_step g now tb s (IDA b) = (s, 0%N).
Proof.
  intros g now tb s b H. unfold node_step. destruct (n_crashed s) eqn:Ec; [reflexivity|]. unfold da_blob_step.
  destruct b as [| | |sh|sd]; try contradiction.
  - rewrite (keyless_header_ignored _ _ _ _ H). cbn. destruct s; cbn in Ec; subst; reflexivity.
  - rewrite (keyless_data_ignored _ _ _ _ H). cbn. destruct s; cbn in Ec; subst; reflexivity.
Qed.

(* a third party's blob read ahead of ANY blob b - in particular a copy that shares b's identity (same header, hence same
   hash; same data, hence same commitment) under another signature or signer - leaves no trace: b then does what it does alone *)
Lemma identity_copy_ahead : forall pk g, g_proposer g = Addr pk -> forall now tb s b' b,
  blob_adversarial pk b' = true -> hstore_inv pk s ->
  node_final g now tb s [IDA b'; IDA b] = node_final g now tb s [IDA b].
Proof.
  intros pk g Hg now tb s b' b Hadv Hinv.
  apply (no_halt_da_full pk g Hg now tb [IDA b] [IDA b'] [IDA b'; IDA b]).
  - apply il_r. apply il_l. apply il_nil.
  - reflexivity.
  - cbn. rewrite Hadv. reflexivity.
  - exact Hinv.
Qed.
Lemma identity_copy_same_height : forall pk g, g_proposer g = Addr pk -> forall now tb s b' b,
  blob_adversarial pk b' = true -> hstore_inv pk s ->
  fst (node_step g now tb s (IDAHeight [b'; b])) = fst (node_step g now tb s (IDAHeight [b])).
Proof.
  intros pk g Hg now tb s b' b Hadv Hinv.
  apply (crowded_height_full pk g Hg now tb [b] [b'] [b'; b]).
  - apply il_r. apply il_l. apply il_nil.
  - cbn. rewrite Hadv. reflexivity.
  - exact Hinv.
Qed.
