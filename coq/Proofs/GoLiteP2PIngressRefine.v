(* Proofs/GoLiteP2PIngressRefine.v — one iteration of the translated Manager.HeaderStoreRetrieveLoop /
   DataStoreRetrieveLoop refines P2PIngress.loop_step (Model/P2PIngress.v), the step the P2P theorems of C02
   (no height skipped, cursor, handed over once and in order) are stated over.

   [code_step] reads one model step off the CODE's observation: the world is the one the model's signal describes
   (the P2P store's height, whether the range (cursor, store height] can be read, the DA scan position); the heights
   handed over are those of the range the code ASKED its reader for (the arguments of the logged call), each sent
   iff the translated walk body sends it (go_HeaderStore_item: iff accepted; go_DataStore_item: always), tagged with
   the DA height the body was given; the new cursor is the one the iteration hands to the next.

     code_step_is_loop_step      for every junk filter, cursor and signal: code_step = P2PIngress.loop_step
     code_run_is_loop_run        hence for every sequence of signals the run of code steps is P2PIngress.loop_run
     failed_read_keeps_cursor    a range that cannot be read: nothing handed over, the cursor stays *)
From Coq Require Import String List NArith ZArith Bool Lia.
From Verif Require Import Model.GoLite Check.GoLiteP2PIngress.
From Verif Require Model.P2PIngress.
Import ListNotations.
Open Scope list_scope.
Import P2PIngress.

Definition world_of (cur : N) (s : psignal) : iworld :=
  {| i_cancel := false; i_cur := cur; i_sh := ps_store s; i_getok := negb (gap_hit cur s); i_da := ps_da s; i_left := false |}.

(* the range the code asked its reader for, as heights *)
Definition asked_range (sd : side) (calls : list gval) : list N :=
  flat_map (fun e => match e with
                     | VEff name [_; VN a; VN b] => if String.eqb name ("m." ++ sd_get sd)%string then heights_between (a - 1) b else []
                     | _ => []
                     end) calls.
Definition walked (calls : list gval) : bool :=
  existsb (fun e => match e with VEff name _ => String.eqb name "pkg.$range1" | _ => false end) calls.
Definition is_send (e : gval) : bool := match e with VEff name _ => String.eqb name "send" | _ => false end.

(* what the translated walk body does with one item: sent (with which DA tag) or not *)
Definition item_sends (hdr : bool) (accepted : bool) (da : N) : option N :=
  let w := {| b_cancel := false; b_accept := accepted; b_da := da |} in
  let calls := snd (if hdr then header_item_expect w else data_item_expect w) in
  match filter is_send calls with
  | [VEff _ [_; VRec [_; (_, VN tag)]]] => Some tag
  | _ => None
  end.

Definition code_step (hdr : bool) (accept : N -> bool) (cur : N) (s : psignal) : list (N * N) * N :=
  let sd := if hdr then hside else dside in
  let o := iter_expect sd (world_of cur s) in
  match fst o with
  | [VTok _ []; VN cur'] =>
      (if walked (snd o)
       then flat_map (fun n => match item_sends hdr (accept n) (ps_da s) with Some tag => [(n, tag)] | None => [] end)
                     (asked_range sd (snd o))
       else [], cur')
  | _ => ([], cur)
  end.

Lemma flat_map_filter_map : forall (f : N -> bool) (da : N) (l : list N),
  flat_map (fun n => if f n then [(n, da)] else []) l = map (fun n => (n, da)) (filter f l).
Proof. intros f da l. induction l as [|x l IH]; [reflexivity|]. cbn. destruct (f x); cbn; rewrite IH; reflexivity. Qed.

Lemma heights_between_shift : forall cur sh, heights_between (cur + 1 - 1) sh = heights_between cur sh.
Proof. intros cur sh. replace (cur + 1 - 1)%N with cur by lia. reflexivity. Qed.

Theorem code_step_is_loop_step : forall (accept : N -> bool) (cur : N) (s : psignal),
  code_step true accept cur s = loop_step accept cur s /\
  code_step false (fun _ => true) cur s = loop_step (fun _ => true) cur s.
Proof.
  intros accept cur s. unfold code_step, loop_step, iter_expect, world_of;
    cbn [i_cancel i_cur i_sh i_getok i_da i_left fst snd].
  destruct (cur <? ps_store s)%N eqn:Hlt; cbn [fst snd].
  2: { split; reflexivity. }
  destruct (gap_hit cur s) eqn:Hg; cbn [negb fst snd].
  - split; reflexivity.
  - split.
    + cbn. rewrite heights_between_shift, app_nil_r.
      rewrite <- flat_map_filter_map. f_equal. apply flat_map_ext. intros n. unfold item_sends. cbn. destruct (accept n); reflexivity.
    + cbn. rewrite heights_between_shift, app_nil_r.
      rewrite <- flat_map_filter_map. f_equal; try (apply flat_map_ext; intros n; reflexivity).
Qed.

Fixpoint code_run (hdr : bool) (accept : N -> bool) (cur : N) (sigs : list psignal) : list (list (N * N)) * N :=
  match sigs with
  | [] => ([], cur)
  | s :: r =>
      let '(em, cur') := code_step hdr accept cur s in
      let '(ems, fin) := code_run hdr accept cur' r in
      (em :: ems, fin)
  end.

Theorem code_run_is_loop_run : forall (accept : N -> bool) (sigs : list psignal) (cur : N),
  code_run true accept cur sigs = loop_run accept cur sigs /\
  code_run false (fun _ => true) cur sigs = loop_run (fun _ => true) cur sigs.
Proof.
  intros accept sigs. induction sigs as [|s r IH]; intros cur; [split; reflexivity|].
  cbn [code_run loop_run].
  destruct (code_step_is_loop_step accept cur s) as [H1 H2]. rewrite H1, H2.
  split.
  - destruct (loop_step accept cur s) as [em cur']. rewrite (proj1 (IH cur')). reflexivity.
  - destruct (loop_step (fun _ => true) cur s) as [em cur']. rewrite (proj2 (IH cur')). reflexivity.
Qed.

(* a range that cannot be read: the code hands nothing over and keeps its cursor *)
Corollary failed_read_keeps_cursor : forall hdr accept cur s,
  (cur <? ps_store s)%N = true -> gap_hit cur s = true -> code_step hdr accept cur s = ([], cur).
Proof.
  intros hdr accept cur s Hlt Hg. unfold code_step, iter_expect, world_of; cbn [i_cancel i_cur i_sh i_getok i_da i_left fst snd].
  rewrite Hlt, Hg. destruct hdr; reflexivity.
Qed.

(* non-vacuity: a signal that hands heights 4, 5 over (4 refused by the filter) *)
Example hands_over_somewhere :
  code_step true (fun n => negb (n =? 4)%N) 3 {| ps_store := 5; ps_tail := 1; ps_gap := None; ps_da := 9 |} = ([(5, 9)], 5)%N.
Proof. vm_compute. reflexivity. Qed.

Print Assumptions code_step_is_loop_step.
Print Assumptions code_run_is_loop_run.
Print Assumptions failed_read_keeps_cursor.
