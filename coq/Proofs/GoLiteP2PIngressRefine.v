(* Proofs/GoLiteP2PIngressRefine.v — one iteration of the translated Manager.HeaderStoreRetrieveLoop /
   DataStoreRetrieveLoop refines P2PIngress.loop_step (Model/P2PIngress.v), the step the P2P theorems of C02
   (no height skipped, cursor, handed over once and in order) are stated over.

   [code_step] reads one model step off the CODE's observation: the world is the one the model's signal describes
   (the P2P store's height, whether the range (cursor, store height] can be read, the DA scan position); the heights
   handed over are those of the range the code ASKED its reader for (the arguments of the logged call), each sent
   iff the translated walk body sends it (go_HeaderStore_item: iff accepted; go_DataStore_item: always), tagged with
   the DA height the body was given; the new cursor is the one the iteration hands to the next.

     code_step_is_loop_step      for every junk filter, cursor and signal: code_step = P2PIngress.loop_step
     code_run_is_loop_run        hence for every sequence of signals the run of code steps is P2PIngress.loop_run
     failed_read_keeps_cursor    a range that cannot be read: nothing handed over, the cursor stays *)
From Coq Require Import String List NArith ZArith Bool Lia.
From Verif Require Import Model.GoLite Check.GoLiteP2PIngress.
From Verif Require Model.P2PIngress.
Import ListNotations.
Open Scope list_scope.
Import P2PIngress.

Definition world_of (cur : N) (s : psignal) : iworld :=
  {| i_cancel := false; i_cur := cur; i_sh := ps_store s; i_getok := negb (gap_hit cur s); i_da := ps_da s; i_left := false |}.

(* the range the code asked its reader for, as heights *)
Definition asked_range (sd : side) (calls : list gval) : list N :=
  flat_map (fun e => match e with
                     | VEff name [_; VN a; VN b] => if String.eqb name ("m." ++ sd_get sd)%string then heights_between (a - 1) b else []
                     | _ => []
                     end) calls.
Definition walked (calls : list gval) : bool :=
  existsb (fun e => match e with VEff name _ => String.eqb name "pkg.$range1" | _ => false end) calls.
Definition is_send (e : gval) : bool := match e with VEff name _ => String.eqb name "send" | _ => false end.

(* what the translated walk body does with one item: sent (with which DA tag) or not *)
Definition item_sends (hdr : bool) (accepted : bool) (da : N) : option N :=
  let w := {| b_cancel := false; b_accept := accepted; b_da := da |} in
  let calls := snd (if hdr then header_item_expect w else data_item_expect w) in
  match filter is_send calls with
  | [VEff _ [_; VRec [_; (_, VN tag)]]] => Some tag
  | _ => None
  end.

Definition code_step (hdr : bool) (accept : N -> bool) (cur : N) (s : psignal) : list (N * N) * N :=
  let sd := if hdr then hside else dside in
  let o := iter_expect sd (world_of cur s) in
  match fst o with
  | [VTok _ []; VN cur'] =>
      (if walked (snd o)
       then flat_map (fun n => match item_sends hdr (accept n) (ps_da s) with Some tag => [(n, tag)] | None => [] end)
                     (asked_range sd (snd o))
       else [], cur')
  | _ => ([], cur)
  end.

Lemma flat_map_filter_map : forall (f : N -> bool) (da : N) (l : list N),
  flat_map (fun n => if f n then [(n, da)] else []) l = map (fun n => (n, da)) (filter f l).
Proof. intros f da l. induction l as [|x l IH]; [reflexivity|]. cbn. destruct (f x); cbn; rewrite IH; reflexivity. Qed.

Lemma heights_between_shift : forall cur sh, heights_between (cur + 1 - 1) sh = heights_between cur sh.
Proof. intros cur sh. replace (cur + 1 - 1)%N with cur by lia. reflexivity. Qed.

Theorem code_step_is_loop_step : forall (accept : N -> bool) (cur : N) (s : psignal),
  code_step true accept cur s = loop_step accept cur s /\
  code_step false (fun _ => true) cur s = loop_step (fun _ => true) cur s.
Proof.
  intros accept cur s. unfold code_step, loop_step, iter_expect, world_of;
    cbn [i_cancel i_cur i_sh i_getok i_da i_left fst snd].
  destruct (cur <? ps_store s)%N eqn:Hlt; cbn [fst snd].
  2: { split; reflexivity. }
  destruct (gap_hit cur s) eqn:Hg; cbn [negb fst snd].
  - split; reflexivity.
  - split.
    + cbn. rewrite heights_between_shift, app_nil_r.
      rewrite <- flat_map_filter_map. f_equal. apply flat_map_ext. intros n. unfold item_sends. cbn. destruct (accept n); reflexivity.
    + cbn. rewrite heights_between_shift, app_nil_r.
      rewrite <- flat_map_filter_map. f_equal; try (apply flat_map_ext; intros n; reflexivity).
Qed.

Fixpoint code_run (hdr : bool) (accept : N -> bool) (cur : N) (sigs : list psignal) : list (list (N * N)) * N :=
  match sigs with
  | [] => ([], cur)
  | s :: r =>
      let '(em, cur') := code_step hdr accept cur s in
      let '(ems, fin) := code_run hdr accept cur' r in
      (em :: ems, fin)
  end.

Theorem code_run_is_loop_run : forall (accept : N -> bool) (sigs : list psignal) (cur : N),
  code_run true accept cur sigs = loop_run accept cur sigs /\
  code_run false (fun _ => true) cur sigs = loop_run (fun _ => true) cur sigs.
Proof.
  intros accept sigs. induction sigs as [|s r IH]; intros cur; [split; reflexivity|].
  cbn [code_run loop_run].
  destruct (code_step_is_loop_step accept cur s) as [H1 H2]. rewrite H1, H2.
  split.
  - destruct (loop_step accept cur s) as [em cur']. rewrite (proj1 (IH cur')). reflexivity.
  - destruct (loop_step (fun _ => true) cur s) as [em cur']. rewrite (proj2 (IH cur')). reflexivity.
Qed.

(* a range that cannot be read: the code hands nothing over and keeps its cursor *)
Corollary failed_read_keeps_cursor : forall hdr accept cur s,
  (cur <? ps_store s)%N = true -> gap_hit cur s = true -> code_step hdr accept cur s = ([], cur).
Proof.
  intros hdr accept cur s Hlt Hg. unfold code_step, iter_expect, world_of; cbn [i_cancel i_cur i_sh i_getok i_da i_left fst snd].
  rewrite Hlt, Hg. destruct hdr; reflexivity.
Qed.

(* non-vacuity: a signal that hands heights 4, 5 over (4 refused by the filter) *)
Example hands_over_somewhere :
  code_step true (fun n => negb (n =? 4)%N) 3 {| ps_store := 5; ps_tail := 1; ps_gap := None; ps_da := 9 |} = ([(5, 9)], 5)%N.
Proof. vm_compute. reflexivity. Qed.


(* ---- the range reader: which heights of the P2P store one read touches ---------------------------------------------
   [code_reads] runs the translated iteration of getHeadersFromHeaderStore (Check/GoLiteP2PIngress.get_expect — which
   go_getHeaders_iter / go_getData_iter prove IS the translated Go iteration, identical for the two readers up to the
   store's name) from i = start, in a store whose read of height h fails iff [fails h], reading off the code's result
   whether it goes round again, stops at the end of the range, or returns the error.
     reads_are_loop_reads   for every cursor below the store height and every signal: the heights the code reads when
                            asked for (cursor+1, store height) are P2PIngress.loop_reads, in that order, and the read
                            succeeds exactly when the model says no gap is hit — which is the [i_getok] the iteration
                            lemma of the loop is instantiated with in [world_of]. *)
Inductive verdict := VAgain (i : N) | VEnd | VError | VOther.
Definition read_verdict (o : list gval * list gval) : verdict :=
  match fst o with
  | [VTok t []; _; VN i] => if String.eqb t "continue" then VAgain i else if String.eqb t "break" then VEnd else VOther
  | [VNil; VErr true] => VError
  | _ => VOther
  end.
Fixpoint code_reads (store : string) (fuel : nat) (st en i : N) (fails : N -> bool) : list N * bool :=
  match fuel with
  | O => ([], false)
  | S f =>
      match read_verdict (get_expect store {| g_start := st; g_end := en; g_i := i; g_ok := negb (fails i) |}) with
      | VAgain i' => let '(r, ok) := code_reads store f st en i' fails in (i :: r, ok)
      | VEnd => ([], true)
      | VError => ([i], false)
      | VOther => ([], false)
      end
  end.

Fixpoint spec_reads (n : nat) (i : N) (fails : N -> bool) : list N * bool :=
  match n with
  | O => ([], true)
  | S k => if fails i then ([i], false) else let '(r, ok) := spec_reads k (i + 1) fails in (i :: r, ok)
  end.

Lemma verdict_of_get : forall store st en i ok,
  read_verdict (get_expect store {| g_start := st; g_end := en; g_i := i; g_ok := ok |})
  = if negb (i <=? en)%N then VEnd else if negb ok then VError else VAgain (i + 1).
Proof.
  intros store st en i ok. unfold read_verdict, get_expect; cbn [g_i g_end g_ok g_start].
  destruct (i <=? en)%N; destruct ok; reflexivity.
Qed.
Lemma code_reads_unfold : forall store f st en i fails,
  code_reads store (S f) st en i fails =
  match read_verdict (get_expect store {| g_start := st; g_end := en; g_i := i; g_ok := negb (fails i) |}) with
  | VAgain i' => let '(r, ok) := code_reads store f st en i' fails in (i :: r, ok)
  | VEnd => ([], true)
  | VError => ([i], false)
  | VOther => ([], false)
  end.
Proof. reflexivity. Qed.

Lemma code_reads_spec : forall store fails st en n i,
  N.to_nat (en + 1 - i) = n -> (i <= en + 1)%N -> code_reads store (S n) st en i fails = spec_reads n i fails.
Proof.
  intros store fails st en n. induction n as [|n IH]; intros i Hn Hi.
  - rewrite code_reads_unfold, verdict_of_get.
    assert (H : (i <=? en)%N = false) by (apply N.leb_gt; lia). rewrite H. reflexivity.
  - rewrite code_reads_unfold, verdict_of_get. cbn [spec_reads].
    assert (H : (i <=? en)%N = true) by (apply N.leb_le; lia). rewrite H. cbn [negb].
    destruct (fails i); cbn [negb]; [reflexivity|].
    rewrite IH by lia. reflexivity.
Qed.

Lemma spec_reads_all : forall fails n a,
  (forall h, (a < h <= a + N.of_nat n)%N -> fails h = false) -> spec_reads n (a + 1) fails = (seq_from a n, true).
Proof.
  intros fails n. induction n as [|n IH]; intros a H; [reflexivity|].
  cbn [spec_reads seq_from]. rewrite H by lia. rewrite IH; [reflexivity|]. intros h Hh. apply H. lia.
Qed.
Lemma spec_reads_stop : forall fails k n a,
  fails (a + N.of_nat k + 1)%N = true -> (forall h, (a < h <= a + N.of_nat k)%N -> fails h = false) -> (k < n)%nat ->
  spec_reads n (a + 1) fails = (seq_from a (S k), false).
Proof.
  intros fails k. induction k as [|k IH]; intros n a Hf Hb Hn; (destruct n as [|n]; [lia|]).
  - cbn [spec_reads seq_from]. replace (a + N.of_nat 0 + 1)%N with (a + 1)%N in Hf by lia. rewrite Hf. reflexivity.
  - cbn [spec_reads]. rewrite Hb by lia.
    rewrite (IH n (a + 1)%N); [reflexivity| | |lia].
    + replace (a + 1 + N.of_nat k + 1)%N with (a + N.of_nat (S k) + 1)%N by lia. exact Hf.
    + intros h Hh. apply Hb. lia.
Qed.

(* the store of a signal: a read of h fails iff h lies below what the store holds or is the height that is missing now *)
Definition fails_of (s : psignal) (h : N) : bool :=
  (h <? ps_tail s)%N || match ps_gap s with Some f => (h =? f)%N | None => false end.

Theorem reads_are_loop_reads : forall (store : string) (cur : N) (s : psignal),
  (cur <? ps_store s)%N = true ->
  code_reads store (S (N.to_nat (ps_store s - cur))) (cur + 1) (ps_store s) (cur + 1) (fails_of s)
  = (loop_reads cur s, negb (gap_hit cur s)).
Proof.
  intros store cur s Hlt. apply N.ltb_lt in Hlt.
  rewrite code_reads_spec by lia.
  unfold loop_reads, gap_hit, first_fail. rewrite (proj2 (N.ltb_lt _ _) Hlt).
  set (n := N.to_nat (ps_store s - cur)). assert (Hn : (0 < n)%nat) by (unfold n; lia).
  destruct (cur + 1 <? ps_tail s)%N eqn:Ht.
  - (* the very first height is below what the store holds *)
    rewrite (spec_reads_stop (fails_of s) 0 n cur); [| | intros h Hh; lia | lia].
    + unfold heights_between. replace (N.to_nat (cur + 1 - cur)) with 1%nat by lia. reflexivity.
    + unfold fails_of. replace (cur + N.of_nat 0 + 1)%N with (cur + 1)%N by lia. rewrite Ht. reflexivity.
  - apply N.ltb_ge in Ht.
    assert (Htail : forall h, (cur < h)%N -> (h <? ps_tail s)%N = false) by (intros h Hh; apply N.ltb_ge; lia).
    destruct (ps_gap s) as [f|] eqn:Hg.
    + destruct ((cur <? f)%N && (f <=? ps_store s)%N) eqn:Hin.
      * apply andb_prop in Hin. destruct Hin as [H1 H2]. apply N.ltb_lt in H1. apply N.leb_le in H2.
        set (k := N.to_nat (f - cur - 1)).
        rewrite (spec_reads_stop (fails_of s) k n cur).
        -- unfold heights_between. replace (N.to_nat (f - cur)) with (S k) by (unfold k; lia). reflexivity.
        -- unfold fails_of. rewrite Hg. replace (cur + N.of_nat k + 1)%N with f by (unfold k; lia).
           rewrite N.eqb_refl. apply orb_true_r.
        -- intros h Hh. unfold fails_of. rewrite Hg, Htail by lia. cbn. apply N.eqb_neq. unfold k in Hh. lia.
        -- unfold k, n. lia.
      * rewrite (spec_reads_all (fails_of s) n cur).
        -- reflexivity.
        -- intros h Hh. unfold fails_of. rewrite Hg, Htail by lia. cbn. apply N.eqb_neq. intros ->.
           assert ((cur <? f)%N = true) by (apply N.ltb_lt; lia).
           assert ((f <=? ps_store s)%N = true) by (apply N.leb_le; unfold n in Hh; lia).
           rewrite H, H0 in Hin. discriminate.
    + rewrite (spec_reads_all (fails_of s) n cur); [reflexivity|].
      intros h Hh. unfold fails_of. rewrite Hg, Htail by lia. reflexivity.
Qed.

Example reads_somewhere :
  code_reads "headerStore" 5 4 7 4 (fails_of {| ps_store := 7; ps_tail := 1; ps_gap := Some 6%N; ps_da := 0 |}) = ([4; 5; 6]%N, false).
Proof. vm_compute. reflexivity. Qed.

Print Assumptions code_step_is_loop_step.
Print Assumptions code_run_is_loop_run.
Print Assumptions failed_read_keeps_cursor.
Print Assumptions reads_are_loop_reads.
