(* Proofs/IncluderScanProofs.v — the full node around the includer (Model/IncluderScan.v), C07:
   refinement to Model/Includer.v, the DA scan never leaves a height without having marked its blobs, it
   always resumes at DA height 0 after a restart, marks correspond to blobs that are on the DA layer, and the
   liveness part of C07 for a full node, for all histories (crashes and restarts included) and all DA fault
   sequences. *)
From Coq Require Import NArith List Bool Lia ZifyBool ZifyN ZifyNat.
From Verif Require Import Model.Includer Proofs.IncluderProofs Model.IncluderScan.
Import ListNotations.
Open Scope N_scope.

(* ---- histories --------------------------------------------------------------------------------------- *)
Lemma frun_snoc b h i : frun b (h ++ [i]) = fstep (frun b h) i.
Proof. unfold frun, frun_from. rewrite fold_left_app. reflexivity. Qed.

Lemma frun_app b h h' : frun b (h ++ h') = frun_from (frun b h) h'.
Proof. unfold frun, frun_from. apply fold_left_app. Qed.

Lemma run_from_app s a b : run_from s (a ++ b) = run_from (run_from s a) b.
Proof. unfold run_from. apply fold_left_app. Qed.

Lemma fstep_nd s i : nd (fstep s i) = run_from (nd s) (items_of s i).
Proof. destruct i; reflexivity. Qed.

Lemma ftrace_refines : forall h s, nd (frun_from s h) = run_from (nd s) (ftrace s h).
Proof.
  induction h as [|i h IH]; intros s; [reflexivity|].
  unfold frun_from in *. cbn [fold_left ftrace]. rewrite IH, fstep_nd, run_from_app. reflexivity.
Qed.

(* the includer part of a full node after history h = the includer model after the translated history *)
Theorem fullnode_refines : forall b h, nd (frun b h) = run b (ftrace (finit b) h).
Proof. intros b h. unfold frun. rewrite ftrace_refines. reflexivity. Qed.

Lemma ftrace_app : forall h s h', ftrace s (h ++ h') = ftrace s h ++ ftrace (frun_from s h) h'.
Proof.
  induction h as [|i h IH]; intros s h'; [reflexivity|].
  cbn [app ftrace]. rewrite IH, <- app_assoc. reflexivity.
Qed.

Lemma ftrace_snoc b h i :
  ftrace (finit b) (h ++ [i]) = ftrace (finit b) h ++ items_of (frun b h) i.
Proof. rewrite ftrace_app. cbn [ftrace]. rewrite app_nil_r. reflexivity. Qed.

(* ---- the DA layer ---------------------------------------------------------------------------------- *)
Lemma blob_eqb_eq a b : blob_eqb a b = true -> a = b.
Proof. destruct a, b; cbn; intros H; try discriminate; try reflexivity; apply N.eqb_eq in H; subst; reflexivity. Qed.

Lemma content_in d h x : In x (content d h) -> 1 <= h <= N.of_nat (length d).
Proof.
  unfold content. destruct (h =? 0) eqn:E; [intros []|]. apply N.eqb_neq in E.
  intros H. destruct (Compare_dec.le_lt_dec (length d) (N.to_nat (h - 1))) as [Hg|Hl]; [|lia].
  rewrite nth_overflow in H by exact Hg. destruct H.
Qed.

Lemma content_app d bl h : h <= N.of_nat (length d) -> content (d ++ [bl]) h = content d h.
Proof.
  intros H. unfold content. destruct (h =? 0) eqn:E; [reflexivity|]. apply N.eqb_neq in E.
  apply app_nth1. lia.
Qed.

Lemma in_content d bl : In bl d -> exists h, 1 <= h <= N.of_nat (length d) /\ content d h = bl.
Proof.
  intros H. destruct (In_nth _ _ [] H) as (n & Hn & E).
  exists (N.of_nat n + 1). split; [lia|]. unfold content.
  replace (N.of_nat n + 1 =? 0) with false by (symmetry; apply N.eqb_neq; lia).
  replace (N.to_nat (N.of_nat n + 1 - 1)) with n by lia. exact E.
Qed.

Lemma da_has_content d x : da_has d x = true -> exists h, 1 <= h <= N.of_nat (length d) /\ In x (content d h).
Proof.
  unfold da_has. intros H. apply existsb_exists in H as (bl & Hbl & Hx).
  apply existsb_exists in Hx as (y & Hy & E). apply blob_eqb_eq in E. subst y.
  destruct (in_content _ _ Hbl) as (h & Hh & Ec). exists h. split; [exact Hh | rewrite Ec; exact Hy].
Qed.

(* ---- one iteration of the scan -------------------------------------------------------------------- *)
Lemma proc_adv : forall n l fs bl, proc n l fs = PAdv bl -> (l = LEmpty /\ bl = []) \/ l = LBlobs bl.
Proof.
  induction n as [|n IH]; intros l fs bl H; [discriminate H|].
  cbn [proc] in H.
  assert (Hh : honest l = PAdv bl -> (l = LEmpty /\ bl = []) \/ l = LBlobs bl).
  { destruct l; cbn; intros E; inversion E; subst; auto. }
  destruct fs as [|[fut|nf fut] r]; [exact (Hh H)| |].
  - destruct fut; [discriminate H | exact (IH _ _ _ H)].
  - destruct l; try exact (Hh H). destruct fut; [discriminate H | exact (IH _ _ _ H)].
Qed.

Lemma proc_future : forall n fs, proc n LFuture fs = PStay.
Proof.
  induction n as [|n IH]; intros fs; [reflexivity|]. cbn [proc].
  destruct fs as [|[fut|nf fut] r]; [reflexivity| |reflexivity]. destruct fut; [reflexivity | apply IH].
Qed.

Lemma proc_served : forall n l fs, served n fs = true -> proc n l fs = honest l.
Proof.
  induction n as [|n IH]; intros l fs H; [discriminate H|]. cbn [proc served] in *.
  destruct fs as [|[fut|nf fut] r]; [reflexivity| |].
  - destruct fut; [discriminate H | apply IH, H].
  - destruct l; try reflexivity. destruct fut; [discriminate H | apply IH, H].
Qed.

Lemma listing_cases s :
  (listing_at s = LFuture /\ top s < cur s) \/
  (listing_at s = LEmpty /\ cur s <= top s /\ content (dal s) (cur s) = []) \/
  (exists bl, listing_at s = LBlobs bl /\ cur s <= top s /\ content (dal s) (cur s) = bl).
Proof.
  unfold listing_at. destruct (top s <? cur s) eqn:E.
  - left. split; [reflexivity | lia].
  - right. destruct (content (dal s) (cur s)) as [|x r] eqn:Ec.
    + left. repeat split; lia.
    + right. exists (x :: r). repeat split; lia.
Qed.

(* the cursor moves by at most one, and only over a height that exists, with exactly that height's blobs handled *)
Lemma scan_cases s fs :
  (scan_res s fs = PStay) \/
  (exists bl, scan_res s fs = PAdv bl /\ cur s <= top s /\ content (dal s) (cur s) = bl).
Proof.
  unfold scan_res. destruct (proc retries (listing_at s) fs) as [|bl] eqn:E; [left; reflexivity|right].
  exists bl. split; [reflexivity|].
  destruct (proc_adv _ _ _ _ E) as [(El & ->)|El];
    destruct (listing_cases s) as [(A & _)|[(A & B & C)|(bl' & A & B & C)]]; rewrite A in El; try discriminate El.
  - split; assumption.
  - injection El as <-. split; assumption.
Qed.

Lemma scan_served s fs : served retries fs = true -> cur s <= top s -> cur (fstep s (FScan fs)) = cur s + 1.
Proof.
  intros H Hc. cbn [fstep cur]. unfold scan_res. rewrite (proc_served _ _ _ H).
  destruct (listing_cases s) as [(A & B)|[(A & _)|(bl & A & _)]]; rewrite A; [lia | reflexivity | reflexivity].
Qed.

Lemma scan_cur s fs : cur s <= cur (fstep s (FScan fs)) <= cur s + 1.
Proof. cbn [fstep cur]. destruct (scan_res s fs); lia. Qed.

(* ---- marks only accumulate while the process lives ------------------------------------------------- *)
Definition keeps (i : item) : bool :=
  match i with ICrash _ | IFault _ | IRestart => false | _ => true end.

Lemma step_keeps s i :
  keeps i = true ->
  chain (step s i) = chain s ++ match i with IAppend b => [b] | _ => [] end /\ base (step s i) = base s /\
  (forall id, mget (hm s) id <> None -> mget (hm (step s i)) id <> None) /\
  (forall id, mget (dm s) id <> None -> mget (dm (step s i)) id <> None).
Proof.
  destruct i as [b|i' da|i' da| |k|k|]; intros Hk; try discriminate Hk; cbn [step chain base hm dm].
  - repeat split; auto.
  - rewrite app_nil_r. repeat split; auto. intros id H. cbn [mget]. destruct (id =? i'); [discriminate | exact H].
  - rewrite app_nil_r. repeat split; auto. intros id H. cbn [mget]. destruct (id =? i'); [discriminate | exact H].
  - destruct (apply_effs_fields (include_effs s) s) as (A & B & C & _ & _ & F).
    rewrite A, B, C, F, app_nil_r. repeat split; auto.
Qed.

Definition is_mark (i : item) : bool := match i with IMarkH _ _ | IMarkD _ _ => true | _ => false end.

Lemma run_marks : forall its s, forallb is_mark its = true ->
  chain (run_from s its) = chain s /\ base (run_from s its) = base s /\
  (forall id, mget (hm s) id <> None -> mget (hm (run_from s its)) id <> None) /\
  (forall id, mget (dm s) id <> None -> mget (dm (run_from s its)) id <> None).
Proof.
  induction its as [|i its IH]; intros s H; [repeat split; auto|].
  cbn [forallb] in H. apply andb_true_iff in H as (Hi & H).
  unfold run_from in *. cbn [fold_left]. destruct (IH (step s i) H) as (A & B & C & D).
  assert (Hk : keeps i = true) by (destruct i; try discriminate Hi; reflexivity).
  destruct (step_keeps s i Hk) as (A' & B' & C' & D').
  rewrite A, B, A', B'. destruct i; try discriminate Hi; rewrite app_nil_r; repeat split; auto.
Qed.

Lemma mark_items_marks da bl : forallb is_mark (mark_items da bl) = true.
Proof. induction bl as [|[id|id|id|id|] r IH]; cbn; auto. Qed.

Lemma mark_items_cons da x r : mark_items da (x :: r) = mark_items da [x] ++ mark_items da r.
Proof. unfold mark_items. cbn [flat_map]. rewrite app_nil_r. reflexivity. Qed.

(* every genuine blob of the height gets its mark *)
Lemma marks_added : forall bl s da x, In x bl ->
  match x with
  | BH id => mget (hm (run_from s (mark_items da bl))) id <> None
  | BD id => mget (dm (run_from s (mark_items da bl))) id <> None
  | _ => True
  end.
Proof.
  induction bl as [|y r IH]; intros s da x Hin; [destruct Hin|].
  rewrite mark_items_cons, run_from_app.
  destruct Hin as [->|Hin]; [|apply IH, Hin].
  destruct (run_marks (mark_items da r) (run_from s (mark_items da [x])) (mark_items_marks da r)) as (_ & _ & C & D).
  destruct x as [id|id|id|id|]; [apply C|apply D|exact I|exact I|exact I]; cbn; rewrite N.eqb_refl; discriminate.
Qed.

Lemma in_mark_items da bl i :
  In i (mark_items da bl) ->
  match i with
  | IMarkH id d => d = da /\ In (BH id) bl
  | IMarkD id d => d = da /\ In (BD id) bl
  | _ => False
  end.
Proof.
  unfold mark_items. intros H. apply in_flat_map in H as (x & Hx & Hi).
  destruct x as [id|id|id|id|]; cbn in Hi; try destruct Hi as [<-|[]]; try (split; [reflexivity | exact Hx]); destruct Hi.
Qed.

(* ---- the invariant of a full node ------------------------------------------------------------------- *)
Definition marked (s : fnode) (x : blob) : Prop :=
  match x with
  | BH id => mget (hm (nd s)) id <> None
  | BD id => mget (dm (nd s)) id <> None
  | _ => True
  end.

Record FInv (s : fnode) : Prop := {
  f_sdah : sdah s = 0;                     (* the stored State.DAHeight never moves *)
  f_cur : cur s <= top s + 1;
  (* every genuine blob at a DA height the cursor has left behind is marked in this process's caches *)
  f_scanned : forall d x, d < cur s -> In x (content (dal s) d) -> marked s x
}.

Lemma finit_inv b : FInv (finit b).
Proof. constructor; [reflexivity | cbn; lia | cbn [finit cur]; intros d x Hd; lia]. Qed.

Lemma marked_keep s s' x :
  (forall id, mget (hm (nd s)) id <> None -> mget (hm (nd s')) id <> None) ->
  (forall id, mget (dm (nd s)) id <> None -> mget (dm (nd s')) id <> None) ->
  marked s x -> marked s' x.
Proof. intros A B. destruct x; cbn; auto. Qed.

Lemma fstep_inv s i : FInv s -> FInv (fstep s i).
Proof.
  intros [Hs Hc Hm].
  destruct i as [|b|bl|fs| |k|k|].
  - constructor; [exact Hs | exact Hc | exact Hm].
  - constructor; [exact Hs | exact Hc |].
    intros d x Hd Hx. cbn [fstep dal cur] in *.
    destruct (step_keeps (nd s) (IAppend b) eq_refl) as (_ & _ & C & D).
    eapply marked_keep; [| |apply (Hm d x Hd Hx)]; cbn [fstep nd items_of run_from fold_left]; [exact C | exact D].
  - constructor; [exact Hs | |].
    + unfold top in *. cbn [fstep dal cur]. rewrite app_length. cbn [length]. lia.
    + intros d x Hd Hx. cbn [fstep dal cur] in *. unfold top in Hc.
      rewrite content_app in Hx by lia. apply (Hm d x Hd Hx).
  - constructor; [exact Hs | |].
    + unfold top. cbn [fstep dal cur]. fold (top s).
      destruct (scan_cases s fs) as [E|(bl & E & Hle & _)]; rewrite E; lia.
    + intros d x Hd Hx. cbn [fstep dal cur] in Hd, Hx.
      destruct (scan_cases s fs) as [E|(bl & E & Hle & Ec)]; rewrite E in Hd.
      * unfold marked. cbn [fstep nd items_of]. rewrite E. apply (Hm d x Hd Hx).
      * destruct (run_marks (mark_items (cur s) bl) (nd s) (mark_items_marks _ _)) as (_ & _ & C & D).
        destruct (N.eq_dec d (cur s)) as [->|Hne].
        -- rewrite Ec in Hx. pose proof (marks_added bl (nd s) (cur s) x Hx) as M.
           unfold marked. cbn [fstep nd items_of]. rewrite E. exact M.
        -- assert (Hd' : d < cur s) by lia.
           eapply marked_keep; [| |apply (Hm d x Hd' Hx)]; cbn [fstep nd items_of]; rewrite E; [exact C | exact D].
  - constructor; [exact Hs | exact Hc |].
    intros d x Hd Hx. cbn [fstep dal cur] in *.
    destruct (step_keeps (nd s) IInclude eq_refl) as (_ & _ & C & D).
    eapply marked_keep; [| |apply (Hm d x Hd Hx)]; cbn [fstep nd items_of run_from fold_left]; [exact C | exact D].
  - constructor; [exact Hs | cbn [fstep cur]; rewrite Hs; lia | cbn [fstep cur]; rewrite Hs; intros d x Hd; lia].
  - constructor; [exact Hs | cbn [fstep cur]; rewrite Hs; lia | cbn [fstep cur]; rewrite Hs; intros d x Hd; lia].
  - constructor; [exact Hs | cbn [fstep cur]; rewrite Hs; lia | cbn [fstep cur]; rewrite Hs; intros d x Hd; lia].
Qed.

Lemma frun_from_inv : forall h s, FInv s -> FInv (frun_from s h).
Proof.
  induction h as [|i h IH]; intros s I; [exact I|].
  unfold frun_from in *. cbn [fold_left]. apply IH, fstep_inv, I.
Qed.

Theorem frun_inv : forall b h, FInv (frun b h).
Proof. intros b h. apply frun_from_inv, finit_inv. Qed.

(* ---- C07: where a restarted full node resumes the scan -------------------------------------------- *)
(* the stored State.DAHeight of a full node never moves, so every new process starts the scan at DA height 0:
   nothing on the DA layer is out of reach of a restarted node *)
Theorem resume : forall b h,
  sdah (frun b h) = 0 /\
  forall i, is_boot i = true -> cur (frun b (h ++ [i])) = 0.
Proof.
  intros b h. pose proof (f_sdah _ (frun_inv b h)) as Hs. split; [exact Hs|].
  intros i Hi. rewrite frun_snoc. destruct i; try discriminate Hi; cbn [fstep cur]; exact Hs.
Qed.

(* the scan never leaves a DA height without having marked its blobs, whatever the faults *)
Theorem scan_never_skips : forall b h d id, let s := frun b h in
  d < cur s ->
  (In (BH id) (content (dal s) d) -> mget (hm (nd s)) id <> None) /\
  (In (BD id) (content (dal s) d) -> mget (dm (nd s)) id <> None).
Proof.
  intros b h d id s Hd. pose proof (frun_inv b h) as I. fold s in I.
  split; intros Hx; apply (f_scanned _ I d _ Hd Hx).
Qed.

(* one iteration: the cursor stays or moves by one; it stays when the DA answered ten times with an error, or
   once with the from-the-future text; it moves only over an existing height *)
Theorem scan_step : forall s fs, let s' := fstep s (FScan fs) in
  (cur s' = cur s /\ nd s' = nd s) \/
  (cur s' = cur s + 1 /\ cur s <= top s /\ nd s' = run_from (nd s) (mark_items (cur s) (content (dal s) (cur s)))).
Proof.
  intros s fs s'. subst s'. cbn [fstep cur nd items_of].
  destruct (scan_cases s fs) as [E|(bl & E & Hle & Ec)]; rewrite E; [left; split; reflexivity|].
  right. rewrite Ec. repeat split; assumption.
Qed.

(* ---- C07: the marks of a full node are observations of blobs that are on the DA layer ------------------ *)
Lemma dal_grows s i : exists ext, dal (fstep s i) = dal s ++ ext.
Proof. destruct i; try (exists []; cbn [fstep dal]; rewrite app_nil_r; reflexivity). exists [bl]. reflexivity. Qed.

Lemma content_stable s i h x : In x (content (dal s) h) -> In x (content (dal (fstep s i)) h).
Proof.
  intros H. destruct i; try exact H. cbn [fstep dal]. rewrite content_app; [exact H|].
  apply content_in in H. lia.
Qed.

Theorem marks_on_da : forall b h i,
  In i (ftrace (finit b) h) ->
  match i with
  | IMarkH id da => In (BH id) (content (dal (frun b h)) da)
  | IMarkD id da => In (BD id) (content (dal (frun b h)) da)
  | _ => True
  end.
Proof.
  intros b. induction h as [|j h IH] using rev_ind; intros i Hi; [destruct Hi|].
  rewrite ftrace_snoc in Hi. rewrite frun_snoc. apply in_app_or in Hi as [Hi|Hi].
  - specialize (IH i Hi). destruct i; try exact I; apply content_stable, IH.
  - destruct j as [|x|bl|fs| |k|k|]; cbn [items_of] in Hi;
      try (destruct Hi as [<-|[]]; exact I); try destruct Hi.
    destruct (scan_cases (frun b h) fs) as [E|(bl & E & Hle & Ec)]; rewrite E in Hi; [destruct Hi|].
    apply in_mark_items in Hi. cbn [fstep dal].
    destruct i as [x|id da|id da| |k|k|]; try (destruct Hi; fail); destruct Hi as (-> & Hin); rewrite Ec; exact Hin.
Qed.

(* every height a full node reports is a stored block whose header and (unless empty) data ARE on the DA layer at
   the DA heights recorded under rhb/<n>/h and rhb/<n>/d *)
Theorem fullnode_sound : forall b h n, let s := frun b h in
  b < n <= rep (nd s) ->
  exists x hda dda,
    block_at (nd s) n = Some x /\
    meta_get (meta (nd s)) (KH n) = Some hda /\ meta_get (meta (nd s)) (KT n) = Some dda /\
    In (BH (bh x)) (content (dal s) hda) /\
    (if bempty x then dda = hda else In (BD (bd x)) (content (dal s) dda)).
Proof.
  intros b h n s Hn. subst s. rewrite fullnode_refines in *.
  destruct (sound b (ftrace (finit b) h) n Hn) as (x & hda & dda & A & B & C & D & E).
  exists x, hda, dda. repeat split; try assumption.
  - apply (marks_on_da b h _ D).
  - destruct (bempty x); [exact E | apply (marks_on_da b h _ E)].
Qed.

(* ---- C07 liveness on a full node --------------------------------------------------------------------- *)
Lemma include_reaches h s n :
  QInv h s -> n <= sheight s ->
  (forall x, In x (firstn (N.to_nat (n - base s)) (chain s)) -> inclb (hm s) (dm s) x = true) ->
  n <= di (step s IInclude).
Proof.
  intros (I & HK) Hn Hg. cbn [step].
  rewrite (include_effs_ge s (i_base _ _ I)), di_incl.
  destruct (N.le_gt_cases n (di s)) as [Hle|Hgt]; [lia|].
  pose proof (i_le _ _ I) as Hdi. pose proof (i_base _ _ I) as Hbase. unfold sheight in *.
  assert (Hlead : (N.to_nat (n - di s) <= lead (hm s) (dm s) (skipn (N.to_nat (di s - base s)) (chain s)))%nat).
  { apply lead_ge; [rewrite skipn_length; lia|].
    intros j x Hj Hx. rewrite nth_error_skipn' in Hx.
    apply Hg. eapply nth_error_in_firstn; [exact Hx | lia]. }
  lia.
Qed.

Lemma n_served_cons fs fss : n_served (fs :: fss) = (if served retries fs then 1 else 0) + n_served fss.
Proof. unfold n_served. cbn [filter]. destruct (served retries fs); cbn [length]; lia. Qed.

(* scanning: every iteration whose faults are transient moves the cursor until it has passed the tip *)
Lemma scans_progress : forall fss s, FInv s ->
  let s' := frun_from s (map FScan fss) in
  dal s' = dal s /\ chain (nd s') = chain (nd s) /\ base (nd s') = base (nd s) /\
  (top s + 1 <= cur s + n_served fss -> top s < cur s').
Proof.
  induction fss as [|fs fss IH]; intros s I; cbn zeta.
  - cbn. repeat split; try reflexivity. unfold n_served; cbn. lia.
  - cbn [map]. unfold frun_from in *. cbn [fold_left].
    set (s1 := fstep s (FScan fs)).
    assert (I1 : FInv s1) by (apply fstep_inv, I).
    destruct (IH s1 I1) as (A & B & C & D).
    assert (Hd : dal s1 = dal s) by reflexivity.
    assert (Hcb : chain (nd s1) = chain (nd s) /\ base (nd s1) = base (nd s)).
    { unfold s1. rewrite fstep_nd. cbn [items_of]. destruct (scan_res s fs) as [|bl]; [split; reflexivity|].
      destruct (run_marks (mark_items (cur s) bl) (nd s) (mark_items_marks _ _)) as (X & Y & _). split; assumption. }
    destruct Hcb as (Hc1 & Hb1).
    rewrite A, B, C, Hd, Hc1, Hb1. repeat split; try reflexivity.
    intros Hn. rewrite n_served_cons in Hn.
    assert (Ht : top s1 = top s) by reflexivity.
    rewrite <- Ht. apply D. rewrite Ht.
    pose proof (scan_cur s fs) as Hcur. fold s1 in Hcur.
    destruct (served retries fs) eqn:Es; [|lia].
    destruct (N.le_gt_cases (cur s) (top s)) as [Hle|Hgt]; [|lia].
    pose proof (scan_served s fs Es Hle) as E1. fold s1 in E1. lia.
Qed.

(* For EVERY history of a full node — any interleaving of blocks being applied, blobs appearing on the DA layer,
   scan iterations under any fault sequence, includer runs, deaths inside an includer run, failing writes,
   clean restarts — : once both parts of every block up to n are on the DA layer, any further scan iterations
   of which enough meet only transient faults (fewer than ten, none "from the future") to reach the tip, followed
   by one includer run, make the node report at least n. *)
Theorem fullnode_eventually : forall b h n fss, let s := frun b h in
  n <= sheight (nd s) ->
  forallb (on_da (dal s)) (firstn (N.to_nat (n - b)) (chain (nd s))) = true ->
  top s + 1 <= cur s + n_served fss ->
  n <= rep (nd (frun b (h ++ map FScan fss ++ [FInclude]))).
Proof.
  intros b h n fss s Hn Hda Hfss.
  rewrite app_assoc, frun_snoc. rewrite fstep_nd. cbn [items_of run_from fold_left]. unfold rep.
  rewrite frun_app. fold s.
  destruct (scans_progress fss s (frun_inv b h)) as (A & B & C & D).
  set (s' := frun_from s (map FScan fss)) in *.
  assert (I' : FInv s') by (apply frun_from_inv, frun_inv).
  assert (Es' : s' = frun b (h ++ map FScan fss)) by (rewrite frun_app; reflexivity).
  destruct (run_inv b (ftrace (finit b) (h ++ map FScan fss))) as (Q & Hb).
  rewrite <- fullnode_refines, <- Es' in Q, Hb.
  assert (Hbs : base (nd s) = b) by (rewrite <- C; exact Hb).
  apply (include_reaches _ _ n Q).
  - unfold sheight in *. rewrite B, C. exact Hn.
  - intros x Hx. rewrite B, Hb in Hx.
    rewrite forallb_forall in Hda. specialize (Hda x Hx). unfold on_da in Hda.
    apply andb_true_iff in Hda as (Hh & Hd).
    specialize (D Hfss).
    assert (M : forall y, da_has (dal s) y = true -> marked s' y).
    { intros y Hy. destruct (da_has_content _ _ Hy) as (d & Hdr & Hin).
      apply (f_scanned _ I' d y); [unfold top in D; lia | rewrite A; exact Hin]. }
    unfold inclb. pose proof (M _ Hh) as Mh. cbn [marked] in Mh.
    destruct (mget (hm (nd s')) (bh x)); [|congruence].
    destruct (bempty x); [reflexivity|]. cbn [orb] in *.
    pose proof (M _ Hd) as Md. cbn [marked] in Md.
    destruct (mget (dm (nd s')) (bd x)); [reflexivity | congruence].
Qed.

(* ---- the safety theorems of Model/Includer.v, read on full-node histories ----------------------------- *)
Theorem fullnode_monotone : forall b h h', rep (nd (frun b h)) <= rep (nd (frun b (h ++ h'))).
Proof.
  intros b h h'. rewrite !fullnode_refines, ftrace_app. apply monotone_run.
Qed.

Theorem fullnode_safety : forall b h, let s := nd (frun b h) in
  b <= rep s <= sheight s /\
  desc b (dputs (tr s)) (rep s) /\
  (exists m, (m = rep s \/ m = rep s + 1) /\ finsok b (fins (tr s)) m) /\
  asked_before (tr s) /\ persisted_before (tr s) /\
  kd s = rep s.
Proof. intros b h. cbn zeta. rewrite fullnode_refines. apply safety. Qed.

(* ---- an adversarial DA layer: forged copies of headers / signed data are so much junk ------------------ *)
(* [unforge] replaces every forged copy by an arbitrary byte string.  Nothing the node does or reports depends on
   the difference, whatever it has seen, applied or marked before: a forged copy marks nothing, moves the cursor
   exactly as junk does, and the DA-included height, the effect log, the metadata and the caches are the same. *)
Definition unforge_listing (l : listing) : listing :=
  match l with LBlobs bl => LBlobs (map unforge bl) | _ => l end.
Definition unforge_pres (p : pres) : pres :=
  match p with PAdv bl => PAdv (map unforge bl) | PStay => PStay end.

Lemma mark_items_unforge da bl : mark_items da (map unforge bl) = mark_items da bl.
Proof.
  induction bl as [|x r IH]; [reflexivity|].
  cbn [map]. rewrite (mark_items_cons da (unforge x)), (mark_items_cons da x), IH.
  destruct x; reflexivity.
Qed.

Lemma proc_unforge : forall n l fs, proc n (unforge_listing l) fs = unforge_pres (proc n l fs).
Proof.
  induction n as [|n IH]; intros l fs; [reflexivity|].
  cbn [proc]. destruct fs as [|[fut|nf fut] r].
  - destruct l; reflexivity.
  - destruct fut; [reflexivity | apply IH].
  - destruct l; cbn [unforge_listing honest unforge_pres]; try reflexivity.
    destruct fut; [reflexivity | apply (IH (LBlobs bl))].
Qed.

Lemma content_unforge d h : content (map (map unforge) d) h = map unforge (content d h).
Proof.
  unfold content. destruct (h =? 0); [reflexivity|].
  change (@nil blob) with (map unforge []) at 1. apply map_nth.
Qed.

(* the two runs side by side *)
Definition unforged (s s' : fnode) : Prop :=
  nd s' = nd s /\ cur s' = cur s /\ sdah s' = sdah s /\ dal s' = map (map unforge) (dal s).

Lemma listing_unforged s s' : unforged s s' -> listing_at s' = unforge_listing (listing_at s).
Proof.
  intros (_ & Hc & _ & Hd). unfold listing_at, top. rewrite Hd, Hc, map_length, content_unforge.
  destruct (N.of_nat (length (dal s)) <? cur s); [reflexivity|].
  destruct (content (dal s) (cur s)); reflexivity.
Qed.

Lemma items_unforged s s' i : unforged s s' -> items_of s' (unforge_item i) = items_of s i.
Proof.
  intros U. destruct i; try reflexivity.
  cbn [unforge_item items_of]. unfold scan_res. rewrite (listing_unforged _ _ U), proc_unforge.
  destruct U as (_ & Hc & _). rewrite Hc.
  destruct (proc retries (listing_at s) fs); cbn [unforge_pres]; [reflexivity | apply mark_items_unforge].
Qed.

Lemma fstep_unforged s s' i : unforged s s' -> unforged (fstep s i) (fstep s' (unforge_item i)).
Proof.
  intros U. pose proof (items_unforged _ _ i U) as Hi.
  assert (Hn : nd (fstep s' (unforge_item i)) = nd (fstep s i)).
  { rewrite !fstep_nd, Hi. destruct U as (-> & _). reflexivity. }
  pose proof U as (Un & Uc & Us & Ud).
  split; [exact Hn|].
  destruct i; cbn [unforge_item fstep cur sdah dal]; repeat split; try assumption.
  - rewrite Ud, map_app. reflexivity.
  - unfold scan_res. rewrite (listing_unforged _ _ U), proc_unforge, Uc.
    destruct (proc retries (listing_at s) fs); reflexivity.
Qed.

Lemma frun_from_unforged : forall h s s', unforged s s' ->
  unforged (frun_from s h) (frun_from s' (map unforge_item h)).
Proof.
  induction h as [|i h IH]; intros s s' U; [exact U|].
  unfold frun_from in *. cbn [map fold_left]. apply IH, fstep_unforged, U.
Qed.

Theorem forged_blobs_are_junk : forall b h,
  let s := frun b h in let s' := frun b (map unforge_item h) in
  nd s' = nd s /\ cur s' = cur s /\ sdah s' = sdah s /\ dal s' = map (map unforge) (dal s).
Proof.
  intros b h. cbn zeta. apply (frun_from_unforged h (finit b) (finit b)).
  repeat split; reflexivity.
Qed.

(* a header mark never comes from a forged copy: where a mark event names DA height da, the GENUINE blob is there
   (BF id / BG id are other constructors than BH id / BD id) — and a DA height that holds only forged copies of a
   header leaves it unmarked *)
Lemma mark_items_forged_only da bl : forallb is_forged bl = true -> mark_items da bl = [].
Proof.
  induction bl as [|x r IH]; [reflexivity|]. cbn [forallb]. intros H. apply andb_true_iff in H as (Hx & Hr).
  rewrite mark_items_cons, (IH Hr). destruct x; try discriminate Hx; reflexivity.
Qed.

Theorem forged_only_height_marks_nothing : forall b h fs, let s := frun b h in
  forallb is_forged (content (dal s) (cur s)) = true ->
  nd (fstep s (FScan fs)) = nd s.
Proof.
  intros b h fs s Hf. rewrite fstep_nd. cbn [items_of]. unfold scan_res.
  destruct (proc retries (listing_at s) fs) as [|bl] eqn:E; [reflexivity|].
  apply proc_adv in E. unfold listing_at in E.
  destruct (top s <? cur s); [destruct E as [(E & _)|E]; discriminate E|].
  destruct (content (dal s) (cur s)) as [|x r] eqn:Ec.
  - destruct E as [(_ & ->)|E]; [reflexivity | discriminate E].
  - destruct E as [(E & _)|E]; [discriminate E|]. injection E as <-.
    rewrite (mark_items_forged_only _ _ Hf). reflexivity.
Qed.
