(* Proofs/ProxyMemProofs.v — lemmas about Model/ProxyMem.v (C16: the client over Go's slice memory; sequences
   of submissions that re-use the caller's slice). *)
From Coq Require Import NArith List Bool Arith Lia ZifyBool ZifyN ZifyNat.
From Verif Require Import Model.Proxy Model.ProxyMem Proofs.ProxyProofs.
Import ListNotations.
Open Scope list_scope.

(* ---- lists ------------------------------------------------------------------------------------------------- *)
Lemma set_nth_length : forall A i (x : A) l, length (set_nth i x l) = length l.
Proof. intros A i x l; revert i; induction l as [|y r IH]; intros [|i]; cbn [set_nth length]; try reflexivity. rewrite IH; reflexivity. Qed.

Lemma set_nth_overflow : forall A i (x : A) l, (length l <= i)%nat -> set_nth i x l = l.
Proof.
  intros A i x l; revert i; induction l as [|y r IH]; intros [|i] H; cbn [set_nth length] in *; try reflexivity; [lia|].
  rewrite IH by lia; reflexivity.
Qed.

Lemma nth_set_nth_eq : forall A i (x d : A) l, (i < length l)%nat -> nth i (set_nth i x l) d = x.
Proof.
  intros A i x d l; revert i; induction l as [|y r IH]; intros [|i] H; cbn [set_nth length nth] in *; try lia; [reflexivity|].
  apply IH; lia.
Qed.

Lemma nth_set_nth_neq : forall A i j (x d : A) l, i <> j -> nth j (set_nth i x l) d = nth j l d.
Proof.
  intros A i j x d l; revert i j; induction l as [|y r IH]; intros [|i] [|j] H; cbn [set_nth nth]; try reflexivity; [lia|].
  apply IH; lia.
Qed.

Lemma skipn_set_nth : forall A o i (x : A) l, skipn o (set_nth (o + i) x l) = set_nth i x (skipn o l).
Proof.
  intros A o; induction o as [|o IH]; intros i x l; [reflexivity|].
  destruct l as [|y r]; [destruct i; reflexivity|].
  cbn [Nat.add set_nth skipn]; apply IH.
Qed.

Lemma firstn_set_nth_S : forall A i (x : A) l, (i < length l)%nat -> firstn (S i) (set_nth i x l) = firstn i l ++ [x].
Proof.
  intros A i x l; revert i; induction l as [|y r IH]; intros [|i] H; cbn [length] in H; try lia; [reflexivity|].
  cbn [set_nth]. change (firstn (S (S i)) (y :: set_nth i x r)) with (y :: firstn (S i) (set_nth i x r)).
  rewrite IH by lia; reflexivity.
Qed.

Lemma firstn_skipn_S : forall A n k (d : A) l, (n < length l)%nat ->
  firstn (S k) (skipn n l) = nth n l d :: firstn k (skipn (S n) l).
Proof.
  intros A n; induction n as [|n IH]; intros k d l H; destruct l as [|y r]; cbn [length] in H; try lia; [reflexivity|].
  cbn [skipn nth]. rewrite (IH k d r) by lia. reflexivity.
Qed.

Lemma skipn_add : forall A a b (l : list A), skipn a (skipn b l) = skipn (b + a) l.
Proof.
  intros A a b; revert a; induction b as [|b IH]; intros a l; [reflexivity|].
  destruct l as [|y r]; [rewrite !skipn_nil; reflexivity|]. cbn [Nat.add skipn]; apply IH.
Qed.

(* ---- the heap ---------------------------------------------------------------------------------------------- *)
Lemma store_length : forall h a i b, length (store h a i b) = length h.
Proof. intros; unfold store; apply set_nth_length. Qed.

Lemma arr_store_eq : forall h a i b, arr (store h a i b) a = set_nth i b (arr h a).
Proof.
  intros h a i b; unfold store, arr at 1.
  destruct (Nat.lt_ge_cases a (length h)) as [L|G].
  - apply nth_set_nth_eq; exact L.
  - rewrite set_nth_overflow by exact G. unfold arr; rewrite (nth_overflow h [] G). destruct i; reflexivity.
Qed.

Lemma arr_store_neq : forall h a a' i b, a <> a' -> arr (store h a i b) a' = arr h a'.
Proof. intros; unfold store, arr at 1; rewrite nth_set_nth_neq by assumption; reflexivity. Qed.

Lemma arr_app_old : forall h x a, (a < length h)%nat -> arr (h ++ [x]) a = arr h a.
Proof. intros; unfold arr; apply app_nth1; assumption. Qed.

Lemma arr_app_new : forall h x, arr (h ++ [x]) (length h) = x.
Proof. intros; unfold arr; rewrite app_nth2 by lia; rewrite Nat.sub_diag; reflexivity. Qed.

Lemma read_length : forall h s, wf_slice h s -> length (read h s) = s_len s.
Proof.
  intros h s (_ & W2 & W3); unfold read. rewrite firstn_length, skipn_length. lia.
Qed.

(* ---- append ------------------------------------------------------------------------------------------------ *)
Lemma append1_spec : forall h s b, wf_slice h s ->
  let h' := fst (append1 h s b) in let s' := snd (append1 h s b) in
  wf_slice h' s'
  /\ read h' s' = read h s ++ [b]
  /\ (forall a, (a < length h)%nat -> a <> s_addr s -> arr h' a = arr h a)
  /\ (length h <= length h')%nat
  /\ (s_addr s' = s_addr s \/ s_addr s' = length h).
Proof.
  intros h s b W; pose proof (read_length h s W) as RL; destruct W as (W1 & W2 & W3).
  unfold append1. destruct (s_len s <? s_cap s) eqn:E; cbn [fst snd].
  - apply Nat.ltb_lt in E.
    split; [|split; [|split; [|split]]].
    + unfold wf_slice; cbn [s_addr s_off s_len s_cap]. rewrite store_length, arr_store_eq, set_nth_length. lia.
    + unfold read; cbn [s_addr s_off s_len]. rewrite arr_store_eq, skipn_set_nth.
      apply firstn_set_nth_S. rewrite skipn_length; lia.
    + intros a _ Ha; apply arr_store_neq; congruence.
    + rewrite store_length; lia.
    + left; reflexivity.
  - apply Nat.ltb_ge in E.
    split; [|split; [|split; [|split]]].
    + unfold wf_slice; cbn [s_addr s_off s_len s_cap]. rewrite arr_app_new, !app_length.
      cbn [length]. rewrite repeat_length, RL. lia.
    + unfold read at 1; cbn [s_addr s_off s_len]. rewrite arr_app_new. cbn [skipn].
      rewrite firstn_app, RL. replace (S (s_len s) - s_len s)%nat with 1%nat by lia.
      rewrite firstn_all2 by lia. reflexivity.
    + intros a Ha _; apply arr_app_old; exact Ha.
    + rewrite app_length; cbn [length]; lia.
    + right; reflexivity.
Qed.

(* ---- the filter on blobs: Model/Proxy.v's filter_loop, keeping the blobs -------------------------------------- *)
Fixpoint filter_blobs (max cur : N) (l : list blob) : list blob * bool :=
  match l with
  | [] => ([], false)
  | b :: r =>
      if (max <? bsize b)%N then (fst (filter_blobs max cur r), true)
      else if (max <? cur + bsize b)%N then ([], false)
      else let p := filter_blobs max (cur + bsize b)%N r in (b :: fst p, snd p)
  end.

Lemma filter_blobs_sizes : forall l max cur,
  filter_loop max cur (map bsize l) = (map bsize (fst (filter_blobs max cur l)), snd (filter_blobs max cur l)).
Proof.
  induction l as [|b r IH]; intros max cur; cbn [map filter_loop filter_blobs]; [reflexivity|].
  destruct (max <? bsize b)%N; [rewrite IH; reflexivity|].
  destruct (max <? cur + bsize b)%N; [reflexivity|].
  rewrite IH; reflexivity.
Qed.

Lemma filter_blobs_prefix : forall l max cur, snd (filter_blobs max cur l) = false ->
  exists k, fst (filter_blobs max cur l) = firstn k l.
Proof.
  induction l as [|b r IH]; intros max cur H; cbn [filter_blobs] in *; [exists 0%nat; reflexivity|].
  destruct (max <? bsize b)%N; [discriminate|].
  destruct (max <? cur + bsize b)%N; [exists 0%nat; reflexivity|].
  cbn [fst snd] in *. destruct (IH _ _ H) as [k Hk]; exists (S k); rewrite Hk; reflexivity.
Qed.

(* ---- the client's loop over the heap --------------------------------------------------------------------------
   [n0]: the arrays below it existed when the call began; [dst] lives at or above it, [inp] below it. *)
Lemma mem_loop_spec : forall k max cur h inp dst i over n0,
  wf_slice h dst -> (n0 <= s_addr dst)%nat -> (s_addr inp < n0)%nat ->
  (s_off inp + i + k <= length (arr h (s_addr inp)))%nat ->
  let L := firstn k (skipn (s_off inp + i) (arr h (s_addr inp))) in
  let r := mem_loop max cur h inp dst i k over in
  (forall a, (a < n0)%nat -> arr (fst (fst r)) a = arr h a)
  /\ (length h <= length (fst (fst r)))%nat
  /\ read (fst (fst r)) (snd (fst r)) = read h dst ++ fst (filter_blobs max cur L)
  /\ snd r = over || snd (filter_blobs max cur L).
Proof.
  induction k as [|k IH]; intros max cur h inp dst i over n0 Wd Hn0 Hin Hlen L r; subst L r.
  - cbn [mem_loop firstn filter_blobs fst snd]. rewrite app_nil_r, orb_false_r. repeat split; try reflexivity; lia.
  - rewrite (firstn_skipn_S _ _ k nil_blob) by lia.
    cbn [mem_loop filter_blobs]. unfold index.
    set (b := nth (s_off inp + i) (arr h (s_addr inp)) nil_blob).
    replace (S (s_off inp + i)) with (s_off inp + S i)%nat by lia.
    destruct (max <? bsize b)%N.
    + destruct (IH max cur h inp dst (S i) true n0 Wd Hn0 Hin ltac:(lia)) as (I1 & I2 & I3 & I4).
      cbn [fst snd]. rewrite orb_true_r. repeat split; assumption.
    + destruct (max <? cur + bsize b)%N.
      * cbn [fst snd]. rewrite app_nil_r, orb_false_r. repeat split; try reflexivity; lia.
      * destruct (append1_spec h dst b Wd) as (A1 & A2 & A3 & A4 & A5).
        assert (Hd : (s_addr dst < length h)%nat) by (destruct Wd; assumption).
        assert (Harr : arr (fst (append1 h dst b)) (s_addr inp) = arr h (s_addr inp)) by (apply A3; lia).
        assert (Hn0' : (n0 <= s_addr (snd (append1 h dst b)))%nat) by (destruct A5 as [->| ->]; lia).
        pose proof (IH max (cur + bsize b)%N (fst (append1 h dst b)) inp (snd (append1 h dst b)) (S i) over n0
                      A1 Hn0' Hin ltac:(rewrite Harr; lia)) as IH'.
        rewrite Harr in IH'. destruct IH' as (I1 & I2 & I3 & I4).
        cbn [fst snd]. split; [|split; [|split]].
        -- intros a Ha; rewrite I1 by exact Ha; apply A3; lia.
        -- lia.
        -- rewrite I3, A2, <- app_assoc; reflexivity.
        -- exact I4.
Qed.

Lemma mem_filter_spec : forall max h inp, wf_slice h inp ->
  let r := mem_filter max h inp in
  (forall a, (a < length h)%nat -> arr (fst (fst r)) a = arr h a)
  /\ (length h <= length (fst (fst r)))%nat
  /\ read (fst (fst r)) (snd (fst r)) = fst (filter_blobs max 0 (read h inp))
  /\ snd r = snd (filter_blobs max 0 (read h inp)).
Proof.
  intros max h inp (W1 & W2 & W3) r; subst r; unfold mem_filter, make0; cbn [fst snd].
  set (h0 := h ++ [repeat nil_blob (s_len inp)]).
  set (dst := mk_slice (length h) 0 0 (s_len inp)).
  assert (Wd : wf_slice h0 dst).
  { unfold wf_slice, dst, h0; cbn [s_addr s_off s_len s_cap]. rewrite arr_app_new, app_length, repeat_length; cbn [length]; lia. }
  assert (Harr : arr h0 (s_addr inp) = arr h (s_addr inp)) by (apply arr_app_old; exact W1).
  assert (Hn0 : (length h <= s_addr dst)%nat) by (unfold dst; cbn [s_addr]; lia).
  assert (Hl : (s_off inp + 0 + s_len inp <= length (arr h0 (s_addr inp)))%nat) by (rewrite Harr; lia).
  pose proof (mem_loop_spec (s_len inp) max 0 h0 inp dst 0 false (length h) Wd Hn0 W1 Hl) as S.
  cbn zeta in S. rewrite Harr, Nat.add_0_r in S. destruct S as (S1 & S2 & S3 & S4).
  split; [|split; [|split]].
  - intros a Ha; rewrite S1 by exact Ha; apply arr_app_old; exact Ha.
  - assert (L0 : length h0 = S (length h)) by (unfold h0; rewrite app_length; cbn [length]; lia). lia.
  - rewrite S3. unfold read at 1, dst; cbn [s_len firstn app]. reflexivity.
  - rewrite S4; reflexivity.
Qed.

(* ---- one call: the helper's result and what reaches the DA are Model/Proxy.v's, every array that existed
   before the call holds what it held ------------------------------------------------------------------------ *)
Lemma proxied_submit_mem_spec : forall T max b cancelled h inp, wf_slice h inp ->
  let r := proxied_submit_mem T max b cancelled h inp in
  (fst (fst r), map (map bsize) (snd (fst r))) = proxied_submit T max b cancelled (map bsize (read h inp))
  /\ (forall a, (a < length h)%nat -> arr (snd r) a = arr h a)
  /\ (length h <= length (snd r))%nat
  /\ (forall l, In l (snd (fst r)) -> exists k, l = firstn k (read h inp)).
Proof.
  intros T max b cancelled h inp W r; subst r.
  destruct (mem_filter_spec max h inp W) as (F1 & F2 & F3 & F4).
  pose proof (read_length h inp W) as RL.
  unfold proxied_submit_mem, proxied_submit.
  destruct (mem_filter max h inp) as [[h1 dst] over]; cbn [fst snd] in F1, F2, F3, F4.
  rewrite filter_blobs_sizes, map_length, RL; cbn [fst snd]. rewrite <- F4, <- F3.
  destruct over.
  - cbn [fst snd map]. repeat split; try assumption. intros g [].
  - destruct (read h1 dst) as [|y t] eqn:R.
    + cbn [map]. destruct (s_len inp) eqn:EL.
      * destruct (read h inp) as [|? ?] eqn:RI; [|cbn [length] in RL; lia].
        cbn [fst snd map]. repeat split; try assumption. intros g [].
      * destruct (read h inp) as [|? ?] eqn:RI; [cbn [length] in RL; lia|].
        cbn [fst snd map]. repeat split; try assumption. intros g [].
    + cbn [map]. unfold rpc_submit. destruct cancelled; cbn [fst snd map].
      * repeat split; try assumption. intros g [].
      * repeat split; try assumption.
        intros g [<-|[]]. symmetry in F4. destruct (filter_blobs_prefix _ _ _ F4) as [k Hk].
        exists k; rewrite <- Hk; exact F3.
Qed.

Lemma direct_submit_mem_spec : forall T b cancelled h inp,
  let r := direct_submit_mem T b cancelled h inp in
  (fst (fst r), map (map bsize) (snd (fst r))) = direct_submit T b cancelled (map bsize (read h inp))
  /\ snd r = h.
Proof. intros; subst r; unfold direct_submit_mem, direct_submit; destruct cancelled; split; reflexivity. Qed.

(* ---- sub-slices ------------------------------------------------------------------------------------------------ *)
Lemma slice_from_wf : forall h s k, wf_slice h s -> wf_slice h (slice_from s k).
Proof. intros h s k (W1 & W2 & W3); unfold wf_slice, slice_from; cbn [s_addr s_off s_len s_cap]; lia. Qed.

Lemma read_slice_from : forall h s k, wf_slice h s -> read h (slice_from s k) = skipn k (read h s).
Proof.
  intros h s k W; pose proof (read_length h s W) as RL.
  unfold read, slice_from; cbn [s_addr s_off s_len].
  destruct (Nat.le_gt_cases k (s_len s)) as [L|G].
  - rewrite Nat.min_l by exact L. rewrite skipn_firstn_comm, skipn_add; reflexivity.
  - rewrite Nat.min_r by lia. rewrite Nat.sub_diag; cbn [firstn].
    symmetry; apply skipn_all2. unfold read in RL; lia.
Qed.

Lemma wf_slice_frame : forall h h' s, wf_slice h s ->
  (forall a, (a < length h)%nat -> arr h' a = arr h a) -> (length h <= length h')%nat -> wf_slice h' s.
Proof. intros h h' s (W1 & W2 & W3) F L; unfold wf_slice; rewrite F by exact W1; lia. Qed.

Lemma read_frame : forall h h' s, (s_addr s < length h)%nat ->
  (forall a, (a < length h)%nat -> arr h' a = arr h a) -> read h' s = read h s.
Proof. intros h h' s W F; unfold read; rewrite F by exact W; reflexivity. Qed.

(* ---- sequences ------------------------------------------------------------------------------------------------- *)
Definition obs_of (x : step_out) : sobs := fst (fst x).
Definition sizes_of (x : step_out) : sobs * list (list N) := (fst (fst x), map (map bsize) (snd (fst x))).

(* a sequence of attempts on one slice is answered call by call as the memory-less client of Model/Proxy.v
   answers, and after every call the caller's array holds what it held before the first *)
Lemma attempts_stateless : forall T max l h s, wf_slice h s ->
  map sizes_of (proxied_attempts T max h s l) = spec_attempts T max (read h s) l
  /\ Forall (fun x => snd x = arr h (s_addr s)) (proxied_attempts T max h s l)
  /\ Forall (fun x => forall lg, In lg (snd (fst x)) -> exists j k, lg = firstn k (skipn j (read h s))) (proxied_attempts T max h s l).
Proof.
  intros T max l; induction l as [|a r IH]; intros h s W; cbn [proxied_attempts spec_attempts map]; [repeat split; constructor|].
  pose proof (slice_from_wf h s (a_skip a) W) as W'.
  destruct (proxied_submit_mem_spec T max (a_back a) (a_cancel a) h _ W') as (P1 & P2 & P3 & P4).
  destruct (proxied_submit_mem T max (a_back a) (a_cancel a) h (slice_from s (a_skip a))) as [[o lg] h'] eqn:E.
  cbn [fst snd] in P1, P2, P3, P4.
  assert (Wa : (s_addr s < length h)%nat) by (destruct W; assumption).
  assert (W'' : wf_slice h' (slice_from s (a_skip a))) by (eapply wf_slice_frame; eassumption).
  destruct (IH h' _ W'') as (I1 & I2 & I3).
  assert (Rd : read h' (slice_from s (a_skip a)) = skipn (a_skip a) (read h s)).
  { rewrite (read_frame h h') by (cbn [slice_from s_addr]; assumption). apply read_slice_from; exact W. }
  rewrite (read_slice_from h s _ W) in P1, P4.
  cbn [map]. split; [|split].
  - unfold sizes_of at 1; cbn [fst snd]. rewrite P1, I1, Rd; reflexivity.
  - constructor; [cbn [snd]; apply P2; exact Wa|].
    eapply Forall_impl; [|exact I2]. cbn beta; intros x ->.
    change (s_addr (slice_from s (a_skip a))) with (s_addr s). apply P2; exact Wa.
  - constructor.
    + cbn [fst snd]. intros g Hg; destruct (P4 g Hg) as [k ->]. exists (a_skip a), k; reflexivity.
    + eapply Forall_impl; [|exact I3]. cbn beta; intros x Hx g Hg.
      destruct (Hx g Hg) as (j & k & ->). rewrite Rd, skipn_add. exists (a_skip a + j)%nat, k; reflexivity.
Qed.

Lemma direct_attempts_stateless : forall T l h s, wf_slice h s ->
  map sizes_of (direct_attempts T h s l) = spec_direct_attempts T (read h s) l
  /\ Forall (fun x => snd x = arr h (s_addr s)) (direct_attempts T h s l).
Proof.
  intros T l; induction l as [|a r IH]; intros h s W; cbn [direct_attempts spec_direct_attempts map]; [split; constructor|].
  pose proof (slice_from_wf h s (a_skip a) W) as W'.
  destruct (IH h _ W') as (I1 & I2).
  unfold direct_submit_mem. cbn [map]. split.
  - unfold sizes_of at 1; cbn [fst snd]. rewrite I1, (read_slice_from h s _ W).
    unfold direct_submit; destruct (a_cancel a); reflexivity.
  - constructor; [reflexivity | exact I2].
Qed.

(* a plain retry (the very same slice at every attempt): every attempt is answered as a FIRST call that meets
   that backend behaviour would be *)
Lemma skipn_zero_spec : forall T max blobs l, (forall a, In a l -> a_skip a = 0%nat) ->
  spec_attempts T max blobs l = map (fun a => proxied_submit T max (a_back a) (a_cancel a) (map bsize blobs)) l.
Proof.
  intros T max blobs l; induction l as [|a r IH]; intros H; cbn [spec_attempts map]; [reflexivity|].
  rewrite (H a (or_introl eq_refl)); cbn [skipn]. rewrite IH by (intros; apply H; right; assumption). reflexivity.
Qed.

Lemma retry_answered_alike : forall T max h s l, wf_slice h s -> (forall a, In a l -> a_skip a = 0%nat) ->
  map sizes_of (proxied_attempts T max h s l)
  = map (fun a => proxied_submit T max (a_back a) (a_cancel a) (map bsize (read h s))) l.
Proof.
  intros T max h s l W H. destruct (attempts_stateless T max l h s W) as (A & _). rewrite A. apply skipn_zero_spec; exact H.
Qed.

(* a batch the client refuses (an individually oversize blob in it) is refused at every retry, whatever the
   backing DA would do, and nothing is sent *)
Lemma too_big_every_retry : forall T max h s l, wf_slice h s -> (forall a, In a l -> a_skip a = 0%nat) ->
  snd (filter_loop max 0 (map bsize (read h s))) = true ->
  Forall (fun x => sizes_of x = (too_big_obs, [])) (proxied_attempts T max h s l).
Proof.
  intros T max h s l W H Hover. apply Forall_forall. intros x Hx.
  apply (in_map sizes_of) in Hx. rewrite (retry_answered_alike T max h s l W H) in Hx.
  apply in_map_iff in Hx; destruct Hx as (a & <- & _).
  unfold proxied_submit; rewrite Hover; reflexivity.
Qed.

(* ---- direct and proxied agree over sequences ----------------------------------------------------------------- *)
Fixpoint attempts_ok (T : table) (max : N) (blobs : list blob) (l : list attempt) : Prop :=
  match l with
  | [] => True
  | a :: r => let bl := skipn (a_skip a) blobs in let sz := map bsize bl in
              (sumN sz <= max)%N /\ in_domain_answer T (a_back a sz)
              /\ (sz = [] -> a_cancel a = false /\ exists h, a_back a [] = SRes [] h)
              /\ attempts_ok T max bl r
  end.

Lemma spec_transparent : forall T, table_ok T = true -> forall max l blobs, attempts_ok T max blobs l ->
  map fst (spec_attempts T max blobs l) = map fst (spec_direct_attempts T blobs l).
Proof.
  intros T OK max l; induction l as [|a r IH]; intros blobs H; cbn [spec_attempts spec_direct_attempts map]; [reflexivity|].
  cbn [attempts_ok] in H; destruct H as (H1 & H2 & H3 & H4).
  rewrite (submit_transparent T OK (a_back a) max _ (a_cancel a) H1 H2 H3), (IH _ H4). reflexivity.
Qed.

Lemma map_fst_sizes_of : forall l, map fst (map sizes_of l) = map obs_of l.
Proof. intros l; rewrite map_map; reflexivity. Qed.

Lemma retry_transparent : forall T, table_ok T = true -> forall max h s l, wf_slice h s ->
  attempts_ok T max (read h s) l ->
  map obs_of (proxied_attempts T max h s l) = map obs_of (direct_attempts T h s l).
Proof.
  intros T OK max h s l W H.
  destruct (attempts_stateless T max l h s W) as (A & _). destruct (direct_attempts_stateless T l h s W) as (D & _).
  rewrite <- !map_fst_sizes_of, A, D. apply spec_transparent; assumption.
Qed.

(* the caller's batch as the harness lays it out *)
Lemma batch_from_length : forall sizes i, length (batch_from i sizes) = length sizes.
Proof. induction sizes as [|x r IH]; intros i; cbn [batch_from length]; [reflexivity | rewrite IH; reflexivity]. Qed.

Lemma batch_from_sizes : forall sizes i, map bsize (batch_from i sizes) = sizes.
Proof. induction sizes as [|x r IH]; intros i; cbn [batch_from map]; [reflexivity | rewrite IH; reflexivity]. Qed.

Lemma caller_wf : forall sizes, wf_slice (caller_heap sizes) (caller_slice sizes).
Proof. intros; unfold wf_slice, caller_heap, caller_slice, batch; cbn [s_addr s_off s_len s_cap length arr nth]. rewrite batch_from_length; lia. Qed.

Lemma caller_read : forall sizes, read (caller_heap sizes) (caller_slice sizes) = batch sizes.
Proof.
  intros; unfold read, caller_heap, caller_slice, arr; cbn [s_addr s_off s_len nth skipn].
  apply firstn_all2. unfold batch; rewrite batch_from_length; lia.
Qed.
