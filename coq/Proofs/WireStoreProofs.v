(* Proofs/WireStoreProofs.v — the block-store path (Model/WireStore.v): what a read returns is the decoding of the
   bytes the datastore holds, whatever was read before and whatever happened to the values handed out; what was
   written last is what is read, for every history over one datastore. *)
From Coq Require Import NArith ZArith List Bool Lia.
From Verif Require Import Model.Wire Model.WireCache Model.WireStore Proofs.WireProofs Proofs.WireCacheProofs.
Import ListNotations.
Open Scope N_scope.

Section WithPubKeys.
Variable pk : bytes -> option bytes.

(* ---- reads (and a reopen) leave the datastore alone ---- *)
Lemma sstep_read_db : forall db o, is_write o = false -> fst (sstep pk db o) = db.
Proof. intros db [v| |sh d sg|h|h|h|] H; cbn in *; try reflexivity; discriminate. Qed.

Lemma sexec_cons : forall db o ops, sexec pk db (o :: ops) = sexec pk (fst (sstep pk db o)) ops.
Proof. reflexivity. Qed.

Lemma sexec_app : forall db a b, sexec pk db (a ++ b) = sexec pk (sexec pk db a) b.
Proof. intros. unfold sexec. apply fold_left_app. Qed.

Lemma sexec_reads : forall mid db, forallb (fun o => negb (is_write o)) mid = true -> sexec pk db mid = db.
Proof.
  induction mid as [|o mid IH]; intros db H; [reflexivity|].
  cbn [forallb] in H. apply andb_true_iff in H. destruct H as [H1 H2]. apply negb_true_iff in H1.
  rewrite sexec_cons, (sstep_read_db db o H1). apply IH. exact H2.
Qed.

(* a read gives the same answer however many reads (and reopens) came in between *)
Lemma read_repeatable : forall db mid o, forallb (fun o => negb (is_write o)) mid = true ->
  snd (sstep pk (sexec pk db mid) o) = snd (sstep pk db o).
Proof. intros db mid o H. rewrite (sexec_reads mid db H). reflexivity. Qed.

(* the observation list is the list of the steps of [sexec] *)
Lemma srun_nth : forall ops db pre o post, ops = pre ++ o :: post ->
  nth_error (srun pk db ops) (length pre) =
  Some (snd (sstep pk (sexec pk db pre) o), fst (sstep pk (sexec pk db pre) o)).
Proof.
  intros ops db pre. revert ops db. induction pre as [|p pre IH]; intros ops db o post ->.
  - cbn [app srun length nth_error sexec fold_left]. destruct (sstep pk db o) as [db' r]. reflexivity.
  - cbn [app srun length]. destruct (sstep pk db p) as [db' r] eqn:E. cbn [nth_error].
    rewrite (IH _ db' o post eq_refl). rewrite sexec_cons, E. reflexivity.
Qed.

(* a read is a function of the bytes under the key it reads *)
Lemma reads_from_stored_bytes : forall a b,
  (db_state a = db_state b -> get_state a = get_state b) /\
  (forall h, mget N.eqb (db_headers a) h = mget N.eqb (db_headers b) h -> get_header pk a h = get_header pk b h) /\
  (forall h, mget N.eqb (db_headers a) h = mget N.eqb (db_headers b) h ->
             mget N.eqb (db_datas a) h = mget N.eqb (db_datas b) h -> get_block pk a h = get_block pk b h) /\
  (forall h, mget N.eqb (db_sigs a) h = mget N.eqb (db_sigs b) h -> get_sig a h = get_sig b h).
Proof.
  intros a b. repeat split.
  - intro H. unfold get_state. rewrite H. reflexivity.
  - intros h H. unfold get_header. rewrite H. reflexivity.
  - intros h H1 H2. unfold get_block, get_header. rewrite H1, H2. reflexivity.
  - intros h H. exact H.
Qed.

(* ---- the state path ---- *)
Lemma sstep_keeps_state : forall db o, is_update_state o = false -> db_state (fst (sstep pk db o)) = db_state db.
Proof.
  intros db [v| |sh d sg|h|h|h|] H; cbn in *; try reflexivity; try discriminate.
  unfold save_block. destruct (marshal_signed_header sh); [|reflexivity]. destruct (marshal_data d); reflexivity.
Qed.

Lemma sexec_keeps_state : forall mid db, forallb (fun o => negb (is_update_state o)) mid = true ->
  db_state (sexec pk db mid) = db_state db.
Proof.
  induction mid as [|o mid IH]; intros db H; [reflexivity|].
  cbn [forallb] in H. apply andb_true_iff in H. destruct H as [H1 H2]. apply negb_true_iff in H1.
  rewrite sexec_cons, (IH _ H2). apply sstep_keeps_state. exact H1.
Qed.

Lemma update_state_ok : forall db v, wf_state v ->
  sstep pk db (SUpdateState v) =
  ({| db_state := Some (enc_state v); db_headers := db_headers db; db_datas := db_datas db; db_sigs := db_sigs db |}, RDone true).
Proof.
  intros db v H. cbn [sstep]. unfold update_state. destruct (state_roundtrip v H) as [Hm _]. rewrite Hm. reflexivity.
Qed.

(* from ANY datastore: UpdateState of a well-formed state succeeds, and after any steps that are not an
   UpdateState (reads whose results are then overwritten, reopens, block saves) GetState returns that state *)
Lemma state_read_returns_last_write : forall db v mid, wf_state v ->
  forallb (fun o => negb (is_update_state o)) mid = true ->
  snd (sstep pk db (SUpdateState v)) = RDone true /\
  snd (sstep pk (sexec pk (fst (sstep pk db (SUpdateState v))) mid) SGetState) = RState (Some v).
Proof.
  intros db v mid Hwf Hmid. rewrite (update_state_ok db v Hwf). cbn [fst snd]. split; [reflexivity|].
  cbn [sstep snd]. unfold get_state. rewrite (sexec_keeps_state mid _ Hmid). cbn [db_state].
  destruct (state_roundtrip v Hwf) as [_ Hd]. rewrite Hd. reflexivity.
Qed.

(* ---- the block path ---- *)
Definition neqb_eq : forall a b : N, (a =? b) = true <-> a = b := N.eqb_eq.

Lemma sstep_keeps_height : forall db o h, saves_height h o = false ->
  mget N.eqb (db_headers (fst (sstep pk db o))) h = mget N.eqb (db_headers db) h /\
  mget N.eqb (db_datas (fst (sstep pk db o))) h = mget N.eqb (db_datas db) h /\
  mget N.eqb (db_sigs (fst (sstep pk db o))) h = mget N.eqb (db_sigs db) h.
Proof.
  intros db [v| |sh d sg|h'|h'|h'|] h H; cbn [sstep fst]; try (repeat split; reflexivity).
  - unfold update_state. destruct (marshal_state v); cbn [fst db_headers db_datas db_sigs]; repeat split; reflexivity.
  - cbn [saves_height] in H. unfold save_block.
    destruct (marshal_signed_header sh); [|cbn [fst]; repeat split; reflexivity].
    destruct (marshal_data d); cbn [fst db_headers db_datas db_sigs]; [|repeat split; reflexivity].
    rewrite !(mget_mset N.eqb neqb_eq), H. repeat split; reflexivity.
Qed.

Lemma sexec_keeps_height : forall mid db h, forallb (fun o => negb (saves_height h o)) mid = true ->
  mget N.eqb (db_headers (sexec pk db mid)) h = mget N.eqb (db_headers db) h /\
  mget N.eqb (db_datas (sexec pk db mid)) h = mget N.eqb (db_datas db) h /\
  mget N.eqb (db_sigs (sexec pk db mid)) h = mget N.eqb (db_sigs db) h.
Proof.
  induction mid as [|o mid IH]; intros db h H; [repeat split; reflexivity|].
  cbn [forallb] in H. apply andb_true_iff in H. destruct H as [H1 H2]. apply negb_true_iff in H1.
  rewrite sexec_cons. destruct (IH (fst (sstep pk db o)) h H2) as (A & B & C).
  destruct (sstep_keeps_height db o h H1) as (A' & B' & C').
  rewrite A, B, C, A', B', C'. repeat split; reflexivity.
Qed.

(* from ANY datastore: SaveBlockData of a well-formed block succeeds, and after any steps that do not save a
   block of the same height, GetHeader / GetBlockData / GetSignature at that height return what was saved *)
Lemma block_read_returns_last_write : forall db sh d sg mid, wf_signed_header pk sh -> wf_data d ->
  let h := h_height (sh_header sh) in
  forallb (fun o => negb (saves_height h o)) mid = true ->
  snd (sstep pk db (SSaveBlock sh d sg)) = RDone true /\
  let db' := sexec pk (fst (sstep pk db (SSaveBlock sh d sg))) mid in
  snd (sstep pk db' (SGetHeader h)) = RHeader (Some sh) /\
  snd (sstep pk db' (SGetBlock h)) = RBlock (Some (sh, d)) /\
  snd (sstep pk db' (SGetSig h)) = RSig (Some sg).
Proof.
  intros db sh d sg mid Hsh Hd h Hmid.
  destruct (signed_header_roundtrip pk sh Hsh) as [Hm1 Hd1].
  destruct (data_roundtrip d Hd) as [Hm2 Hd2].
  assert (Hstep : sstep pk db (SSaveBlock sh d sg) =
                  ({| db_state := db_state db; db_headers := mset N.eqb (db_headers db) h (enc_signed_header sh);
                      db_datas := mset N.eqb (db_datas db) h (enc_data d); db_sigs := mset N.eqb (db_sigs db) h sg |}, RDone true)).
  { cbn [sstep]. unfold save_block. rewrite Hm1, Hm2. reflexivity. }
  rewrite Hstep. cbn [fst snd]. split; [reflexivity|].
  cbv zeta. set (db1 := {| db_state := db_state db; db_headers := _; db_datas := _; db_sigs := _ |}).
  destruct (sexec_keeps_height mid db1 h Hmid) as (A & B & C).
  assert (Ah : mget N.eqb (db_headers (sexec pk db1 mid)) h = Some (enc_signed_header sh)).
  { rewrite A. unfold db1. cbn [db_headers]. rewrite (mget_mset N.eqb neqb_eq), N.eqb_refl. reflexivity. }
  assert (Bh : mget N.eqb (db_datas (sexec pk db1 mid)) h = Some (enc_data d)).
  { rewrite B. unfold db1. cbn [db_datas]. rewrite (mget_mset N.eqb neqb_eq), N.eqb_refl. reflexivity. }
  assert (Ch : mget N.eqb (db_sigs (sexec pk db1 mid)) h = Some sg).
  { rewrite C. unfold db1. cbn [db_sigs]. rewrite (mget_mset N.eqb neqb_eq), N.eqb_refl. reflexivity. }
  cbn [sstep snd]. unfold get_block, get_header, get_sig. rewrite Ah, Bh, Ch, Hd1, Hd2. repeat split; reflexivity.
Qed.

(* a write that fails (a chain id that is not UTF-8) leaves the datastore as it was *)
Lemma failed_write_changes_nothing : forall db o, snd (sstep pk db o) = RDone false -> fst (sstep pk db o) = db.
Proof.
  intros db [v| |sh d sg|h|h|h|]; cbn [sstep]; try (intros; reflexivity).
  - unfold update_state. destruct (marshal_state v); cbn [fst snd]; [discriminate | reflexivity].
  - unfold save_block. destruct (marshal_signed_header sh); [|reflexivity].
    destruct (marshal_data d); cbn [fst snd]; [discriminate | reflexivity].
Qed.
End WithPubKeys.

(* ---- the statements of Props/C12.v ---- *)
Lemma store_reads_pure_all : forall pk db,
  (forall o, is_write o = false -> fst (sstep pk db o) = db) /\
  (forall mid, forallb (fun o => negb (is_write o)) mid = true -> sexec pk db mid = db) /\
  (forall mid o, forallb (fun o => negb (is_write o)) mid = true ->
                 snd (sstep pk (sexec pk db mid) o) = snd (sstep pk db o)) /\
  (forall o, snd (sstep pk db o) = RDone false -> fst (sstep pk db o) = db).
Proof.
  intros pk db. split; [|split; [|split]].
  - intros o H. apply sstep_read_db. exact H.
  - intros mid H. apply sexec_reads. exact H.
  - intros mid o H. apply read_repeatable. exact H.
  - intros o H. apply failed_write_changes_nothing. exact H.
Qed.

(* the same as statements about the observation list of a whole history: a store opened over ANY datastore [d0],
   ANY calls [pre], the write, calls [mid] that do not write the same key again, the read, anything after *)
Lemma store_history_state : forall pk d0 pre v mid post, wf_state v ->
  forallb (fun o => negb (is_update_state o)) mid = true ->
  exists db, nth_error (store_history pk d0 (pre ++ SUpdateState v :: mid ++ SGetState :: post)) (length pre + S (length mid)) =
             Some (RState (Some v), db).
Proof.
  intros pk d0 pre v mid post Hwf Hmid. unfold store_history.
  assert (E : pre ++ SUpdateState v :: mid ++ SGetState :: post = (pre ++ SUpdateState v :: mid) ++ SGetState :: post).
  { rewrite <- app_assoc. reflexivity. }
  assert (L : (length pre + S (length mid))%nat = length (pre ++ SUpdateState v :: mid)).
  { rewrite app_length. reflexivity. }
  rewrite L, (srun_nth pk _ d0 _ SGetState post E).
  rewrite sexec_app, sexec_cons.
  destruct (state_read_returns_last_write pk (sexec pk d0 pre) v mid Hwf Hmid) as [_ H]. rewrite H.
  eexists. reflexivity.
Qed.

Lemma store_history_block : forall pk d0 pre sh d sg mid post, wf_signed_header pk sh -> wf_data d ->
  let h := h_height (sh_header sh) in
  forallb (fun o => negb (saves_height h o)) mid = true ->
  forall rd want, (rd = SGetHeader h /\ want = RHeader (Some sh)) \/ (rd = SGetBlock h /\ want = RBlock (Some (sh, d))) \/
                  (rd = SGetSig h /\ want = RSig (Some sg)) ->
  exists db, nth_error (store_history pk d0 (pre ++ SSaveBlock sh d sg :: mid ++ rd :: post)) (length pre + S (length mid)) =
             Some (want, db).
Proof.
  intros pk d0 pre sh d sg mid post Hsh Hd h Hmid rd want Hrd. subst h. unfold store_history.
  assert (E : pre ++ SSaveBlock sh d sg :: mid ++ rd :: post = (pre ++ SSaveBlock sh d sg :: mid) ++ rd :: post).
  { rewrite <- app_assoc. reflexivity. }
  assert (L : (length pre + S (length mid))%nat = length (pre ++ SSaveBlock sh d sg :: mid)).
  { rewrite app_length. reflexivity. }
  rewrite L, (srun_nth pk _ d0 _ rd post E).
  rewrite sexec_app, sexec_cons.
  destruct (block_read_returns_last_write pk (sexec pk d0 pre) sh d sg mid Hsh Hd Hmid) as [_ (H1 & H2 & H3)].
  destruct Hrd as [[-> ->]|[[-> ->]|[-> ->]]]; [rewrite H1 | rewrite H2 | rewrite H3]; eexists; reflexivity.
Qed.
