(* Proofs/QueueStartsProofs.v — the records every starting process finds are exactly the batches pending, in acceptance
   order, and the new process's queue is exactly those records (Model/QueueStarts.v). *)
From Coq Require Import NArith List Bool Lia.
From Verif Require Import Model.Queue Model.QueueBudget Model.QueueStarts Proofs.QueueProofs.
Import ListNotations.
Open Scope N_scope.

(* under the refinement invariant the durable records ARE the keyed FIFO, and so is the in-memory queue *)
Lemma rinv_db_mem rst q : RInv rst q -> db (core rst) = q /\ mem (core rst) = q.
Proof.
  intros ((Hm & _ & Hd & Hin) & Hs & _). split; [|exact Hm].
  apply sorted_ext; assumption.
Qed.

Lemma v_start_images_cons st it r :
  v_start_images st (it :: r) =
  (if is_start it then [db (core (vr (fst (v_step st it))))] else []) ++ v_start_images (fst (v_step st it)) r.
Proof. reflexivity. Qed.

Lemma v_start_queues_cons st it r :
  v_start_queues st (it :: r) =
  (if is_start it then [mem (core (vr (fst (v_step st it))))] else []) ++ v_start_queues (fst (v_step st it)) r.
Proof. reflexivity. Qed.

Lemma sv_start_queues_cons max q it r :
  sv_start_queues max q (it :: r) =
  (if is_start it then [fst (s_item max q (v_plain it))] else []) ++
  sv_start_queues (v_next_max max it) (fst (s_item max q (v_plain it))) r.
Proof. reflexivity. Qed.

(* for ALL histories from any state satisfying the invariant *)
Theorem v_starts_refine : forall h st q,
  RInv (vr st) q ->
  map (map snd) (v_start_images st h) = sv_start_queues (vmax st) (map snd q) h /\
  v_start_queues st h = v_start_images st h.
Proof.
  induction h as [|it r IH]; intros st q HI.
  - split; reflexivity.
  - destruct (v_step_r st it) as (Hr & _ & Hm).
    destruct (r_step_refines (vmax st) (vr st) q (v_plain it) HI) as [_ HI'].
    destruct (a_item_proj (vmax st) q (nseq (vr st)) (v_plain it)) as [Hp1 _].
    rewrite <- Hr in HI'.
    destruct (rinv_db_mem _ _ HI') as [Hdb Hmem].
    destruct (IH _ _ HI') as [IH1 IH2].
    rewrite v_start_images_cons, v_start_queues_cons, sv_start_queues_cons.
    rewrite Hdb, Hmem, IH2. split; [|reflexivity].
    rewrite map_app, <- Hm, <- Hp1.
    f_equal; [destruct (is_start it); reflexivity | exact IH1].
Qed.

(* from the empty store, budgets and bounds being what they may *)
Theorem b_starts_full : forall max0 h,
  map (map snd) (b_start_images max0 h) = sv_start_queues max0 [] (map b_vitem h) /\
  b_start_queues max0 h = b_start_images max0 h.
Proof.
  intros max0 h. exact (v_starts_refine (map b_vitem h) (v_st0 max0) [] (rinv_v0 max0)).
Qed.

(* the keys of the records found at a start are strictly increasing (so "in key order" is "in acceptance order") *)
Theorem v_start_images_sorted : forall h st q,
  RInv (vr st) q -> Forall (fun d => ssorted (keys d) = true) (v_start_images st h).
Proof.
  induction h as [|it r IH]; intros st q HI.
  - constructor.
  - destruct (v_step_r st it) as (Hr & _ & _).
    destruct (r_step_refines (vmax st) (vr st) q (v_plain it) HI) as [_ HI'].
    rewrite <- Hr in HI'.
    rewrite v_start_images_cons. apply Forall_app. split; [|exact (IH _ _ HI')].
    destruct (is_start it); [|constructor]. constructor; [|constructor].
    destruct HI' as ((_ & _ & Hd & _) & _). exact Hd.
Qed.

Theorem b_start_images_sorted : forall max0 h,
  Forall (fun d => ssorted (keys d) = true) (b_start_images max0 h).
Proof. intros max0 h. exact (v_start_images_sorted (map b_vitem h) (v_st0 max0) [] (rinv_v0 max0)). Qed.
