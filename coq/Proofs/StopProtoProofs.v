(* Proofs/StopProtoProofs.v — prompt stop for activities whose blocking points are all cancellable;
   a non-cancellable point can hang forever. *)
From Coq Require Import String List Bool Arith Lia.
From Verif Require Import Model.StopProto.
Import ListNotations.

Lemma run_returned pts ms : run_cancelled pts Returned ms = Returned.
Proof. induction ms as [|m ms IH]; [reflexivity | exact IH]. Qed.

Lemma goto_in pts p i q : In p pts -> goto pts p i = Running q -> In q pts.
Proof.
  unfold goto; intros Hp. destruct (nth_error pts i) as [x|] eqn:E; intros H; inversion H; subst.
  - eapply nth_error_In; eauto.
  - exact Hp.
Qed.

(* every activity all of whose points are cancellable returns within K+1 visits after cancellation,
   K = number of times the environment makes select prefer another ready case *)
Theorem prompt_stop (pts : list bpoint) :
  forallb bp_cancellable pts = true ->
  forall (ms : list move) (p : bpoint),
    In p pts -> others ms < length ms -> run_cancelled pts (Running p) ms = Returned.
Proof.
  intros Hall. rewrite forallb_forall in Hall.
  induction ms as [|m ms IH]; intros p Hp Hlt; [cbn in Hlt; lia|].
  unfold run_cancelled; cbn [fold_left step_cancelled]. rewrite (Hall p Hp).
  unfold others in Hlt; cbn [filter length] in Hlt.
  destruct (mv_ready m && mv_pick_other m) eqn:E.
  - cbn [length] in Hlt.
    destruct (goto pts p (mv_next m)) as [q|] eqn:G; [|apply run_returned].
    apply IH; [eapply goto_in; eauto | unfold others; lia].
  - apply run_returned.
Qed.

(* a non-cancellable point: the environment that never completes the operation keeps the activity there for ever *)
Theorem non_cancellable_can_hang (pts : list bpoint) (p : bpoint) :
  bp_cancellable p = false -> forall n, run_cancelled pts (Running p) (repeat block_forever n) = Running p.
Proof.
  intros Hc n; induction n as [|n IH]; [reflexivity|].
  unfold run_cancelled in *; cbn [repeat fold_left step_cancelled]. rewrite Hc. cbn. exact IH.
Qed.

Lemma activity_points_in t reach p : In p (activity_points t reach) -> In p t.
Proof. unfold activity_points; intros H; apply filter_In in H; tauto. Qed.

(* the theorem stated on a table and a reach list (used with the regenerated table) *)
Theorem prompt_stop_activity (t : list bpoint) (reach : list string) :
  all_cancellable t reach = true ->
  forall ms p, In p (activity_points t reach) -> others ms < length ms ->
               run_cancelled (activity_points t reach) (Running p) ms = Returned.
Proof. unfold all_cancellable. apply prompt_stop. Qed.
