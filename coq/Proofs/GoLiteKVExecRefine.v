(* Proofs/GoLiteKVExecRefine.v — the translated transaction walk of KVExecutor.ExecuteTxs refines KVExec.parse_tx /
   parse_block (Model/KVExec.v), the functions the theorems of C15 ("the state root depends only on the executed
   transactions") are stated over.

   The world of one transaction [tx] is the one the model's string functions describe: SplitN finds a "=" iff
   split_eq does; TrimSpace gives [trim] of the two halves; ds.NewKey gives [clean_key] of the trimmed key; the batch
   accepts the Put.
     tx_refines_parse_tx       the translated body stages exactly the pair parse_tx yields, and leaves the function
                               exactly when parse_tx yields none;
     walk_refines_parse_block  the walk over a block with the code's body, stopping at the first transaction whose
                               body leaves the function, ends "left" exactly when parse_block is None, and otherwise
                               has staged exactly parse_block's pairs, in order; so (go_KV_ExecuteTxs) Commit is
                               called exactly for the blocks with block_ok, after exactly those Puts. *)
From Coq Require Import String List NArith ZArith Bool Lia.
From Verif Require Import Model.GoLite Check.GoLiteKVExec.
From Verif Require Model.KVExec.
Import ListNotations.
Open Scope list_scope.

Definition world_of (tx : string) : tworld :=
  match KVExec.split_eq tx with
  | Some (k, v) => {| t_two := true; t_key := KVExec.trim k; t_ck := KVExec.clean_key (KVExec.trim k);
                      t_val := KVExec.trim v; t_put_ok := true |}
  | None => {| t_two := false; t_key := EmptyString; t_ck := EmptyString; t_val := EmptyString; t_put_ok := true |}
  end.

Lemma reserved_same : forall k, GoLiteKVExec.reserved k = KVExec.reserved k.
Proof. reflexivity. Qed.

Theorem tx_refines_parse_tx : forall tx,
  staged (world_of tx) = match KVExec.parse_tx tx with Some p => [p] | None => [] end /\
  left_fn (world_of tx) = match KVExec.parse_tx tx with Some _ => false | None => true end.
Proof.
  intros tx. rewrite staged_iff_accepted, left_iff_refused. unfold accepted, world_of, KVExec.parse_tx.
  destruct (KVExec.split_eq tx) as [[k v]|]; cbn [t_two t_key t_ck t_val t_put_ok andb negb]; [|split; reflexivity].
  unfold str_eqb. destruct (String.eqb (KVExec.trim k) ""); cbn [negb andb]; [split; reflexivity|].
  rewrite reserved_same. destruct (KVExec.reserved (KVExec.clean_key (KVExec.trim k))); split; reflexivity.
Qed.

(* the walk, with the code's body *)
Fixpoint code_walk (txs : list string) : bool * list (string * string) :=
  match txs with
  | [] => (false, [])
  | tx :: r =>
      if left_fn (world_of tx) then (true, staged (world_of tx))
      else let '(l, ps) := code_walk r in (l, staged (world_of tx) ++ ps)
  end.

Theorem walk_refines_parse_block : forall txs,
  match KVExec.parse_block txs with
  | Some ps => code_walk txs = (false, ps)
  | None => fst (code_walk txs) = true
  end.
Proof.
  induction txs as [|tx r IH]; [reflexivity|].
  cbn [code_walk KVExec.parse_block]. destruct (tx_refines_parse_tx tx) as [Hs Hl]. rewrite Hs, Hl.
  destruct (KVExec.parse_tx tx) as [p|]; [|reflexivity].
  destruct (KVExec.parse_block r) as [ps|].
  - rewrite IH. reflexivity.
  - destruct (code_walk r) as [l ps']. cbn [fst] in IH. subst l. reflexivity.
Qed.

(* with go_KV_ExecuteTxs: the block is committed exactly when the model says block_ok *)
Corollary commit_iff_block_ok : forall txs (w : xworld),
  x_cancel w = false -> x_batch_ok w = true -> x_left w = fst (code_walk txs) ->
  existsb (fun e => match e with VEff n _ => String.eqb n "batch.Commit" | _ => false end) (snd (exec_expect w))
  = KVExec.block_ok txs.
Proof.
  intros txs w Hc Hb Hl. unfold exec_expect, KVExec.block_ok. rewrite Hc, Hb, Hl. cbn [negb].
  pose proof (walk_refines_parse_block txs) as H.
  destruct (KVExec.parse_block txs) as [ps|].
  - rewrite H. cbn [fst]. destruct (x_commit_ok w); [destruct (x_root_ok w)|]; reflexivity.
  - rewrite H. reflexivity.
Qed.

(* non-vacuity: a block of two good transactions is staged in order; one bad transaction refuses the block *)
Example stages_somewhere : code_walk ["a=1"; " b = 2 "]%string = (false, [("/a", "1"); ("/b", "2")]%string).
Proof. vm_compute. reflexivity. Qed.
Example refuses_somewhere : fst (code_walk ["a=1"; "genesis/initialized=x"; "c=3"]%string) = true.
Proof. vm_compute. reflexivity. Qed.

Print Assumptions tx_refines_parse_tx.
Print Assumptions walk_refines_parse_block.
Print Assumptions commit_iff_block_ok.
