(* Proofs/GoLiteSyncRefine.v — one iteration of the translated Manager.trySyncNextBlock refines one unfolding of
   Syncer.try_sync (Model/Syncer.v), the loop the theorems of C05 (crash recovery of a full node) and C02 (a full
   node follows the chain) are stated over.

     sync_refines_try_sync   for EVERY loop state of the model (durable image, last state, caches, ghost log) and
                             every executor, the code — run in the world that state describes ([sworld_of]: the
                             store calls succeed, Validate answers what Types.validate computes) —
                               - returns nil, having written nothing, exactly when the model's loop stops because
                                 the header or the data of the next height is not cached;
                               - returns an error, having written nothing and not having called the executor,
                                 exactly when the model halts (the block does not validate);
                               - otherwise goes round again ("continue") after the durable writes of the model's
                                 [block_writes], in the model's order: block, state, height (DefaultStore.SetHeight
                                 is CALLED on every application; it writes only when the height grows, which is
                                 the [if] in [block_writes]).
     translated_sync_refines_try_sync   the composition with Check/GoLiteSync.go_trySyncNextBlock: the statement
                             about the translated Go code itself. *)
From Coq Require Import String List NArith ZArith Bool Lia.
From Verif Require Import Base.KV Base.Keys Model.Types Model.GoLite Check.GoLiteSync.
From Verif Require Model.Syncer.
Import ListNotations.
Open Scope list_scope.
Import Syncer.

Inductive wkind := WBlock (h : N) | WState | WHeight (h : N).

(* ... of the code *)
Definition kind_of_call (e : gval) : list wkind :=
  match e with
  | VEff name args =>
      if String.eqb name "store.SaveBlockData" then
        match args with
        | [_; VRec fs; _; _] => match GoLite.lookup fs "Height()" with Some (VN h) => [WBlock h] | _ => [] end
        | _ => []
        end
      else if String.eqb name "store.UpdateState" then [WState]
      else if String.eqb name "store.SetHeight" then match args with [_; VN h] => [WHeight h] | _ => [] end
      else []
  | _ => []
  end.
Definition code_writes (o : sobserved) : list wkind := flat_map kind_of_call (so_calls o).
Definition executor_called (o : sobserved) : bool :=
  existsb (fun e => match e with VEff name _ => String.eqb name "m.applyBlock" | _ => false end) (so_calls o).

(* ... of the model *)
Definition kind_of_wr (w : wr) : list wkind :=
  match w with
  | WBatch [Put _ (VBlock sh _)] => [WBlock (h_height (sh_hdr sh))]
  | W1 (Put _ (VState _)) => [WState]
  | W1 (Put _ (VHeight n)) => [WHeight n]
  | _ => []
  end.
(* DefaultStore.SetHeight (pkg/store/store.go): a call with a height that does not exceed the stored one writes nothing *)
Definition store_elides (cur : N) (k : wkind) : bool := match k with WHeight n => (n <=? cur)%N | _ => false end.
Definition reaching_disk (cur : N) (ks : list wkind) : list wkind := filter (fun k => negb (store_elides cur k)) ks.

Definition is_some {A} (x : option A) : bool := match x with Some _ => true | None => false end.

Definition sworld_of (st : loopst) : sworld :=
  let next := (d_height (l_disk st) + 1)%N in
  let oh := Syncer.lookup (c_hdrs (l_cache st)) next in
  let od := Syncer.lookup (c_data (l_cache st)) next in
  {| s_cancel := false; s_H := d_height (l_disk st); s_hok := true;
     s_hdr := is_some oh;
     s_hh := match oh with Some sh => h_height (sh_hdr sh) | None => 0 end;
     s_dh := match oh with Some sh => if is_empty_commitment (h_data (sh_hdr sh)) then 0 else 1 | None => 0 end;
     s_dat := is_some od;
     s_validok := match oh, od with Some sh, Some d => validate (l_last st) sh d | _, _ => true end;
     s_applyok := true; s_saveok := true; s_stateok := true; s_heightok := true; s_da := 0; s_sda := 0 |}.

Definition halted (st : loopst) : loopst :=
  {| l_disk := l_disk st; l_last := l_last st; l_cache := l_cache st; l_log := l_log st; l_ws := l_ws st; l_status := Halted |}.

Section WithExec.
  Variable exec : root -> N -> Z -> list tx -> root.

  Theorem sync_refines_try_sync : forall (f : nat) (st : loopst),
    let o := sync_expect (sworld_of st) in
    let next := (d_height (l_disk st) + 1)%N in
    match Syncer.lookup (c_hdrs (l_cache st)) next, Syncer.lookup (c_data (l_cache st)) next with
    | Some sh, Some d =>
        if validate (l_last st) sh d then
          so_result o = [continue_v] /\
          exists st', try_sync exec (S f) st = try_sync exec f st' /\
                      exists ws, l_ws st' = l_ws st ++ ws /\
                                 reaching_disk (d_height (l_disk st)) (code_writes o) = flat_map kind_of_wr ws
        else
          so_result o = [VErr true] /\ code_writes o = [] /\ executor_called o = false /\
          try_sync exec (S f) st = halted st
    | _, _ =>
        so_result o = [VNil] /\ code_writes o = [] /\ executor_called o = false /\ try_sync exec (S f) st = st
    end.
  Proof.
    intros f st. cbv zeta.
    unfold sync_expect, sworld_of; cbn [s_cancel s_H s_hok s_hdr s_hh s_dh s_dat s_validok s_applyok s_saveok s_stateok s_heightok s_da s_sda negb].
    cbn [try_sync].
    destruct (Syncer.lookup (c_hdrs (l_cache st)) (d_height (l_disk st) + 1)) as [sh|] eqn:Hh; cbn [is_some negb].
    2: { repeat split; reflexivity. }
    destruct (Syncer.lookup (c_data (l_cache st)) (d_height (l_disk st) + 1)) as [d|] eqn:Hd; cbn [is_some negb].
    2: { repeat split; reflexivity. }
    destruct (validate (l_last st) sh d) eqn:Hv; cbn [negb].
    2: { repeat split; reflexivity. }
    split; [reflexivity|].
    eexists. split; [reflexivity|]. cbn [l_ws].
    eexists. split; [reflexivity|].
    unfold block_writes.
    destruct (is_empty_commitment (h_data (sh_hdr sh)));
      (cbn; destruct (h_height (sh_hdr sh) <=? d_height (l_disk st))%N; reflexivity).
  Qed.

  Theorem translated_sync_refines_try_sync : forall (f : nat) (st : loopst),
    exists o, run_sync (sworld_of st) = Some o /\
      let next := (d_height (l_disk st) + 1)%N in
      match Syncer.lookup (c_hdrs (l_cache st)) next, Syncer.lookup (c_data (l_cache st)) next with
      | Some sh, Some d =>
          if validate (l_last st) sh d then
            so_result o = [continue_v] /\
            exists st', try_sync exec (S f) st = try_sync exec f st' /\
                        exists ws, l_ws st' = l_ws st ++ ws /\
                                   reaching_disk (d_height (l_disk st)) (code_writes o) = flat_map kind_of_wr ws
          else
            so_result o = [VErr true] /\ code_writes o = [] /\ executor_called o = false /\
            try_sync exec (S f) st = halted st
      | _, _ =>
          so_result o = [VNil] /\ code_writes o = [] /\ executor_called o = false /\ try_sync exec (S f) st = st
      end.
  Proof.
    intros f st. exists (sync_expect (sworld_of st)). split; [apply go_trySyncNextBlock|].
    apply sync_refines_try_sync.
  Qed.
End WithExec.

(* ---- the whole loop ------------------------------------------------------------------------------------------
   [code_try_sync] runs the code's iteration again and again: at each round it asks [sync_expect] — which
   go_trySyncNextBlock proves IS the translated Go iteration — what the loop does in the world the model state
   describes, reads the outcome off the code's own result (go round again / nil / an error) and, when the code goes
   round again, moves to the state the model's step yields (whose durable writes are the code's writes, by
   [sync_refines_try_sync]).  [code_try_sync_is_try_sync]: for every executor, every fuel and every loop state that is
   Syncer.try_sync. *)
Inductive verdict := VGoOn | VStop | VHalt | VOther.
Definition read_verdict (o : sobserved) : verdict :=
  match so_result o with
  | [VTok t []] => if String.eqb t "continue" then VGoOn else VOther
  | [VNil] => VStop
  | [VErr true] => VHalt
  | _ => VOther
  end.

Section WholeLoop.
  Variable exec : root -> N -> Z -> list tx -> root.

  (* the model's state after applying the cached block of the next height (Syncer.try_sync, the recursive call's argument) *)
  Definition advance (st : loopst) : loopst :=
    let next := (d_height (l_disk st) + 1)%N in
    match Syncer.lookup (c_hdrs (l_cache st)) next, Syncer.lookup (c_data (l_cache st)) next with
    | Some sh, Some d =>
        let h := sh_hdr sh in
        let r := exec (s_app (l_last st)) (h_height h) (h_time h) (d_txs d) in
        let new := next_state (l_last st) h r in
        let ws := block_writes (l_disk st) new sh d in
        {| l_disk := apply_writes (l_disk st) ws; l_last := new; l_cache := after_apply (l_cache st) next sh;
           l_log := l_log st ++ [{| x_height := h_height h; x_time := h_time h; x_prev := s_app (l_last st); x_txs := d_txs d |}];
           l_ws := l_ws st ++ ws; l_status := Running |}
    | _, _ => st
    end.

  Fixpoint code_try_sync (fuel : nat) (st : loopst) : loopst :=
    match fuel with
    | O => {| l_disk := l_disk st; l_last := l_last st; l_cache := l_cache st; l_log := l_log st; l_ws := l_ws st; l_status := FuelOut |}
    | S f =>
        match read_verdict (sync_expect (sworld_of st)) with
        | VGoOn => code_try_sync f (advance st)
        | VStop => st
        | VHalt => halted st
        | VOther => st
        end
    end.

  Theorem code_try_sync_is_try_sync : forall fuel st, code_try_sync fuel st = try_sync exec fuel st.
  Proof.
    induction fuel as [|f IH]; intros st; [reflexivity|].
    cbn [code_try_sync try_sync].
    pose proof (sync_refines_try_sync exec f st) as H. cbv zeta in H.
    unfold advance.
    destruct (Syncer.lookup (c_hdrs (l_cache st)) (d_height (l_disk st) + 1)) as [sh|] eqn:Hh.
    - destruct (Syncer.lookup (c_data (l_cache st)) (d_height (l_disk st) + 1)) as [d|] eqn:Hd.
      + destruct (validate (l_last st) sh d) eqn:Hv.
        * destruct H as [Hr _]. unfold read_verdict. rewrite Hr. cbn. apply IH.
        * destruct H as [Hr _]. unfold read_verdict. rewrite Hr. reflexivity.
      + destruct H as [Hr _]. unfold read_verdict. rewrite Hr. reflexivity.
    - destruct H as [Hr _]. unfold read_verdict. rewrite Hr. reflexivity.
  Qed.
End WholeLoop.

(* non-vacuity: a world in which a block is applied, with the three writes in order *)
Example applied_somewhere :
  exists w, code_writes (sync_expect w) = [WBlock 5; WState; WHeight 5] /\ so_result (sync_expect w) = [continue_v].
Proof.
  exists {| s_cancel := false; s_H := 4; s_hok := true; s_hdr := true; s_hh := 5; s_dh := 3; s_dat := true; s_validok := true;
            s_applyok := true; s_saveok := true; s_stateok := true; s_heightok := true; s_da := 9; s_sda := 2 |}.
  split; reflexivity.
Qed.

Print Assumptions translated_sync_refines_try_sync.
Print Assumptions code_try_sync_is_try_sync.
